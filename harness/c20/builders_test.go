package c20

import (
	"crypto/sha256"
	"encoding/binary"
	"fmt"
	"math/big"
	"runtime"
	"testing"

	"pgregory.net/rapid"

	"verif/harness/internal/gen"
	"verif/harness/internal/inst"
	"verif/harness/internal/ref"
	"verif/harness/internal/rep"
)

// Derived builders against their definitions: iop.Evaluate(expr, …), DivideByXMinusOne,
// BuildRatioShuffledVectors, BuildRatioCopyConstraint.

func (c *cx) spec() gen.FieldSpec {
	return gen.FieldSpec{Q: c.F.Q, NLimbs: (c.F.Q.BitLen() + 63) / 64, LimbBits: 64}
}

// expand derives the i-th field element from a rapid-drawn seed (bulk "uniform" data: a pure function of the draw).
func (c *cx) expand(seed uint64, i int) *big.Int {
	var b [16]byte
	binary.BigEndian.PutUint64(b[:8], seed)
	binary.BigEndian.PutUint64(b[8:], uint64(i))
	h1 := sha256.Sum256(b[:])
	b[0] ^= 0x80
	h2 := sha256.Sum256(b[:])
	b[0] ^= 0x40
	h3 := sha256.Sum256(b[:])
	v := new(big.Int).SetBytes(append(append(h1[:], h2[:]...), h3[:]...))
	return v.Mod(v, c.F.Q)
}

// drawElems draws n field elements: uniform bulk, boundary-lattice members, or sparse.
func drawElems(t *rapid.T, c *cx, n int, label string) ([]*big.Int, string) {
	out := make([]*big.Int, n)
	kind := rapid.IntRange(0, 7).Draw(t, label+"kind")
	seed := rapid.Uint64().Draw(t, label+"seed")
	if n == 0 {
		return out, "empty"
	}
	switch kind {
	case 0, 1, 2:
		for i := range out {
			out[i] = c.expand(seed, i)
		}
		return out, "uniform"
	case 3:
		s := c.spec()
		for i := range out {
			if i < 6 {
				out[i], _ = s.Elem(t, fmt.Sprintf("%s%d", label, i))
			} else {
				out[i] = c.expand(seed, i)
			}
		}
		return out, "lattice_head"
	case 4:
		for i := range out {
			out[i] = new(big.Int)
		}
		for k := rapid.IntRange(0, 3).Draw(t, label+"nnz"); k > 0; k-- {
			out[rapid.IntRange(0, n-1).Draw(t, label+"pos")] = c.expand(seed, k)
		}
		return out, "sparse"
	case 5:
		for i := range out {
			out[i] = new(big.Int)
		}
		return out, "zero"
	case 6:
		for i := range out {
			out[i] = new(big.Int)
		}
		out[0] = c.expand(seed, 0)
		return out, "constant"
	default:
		v := rapid.SampledFrom([]int64{1, -1, 2}).Draw(t, label+"fill")
		for i := range out {
			out[i] = c.F.Red(bi(v))
		}
		return out, "all_equal"
	}
}

func drawElem(t *rapid.T, c *cx, label string) *big.Int {
	if rapid.Bool().Draw(t, label+"lat") {
		v, _ := c.spec().Elem(t, label)
		return v
	}
	return c.expand(rapid.Uint64().Draw(t, label+"seed"), 0)
}

func drawShift(t *rapid.T, size int, label string) int {
	if rapid.IntRange(0, 3).Draw(t, label+"wide") == 0 {
		return rapid.IntRange(-3*size-2, 3*size+9).Draw(t, label)
	}
	return rapid.SampledFrom(shiftList(size)).Draw(t, label)
}

// drawRtShift: the shift of an object about to be serialised (or any state-machine shift).
func drawRtShift(t *rapid.T, size int, label string) int {
	if rapid.IntRange(0, 2).Draw(t, label+"rt") == 0 {
		return drawShift(t, size, label)
	}
	return rapid.SampledFrom(rtShiftList(size)).Draw(t, label)
}

var sizesNotPow2 = []int{3, 5, 6, 7, 12, 13, 17, 31, 33}

// drawInit draws the size and the initial object: a power of two (any form on rho*size entries), or a size that is
// not one - then the bare coefficient vector (Canonical/Regular, size entries) or any form on the next power of two
// (times rho) declared with SetSize(size).
func drawInit(t *rapid.T, maxLg int, label string) (size int, f inst.IopForm, n0 int, classes []string) {
	f = rapid.SampledFrom(allForms).Draw(t, label+"form")
	rho := rapid.SampledFrom([]int{1, 1, 1, 2, 4}).Draw(t, label+"rho0")
	if rapid.IntRange(0, 2).Draw(t, label+"notpow2") == 0 {
		size = rapid.SampledFrom(sizesNotPow2).Draw(t, label+"size")
		classes = append(classes, "size_not_pow2")
		if rapid.IntRange(0, 2).Draw(t, label+"bare") == 0 {
			return size, canReg, size, append(classes, "init_bare_vector")
		}
		return size, f, np2(size) * rho, append(classes, "init_extended")
	}
	size = 1 << rapid.IntRange(0, maxLg).Draw(t, label+"lg")
	if rho > 1 {
		classes = append(classes, "init_extended")
	}
	return size, f, size * rho, classes
}

func drawCosetShift(t *rapid.T, c *cx, maxN int) *big.Int {
	return altShift(c, rapid.IntRange(0, 1).Draw(t, "cosetshift"), maxN)
}

func sameVec(a, b []*big.Int) bool {
	if len(a) != len(b) {
		return false
	}
	for i := range a {
		if a[i].Cmp(b[i]) != 0 {
			return false
		}
	}
	return true
}

// guardT runs f and reports a library panic (runtime error, panic(string), panic(error)) as a readable
// failure; the control-flow panics of rapid (unexported types) pass through untouched.
func guardT(t TB, what string, f func()) {
	defer func() {
		if r := recover(); r != nil {
			if !libraryPanic(r) {
				panic(r)
			}
			t.Fatalf("C20: %s panicked: %v", what, r)
		}
	}()
	f()
}

func libraryPanic(r any) bool {
	switch r.(type) {
	case runtime.Error, string, error:
		return true
	}
	return false
}

func forFrPolysRapid(t *testing.T, prop func(t *rapid.T, c *cx)) {
	for _, P := range inst.FrPolys() {
		if !selected(P.Name()) {
			continue
		}
		P := P
		t.Run(P.Name(), func(t *testing.T) {
			c := ctxOfPoly(P)
			rapid.Check(t, func(t *rapid.T) { prop(t, c) })
		})
	}
}

func forIopsRapid(t *testing.T, prop func(t *rapid.T, c *cx)) {
	for _, I := range iopsSelected() {
		I := I
		t.Run(I.Name(), func(t *testing.T) {
			c := ctxOf(I)
			rapid.Check(t, func(t *rapid.T) { prop(t, c) })
		})
	}
}

// ---- iop.Evaluate(expr, …) --------------------------------------------------------------------

type exprIn struct {
	m     *model
	shift int
}

func propExpr(t *rapid.T, c *cx) {
	test := "C20_Expr/" + c.I.Name()
	lg := rapid.IntRange(0, rep.Scale(5, 7)).Draw(t, "lg")
	size := 1 << lg
	rho := rapid.SampledFrom([]int{1, 1, 2, 4}).Draw(t, "rho")
	N := size * rho
	pal := shiftPalette(c, N)
	s := rapid.SampledFrom(pal).Draw(t, "cosetshift")
	nIn := rapid.IntRange(1, 4).Draw(t, "m")
	homogeneous := rapid.IntRange(0, 2).Draw(t, "homogeneous") == 0 // all inputs and the result in Lagrange basis, linear expression
	classes := []string{fmt.Sprintf("inputs:%d", nIn), fmt.Sprintf("rho:%d", rho)}
	var ins []exprIn
	var libs []inst.IopPoly
	for j := 0; j < nIn; j++ {
		co, cl := drawElems(t, c, size, fmt.Sprintf("p%d", j))
		sh := &shared{c: c, p: ref.NewPoly(c.F, co), size: size, s: s, pal: pal, tabs: map[int]*tables{}}
		f := rapid.SampledFrom(allForms).Draw(t, fmt.Sprintf("form%d", j))
		if homogeneous {
			f.Basis = inst.Lagrange
		}
		var m *model
		if f.Basis != inst.Canonical && rapid.Bool().Draw(t, fmt.Sprintf("converted%d", j)) {
			// reach the form through the library (growing to N when rho > 1), as the PLONK provers do
			m = newModel(sh, canReg, size)
			v := rapid.IntRange(0, 14).Draw(t, fmt.Sprintf("variant%d", j)) // task counts and the coset shift of each domain
			for m.n < N {
				m.apply(t, opGrowCanonical, v, N)
				classes = append(classes, m.tags...)
				v += 4
			}
			if f.Basis == inst.Lagrange {
				m.apply(t, opToLagrange, v, N)
			} else {
				m.apply(t, opToLagrangeCoset, v, N)
			}
			classes = append(classes, m.tags...)
			if f.Layout == inst.Regular {
				m.apply(t, opToRegular, 0, N)
			} else {
				m.apply(t, opToBitReverse, 0, N)
			}
			classes = append(classes, "input_converted")
		} else {
			m = newModel(sh, f, N)
			classes = append(classes, "input_constructed")
		}
		k := 0
		if m.form.Basis != inst.Canonical {
			k = drawShift(t, size, fmt.Sprintf("shift%d", j))
		}
		m.shift = k
		m.lib.Shift(k)
		ins = append(ins, exprIn{m, k})
		libs = append(libs, m.lib)
		classes = append(classes, "in:"+m.form.String(), "in_"+shiftClass(k, size), "coeffs:"+cl)
	}
	// the expression: Σ a_j x_j + b·x_0·x_last + c·i
	a := make([]*big.Int, nIn)
	for j := range a {
		a[j] = drawElem(t, c, fmt.Sprintf("a%d", j))
	}
	b, ci := new(big.Int), new(big.Int)
	if !homogeneous {
		b = drawElem(t, c, "b")
		ci = drawElem(t, c, "c")
	}
	F := c.F
	f := func(i int, x []*big.Int) *big.Int {
		r := F.Mul(ci, bi(int64(i)))
		for j := range x {
			r = F.Add(r, F.Mul(a[j], x[j]))
		}
		return F.Add(r, F.Mul(b, F.Mul(x[0], x[len(x)-1])))
	}
	form := rapid.SampledFrom(allForms).Draw(t, "resultform")
	if homogeneous {
		form.Basis = inst.Lagrange
	}
	withR := rapid.Bool().Draw(t, "withR")
	before := make([][]*big.Int, nIn)
	for j := range libs {
		before[j] = libs[j].Coefficients()
	}
	var res inst.IopPoly
	var err error
	guardT(t, "iop.Evaluate", func() { res, err = c.I.EvaluateExpr(f, withR, N, form, libs) })
	if err != nil {
		t.Fatalf("C20: iop.Evaluate returned %v on consistent inputs", err)
	}
	if res.Form() != form || res.Size() != size || res.Len() != N {
		t.Fatalf("C20: iop.Evaluate result has form %s size %d len %d, want %s %d %d", res.Form(), res.Size(), res.Len(), form, size, N)
	}
	stored := res.Coefficients()
	xs := make([]*big.Int, nIn)
	for i := 0; i < N; i++ {
		for j, in := range ins {
			xs[j], _ = in.m.wantCoeff(i, in.shift)
		}
		want := f(i, xs)
		var got *big.Int
		guardT(t, "GetCoeff on the result", func() { got = res.GetCoeff(i) })
		pos := i
		if form.Layout == inst.BitReverse {
			pos = ref.PolyBitRev(i, N)
		}
		if got.Cmp(want) != 0 || stored[pos].Cmp(want) != 0 {
			t.Fatalf("C20: iop.Evaluate entry %d: GetCoeff=%s stored=%s want f(i, entries)=%s; inputs %v result form %s",
				i, hx(got), hx(stored[pos]), hx(want), describe(ins), form)
		}
	}
	for j := range libs {
		if !sameVec(before[j], libs[j].Coefficients()) {
			t.Fatalf("C20: iop.Evaluate modified input %d", j)
		}
	}
	if homogeneous {
		// the result denotes Σ a_j p_j(ω^{s_j} X) (degree < size): check it as a polynomial
		y := drawElem(t, c, "y")
		want := new(big.Int)
		for j, in := range ins {
			want = F.Add(want, F.Mul(a[j], in.m.wantEval(y, in.shift)))
		}
		var got *big.Int
		guardT(t, "Evaluate on the result", func() { got = res.Evaluate(y) })
		if got.Cmp(want) != 0 {
			t.Fatalf("C20: result of a linear expression over Lagrange inputs evaluates to %s at %s, want %s; inputs %v", hx(got), hx(y), hx(want), describe(ins))
		}
		classes = append(classes, "linear_lagrange_semantic")
	}
	if withR {
		classes = append(classes, "with_r")
	}
	rep.Case(test, fmt.Sprintf("%s size=%d rho=%d %v -> %s", c.I.Name(), size, rho, describe(ins), form), true, dedup(classes)...)
}

func describe(ins []exprIn) []string {
	var out []string
	for _, in := range ins {
		out = append(out, fmt.Sprintf("%s@%d%v", in.m.form, in.shift, hxs(in.m.p.C)))
	}
	return out
}

func propExprErrors(t *rapid.T, c *cx) {
	test := "C20_Expr/" + c.I.Name()
	f := func(i int, x []*big.Int) *big.Int { return x[0] }
	n := 1 << rapid.IntRange(0, 4).Draw(t, "lg")
	mk := func(n int) inst.IopPoly {
		v := make([]*big.Int, n)
		for i := range v {
			v[i] = bi(int64(i))
		}
		return c.I.NewPoly(v, canReg)
	}
	var err error
	switch rapid.IntRange(0, 2).Draw(t, "case") {
	case 0:
		guardT(t, "iop.Evaluate()", func() { _, err = c.I.EvaluateExpr(f, false, 0, canReg, nil) })
		if err == nil {
			t.Fatalf("C20: iop.Evaluate without inputs returned no error")
		}
		rep.Case(test, "no inputs", true, "error:no_input")
	case 1:
		guardT(t, "iop.Evaluate()", func() { _, err = c.I.EvaluateExpr(f, false, 0, canReg, []inst.IopPoly{mk(n), mk(2 * n)}) })
		if c.I.ErrName(err) != "ErrInconsistentSize" {
			t.Fatalf("C20: iop.Evaluate on lengths %d,%d returned %v", n, 2*n, err)
		}
		rep.Case(test, fmt.Sprint("lengths ", n, 2*n), true, "error:inconsistent_inputs")
	default:
		rl := n + rapid.SampledFrom([]int{-1, 1, n}).Draw(t, "d")
		if rl <= 0 { // a zero-length r is indistinguishable from "not provided" only when nil; keep it positive
			rl = n + 1
		}
		guardT(t, "iop.Evaluate()", func() { _, err = c.I.EvaluateExpr(f, true, rl, canReg, []inst.IopPoly{mk(n)}) })
		if c.I.ErrName(err) != "ErrInconsistentSize" {
			t.Fatalf("C20: iop.Evaluate with len(r)=%d on length %d returned %v", rl, n, err)
		}
		rep.Case(test, fmt.Sprint("r ", rl, " n ", n), true, "error:r_length")
	}
}

func TestC20_Expr(t *testing.T) {
	forIopsRapid(t, func(t *rapid.T, c *cx) {
		if rapid.IntRange(0, 9).Draw(t, "errors") == 0 {
			propExprErrors(t, c)
			return
		}
		propExpr(t, c)
	})
}

// ---- DivideByXMinusOne ----------------------------------------------------------------------------

func propQuotient(t *rapid.T, c *cx) {
	test := "C20_Quotient/" + c.I.Name()
	F := c.F
	lg := rapid.IntRange(0, rep.Scale(4, 6)).Draw(t, "lg")
	n := 1 << lg
	rho := rapid.SampledFrom([]int{1, 2, 2, 4, 8}).Draw(t, "rho")
	N := n * rho
	// the two domains are independent objects: each may carry its own coset shift (fft.WithShift). The numerator
	// lives on the coset of the BIG domain; of the small one only the cardinality matters.
	pal := shiftPalette(c, N)
	var sSmall, s *big.Int
	switch rapid.SampledFrom([]string{"none", "small", "big", "both_same", "both_diff"}).Draw(t, "domshifts") {
	case "small":
		sSmall = pal[1]
	case "big":
		s = pal[1]
	case "both_same":
		sSmall, s = pal[2], pal[2]
	case "both_diff":
		k := rapid.IntRange(1, 2).Draw(t, "which")
		sSmall, s = pal[k], pal[3-k]
	}
	dn, dN := c.dom(n, sSmall), c.dom(N, s)
	mode := rapid.SampledFrom([]string{"divisible", "divisible", "pipeline", "wrong_basis"}).Draw(t, "mode")
	if mode == "pipeline" && rho < 2 {
		mode = "divisible"
	}
	layout := rapid.IntRange(0, 1).Draw(t, "layout")
	classes := []string{"mode:" + mode, fmt.Sprintf("rho:%d", rho), fmt.Sprintf("n:%d", n), shiftPairClass(sSmall, s)}
	y := drawElem(t, c, "y")
	xnm1 := func(x *big.Int) *big.Int { return F.Sub(F.Exp(x, bi(int64(n))), bi(1)) }
	readCanonical := func(h inst.IopPoly) ref.Poly {
		if h.Form() != canReg || h.Len() != N {
			t.Fatalf("C20: DivideByXMinusOne result: form %s len %d, documented Canonical Regular (len %d)", h.Form(), h.Len(), N)
		}
		return ref.NewPoly(F, h.Coefficients())
	}
	switch mode {
	case "wrong_basis":
		f := rapid.SampledFrom(allForms[:4]).Draw(t, "form")
		v, _ := drawElems(t, c, N, "a")
		a := c.I.NewPoly(v, f)
		a.SetSize(n)
		var err error
		guardT(t, "DivideByXMinusOne", func() { _, err = c.I.DivideByXMinusOne(a, dn.lib, dN.lib) })
		if c.I.ErrName(err) != "ErrMustBeLagrangeCoset" {
			t.Fatalf("C20: DivideByXMinusOne on a %s polynomial returned %v", f, err)
		}
		rep.Case(test, fmt.Sprintf("%s wrong basis %s", c.I.Name(), f), true, classes...)
		return
	case "pipeline":
		// l1·l2 − l3 vanishes on the small domain when l3 interpolates the pointwise product there
		shift1 := 0
		if rapid.Bool().Draw(t, "shifted") {
			shift1 = drawShift(t, n, "shift1")
			classes = append(classes, "pipeline_"+shiftClass(shift1, n))
		}
		c1, _ := drawElems(t, c, n, "l1")
		c2, _ := drawElems(t, c, n, "l2")
		l1, l2 := ref.NewPoly(F, c1), ref.NewPoly(F, c2)
		g := F.Exp(dn.ref.W, bi(int64(shift1)))
		pts := dn.ref.Points()
		prod := make([]*big.Int, n)
		for i := range prod {
			prod[i] = F.Mul(l1.Eval(F.Mul(g, pts[i])), l2.Eval(pts[i]))
		}
		l3, err := ref.PolyFromLagrange(dn.ref, prod)
		if err != nil {
			t.Fatalf("harness: %v", err)
		}
		var libs []inst.IopPoly
		for j, p := range []ref.Poly{l1, l2, l3} {
			sh := &shared{c: c, p: p, size: n, s: s, tabs: map[int]*tables{}}
			m := newModel(sh, canReg, n)
			for m.n < N {
				m.apply(t, opGrowCanonical, 0, N)
			}
			m.apply(t, opToLagrangeCoset, 0, N)
			if rapid.Bool().Draw(t, fmt.Sprintf("reg%d", j)) {
				m.apply(t, opToRegular, 0, N)
			}
			libs = append(libs, m.lib)
		}
		libs[0].Shift(shift1)
		expr := func(i int, x []*big.Int) *big.Int { return F.Sub(F.Mul(x[0], x[1]), x[2]) }
		var num, h inst.IopPoly
		guardT(t, "iop.Evaluate", func() {
			num, err = c.I.EvaluateExpr(expr, false, 0, inst.IopForm{Basis: inst.LagrangeCoset, Layout: layout}, libs)
		})
		if err != nil {
			t.Fatalf("C20: iop.Evaluate: %v", err)
		}
		guardT(t, "DivideByXMinusOne", func() { h, err = c.I.DivideByXMinusOne(num, dn.lib, dN.lib) })
		if err != nil {
			t.Fatalf("C20: DivideByXMinusOne: %v", err)
		}
		hp := readCanonical(h)
		lhs := F.Mul(hp.Eval(y), xnm1(y))
		rhs := F.Sub(F.Mul(l1.Eval(F.Mul(g, y)), l2.Eval(y)), l3.Eval(y))
		if lhs.Cmp(rhs) != 0 {
			t.Fatalf("C20: pipeline quotient: h(y)(y^n-1)=%s but l1(w^%d y)l2(y)-l3(y)=%s (n=%d rho=%d y=%s l1=%s l2=%s)", hx(lhs), shift1, hx(rhs), n, rho, hx(y), hxs(c1), hxs(c2))
		}
		if hp.Degree() >= N-n && N > n {
			t.Fatalf("C20: pipeline quotient has degree %d >= %d", hp.Degree(), N-n)
		}
		rep.Case(test, fmt.Sprintf("%s pipeline n=%d rho=%d shift=%d l1=%s", c.I.Name(), n, rho, shift1, hxs(c1)), true, classes...)
		return
	}
	// numerator given directly by its values on the coset of the big domain: a = h0·(X^n−1), deg h0 < N−n.
	// (Numerators that X^n−1 does not divide have no documented quotient and are not generated.)
	hc, hcl := drawElems(t, c, N-n, "h")
	h0 := ref.NewPoly(F, hc)
	a := h0.Mul(ref.PolyXnMinusOne(F, n))
	classes = append(classes, "quotient:"+hcl)
	vals := a.CosetValues(dN.ref)
	if layout == inst.BitReverse {
		vals = ref.PolyBitReversed(vals)
	}
	k := drawShift(t, n, "shift")
	classes = append(classes, shiftClass(k, n), [...]string{"regular", "bitreverse"}[layout])
	lib := c.I.NewPoly(vals, inst.IopForm{Basis: inst.LagrangeCoset, Layout: layout})
	lib.SetSize(n)
	lib.Shift(k)
	var h inst.IopPoly
	var err error
	guardT(t, "DivideByXMinusOne", func() { h, err = c.I.DivideByXMinusOne(lib, dn.lib, dN.lib) })
	if err != nil {
		t.Fatalf("C20: DivideByXMinusOne: %v", err)
	}
	if !sameVec(vals, lib.Coefficients()) {
		t.Fatalf("C20: DivideByXMinusOne modified its input")
	}
	hp := readCanonical(h)
	g := F.Exp(dn.ref.W, bi(int64(k)))
	// quotient·(X^n−1) = numerator(ω^k X) as polynomials: at a free point, at a point of the coset, and coefficient-wise h0(ω^k X)
	for _, z := range []*big.Int{y, dN.ref.CosetPoint(rapid.IntRange(0, N-1).Draw(t, "cosetpoint"))} {
		if l, r := F.Mul(hp.Eval(z), xnm1(z)), a.Eval(F.Mul(g, z)); l.Cmp(r) != 0 {
			t.Fatalf("C20: DivideByXMinusOne: h(z)(z^n-1)=%s, numerator(w^%d z)=%s (n=%d rho=%d layout=%d z=%s h0=%s)", hx(l), k, hx(r), n, rho, layout, hx(z), hxs(h0.C))
		}
	}
	gi := bi(1)
	for i := 0; i < N; i++ {
		if w := F.Mul(h0.Coeff(i), gi); hp.Coeff(i).Cmp(w) != 0 {
			t.Fatalf("C20: DivideByXMinusOne: coefficient %d is %s, want %s (n=%d rho=%d shift=%d h0=%s)", i, hx(hp.Coeff(i)), hx(w), n, rho, k, hxs(h0.C))
		}
		gi = F.Mul(gi, g)
	}
	rep.Case(test, fmt.Sprintf("%s %s n=%d rho=%d layout=%d shift=%d a=%s", c.I.Name(), mode, n, rho, layout, k, hxs(a.C)), true, classes...)
}

func TestC20_Quotient(t *testing.T) { forIopsRapid(t, propQuotient) }

// ---- ratio builders -------------------------------------------------------------------------------

// shuffledRatio is the doc-comment definition: Z(ω^0)=1, Z(ω^{j+1}) = Z(ω^j)·Π_i(β−P_i(ω^j))/Π_i(β−Q_i(ω^j)).
// nil when a denominator vanishes (the ratio is undefined then).
func shuffledRatio(F *ref.Fp, num, den [][]*big.Int, beta *big.Int) []*big.Int {
	n := len(num[0])
	z := make([]*big.Int, n)
	z[0] = bi(1)
	for j := 0; j+1 < n; j++ {
		a, b := bi(1), bi(1)
		for i := range num {
			a = F.Mul(a, F.Sub(beta, num[i][j]))
			b = F.Mul(b, F.Sub(beta, den[i][j]))
		}
		if b.Sign() == 0 {
			return nil
		}
		z[j+1] = F.Mul(z[j], F.Div(a, b))
	}
	return z
}

// copyRatio: Z(ω^{j+1}) = Z(ω^j)·Π_k (P_k(ω^j)+β·id(k,j)+γ)/(P_k(ω^j)+β·id(σ(k·n+j))+γ), id(k,j)=u^k·ω^j.
func copyRatio(F *ref.Fp, ent [][]*big.Int, perm []int64, beta, gamma *big.Int, id []*big.Int) []*big.Int {
	n := len(ent[0])
	z := make([]*big.Int, n)
	z[0] = bi(1)
	for j := 0; j+1 < n; j++ {
		a, b := bi(1), bi(1)
		for k := range ent {
			a = F.Mul(a, F.Add(F.Add(ent[k][j], F.Mul(beta, id[k*n+j])), gamma))
			b = F.Mul(b, F.Add(F.Add(ent[k][j], F.Mul(beta, id[perm[k*n+j]])), gamma))
		}
		if b.Sign() == 0 {
			return nil
		}
		z[j+1] = F.Mul(z[j], F.Div(a, b))
	}
	return z
}

// drawColumns: the number of polynomials of a ratio builder, 1..10 (classical PLONK has 3, wide arithmetisations more).
func drawColumns(t *rapid.T) int {
	if rapid.IntRange(0, 2).Draw(t, "wide") == 0 {
		return rapid.IntRange(5, 10).Draw(t, "m")
	}
	return rapid.IntRange(1, 4).Draw(t, "m")
}

func columnsClass(m int) string {
	if m >= 7 {
		return "polys:7+"
	}
	return fmt.Sprintf("polys:%d", m)
}

// ratioInputs draws m polynomials given by their values on the domain, each in a drawn form.
func ratioInputs(t *rapid.T, c *cx, vals [][]*big.Int, d *dom, s *big.Int, label string) ([]*model, []inst.IopPoly, []string) {
	var ms []*model
	var libs []inst.IopPoly
	var cls []string
	for j, v := range vals {
		p, err := ref.PolyFromLagrange(d.ref, v)
		if err != nil {
			t.Fatalf("harness: %v", err)
		}
		sh := &shared{c: c, p: p, size: d.n, s: s, tabs: map[int]*tables{}}
		f := rapid.SampledFrom(allForms).Draw(t, fmt.Sprintf("%sform%d", label, j))
		m := newModel(sh, f, d.n)
		ms = append(ms, m)
		libs = append(libs, m.lib)
		cls = append(cls, "in:"+f.String())
	}
	return ms, libs, cls
}

// checkRatio compares the returned polynomial with the interpolant of z in the expected form, and that the
// inputs (converted to Lagrange basis in place, as documented) still denote the same polynomials.
func checkRatio(t *rapid.T, c *cx, what string, res inst.IopPoly, z []*big.Int, form inst.IopForm, d *dom, s *big.Int, ins []*model) {
	zp, err := ref.PolyFromLagrange(d.ref, z)
	if err != nil {
		t.Fatalf("harness: %v", err)
	}
	sh := &shared{c: c, p: zp, size: d.n, s: s, tabs: map[int]*tables{}}
	zm := &model{shared: sh, lib: res, form: form, n: d.n, hist: []string{what}}
	zm.checkShape(t)
	for _, m := range ins {
		m.hist = append(m.hist, what)
		m.adoptLayout(t, inst.Lagrange)
		m.checkShape(t)
	}
}

func propRatioShuffled(t *rapid.T, c *cx) {
	test := "C20_RatioShuffled/" + c.I.Name()
	F := c.F
	n := 1 << rapid.IntRange(0, rep.Scale(5, 7)).Draw(t, "lg")
	s := drawCosetShift(t, c, n)
	d := c.dom(n, s)
	m := drawColumns(t)
	mode := rapid.SampledFrom([]string{"random", "shuffled", "shuffled", "error"}).Draw(t, "mode")
	classes := []string{"mode:" + mode, columnsClass(m), fmt.Sprintf("n:%d", n)}
	num := make([][]*big.Int, m)
	den := make([][]*big.Int, m)
	for i := range num {
		num[i], _ = drawElems(t, c, n, fmt.Sprintf("num%d", i))
		den[i], _ = drawElems(t, c, n, fmt.Sprintf("den%d", i))
	}
	if mode == "shuffled" {
		// the denominators hold the same multiset of values, permuted across all polynomials
		flat := make([]*big.Int, 0, m*n)
		for i := range num {
			flat = append(flat, num[i]...)
		}
		perm := rapid.Permutation(flat).Draw(t, "perm")
		for i := range den {
			den[i] = perm[i*n : (i+1)*n]
		}
	}
	beta := drawElem(t, c, "beta")
	form := rapid.SampledFrom(allForms).Draw(t, "resultform")
	var dl inst.IopDomain
	if s != nil || rapid.Bool().Draw(t, "passdomain") {
		dl = d.lib
	} else {
		classes = append(classes, "domain_nil")
	}
	if mode == "error" {
		propRatioErrors(t, c, test, n, d)
		return
	}
	nm, nl, c1 := ratioInputs(t, c, num, d, s, "n")
	dm, dls, c2 := ratioInputs(t, c, den, d, s, "d")
	z := shuffledRatio(F, num, den, beta)
	if z == nil {
		rep.Case(test, "zero denominator", false, "undefined:zero_denominator")
		return
	}
	var res inst.IopPoly
	var err error
	guardT(t, "BuildRatioShuffledVectors", func() { res, err = c.I.BuildRatioShuffledVectors(nl, dls, beta, form, dl) })
	if err != nil {
		t.Fatalf("C20: BuildRatioShuffledVectors returned %v (n=%d, %d polynomials)", err, n, m)
	}
	checkRatio(t, c, "BuildRatioShuffledVectors", res, z, form, d, s, append(nm, dm...))
	if mode == "shuffled" && n > 1 {
		// closing the product over the whole domain gives 1 for a genuine shuffle
		a, b := bi(1), bi(1)
		for i := range num {
			a = F.Mul(a, F.Sub(beta, num[i][n-1]))
			b = F.Mul(b, F.Sub(beta, den[i][n-1]))
		}
		if F.Mul(z[n-1], a).Cmp(b) != 0 {
			t.Fatalf("harness: reference grand product of a shuffle does not close")
		}
	}
	classes = append(classes, "result:"+form.String())
	rep.Case(test, fmt.Sprintf("%s n=%d m=%d %s beta=%s num0=%s", c.I.Name(), n, m, form, hx(beta), hxs(num[0])), true, dedup(append(append(classes, c1...), c2...))...)
}

func propRatioErrors(t *rapid.T, c *cx, test string, n int, d *dom) {
	lr := inst.IopForm{Basis: inst.Lagrange, Layout: inst.Regular}
	mk := func(n int) inst.IopPoly {
		v := make([]*big.Int, n)
		for i := range v {
			v[i] = bi(int64(i + 2))
		}
		return c.I.NewPoly(v, lr)
	}
	beta := bi(99)
	var err error
	which := rapid.SampledFrom([]string{"count", "pow2", "domain", "lengths"}).Draw(t, "errcase")
	copyC := rapid.Bool().Draw(t, "copyconstraint") && which != "count"
	call := func(num, den []inst.IopPoly, dl inst.IopDomain) {
		guardT(t, "ratio builder (error case "+which+")", func() {
			if copyC {
				perm := make([]int64, len(num)*num[0].Len())
				for i := range perm {
					perm[i] = int64(i)
				}
				_, err = c.I.BuildRatioCopyConstraint(num, perm, beta, beta, lr, dl)
			} else {
				_, err = c.I.BuildRatioShuffledVectors(num, den, beta, lr, dl)
			}
		})
	}
	want := ""
	switch which {
	case "count":
		call([]inst.IopPoly{mk(n), mk(n)}, []inst.IopPoly{mk(n)}, d.lib)
		want = "ErrNumberPolynomials"
	case "pow2":
		k := rapid.SampledFrom([]int{3, 5, 6, 7, 12}).Draw(t, "npow")
		call([]inst.IopPoly{mk(k)}, []inst.IopPoly{mk(k)}, nil)
		want = "ErrSizeNotPowerOfTwo"
	case "domain":
		call([]inst.IopPoly{mk(n)}, []inst.IopPoly{mk(n)}, c.dom(2*n, nil).lib)
		want = "ErrInconsistentSizeDomain"
	default:
		// one polynomial of another length, at a drawn position
		k := rapid.IntRange(2, 4).Draw(t, "count")
		bad := rapid.IntRange(1, k-1).Draw(t, "bad")
		num, den := make([]inst.IopPoly, k), make([]inst.IopPoly, k)
		for i := range num {
			num[i], den[i] = mk(n), mk(n)
		}
		if copyC || rapid.Bool().Draw(t, "innum") {
			num[bad] = mk(2 * n)
		} else {
			den[bad] = mk(2 * n)
		}
		call(num, den, d.lib)
		want = "ErrInconsistentSize"
	}
	if c.I.ErrName(err) != want {
		t.Fatalf("C20: ratio builder (copy=%v) error case %s (n=%d): got %v, want %s", copyC, which, n, err, want)
	}
	rep.Case(test, fmt.Sprintf("%s error %s copy=%v n=%d", c.I.Name(), which, copyC, n), true, "error:"+which)
}

func TestC20_RatioShuffled(t *testing.T) { forIopsRapid(t, propRatioShuffled) }

func propRatioCopy(t *rapid.T, c *cx) {
	test := "C20_RatioCopy/" + c.I.Name()
	F := c.F
	n := 1 << rapid.IntRange(0, rep.Scale(5, 7)).Draw(t, "lg")
	s := drawCosetShift(t, c, n)
	d := c.dom(n, s)
	m := drawColumns(t)
	u := d.ref.S
	// the identity support u^k·ω^j needs pairwise disjoint cosets
	id := make([]*big.Int, m*n)
	uk := bi(1)
	pts := d.ref.Points()
	for k := 0; k < m; k++ {
		if k > 0 && d.ref.Contains(uk) {
			rep.Case(test, "cosets overlap", false, "skipped:coset_overlap")
			return
		}
		for j := 0; j < n; j++ {
			id[k*n+j] = F.Mul(uk, pts[j])
		}
		uk = F.Mul(uk, u)
	}
	mode := rapid.SampledFrom([]string{"random", "satisfied", "identity"}).Draw(t, "mode")
	idx := make([]int64, m*n)
	for i := range idx {
		idx[i] = int64(i)
	}
	perm := idx
	if mode != "identity" {
		perm = rapid.Permutation(idx).Draw(t, "perm")
	}
	ent := make([][]*big.Int, m)
	for k := range ent {
		ent[k], _ = drawElems(t, c, n, fmt.Sprintf("e%d", k))
	}
	if mode == "satisfied" {
		// make the wire values constant along the cycles of σ
		seed := rapid.Uint64().Draw(t, "cycleseed")
		seen := make([]bool, m*n)
		for st := range seen {
			if seen[st] {
				continue
			}
			v := c.expand(seed, st)
			for i := st; !seen[i]; i = int(perm[i]) {
				seen[i] = true
				ent[i/n][i%n] = v
			}
		}
	}
	beta, gamma := drawElem(t, c, "beta"), drawElem(t, c, "gamma")
	form := rapid.SampledFrom(allForms).Draw(t, "resultform")
	classes := []string{"mode:" + mode, columnsClass(m), fmt.Sprintf("n:%d", n), "result:" + form.String()}
	var dl inst.IopDomain
	if s != nil || rapid.Bool().Draw(t, "passdomain") {
		dl = d.lib
	} else {
		classes = append(classes, "domain_nil")
	}
	z := copyRatio(F, ent, perm, beta, gamma, id)
	if z == nil {
		rep.Case(test, "zero denominator", false, "undefined:zero_denominator")
		return
	}
	ms, libs, c1 := ratioInputs(t, c, ent, d, s, "e")
	var res inst.IopPoly
	var err error
	guardT(t, "BuildRatioCopyConstraint", func() { res, err = c.I.BuildRatioCopyConstraint(libs, perm, beta, gamma, form, dl) })
	if err != nil {
		t.Fatalf("C20: BuildRatioCopyConstraint returned %v (n=%d, %d polynomials)", err, n, m)
	}
	checkRatio(t, c, "BuildRatioCopyConstraint", res, z, form, d, s, ms)
	if mode == "satisfied" && n > 1 {
		a, b := bi(1), bi(1)
		for k := range ent {
			a = F.Mul(a, F.Add(F.Add(ent[k][n-1], F.Mul(beta, id[k*n+n-1])), gamma))
			b = F.Mul(b, F.Add(F.Add(ent[k][n-1], F.Mul(beta, id[perm[k*n+n-1]])), gamma))
		}
		if F.Mul(z[n-1], a).Cmp(b) != 0 {
			t.Fatalf("harness: reference grand product of a satisfied copy constraint does not close")
		}
	}
	rep.Case(test, fmt.Sprintf("%s n=%d m=%d %s %s beta=%s e0=%s", c.I.Name(), n, m, mode, form, hx(beta), hxs(ent[0])), true, dedup(append(classes, c1...))...)
}

func TestC20_RatioCopy(t *testing.T) { forIopsRapid(t, propRatioCopy) }
