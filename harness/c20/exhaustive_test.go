package c20

import (
	"fmt"
	"math/big"
	"strings"
	"testing"

	"verif/harness/internal/inst"
	"verif/harness/internal/ref"
	"verif/harness/internal/rep"
)

// Bounded-exhaustive part: for every size, every initial form (6 forms × "plain" or "extended to twice
// the length with SetSize") ALL operation sequences up to the depth bound are walked as a tree; the
// object is checked after every step.

var allForms = []inst.IopForm{
	{Basis: inst.Canonical, Layout: inst.Regular}, {Basis: inst.Canonical, Layout: inst.BitReverse},
	{Basis: inst.Lagrange, Layout: inst.Regular}, {Basis: inst.Lagrange, Layout: inst.BitReverse},
	{Basis: inst.LagrangeCoset, Layout: inst.Regular}, {Basis: inst.LagrangeCoset, Layout: inst.BitReverse},
}

type walker struct {
	t        *testing.T
	test     string
	maxDepth int
	maxLen   int
	evalsPer int
	ctr      int // node counter: rotates shifts, points, task counts, capacities
	nodes    int64
	pruned   int64
	skipEval int64
}

func indices(n, ctr int) []int {
	if n <= 64 {
		out := make([]int, n)
		for i := range out {
			out[i] = i
		}
		return out
	}
	out := []int{0, 1, n/2 - 1, n / 2, n - 2, n - 1}
	for j := 0; j < 10; j++ {
		out = append(out, mod(ctr*7919+j*104729, n))
	}
	return out
}

// visit checks the node and recurses into every operation.
func (w *walker) visit(m *model, depth int) {
	t := w.t
	w.ctr++
	w.nodes++
	shifts := shiftList(m.size)
	classes := []string{fmt.Sprintf("hist_len:%d", depth), "size:" + fmt.Sprint(m.size), "state:" + m.form.String()}
	if depth > 0 {
		op := m.hist[len(m.hist)-1]
		if i := strings.IndexAny(op, "{["); i > 0 {
			op = op[:i]
		}
		if i := strings.IndexByte(op, '('); i > 0 {
			classes = append(classes, "nbTasks_given")
			op = op[:i]
		}
		classes = append(classes, "last_op:"+op)
	}
	if m.n != m.size {
		classes = append(classes, fmt.Sprintf("rho:%d", m.n/m.size))
	}
	classes = append(classes, m.tags...)
	if m.initSpare > 0 {
		classes = append(classes, "init_spare_capacity")
	}
	m.checkShape(t)
	// GetCoeff under two shifts of the list (all shifts at the shallow nodes)
	ks := []int{shifts[w.ctr%len(shifts)], shifts[(w.ctr*5+3)%len(shifts)]}
	if depth <= 1 {
		ks = shifts
	}
	idx := indices(m.n, w.ctr)
	for _, k := range ks {
		if m.checkCoeffs(t, k, idx) > 0 {
			classes = append(classes, "coeff_"+shiftClass(k, m.size))
		}
	}
	// Evaluate at rotating (point class, shift) pairs; the full matrix at the shallow nodes
	nEval := w.evalsPer
	if depth <= 1 {
		nEval = len(shifts) * len(pointClasses)
	}
	domainPoint, shifted := false, false
	if m.canEvaluate() {
		if depth > 0 {
			op := m.hist[len(m.hist)-1]
			if i := strings.IndexByte(op, '['); i > 0 {
				op = op[:i]
			}
			switch op {
			case "Clone", "ShallowClone", "WriteRead": // evaluated right after, no conversion in between
				classes = append(classes, "eval_after_"+op+":"+m.form.String())
			}
		}
		for e := 0; e < nEval; e++ {
			j := w.ctr*w.evalsPer + e
			pc := pointClasses[j%len(pointClasses)]
			k := shifts[j%len(shifts)]
			x := m.point(pc, j/len(pointClasses))
			m.checkEval(t, x, k, pc)
			classes = append(classes, "eval_x:"+pc, "eval_"+shiftClass(k, m.size))
			domainPoint = domainPoint || pc == "domain" || pc == "coset" || pc == "one" || pc == "minus_one_or_sub"
			shifted = shifted || k != 0
		}
	} else {
		w.skipEval++
		classes = append(classes, "eval_skipped:coset_not_stored")
	}
	conv := 0
	rt := false
	for _, h := range m.hist[1:] {
		if strings.HasPrefix(h, "To") || strings.HasPrefix(h, "Grow") {
			conv++
		}
		rt = rt || h == "WriteRead"
	}
	nontrivial := conv >= 2 || shifted || domainPoint || m.size == 1 || rt
	rep.Case(w.test, m.c.I.Name()+" "+strings.Join(m.hist, ">"), nontrivial, dedup(classes)...)
	if depth == w.maxDepth {
		return
	}
	for op := 0; op < nOps; op++ {
		c := m.fork(t)
		if !c.apply(t, op, w.ctr+op, w.maxLen*m.size) {
			w.pruned++
			continue
		}
		w.visit(c, depth+1)
	}
}

func dedup(in []string) []string {
	seen := map[string]bool{}
	out := in[:0]
	for _, s := range in {
		if !seen[s] {
			seen[s] = true
			out = append(out, s)
		}
	}
	return out
}

// altShift picks the coset shift of a history: the package default or a small constant validated by the reference.
func altShift(c *cx, pick, maxN int) *big.Int {
	if pick%2 == 0 {
		return nil
	}
	// an alternative shift must differ from the package default (7 is the default generator of some scalar fields:
	// there the alternative used to coincide with the default and the shift dimension was vacuous)
	def := c.dom(1, nil).ref.S
	for _, v := range []int64{7, 11, 13, 17} {
		if s := bi(v); c.validShift(s, maxN) && c.F.Red(s).Cmp(def) != 0 {
			return s
		}
	}
	return nil
}

func randomPoly(c *cx, size int, label string) ref.Poly {
	co := make([]*big.Int, size)
	for i := range co {
		co[i] = c.hashElem(label, size, i)
	}
	return ref.NewPoly(c.F, co)
}

func TestC20_Exhaustive(t *testing.T) {
	k, nsh := shard()
	for _, I := range iopsSelected() {
		I := I
		t.Run(I.Name(), func(t *testing.T) {
			c := ctxOf(I)
			test := "C20_Exhaustive/" + I.Name()
			type job struct {
				lg, rho, depth int
				form           inst.IopForm
				spare          bool
				size           int // != 0: a size that is not a power of two (lg is then unused)
			}
			var jobs []job
			maxLg, depth := 6, rep.Scale(4, 5)
			for lg := 0; lg <= maxLg; lg++ {
				for _, f := range allForms {
					jobs = append(jobs, job{lg, 1, depth, f, false, 0}, job{lg, 2, depth - 1, f, false, 0}, job{lg, 1, depth - 1, f, true, 0})
				}
			}
			// sizes that are not a power of two: the coefficient vector itself (Canonical/Regular, length = size: it can
			// only be converted on a larger domain) and each of the 6 forms on the next power of two with SetSize(size)
			for _, size := range []int{3, 5, 6, 7, 12, 13} {
				jobs = append(jobs, job{0, 0, depth, canReg, false, size})
				for _, f := range allForms {
					jobs = append(jobs, job{0, 1, depth - 1, f, false, size})
				}
			}
			if rep.Thorough() { // larger sizes for a subset: shorter histories
				for lg := 7; lg <= 10; lg++ {
					for _, f := range allForms {
						jobs = append(jobs, job{lg, 1, 3, f, false, 0})
					}
				}
			}
			var nodes, pruned, skipped int64
			for ji, j := range jobs {
				if (ji+ji/3)%nsh != k { // the three kinds of initial object rotate over the shards
					continue
				}
				size := 1 << j.lg
				n0 := size * j.rho
				if j.size != 0 {
					size = j.size
					n0 = size // the bare coefficient vector
					if j.rho == 1 {
						n0 = np2(size)
					}
				}
				pal := shiftPalette(c, 8*np2(size))
				sh := &shared{c: c, p: randomPoly(c, size, "exh"), size: size, s: pal[ji%len(pal)], pal: pal, tabs: map[int]*tables{}}
				w := &walker{t: t, test: test, maxDepth: j.depth, maxLen: 4, evalsPer: 4, ctr: ji * 1000003}
				if size > 64 {
					w.maxLen, w.evalsPer = 2, 2
				}
				m := newModel(sh, j.form, n0)
				if j.spare { // the object is buf[:size] of a buffer with non-zero spare capacity for every growth step
					m = newModelSpare(sh, j.form, size, 3*size+3)
				}
				m.autoShift = true
				w.visit(m, 0)
				nodes += w.nodes
				pruned += w.pruned
				skipped += w.skipEval
			}
			rep.Exhaustive(test)
			rep.Note(test, "conversions on a LARGER domain are generated for Canonical objects in both layouts (a coefficient vector refers to no domain); for Lagrange/LagrangeCoset objects the domain argument must be the domain the stored values live on (the object does not record it) - passing a domain of another cardinality is treated as a caller error and not generated, although the library does not reject it (it zero-pads the values and returns a different polynomial)")
			rep.Note(test, fmt.Sprintf("all operation sequences over %v up to length %d (extended initial objects: %d) from each of the 6 forms, sizes 2^0..2^%d and 3, 5, 6, 7, 12, 13 (bare coefficient vector, and the 6 forms on the next power of two with SetSize); every WriteTo->ReadFrom step first gives the object a shift from {0, +-1, size-1, size, size+1, -size, NextPow2(size)-1.., 2^31-1, -2^31, +-(2^32+1), 2^40+3, MaxInt64, MinInt64} and the decoded object is compared under the decoded shift (Evaluate at free/domain/coset points, GetCoeff everywhere) before anything else touches it; grow operations apply to Canonical objects (both layouts) and up to 4x the size; every conversion of an object that is not in LagrangeCoset basis is handed a domain whose coset shift rotates over {package default, two fft.WithShift constants}, an object in LagrangeCoset basis the domain of its coset; Evaluate in LagrangeCoset basis only once ToLagrangeCoset has stored the coset (DESIGN §11); GetCoeff in Canonical basis only with shift 0",
				opNames, depth, depth-1, maxLg))
			t.Logf("%s: %d nodes, %d pruned by precondition, %d nodes without Evaluate (coset not stored)", I.Name(), nodes, pruned, skipped)
		})
	}
}
