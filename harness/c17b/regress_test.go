package c17b

// Rapid-free regression tests: each one fails while the corresponding defect is present.

import (
	"math/big"
	"reflect"
	"testing"

	"github.com/consensys/gnark-crypto/field/koalabear"
	fext "github.com/consensys/gnark-crypto/field/koalabear/extensions"

	"verif/harness/internal/ref"
)

func bigs(xs ...int64) []*big.Int {
	out := make([]*big.Int, len(xs))
	for i, x := range xs {
		out[i] = big.NewInt(x)
	}
	return out
}

func setField(dstRoot reflect.Value, name string, v reflect.Value) {
	acc(dstRoot.FieldByName(name)).Set(v)
}

func getField(root reflect.Value, name string) reflect.Value { return acc(root.FieldByName(name)) }

// F91: VerifyLookupTables folds the commitments ts into comt and verifies the embedded permutation
// proof, but never compares comt with the permutation proof's first vector nor the permutation
// proof's second vector with foldedProof.t. The table commitments ts are therefore bound to nothing:
// a proof that the rows of f are in a table T' verifies as a proof for ANY committed table.
func TestC17b_Regress_LookupTablesUnboundTable(t *testing.T) {
	forCurves(t, func(t *testing.T, c *curve) {
		f := [][]*big.Int{bigs(5, 5, 7)}
		tTrue := [][]*big.Int{bigs(5, 7, 9, 11)}
		tFalse := [][]*big.Int{bigs(1, 2, 3, 4)}

		p1, err := c.lookupTablesProve(f, tTrue)
		if err != nil {
			t.Fatal(err)
		}
		if err := c.lookupTablesVerify(p1.Elem()); err != nil {
			t.Fatalf("honest proof rejected: %v", err)
		}
		// honestly run prover on the false statement: commits to tFalse in ts; must not verify
		p2, err := c.lookupTablesProve(f, tFalse)
		if err != nil {
			t.Fatal(err)
		}
		if err := c.lookupTablesVerify(p2.Elem()); err == nil {
			t.Fatalf("honestly generated proof for a false statement (5,7 not in {1,2,3,4}) verifies")
		}
		// forged: the valid proof for tTrue presented with the commitment of tFalse
		forged := deepCopy(p1)
		setField(forged.Elem(), "ts", getField(deepCopy(p2).Elem(), "ts"))
		if same(getField(forged.Elem(), "ts"), getField(p1.Elem(), "ts")) {
			t.Fatal("harness: the two table commitments coincide")
		}
		if err := c.lookupTablesVerify(forged.Elem()); err == nil {
			t.Errorf("%s: FALSE STATEMENT ACCEPTED: proof of 'f=(5,5,7) is in the committed table' verifies with ts = commitment of (1,2,3,4): ts is not bound to the permutation/lookup proofs", c.name)
		}

		// two rows: the embedded permutation proof may be replaced by any valid, unrelated one
		f2 := [][]*big.Int{bigs(5, 5, 7), bigs(1, 1, 2)}
		t2 := [][]*big.Int{bigs(5, 7, 9, 11), bigs(1, 2, 3, 4)}
		u2 := [][]*big.Int{bigs(6, 8, 9, 11), bigs(4, 2, 3, 1)}
		q1, err := c.lookupTablesProve(f2, t2)
		if err != nil {
			t.Fatal(err)
		}
		if err := c.lookupTablesVerify(q1.Elem()); err != nil {
			t.Fatalf("honest two-row proof rejected: %v", err)
		}
		q2, err := c.lookupTablesProve([][]*big.Int{bigs(6, 6, 8), bigs(4, 4, 2)}, u2)
		if err != nil {
			t.Fatal(err)
		}
		// two rows, false statement: column (7,9) of f is not a column of t2. Honest commitments and
		// permutation proof of the false statement, lookup proof of the folded f in an unrelated table.
		ffalse := [][]*big.Int{bigs(5, 5, 7), bigs(1, 1, 9)}
		pf, err := c.lookupTablesProve(ffalse, t2)
		if err != nil {
			t.Fatal(err)
		}
		if err := c.lookupTablesVerify(pf.Elem()); err == nil {
			t.Fatalf("honestly generated proof for a false two-row statement verifies")
		}
		spliced, ok := c.tablesSplice(pf, ffalse, 4)
		if !ok {
			t.Fatalf("harness: folding model does not reproduce the prover's folded commitment")
		}
		if err := c.lookupTablesVerify(spliced.Elem()); err == nil {
			t.Errorf("%s: FALSE STATEMENT ACCEPTED (two rows): column (7,9) of f is not in the table, yet the proof with a lookup proof in an unrelated table verifies", c.name)
		}

		forged2 := deepCopy(q1)
		setField(forged2.Elem(), "permutationProof", getField(deepCopy(q2).Elem(), "permutationProof"))
		if err := c.lookupTablesVerify(forged2.Elem()); err == nil {
			t.Errorf("%s: proof with the permutation proof of an unrelated table verifies: the permutation proof is not tied to ts / foldedProof.t", c.name)
		}
	})
}

// F16: fri VerifyOpening authenticates the leaf (ProofSet[0]) but never compares it with
// OpeningProof.ClaimedValue, the exported field "needed for protocols using polynomial commitment
// schemes (to verify an algebraic relation)": any claimed value verifies.
func TestC17b_Regress_FRIOpeningClaimedValue(t *testing.T) {
	forCurves(t, func(t *testing.T, c *curve) {
		f := c.newFri(4)
		p := bigs(3, 1, 4, 1)
		pp, err := f.prove(p)
		if err != nil {
			t.Fatal(err)
		}
		for _, pos := range []uint64{0, 5, uint64(f.N - 1)} {
			op, err := f.open(p, pos)
			if err != nil {
				t.Fatal(err)
			}
			if err := f.verifyOpening(pos, op.Elem(), pp.Elem()); err != nil {
				t.Fatalf("honest opening rejected: %v", err)
			}
			want := f.evaluations(p)[pos]
			if got := feltBig(op.Elem().FieldByName("ClaimedValue")); got.Cmp(want) != 0 {
				t.Fatalf("claimed value %s != p(g^%d) = %s", got, pos, want)
			}
			forged := deepCopy(op)
			forged.Elem().FieldByName("ClaimedValue").Set(c.elem(new(big.Int).Add(want, big.NewInt(1))))
			if err := f.verifyOpening(pos, forged.Elem(), pp.Elem()); err == nil {
				t.Errorf("%s: FALSE STATEMENT ACCEPTED: opening at position %d with ClaimedValue = p(g^%d)+1 verifies", c.name, pos, pos)
			}
		}
	})
}

// F17: the round verifier authenticates the two queried leaves of a step against
// Interactions[i][0].MerkleRoot and Interactions[i][1].MerkleRoot respectively but only the former is
// bound to the transcript and the two are never compared. A prover can therefore choose one leaf of
// the last step freely (authenticated under a root of its own) so that the last folding equation
// holds: a proximity proof for a function at relative distance >= 7/8 from the code verifies.
func TestC17b_Regress_FRIUnboundNeighbourRoot(t *testing.T) {
	forCurves(t, func(t *testing.T, c *curve) {
		for _, size := range []int{2, 8} {
			f := c.newFri(size)
			q := c.q
			forgedOne := false
			for k := int64(1); k < 60 && !forgedOne; k++ {
				// far(X) = k + X^n on the domain: differs from every polynomial of degree < n in at least 7n of the 8n points
				far := make([]*big.Int, f.N)
				x := big.NewInt(1)
				for i := range far {
					far[i] = addm(big.NewInt(k), expm(x, int64(f.n), q), q)
					x = mulm(x, f.g, q)
				}
				fp, tr := f.refProve(far, nil)
				last := f.nbSteps - 1
				if tr.final[tr.si[last]/2].Cmp(tr.eval) == 0 || tr.si[last]%2 != 0 {
					continue // the single query happens to pass, or the query is the odd element of its pair
				}
				if err := f.verify(fp.Elem()); err == nil {
					t.Fatalf("harness: honest-run proof for the far function should fail its last check")
				}
				l, w, xl := tr.l[last], tr.ginvPow[last], tr.xi[last]
				wx := mulm(w, xl, q)
				den := subm(big.NewInt(1), wx, q)
				num := subm(mulm(big.NewInt(2), tr.eval, q), mulm(l, addm(big.NewInt(1), wx, q), q), q)
				r2 := mulm(num, invm(den, q), q)
				forged := deepCopy(fp)
				in := forged.Elem().FieldByName("Rounds").Index(0).FieldByName("Interactions").Index(last)
				full, nb := in.Index(0).FieldByName("ProofSet"), in.Index(1)
				leaf := c.marshalFelt(r2)
				path := [][]byte{leaf, nb.FieldByName("ProofSet").Index(1).Bytes()}
				for j := 2; j < full.Len(); j++ {
					path = append(path, full.Index(j).Bytes())
				}
				root, ok := merkleRootFromPath(path, uint64(tr.si[last]+1), uint64(tr.treeSize[last]))
				if !ok {
					t.Fatal("harness: neighbour path")
				}
				nb.FieldByName("ProofSet").Index(0).SetBytes(leaf)
				nb.FieldByName("MerkleRoot").SetBytes(root)
				forgedOne = true
				if err := f.verify(forged.Elem()); err == nil {
					t.Errorf("%s size=%d: FALSE STATEMENT ACCEPTED: proximity proof for %d+X^%d (distance >= 7/8 from degree < %d) verifies with a neighbour leaf authenticated under its own Merkle root", c.name, size, k, f.n, f.n)
				}
			}
			if !forgedOne {
				t.Fatalf("harness: no suitable query position found")
			}
		}
	})
}

// F11: vortex.Params.Verify checks (1) UAlpha(x) = sum_i y_i alpha^i, (2) UAlpha is a codeword,
// (3) the opened columns hash to leaves of the committed tree - but never that the opened columns
// are consistent with UAlpha (sum_i alpha^i col_c[i] = UAlpha[c]). UAlpha is therefore not tied to
// the commitment at all: claimed values of any other polynomial verify.
func TestC17b_Regress_VortexColumnsVsUAlpha(t *testing.T) {
	vc := &vortexCase{nCol: 8, nRow: 4, rate: 2, scw: 16, logDeg: 4, logBound: 8}
	vc.mv = make([][]*big.Int, vc.nRow)
	vc.m = make([][]koalabear.Element, vc.nRow)
	for i := range vc.mv {
		vc.mv[i] = make([]*big.Int, vc.nCol)
		vc.m[i] = make([]koalabear.Element, vc.nCol)
		for j := range vc.mv[i] {
			vc.mv[i][j] = big.NewInt(int64(1 + 7*i + 3*j*j))
			vc.m[i][j] = kel(vc.mv[i][j])
		}
	}
	vc.x = ref.V{big.NewInt(5), big.NewInt(6), big.NewInt(7), big.NewInt(8)}
	vc.alpha = ref.V{big.NewInt(11), big.NewInt(12), big.NewInt(13), big.NewInt(14)}
	vc.sel = []int{0, 3, 9, 15}
	if err := vc.run(); err != nil {
		t.Fatal(err)
	}
	if err := vc.params.Verify(*vc.input()); err != nil {
		t.Fatalf("honest proof rejected: %v", err)
	}
	// the forger claims evaluations of row 2 + delta, delta = (1,0,...,0) in Lagrange basis
	k := 2
	delta := bigs(1, 0, 0, 0, 0, 0, 0, 0)
	dx := evalRows([][]*big.Int{delta}, lagrangeWeights(vc.nCol, vc.x))[0]
	if kE4.IsZero(dx) {
		t.Fatal("harness: delta(x) = 0")
	}
	de := make([]koalabear.Element, vc.nCol)
	for j := range de {
		de[j] = kel(delta[j])
	}
	rs := make([]koalabear.Element, vc.scw)
	vc.params.EncodeReedSolomon(de, rs)
	hit := false
	for _, c := range vc.sel {
		hit = hit || !rs[c].IsZero()
	}
	if !hit {
		t.Fatal("harness: RS(delta) vanishes on every opened column")
	}
	in := vc.input()
	pr := *vc.proof
	pr.UAlpha = append([]fext.E4(nil), vc.proof.UAlpha...)
	ak := e4FromRef(ref.Exp(kE4, vc.alpha, big.NewInt(int64(k))))
	for j := range pr.UAlpha {
		var tmp fext.E4
		tmp.MulByElement(&ak, &rs[j])
		pr.UAlpha[j].Add(&pr.UAlpha[j], &tmp)
	}
	in.Proof = &pr
	in.ClaimedValues[k] = e4FromRef(kE4.Add(vc.ys[k], dx))
	if err := vc.params.Verify(*in); err == nil {
		t.Errorf("FALSE STATEMENT ACCEPTED: row %d of the committed matrix evaluates to %s at x, the proof claims %s and verifies (UAlpha shifted by alpha^%d*RS(delta), opened columns untouched)",
			k, ref.String(vc.ys[k]), ref.String(kE4.Add(vc.ys[k], dx)), k)
	}
}
