package c17b

import (
	"crypto/sha256"
	"fmt"
	"math/big"
	"os"
	"reflect"
	"strings"
	"sync"
	"testing"

	fiatshamir "github.com/consensys/gnark-crypto/fiat-shamir"
	"pgregory.net/rapid"

	"verif/harness/internal/reg"
	"verif/harness/internal/rep"
)

func (c *curve) mutEnv() *mutEnv {
	return &mutEnv{
		modulus: func(reflect.Type) *big.Int { return c.q },
		g1Gen:   c.g1Gen,
		order:   c.q,
	}
}

// ---- generic driver for "verify(vk, proof)" schemes --------------------------------------------

// tamperPlan decides, per scheme, what a mutation is expected to do.
type expectation int

const (
	expReject expectation = iota // the mutated proof is invalid: a correct verifier rejects
	expAccept                    // the mutated proof is still a valid proof: must still verify
	expSkip                      // not asserted (reason recorded as a class)
)

type scheme struct {
	name   string // permutation, plookup_vector, ...
	test   string // rep test name
	verify func(proof reflect.Value) error
	// expect refines the default (changed => reject). orig/mut are the roots (addressable).
	expect func(s site, kind string, orig, mut reflect.Value) (expectation, string)
	env    *mutEnv
	// per-instance accounting: a rejected forgery whose class label is in tagLabels is also counted
	// under label@tag (tag = curve), so that the driver can demand it for every curve
	tag       string
	tagLabels map[string]bool
}

// tamperAll mutates every site of the honest proof a (pointer) in every way and checks the verdicts.
// b is another honest proof (pointer; may be invalid). stmt is the canonical statement text.
// maxSites > 0 subsamples the sites.
func (sc *scheme) tamperAll(t *rapid.T, a, b reflect.Value, stmt string, maxSites int) {
	sites := discover(a.Elem())
	rep.Note(sc.test, "tamper sites of "+sc.name+" ("+a.Elem().Type().String()+"): "+sitePaths(sites))
	if maxSites > 0 && len(sites) > maxSites {
		idx := rapid.Permutation(seq(len(sites))).Draw(t, "sitesel")[:maxSites]
		sub := make([]site, 0, maxSites)
		for _, i := range idx {
			sub = append(sub, sites[i])
		}
		sites = sub
	}
	var other reflect.Value
	if b.IsValid() {
		other = b.Elem()
	}
	h := short(stmt)
	for _, s := range sites {
		for _, kind := range kindsFor(s.kind) {
			m := deepCopy(a)
			applied, desc := mutate(t, sc.env, m.Elem(), other, s, kind)
			if !applied {
				continue
			}
			label := sc.name + "|" + s.npath + ":" + s.kind.String() + "|" + kind
			key := fmt.Sprintf("%s stmt=%s %s %s -> %s", sc.test, h, s.path, kind, desc)
			ov, _ := navigate(a.Elem(), s.steps)
			mv, _ := navigate(m.Elem(), s.steps)
			changed := !same(ov, mv)
			exp, why := expReject, ""
			if !changed {
				exp, why = expAccept, "identical"
			}
			if sc.expect != nil && changed {
				if e, w := sc.expect(s, kind, a.Elem(), m.Elem()); w != "" {
					exp, why = e, w
				}
			}
			if exp == expSkip {
				rep.Case(sc.test, key, false, sc.name, label, "not_asserted:"+why)
				continue
			}
			o := guard(func() error { return sc.verify(m.Elem()) })
			switch {
			case exp == expAccept:
				if !o.accepted {
					t.Fatalf("%s: mutation %s at %s leaves the proof valid (%s) but verification says %v", sc.test, kind, s.path, why, o)
				}
				rep.Case(sc.test, key, false, sc.name, label, "still_valid:"+why)
			case o.accepted && survey:
				surveyHit(sc.test, label+" @ "+s.path+" -> "+desc+" ; "+clip(stmt))
				rep.Case(sc.test, key, true, sc.name, label, "forged", "SURVEY_ACCEPTED")
			case o.accepted:
				accepted(t, "%s: FORGERY ACCEPTED: %s site %s (%s) mutation %s -> %s; statement %s", sc.test, sc.name, s.path, s.kind, kind, desc, clip(stmt))
			case o.panicked != nil:
				if s.kind != kLen {
					t.Fatalf("%s: verifier panicked on a well-formed (same shape) proof: site %s mutation %s -> %s: %v", sc.test, s.path, kind, desc, o.panicked)
				}
				rep.Case(sc.test, key, true, sc.name, label, "forged", "rejected_by_panic(len)")
			case sc.tagLabels[label]:
				rep.Case(sc.test, key, true, sc.name, label, label+"@"+sc.tag, "forged", "rejected")
			default:
				rep.Case(sc.test, key, true, sc.name, label, "forged", "rejected")
			}
		}
	}
}

// survey mode (VERIF_C17B_SURVEY=1, debugging only): accepted forgeries are listed instead of failing
// the property, so that every affected class of a defect (or of a mutant) is seen in one run.
var (
	survey     = os.Getenv("VERIF_C17B_SURVEY") != ""
	surveyMu   sync.Mutex
	surveySeen = map[string]int{}
)

// accepted reports a forged proof / false statement that verified.
func accepted(t *rapid.T, format string, args ...interface{}) {
	if survey {
		msg := fmt.Sprintf(format, args...)
		surveyHit("", clip(msg)+" @ ")
		return
	}
	t.Fatalf(format, args...)
}

func surveyHit(test, what string) {
	surveyMu.Lock()
	defer surveyMu.Unlock()
	k := test + " " + strings.SplitN(what, " @ ", 2)[0]
	surveySeen[k]++
	if surveySeen[k] <= 2 {
		fmt.Println("SURVEY accepted:", test, what)
	}
}

func seq(n int) []int {
	s := make([]int, n)
	for i := range s {
		s[i] = i
	}
	return s
}

func clip(s string) string {
	if len(s) > 600 {
		return s[:600] + "…"
	}
	return s
}

// ---- permutation -----------------------------------------------------------------------------------

func (c *curve) permProve(t1, t2 []*big.Int) (reflect.Value, error) {
	pk, _ := c.srs()
	res := c.perm.F("Prove", pk, c.elems(t1).Interface(), c.elems(t2).Interface())
	p := reflect.New(c.perm.Types["Proof"])
	p.Elem().Set(reflect.ValueOf(res[0]))
	return p, reg.Err(res)
}

func (c *curve) permVerify(proof reflect.Value) error {
	_, vk := c.srs()
	return reg.Err(c.perm.F("Verify", vk, proof.Interface()))
}

// drawPermStatement draws t1 (with repeated entries) and a permutation t2 of it.
func drawPermStatement(t *rapid.T, c *curve, n int, label string) (t1, t2 []*big.Int, cls string) {
	k := rapid.IntRange(1, 5).Draw(t, label+"poolsize")
	pool := drawPool(t, c.spec, k, label+"pool")
	idx := rapid.SliceOfN(rapid.IntRange(0, k-1), n, n).Draw(t, label+"idx")
	t1 = make([]*big.Int, n)
	for i := range t1 {
		t1[i] = pool[idx[i]]
	}
	var perm []int
	switch rapid.IntRange(0, 3).Draw(t, label+"permkind") {
	case 0:
		perm, cls = seq(n), "perm:identity"
	case 1:
		perm, cls = seq(n), "perm:rotation"
		r := rapid.IntRange(1, n).Draw(t, label+"rot")
		for i := range perm {
			perm[i] = (i + r) % n
		}
	default:
		perm, cls = rapid.Permutation(seq(n)).Draw(t, label+"perm"), "perm:random"
	}
	t2 = make([]*big.Int, n)
	for i := range t2 {
		t2[i] = t1[perm[i]]
	}
	return
}

// permNumeratorVanishes reports whether N(X) = (eps-t2(X)) z(gX) - (eps-t1(X)) z(X) is the zero
// polynomial (not merely zero on the domain) for the challenge eps0, computed from the definitions.
// When it is (t1 = t2 entry by entry, or e.g. t2 a rotation of t1 by one position, where
// z = c*(eps - t1(X/g)) solves the recurrence as a polynomial identity), the quotient is
// omega*(z-1)/(X-1) and the verifier's identity holds for EVERY value of the proof's size field, so
// size is not determined by anything while the statement stays true. For a random eps0 the answer
// coincides with the one for the real Fiat-Shamir eps except with negligible probability (the
// coefficients of N are rational functions of eps).
func permNumeratorVanishes(t1, t2 []*big.Int, g, q, eps0 *big.Int) bool {
	n := len(t1)
	z := make([]*big.Int, n)
	z[0] = big.NewInt(1)
	for i := 0; i < n-1; i++ {
		den := subm(eps0, t2[i], q)
		if den.Sign() == 0 {
			return true // unlucky eps0: do not assert
		}
		z[i+1] = mulm(mulm(z[i], subm(eps0, t1[i], q), q), invm(den, q), q)
	}
	c1, c2, cz := interpolate(t1, g, q), interpolate(t2, g, q), interpolate(z, g, q)
	e1 := polySub([]*big.Int{eps0}, c1, q)
	e2 := polySub([]*big.Int{eps0}, c2, q)
	return polyIsZero(polySub(polyMul(e2, polyScaleArg(cz, g, q), q), polyMul(e1, cz, q), q))
}

// permChallenges replays the verifier's three Fiat-Shamir challenges from the commitments.
func (c *curve) permChallenges(t1, t2, z, q reflect.Value) (eps, omega, eta *big.Int) {
	fs := fiatshamir.NewTranscript(sha256.New(), "epsilon", "omega", "eta")
	derive := func(name string, pts ...reflect.Value) *big.Int {
		for _, p := range pts {
			must(fs.Bind(name, rawBytes(p)))
		}
		b, err := fs.ComputeChallenge(name)
		must(err)
		return new(big.Int).Mod(new(big.Int).SetBytes(b), c.q)
	}
	return derive("epsilon", t1, t2), derive("omega", z), derive("eta", q)
}

// permZeroAccumulator builds the targeted forgery for a FALSE statement (t1, t2 not permutations of
// each other): accumulator z = 0 and quotient q = 0 (both committed as the point at infinity), honest
// commitments and genuine KZG openings of t1, t2 (and of the zero polynomials) at the verifier's own
// challenge. The recurrence z(gX)(eps-t2) = z(X)(eps-t1) holds trivially and every opening verifies:
// the only thing wrong is z(1) != 1, i.e. only the L0*(z-1) term of the verifier's identity can reject.
// ok=false when the transcript model cannot be validated on the honest proof `honest`.
func (c *curve) permZeroAccumulator(honest reflect.Value, t1, t2 []*big.Int) (forged reflect.Value, ok bool) {
	pk, vk := c.srs()
	n := len(t1)
	g := feltBig(getField(honest.Elem(), "g"))
	// validate the transcript model on the honest proof: its batch opening must verify at our eta
	_, _, etaH := c.permChallenges(getField(honest.Elem(), "t1"), getField(honest.Elem(), "t2"), getField(honest.Elem(), "z"), getField(honest.Elem(), "q"))
	digT := c.kzg.Types["Digest"]
	mkDigests := func(vs ...reflect.Value) reflect.Value {
		s := reflect.MakeSlice(reflect.SliceOf(digT), len(vs), len(vs))
		for i, v := range vs {
			s.Index(i).Set(v)
		}
		return s
	}
	hd := mkDigests(getField(honest.Elem(), "t1"), getField(honest.Elem(), "t2"), getField(honest.Elem(), "z"), getField(honest.Elem(), "q"))
	hb := getField(honest.Elem(), "batchedProof")
	if reg.Err(c.kzg.F("BatchVerifySinglePoint", hd.Interface(), hb.Addr().Interface(), c.elem(etaH).Interface(), sha256.New(), vk)) != nil {
		return forged, false
	}
	// canonical forms of t1, t2 (p(g^i) = t[i]) and their commitments
	c1, c2 := c.elems(interpolate(t1, g, c.q)), c.elems(interpolate(t2, g, c.q))
	zero := reflect.MakeSlice(reflect.SliceOf(c.elT), n, n)
	commit := func(p reflect.Value) reflect.Value {
		r := c.kzg.F("Commit", p.Interface(), pk)
		must(reg.Err(r))
		return reflect.ValueOf(r[0])
	}
	d1, d2 := commit(c1), commit(c2)
	inf := reflect.Zero(digT)
	_, _, eta := c.permChallenges(d1, d2, inf, inf)
	polys := reflect.MakeSlice(reflect.SliceOf(reflect.SliceOf(c.elT)), 4, 4)
	polys.Index(0).Set(c1)
	polys.Index(1).Set(c2)
	polys.Index(2).Set(zero)
	polys.Index(3).Set(zero)
	digs := mkDigests(d1, d2, inf, inf)
	rb := c.kzg.F("BatchOpenSinglePoint", polys.Interface(), digs.Interface(), c.elem(eta).Interface(), sha256.New(), pk)
	if reg.Err(rb) != nil {
		return forged, false
	}
	shifted := mulm(eta, g, c.q)
	ro := c.kzg.F("Open", zero.Interface(), c.elem(shifted).Interface(), pk)
	if reg.Err(ro) != nil {
		return forged, false
	}
	bp, sp := ptrOf(rb[0]), ptrOf(ro[0])
	// the openings are genuine: both KZG checks of the verifier hold
	if reg.Err(c.kzg.F("BatchVerifySinglePoint", digs.Interface(), bp, c.elem(eta).Interface(), sha256.New(), vk)) != nil {
		return forged, false
	}
	if reg.Err(c.kzg.F("Verify", ptrOf(inf.Interface()), sp, c.elem(shifted).Interface(), vk)) != nil {
		return forged, false
	}
	forged = reflect.New(c.perm.Types["Proof"])
	f := forged.Elem()
	getField(f, "size").SetInt(int64(n))
	setField(f, "g", c.elem(g))
	setField(f, "t1", d1)
	setField(f, "t2", d2)
	setField(f, "batchedProof", reflect.ValueOf(bp).Elem())
	setField(f, "shiftedProof", reflect.ValueOf(sp).Elem())
	return forged, true
}

// polyDivXnMinus1 divides p by X^n - 1; ok=false when the remainder is not zero.
func polyDivXnMinus1(p []*big.Int, n int, q *big.Int) (quo []*big.Int, ok bool) {
	r := make([]*big.Int, len(p))
	for i := range p {
		r[i] = new(big.Int).Set(p[i])
	}
	if len(r) > n {
		quo = make([]*big.Int, len(r)-n)
	}
	for i := len(r) - 1; i >= n; i-- {
		quo[i-n] = new(big.Int).Set(r[i])
		r[i-n] = addm(r[i-n], r[i], q)
		r[i] = new(big.Int)
	}
	return quo, polyIsZero(r)
}

// permDegenerateGenerator builds the targeted forgery for a FALSE statement that only the test on the
// ORDER of proof.g can reject. The proof carries g' = g^(n/m) of order m < n (m = 1: g' = 1; m = 2:
// g' = -1; m = n/2). With such a g' the recurrence z(g'x)(eps-t2(x)) = z(x)(eps-t1(x)) only links the
// points of each coset of <g'>: take z = 0 on every coset except <g'> itself, where z(1) = 1 and z
// follows the recurrence; it closes up as soon as t1 and t2 agree as multisets on the m positions
// k*n/m - whatever the other n-m entries are. Accumulator, quotient and every KZG opening (the
// shifted one at g'*eta) are computed honestly for that g' with the verifier's own challenges, and
// the verifier's identity and both KZG checks are re-checked here before the proof is submitted.
func (c *curve) permDegenerateGenerator(g *big.Int, t1, t2 []*big.Int, m int) (forged reflect.Value, ok bool) {
	pk, vk := c.srs()
	q := c.q
	n := len(t1)
	step := n / m
	gp := expm(g, int64(step), q) // order m
	digT := c.kzg.Types["Digest"]
	commit := func(p []*big.Int) (reflect.Value, reflect.Value) {
		e := c.elems(p)
		r := c.kzg.F("Commit", e.Interface(), pk)
		must(reg.Err(r))
		return e, reflect.ValueOf(r[0])
	}
	c1, c2 := interpolate(t1, g, q), interpolate(t2, g, q)
	e1, d1 := commit(c1)
	e2, d2 := commit(c2)
	inf := reflect.Zero(digT)
	eps, _, _ := c.permChallenges(d1, d2, inf, inf)
	// accumulator on the coset <g'> only
	z := make([]*big.Int, n)
	for i := range z {
		z[i] = new(big.Int)
	}
	cur := big.NewInt(1)
	for k := 0; k < m; k++ {
		pos := (k * step) % n
		if k > 0 {
			z[pos] = cur
		} else {
			z[0] = big.NewInt(1)
		}
		den := subm(eps, t2[pos], q)
		if den.Sign() == 0 {
			return forged, false
		}
		cur = mulm(mulm(cur, subm(eps, t1[pos], q), q), invm(den, q), q)
	}
	if cur.Cmp(big.NewInt(1)) != 0 {
		return forged, false // t1, t2 do not agree on the positions of <g'>: the recurrence does not close up
	}
	cz := interpolate(z, g, q)
	ez, dz := commit(cz)
	_, omega, _ := c.permChallenges(d1, d2, dz, inf)
	// numerator (eps-t2) z(g'X) - (eps-t1) z + omega*L0*(z-1), L0 = (X^n-1)/(X-1) = 1+X+...+X^(n-1)
	l0 := make([]*big.Int, n)
	for i := range l0 {
		l0[i] = big.NewInt(1)
	}
	zm1 := polySub(cz, []*big.Int{big.NewInt(1)}, q)
	num := polySub(polyMul(polySub([]*big.Int{eps}, c2, q), polyScaleArg(cz, gp, q), q), polyMul(polySub([]*big.Int{eps}, c1, q), cz, q), q)
	bnd := polyMul(l0, zm1, q)
	for i := range bnd {
		bnd[i] = mulm(bnd[i], omega, q)
	}
	num = polySub(num, polySub(nil, bnd, q), q) // num + bnd
	cq, exact := polyDivXnMinus1(num, n, q)
	if !exact {
		return forged, false
	}
	for len(cq) < n {
		cq = append(cq, new(big.Int))
	}
	eq, dq := commit(cq)
	_, _, eta := c.permChallenges(d1, d2, dz, dq)
	shifted := mulm(eta, gp, q)
	// the verifier's identity, re-evaluated here from the definitions
	{
		one := big.NewInt(1)
		v1, v2, vz, vq, vzs := polyEval(c1, eta, q), polyEval(c2, eta, q), polyEval(cz, eta, q), polyEval(cq, eta, q), polyEval(cz, shifted, q)
		xn1 := subm(expm(eta, int64(n), q), one, q)
		l0e := mulm(xn1, invm(subm(eta, one, q), q), q)
		lhs := subm(mulm(subm(eps, v2, q), vzs, q), mulm(subm(eps, v1, q), vz, q), q)
		lhs = addm(lhs, mulm(mulm(subm(vz, one, q), l0e, q), omega, q), q)
		if lhs.Cmp(mulm(xn1, vq, q)) != 0 {
			return forged, false
		}
	}
	polys := reflect.MakeSlice(reflect.SliceOf(reflect.SliceOf(c.elT)), 4, 4)
	digs := reflect.MakeSlice(reflect.SliceOf(digT), 4, 4)
	for i, pr := range [][2]reflect.Value{{e1, d1}, {e2, d2}, {ez, dz}, {eq, dq}} {
		polys.Index(i).Set(pr[0])
		digs.Index(i).Set(pr[1])
	}
	rb := c.kzg.F("BatchOpenSinglePoint", polys.Interface(), digs.Interface(), c.elem(eta).Interface(), sha256.New(), pk)
	ro := c.kzg.F("Open", ez.Interface(), c.elem(shifted).Interface(), pk)
	if reg.Err(rb) != nil || reg.Err(ro) != nil {
		return forged, false
	}
	bp, sp := ptrOf(rb[0]), ptrOf(ro[0])
	if reg.Err(c.kzg.F("BatchVerifySinglePoint", digs.Interface(), bp, c.elem(eta).Interface(), sha256.New(), vk)) != nil {
		return forged, false
	}
	if reg.Err(c.kzg.F("Verify", ptrOf(dz.Interface()), sp, c.elem(shifted).Interface(), vk)) != nil {
		return forged, false
	}
	forged = reflect.New(c.perm.Types["Proof"])
	f := forged.Elem()
	getField(f, "size").SetInt(int64(n))
	setField(f, "g", c.elem(gp))
	setField(f, "t1", d1)
	setField(f, "t2", d2)
	setField(f, "z", dz)
	setField(f, "q", dq)
	setField(f, "batchedProof", reflect.ValueOf(bp).Elem())
	setField(f, "shiftedProof", reflect.ValueOf(sp).Elem())
	return forged, true
}

// drawDegenerateStatement: t2 agrees with t1 as a multiset on the m positions k*n/m (rotated there when
// m > 1) and differs from it, as a multiset, elsewhere.
func drawDegenerateStatement(t *rapid.T, c *curve, t1 []*big.Int, m int) []*big.Int {
	n := len(t1)
	step := n / m
	t2 := append([]*big.Int(nil), t1...)
	for k := 0; k < m; k++ {
		t2[(k*step)%n] = t1[(((k+1)%m)*step)%n]
	}
	// a position outside <g'>
	var free []int
	for i := 0; i < n; i++ {
		if i%step != 0 {
			free = append(free, i)
		}
	}
	j := free[rapid.IntRange(0, len(free)-1).Draw(t, "degpos")]
	for d := int64(1); ; d++ {
		t2[j] = addm(t1[j], big.NewInt(d), c.q)
		if !multisetEqual(t1, t2) {
			return t2
		}
	}
}

func permSizes() []int {
	if rep.Thorough() {
		return []int{2, 4, 8, 16, 32, 64, 128}
	}
	return []int{2, 4, 8, 16, 32}
}

func propPermutation(t *rapid.T, c *curve) {
	test := "C17b_Permutation/" + c.name
	n := rapid.SampledFrom(permSizes()).Draw(t, "n")
	t1, t2, pcls := drawPermStatement(t, c, n, "a")
	stmt := fmt.Sprintf("permutation %s t1=[%s] t2=[%s]", c.name, hexs(t1), hexs(t2))
	distinct := map[string]bool{}
	for _, x := range t1 {
		distinct[x.String()] = true
	}
	rcls := "entries:all_distinct"
	if len(distinct) < n {
		rcls = "entries:repeated"
	}
	if len(distinct) == 1 {
		rcls = "entries:constant"
	}

	// (1) completeness
	a, err := c.permProve(t1, t2)
	if err != nil {
		t.Fatalf("%s: Prove failed on an admissible statement: %v (%s)", test, err, clip(stmt))
	}
	if err := c.permVerify(a.Elem()); err != nil {
		t.Fatalf("%s: honest proof rejected: %v (%s)", test, err, clip(stmt))
	}
	rep.Case(test, stmt, n == 2 || len(distinct) < n, "permutation", "honest", fmt.Sprintf("n=%d", n), pcls, rcls)

	// (2b) false statement with an honestly run prover: the multisets differ in one entry
	{
		f2 := append([]*big.Int(nil), t2...)
		pos := rapid.IntRange(0, n-1).Draw(t, "falsepos")
		nv, _ := c.spec.Related(t, f2[pos], "falseval")
		f2[pos] = nv
		fs := fmt.Sprintf("permutation-false %s t1=[%s] t2=[%s]", c.name, hexs(t1), hexs(f2))
		if multisetEqual(t1, f2) {
			rep.Case(test, fs, false, "permutation", "false_stmt:degenerate_still_true")
		} else {
			fp, err := c.permProve(t1, f2)
			if err != nil {
				rep.Case(test, fs, true, "permutation", "false_stmt:prover_refused")
			} else {
				o := guard(func() error { return c.permVerify(fp.Elem()) })
				if o.accepted {
					accepted(t, "%s: FALSE STATEMENT ACCEPTED: vectors are not permutations of each other (%s)", test, clip(fs))
				}
				if o.panicked != nil {
					t.Fatalf("%s: verifier panicked on an honestly generated proof: %v", test, o.panicked)
				}
				rep.Case(test, fs, true, "permutation", "forged", "false_stmt:rejected")
			}
			if forged, ok := c.permZeroAccumulator(a, t1, f2); ok {
				o := guard(func() error { return c.permVerify(forged.Elem()) })
				if o.accepted {
					accepted(t, "%s: FALSE STATEMENT ACCEPTED: accumulator z=0, quotient q=0, genuine openings: nothing enforces z(1)=1 (%s)", test, clip(fs))
				}
				if o.panicked != nil {
					t.Fatalf("%s: verifier panicked: %v", test, o.panicked)
				}
				rep.Case(test, fs+" z=0", true, "permutation", "false_stmt|zero_accumulator_consistent_openings", "zero_accumulator@"+c.name, "forged", "rejected")
			} else {
				rep.Case(test, fs+" z=0", false, "permutation", "transcript_model_unavailable")
			}
			// challenge binding: adaptive provers that know omega before z / eta before q
			gA := feltBig(acc(a.Elem().FieldByName("g")))
			permBindingCustom(t, c, test, t1, f2, gA, "omega")
			permBindingCustom(t, c, test, t1, f2, gA, "eta")
		}
	}

	// (3) degenerate generator: a consistent proof for a false statement built around g' of order m < n
	{
		ms := []int{1}
		if n >= 4 {
			ms = append(ms, 2, n/2)
		}
		m := rapid.SampledFrom(ms).Draw(t, "degorder")
		d2 := drawDegenerateStatement(t, c, t1, m)
		ds := fmt.Sprintf("permutation-false %s t1=[%s] t2=[%s] g'=g^(n/%d)", c.name, hexs(t1), hexs(d2), m)
		gTrue := feltBig(acc(a.Elem().FieldByName("g")))
		if forged, ok := c.permDegenerateGenerator(gTrue, t1, d2, m); ok {
			o := guard(func() error { return c.permVerify(forged.Elem()) })
			if o.accepted {
				accepted(t, "%s: FALSE STATEMENT ACCEPTED: proof built around a generator g' of order %d < n=%d (accumulator supported on <g'>, genuine quotient and openings): the order of proof.g is not enforced (%s)", test, m, n, clip(ds))
			}
			if o.panicked != nil {
				t.Fatalf("%s: verifier panicked: %v", test, o.panicked)
			}
			rep.Case(test, ds, true, "permutation", "forgery:degenerate_generator", "forgery:degenerate_generator@"+c.name, fmt.Sprintf("forgery:degenerate_generator|order=%s", map[bool]string{true: "1", false: map[bool]string{true: "2", false: "n/2"}[m == 2]}[m == 1]), "forged", "rejected")
		} else {
			rep.Case(test, ds, false, "permutation", "forgery:degenerate_generator|construction_unavailable")
		}
	}

	// challenge binding: eps must depend on both commitments (the library's own prover, adaptive inputs)
	permBindingEps(t, c, test, n)

	// (2a) reflective tampering; the second honest proof feeds the "other" substitutions
	var b reflect.Value
	{
		nb := n
		if rapid.Bool().Draw(t, "othersize") {
			nb = rapid.SampledFrom(permSizes()).Draw(t, "nb") // another size: other size / generator values
		}
		u1, u2, _ := drawPermStatement(t, c, nb, "b")
		if p, err := c.permProve(u1, u2); err == nil {
			b = p
		}
	}
	g := feltBig(acc(a.Elem().FieldByName("g")))
	if !hasOrder(g, n, c.q) {
		t.Fatalf("%s: honest proof carries a generator of order != %d", test, n)
	}
	zConst := true
	for i := 0; i < n-1; i++ {
		zConst = zConst && t1[i].Cmp(t2[i]) == 0
	}
	numZero := zConst || permNumeratorVanishes(t1, t2, g, c.q, c.spec.Uniform(t, "eps0"))
	sc := &scheme{name: "permutation", test: test, env: c.mutEnv(),
		verify: func(p reflect.Value) error { return c.permVerify(p) },
		expect: func(s site, kind string, orig, mut reflect.Value) (expectation, string) {
			// size and g are auxiliary fields of the proof: see permNumeratorVanishes; with a
			// constant accumulator z (t1 = t2 entry by entry) the shifted opening holds at every point.
			if s.path == "size" && numZero {
				return expSkip, "size_unconstrained(numerator_identically_zero)"
			}
			if s.path == "g" && zConst {
				return expSkip, "g_unconstrained(constant_accumulator)"
			}
			return expReject, ""
		},
	}
	sc.tamperAll(t, a, b, stmt, 0)
}

func TestC17b_Permutation(t *testing.T) {
	forCurves(t, func(t *testing.T, c *curve) {
		c.srs()
		rep.Note("C17b_Permutation/"+c.name, "size 1 (2^0) is excluded: Verify's generator-order test g^(size/2)!=1 cannot hold for size 1, so the degenerate one-entry statement is not provable by design")
		rapid.Check(t, func(t *rapid.T) { propPermutation(t, c) })
	})
}
