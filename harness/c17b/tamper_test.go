package c17b

// Reflective tamper engine: discovers every leaf of a proof object (unexported fields included) and
// produces mutated deep copies. It knows nothing about the schemes; scheme-specific knowledge (which
// mutations leave the proof valid, which are consumed by no check) lives next to each scheme.

import (
	"fmt"
	"math/big"
	"reflect"
	"regexp"
	"strings"
	"unsafe"

	"pgregory.net/rapid"

	"verif/harness/internal/reg"
)

type siteKind int

const (
	kFelt   siteKind = iota // field element (type with BigInt/SetBigInt)
	kPoint                  // G1Affine / G2Affine
	kBytes                  // []byte (hash, digest, Merkle node, leaf)
	kInt                    // integer
	kLen                    // length of a slice (of non-bytes)
	kStruct                 // whole composite (substitution by the same-typed component of another proof)
)

func (k siteKind) String() string {
	return [...]string{"felt", "point", "bytes", "int", "len", "struct"}[k]
}

type step struct {
	field int // struct field index, or -1
	index int // slice/array index, or -1
	deref bool
}

type site struct {
	path  string // concrete path, e.g. Rounds[0].Interactions[3][1].ProofSet[2]
	npath string // indices normalised to [*]
	kind  siteKind
	steps []step
	typ   reflect.Type
}

var idxRe = regexp.MustCompile(`\[\d+\]`)

func normPath(p string) string { return idxRe.ReplaceAllString(p, "[*]") }

// acc returns a settable view of v even when v was reached through an unexported field.
func acc(v reflect.Value) reflect.Value {
	if v.CanSet() {
		return v
	}
	if !v.CanAddr() {
		panic("c17b: value not addressable: " + v.Type().String())
	}
	return reflect.NewAt(v.Type(), unsafe.Pointer(v.UnsafeAddr())).Elem()
}

var bigIntPtr = reflect.TypeOf((*big.Int)(nil))

func isFelt(t reflect.Type) bool {
	if t.Kind() != reflect.Array {
		return false
	}
	m, ok := reflect.PtrTo(t).MethodByName("SetBigInt")
	return ok && m.Type.NumIn() == 2 && m.Type.In(1) == bigIntPtr
}

func isPoint(t reflect.Type) bool {
	return t.Kind() == reflect.Struct && (t.Name() == "G1Affine" || t.Name() == "G2Affine")
}

func isBytes(t reflect.Type) bool {
	return t.Kind() == reflect.Slice && t.Elem().Kind() == reflect.Uint8
}

func isInt(t reflect.Type) bool {
	switch t.Kind() {
	case reflect.Int, reflect.Int8, reflect.Int16, reflect.Int32, reflect.Int64,
		reflect.Uint, reflect.Uint8, reflect.Uint16, reflect.Uint32, reflect.Uint64:
		return true
	}
	return false
}

// discover lists the tamper sites below root (an addressable value).
func discover(root reflect.Value) []site {
	var out []site
	var walk func(v reflect.Value, path string, steps []step, top bool)
	add := func(path string, steps []step, k siteKind, t reflect.Type) {
		out = append(out, site{path: path, npath: normPath(path), kind: k, steps: append([]step(nil), steps...), typ: t})
	}
	walk = func(v reflect.Value, path string, steps []step, top bool) {
		t := v.Type()
		switch {
		case isBytes(t):
			add(path, steps, kBytes, t)
		case isFelt(t):
			add(path, steps, kFelt, t)
		case isPoint(t):
			add(path, steps, kPoint, t)
		case isInt(t):
			add(path, steps, kInt, t)
		case t.Kind() == reflect.Slice:
			add(path, steps, kLen, t)
			for i := 0; i < v.Len(); i++ {
				walk(v.Index(i), fmt.Sprintf("%s[%d]", path, i), append(steps, step{field: -1, index: i}), false)
			}
		case t.Kind() == reflect.Array:
			for i := 0; i < v.Len(); i++ {
				walk(v.Index(i), fmt.Sprintf("%s[%d]", path, i), append(steps, step{field: -1, index: i}), false)
			}
		case t.Kind() == reflect.Struct:
			if !top {
				add(path, steps, kStruct, t)
			}
			for i := 0; i < t.NumField(); i++ {
				p := t.Field(i).Name
				if path != "" {
					p = path + "." + p
				}
				walk(v.Field(i), p, append(steps, step{field: i, index: -1}), false)
			}
		case t.Kind() == reflect.Ptr:
			if !v.IsNil() {
				walk(v.Elem(), path, append(steps, step{field: -1, index: -1, deref: true}), top)
			}
		}
	}
	walk(root, "", nil, true)
	return out
}

// navigate follows steps below root; ok=false when the path does not exist in this object.
func navigate(root reflect.Value, steps []step) (v reflect.Value, ok bool) {
	v = root
	for _, s := range steps {
		switch {
		case s.deref:
			if v.Kind() != reflect.Ptr || v.IsNil() {
				return v, false
			}
			v = v.Elem()
		case s.field >= 0:
			if v.Kind() != reflect.Struct || s.field >= v.NumField() {
				return v, false
			}
			v = v.Field(s.field)
		default:
			if (v.Kind() != reflect.Slice && v.Kind() != reflect.Array) || s.index >= v.Len() {
				return v, false
			}
			v = v.Index(s.index)
		}
	}
	return acc(v), true
}

// deepCopy returns a pointer to a deep copy of *ptr (slices and pointers re-allocated at every level).
func deepCopy(ptr reflect.Value) reflect.Value {
	src := ptr.Elem()
	dst := reflect.New(src.Type())
	dst.Elem().Set(src)
	var fix func(v reflect.Value)
	fix = func(v reflect.Value) {
		switch v.Kind() {
		case reflect.Slice:
			if v.IsNil() {
				return
			}
			a := acc(v)
			ns := reflect.MakeSlice(v.Type(), v.Len(), v.Len())
			reflect.Copy(ns, a)
			a.Set(ns)
			if k := v.Type().Elem().Kind(); k == reflect.Slice || k == reflect.Struct || k == reflect.Array || k == reflect.Ptr {
				for i := 0; i < a.Len(); i++ {
					fix(a.Index(i))
				}
			}
		case reflect.Array:
			if k := v.Type().Elem().Kind(); k == reflect.Slice || k == reflect.Struct || k == reflect.Array || k == reflect.Ptr {
				for i := 0; i < v.Len(); i++ {
					fix(v.Index(i))
				}
			}
		case reflect.Struct:
			for i := 0; i < v.NumField(); i++ {
				fix(v.Field(i))
			}
		case reflect.Ptr:
			if v.IsNil() {
				return
			}
			a := acc(v)
			np := reflect.New(v.Type().Elem())
			np.Elem().Set(a.Elem())
			a.Set(np)
			fix(a.Elem())
		}
	}
	fix(dst.Elem())
	return dst
}

func same(a, b reflect.Value) bool { return reflect.DeepEqual(a.Interface(), b.Interface()) }

// mutation kinds per site kind
var (
	valueKinds = []string{"random", "zero", "other", "plus1"}
	lenKinds   = []string{"trunc", "extend"}
)

func kindsFor(k siteKind) []string {
	switch k {
	case kLen:
		return lenKinds
	case kStruct:
		return []string{"other"}
	}
	return valueKinds
}

// mutEnv supplies what the generic engine cannot know: the modulus of a field-element type and how
// to make group elements.
type mutEnv struct {
	modulus func(t reflect.Type) *big.Int
	g1Gen   interface{} // *G1Affine or nil
	order   *big.Int    // group order (for random points)
}

// mutate writes the mutation `kind` at site s of root (already a private deep copy). other is the
// root of another honest proof of the same type (may be invalid for kinds that do not need it).
// It reports whether a mutation was applied (false: not applicable, e.g. path missing in other)
// and a short text of the new value.
func mutate(t *rapid.T, env *mutEnv, root, other reflect.Value, s site, kind string) (applied bool, desc string) {
	v, ok := navigate(root, s.steps)
	if !ok {
		return false, ""
	}
	var ov reflect.Value
	if kind == "other" {
		if !other.IsValid() {
			return false, ""
		}
		o, ok := navigate(other, s.steps)
		if !ok || o.Type() != v.Type() {
			return false, ""
		}
		ov = o
	}
	switch s.kind {
	case kFelt:
		q := env.modulus(v.Type())
		var nv *big.Int
		switch kind {
		case "random":
			nv = drawBelow(t, q, "felt")
		case "zero":
			nv = new(big.Int)
		case "plus1":
			nv = new(big.Int).Add(feltBig(v), big.NewInt(1))
			nv.Mod(nv, q)
		case "other":
			v.Set(ov)
			return true, feltBig(v).Text(16)
		}
		v.Addr().MethodByName("SetBigInt").Call([]reflect.Value{reflect.ValueOf(nv)})
		return true, nv.Text(16)
	case kPoint:
		if v.Type().Name() != "G1Affine" || env.g1Gen == nil {
			return false, ""
		}
		switch kind {
		case "random":
			k := drawBelow(t, env.order, "scalar")
			if k.Sign() == 0 {
				k.SetInt64(7)
			}
			reg.M(v.Addr().Interface(), "ScalarMultiplication", env.g1Gen, k)
			return true, "[" + k.Text(16) + "]G"
		case "zero":
			v.Set(reflect.Zero(v.Type())) // (0,0) is the affine point at infinity
			return true, "O"
		case "plus1":
			reg.M(v.Addr().Interface(), "Add", v.Addr().Interface(), env.g1Gen)
			return true, "P+G"
		case "other":
			v.Set(ov)
			return true, "other"
		}
	case kBytes:
		n := v.Len()
		switch kind {
		case "random":
			if n == 0 {
				return false, ""
			}
			b := rapid.SliceOfN(rapid.Byte(), n, n).Draw(t, "bytes")
			v.Set(reflect.ValueOf(b).Convert(v.Type()))
		case "zero":
			if n == 0 {
				return false, ""
			}
			v.Set(reflect.ValueOf(make([]byte, n)).Convert(v.Type()))
		case "plus1":
			if n == 0 {
				return false, ""
			}
			b := append([]byte(nil), v.Bytes()...)
			b[rapid.IntRange(0, n-1).Draw(t, "bytepos")]++
			v.Set(reflect.ValueOf(b).Convert(v.Type()))
		case "other":
			v.Set(reflect.ValueOf(append([]byte(nil), ov.Bytes()...)).Convert(v.Type()))
		}
		return true, fmt.Sprintf("%x", v.Bytes())
	case kInt:
		signed := v.Kind() >= reflect.Int && v.Kind() <= reflect.Int64
		switch kind {
		case "random":
			if signed {
				v.SetInt(rapid.Int64().Draw(t, "int") >> uint(64-v.Type().Bits()))
			} else {
				v.SetUint(rapid.Uint64().Draw(t, "uint") >> uint(64-v.Type().Bits()))
			}
		case "zero":
			v.Set(reflect.Zero(v.Type()))
		case "plus1":
			if signed {
				v.SetInt(v.Int() + 1)
			} else {
				v.SetUint(v.Uint() + 1)
			}
		case "other":
			v.Set(ov)
		}
		return true, fmt.Sprint(v.Interface())
	case kLen:
		n := v.Len()
		switch kind {
		case "trunc":
			if n == 0 {
				return false, ""
			}
			v.Set(v.Slice(0, n-1))
		case "extend":
			if n == 0 {
				return false, ""
			}
			ns := reflect.MakeSlice(v.Type(), n+1, n+1)
			reflect.Copy(ns, v)
			ns.Index(n).Set(v.Index(n - 1))
			v.Set(ns)
		}
		return true, fmt.Sprintf("len=%d", v.Len())
	case kStruct:
		if kind != "other" {
			return false, ""
		}
		// deep copy of the other proof's component so that later edits cannot alias
		p := reflect.New(ov.Type())
		p.Elem().Set(ov)
		v.Set(deepCopy(p).Elem())
		return true, "other"
	}
	return false, ""
}

// drawBelow draws an integer in [0,q) from raw bytes (uniform up to a negligible bias).
func drawBelow(t *rapid.T, q *big.Int, label string) *big.Int {
	n := (q.BitLen() + 7) / 8
	b := rapid.SliceOfN(rapid.Byte(), n+8, n+8).Draw(t, label)
	return new(big.Int).Mod(new(big.Int).SetBytes(b), q)
}

// sitePaths returns the sorted distinct normalised paths (for the evidence note).
func sitePaths(sites []site) string {
	seen := map[string]bool{}
	var out []string
	for _, s := range sites {
		k := s.npath + ":" + s.kind.String()
		if !seen[k] {
			seen[k] = true
			out = append(out, k)
		}
	}
	return strings.Join(out, " ")
}
