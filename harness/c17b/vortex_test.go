package c17b

import (
	"fmt"
	"math/big"
	"reflect"
	"strings"
	"testing"

	"github.com/consensys/gnark-crypto/field/koalabear"
	fext "github.com/consensys/gnark-crypto/field/koalabear/extensions"
	kfft "github.com/consensys/gnark-crypto/field/koalabear/fft"
	"github.com/consensys/gnark-crypto/field/koalabear/sis"
	"github.com/consensys/gnark-crypto/field/koalabear/vortex"
	"pgregory.net/rapid"

	"verif/harness/internal/gen"
	"verif/harness/internal/ref"
	"verif/harness/internal/rep"
)

// reference arithmetic: F_q, E2 = F_q[u]/(u^2-3), E4 = E2[v]/(v^2-u) (irreducibility is checked by ref.NewExt)
var (
	kq   = big.NewInt(2130706433)
	kFp  = ref.NewPrimeFld(kq)
	kE2  = ref.NewExt(kFp, 2, ref.V{big.NewInt(3)})
	kE4  = ref.NewExt(kE2, 2, ref.V{big.NewInt(0), big.NewInt(1)})
	kGen = gen.FieldSpec{Q: kq, NLimbs: 1, LimbBits: 32}
)

func kel(v *big.Int) koalabear.Element {
	var e koalabear.Element
	e.SetBigInt(v)
	return e
}

func kbig(e koalabear.Element) *big.Int { return e.BigInt(new(big.Int)) }

func e4FromRef(v ref.V) fext.E4 {
	var e fext.E4
	e.B0.A0, e.B0.A1, e.B1.A0, e.B1.A1 = kel(v[0]), kel(v[1]), kel(v[2]), kel(v[3])
	return e
}

func e4ToRef(e fext.E4) ref.V {
	return ref.V{kbig(e.B0.A0), kbig(e.B0.A1), kbig(e.B1.A0), kbig(e.B1.A1)}
}

func e4Scale(a ref.V, c *big.Int) ref.V {
	out := make(ref.V, 4)
	for i := range out {
		out[i] = mulm(a[i], c, kq)
	}
	return out
}

// lagrangeWeights returns w_j with p(x) = sum_j p(g^j) w_j for every polynomial of degree < n, g the
// library's generator of the order-n subgroup (validated).
func lagrangeWeights(n int, x ref.V) []ref.V {
	ge, err := kfft.Generator(uint64(n))
	if err != nil {
		panic(err)
	}
	g := kbig(ge)
	if !hasOrder(g, n, kq) {
		panic("c17b: koalabear fft.Generator(n) does not have order n")
	}
	pts := make([]*big.Int, n)
	pts[0] = big.NewInt(1)
	for j := 1; j < n; j++ {
		pts[j] = mulm(pts[j-1], g, kq)
	}
	w := make([]ref.V, n)
	for j := range w {
		if kE4.Eq(x, ref.Scalar(kE4, pts[j])) {
			for k := range w {
				w[k] = kE4.Zero()
			}
			w[j] = kE4.One()
			return w
		}
	}
	xn := ref.Exp(kE4, x, big.NewInt(int64(n)))
	num := kE4.Sub(xn, kE4.One())
	ninv := invm(big.NewInt(int64(n)), kq)
	for j := range w {
		den := kE4.Inv(kE4.Sub(x, ref.Scalar(kE4, pts[j])))
		w[j] = e4Scale(kE4.Mul(num, den), mulm(pts[j], ninv, kq))
	}
	return w
}

func evalRows(m [][]*big.Int, w []ref.V) []ref.V {
	ys := make([]ref.V, len(m))
	for i, row := range m {
		acc := kE4.Zero()
		for j, v := range row {
			if v.Sign() != 0 {
				acc = kE4.Add(acc, e4Scale(w[j], v))
			}
		}
		ys[i] = acc
	}
	return ys
}

// hornerE4 returns sum_i c_i * a^i for c_i in E4.
func hornerE4(c []ref.V, a ref.V) ref.V {
	r := kE4.Zero()
	for i := len(c) - 1; i >= 0; i-- {
		r = kE4.Add(kE4.Mul(r, a), c[i])
	}
	return r
}

func hornerBase(c []*big.Int, a ref.V) ref.V {
	r := kE4.Zero()
	for i := len(c) - 1; i >= 0; i-- {
		r = kE4.Add(kE4.Mul(r, a), ref.Scalar(kE4, c[i]))
	}
	return r
}

// ---- generators ----------------------------------------------------------------------------------------

func drawE4(t *rapid.T, label string, bigDomain int) (ref.V, string) {
	switch rapid.IntRange(0, 9).Draw(t, label+"kind") {
	case 0:
		return kE4.Zero(), "zero"
	case 1:
		return kE4.One(), "one"
	case 2:
		return ref.Scalar(kE4, kGen.Uniform(t, label)), "base_field"
	case 3:
		if bigDomain > 0 {
			ge, _ := kfft.Generator(uint64(bigDomain))
			k := rapid.IntRange(0, bigDomain-1).Draw(t, label+"exp")
			return ref.Scalar(kE4, expm(kbig(ge), int64(k), kq)), "root_of_unity"
		}
		fallthrough
	default:
		v := make(ref.V, 4)
		for i := range v {
			v[i], _ = kGen.Elem(t, label)
		}
		if rapid.Bool().Draw(t, label+"unif") {
			for i := range v {
				v[i] = kGen.Uniform(t, label)
			}
		}
		return v, "generic"
	}
}

type vortexCase struct {
	nCol, nRow, rate, scw int
	logDeg, logBound      int
	params                *vortex.Params
	mv                    [][]*big.Int
	m                     [][]koalabear.Element
	x, alpha              ref.V
	xcls, acls, mcls      string
	ys                    []ref.V
	sel                   []int
	selcls                string
	ps                    *vortex.ProverState
	proof                 *vortex.Proof
}

var sisCache = map[string]*sis.RSis{}

func sisKey(logDeg, logBound, maxRows int) *sis.RSis {
	k := fmt.Sprintf("%d/%d/%d", logDeg, logBound, maxRows)
	if s := sisCache[k]; s != nil {
		return s
	}
	s, err := sis.NewRSis(5, logDeg, logBound, maxRows)
	if err != nil {
		panic(err)
	}
	sisCache[k] = s
	return s
}

func drawVortex(t *rapid.T, label string) *vortexCase {
	vc := &vortexCase{}
	maxCol := rep.Scale(64, 256)
	vc.nCol = rapid.SampledFrom([]int{1, 2, 4, 8, 16, 32, 64, 128, 256}).Filter(func(x int) bool { return x <= maxCol }).Draw(t, label+"ncol")
	vc.nRow = rapid.OneOf(rapid.IntRange(1, 4), rapid.IntRange(1, rep.Scale(24, 100))).Draw(t, label+"nrow")
	vc.rate = rapid.SampledFrom([]int{2, 2, 4, 8}).Draw(t, label+"rate")
	sp := rapid.SampledFrom([][2]int{{4, 8}, {4, 8}, {9, 16}, {6, 16}, {5, 8}}).Draw(t, label+"sis")
	vc.logDeg, vc.logBound = sp[0], sp[1]
	vc.scw = vc.nCol * vc.rate
	// matrix
	k := rapid.IntRange(1, 5).Draw(t, label+"poolsize")
	pool := make([]*big.Int, k)
	for i := range pool {
		if rapid.Bool().Draw(t, label+"poolunif") {
			pool[i] = kGen.Uniform(t, label+"pool")
		} else {
			pool[i], _ = kGen.Elem(t, label+"pool")
		}
	}
	mk := rapid.IntRange(0, 4).Draw(t, label+"mkind")
	vc.mv = make([][]*big.Int, vc.nRow)
	vc.m = make([][]koalabear.Element, vc.nRow)
	for i := range vc.mv {
		vc.mv[i] = make([]*big.Int, vc.nCol)
		vc.m[i] = make([]koalabear.Element, vc.nCol)
		var idx []int
		if mk >= 2 {
			idx = rapid.SliceOfN(rapid.IntRange(0, k-1), vc.nCol, vc.nCol).Draw(t, label+"idx")
		}
		for j := range vc.mv[i] {
			switch mk {
			case 0:
				vc.mv[i][j] = new(big.Int)
			case 1: // constant rows: every column of the encoded matrix is the same
				vc.mv[i][j] = pool[i%k]
			default:
				vc.mv[i][j] = pool[idx[j]]
			}
			vc.m[i][j] = kel(vc.mv[i][j])
		}
	}
	vc.mcls = [...]string{"matrix:zero", "matrix:constant_rows", "matrix:pool", "matrix:pool", "matrix:pool"}[mk]
	vc.x, vc.xcls = drawE4(t, label+"x", vc.scw)
	vc.alpha, vc.acls = drawE4(t, label+"alpha", 0)
	// selected columns
	switch rapid.IntRange(0, 3).Draw(t, label+"selkind") {
	case 0:
		if vc.scw <= 32 {
			vc.sel, vc.selcls = seq(vc.scw), "columns:all"
			break
		}
		fallthrough
	case 1:
		n := rapid.IntRange(1, 6).Draw(t, label+"nsel")
		vc.sel, vc.selcls = rapid.SliceOfN(rapid.IntRange(0, vc.scw-1), n, n).Draw(t, label+"sel"), "columns:drawn"
	case 2:
		vc.sel, vc.selcls = []int{0, vc.scw - 1}, "columns:first_last"
	default:
		c := rapid.IntRange(0, vc.scw-1).Draw(t, label+"sel1")
		vc.sel, vc.selcls = []int{c, c}, "columns:duplicate"
	}
	return vc
}

func (vc *vortexCase) text() string {
	rows := make([]string, len(vc.mv))
	for i, r := range vc.mv {
		rows[i] = hexs(r)
	}
	return fmt.Sprintf("vortex ncol=%d nrow=%d rate=%d sis=%d/%d x=%s alpha=%s sel=%v M=[%s]", vc.nCol, vc.nRow, vc.rate, vc.logDeg, vc.logBound,
		ref.String(vc.x), ref.String(vc.alpha), vc.sel, strings.Join(rows, ";"))
}

func (vc *vortexCase) classes() []string {
	return []string{"vortex", fmt.Sprintf("ncol=%d", vc.nCol), fmt.Sprintf("rate=%d", vc.rate), fmt.Sprintf("sis=%d/%d", vc.logDeg, vc.logBound),
		"x:" + vc.xcls, "alpha:" + vc.acls, vc.mcls, vc.selcls, map[bool]string{true: "codeword<16", false: "codeword>=16"}[vc.scw < 16]}
}

// run commits, computes the claimed values with the reference, and opens.
func (vc *vortexCase) run() error {
	p, err := vortex.NewParams(vc.nCol, vc.nRow, sisKey(vc.logDeg, vc.logBound, vc.nRow), vc.rate, len(vc.sel))
	if err != nil {
		return fmt.Errorf("NewParams: %w", err)
	}
	vc.params = p
	vc.ys = evalRows(vc.mv, lagrangeWeights(vc.nCol, vc.x))
	ps, err := vortex.Commit(p, vc.m)
	if err != nil {
		return fmt.Errorf("Commit: %w", err)
	}
	ps.OpenLinComb(e4FromRef(vc.alpha))
	proof, err := ps.OpenColumns(vc.sel)
	if err != nil {
		return fmt.Errorf("OpenColumns: %w", err)
	}
	vc.ps, vc.proof = ps, proof
	return nil
}

func (vc *vortexCase) input() *vortex.VerifierInput {
	ys := make([]fext.E4, len(vc.ys))
	for i := range ys {
		ys[i] = e4FromRef(vc.ys[i])
	}
	return &vortex.VerifierInput{
		MerkleRoot:      vc.ps.GetCommitment(),
		ClaimedValues:   ys,
		EvaluationPoint: e4FromRef(vc.x),
		SelectedColumns: append([]int(nil), vc.sel...),
		Alpha:           e4FromRef(vc.alpha),
		Proof:           vc.proof,
	}
}

// encodedColumn returns column c of the committed (encoded) matrix.
func (vc *vortexCase) encodedColumn(c int) []*big.Int {
	out := make([]*big.Int, vc.nRow)
	for i := range out {
		out[i] = kbig(vc.ps.EncodedMatrix[i*vc.scw+c])
	}
	return out
}

func sameInts(a, b []*big.Int) bool {
	if len(a) != len(b) {
		return false
	}
	for i := range a {
		if a[i].Cmp(b[i]) != 0 {
			return false
		}
	}
	return true
}

// vortexExpect is the oracle for single-component mutations of the verifier's input (statement and proof).
func (vc *vortexCase) vortexExpect(s site, kind string, orig, mut reflect.Value) (expectation, string) {
	in := mut.Addr().Interface().(*vortex.VerifierInput)
	switch {
	case strings.HasPrefix(s.path, "ClaimedValues["):
		// y_i enters the check as y_i * alpha^i
		var i int
		fmt.Sscanf(s.path, "ClaimedValues[%d]", &i)
		if i > 0 && kE4.IsZero(vc.alpha) {
			return expSkip, "claimed_value_masked_by_alpha=0(verifier_coin)"
		}
	case strings.HasPrefix(s.path, "EvaluationPoint"):
		// exact: a correct verifier accepts iff sum_i alpha^i (p_i(x') - y_i) = 0
		x2 := e4ToRef(in.EvaluationPoint)
		y2 := evalRows(vc.mv, lagrangeWeights(vc.nCol, x2))
		d := make([]ref.V, len(y2))
		for i := range d {
			d[i] = kE4.Sub(y2[i], vc.ys[i])
		}
		if kE4.IsZero(hornerE4(d, vc.alpha)) {
			return expAccept, "claims_hold_at_the_other_point_too"
		}
		return expReject, "x"
	case strings.HasPrefix(s.path, "Alpha"):
		// exact: UAlpha and the opened columns were combined with alpha; with alpha' the two checks read
		// sum_i y_i (alpha'^i - alpha^i) = 0 and, per selected column, sum_k col[k] (alpha'^k - alpha^k) = 0
		a2 := e4ToRef(in.Alpha)
		if !kE4.IsZero(kE4.Sub(hornerE4(vc.ys, a2), hornerE4(vc.ys, vc.alpha))) {
			return expReject, "alpha"
		}
		for _, c := range vc.sel {
			col := vc.encodedColumn(c)
			if !kE4.IsZero(kE4.Sub(hornerBase(col, a2), hornerBase(col, vc.alpha))) {
				return expReject, "alpha"
			}
		}
		return expAccept, "alpha_change_invisible(one_row_or_zero_rows)"
	case strings.HasPrefix(s.path, "SelectedColumns["):
		var i int
		fmt.Sscanf(s.path, "SelectedColumns[%d]", &i)
		c2 := in.SelectedColumns[i]
		if c2 >= 0 && c2 < vc.scw && sameInts(vc.encodedColumn(c2), vc.encodedColumn(vc.sel[i])) {
			// the opened data IS column c2 as well; the Merkle path must agree too: all columns equal
			// (zero / constant-row matrices) makes every level of the tree constant
			if vc.mcls == "matrix:zero" || vc.mcls == "matrix:constant_rows" {
				return expAccept, "identical_columns"
			}
			return expSkip, "equal_column_data_at_another_index"
		}
	case strings.HasPrefix(s.path, "Proof.MerkleProofOpenedColumns") || strings.HasPrefix(s.path, "MerkleRoot"):
		// deterministic: Poseidon2 compression of a changed input
	}
	return expReject, ""
}

func propVortex(t *rapid.T) {
	test := "C17b_Vortex/koalabear"
	vc := drawVortex(t, "a")
	stmt := vc.text()
	if err := vc.run(); err != nil {
		t.Fatalf("%s: honest prover failed on an admissible instance: %v (%s)", test, err, clip(stmt))
	}
	in := vc.input()
	if err := vc.params.Verify(*in); err != nil {
		t.Fatalf("%s: honest proof rejected (claimed values computed by the reference): %v (%s)", test, err, clip(stmt))
	}
	rep.Case(test, stmt, vc.nCol <= 2 || vc.nRow == 1 || vc.scw < 16, append(vc.classes(), "honest")...)

	// another honest instance of the same shape feeds the "other" substitutions
	vb := drawVortex(t, "b")
	vb.nCol, vb.rate, vb.scw = vc.nCol, vc.rate, vc.scw
	var other reflect.Value
	{
		// redraw b's matrix on a's shape: simplest is to reuse b's pool by wrapping indices
		m := make([][]*big.Int, vc.nRow)
		me := make([][]koalabear.Element, vc.nRow)
		for i := range m {
			m[i] = make([]*big.Int, vc.nCol)
			me[i] = make([]koalabear.Element, vc.nCol)
			for j := range m[i] {
				m[i][j] = addm(vb.mv[i%len(vb.mv)][j%len(vb.mv[0])], big.NewInt(int64(i+j)), kq)
				me[i][j] = kel(m[i][j])
			}
		}
		vb.mv, vb.m, vb.nRow = m, me, vc.nRow
		vb.logDeg, vb.logBound = vc.logDeg, vc.logBound
		vb.sel = make([]int, len(vc.sel))
		for i := range vb.sel {
			vb.sel[i] = (vc.sel[i] + 1) % vc.scw
		}
		if err := vb.run(); err == nil {
			other = reflect.ValueOf(vb.input())
		}
	}

	env := &mutEnv{modulus: func(reflect.Type) *big.Int { return kq }}
	sc := &scheme{name: "vortex", test: test, env: env,
		verify: func(x reflect.Value) error { return vc.params.Verify(x.Interface().(vortex.VerifierInput)) },
		expect: vc.vortexExpect,
	}
	sc.tamperAll(t, reflect.ValueOf(in), other, stmt, rep.Scale(70, 300))

	vc.targeted(t, test, stmt)
}

// targeted consistent forgeries: every check but one stays satisfied.
func (vc *vortexCase) targeted(t *rapid.T, test, stmt string) {
	// --- F11: claimed values of a DIFFERENT polynomial in row k, UAlpha' = UAlpha + alpha^k * RS(delta),
	// opened columns untouched. Only the column-vs-UAlpha consistency check can notice.
	k := rapid.IntRange(0, vc.nRow-1).Draw(t, "f11row")
	delta := make([]*big.Int, vc.nCol)
	dk := rapid.IntRange(0, 2).Draw(t, "f11kind")
	for j := range delta {
		delta[j] = new(big.Int)
	}
	switch dk {
	case 0:
		delta[rapid.IntRange(0, vc.nCol-1).Draw(t, "f11pos")] = big.NewInt(1)
	case 1:
		for j := range delta {
			delta[j] = big.NewInt(1) // constant polynomial: RS(delta) is the all-ones word
		}
	default:
		for j := range delta {
			delta[j] = kGen.Uniform(t, "f11delta")
		}
	}
	allZero := true
	for _, d := range delta {
		allZero = allZero && d.Sign() == 0
	}
	if allZero {
		delta[0] = big.NewInt(1)
	}
	dx := evalRows([][]*big.Int{delta}, lagrangeWeights(vc.nCol, vc.x))[0]
	ak := ref.Exp(kE4, vc.alpha, big.NewInt(int64(k)))
	key := fmt.Sprintf("%s F11 row=%d delta=[%s]", stmt, k, hexs(delta))
	switch {
	case kE4.IsZero(dx):
		rep.Case(test, key, false, "vortex", "F11_forgery|delta_vanishes_at_x(statement_stays_true)")
	case kE4.IsZero(ak):
		rep.Case(test, key, false, "vortex", "F11_forgery|masked_by_alpha=0")
	default:
		de := make([]koalabear.Element, vc.nCol)
		for j := range de {
			de[j] = kel(delta[j])
		}
		rs := make([]koalabear.Element, vc.scw)
		vc.params.EncodeReedSolomon(de, rs)
		in := vc.input()
		pr := *vc.proof
		pr.UAlpha = append([]fext.E4(nil), vc.proof.UAlpha...)
		ake := e4FromRef(ak)
		for j := range pr.UAlpha {
			var tmp fext.E4
			tmp.MulByElement(&ake, &rs[j])
			pr.UAlpha[j].Add(&pr.UAlpha[j], &tmp)
		}
		in.Proof = &pr
		in.ClaimedValues[k] = e4FromRef(kE4.Add(vc.ys[k], dx))
		detectable := false
		for _, c := range vc.sel {
			if !rs[c].IsZero() {
				detectable = true
			}
		}
		o := guard(func() error { return vc.params.Verify(*in) })
		if o.panicked != nil {
			t.Fatalf("%s: verifier panicked: %v", test, o.panicked)
		}
		if !detectable {
			// every opened column sits on a zero of RS(delta): indistinguishable for this choice of columns (by design)
			if !o.accepted {
				t.Fatalf("%s: forged UAlpha agrees with the honest one on every opened column, all checks hold, yet rejected: %v", test, o)
			}
			rep.Case(test, key, true, "vortex", "F11_forgery|undetectable_with_these_columns(by_design)")
		} else {
			if o.accepted {
				accepted(t, "%s: FORGERY ACCEPTED (F11): claimed value of row %d is p(x)+delta(x) != p(x) for the committed row, UAlpha shifted by alpha^%d*RS(delta), opened columns honest: the opened columns are never compared with UAlpha (%s)", test, k, k, clip(key))
			}
			rep.Case(test, key, true, "vortex", "F11_forgery|claims_of_another_polynomial+shifted_UAlpha", "forged", "rejected")
		}
	}

	// --- UAlpha shifted by a word that vanishes at x and on every opened column but has degree >= nCol:
	// claimed values and column checks hold, only the Reed-Solomon membership test can notice.
	distinct := map[int]bool{}
	for _, c := range vc.sel {
		distinct[c] = true
	}
	if vc.nCol+1+len(distinct) < vc.scw {
		ge, _ := kfft.Generator(uint64(vc.scw))
		w := kbig(ge)
		pr := *vc.proof
		pr.UAlpha = append([]fext.E4(nil), vc.proof.UAlpha...)
		nonzero := false
		pt := big.NewInt(1)
		for j := range pr.UAlpha {
			// e_j = (w^j - x) * prod_c (w^j - w^c) * w^(j*nCol)
			e := kE4.Sub(ref.Scalar(kE4, pt), vc.x)
			f := expm(pt, int64(vc.nCol), kq)
			for c := range distinct {
				f = mulm(f, subm(pt, expm(w, int64(c), kq), kq), kq)
			}
			e = e4Scale(e, f)
			if !kE4.IsZero(e) {
				nonzero = true
			}
			ee := e4FromRef(e)
			pr.UAlpha[j].Add(&pr.UAlpha[j], &ee)
			pt = mulm(pt, w, kq)
		}
		if nonzero {
			in := vc.input()
			in.Proof = &pr
			o := guard(func() error { return vc.params.Verify(*in) })
			if o.accepted {
				accepted(t, "%s: FORGERY ACCEPTED: UAlpha + (X-x)*Z_sel(X)*X^nCol is not a codeword but verifies (%s)", test, clip(stmt))
			}
			if o.panicked != nil {
				t.Fatalf("%s: verifier panicked: %v", test, o.panicked)
			}
			rep.Case(test, stmt+" rs_only", true, "vortex", "UAlpha_plus_non_codeword_vanishing_at_x_and_opened_columns", "forged", "rejected")
		}
	}
}

func TestC17b_Vortex(t *testing.T) {
	if !selected("koalabear") {
		t.Skip()
	}
	rep.Note("C17b_Vortex/koalabear", "claimed values are computed by a math/big reference (Lagrange evaluation over E4 = Fq[u]/(u^2-3)[v]/(v^2-u)); "+
		"alpha, x and the selected columns are verifier inputs drawn by rapid; a forged UAlpha that agrees with the honest one on every opened column is, by design, not detectable and is asserted to be accepted")
	rapid.Check(t, propVortex)
}
