package c17b

// Small math/big helpers written from the definitions (no library code): naive interpolation on a
// multiplicative subgroup, schoolbook products, RFC 6962-style Merkle audit-path evaluation.

import (
	"bytes"
	"crypto/sha256"
	"math/big"
)

func mulm(a, b, q *big.Int) *big.Int { r := new(big.Int).Mul(a, b); return r.Mod(r, q) }
func addm(a, b, q *big.Int) *big.Int { r := new(big.Int).Add(a, b); return r.Mod(r, q) }
func subm(a, b, q *big.Int) *big.Int { r := new(big.Int).Sub(a, b); return r.Mod(r, q) }
func expm(a *big.Int, k int64, q *big.Int) *big.Int {
	if k < 0 {
		return new(big.Int).Exp(new(big.Int).ModInverse(a, q), big.NewInt(-k), q)
	}
	return new(big.Int).Exp(a, big.NewInt(k), q)
}
func invm(a, q *big.Int) *big.Int { return new(big.Int).ModInverse(new(big.Int).Mod(a, q), q) }

// hasOrder reports whether g has multiplicative order exactly n (n a power of two).
func hasOrder(g *big.Int, n int, q *big.Int) bool {
	if expm(g, int64(n), q).Cmp(big.NewInt(1)) != 0 {
		return false
	}
	return n == 1 || expm(g, int64(n/2), q).Cmp(big.NewInt(1)) != 0
}

// interpolate returns the coefficients of the polynomial of degree < n with p(g^j) = vals[j]:
// c_k = n^-1 * sum_j vals[j] g^(-jk).
func interpolate(vals []*big.Int, g, q *big.Int) []*big.Int {
	n := len(vals)
	ginv := invm(g, q)
	ninv := invm(big.NewInt(int64(n)), q)
	pw := make([]*big.Int, n) // ginv^i
	pw[0] = big.NewInt(1)
	for i := 1; i < n; i++ {
		pw[i] = mulm(pw[i-1], ginv, q)
	}
	out := make([]*big.Int, n)
	for k := 0; k < n; k++ {
		s := new(big.Int)
		for j := 0; j < n; j++ {
			s.Add(s, new(big.Int).Mul(vals[j], pw[(j*k)%n]))
		}
		s.Mod(s, q)
		out[k] = mulm(s, ninv, q)
	}
	return out
}

func polyMul(a, b []*big.Int, q *big.Int) []*big.Int {
	if len(a) == 0 || len(b) == 0 {
		return nil
	}
	out := make([]*big.Int, len(a)+len(b)-1)
	for i := range out {
		out[i] = new(big.Int)
	}
	for i, x := range a {
		if x.Sign() == 0 {
			continue
		}
		for j, y := range b {
			out[i+j].Add(out[i+j], new(big.Int).Mul(x, y))
		}
	}
	for i := range out {
		out[i].Mod(out[i], q)
	}
	return out
}

func polySub(a, b []*big.Int, q *big.Int) []*big.Int {
	n := len(a)
	if len(b) > n {
		n = len(b)
	}
	out := make([]*big.Int, n)
	for i := range out {
		x, y := new(big.Int), new(big.Int)
		if i < len(a) {
			x = a[i]
		}
		if i < len(b) {
			y = b[i]
		}
		out[i] = subm(x, y, q)
	}
	return out
}

func polyIsZero(a []*big.Int) bool {
	for _, x := range a {
		if x.Sign() != 0 {
			return false
		}
	}
	return true
}

// polyScaleArg returns p(gX).
func polyScaleArg(p []*big.Int, g, q *big.Int) []*big.Int {
	out := make([]*big.Int, len(p))
	acc := big.NewInt(1)
	for i := range p {
		out[i] = mulm(p[i], acc, q)
		acc = mulm(acc, g, q)
	}
	return out
}

func polyEval(p []*big.Int, x, q *big.Int) *big.Int {
	r := new(big.Int)
	for i := len(p) - 1; i >= 0; i-- {
		r.Mul(r, x)
		r.Add(r, p[i])
		r.Mod(r, q)
	}
	return r
}

// ---- Merkle audit paths (RFC 6962 / RFC 9162 §2.1.3.2 shape: split at the largest power of two) -----
// The library's tree hashes a leaf as H(data) and an inner node as H(left || right) (no prefixes).

func shaLeaf(d []byte) []byte { h := sha256.Sum256(d); return h[:] }
func shaNode(a, b []byte) []byte {
	h := sha256.New()
	h.Write(a)
	h.Write(b)
	return h.Sum(nil)
}

// merkleRootFromPath evaluates an audit path: path[0] is the leaf data, path[1:] the sibling hashes
// bottom-up, for leaf number index in a tree of n leaves. ok=false when the path length does not
// match the tree shape.
func merkleRootFromPath(path [][]byte, index, n uint64) (root []byte, ok bool) {
	if len(path) == 0 || index >= n {
		return nil, false
	}
	fn, sn := index, n-1
	r := shaLeaf(path[0])
	for _, p := range path[1:] {
		if sn == 0 {
			return nil, false
		}
		if fn&1 == 1 || fn == sn {
			r = shaNode(p, r)
			if fn&1 == 0 {
				for fn&1 == 0 && fn != 0 {
					fn >>= 1
					sn >>= 1
				}
			}
		} else {
			r = shaNode(r, p)
		}
		fn >>= 1
		sn >>= 1
	}
	if sn != 0 {
		return nil, false
	}
	return r, true
}

func merklePathValid(root []byte, path [][]byte, index, n uint64) bool {
	r, ok := merkleRootFromPath(path, index, n)
	return ok && bytes.Equal(r, root)
}

// merkleTree builds all levels of a complete tree over the leaf data (len a power of two);
// levels[0] = leaf hashes, last level = [root].
func merkleTree(leaves [][]byte) [][][]byte {
	lv := make([][]byte, len(leaves))
	for i, d := range leaves {
		lv[i] = shaLeaf(d)
	}
	levels := [][][]byte{lv}
	for len(lv) > 1 {
		nx := make([][]byte, len(lv)/2)
		for i := range nx {
			nx[i] = shaNode(lv[2*i], lv[2*i+1])
		}
		levels = append(levels, nx)
		lv = nx
	}
	return levels
}

// merkleOpen returns the audit path [leaf data, siblings...] of leaf i.
func merkleOpen(levels [][][]byte, leaves [][]byte, i int) [][]byte {
	path := [][]byte{leaves[i]}
	for l := 0; l < len(levels)-1; l++ {
		path = append(path, levels[l][i^1])
		i >>= 1
	}
	return path
}
