package c17b

// Challenge-binding forgeries (weak Fiat-Shamir): for every challenge of a protocol and every prover
// message the challenge must depend on, the harness plays the ADAPTIVE prover that learns the
// challenge computed WITHOUT that message (from the documented transcript layout with the message
// dropped; for calls binding several messages also "only the first", "only the last", "none"), and
// then solves for a false witness that is consistent at that challenge. Where the protocol lets the
// library's own prover be used (the free message is an input: permutation eps, plookup-tables
// lambda, FRI x0) it is used; otherwise a reference prover written from the protocol description
// follows the protocol with the hypothesised challenges. On a correct implementation the real
// challenge differs from the hypothesised one and the proof is rejected; an implementation whose
// challenge really does not bind the message accepts a proof of a false statement.

import (
	"crypto/sha256"
	"fmt"
	"math/big"
	"reflect"
	"sort"

	fiatshamir "github.com/consensys/gnark-crypto/fiat-shamir"
	"pgregory.net/rapid"

	"verif/harness/internal/reg"
	"verif/harness/internal/rep"
)

// hypo is one hypothesis about a defective derivation of challenge ch: which of the k messages bound
// to it are kept.
type hypo struct {
	ch    string
	label string
	keep  func(i, k int) bool
}

// hyposFor lists the hypotheses under which message number c (of k) does not influence challenge ch.
// The first one is always "the message is simply dropped".
func hyposFor(ch string, c, k int) []hypo {
	hs := []hypo{{ch, "dropped", func(i, _ int) bool { return i != c }}}
	if k > 2 && c != 0 {
		hs = append(hs, hypo{ch, "only_first_bound", func(i, _ int) bool { return i == 0 }})
	}
	if k > 2 && c != k-1 {
		hs = append(hs, hypo{ch, "only_last_bound", func(i, k int) bool { return i == k-1 }})
	}
	if k > 1 {
		hs = append(hs, hypo{ch, "nothing_bound", func(int, int) bool { return false }})
	}
	return hs
}

// hypTranscript replays the documented sha256 transcript under a hypothesis.
type hypTranscript struct {
	fs *fiatshamir.Transcript
	q  *big.Int
	h  hypo
}

func newHypTranscript(q *big.Int, h hypo, names ...string) *hypTranscript {
	return &hypTranscript{fs: fiatshamir.NewTranscript(sha256.New(), names...), q: q, h: h}
}

func (t *hypTranscript) derive(name string, msgs ...[]byte) *big.Int {
	for i, m := range msgs {
		if name != t.h.ch || t.h.keep(i, len(msgs)) {
			must(t.fs.Bind(name, m))
		}
	}
	b, err := t.fs.ComputeChallenge(name)
	must(err)
	return new(big.Int).Mod(new(big.Int).SetBytes(b), t.q)
}

// commitCoeffs commits to the polynomial with the given coefficients; returns ([]fr.Element, digest value).
func (c *curve) commitCoeffs(p []*big.Int) (reflect.Value, reflect.Value) {
	pk, _ := c.srs()
	e := c.elems(p)
	r := c.kzg.F("Commit", e.Interface(), pk)
	must(reg.Err(r))
	return e, reflect.ValueOf(r[0])
}

func (c *curve) domainGenerator(n int) *big.Int {
	d := reflect.ValueOf(c.fft.F("NewDomain", uint64(n))[0]).Elem()
	g := feltBig(d.FieldByName("Generator"))
	if !hasOrder(g, n, c.q) {
		panic("c17b: fft domain generator does not have the expected order")
	}
	return g
}

func prodDiff(eps *big.Int, v []*big.Int, q *big.Int) *big.Int {
	r := big.NewInt(1)
	for _, x := range v {
		r = mulm(r, subm(eps, x, q), q)
	}
	return r
}

func scalePoly(p []*big.Int, k, q *big.Int) []*big.Int {
	out := make([]*big.Int, len(p))
	for i := range p {
		out[i] = mulm(p[i], k, q)
	}
	return out
}

func addConst(p []*big.Int, k, q *big.Int) []*big.Int {
	out := append([]*big.Int(nil), p...)
	out[0] = addm(out[0], k, q)
	return out
}

func polyAdd(a, b []*big.Int, q *big.Int) []*big.Int { return polySub(a, polySub(nil, b, q), q) }

func onesPoly(n int) []*big.Int {
	p := make([]*big.Int, n)
	for i := range p {
		p[i] = big.NewInt(1)
	}
	return p
}

// =====================================================================================================
// permutation: eps <- (t1, t2), omega <- (z), eta <- (q)
// =====================================================================================================

// permBindingEps: the library's own prover, every (free vector, hypothesis) combination.
func permBindingEps(t *rapid.T, c *curve, test string, n int) {
	for free := 0; free < 2; free++ { // 0: t1 is chosen after eps, 1: t2
		for _, h := range hyposFor("epsilon", free, 2) {
			permBindingEpsOne(t, c, test, n, free, h)
		}
	}
}

// One of the two vectors is fixed first, eps' is derived under the hypothesis from the commitment(s)
// that remain bound, then the other vector is chosen: a permutation of the fixed one in which two
// entries a, b are replaced by a', b' with (eps'-a')(eps'-b') = (eps'-a)(eps'-b): the grand products
// agree at eps' although the multisets differ.
func permBindingEpsOne(t *rapid.T, c *curve, test string, n, free int, h hypo) {
	q := c.q
	g := c.domainGenerator(n)
	if h.keep(free, 2) {
		t.Fatalf("harness: hypothesis keeps the free message")
	}
	fixed, _, _ := drawPermStatement(t, c, n, "bindfix")
	_, dFixed := c.commitCoeffs(interpolate(fixed, g, q))
	tr := newHypTranscript(q, h, "epsilon", "omega", "eta")
	msgs := [][]byte{{}, {}}
	msgs[1-free] = rawBytes(dFixed)
	eps := tr.derive("epsilon", msgs...)
	perm := rapid.Permutation(seq(n)).Draw(t, "bindperm")
	other := make([]*big.Int, n)
	for i := range other {
		other[i] = fixed[perm[i]]
	}
	i0, i1 := 0, 1
	if n > 2 {
		i0 = rapid.IntRange(0, n-1).Draw(t, "bind_i0")
		i1 = (i0 + 1 + rapid.IntRange(0, n-2).Draw(t, "bind_i1")) % n
	}
	a, b := other[i0], other[i1]
	for d := int64(1); ; d++ {
		a2 := addm(a, big.NewInt(d), q)
		den := subm(eps, a2, q)
		if den.Sign() == 0 {
			continue
		}
		b2 := subm(eps, mulm(mulm(subm(eps, a, q), subm(eps, b, q), q), invm(den, q), q), q)
		other[i0], other[i1] = a2, b2
		if !multisetEqual(fixed, other) {
			break
		}
	}
	if prodDiff(eps, fixed, q).Cmp(prodDiff(eps, other, q)) != 0 {
		t.Fatalf("harness: grand products do not agree at the hypothesised challenge")
	}
	t1, t2, comp := other, fixed, "t1"
	if free == 1 {
		t1, t2, comp = fixed, other, "t2"
	}
	key := fmt.Sprintf("permutation-binding %s eps!<-%s (%s) t1=[%s] t2=[%s]", c.name, comp, h.label, hexs(t1), hexs(t2))
	cls := "binding|permutation|epsilon!<-" + comp
	fp, err := c.permProve(t1, t2)
	if err != nil {
		rep.Case(test, key, true, "permutation", cls, "binding:prover_refused")
		return
	}
	if !same(getField(fp.Elem(), map[int]string{0: "t2", 1: "t1"}[free]), dFixed) {
		rep.Case(test, key, false, "permutation", cls+"|commitment_model_unavailable")
		return
	}
	o := guard(func() error { return c.permVerify(fp.Elem()) })
	if o.accepted {
		accepted(t, "%s: FALSE STATEMENT ACCEPTED (challenge binding): the library's own Prove/Verify accept vectors that are not permutations of each other, chosen so that prod(eps-t1)=prod(eps-t2) at the challenge computed with %s %s: epsilon does not depend on the commitment to %s (%s)", test, comp, h.label, comp, clip(key))
	}
	if o.panicked != nil {
		t.Fatalf("%s: verifier panicked: %v", test, o.panicked)
	}
	rep.Case(test, key, true, "permutation", cls, "binding:"+h.label, "binding@"+c.name, cls+"@"+c.name, "forged", "rejected")
}

// permBindingCustom: reference prover for a false statement under the hypothesis that omega does not
// depend on z (mode "omega") or eta does not depend on q (mode "eta").
//
//	omega: with omega known before z is committed the n constraints on the domain (recurrence at x != 1,
//	       recurrence + omega*n*(z(1)-1) at x = 1) are n linear equations in the n values of z: solvable
//	       for ANY t1, t2.
//	eta:   with eta known before q is committed, q is the constant N(eta)/(eta^n-1) for the numerator N of
//	       the honestly accumulated (non-closing) z.
func permBindingCustom(t *rapid.T, c *curve, test string, t1, t2 []*big.Int, g *big.Int, mode string) {
	q := c.q
	n := len(t1)
	pk, vk := c.srs()
	one := big.NewInt(1)
	h := hypo{ch: mode, label: "dropped", keep: func(int, int) bool { return false }}
	comp := map[string]string{"omega": "z", "eta": "q"}[mode]
	cls := "binding|permutation|" + mode + "!<-" + comp
	key := fmt.Sprintf("permutation-binding %s %s!<-%s t1=[%s] t2=[%s]", c.name, mode, comp, hexs(t1), hexs(t2))
	unavailable := func(why string) {
		rep.Case(test, key, false, "permutation", cls+"|construction_unavailable:"+why)
	}
	if n < 2 {
		unavailable("n<2")
		return
	}
	c1, c2 := interpolate(t1, g, q), interpolate(t2, g, q)
	e1, d1 := c.commitCoeffs(c1)
	e2, d2 := c.commitCoeffs(c2)
	tr := newHypTranscript(q, h, "epsilon", "omega", "eta")
	eps := tr.derive("epsilon", rawBytes(d1), rawBytes(d2))
	r := make([]*big.Int, n) // r_i = (eps - t1_i)/(eps - t2_i)
	for i := range r {
		den := subm(eps, t2[i], q)
		if den.Sign() == 0 || subm(eps, t1[i], q).Sign() == 0 {
			unavailable("eps_hits_an_entry")
			return
		}
		r[i] = mulm(subm(eps, t1[i], q), invm(den, q), q)
	}
	z := make([]*big.Int, n)
	var omega *big.Int
	var cz []*big.Int
	var ez, dz reflect.Value
	if mode == "omega" {
		omega = tr.derive("omega", []byte{}) // z is not bound under the hypothesis: omega is known now
		rho := big.NewInt(1)
		for i := 1; i < n; i++ {
			rho = mulm(rho, r[i], q)
		}
		on := mulm(omega, big.NewInt(int64(n)), q)
		coef := addm(subm(mulm(subm(eps, t2[0], q), invm(rho, q), q), subm(eps, t1[0], q), q), on, q)
		if coef.Sign() == 0 {
			unavailable("singular")
			return
		}
		z[0] = mulm(on, invm(coef, q), q)
		z[1] = mulm(z[0], invm(rho, q), q)
		for i := 1; i < n-1; i++ {
			z[i+1] = mulm(z[i], r[i], q)
		}
		cz = interpolate(z, g, q)
		ez, dz = c.commitCoeffs(cz)
	} else {
		z[0] = one
		for i := 0; i < n-1; i++ {
			z[i+1] = mulm(z[i], r[i], q)
		}
		cz = interpolate(z, g, q)
		ez, dz = c.commitCoeffs(cz)
		omega = tr.derive("omega", rawBytes(dz))
	}
	// numerator (eps-t2) z(gX) - (eps-t1) z + omega*L0*(z-1)
	num := polySub(polyMul(polySub([]*big.Int{eps}, c2, q), polyScaleArg(cz, g, q), q), polyMul(polySub([]*big.Int{eps}, c1, q), cz, q), q)
	num = polyAdd(num, scalePoly(polyMul(onesPoly(n), polySub(cz, []*big.Int{one}, q), q), omega, q), q)
	var cq []*big.Int
	var eta *big.Int
	if mode == "omega" {
		var exact bool
		cq, exact = polyDivXnMinus1(num, n, q)
		if !exact {
			t.Fatalf("harness: the solved accumulator does not make the numerator vanish on the domain")
		}
	} else {
		eta = tr.derive("eta", []byte{}) // q is not bound under the hypothesis: eta is known now
		xn1 := subm(expm(eta, int64(n), q), one, q)
		if xn1.Sign() == 0 {
			unavailable("eta_in_domain")
			return
		}
		cq = []*big.Int{mulm(polyEval(num, eta, q), invm(xn1, q), q)}
	}
	for len(cq) < n {
		cq = append(cq, new(big.Int))
	}
	eq, dq := c.commitCoeffs(cq)
	if mode == "omega" {
		eta = tr.derive("eta", rawBytes(dq))
	}
	shifted := mulm(eta, g, q)
	// the verifier's identity at the hypothesised challenges
	{
		v1, v2, vz, vq, vzs := polyEval(c1, eta, q), polyEval(c2, eta, q), polyEval(cz, eta, q), polyEval(cq, eta, q), polyEval(cz, shifted, q)
		xn1 := subm(expm(eta, int64(n), q), one, q)
		l0e := mulm(xn1, invm(subm(eta, one, q), q), q)
		lhs := subm(mulm(subm(eps, v2, q), vzs, q), mulm(subm(eps, v1, q), vz, q), q)
		lhs = addm(lhs, mulm(mulm(subm(vz, one, q), l0e, q), omega, q), q)
		if lhs.Cmp(mulm(xn1, vq, q)) != 0 {
			t.Fatalf("harness: forged proof does not satisfy the verifier's identity at the hypothesised challenges")
		}
	}
	digT := c.kzg.Types["Digest"]
	polys := reflect.MakeSlice(reflect.SliceOf(reflect.SliceOf(c.elT)), 4, 4)
	digs := reflect.MakeSlice(reflect.SliceOf(digT), 4, 4)
	for i, pr := range [][2]reflect.Value{{e1, d1}, {e2, d2}, {ez, dz}, {eq, dq}} {
		polys.Index(i).Set(pr[0])
		digs.Index(i).Set(pr[1])
	}
	rb := c.kzg.F("BatchOpenSinglePoint", polys.Interface(), digs.Interface(), c.elem(eta).Interface(), sha256.New(), pk)
	ro := c.kzg.F("Open", ez.Interface(), c.elem(shifted).Interface(), pk)
	if reg.Err(rb) != nil || reg.Err(ro) != nil {
		unavailable("kzg_open")
		return
	}
	bp, sp := ptrOf(rb[0]), ptrOf(ro[0])
	if reg.Err(c.kzg.F("BatchVerifySinglePoint", digs.Interface(), bp, c.elem(eta).Interface(), sha256.New(), vk)) != nil ||
		reg.Err(c.kzg.F("Verify", ptrOf(dz.Interface()), sp, c.elem(shifted).Interface(), vk)) != nil {
		unavailable("kzg_verify")
		return
	}
	forged := reflect.New(c.perm.Types["Proof"])
	f := forged.Elem()
	getField(f, "size").SetInt(int64(n))
	setField(f, "g", c.elem(g))
	setField(f, "t1", d1)
	setField(f, "t2", d2)
	setField(f, "z", dz)
	setField(f, "q", dq)
	setField(f, "batchedProof", reflect.ValueOf(bp).Elem())
	setField(f, "shiftedProof", reflect.ValueOf(sp).Elem())
	o := guard(func() error { return c.permVerify(f) })
	if o.accepted {
		accepted(t, "%s: FALSE STATEMENT ACCEPTED (challenge binding): proof built by an adaptive prover that knew %s before committing %s verifies: %s does not depend on %s (%s)", test, mode, comp, mode, comp, clip(key))
	}
	if o.panicked != nil {
		t.Fatalf("%s: verifier panicked: %v", test, o.panicked)
	}
	rep.Case(test, key, true, "permutation", cls, "binding:dropped", "binding@"+c.name, cls+"@"+c.name, "forged", "rejected")
}

// =====================================================================================================
// plookup tables: lambda <- (fs..., ts...); the library's own prover
// =====================================================================================================

func padRow(v []*big.Int, d int) []*big.Int {
	out := make([]*big.Int, d)
	for i := range out {
		if i < len(v) {
			out[i] = v[i]
		} else {
			out[i] = v[len(v)-1]
		}
	}
	return out
}

func cloneRows(m [][]*big.Int) [][]*big.Int {
	out := make([][]*big.Int, len(m))
	for i := range m {
		out[i] = append([]*big.Int(nil), m[i]...)
	}
	return out
}

// tablesBindingLambda: rows >= 2; for a drawn row j, both sides (row j of f / row j of t is the free
// message) and every hypothesis.
func tablesBindingLambda(t *rapid.T, c *curve, test string) {
	q := c.q
	rows := rapid.IntRange(2, 3).Draw(t, "bl_rows")
	d := rapid.SampledFrom([]int{4, 8, 16}).Draw(t, "bl_dom")
	lt := rapid.IntRange(d/2+1, d).Draw(t, "bl_lt")
	lf := rapid.IntRange(1, lt-1).Draw(t, "bl_lf")
	g := c.domainGenerator(d)
	tb := make([][]*big.Int, rows)
	for i := range tb {
		tb[i] = make([]*big.Int, lt)
		for j := range tb[i] {
			tb[i][j] = c.spec.Uniform(t, "bl_t")
		}
	}
	// f: column 0 will be crafted, the others are copies of table columns other than column `cidx`
	cidx := rapid.IntRange(0, lt-1).Draw(t, "bl_cidx")
	f := make([][]*big.Int, rows)
	for i := range f {
		f[i] = make([]*big.Int, lf)
		f[i][0] = tb[i][cidx]
	}
	for j := 1; j < lf; j++ {
		k := (cidx + 1 + rapid.IntRange(0, lt-2).Draw(t, "bl_fidx")) % lt
		for i := range f {
			f[i][j] = tb[i][k]
		}
	}
	j := rapid.IntRange(0, rows-1).Draw(t, "bl_row")
	k := (j + 1 + rapid.IntRange(0, rows-2).Draw(t, "bl_krow")) % rows
	// column 0 of f is table column cidx with row k altered: not a column of the table
	f[k][0] = addm(tb[k][cidx], big.NewInt(1), q)
	for side := 0; side < 2; side++ { // 0: row j of f is free, 1: row j of t is free
		for _, h := range hyposFor("lambda", side*rows+j, 2*rows) {
			tablesBindingLambdaOne(t, c, test, d, g, cloneRows(f), cloneRows(tb), cidx, side, j, k, h)
		}
	}
}

// The folding challenge lambda' is derived under the hypothesis from the commitments that remain
// bound; then one entry of the free row is solved so that the folded column 0 of f equals the folded
// column cidx of t although the columns differ.
func tablesBindingLambdaOne(t *rapid.T, c *curve, test string, d int, g *big.Int, f, tb [][]*big.Int, cidx, side, j, k int, h hypo) {
	q := c.q
	rows := len(f)
	comp := side*rows + j
	if h.keep(comp, 2*rows) {
		t.Fatalf("harness: hypothesis keeps the free message")
	}
	commitRow := func(v []*big.Int) []byte {
		_, dg := c.commitCoeffs(interpolate(padRow(v, d), g, q))
		return rawBytes(dg)
	}
	msgs := make([][]byte, 2*rows)
	for i := 0; i < rows; i++ {
		msgs[i], msgs[rows+i] = []byte{}, []byte{}
		if !(side == 0 && i == j) {
			msgs[i] = commitRow(f[i])
		}
		if !(side == 1 && i == j) {
			msgs[rows+i] = commitRow(tb[i])
		}
	}
	tr := newHypTranscript(q, h, "lambda")
	lambda := tr.derive("lambda", msgs...)
	if lambda.Sign() == 0 {
		return
	}
	// lambda^j * x_j + lambda^k * x_k must agree between the f column and the t column
	shift := mulm(expm(lambda, int64(k-j), q), subm(tb[k][cidx], f[k][0], q), q)
	name := ""
	if side == 0 {
		f[j][0] = addm(tb[j][cidx], shift, q) // a_j = t_j + lambda^(k-j) (t_k - a_k)
		name = fmt.Sprintf("fs[%d]", j)
	} else {
		tb[j][cidx] = subm(tb[j][cidx], shift, q) // t'_j = t_j - lambda^(k-j) (t_k - a_k)
		name = fmt.Sprintf("ts[%d]", j)
	}
	if columnIn(f, 0, tb) {
		return
	}
	ff, ft := foldRows(f, d, lambda, q), foldRows(tb, d, lambda, q)
	if !contains(ft, ff[0]) {
		t.Fatalf("harness: folded forged column is not in the folded table")
	}
	cls := "binding|plookup_tables|lambda!<-" + map[int]string{0: "fs", 1: "ts"}[side]
	key := fmt.Sprintf("plookup_tables-binding %s lambda!<-%s (%s) f=[%s] t=[%s]", c.name, name, h.label, tablesText(f), tablesText(tb))
	fp, err := c.lookupTablesProve(f, tb)
	if err != nil {
		rep.Case(test, key, true, "plookup_tables", cls, "binding:prover_refused")
		return
	}
	for i := 0; i < 2*rows; i++ {
		fld := getField(fp.Elem(), map[bool]string{true: "fs", false: "ts"}[i < rows]).Index(i % rows)
		if i != comp && string(rawBytes(fld)) != string(msgs[i]) {
			rep.Case(test, key, false, "plookup_tables", cls+"|commitment_model_unavailable")
			return
		}
	}
	o := guard(func() error { return c.lookupTablesVerify(fp.Elem()) })
	if o.accepted {
		accepted(t, "%s: FALSE STATEMENT ACCEPTED (challenge binding): the library's own prover/verifier accept a column of f that is not a column of t, solved so that the folded columns agree at the challenge computed with %s %s: lambda does not depend on %s (%s)", test, name, h.label, name, clip(key))
	}
	if o.panicked != nil {
		t.Fatalf("%s: verifier panicked: %v", test, o.panicked)
	}
	rep.Case(test, key, true, "plookup_tables", cls, "binding:"+h.label, "binding@"+c.name, "binding|plookup_tables@"+c.name, "forged", "rejected")
}

// =====================================================================================================
// plookup vector: beta <- (t, f, h1, h2), gamma <- (), alpha <- (z), nu <- (h); reference prover
// =====================================================================================================

type plkWitness struct {
	n              int
	g              *big.Int
	f, t, h1, h2   []*big.Int // n values each (f: the last one is not constrained)
	beta, gamma, w *big.Int   // w = gamma(1+beta)
}

func (p *plkWitness) num(i int, q *big.Int) *big.Int {
	opb := addm(big.NewInt(1), p.beta, q)
	a := mulm(opb, addm(p.gamma, p.f[i], q), q)
	return mulm(a, addm(addm(p.w, p.t[i], q), mulm(p.beta, p.t[i+1], q), q), q)
}

func (p *plkWitness) den(i int, q *big.Int) *big.Int {
	a := addm(addm(p.w, p.h1[i], q), mulm(p.beta, p.h1[i+1], q), q)
	b := addm(addm(p.w, p.h2[i], q), mulm(p.beta, p.h2[i+1], q), q)
	return mulm(a, b, q)
}

// sortedHalves returns h1, h2 of an honestly run prover: the sorted concatenation of f[:n-1] and t.
func sortedHalves(f, tb []*big.Int) (h1, h2 []*big.Int) {
	n := len(tb)
	s := append(append([]*big.Int(nil), tb...), f[:n-1]...)
	sort.Slice(s, func(i, j int) bool { return s[i].Cmp(s[j]) < 0 })
	return append([]*big.Int(nil), s[:n]...), append([]*big.Int(nil), s[n-1:]...)
}

// lookupBinding: one forgery for the message `comp` in {t, f, h1, h2 (beta, gamma), z (alpha), h (nu)}.
// hsel selects the hypothesis for the beta messages: 0 = dropped, -1 = one of the others (drawn).
//
//	f:  f[1], f[2] -> a', b' with (gamma+a')(gamma+b') = (gamma+a)(gamma+b), a' outside the table
//	t:  t[0] -> t[0]+1 (f uses the old t[0]), t[n-1] solved from the two factors that changed
//	h1: f false from the start, h1[0] solved from the factor i = 0
//	h2: f false from the start, h2[n-1] solved from the factor i = n-2
//	z:  alpha known before z: z(n-1) = 1, recurrence backwards, z(0) from the folded constraint at x = 1
//	h:  nu known before h: h is the constant N(nu)/(nu^n-1)
func lookupBinding(t *rapid.T, c *curve, test string, comp string, hsel int) {
	q := c.q
	pk, vk := c.srs()
	one := big.NewInt(1)
	n := rapid.SampledFrom([]int{4, 8, 16}).Draw(t, "bv_dom")
	g := c.domainGenerator(n)
	// a true statement to start from: sorted table of distinct values, f inside it (f uses t[0])
	seen := map[string]bool{}
	tb := make([]*big.Int, 0, n)
	for len(tb) < n {
		v := c.spec.Uniform(t, "bv_t")
		if !seen[v.String()] {
			seen[v.String()] = true
			tb = append(tb, v)
		}
	}
	sort.Slice(tb, func(i, j int) bool { return tb[i].Cmp(tb[j]) < 0 })
	f := make([]*big.Int, n)
	idx := rapid.SliceOfN(rapid.IntRange(0, n-1), n, n).Draw(t, "bv_fidx")
	for i := range f {
		f[i] = tb[idx[i]]
	}
	f[0] = tb[0]
	f[n-1] = f[n-2] // the library pads the unused last entry with the previous one
	names := []string{"beta", "gamma", "alpha", "nu"}
	order := map[string]int{"t": 0, "f": 1, "h1": 2, "h2": 3}
	var h hypo
	var chName string
	switch comp {
	case "t", "f", "h1", "h2":
		chName = "beta"
		hs := hyposFor("beta", order[comp], 4)
		if hsel < 0 {
			hsel = 1 + rapid.IntRange(0, len(hs)-2).Draw(t, "bv_hyp") // one of the hypotheses other than "dropped"
		}
		h = hs[hsel]
	case "z":
		chName = "alpha"
		h = hypo{"alpha", "dropped", func(int, int) bool { return false }}
	default:
		chName = "nu"
		h = hypo{"nu", "dropped", func(int, int) bool { return false }}
	}
	cls := "binding|plookup_vector|" + chName + "!<-" + comp
	if comp == "h1" || comp == "h2" || comp == "z" || comp == "h" {
		// the statement is false from the start: f[1] is not in the table
		for dlt := int64(1); ; dlt++ {
			v := addm(tb[n/2], big.NewInt(dlt), q)
			if !contains(tb, v) {
				f[1] = v
				break
			}
		}
	}
	w := &plkWitness{n: n, g: g, f: f, t: tb}
	w.h1, w.h2 = sortedHalves(f, tb)
	commitVec := func(v []*big.Int) ([]*big.Int, reflect.Value, reflect.Value) {
		co := interpolate(v, g, q)
		e, dg := c.commitCoeffs(co)
		return co, e, dg
	}
	tr := newHypTranscript(q, h, names...)
	// beta (and gamma) from the messages that are fixed now; the free one (if any) is chosen afterwards
	msgs := make([][]byte, 4)
	for name, v := range map[string][]*big.Int{"t": w.t, "f": w.f, "h1": w.h1, "h2": w.h2} {
		if chName == "beta" && name == comp {
			msgs[order[name]] = []byte{}
			continue
		}
		_, _, dg := commitVec(v)
		msgs[order[name]] = rawBytes(dg)
	}
	if chName == "beta" && h.keep(order[comp], 4) {
		t.Fatalf("harness: hypothesis keeps the free message")
	}
	w.beta = tr.derive("beta", msgs...)
	w.gamma = tr.derive("gamma")
	w.w = mulm(w.gamma, addm(one, w.beta, q), q)
	if w.beta.Sign() == 0 {
		return
	}
	key := func() string {
		return fmt.Sprintf("plookup_vector-binding %s %s!<-%s (%s) f=[%s] t=[%s] h1=[%s] h2=[%s]", c.name, chName, comp, h.label, hexs(w.f[:n-1]), hexs(w.t), hexs(w.h1), hexs(w.h2))
	}
	unavailable := func(why string) {
		rep.Case(test, key(), false, "plookup_vector", cls+"|construction_unavailable:"+why)
	}
	ratio := func() *big.Int { // prod num_i / prod den_i over i = 0..n-2
		nu, de := big.NewInt(1), big.NewInt(1)
		for i := 0; i < n-1; i++ {
			nu, de = mulm(nu, w.num(i, q), q), mulm(de, w.den(i, q), q)
		}
		if de.Sign() == 0 {
			return nil
		}
		return mulm(nu, invm(de, q), q)
	}
	// solve the free message so that the grand product closes at (beta, gamma)
	switch comp {
	case "f":
		a, b := w.f[1], w.f[2]
		for dlt := int64(1); ; dlt++ {
			a2 := addm(tb[n/2], big.NewInt(dlt), q)
			if contains(tb, a2) || addm(w.gamma, a2, q).Sign() == 0 {
				continue
			}
			b2 := subm(mulm(mulm(addm(w.gamma, a, q), addm(w.gamma, b, q), q), invm(addm(w.gamma, a2, q), q), q), w.gamma, q)
			w.f = append([]*big.Int(nil), w.f...)
			w.f[1], w.f[2] = a2, b2
			break
		}
	case "t":
		F0 := addm(addm(w.w, w.t[0], q), mulm(w.beta, w.t[1], q), q)
		Fl := addm(addm(w.w, w.t[n-2], q), mulm(w.beta, w.t[n-1], q), q)
		nt := append([]*big.Int(nil), w.t...)
		nt[0] = addm(nt[0], one, q)
		F0n := addm(F0, one, q)
		if F0n.Sign() == 0 {
			unavailable("singular")
			return
		}
		Fln := mulm(mulm(F0, Fl, q), invm(F0n, q), q)
		nt[n-1] = mulm(subm(subm(Fln, w.w, q), nt[n-2], q), invm(w.beta, q), q)
		w.t = nt
		if contains(w.t, w.f[0]) {
			unavailable("still_true")
			return
		}
	case "h1":
		r := ratio()
		if r == nil || r.Sign() == 0 {
			unavailable("singular")
			return
		}
		F0 := addm(addm(w.w, w.h1[0], q), mulm(w.beta, w.h1[1], q), q)
		nh := append([]*big.Int(nil), w.h1...)
		nh[0] = subm(subm(mulm(F0, r, q), w.w, q), mulm(w.beta, nh[1], q), q)
		w.h1 = nh
	case "h2":
		r := ratio()
		if r == nil || r.Sign() == 0 {
			unavailable("singular")
			return
		}
		Fl := addm(addm(w.w, w.h2[n-2], q), mulm(w.beta, w.h2[n-1], q), q)
		nh := append([]*big.Int(nil), w.h2...)
		nh[n-1] = mulm(subm(subm(mulm(Fl, r, q), w.w, q), nh[n-2], q), invm(w.beta, q), q)
		w.h2 = nh
	}
	if chName == "beta" {
		if r := ratio(); r == nil || r.Cmp(one) != 0 {
			t.Fatalf("harness: the solved message does not close the grand product at the hypothesised (beta, gamma)")
		}
		inTable := true
		for _, v := range w.f[:n-1] {
			inTable = inTable && contains(w.t, v)
		}
		if inTable {
			unavailable("still_true")
			return
		}
	}
	ct, et, dt := commitVec(w.t)
	cf, ef, df := commitVec(w.f)
	ch1, eh1, dh1 := commitVec(w.h1)
	ch2, eh2, dh2 := commitVec(w.h2)
	G := expm(g, int64(n-1), q)
	// accumulator
	z := make([]*big.Int, n)
	var alpha *big.Int
	if comp == "z" {
		alpha = tr.derive("alpha", []byte{}) // known before z
		z[n-1] = one
		for i := n - 2; i >= 1; i-- {
			nu := w.num(i, q)
			if nu.Sign() == 0 {
				unavailable("singular")
				return
			}
			z[i] = mulm(mulm(z[i+1], w.den(i, q), q), invm(nu, q), q)
		}
		an := mulm(alpha, big.NewInt(int64(n)), q)
		omg := subm(one, G, q)
		coef := addm(mulm(omg, w.num(0, q), q), an, q)
		if coef.Sign() == 0 {
			unavailable("singular")
			return
		}
		z[0] = mulm(addm(an, mulm(mulm(omg, z[1], q), w.den(0, q), q), q), invm(coef, q), q)
	} else {
		z[0] = one
		for i := 0; i < n-1; i++ {
			de := w.den(i, q)
			if de.Sign() == 0 {
				unavailable("singular")
				return
			}
			z[i+1] = mulm(mulm(z[i], w.num(i, q), q), invm(de, q), q)
		}
	}
	cz, ez, dz := commitVec(z)
	if comp != "z" {
		alpha = tr.derive("alpha", rawBytes(dz))
	}
	// numerator (X-G)(m - m') + alpha*L0*(z-1) + alpha^2*Ln*(z-1) + alpha^3*Ln*(h1 - h2(gX))
	opb := addm(one, w.beta, q)
	sh := func(p []*big.Int) []*big.Int { return polyScaleArg(p, g, q) }
	m1 := scalePoly(polyMul(polyMul(cz, addConst(cf, w.gamma, q), q), addConst(polyAdd(ct, scalePoly(sh(ct), w.beta, q), q), w.w, q), q), opb, q)
	m2 := polyMul(polyMul(sh(cz), addConst(polyAdd(ch1, scalePoly(sh(ch1), w.beta, q), q), w.w, q), q), addConst(polyAdd(ch2, scalePoly(sh(ch2), w.beta, q), q), w.w, q), q)
	xmG := []*big.Int{subm(new(big.Int), G, q), one}
	num := polyMul(xmG, polySub(m1, m2, q), q)
	l0 := onesPoly(n) // (X^n-1)/(X-1)
	ln := make([]*big.Int, n)
	for k := 0; k < n; k++ { // (X^n-1)/(X-G) = sum_k G^(n-1-k) X^k
		ln[k] = expm(G, int64(n-1-k), q)
	}
	zm1 := polySub(cz, []*big.Int{one}, q)
	a2, a3 := mulm(alpha, alpha, q), mulm(mulm(alpha, alpha, q), alpha, q)
	num = polyAdd(num, scalePoly(polyMul(l0, zm1, q), alpha, q), q)
	num = polyAdd(num, scalePoly(polyMul(ln, zm1, q), a2, q), q)
	num = polyAdd(num, scalePoly(polyMul(ln, polySub(ch1, sh(ch2), q), q), a3, q), q)
	var chh []*big.Int
	var nu *big.Int
	if comp == "h" {
		nu = tr.derive("nu", []byte{}) // known before h
		xn1 := subm(expm(nu, int64(n), q), one, q)
		if xn1.Sign() == 0 {
			unavailable("nu_in_domain")
			return
		}
		chh = []*big.Int{mulm(polyEval(num, nu, q), invm(xn1, q), q)}
	} else {
		var exact bool
		chh, exact = polyDivXnMinus1(num, n, q)
		if !exact {
			t.Fatalf("harness: forged witness does not make the plookup numerator vanish on the domain (%s)", comp)
		}
	}
	for len(chh) < 2*n {
		chh = append(chh, new(big.Int))
	}
	eh, dh := c.commitCoeffs(chh)
	if comp != "h" {
		nu = tr.derive("nu", rawBytes(dh))
	}
	snu := mulm(nu, g, q)
	// the verifier's identity, re-evaluated at the hypothesised challenges
	{
		ev := func(p []*big.Int, x *big.Int) *big.Int { return polyEval(p, x, q) }
		vh1, vh2, vt, vz, vf, vh := ev(ch1, nu), ev(ch2, nu), ev(ct, nu), ev(cz, nu), ev(cf, nu), ev(chh, nu)
		sh1, sh2, st, sz := ev(ch1, snu), ev(ch2, snu), ev(ct, snu), ev(cz, snu)
		nmG := subm(nu, G, q)
		lhs := mulm(mulm(mulm(nmG, vz, q), opb, q), mulm(addm(w.gamma, vf, q), addm(addm(mulm(w.beta, st, q), vt, q), w.w, q), q), q)
		rhs := mulm(mulm(nmG, sz, q), mulm(addm(addm(mulm(w.beta, sh1, q), vh1, q), w.w, q), addm(addm(mulm(w.beta, sh2, q), vh2, q), w.w, q), q), q)
		xn1 := subm(expm(nu, int64(n), q), one, q)
		l0e := mulm(xn1, invm(subm(nu, one, q), q), q)
		lne := mulm(xn1, invm(nmG, q), q)
		tot := subm(lhs, rhs, q)
		tot = addm(tot, mulm(mulm(subm(vz, one, q), l0e, q), alpha, q), q)
		tot = addm(tot, mulm(mulm(subm(vz, one, q), lne, q), a2, q), q)
		tot = addm(tot, mulm(mulm(subm(vh1, sh2, q), lne, q), a3, q), q)
		if tot.Cmp(mulm(xn1, vh, q)) != 0 {
			t.Fatalf("harness: forged plookup proof does not satisfy the verifier's identity at the hypothesised challenges (%s)", comp)
		}
	}
	mk := func(prs ...[2]reflect.Value) (reflect.Value, reflect.Value) {
		polys := reflect.MakeSlice(reflect.SliceOf(reflect.SliceOf(c.elT)), len(prs), len(prs))
		digs := reflect.MakeSlice(reflect.SliceOf(c.kzg.Types["Digest"]), len(prs), len(prs))
		for i, pr := range prs {
			polys.Index(i).Set(pr[0])
			digs.Index(i).Set(pr[1])
		}
		return polys, digs
	}
	p6, d6 := mk([2]reflect.Value{eh1, dh1}, [2]reflect.Value{eh2, dh2}, [2]reflect.Value{et, dt}, [2]reflect.Value{ez, dz}, [2]reflect.Value{ef, df}, [2]reflect.Value{eh, dh})
	p4, d4 := mk([2]reflect.Value{eh1, dh1}, [2]reflect.Value{eh2, dh2}, [2]reflect.Value{et, dt}, [2]reflect.Value{ez, dz})
	r6 := c.kzg.F("BatchOpenSinglePoint", p6.Interface(), d6.Interface(), c.elem(nu).Interface(), sha256.New(), pk)
	r4 := c.kzg.F("BatchOpenSinglePoint", p4.Interface(), d4.Interface(), c.elem(snu).Interface(), sha256.New(), pk)
	if reg.Err(r6) != nil || reg.Err(r4) != nil {
		unavailable("kzg_open")
		return
	}
	b6, b4 := ptrOf(r6[0]), ptrOf(r4[0])
	if reg.Err(c.kzg.F("BatchVerifySinglePoint", d6.Interface(), b6, c.elem(nu).Interface(), sha256.New(), vk)) != nil ||
		reg.Err(c.kzg.F("BatchVerifySinglePoint", d4.Interface(), b4, c.elem(snu).Interface(), sha256.New(), vk)) != nil {
		unavailable("kzg_verify")
		return
	}
	forged := reflect.New(c.plk.Types["ProofLookupVector"])
	pf := forged.Elem()
	getField(pf, "size").SetUint(uint64(n))
	setField(pf, "g", c.elem(g))
	for _, kv := range []struct {
		n string
		v reflect.Value
	}{{"h1", dh1}, {"h2", dh2}, {"t", dt}, {"z", dz}, {"f", df}, {"h", dh}} {
		setField(pf, kv.n, kv.v)
	}
	pf.FieldByName("BatchedProof").Set(reflect.ValueOf(b6).Elem())
	pf.FieldByName("BatchedProofShifted").Set(reflect.ValueOf(b4).Elem())
	o := guard(func() error { return c.lookupVectorVerify(pf) })
	if o.accepted {
		accepted(t, "%s: FALSE STATEMENT ACCEPTED (challenge binding): proof built by an adaptive prover that knew %s before committing %s (%s) verifies: %s does not depend on %s (%s)", test, chName, comp, h.label, chName, comp, clip(key()))
	}
	if o.panicked != nil {
		t.Fatalf("%s: verifier panicked: %v", test, o.panicked)
	}
	rep.Case(test, key(), true, "plookup_vector", cls, "binding:"+h.label, "binding@"+c.name, "binding|plookup_vector@"+c.name, "forged", "rejected")
}
