// Package c17b: property C17, part B — the hash/field-based and polynomial-IOP argument systems:
// permutation, plookup (vector and tables), FRI (proximity + openings) and Vortex.
//
// For every scheme: (1) completeness on rapid-drawn admissible statements, (2) reflective
// single-component tampering of every leaf of the proof objects (unexported fields included), false
// statements with an honestly run prover, (3) targeted consistent forgeries that keep all verifier
// checks but one satisfied.
package c17b

import (
	"crypto/sha256"
	"fmt"
	"math/big"
	"os"
	"reflect"
	"regexp"
	"strings"
	"sync"
	"testing"

	"pgregory.net/rapid"

	"verif/harness/internal/gen"
	"verif/harness/internal/reg"
	"verif/harness/internal/rep"
)

func TestMain(m *testing.M) { rep.Main(m) }

// pairing curves whose scalar fields carry permutation / plookup / fri packages
var curveNames = []string{"bn254", "bls12-377", "bls12-381", "bls24-315", "bls24-317", "bw6-633", "bw6-761"}

func selected(name string) bool {
	p := os.Getenv("VERIF_INST")
	if p == "" {
		return true
	}
	ok, _ := regexp.MatchString(p, name)
	return ok
}

func forCurves(t *testing.T, body func(t *testing.T, c *curve)) {
	for _, n := range curveNames {
		if !selected(n) {
			continue
		}
		c := getCurve(n)
		t.Run(n, func(t *testing.T) { body(t, c) })
	}
}

// curve bundles the reflective handles of one pairing curve's packages.
type curve struct {
	name                         string
	ec, fr, fft, kzg, perm, plk, fri *reg.Pkg
	q                            *big.Int
	elT, vecT, g1T               reflect.Type
	spec                         gen.FieldSpec
	g1Gen                        interface{} // *G1Affine
	srsOnce                      sync.Once
	pk, vk                       interface{} // kzg.ProvingKey, kzg.VerifyingKey (values)
}

var (
	curvesMu sync.Mutex
	curves   = map[string]*curve{}
)

func getCurve(name string) *curve {
	curvesMu.Lock()
	defer curvesMu.Unlock()
	if c := curves[name]; c != nil {
		return c
	}
	c := &curve{name: name}
	must := func(p string) *reg.Pkg {
		k := reg.Get(p)
		if k == nil {
			panic("c17b: package not registered: " + p)
		}
		return k
	}
	c.ec = must("ecc/" + name)
	c.fr = must("ecc/" + name + "/fr")
	c.fft = must("ecc/" + name + "/fr/fft")
	c.kzg = must("ecc/" + name + "/kzg")
	c.perm = must("ecc/" + name + "/fr/permutation")
	c.plk = must("ecc/" + name + "/fr/plookup")
	c.fri = must("ecc/" + name + "/fr/fri")
	c.q = c.fr.F("Modulus")[0].(*big.Int)
	c.elT = c.fr.Funcs["NewElement"].Type().Out(0)
	c.vecT = c.plk.Funcs["ProveLookupVector"].Type().In(1)
	c.g1T = c.ec.Types["G1Affine"]
	c.spec = gen.FieldSpec{Q: c.q, NLimbs: c.elT.Len(), LimbBits: 64}
	gens := c.ec.F("Generators")
	c.g1Gen = ptrOf(gens[2])
	curves[name] = c
	return c
}

// ptrOf returns a pointer to a copy of the value v.
func ptrOf(v interface{}) interface{} {
	rv := reflect.ValueOf(v)
	p := reflect.New(rv.Type())
	p.Elem().Set(rv)
	return p.Interface()
}

// srs returns a KZG SRS large enough for every statement size used here (trapdoor fixed, public).
func (c *curve) srs() (pk, vk interface{}) {
	c.srsOnce.Do(func() {
		tau, _ := new(big.Int).SetString("1234567891011121314151617181920212223242526272829", 10)
		res := c.kzg.F("NewSRS", uint64(rep.Scale(160, 300)), tau)
		if err := reg.Err(res); err != nil {
			panic(err)
		}
		s := reflect.ValueOf(res[0]).Elem()
		c.pk = s.FieldByName("Pk").Interface()
		c.vk = s.FieldByName("Vk").Interface()
	})
	return c.pk, c.vk
}

// elems builds a []fr.Element from integers.
func (c *curve) elems(vals []*big.Int) reflect.Value {
	s := reflect.MakeSlice(reflect.SliceOf(c.elT), len(vals), len(vals))
	for i, v := range vals {
		s.Index(i).Addr().MethodByName("SetBigInt").Call([]reflect.Value{reflect.ValueOf(v)})
	}
	return s
}

// vec builds a fr.Vector.
func (c *curve) vec(vals []*big.Int) reflect.Value { return c.elems(vals).Convert(c.vecT) }

func (c *curve) elem(v *big.Int) reflect.Value {
	e := reflect.New(c.elT)
	e.MethodByName("SetBigInt").Call([]reflect.Value{reflect.ValueOf(v)})
	return e.Elem()
}

func feltBig(v reflect.Value) *big.Int {
	if !v.CanAddr() {
		c := reflect.New(v.Type()).Elem()
		c.Set(v)
		v = c
	}
	r := v.Addr().MethodByName("BigInt").Call([]reflect.Value{reflect.ValueOf(new(big.Int))})
	return r[0].Interface().(*big.Int)
}

// marshalFelt returns the fixed-length big-endian encoding the library uses for v mod q.
func (c *curve) marshalFelt(v *big.Int) []byte {
	n := c.elT.Len() * 8
	b := make([]byte, n)
	new(big.Int).Mod(v, c.q).FillBytes(b)
	return b
}

// pool draws a small pool of lattice values (so that repeated entries are frequent) and a vector
// of n indices into it.
func drawPool(t *rapid.T, s gen.FieldSpec, k int, label string) []*big.Int {
	pool := make([]*big.Int, k)
	for i := range pool {
		if rapid.IntRange(0, 2).Draw(t, label+"kind") == 0 {
			pool[i], _ = s.Elem(t, label)
		} else {
			pool[i] = s.Uniform(t, label)
		}
	}
	return pool
}

func hexs(v []*big.Int) string {
	var sb strings.Builder
	for i, x := range v {
		if i > 0 {
			sb.WriteByte(',')
		}
		sb.WriteString(x.Text(16))
	}
	return sb.String()
}

func short(s string) string {
	h := sha256.Sum256([]byte(s))
	return fmt.Sprintf("%x", h[:8])
}

func multisetEqual(a, b []*big.Int) bool {
	if len(a) != len(b) {
		return false
	}
	m := map[string]int{}
	for _, x := range a {
		m[x.String()]++
	}
	for _, x := range b {
		m[x.String()]--
	}
	for _, n := range m {
		if n != 0 {
			return false
		}
	}
	return true
}

func contains(set []*big.Int, x *big.Int) bool {
	for _, y := range set {
		if y.Cmp(x) == 0 {
			return true
		}
	}
	return false
}

func isPow2(n int) bool { return n > 0 && n&(n-1) == 0 }

func nextPow2(n int) int {
	p := 1
	for p < n {
		p <<= 1
	}
	return p
}

func log2(n int) int {
	k := 0
	for 1<<uint(k) < n {
		k++
	}
	return k
}

// verdict of one verifier call
type outcome struct {
	accepted bool
	err      error
	panicked interface{}
}

func (o outcome) String() string {
	switch {
	case o.panicked != nil:
		return fmt.Sprintf("panic(%v)", o.panicked)
	case o.accepted:
		return "accepted"
	default:
		return "rejected(" + o.err.Error() + ")"
	}
}

// guard runs a verifier call, turning a panic into an outcome.
func guard(f func() error) (o outcome) {
	defer func() {
		if r := recover(); r != nil {
			o = outcome{panicked: r}
		}
	}()
	err := f()
	return outcome{accepted: err == nil, err: err}
}
