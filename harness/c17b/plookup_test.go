package c17b

import (
	"crypto/sha256"
	"fmt"
	"math/big"
	"reflect"
	"sort"
	"strings"
	"testing"

	fiatshamir "github.com/consensys/gnark-crypto/fiat-shamir"
	"pgregory.net/rapid"

	"verif/harness/internal/reg"
	"verif/harness/internal/rep"
)

// ---- plookup: vector ---------------------------------------------------------------------------------

func (c *curve) lookupVectorProve(f, tb []*big.Int) (reflect.Value, error) {
	pk, _ := c.srs()
	res := c.plk.F("ProveLookupVector", pk, c.vec(f).Interface(), c.vec(tb).Interface())
	p := reflect.New(c.plk.Types["ProofLookupVector"])
	p.Elem().Set(reflect.ValueOf(res[0]))
	return p, reg.Err(res)
}

func (c *curve) lookupVectorVerify(proof reflect.Value) error {
	_, vk := c.srs()
	return reg.Err(c.plk.F("VerifyLookupVector", vk, proof.Interface()))
}

func maxDomain() int { return rep.Scale(32, 128) }

// drawLookupShape draws (len(f), len(t)) such that the domain nextPow2(max(len(f)+1, len(t))) stays
// within the budget; minimal, non-power-of-two and exactly-filled shapes are all produced.
func drawLookupShape(t *rapid.T, label string) (lf, lt int) {
	d := rapid.SampledFrom([]int{2, 4, 8, 16, 32, 64, 128}).Filter(func(x int) bool { return x <= maxDomain() }).Draw(t, label+"dom")
	switch rapid.IntRange(0, 3).Draw(t, label+"shape") {
	case 0: // exactly filled: len(t) = d, len(f) = d-1
		return d - 1, d
	case 1: // f longer than t
		lf = rapid.IntRange(d/2, d-1).Draw(t, label+"lf")
		if lf < 1 {
			lf = 1
		}
		lt = rapid.IntRange(1, lf).Draw(t, label+"lt")
		return
	case 2: // t longer than f
		lt = rapid.IntRange(d/2+1, d).Draw(t, label+"lt")
		lf = rapid.IntRange(1, lt-1).Draw(t, label+"lf")
		return
	default:
		lf = rapid.IntRange(1, d-1).Draw(t, label+"lf")
		lt = rapid.IntRange(1, d).Draw(t, label+"lt")
		return
	}
}

func lookupDomain(lf, lt int) int {
	if lt <= lf {
		return nextPow2(lf + 1)
	}
	return nextPow2(lt)
}

// drawLookupVector draws a table (repeated entries likely) and a vector of looked-up values, all
// inside the table; some table entries stay unused.
func drawLookupVector(t *rapid.T, c *curve, label string) (f, tb []*big.Int, cls []string) {
	lf, lt := drawLookupShape(t, label)
	k := rapid.IntRange(1, 6).Draw(t, label+"poolsize")
	pool := drawPool(t, c.spec, k, label+"pool")
	ti := rapid.SliceOfN(rapid.IntRange(0, k-1), lt, lt).Draw(t, label+"tidx")
	tb = make([]*big.Int, lt)
	for i := range tb {
		tb[i] = pool[ti[i]]
	}
	fi := rapid.SliceOfN(rapid.IntRange(0, lt-1), lf, lf).Draw(t, label+"fidx")
	f = make([]*big.Int, lf)
	used := map[int]bool{}
	for i := range f {
		f[i] = tb[fi[i]]
		used[fi[i]] = true
	}
	d := lookupDomain(lf, lt)
	cls = append(cls, fmt.Sprintf("domain=%d", d))
	if lf+1 == d && lt == d {
		cls = append(cls, "shape:exact")
	} else {
		cls = append(cls, "shape:padded")
	}
	if !isPow2(lt) {
		cls = append(cls, "table:non_pow2")
	}
	dist := map[string]bool{}
	for _, x := range tb {
		dist[x.String()] = true
	}
	if len(dist) < lt {
		cls = append(cls, "table:repeated")
	}
	unused := false
	for _, x := range tb {
		if !contains(f, x) {
			unused = true
		}
	}
	if unused {
		cls = append(cls, "table:unused_entries")
	}
	return
}

// valueOutside returns a value that is not in the table, near an existing entry when possible.
func valueOutside(t *rapid.T, c *curve, tb []*big.Int, label string) *big.Int {
	base := tb[rapid.IntRange(0, len(tb)-1).Draw(t, label+"near")]
	for d := int64(1); ; d++ {
		v := addm(base, big.NewInt(d), c.q)
		if !contains(tb, v) {
			return v
		}
	}
}

// lookupExpect handles the auxiliary fields size and g of a ProofLookupVector (prefix = path of the
// vector proof inside the walked object). With h the quotient commitment and G = g^(size-1):
//   - g is only used to shift the evaluation point of the second batch opening; a KZG opening with
//     quotient commitment H verifies at a different point iff H is the point at infinity;
//   - if h is the zero polynomial every term of the verifier's identity vanishes identically and size
//     is unconstrained; if size' = size modulo the order of g then G is unchanged and the identity
//     holds iff a witness-dependent polynomial vanishes identically (not decided here).
func lookupExpect(prefix string, n uint64) func(s site, kind string, orig, mut reflect.Value) (expectation, string) {
	get := func(root reflect.Value, path string) reflect.Value {
		v := root
		for _, p := range strings.Split(strings.TrimPrefix(prefix+path, "."), ".") {
			v = v.FieldByName(p)
		}
		return acc(v)
	}
	return func(s site, kind string, orig, mut reflect.Value) (expectation, string) {
		switch s.path {
		case prefix + "g":
			if get(orig, "BatchedProofShifted.H").IsZero() {
				return expSkip, "g_unconstrained(constant_polynomials)"
			}
		case prefix + "size":
			if get(orig, "h").IsZero() {
				return expSkip, "size_unconstrained(zero_quotient)"
			}
			if get(mut, "size").Uint()%n == get(orig, "size").Uint()%n {
				return expSkip, "size_same_residue_mod_domain"
			}
		}
		return expReject, ""
	}
}

// lookupDegenerateGenerator builds, for a FALSE statement (some value of f is not in the table), a
// ProofLookupVector around the generator g' = 1 that only the test on the ORDER of proof.g can reject.
// With g' = 1 every "shifted" polynomial equals itself and g'^(n-1) = 1, so Ln = L0 and the
// verifier's numerator is (X-1)*z*[...] + (alpha+alpha^2)*L0*(z-1) + alpha^3*L0*(h1-h2): it vanishes on
// the whole domain for z = L0/n and h1 = h2, whatever f and t are. Quotient and all KZG openings are
// genuine, the challenges are the verifier's own, and the verifier's identity and both batch
// openings are re-checked here before the proof is submitted. fCom/tCom are the commitments the
// honestly run prover made for the same (f, t): the forged proof must carry the same statement.
func (c *curve) lookupDegenerateGenerator(g *big.Int, f, tb []*big.Int, fCom, tCom reflect.Value) (forged reflect.Value, ok bool) {
	pk, vk := c.srs()
	q := c.q
	n := lookupDomain(len(f), len(tb))
	pad := func(v []*big.Int) []*big.Int {
		out := make([]*big.Int, n)
		for i := range out {
			if i < len(v) {
				out[i] = v[i]
			} else {
				out[i] = v[len(v)-1]
			}
		}
		return out
	}
	lf, lt := pad(f), pad(tb)
	sort.Slice(lt, func(i, j int) bool { return lt[i].Cmp(lt[j]) < 0 })
	digT := c.kzg.Types["Digest"]
	commit := func(p []*big.Int) (reflect.Value, reflect.Value) {
		e := c.elems(p)
		r := c.kzg.F("Commit", e.Interface(), pk)
		must(reg.Err(r))
		return e, reflect.ValueOf(r[0])
	}
	cf, ct := interpolate(lf, g, q), interpolate(lt, g, q)
	ef, df := commit(cf)
	et, dt := commit(ct)
	if !same(df, fCom) || !same(dt, tCom) {
		return forged, false
	}
	// h1 = h2 = t (any common polynomial will do)
	ch1, eh1, dh1 := ct, et, dt
	fs := fiatshamir.NewTranscript(sha256.New(), "beta", "gamma", "alpha", "nu")
	derive := func(name string, pts ...reflect.Value) *big.Int {
		for _, p := range pts {
			must(fs.Bind(name, rawBytes(p)))
		}
		b, err := fs.ComputeChallenge(name)
		must(err)
		return new(big.Int).Mod(new(big.Int).SetBytes(b), q)
	}
	beta := derive("beta", dt, df, dh1, dh1)
	gamma := derive("gamma")
	one := big.NewInt(1)
	ninv := invm(big.NewInt(int64(n)), q)
	cz := make([]*big.Int, n) // L0/n: 1 at X=1, 0 on the rest of the domain
	l0 := make([]*big.Int, n)
	for i := range cz {
		cz[i], l0[i] = ninv, one
	}
	ez, dz := commit(cz)
	alpha := derive("alpha", dz)
	opb := addm(one, beta, q)
	gopb := mulm(gamma, opb, q)
	scale := func(p []*big.Int, k *big.Int) []*big.Int {
		out := make([]*big.Int, len(p))
		for i := range p {
			out[i] = mulm(p[i], k, q)
		}
		return out
	}
	addc := func(p []*big.Int, k *big.Int) []*big.Int {
		out := append([]*big.Int(nil), p...)
		out[0] = addm(out[0], k, q)
		return out
	}
	// m = (1+beta)(gamma+f)(gamma(1+beta) + (1+beta) t), nn = (gamma(1+beta) + (1+beta) h1)^2
	mm := scale(polyMul(addc(cf, gamma), addc(scale(ct, opb), gopb), q), opb)
	hterm := addc(scale(ch1, opb), gopb)
	nn := polyMul(hterm, hterm, q)
	num := polyMul(polyMul([]*big.Int{subm(new(big.Int), one, q), one}, cz, q), polySub(mm, nn, q), q) // (X-1) z (m - n)
	bnd := scale(polyMul(l0, polySub(cz, []*big.Int{one}, q), q), addm(alpha, mulm(alpha, alpha, q), q))
	num = polySub(num, polySub(nil, bnd, q), q)
	ch, exact := polyDivXnMinus1(num, n, q)
	if !exact {
		return forged, false
	}
	for len(ch) < 2*n {
		ch = append(ch, new(big.Int))
	}
	eh, dh := commit(ch)
	nu := derive("nu", dh)
	// the verifier's identity with g = 1, re-evaluated from the definitions
	{
		vh1, vt, vz, vf, vh := polyEval(ch1, nu, q), polyEval(ct, nu, q), polyEval(cz, nu, q), polyEval(cf, nu, q), polyEval(ch, nu, q)
		xn1 := subm(expm(nu, int64(n), q), one, q)
		l0e := mulm(xn1, invm(subm(nu, one, q), q), q)
		lhs := mulm(mulm(mulm(subm(nu, one, q), vz, q), opb, q), mulm(addm(gamma, vf, q), addm(addm(mulm(beta, vt, q), vt, q), gopb, q), q), q)
		hv := addm(addm(mulm(beta, vh1, q), vh1, q), gopb, q)
		rhs := mulm(mulm(subm(nu, one, q), vz, q), mulm(hv, hv, q), q)
		tot := subm(lhs, rhs, q)
		zb := mulm(subm(vz, one, q), l0e, q)
		tot = addm(tot, mulm(zb, addm(alpha, mulm(alpha, alpha, q), q), q), q)
		if tot.Cmp(mulm(xn1, vh, q)) != 0 {
			return forged, false
		}
	}
	mk := func(prs ...[2]reflect.Value) (reflect.Value, reflect.Value) {
		polys := reflect.MakeSlice(reflect.SliceOf(reflect.SliceOf(c.elT)), len(prs), len(prs))
		digs := reflect.MakeSlice(reflect.SliceOf(digT), len(prs), len(prs))
		for i, pr := range prs {
			polys.Index(i).Set(pr[0])
			digs.Index(i).Set(pr[1])
		}
		return polys, digs
	}
	p6, d6 := mk([2]reflect.Value{eh1, dh1}, [2]reflect.Value{eh1, dh1}, [2]reflect.Value{et, dt}, [2]reflect.Value{ez, dz}, [2]reflect.Value{ef, df}, [2]reflect.Value{eh, dh})
	p4, d4 := mk([2]reflect.Value{eh1, dh1}, [2]reflect.Value{eh1, dh1}, [2]reflect.Value{et, dt}, [2]reflect.Value{ez, dz})
	nuE := c.elem(nu).Interface()
	r6 := c.kzg.F("BatchOpenSinglePoint", p6.Interface(), d6.Interface(), nuE, sha256.New(), pk)
	r4 := c.kzg.F("BatchOpenSinglePoint", p4.Interface(), d4.Interface(), nuE, sha256.New(), pk) // shifted point g'*nu = nu
	if reg.Err(r6) != nil || reg.Err(r4) != nil {
		return forged, false
	}
	b6, b4 := ptrOf(r6[0]), ptrOf(r4[0])
	if reg.Err(c.kzg.F("BatchVerifySinglePoint", d6.Interface(), b6, nuE, sha256.New(), vk)) != nil ||
		reg.Err(c.kzg.F("BatchVerifySinglePoint", d4.Interface(), b4, nuE, sha256.New(), vk)) != nil {
		return forged, false
	}
	forged = reflect.New(c.plk.Types["ProofLookupVector"])
	pf := forged.Elem()
	getField(pf, "size").SetUint(uint64(n))
	setField(pf, "g", c.elem(one))
	for _, kv := range []struct {
		n string
		v reflect.Value
	}{{"h1", dh1}, {"h2", dh1}, {"t", dt}, {"z", dz}, {"f", df}, {"h", dh}} {
		setField(pf, kv.n, kv.v)
	}
	pf.FieldByName("BatchedProof").Set(reflect.ValueOf(b6).Elem())
	pf.FieldByName("BatchedProofShifted").Set(reflect.ValueOf(b4).Elem())
	return forged, true
}

func propLookupVector(t *rapid.T, c *curve) {
	test := "C17b_LookupVector/" + c.name
	f, tb, cls := drawLookupVector(t, c, "a")
	stmt := fmt.Sprintf("plookup_vector %s f=[%s] t=[%s]", c.name, hexs(f), hexs(tb))
	d := lookupDomain(len(f), len(tb))

	a, err := c.lookupVectorProve(f, tb)
	if err != nil {
		t.Fatalf("%s: prover failed on an admissible statement: %v (%s)", test, err, clip(stmt))
	}
	if err := c.lookupVectorVerify(a.Elem()); err != nil {
		t.Fatalf("%s: honest proof rejected: %v (%s)", test, err, clip(stmt))
	}
	if sz := acc(a.Elem().FieldByName("size")).Uint(); sz != uint64(d) {
		t.Fatalf("%s: harness domain model wrong: proof.size=%d, expected %d", test, sz, d)
	}
	rep.Case(test, stmt, d == 2 || !isPow2(len(tb)) || len(f)+1 != d, append([]string{"plookup_vector", "honest"}, cls...)...)

	// false statement: one looked-up value is not in the table
	{
		ff := append([]*big.Int(nil), f...)
		pos := rapid.IntRange(0, len(f)-1).Draw(t, "falsepos")
		ff[pos] = valueOutside(t, c, tb, "false")
		fs := fmt.Sprintf("plookup_vector-false %s f=[%s] t=[%s]", c.name, hexs(ff), hexs(tb))
		fp, err := c.lookupVectorProve(ff, tb)
		if err != nil {
			rep.Case(test, fs, true, "plookup_vector", "false_stmt:prover_refused")
		} else {
			o := guard(func() error { return c.lookupVectorVerify(fp.Elem()) })
			if o.accepted {
				accepted(t, "%s: FALSE STATEMENT ACCEPTED: f[%d] is not in the table (%s)", test, pos, clip(fs))
			}
			if o.panicked != nil {
				t.Fatalf("%s: verifier panicked on an honestly generated proof: %v", test, o.panicked)
			}
			cl := "false_stmt:rejected"
			if pos == len(f)-1 {
				cl = "false_stmt:last_entry_rejected"
			}
			rep.Case(test, fs, true, "plookup_vector", "forged", cl)
			// degenerate generator: consistent proof of the same false statement around g' = 1
			gTrue := feltBig(getField(a.Elem(), "g"))
			if !hasOrder(gTrue, d, c.q) {
				t.Fatalf("%s: honest proof carries a generator of order != %d", test, d)
			}
			if forged, ok := c.lookupDegenerateGenerator(gTrue, ff, tb, getField(fp.Elem(), "f"), getField(fp.Elem(), "t")); ok {
				o := guard(func() error { return c.lookupVectorVerify(forged.Elem()) })
				if o.accepted {
					accepted(t, "%s: FALSE STATEMENT ACCEPTED: proof built around the generator g'=1 (z = L0/n, h1 = h2, genuine quotient and openings): the order of proof.g is not enforced (%s)", test, clip(fs))
				}
				if o.panicked != nil {
					t.Fatalf("%s: verifier panicked: %v", test, o.panicked)
				}
				rep.Case(test, fs+" g'=1", true, "plookup_vector", "forgery:degenerate_generator(plookup)", "forgery:degenerate_generator(plookup)@"+c.name, "forged", "rejected")
			} else {
				rep.Case(test, fs+" g'=1", false, "plookup_vector", "forgery:degenerate_generator(plookup)|construction_unavailable")
			}
		}
	}

	// challenge binding: beta/gamma <- (t, f, h1, h2), alpha <- z, nu <- h (reference prover, adaptive)
	for _, comp := range []string{"t", "f", "h1", "h2"} {
		lookupBinding(t, c, test, comp, 0)  // the message simply dropped
		lookupBinding(t, c, test, comp, -1) // one of: only the first / only the last / nothing bound
	}
	lookupBinding(t, c, test, "z", 0)
	lookupBinding(t, c, test, "h", 0)

	var b reflect.Value
	{
		g, u, _ := drawLookupVector(t, c, "b")
		if p, err := c.lookupVectorProve(g, u); err == nil {
			b = p
		}
	}
	sc := &scheme{name: "plookup_vector", test: test, env: c.mutEnv(),
		verify: func(p reflect.Value) error { return c.lookupVectorVerify(p) },
		expect: lookupExpect("", uint64(d)),
	}
	sc.tamperAll(t, a, b, stmt, 0)
}

func TestC17b_LookupVector(t *testing.T) {
	forCurves(t, func(t *testing.T, c *curve) {
		c.srs()
		rapid.Check(t, func(t *rapid.T) { propLookupVector(t, c) })
	})
}

// ---- plookup: tables ---------------------------------------------------------------------------------

func (c *curve) tables(rows [][]*big.Int) reflect.Value {
	s := reflect.MakeSlice(reflect.SliceOf(c.vecT), len(rows), len(rows))
	for i, r := range rows {
		s.Index(i).Set(c.vec(r))
	}
	return s
}

func (c *curve) lookupTablesProve(f, tb [][]*big.Int) (reflect.Value, error) {
	pk, _ := c.srs()
	res := c.plk.F("ProveLookupTables", pk, c.tables(f).Interface(), c.tables(tb).Interface())
	p := reflect.New(c.plk.Types["ProofLookupTables"])
	p.Elem().Set(reflect.ValueOf(res[0]))
	return p, reg.Err(res)
}

func (c *curve) lookupTablesVerify(proof reflect.Value) error {
	_, vk := c.srs()
	return reg.Err(c.plk.F("VerifyLookupTables", vk, proof.Interface()))
}

// drawLookupTables: t has r rows and lt columns; every column of f equals some column of t.
func drawLookupTables(t *rapid.T, c *curve, label string) (f, tb [][]*big.Int, cls []string) {
	r := rapid.IntRange(1, 3).Draw(t, label+"rows")
	lf, lt := drawLookupShape(t, label)
	k := rapid.IntRange(1, 5).Draw(t, label+"poolsize")
	pool := drawPool(t, c.spec, k, label+"pool")
	tb = make([][]*big.Int, r)
	for i := range tb {
		ti := rapid.SliceOfN(rapid.IntRange(0, k-1), lt, lt).Draw(t, label+"tidx")
		tb[i] = make([]*big.Int, lt)
		for j := range tb[i] {
			tb[i][j] = pool[ti[j]]
		}
	}
	fi := rapid.SliceOfN(rapid.IntRange(0, lt-1), lf, lf).Draw(t, label+"fidx")
	f = make([][]*big.Int, r)
	for i := range f {
		f[i] = make([]*big.Int, lf)
		for j := range f[i] {
			f[i][j] = tb[i][fi[j]]
		}
	}
	cls = []string{fmt.Sprintf("rows=%d", r), fmt.Sprintf("domain=%d", lookupDomain(lf, lt))}
	if !isPow2(lt) {
		cls = append(cls, "table:non_pow2")
	}
	return
}

func tablesText(m [][]*big.Int) string {
	var sb strings.Builder
	for i, r := range m {
		if i > 0 {
			sb.WriteByte(';')
		}
		sb.WriteString(hexs(r))
	}
	return sb.String()
}

func columnIn(f [][]*big.Int, j int, tb [][]*big.Int) bool {
	for k := range tb[0] {
		eq := true
		for i := range tb {
			if tb[i][k].Cmp(f[i][j]) != 0 {
				eq = false
				break
			}
		}
		if eq {
			return true
		}
	}
	return false
}

func propLookupTables(t *rapid.T, c *curve) {
	test := "C17b_LookupTables/" + c.name
	f, tb, cls := drawLookupTables(t, c, "a")
	stmt := fmt.Sprintf("plookup_tables %s f=[%s] t=[%s]", c.name, tablesText(f), tablesText(tb))
	d := lookupDomain(len(f[0]), len(tb[0]))

	a, err := c.lookupTablesProve(f, tb)
	if err != nil {
		t.Fatalf("%s: prover failed on an admissible statement: %v (%s)", test, err, clip(stmt))
	}
	if err := c.lookupTablesVerify(a.Elem()); err != nil {
		t.Fatalf("%s: honest proof rejected: %v (%s)", test, err, clip(stmt))
	}
	rep.Case(test, stmt, d == 2 || !isPow2(len(tb[0])) || len(tb) == 1, append([]string{"plookup_tables", "honest"}, cls...)...)

	// false statement: one column of f is not a column of t
	{
		ff := make([][]*big.Int, len(f))
		for i := range f {
			ff[i] = append([]*big.Int(nil), f[i]...)
		}
		row := rapid.IntRange(0, len(f)-1).Draw(t, "falserow")
		col := rapid.IntRange(0, len(f[0])-1).Draw(t, "falsecol")
		ff[row][col] = valueOutside(t, c, tb[row], "false")
		fs := fmt.Sprintf("plookup_tables-false %s f=[%s] t=[%s]", c.name, tablesText(ff), tablesText(tb))
		if columnIn(ff, col, tb) {
			t.Fatalf("harness: constructed column is still in the table")
		}
		fp, err := c.lookupTablesProve(ff, tb)
		if err != nil {
			rep.Case(test, fs, true, "plookup_tables", "false_stmt:prover_refused")
		} else {
			o := guard(func() error { return c.lookupTablesVerify(fp.Elem()) })
			if o.accepted {
				accepted(t, "%s: FALSE STATEMENT ACCEPTED: column %d of f is not a column of t (%s)", test, col, clip(fs))
			}
			if o.panicked != nil {
				t.Fatalf("%s: verifier panicked on an honestly generated proof: %v", test, o.panicked)
			}
			rep.Case(test, fs, true, "plookup_tables", "forged", "false_stmt:rejected")
			if forged, ok := c.tablesSplice(fp, ff, d); ok {
				o := guard(func() error { return c.lookupTablesVerify(forged.Elem()) })
				if o.accepted {
					accepted(t, "%s: FALSE STATEMENT ACCEPTED: honest commitments fs/ts and permutation proof of the false statement + a valid lookup proof of the folded f in an unrelated table: the lookup proof's table is not tied to the permuted folded table (%s)", test, clip(fs))
				}
				if o.panicked != nil {
					t.Fatalf("%s: verifier panicked: %v", test, o.panicked)
				}
				rep.Case(test, fs+" splice", true, "plookup_tables", "false_stmt|lookup_proof_in_unrelated_table", "spliced_lookup_proof@"+c.name, "forged", "rejected")
			} else {
				rep.Case(test, fs+" splice", false, "plookup_tables", "folding_model_unavailable")
			}
		}
	}

	// challenge binding: lambda must depend on every row commitment (the library's own prover)
	tablesBindingLambda(t, c, test)

	var b reflect.Value
	{
		g, u, _ := drawLookupTables(t, c, "b")
		if p, err := c.lookupTablesProve(g, u); err == nil {
			b = p
		}
	}
	inner := lookupExpect("foldedProof.", uint64(d))
	sc := &scheme{name: "plookup_tables", test: test, env: c.mutEnv(), tag: c.name,
		tagLabels: map[string]bool{"plookup_tables|ts[*]:point|random": true, "plookup_tables|permutationProof:struct|other": true},
		verify: func(p reflect.Value) error { return c.lookupTablesVerify(p) },
		expect: func(s site, kind string, orig, mut reflect.Value) (expectation, string) {
			switch {
			case s.path == "permutationProof.size" || s.path == "permutationProof.g":
				// auxiliary fields of the embedded permutation proof: whether they are determined depends
				// on the folded table (see permNumeratorVanishes); decided by the permutation check itself
				return expSkip, "aux_field_of_embedded_permutation_proof(covered_by_C17b_Permutation)"
			case strings.HasPrefix(s.path, "foldedProof."):
				return inner(s, kind, orig, mut)
			}
			return expReject, ""
		},
	}
	sc.tamperAll(t, a, b, stmt, 0)
}

// rawBytes returns the uncompressed encoding of a G1 point (value), the form the provers bind.
func rawBytes(pt reflect.Value) []byte {
	p := reflect.New(pt.Type())
	p.Elem().Set(pt)
	arr := reflect.ValueOf(reg.M(p.Interface(), "RawBytes")[0])
	b := make([]byte, arr.Len())
	reflect.Copy(reflect.ValueOf(b), arr)
	return b
}

// tablesLambda replays the folding challenge of a ProofLookupTables: lambda = H("lambda" | fs... | ts...).
func (c *curve) tablesLambda(proof reflect.Value) *big.Int {
	fs := fiatshamir.NewTranscript(sha256.New(), "lambda")
	for _, name := range []string{"fs", "ts"} {
		v := acc(proof.FieldByName(name))
		for i := 0; i < v.Len(); i++ {
			must(fs.Bind("lambda", rawBytes(v.Index(i))))
		}
	}
	b, err := fs.ComputeChallenge("lambda")
	must(err)
	return new(big.Int).Mod(new(big.Int).SetBytes(b), c.q)
}

// foldRows pads every row to d columns with its last entry and returns sum_j lambda^j row_j.
func foldRows(rows [][]*big.Int, d int, lambda, q *big.Int) []*big.Int {
	out := make([]*big.Int, d)
	for col := 0; col < d; col++ {
		acc := new(big.Int)
		for j := len(rows) - 1; j >= 0; j-- {
			v := rows[j][len(rows[j])-1]
			if col < len(rows[j]) {
				v = rows[j][col]
			}
			acc = addm(mulm(acc, lambda, q), v, q)
		}
		out[col] = acc
	}
	return out
}

// tablesSplice builds the targeted forgery for a FALSE statement (a column of ff is not a column of
// tb): the honestly run prover's proof p2 (commitments fs, ts of the false statement, a valid
// permutation proof between the folded table and its sorted version, a failing lookup proof) gets
// its lookup proof replaced by a VALID lookup proof of the folded f in an unrelated table (the folded
// f itself). Every check holds except the equality between the permutation proof's second vector and
// the table of the lookup proof. ok=false when the model of the folding does not reproduce p2's
// folded commitment (then nothing is asserted).
func (c *curve) tablesSplice(p2 reflect.Value, ff [][]*big.Int, d int) (forged reflect.Value, ok bool) {
	lambda := c.tablesLambda(p2.Elem())
	foldedf := foldRows(ff, d, lambda, c.q)
	lp, err := c.lookupVectorProve(foldedf[:d-1], foldedf)
	if err != nil || c.lookupVectorVerify(lp.Elem()) != nil {
		return forged, false
	}
	if !same(getField(lp.Elem(), "f"), getField(getField(p2.Elem(), "foldedProof"), "f")) {
		return forged, false
	}
	forged = deepCopy(p2)
	setField(forged.Elem(), "foldedProof", lp.Elem())
	return forged, true
}

func TestC17b_LookupTables(t *testing.T) {
	forCurves(t, func(t *testing.T, c *curve) {
		c.srs()
		rapid.Check(t, func(t *rapid.T) { propLookupTables(t, c) })
	})
}
