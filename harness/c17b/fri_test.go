package c17b

import (
	"bytes"
	"crypto/sha256"
	"fmt"
	"math/big"
	"reflect"
	"strings"
	"testing"

	fiatshamir "github.com/consensys/gnark-crypto/fiat-shamir"
	"pgregory.net/rapid"

	"verif/harness/internal/reg"
	"verif/harness/internal/rep"
)

// friInst is one FRI instance: polynomials of (at most) `size` coefficients, code rate 1/8.
type friInst struct {
	c       *curve
	size    int
	n       int // next power of two of size
	N       int // domain size 8n
	nbSteps int
	iopp    interface{} // fri.Iopp
	g       *big.Int    // generator of the evaluation domain (order N, validated)
}

func (c *curve) newFri(size int) *friInst {
	f := &friInst{c: c, size: size, n: nextPow2(size)}
	f.N = 8 * f.n
	f.nbSteps = log2(f.n)
	f.iopp = reg.M(c.fri.New("IOPP"), "New", uint64(size), sha256.New())[0]
	d := reflect.ValueOf(c.fft.F("NewDomain", uint64(f.N))[0]).Elem()
	f.g = feltBig(d.FieldByName("Generator"))
	if !hasOrder(f.g, f.N, c.q) {
		panic("c17b: fft domain generator does not have order N")
	}
	return f
}

func (f *friInst) prove(p []*big.Int) (reflect.Value, error) {
	res := reg.M(f.iopp, "BuildProofOfProximity", f.c.elems(p).Interface())
	pp := reflect.New(f.c.fri.Types["ProofOfProximity"])
	pp.Elem().Set(reflect.ValueOf(res[0]))
	return pp, reg.Err(res)
}

func (f *friInst) verify(pp reflect.Value) error {
	return reg.Err(reg.M(f.iopp, "VerifyProofOfProximity", pp.Interface()))
}

func (f *friInst) open(p []*big.Int, pos uint64) (reflect.Value, error) {
	res := reg.M(f.iopp, "Open", f.c.elems(p).Interface(), pos)
	op := reflect.New(f.c.fri.Types["OpeningProof"])
	op.Elem().Set(reflect.ValueOf(res[0]))
	return op, reg.Err(res)
}

func (f *friInst) verifyOpening(pos uint64, op, pp reflect.Value) error {
	return reg.Err(reg.M(f.iopp, "VerifyOpening", pos, op.Interface(), pp.Interface()))
}

// sortedIndex maps a position of the evaluation vector to its index in the "sorted" vector
// [q(g^0), q(g^(N/2)), q(g^1), q(g^(1+N/2)), ...] whose Merkle tree is the commitment.
func sortedIndex(i, n int) int {
	if i < n/2 {
		return 2 * i
	}
	return 2*(i-n/2) + 1
}

// queryPositions: the query of step i+1 is the sorted index of the fold of the pair queried at step i.
func queryPositions(pos, N, nbSteps int) []int {
	res := make([]int, nbSteps)
	res[0] = pos
	s := N / 2
	for i := 1; i < nbSteps; i++ {
		res[i] = sortedIndex(res[i-1]/2, s)
		s /= 2
	}
	return res
}

func sortPairs(e []*big.Int) []*big.Int {
	n := len(e) / 2
	q := make([]*big.Int, len(e))
	for i := 0; i < n; i++ {
		q[2*i], q[2*i+1] = e[i], e[i+n]
	}
	return q
}

// friTranscript replays the verifier's Fiat-Shamir derivation from the prover messages of one round:
// folding challenges x_i (from the roots) and the query position (from the final evaluation).
func (f *friInst) friTranscript(roots [][]byte, evaluation *big.Int) (xi []*big.Int, pos int) {
	return f.friTranscriptHyp(roots, evaluation, -1, false, false)
}

// friTranscriptHyp: dropRoot >= 0 leaves root number dropRoot out of x_dropRoot, dropSalt leaves the salt
// out of x0, dropEval leaves the final evaluation out of s0.
func (f *friInst) friTranscriptHyp(roots [][]byte, evaluation *big.Int, dropRoot int, dropSalt, dropEval bool) (xi []*big.Int, pos int) {
	names := make([]string, f.nbSteps+1)
	for i := 0; i < f.nbSteps; i++ {
		names[i] = fmt.Sprintf("x%d", i)
	}
	names[f.nbSteps] = "s0"
	fs := fiatshamir.NewTranscript(sha256.New(), names...)
	if !dropSalt {
		must(fs.Bind(names[0], f.c.marshalFelt(new(big.Int)))) // salt of round 0
	}
	xi = make([]*big.Int, f.nbSteps)
	for i := 0; i < f.nbSteps; i++ {
		if i != dropRoot {
			must(fs.Bind(names[i], roots[i]))
		}
		b, err := fs.ComputeChallenge(names[i])
		must(err)
		xi[i] = new(big.Int).Mod(new(big.Int).SetBytes(b), f.c.q)
	}
	if !dropEval {
		must(fs.Bind(names[f.nbSteps], f.c.marshalFelt(evaluation)))
	}
	b, err := fs.ComputeChallenge(names[f.nbSteps])
	must(err)
	pos = int(new(big.Int).Mod(new(big.Int).SetBytes(b), big.NewInt(int64(f.N))).Int64())
	return
}

func must(err error) {
	if err != nil {
		panic(err)
	}
}

// ---- reference prover (written from the protocol description; math/big + sha256) -------------------

// friDeviation makes the reference prover cheat in exactly one place.
type friDeviation struct {
	step int      // 1..nbSteps-1: the function committed at that step is the correct fold plus delta; nbSteps: the final evaluation is shifted
	add  *big.Int // delta != 0
	// adaptive prover under the hypothesis that the query position does not depend on the final evaluation:
	// the positions are derived without binding it, then the announced evaluation is the value that the
	// single query will see
	evalAfterQuery bool
}

type friTrace struct {
	xi       []*big.Int
	si       []int
	final    []*big.Int // the 8 values of the fully folded function
	eval     *big.Int   // the evaluation sent
	l, r     []*big.Int // per step: the pair of leaves queried (sorted index 2k, 2k+1)
	ginvPow  []*big.Int // per step: (g^-2^i)^(si/2)
	treeSize []int
}

// refProve runs the prover on the function given by its N evaluations (natural order).
func (f *friInst) refProve(evals []*big.Int, dev *friDeviation) (reflect.Value, *friTrace) {
	q := f.c.q
	two := invm(big.NewInt(2), q)
	cur := sortPairs(evals)
	ginv := invm(f.g, q)
	type level struct {
		vals   []*big.Int
		leaves [][]byte
		tree   [][][]byte
	}
	levels := make([]level, f.nbSteps)
	roots := make([][]byte, f.nbSteps)
	tr := &friTrace{}
	// the challenges depend on the roots one by one: replay the transcript incrementally
	names := make([]string, f.nbSteps+1)
	for i := 0; i < f.nbSteps; i++ {
		names[i] = fmt.Sprintf("x%d", i)
	}
	names[f.nbSteps] = "s0"
	fs := fiatshamir.NewTranscript(sha256.New(), names...)
	must(fs.Bind(names[0], f.c.marshalFelt(new(big.Int))))
	var folded []*big.Int
	for i := 0; i < f.nbSteps; i++ {
		lv := level{vals: cur, leaves: make([][]byte, len(cur))}
		for k, v := range cur {
			lv.leaves[k] = f.c.marshalFelt(v)
		}
		lv.tree = merkleTree(lv.leaves)
		levels[i] = lv
		roots[i] = lv.tree[len(lv.tree)-1][0]
		must(fs.Bind(names[i], roots[i]))
		b, err := fs.ComputeChallenge(names[i])
		must(err)
		x := new(big.Int).Mod(new(big.Int).SetBytes(b), q)
		tr.xi = append(tr.xi, x)
		// fold: res[k] = ((a-b)*ginv^k*x + (a+b))/2 with (a,b) = (cur[2k], cur[2k+1])
		folded = make([]*big.Int, len(cur)/2)
		acc := big.NewInt(1)
		for k := range folded {
			a, b := cur[2*k], cur[2*k+1]
			v := addm(mulm(mulm(subm(a, b, q), acc, q), x, q), addm(a, b, q), q)
			folded[k] = mulm(v, two, q)
			acc = mulm(acc, ginv, q)
		}
		if dev != nil && dev.step == i+1 && dev.step < f.nbSteps {
			for k := range folded {
				folded[k] = addm(folded[k], dev.add, q)
			}
		}
		cur = sortPairs(folded)
		ginv = mulm(ginv, ginv, q)
	}
	tr.final = folded
	tr.eval = new(big.Int).Set(folded[0])
	if dev != nil && dev.step == f.nbSteps && dev.add != nil {
		tr.eval = addm(tr.eval, dev.add, q)
	}
	if dev == nil || !dev.evalAfterQuery {
		must(fs.Bind(names[f.nbSteps], f.c.marshalFelt(tr.eval)))
	}
	b, err := fs.ComputeChallenge(names[f.nbSteps])
	must(err)
	pos := int(new(big.Int).Mod(new(big.Int).SetBytes(b), big.NewInt(int64(f.N))).Int64())
	tr.si = queryPositions(pos, f.N, f.nbSteps)
	if dev != nil && dev.evalAfterQuery {
		tr.eval = new(big.Int).Set(folded[tr.si[f.nbSteps-1]/2])
	}

	// assemble fri.ProofOfProximity
	F := f.c.fri
	pp := reflect.New(F.Types["ProofOfProximity"])
	round := reflect.New(F.Types["Round"]).Elem()
	inter := reflect.MakeSlice(round.FieldByName("Interactions").Type(), f.nbSteps, f.nbSteps)
	gl := invm(f.g, q)
	for i := 0; i < f.nbSteps; i++ {
		lv := levels[i]
		s := tr.si[i]
		c := s % 2
		full := merkleOpen(lv.tree, lv.leaves, s)
		setMP := func(mp reflect.Value, root []byte, ps [][]byte, n int) {
			mp.FieldByName("MerkleRoot").SetBytes(append([]byte(nil), root...))
			mp.FieldByName("ProofSet").Set(reflect.ValueOf(ps))
			acc(mp.FieldByName("numLeaves")).SetUint(uint64(n))
		}
		setMP(inter.Index(i).Index(c), roots[i], full, len(lv.leaves))
		setMP(inter.Index(i).Index(1-c), roots[i], [][]byte{lv.leaves[s+1-2*c], shaLeaf(lv.leaves[s])}, len(lv.leaves))
		tr.l = append(tr.l, lv.vals[s-c])
		tr.r = append(tr.r, lv.vals[s-c+1])
		tr.ginvPow = append(tr.ginvPow, expm(gl, int64(s/2), q))
		tr.treeSize = append(tr.treeSize, len(lv.leaves))
		gl = mulm(gl, gl, q)
	}
	round.FieldByName("Interactions").Set(inter)
	round.FieldByName("Evaluation").Set(f.c.elem(tr.eval))
	rounds := reflect.MakeSlice(pp.Elem().FieldByName("Rounds").Type(), 1, 1)
	rounds.Index(0).Set(round)
	pp.Elem().FieldByName("Rounds").Set(rounds)
	return pp, tr
}

func (f *friInst) evaluations(p []*big.Int) []*big.Int {
	out := make([]*big.Int, f.N)
	x := big.NewInt(1)
	for i := range out {
		out[i] = polyEval(p, x, f.c.q)
		x = mulm(x, f.g, f.c.q)
	}
	return out
}

// ---- reading a proof of proximity ------------------------------------------------------------------

type friView struct {
	roots [][2][]byte
	sets  [][2][][]byte
	nl    [][2]uint64
	eval  *big.Int
}

func viewPP(pp reflect.Value) (v friView, ok bool) {
	rounds := pp.FieldByName("Rounds")
	if rounds.Len() < 1 {
		return v, false
	}
	r := rounds.Index(0)
	in := r.FieldByName("Interactions")
	for i := 0; i < in.Len(); i++ {
		var ro [2][]byte
		var se [2][][]byte
		var nl [2]uint64
		for j := 0; j < 2; j++ {
			mp := in.Index(i).Index(j)
			ro[j] = mp.FieldByName("MerkleRoot").Bytes()
			ps := mp.FieldByName("ProofSet")
			for k := 0; k < ps.Len(); k++ {
				se[j] = append(se[j], ps.Index(k).Bytes())
			}
			nl[j] = acc(mp.FieldByName("numLeaves")).Uint()
		}
		v.roots, v.sets, v.nl = append(v.roots, ro), append(v.sets, se), append(v.nl, nl)
	}
	v.eval = feltBig(r.FieldByName("Evaluation"))
	return v, true
}

// positions recomputes the query positions of an (honest-shaped) proof and validates them against the
// proof itself with the reference Merkle evaluation; ok=false if the model does not fit.
func (f *friInst) positions(v friView) (si []int, ok bool) {
	if len(v.roots) != f.nbSteps {
		return nil, false
	}
	roots := make([][]byte, f.nbSteps)
	for i := range roots {
		roots[i] = v.roots[i][0]
	}
	_, pos := f.friTranscript(roots, v.eval)
	si = queryPositions(pos, f.N, f.nbSteps)
	for i, s := range si {
		c := s % 2
		if !merklePathValid(v.roots[i][c], v.sets[i][c], uint64(s), v.nl[i][c]) {
			return nil, false
		}
	}
	return si, true
}

// asymmetricPath reports whether, along the honest evaluation of the audit path, the running hash
// never equals the sibling it is combined with. Otherwise (equal sub-trees, e.g. a constant
// polynomial) H(a||b) = H(b||a) and a path can evaluate to the same root under another tree shape;
// whether that counts as valid is a question about accumulator/merkletree (C16: VerifyProof accepts
// over-long paths), not about FRI, and is not decided here.
func asymmetricPath(path [][]byte, index, n uint64) bool {
	if len(path) == 0 {
		return false
	}
	r := shaLeaf(path[0])
	for k := 1; k < len(path); k++ {
		if bytes.Equal(r, path[k]) {
			return false
		}
		// the honest trees here are complete: level k combines according to bit k-1 of the index
		if (index>>(uint(k)-1))&1 == 1 {
			r = shaNode(path[k], r)
		} else {
			r = shaNode(r, path[k])
		}
	}
	return n&(n-1) == 0
}

func numLeavesVerdict(root []byte, path [][]byte, index, honestN, newN uint64) (expectation, string) {
	if merklePathValid(root, path, index, newN) {
		return expAccept, "numLeaves_path_still_valid_for_that_tree_shape"
	}
	if !asymmetricPath(path, index, honestN) {
		return expSkip, "numLeaves_with_equal_sibling_hashes(merkletree_question)"
	}
	return expReject, "numLeaves"
}

func neighbourPath(v friView, i, c int) [][]byte {
	if len(v.sets[i][1-c]) < 2 || len(v.sets[i][c]) < 2 {
		return nil
	}
	p := [][]byte{v.sets[i][1-c][0], v.sets[i][1-c][1]}
	return append(p, v.sets[i][c][2:]...)
}

// ---- the property -----------------------------------------------------------------------------------

func friSizes() []int {
	if rep.Thorough() {
		return []int{2, 3, 4, 5, 7, 8, 16, 17, 32, 64, 100, 128}
	}
	return []int{2, 3, 4, 5, 8, 16, 17, 32, 64}
}

func drawPoly(t *rapid.T, c *curve, size int, label string) ([]*big.Int, string) {
	k := rapid.IntRange(1, 4).Draw(t, label+"poolsize")
	pool := drawPool(t, c.spec, k, label+"pool")
	switch rapid.IntRange(0, 5).Draw(t, label+"polykind") {
	case 0:
		p := make([]*big.Int, size)
		for i := range p {
			p[i] = new(big.Int)
		}
		p[0] = pool[0]
		return p, "poly:constant"
	case 1:
		idx := rapid.SliceOfN(rapid.IntRange(0, k-1), size, size).Draw(t, label+"idx")
		p := make([]*big.Int, size)
		for i := range p {
			p[i] = pool[idx[i]]
		}
		return p, "poly:few_values"
	default:
		p := make([]*big.Int, size)
		for i := range p {
			p[i] = c.spec.Uniform(t, label+"coef")
		}
		return p, "poly:uniform"
	}
}

func friPPExpect(f *friInst) func(s site, kind string, orig, mut reflect.Value) (expectation, string) {
	return func(s site, kind string, orig, mut reflect.Value) (expectation, string) {
		switch {
		case s.path == "ID" || strings.HasPrefix(s.path, "ID"):
			return expSkip, "ID_is_metadata_not_consumed_by_the_verifier"
		case s.npath == "Rounds[*]" && s.kind == kStruct:
			return expSkip, "whole_round_of_another_honest_proof"
		case s.kind == kLen && kind == "extend" && (s.npath == "Rounds" || s.npath == "Rounds[*].Interactions"):
			return expSkip, "trailing_elements_never_read"
		}
		ov, ok1 := viewPP(orig)
		mv, ok2 := viewPP(mut)
		if !ok1 || !ok2 {
			return expReject, ""
		}
		si, ok := f.positions(ov)
		if !ok {
			return expSkip, "positions_unavailable"
		}
		// which interaction/side is touched
		var i, j int
		if n, _ := fmt.Sscanf(s.path, "Rounds[0].Interactions[%d][%d]", &i, &j); n == 2 && i < len(si) {
			c := si[i] % 2
			if s.kind == kLen && kind == "extend" && j != c && strings.HasSuffix(s.npath, ".ProofSet") {
				return expSkip, "trailing_elements_never_read"
			}
			if strings.HasSuffix(s.path, ".numLeaves") {
				// exact oracle: the touched Merkle verification with the new leaf count
				if j == c {
					return numLeavesVerdict(mv.roots[i][c], mv.sets[i][c], uint64(si[i]), ov.nl[i][c], mv.nl[i][c])
				}
				return numLeavesVerdict(mv.roots[i][1-c], neighbourPath(mv, i, c), uint64(si[i]+1-2*c), ov.nl[i][1-c], mv.nl[i][1-c])
			}
		}
		return expReject, ""
	}
}

func propFRI(t *rapid.T, c *curve) {
	test := "C17b_FRI/" + c.name
	size := rapid.SampledFrom(friSizes()).Draw(t, "size")
	f := c.newFri(size)
	p, pcls := drawPoly(t, c, size, "p")
	stmt := fmt.Sprintf("fri %s size=%d p=[%s]", c.name, size, hexs(p))
	scls := fmt.Sprintf("size=%d", size)

	// (1) completeness: proximity proof
	pp, err := f.prove(p)
	if err != nil {
		t.Fatalf("%s: BuildProofOfProximity failed: %v (%s)", test, err, clip(stmt))
	}
	if err := f.verify(pp.Elem()); err != nil {
		t.Fatalf("%s: honest proof of proximity rejected: %v (%s)", test, err, clip(stmt))
	}
	rep.Case(test, stmt, size == 2 || !isPow2(size), "fri", "honest", scls, pcls)

	view, _ := viewPP(pp.Elem())
	si, posOK := f.positions(view)
	if posOK {
		rep.Case(test, stmt+" positions", false, "fri", "positions_model_ok")
	} else {
		rep.Case(test, stmt+" positions", false, "fri", "positions_unavailable")
		// the documented transcript does not explain the proof: does a transcript with one message left out?
		if what := f.reducedTranscriptExplains(view); what != "" {
			accepted(t, "%s: CHALLENGE BINDING: the honest proof is consistent (query positions authenticated by the Merkle paths, every folding equation) with a transcript in which %s, and not with the documented one (%s)", test, what, clip(stmt))
		}
	}

	// (1) completeness: openings at drawn positions; the claimed value is p(g^pos) by the reference
	evals := f.evaluations(p)
	var op reflect.Value
	var opPos uint64
	for k := 0; k < 3; k++ {
		pos := uint64(rapid.OneOf(rapid.SampledFrom([]int{0, 1, f.N/2 - 1, f.N / 2, f.N - 1}), rapid.IntRange(0, f.N-1)).Draw(t, "pos"))
		o, err := f.open(p, pos)
		if err != nil {
			t.Fatalf("%s: Open(%d) failed: %v", test, pos, err)
		}
		if err := f.verifyOpening(pos, o.Elem(), pp.Elem()); err != nil {
			t.Fatalf("%s: honest opening at %d rejected: %v (%s)", test, pos, err, clip(stmt))
		}
		if got := feltBig(o.Elem().FieldByName("ClaimedValue")); got.Cmp(evals[pos]) != 0 {
			t.Fatalf("%s: opening at %d claims %s, reference p(g^%d)=%s", test, pos, got.Text(16), pos, evals[pos].Text(16))
		}
		rep.Case(test, fmt.Sprintf("%s open@%d", stmt, pos), pos == 0 || pos == uint64(f.N-1), "fri", "honest_opening", scls)
		op, opPos = o, pos
	}

	// out-of-range position: documented error
	if _, err := f.open(p, uint64(f.N)); err == nil {
		t.Fatalf("%s: Open at position N=%d (out of range) did not fail", test, f.N)
	}

	// another honest proof (same size, different polynomial) for the substitutions
	p2, _ := drawPoly(t, c, size, "p2")
	pp2, err := f.prove(p2)
	if err != nil {
		t.Fatalf("%s: BuildProofOfProximity failed: %v", test, err)
	}
	op2, err := f.open(p2, opPos)
	if err != nil {
		t.Fatal(err)
	}

	// (2) tampering with the proof of proximity
	env := c.mutEnv()
	sc := &scheme{name: "fri_proximity", test: test, env: env,
		verify: func(x reflect.Value) error { return f.verify(x) },
		expect: friPPExpect(f),
	}
	sc.tamperAll(t, pp, pp2, stmt, rep.Scale(48, 200))

	// (2) tampering with the opening
	sIdx := uint64(sortedIndex(int(opPos), f.N))
	so := &scheme{name: "fri_opening", test: test, env: env, tag: c.name,
		tagLabels: map[string]bool{"fri_opening|ClaimedValue:felt|plus1": true},
		verify: func(x reflect.Value) error { return f.verifyOpening(opPos, x, pp.Elem()) },
		expect: func(s site, kind string, orig, mut reflect.Value) (expectation, string) {
			switch {
			case s.path == "index":
				return expSkip, "index_field_not_consumed(verifier_recomputes_it_from_position)"
			case s.path == "numLeaves":
				var path [][]byte
				ps := mut.FieldByName("ProofSet")
				for k := 0; k < ps.Len(); k++ {
					path = append(path, ps.Index(k).Bytes())
				}
				return numLeavesVerdict(acc(mut.FieldByName("merkleRoot")).Bytes(), path, sIdx, acc(orig.FieldByName("numLeaves")).Uint(), acc(mut.FieldByName("numLeaves")).Uint())
			}
			return expReject, ""
		},
	}
	so.tamperAll(t, op, op2, fmt.Sprintf("%s open@%d", stmt, opPos), 0)

	// (2) the statement side of an opening: another position, another polynomial's proximity proof
	{
		var path [][]byte
		ps := op.Elem().FieldByName("ProofSet")
		for k := 0; k < ps.Len(); k++ {
			path = append(path, ps.Index(k).Bytes())
		}
		root := acc(op.Elem().FieldByName("merkleRoot")).Bytes()
		nl := acc(op.Elem().FieldByName("numLeaves")).Uint()
		for _, np := range []uint64{(opPos + 1) % uint64(f.N), (opPos + uint64(f.N)/2) % uint64(f.N), uint64(rapid.IntRange(0, f.N-1).Draw(t, "otherpos"))} {
			if np == opPos {
				continue
			}
			key := fmt.Sprintf("%s open@%d verified@%d", stmt, opPos, np)
			o := guard(func() error { return f.verifyOpening(np, op.Elem(), pp.Elem()) })
			// exact oracle: the same path is an audit path for the other index only if the reference says so
			// (e.g. constant polynomials: all leaves equal, and then the claimed value is right as well)
			valid := merklePathValid(root, path, uint64(sortedIndex(int(np), f.N)), nl) && evals[np].Cmp(evals[opPos]) == 0
			switch {
			case valid && !o.accepted:
				t.Fatalf("%s: opening valid for position %d as well (equal leaves) but rejected: %v", test, np, o)
			case valid:
				rep.Case(test, key, false, "fri_opening", "fri_opening|position|other", "still_valid:equal_leaves")
			case o.accepted:
				accepted(t, "%s: FORGERY ACCEPTED: opening of position %d verifies at position %d (%s)", test, opPos, np, clip(stmt))
			default:
				rep.Case(test, key, true, "fri_opening", "fri_opening|position|other", "forged", "rejected")
			}
		}
		if !bytes.Equal(view.roots[0][0], mustView(pp2).roots[0][0]) {
			o := guard(func() error { return f.verifyOpening(opPos, op.Elem(), pp2.Elem()) })
			if o.accepted {
				accepted(t, "%s: FORGERY ACCEPTED: opening verifies against the proximity proof of another polynomial", test)
			}
			rep.Case(test, stmt+" other-pp", true, "fri_opening", "fri_opening|proximity_proof|other", "forged", "rejected")
		}
	}

	// (3) reference prover: honest mode must be accepted (and reproduces the library's proof), then it
	// cheats in exactly one place
	// (4) challenge binding: adaptive provers (independent of the positions model)
	f.bindingX0(t, test, stmt, p, false)
	f.bindingX0(t, test, stmt, p, true)
	f.bindingS0(t, test, stmt, evals)

	if !posOK {
		return
	}
	_ = si
	rp, _ := f.refProve(evals, nil)
	if err := f.verify(rp.Elem()); err != nil {
		// the model of the protocol does not fit this library version: no targeted forgeries
		rep.Case(test, stmt+" refprover", false, "fri", "refprover_unavailable")
		return
	}
	identical := same(rp.Elem().FieldByName("Rounds"), pp.Elem().FieldByName("Rounds"))
	rep.Case(test, stmt+" refprover", false, "fri", "refprover_accepted", fmt.Sprintf("refprover_identical_to_library=%v", identical))

	delta := c.spec.Uniform(t, "delta")
	if delta.Sign() == 0 {
		delta.SetInt64(1)
	}
	for step := 1; step <= f.nbSteps; step++ {
		fp, _ := f.refProve(evals, &friDeviation{step: step, add: delta})
		o := guard(func() error { return f.verify(fp.Elem()) })
		cls := "fri_proximity|wrong_fold_committed_at_step"
		if step == f.nbSteps {
			cls = "fri_proximity|wrong_final_evaluation(consistent_queries)"
		}
		if o.accepted {
			accepted(t, "%s: FORGERY ACCEPTED: %s %d (+%s): every Merkle path is genuine, the fold into step %d is wrong (%s)", test, cls, step, delta.Text(16), step, clip(stmt))
		}
		if o.panicked != nil {
			t.Fatalf("%s: verifier panicked: %v", test, o.panicked)
		}
		rep.Case(test, fmt.Sprintf("%s dev step=%d delta=%s", stmt, step, delta.Text(16)), true, "fri_proximity", cls, cls+"@"+c.name, "forged", "rejected")
	}

	// (3) far-from-low-degree function: p + c*X^n is at distance >= 7/8 from every polynomial of degree < n.
	f.farFunction(t, test, stmt, p, evals)

}

// foldsHold re-evaluates every folding equation of a proof at the given challenges and positions.
func (f *friInst) foldsHold(v friView, xi []*big.Int, si []int) bool {
	q := f.c.q
	two := invm(big.NewInt(2), q)
	gl := invm(f.g, q)
	for i := 0; i < f.nbSteps; i++ {
		if len(v.sets[i][0]) == 0 || len(v.sets[i][1]) == 0 {
			return false
		}
		l, r := new(big.Int).SetBytes(v.sets[i][0][0]), new(big.Int).SetBytes(v.sets[i][1][0])
		w := expm(gl, int64(si[i]/2), q)
		fo := mulm(addm(mulm(mulm(subm(l, r, q), w, q), xi[i], q), addm(l, r, q), q), two, q)
		var want *big.Int
		if i+1 < f.nbSteps {
			nx := v.sets[i+1][si[i+1]%2]
			if len(nx) == 0 {
				return false
			}
			want = new(big.Int).Mod(new(big.Int).SetBytes(nx[0]), q)
		} else {
			want = v.eval
		}
		if fo.Cmp(want) != 0 {
			return false
		}
		gl = mulm(gl, gl, q)
	}
	return true
}

// reducedTranscriptExplains is consulted only when the documented transcript does NOT reproduce the
// query positions of an honest, accepted proof. It returns a description of the first transcript with
// one message left out that does (positions authenticated by the Merkle paths and all folding
// equations satisfied), or "". (Metamorphic form of the binding requirement for the challenges
// x_i, i >= 1, for which no adaptive forgery with a deterministic verdict exists: the function of step i
// is already determined by step i-1 when x_i becomes known.)
func (f *friInst) reducedTranscriptExplains(v friView) string {
	if len(v.roots) != f.nbSteps {
		return ""
	}
	roots := make([][]byte, f.nbSteps)
	for i := range roots {
		roots[i] = v.roots[i][0]
	}
	try := func(dropRoot int, dropSalt, dropEval bool) bool {
		xi, pos := f.friTranscriptHyp(roots, v.eval, dropRoot, dropSalt, dropEval)
		si := queryPositions(pos, f.N, f.nbSteps)
		for i, s := range si {
			c := s % 2
			if !merklePathValid(v.roots[i][c], v.sets[i][c], uint64(s), v.nl[i][c]) {
				return false
			}
		}
		return f.foldsHold(v, xi, si)
	}
	for i := 0; i < f.nbSteps; i++ {
		if try(i, false, false) {
			return fmt.Sprintf("x%d does not depend on the Merkle root of step %d", i, i)
		}
	}
	if try(-1, true, false) {
		return "x0 does not depend on the salt"
	}
	if try(-1, false, true) {
		return "the query position does not depend on the final evaluation"
	}
	return ""
}

// bindingX0: the library's own prover. x0' is derived before the function exists (from the salt only,
// or from nothing); the function is p + c*X^(n+1) - x0'*c*X^n: degree n+1 (relative distance >= 1-(n+1)/8n
// from the code) whose fold at x0' is the fold of p. If x0 really did not depend on the first Merkle
// root the library's prover would fold it to a low-degree function and its verifier would accept. The
// verdict a correct verifier must give is computed with the reference prover (documented transcript):
// accept iff the single query happens to see the announced evaluation.
func (f *friInst) bindingX0(t *rapid.T, test, stmt string, p []*big.Int, dropSalt bool) {
	c := f.c
	q := c.q
	label := map[bool]string{false: "dropped", true: "nothing_bound"}[dropSalt]
	xi, _ := f.friTranscriptHyp(make([][]byte, f.nbSteps), new(big.Int), 0, dropSalt, true)
	// only xi[0] is meaningful: it was derived before any root
	x0 := xi[0]
	coef := c.spec.Uniform(t, "bind_x0_coef")
	if coef.Sign() == 0 {
		coef.SetInt64(1)
	}
	far := make([]*big.Int, f.n+2)
	for i := range far {
		far[i] = new(big.Int)
		if i < len(p) {
			far[i].Set(p[i])
		}
	}
	far[f.n] = subm(far[f.n], mulm(x0, coef, q), q)
	far[f.n+1] = addm(far[f.n+1], coef, q)
	key := fmt.Sprintf("%s binding x0!<-root0 (%s) far=[%s]", stmt, label, hexs(far))
	cls := "binding|fri|x0!<-root0"
	pp, err := f.prove(far)
	if err != nil {
		rep.Case(test, key, true, "fri_proximity", cls, "binding:prover_refused")
		return
	}
	_, tr := f.refProve(f.evaluations(far), nil)
	lucky := tr.final[tr.si[f.nbSteps-1]/2].Cmp(tr.eval) == 0
	o := guard(func() error { return f.verify(pp.Elem()) })
	if o.panicked != nil {
		t.Fatalf("%s: verifier panicked: %v", test, o.panicked)
	}
	switch {
	case o.accepted && !lucky:
		accepted(t, "%s: FALSE STATEMENT ACCEPTED (challenge binding): the library's own prover and verifier accept a function of degree n+1 built from the folding challenge computed without the first Merkle root (%s): x0 does not depend on the commitment (%s)", test, label, clip(key))
	case !o.accepted && lucky:
		if survey {
			surveyHit("", "honest-run proof expected to pass its single query is rejected @ ")
			return
		}
		t.Fatalf("%s: honest-run proof whose single query sees the announced evaluation (documented transcript) is rejected: %v", test, o)
	case lucky:
		rep.Case(test, key, true, "fri_proximity", cls+"|accepted_by_the_single_query(by_design)")
		return
	}
	rep.Case(test, key, true, "fri_proximity", cls, "binding:"+label, "binding@"+c.name, cls+"@"+c.name, "forged", "rejected")
}

// bindingS0: reference prover for a far function under the hypothesis that the query position does not
// depend on the final evaluation: the position is derived first, the announced evaluation is the value
// the query will see. A correct verifier derives another position (from the evaluation) and rejects,
// unless the two positions coincide (probability 1/N: detected with the documented transcript and then
// not asserted).
func (f *friInst) bindingS0(t *rapid.T, test, stmt string, evals []*big.Int) {
	c := f.c
	q := c.q
	coef := c.spec.Uniform(t, "bind_s0_coef")
	if coef.Sign() == 0 {
		coef.SetInt64(1)
	}
	far := make([]*big.Int, f.N)
	x := big.NewInt(1)
	for i := range far {
		far[i] = addm(evals[i], mulm(coef, expm(x, int64(f.n), q), q), q)
		x = mulm(x, f.g, q)
	}
	key := fmt.Sprintf("%s binding s0!<-evaluation far=+%s*X^%d", stmt, coef.Text(16), f.n)
	cls := "binding|fri|s0!<-evaluation"
	fp, tr := f.refProve(far, &friDeviation{evalAfterQuery: true})
	// under the hypothesis every check of the verifier holds: the paths are genuine for tr.si and the last fold is the announced value
	v, _ := viewPP(fp.Elem())
	if !f.foldsHold(v, tr.xi, tr.si) {
		t.Fatalf("harness: adaptive proof does not satisfy the folding equations at the hypothesised positions")
	}
	if _, coincide := f.positions(v); coincide {
		rep.Case(test, key, false, "fri_proximity", cls+"|positions_coincide(not_asserted)")
		return
	}
	o := guard(func() error { return f.verify(fp.Elem()) })
	if o.accepted {
		accepted(t, "%s: FALSE STATEMENT ACCEPTED (challenge binding): proof for a far function whose announced evaluation was chosen after the query position: the position does not depend on the final evaluation (%s)", test, clip(key))
	}
	if o.panicked != nil {
		t.Fatalf("%s: verifier panicked: %v", test, o.panicked)
	}
	rep.Case(test, key, true, "fri_proximity", cls, "binding:dropped", "binding@"+c.name, cls+"@"+c.name, "forged", "rejected")
}

func mustView(pp reflect.Value) friView { v, _ := viewPP(pp.Elem()); return v }

// farFunction: honest run of the (reference) prover on a function that is provably far from the
// code. With one query the honest verifier accepts such a proof exactly when the queried value of
// the fully folded function happens to equal the announced evaluation (1/8 of the positions): the
// expected verdict is computed, not assumed. Then the F17 forgery: keep everything, replace the
// neighbour leaf of the last step by the value that satisfies the last folding equation and give
// that neighbour its own, recomputed Merkle root.
func (f *friInst) farFunction(t *rapid.T, test, stmt string, p, evals []*big.Int) {
	c := f.c
	q := c.q
	coef := c.spec.Uniform(t, "farcoef")
	if coef.Sign() == 0 {
		coef.SetInt64(1)
	}
	far := make([]*big.Int, f.N)
	x := big.NewInt(1)
	for i := range far {
		far[i] = addm(evals[i], mulm(coef, expm(x, int64(f.n), q), q), q)
		x = mulm(x, f.g, q)
	}
	key := fmt.Sprintf("%s far=+%s*X^%d", stmt, coef.Text(16), f.n)
	fp, tr := f.refProve(far, nil)
	last := f.nbSteps - 1
	queried := tr.final[tr.si[last]/2]
	o := guard(func() error { return f.verify(fp.Elem()) })
	if o.panicked != nil {
		t.Fatalf("%s: verifier panicked: %v", test, o.panicked)
	}
	lucky := queried.Cmp(tr.eval) == 0
	if lucky != o.accepted {
		t.Fatalf("%s: honest-run proof for a far function: the single query hits a value %s the announced evaluation, verifier says %v (%s)", test, map[bool]string{true: "equal to", false: "different from"}[lucky], o, clip(key))
	}
	if lucky {
		rep.Case(test, key, true, "fri_proximity", "far_function|accepted_by_the_single_query(by_design)")
		return
	}
	rep.Case(test, key, true, "fri_proximity", "far_function|honest_run_rejected", "far_function@"+c.name, "forged", "rejected")

	if tr.si[last]%2 != 0 {
		rep.Case(test, key+" F17", false, "fri_proximity", "F17_forgery|not_applicable(odd_last_query)")
		return
	}
	// solve ((l-r')*w*x + (l+r'))/2 = E for r'
	l, w, xl := tr.l[last], tr.ginvPow[last], tr.xi[last]
	wx := mulm(w, xl, q)
	den := subm(big.NewInt(1), wx, q)
	if den.Sign() == 0 {
		return
	}
	num := subm(mulm(big.NewInt(2), tr.eval, q), mulm(l, addm(big.NewInt(1), wx, q), q), q)
	r2 := mulm(num, invm(den, q), q)
	forged := deepCopy(fp)
	in := forged.Elem().FieldByName("Rounds").Index(0).FieldByName("Interactions").Index(last)
	fullPS := in.Index(0).FieldByName("ProofSet")
	nb := in.Index(1)
	leaf := c.marshalFelt(r2)
	path := [][]byte{leaf, nb.FieldByName("ProofSet").Index(1).Bytes()}
	for k := 2; k < fullPS.Len(); k++ {
		path = append(path, fullPS.Index(k).Bytes())
	}
	root, ok := merkleRootFromPath(path, uint64(tr.si[last]+1), uint64(tr.treeSize[last]))
	if !ok {
		t.Fatalf("harness: cannot evaluate the neighbour path")
	}
	nb.FieldByName("ProofSet").Index(0).SetBytes(leaf)
	nb.FieldByName("MerkleRoot").SetBytes(root)
	o = guard(func() error { return f.verify(forged.Elem()) })
	if o.accepted {
		accepted(t, "%s: FORGERY ACCEPTED (F17): proximity proof for a function at distance >= 7/8 from the code verifies: the neighbour leaf of the last step was replaced by the value solving the last folding equation and authenticated under its own Merkle root, which the verifier never compares with the committed root (%s)", test, clip(key))
	}
	if o.panicked != nil {
		t.Fatalf("%s: verifier panicked: %v", test, o.panicked)
	}
	rep.Case(test, key+" F17", true, "fri_proximity", "F17_forgery|neighbour_leaf_under_its_own_root", "F17_forgery@"+c.name, "forged", "rejected")
}

func TestC17b_FRI(t *testing.T) {
	forCurves(t, func(t *testing.T, c *curve) {
		rep.Note("C17b_FRI/"+c.name, "FRI here has one query round (nbRounds=1, rho=8): statistical soundness is not asserted; "+
			"asserted classes: any change inside a queried Merkle path/leaf/root, the final evaluation, a wrong fold committed at any step, "+
			"the opening's claimed value/root/path/position; numLeaves mutations are decided by a reference audit-path evaluation; "+
			"size 1 is excluded (the library derives no query for zero folding steps)")
		rapid.Check(t, func(t *rapid.T) { propFRI(t, c) })
	})
}
