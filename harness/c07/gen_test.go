package c07

// gen_test.go: library access by reflection, deterministic point pools, and the grammar-based
// generator of point byte strings (valid encodings + typed mutations).

import (
	"fmt"
	"math/big"
	"reflect"
	"sync"

	"pgregory.net/rapid"

	"verif/harness/internal/gen"
	"verif/harness/internal/ref"
	"verif/harness/internal/reg"
)

// ---- library access ---------------------------------------------------------------------------

func bytesOf(arr interface{}) []byte {
	rv := reflect.ValueOf(arr)
	if rv.Kind() == reflect.Slice {
		return append([]byte{}, rv.Bytes()...)
	}
	p := reflect.New(rv.Type())
	p.Elem().Set(rv)
	return append([]byte{}, p.Elem().Slice(0, rv.Len()).Bytes()...)
}

func libSetBytes(p interface{}, b []byte) (int, error) {
	r := reg.M(p, "SetBytes", b)
	return r[0].(int), reg.Err(r)
}

func libUnmarshal(p interface{}, b []byte) error { return reg.Err(reg.M(p, "Unmarshal", b)) }

func libBytes(p interface{}, raw bool) []byte {
	if raw {
		return bytesOf(reg.M(p, "RawBytes")[0])
	}
	return bytesOf(reg.M(p, "Bytes")[0])
}

// sameAsRef compares a library affine point with a reference point, exactly (canonical coordinates,
// infinity = (0,0)).
func (f *fmtG) sameAsRef(aff interface{}, p ref.Pt) bool {
	v := reg.Flatten(aff)
	n := len(v) / 2
	if p.Inf {
		for _, c := range v {
			if c.Sign() != 0 {
				return false
			}
		}
		return true
	}
	x, y := ref.Red(f.G.E.F, p.X), ref.Red(f.G.E.F, p.Y)
	for i := 0; i < n; i++ {
		if v[i].Cmp(x[i]) != 0 || v[n+i].Cmp(y[i]) != 0 {
			return false
		}
	}
	return true
}

// ---- pools --------------------------------------------------------------------------------------

type pool struct {
	sub   []ref.Pt // non-trivial points of the prime-order subgroup: [k]G by the reference
	subK  []string
	cof   []ref.Pt // curve points lifted from small abscissas (outside the subgroup on cofactor curves)
	tors  []ref.Pt // (x,0): points of order 2, when the curve has some over the coordinate field
	tors3 []ref.Pt // points of order 3 (a = 0 curves: x = 0 or x^3 = -4b), when rational
	nonsq []ref.V  // abscissas with a non-square right-hand side
}

var (
	poolMu    sync.Mutex
	poolCache = map[string]*pool{}
)

func smallVec(F ref.Fld, i int) ref.V {
	v := F.Zero()
	v[0] = big.NewInt(int64(i))
	for j := 1; j < len(v); j++ {
		v[j] = big.NewInt(int64((i * (j + 1)) % 4))
	}
	return v
}

func (f *fmtG) pool() *pool {
	poolMu.Lock()
	defer poolMu.Unlock()
	if p, ok := poolCache[f.Name]; ok {
		return p
	}
	E, F, r := f.G.E, f.G.E.F, f.G.R
	p := &pool{}
	one := big.NewInt(1)
	ks := []*big.Int{big.NewInt(1), big.NewInt(2), big.NewInt(3), big.NewInt(5),
		new(big.Int).Sub(r, one), new(big.Int).Sub(r, big.NewInt(2)),
		new(big.Int).Rsh(new(big.Int).Sub(r, one), 1), new(big.Int).Rsh(new(big.Int).Add(r, one), 1),
		new(big.Int).Add(new(big.Int).Lsh(one, 64), one),
		new(big.Int).Mod(new(big.Int).SetBytes([]byte("C07 fixed scalar: point and stream codecs round-trip")), r)}
	for _, k := range ks {
		p.sub = append(p.sub, E.Mul(k, f.G.Gen))
		p.subK = append(p.subK, k.Text(16))
	}
	for i := 0; i < 400 && (len(p.cof) < 6 || len(p.nonsq) < 4); i++ {
		x := smallVec(F, i)
		if pt, ok := E.LiftX(x); ok {
			if len(p.cof) < 6 && !F.IsZero(pt.Y) {
				p.cof = append(p.cof, pt)
			}
		} else if len(p.nonsq) < 4 {
			p.nonsq = append(p.nonsq, x)
		}
	}
	// points of order 2 on the curves with a = 0: x^3 = -b
	if F.IsZero(E.A) {
		if x := cubeRoot(F, F.Neg(E.B)); x != nil {
			pt := ref.Pt{X: x, Y: F.Zero()}
			if !E.OnCurve(pt) {
				panic("c07: cube root self-check failed")
			}
			p.tors = append(p.tors, pt)
		}
	}
	// points of order 3 on the curves with a = 0: the 3-division polynomial is 3x(x^3+4b)
	if F.IsZero(E.A) {
		four := F.Add(F.Add(F.One(), F.One()), F.Add(F.One(), F.One()))
		for _, x := range []ref.V{F.Zero(), cubeRoot(F, F.Neg(F.Mul(four, E.B)))} {
			if x == nil {
				continue
			}
			if pt, ok := E.LiftX(x); ok && !F.IsZero(pt.Y) {
				if !E.Mul(big.NewInt(3), pt).Inf {
					panic("c07: order-3 point self-check failed")
				}
				p.tors3 = append(p.tors3, pt, E.Neg(pt))
			}
		}
	}
	poolCache[f.Name] = p
	return p
}

func (f *fmtG) spec() gen.FieldSpec { return gen.FieldSpec{Q: f.P, NLimbs: f.FpB / 8, LimbBits: 64} }

// drawSub draws a subgroup point (possibly infinity when allowInf): a pool point, a sum or difference
// of two pool points, or (rarely) a fresh [k]G with k from the scalar lattice.
func (f *fmtG) drawSub(t *rapid.T, lab string, allowInf bool) (ref.Pt, string) {
	pl := f.pool()
	E := f.G.E
	switch rapid.IntRange(0, 15).Draw(t, lab+"how") {
	case 0:
		if allowInf {
			return ref.Pt{Inf: true}, "O"
		}
		fallthrough
	case 1, 2, 3, 4, 5:
		i := rapid.IntRange(0, len(pl.sub)-1).Draw(t, lab+"i")
		return pl.sub[i], "pool[" + pl.subK[i] + "]G"
	case 6:
		k, _ := gen.Int(t, f.G.R, f.G.R.BitLen()+3, lab+"k")
		p := E.Mul(k, f.G.Gen)
		if p.Inf && !allowInf {
			return pl.sub[0], "pool[1]G"
		}
		return p, "fresh[" + k.Text(16) + "]G"
	default:
		i := rapid.IntRange(0, len(pl.sub)-1).Draw(t, lab+"i")
		j := rapid.IntRange(0, len(pl.sub)-1).Draw(t, lab+"j")
		q := pl.sub[j]
		s := "+"
		if rapid.Bool().Draw(t, lab+"neg") {
			q, s = E.Neg(q), "-"
		}
		p := E.Add(pl.sub[i], q)
		if p.Inf && !allowInf {
			return pl.sub[i], "pool[" + pl.subK[i] + "]G"
		}
		return p, "[" + pl.subK[i] + s + pl.subK[j] + "]G"
	}
}

// ---- grammar of point byte strings ----------------------------------------------------------------

var bodyClasses = []string{"sub", "sub", "sub", "sub", "inf", "inf", "cof", "cof", "tors2", "tors2", "tors3", "tors3", "sub+tors3", "nonsq", "nonsq",
	"offcurve", "offcurve", "lattice", "lattice", "zero", "random"}

var coordClasses = []string{"=p", "p+1", ">p", "allones", "2^bits-1", "p-1", "0", "(p-1)/2", "(p+1)/2"}

// genPoint draws a byte string from the grammar: a body (x,y) of a typed class, an optional
// non-canonical/boundary override of one base-field sub-coordinate, an encoding mode, the natural
// flag or any flag-bit pattern, optional dirt in infinity encodings; or raw random bytes.
// forceMode: -1 free, 0 compressed, 1 raw.
func (f *fmtG) genPoint(t *rapid.T, lab string, forceMode int) ([]byte, []string) {
	pl := f.pool()
	E, F := f.G.E, f.G.E.F
	body := rapid.SampledFrom(bodyClasses).Draw(t, lab+"body")
	if body == "tors2" && len(pl.tors) == 0 {
		body = "cof"
	}
	if (body == "tors3" || body == "sub+tors3") && len(pl.tors3) == 0 {
		body = "cof"
	}
	if f.NoFlag && (body == "inf") {
		body = "zero"
	}
	raw := rapid.Bool().Draw(t, lab+"raw")
	if forceMode >= 0 {
		raw = forceMode == 1
	}
	if f.NoFlag {
		raw = true
	}
	cls := []string{"body:" + body}
	var x, y ref.V
	pickY := func() ref.V { return pl.sub[rapid.IntRange(0, len(pl.sub)-1).Draw(t, lab+"yy")].Y }
	switch body {
	case "sub":
		p, _ := f.drawSub(t, lab+"s", false)
		x, y = p.X, p.Y
	case "inf", "zero":
		x, y = F.Zero(), F.Zero()
	case "cof":
		p := pl.cof[rapid.IntRange(0, len(pl.cof)-1).Draw(t, lab+"c")]
		if rapid.Bool().Draw(t, lab+"cneg") {
			p = E.Neg(p)
		}
		x, y = p.X, p.Y
	case "tors2":
		p := pl.tors[rapid.IntRange(0, len(pl.tors)-1).Draw(t, lab+"t")]
		x, y = p.X, p.Y
	case "tors3":
		p := pl.tors3[rapid.IntRange(0, len(pl.tors3)-1).Draw(t, lab+"t")]
		x, y = p.X, p.Y
	case "sub+tors3":
		// order 3r: subgroup point + point of order 3
		p := E.Add(pl.sub[rapid.IntRange(0, len(pl.sub)-1).Draw(t, lab+"s3")], pl.tors3[rapid.IntRange(0, len(pl.tors3)-1).Draw(t, lab+"t")])
		x, y = p.X, p.Y
	case "nonsq":
		x, y = pl.nonsq[rapid.IntRange(0, len(pl.nonsq)-1).Draw(t, lab+"n")], pickY()
	case "offcurve":
		p, _ := f.drawSub(t, lab+"s", false)
		x, y = p.X, p.Y
		how := rapid.SampledFrom([]string{"y+1", "swap", "x+1", "y_of_other", "x=0", "y=0"}).Draw(t, lab+"off")
		cls = append(cls, "off:"+how)
		switch how {
		case "y+1":
			y = F.Add(y, F.One())
		case "swap":
			x, y = y, x
		case "x+1":
			x = F.Add(x, F.One())
		case "y_of_other":
			y = pickY()
		case "x=0":
			x = F.Zero()
		case "y=0":
			y = F.Zero()
		}
	case "lattice":
		x = make(ref.V, f.D)
		for i := range x {
			x[i], _ = f.spec().Elem(t, fmt.Sprintf("%sx%d", lab, i))
		}
		if yy := F.Sqrt(f.rhs(x)); yy != nil {
			y = yy
			if rapid.Bool().Draw(t, lab+"ysign") {
				y = F.Neg(y)
			}
			cls = append(cls, "lattice:on_curve")
		} else {
			y = pickY()
			cls = append(cls, "lattice:no_sqrt")
		}
	case "random":
		n := f.S
		if raw {
			n = 2 * f.S
		}
		b := rapid.SliceOfN(rapid.Byte(), n, n).Draw(t, lab+"rnd")
		if !f.NoFlag {
			pat := rapid.SampledFrom(f.patterns()).Draw(t, lab+"pat")
			b[0] = b[0]&^f.mask() | pat
			cls = append(cls, fmt.Sprintf("flag:%02x", pat))
		}
		return b, cls
	}
	x, y = append(ref.V{}, ref.Red(F, x)...), append(ref.V{}, ref.Red(F, y)...)
	// natural flag from the value before any coordinate override
	natural := byte(0)
	if !f.NoFlag {
		switch {
		case body == "inf" && !raw:
			natural = f.flagBits(kInf)
		case body == "inf" && raw && f.Three:
			natural = f.flagBits(kRawInf)
		case raw:
			natural = f.flagBits(kRaw)
		case f.lexLargest(y):
			natural = f.flagBits(kLarge)
		default:
			natural = f.flagBits(kSmall)
		}
	}
	// coordinate override
	if rapid.IntRange(0, 2).Draw(t, lab+"ovr") == 0 {
		nc := f.D
		if raw {
			nc = 2 * f.D
		}
		idx := rapid.IntRange(0, nc-1).Draw(t, lab+"ci")
		cc := rapid.SampledFrom(coordClasses).Draw(t, lab+"cc")
		one := big.NewInt(1)
		var val *big.Int
		switch cc {
		case "=p":
			val = new(big.Int).Set(f.P)
		case "p+1":
			val = new(big.Int).Add(f.P, one)
		case ">p":
			// p + delta with delta below 2^bitlen(p) - p so that the value keeps the bit length of p
			room := new(big.Int).Sub(new(big.Int).Lsh(one, uint(f.P.BitLen())), f.P)
			d := new(big.Int).SetBytes(rapid.SliceOfN(rapid.Byte(), f.FpB, f.FpB).Draw(t, lab+"cd"))
			val = new(big.Int).Add(f.P, d.Mod(d, room))
		case "allones":
			val = new(big.Int).Sub(new(big.Int).Lsh(one, uint(8*f.FpB)), one)
		case "2^bits-1":
			val = new(big.Int).Sub(new(big.Int).Lsh(one, uint(f.P.BitLen())), one)
		case "p-1":
			val = new(big.Int).Sub(f.P, one)
		case "0":
			val = new(big.Int)
		case "(p-1)/2":
			val = new(big.Int).Rsh(new(big.Int).Sub(f.P, one), 1)
		case "(p+1)/2":
			val = new(big.Int).Rsh(new(big.Int).Add(f.P, one), 1)
		}
		if idx < f.D {
			x[idx] = val
			cls = append(cls, "coord:x"+cc)
		} else {
			y[idx-f.D] = val
			cls = append(cls, "coord:y"+cc)
		}
	}
	n := f.S
	if raw {
		n = 2 * f.S
	}
	b := make([]byte, n)
	f.putCoord(b[:f.S], x)
	if raw {
		f.putCoord(b[f.S:], y)
		cls = append(cls, "mode:raw")
	} else {
		cls = append(cls, "mode:compressed")
	}
	if f.NoFlag {
		return b, cls
	}
	flag := natural
	if rapid.IntRange(0, 2).Draw(t, lab+"fo") == 0 {
		flag = rapid.SampledFrom(f.patterns()).Draw(t, lab+"pat")
		cls = append(cls, fmt.Sprintf("flag:%02x", flag))
	} else {
		cls = append(cls, "flag:natural_"+kindName[f.kind(natural)])
	}
	if body == "tors2" && !raw && rapid.Bool().Draw(t, lab+"y0l") {
		// y = 0 announced as the "largest" root: not what the encoder emits
		flag = f.flagBits(kLarge)
		cls = append(cls, "flag:y0_largest")
	}
	b[0] = b[0]&^f.mask() | flag
	// dirt in infinity encodings
	if k := f.kind(flag); (k == kInf || k == kRawInf) && rapid.IntRange(0, 2).Draw(t, lab+"dirt") != 0 {
		span := f.S
		if k == kRawInf {
			span = 2 * f.S
		}
		if span > len(b) {
			span = len(b)
		}
		var pos, bit int
		switch rapid.IntRange(0, 3).Draw(t, lab+"dp") {
		case 0: // lowest non-flag bit of the first byte
			pos, bit = 0, 0
		case 1: // highest non-flag bit of the first byte
			pos, bit = 0, 4
			if !f.Three {
				bit = 5
			}
		case 2:
			pos, bit = span-1, rapid.IntRange(0, 7).Draw(t, lab+"db")
		default:
			pos, bit = rapid.IntRange(1, span-1).Draw(t, lab+"dpos"), rapid.IntRange(0, 7).Draw(t, lab+"db")
		}
		b[pos] |= 1 << uint(bit)
		cls = append(cls, "dirty_padding")
	}
	return b, cls
}
