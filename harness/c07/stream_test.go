package c07

// stream_test.go: Encoder/Decoder of every curve package: mixed typed sequences on one stream,
// reference serialisation, grammar mutations at every nesting level, truncation, length prefixes,
// reader chunkings, NoSubgroupChecks.

import (
	"bytes"
	"encoding/binary"
	"fmt"
	"io"
	"math/big"
	"reflect"
	"runtime"
	"strings"
	"testing"
	"testing/iotest"

	"pgregory.net/rapid"

	"verif/harness/internal/gen"
	"verif/harness/internal/inst"
	"verif/harness/internal/ref"
	"verif/harness/internal/reg"
	"verif/harness/internal/rep"
)

const maxPrefix = 1 << 22 // resource guard, see DESIGN C07

// sctx is the per-curve stream context.
type sctx struct {
	curve  string
	pkg    *reg.Pkg
	frT    reflect.Type
	fpT    reflect.Type
	frVecT reflect.Type
	fpVecT reflect.Type
	frQ    *big.Int
	fpQ    *big.Int
	frB    int
	fpB    int
	full   bool // generated from marshal.go.tmpl: nested vectors, uint64 slices, named vectors, *[]G
	g      map[string]*fmtG
}

func newSctx(curve string) *sctx {
	c := inst.GetCurve(curve)
	s := &sctx{curve: curve, pkg: c.Pkg, full: curve != "stark-curve", g: map[string]*fmtG{}}
	fr, fp := inst.FieldByName(curve+"/fr"), inst.FieldByName(curve+"/fp")
	s.frT, s.fpT = reflect.TypeOf(fr.New().Native()).Elem(), reflect.TypeOf(fp.New().Native()).Elem()
	s.frVecT, s.fpVecT = reflect.TypeOf(fr.NewVec(0).Native()).Elem(), reflect.TypeOf(fp.NewVec(0).Native()).Elem()
	s.frQ, s.fpQ = c.R, c.P
	s.frB, s.fpB = (c.R.BitLen()+63)/64*8, (c.P.BitLen()+63)/64*8
	s.g["G1"] = getFmt(curve, "G1")
	if c.G2 != nil {
		s.g["G2"] = getFmt(curve, "G2")
	}
	return s
}

// ---- value trees ------------------------------------------------------------------------------

// node is a serialisable value: a leaf (fixed-size chunk) or a length-prefixed vector of nodes.
type node struct {
	kind  string // "u64", "fr", "fp", "pt:G1", "pt:G2", "vec"
	leaf  []byte
	kids  []*node
	lenOv int64 // >= 0: announced length overriding len(kids)
	u     uint64
	v     *big.Int
	pt    ref.Pt
	long  bool // vector of points longer than runtime.NumCPU()
}

func (n *node) write(w *bytes.Buffer) {
	if n.kind != "vec" {
		w.Write(n.leaf)
		return
	}
	var l [4]byte
	if n.lenOv >= 0 {
		binary.BigEndian.PutUint32(l[:], uint32(n.lenOv))
	} else {
		binary.BigEndian.PutUint32(l[:], uint32(len(n.kids)))
	}
	w.Write(l[:])
	for _, k := range n.kids {
		k.write(w)
	}
}

func beBytes(v *big.Int, n int) []byte {
	out := make([]byte, n)
	b := v.Bytes()
	if len(b) > n {
		b = b[len(b)-n:]
	}
	copy(out[n-len(b):], b)
	return out
}

// item is one Encode/Decode call.
type item struct {
	kind string // "u64","fr","fp","[]fr","[]fp","[][]fr","[][][]fr","[]u64","[][]u64","pt:G1","[]pt:G1",...
	root *node
	enc  string // encode-side variant: "", "named_vector", "ptr_to_slice"
	raw  bool   // encoding mode of this item (points)
	// mixedItems: a slice whose elements are individually raw or compressed; no Encoder produces it,
	// the bytes are assembled by the harness (the wire format is self-describing per item)
	mixedItems bool
}

// itemOpt selects the variants of a generated item.
type itemOpt struct {
	raw        bool
	mixedItems bool // point slices: draw the mode per element
	long       int  // point slices: this many elements (> NumCPU), cheap pool points
}

// longSizes: slice lengths around and above the number of workers of the parallel decoding phase.
func longSizes() []int {
	n := runtime.NumCPU()
	sz := []int{n + 1, 2*n + 1, 2*n + n/2, 6*n + 4}
	if rep.Thorough() {
		sz = append(sz, 3*n-1, 16*n+1, 1000)
	}
	return sz
}

// chunksOf mirrors the work split of the decoders' parallel phase (internal/parallel.Execute): NumCPU
// chunks of n/NumCPU items, the first n%NumCPU chunks one item longer; one item per chunk when n < NumCPU.
// It is used for class labels and to aim corruptions at every position of a chunk, not as an oracle.
func chunksOf(n int) [][2]int {
	tasks := runtime.NumCPU()
	if tasks == 1 || n == 0 {
		return [][2]int{{0, n}}
	}
	per := n / tasks
	if per < 1 {
		per, tasks = 1, n
	}
	extra := n - tasks*per
	var out [][2]int
	start := 0
	for i := 0; i < tasks; i++ {
		end := start + per
		if extra > 0 {
			end++
			extra--
		}
		out = append(out, [2]int{start, end})
		start = end
	}
	return out
}

func posInChunk(n, idx int) string {
	for _, c := range chunksOf(n) {
		if idx >= c[0] && idx < c[1] {
			switch {
			case c[1]-c[0] == 1:
				return "only"
			case idx == c[0]:
				return "first"
			case idx == c[1]-1:
				return "last"
			case idx == c[1]-2:
				return "last_but_one"
			}
			return "middle"
		}
	}
	return "none"
}

func (s *sctx) kinds(focus string) []string {
	ks := []string{"u64", "fr", "fp", "[]fr", "[]fr", "[]fp", "pt:" + focus, "pt:" + focus, "[]pt:" + focus, "[]pt:" + focus, "[]pt:" + focus}
	if s.full {
		ks = append(ks, "[][]fr", "[][]fr", "[][]fr", "[][][]fr", "[][][]fr", "[][][]fr", "[]u64", "[][]u64")
	}
	other := "G1"
	if focus == "G1" {
		other = "G2"
	}
	if s.g[other] != nil {
		ks = append(ks, "pt:"+other)
	}
	return ks
}

func (s *sctx) genFelt(t *rapid.T, lab, which string) *node {
	q, nb := s.frQ, s.frB
	if which == "fp" {
		q, nb = s.fpQ, s.fpB
	}
	v, _ := gen.FieldSpec{Q: q, NLimbs: nb / 8, LimbBits: 64}.Elem(t, lab)
	return &node{kind: which, v: v, leaf: beBytes(v, nb), lenOv: -1}
}

func (s *sctx) genVec(t *rapid.T, lab string, max int, mk func(i int) *node) *node {
	n := rapid.IntRange(0, max).Draw(t, lab+"n")
	v := &node{kind: "vec", lenOv: -1}
	for i := 0; i < n; i++ {
		v.kids = append(v.kids, mk(i))
	}
	return v
}

func (s *sctx) genPt(t *rapid.T, lab, grp string, raw bool) *node {
	f := s.g[grp]
	p, _ := f.drawSub(t, lab, true)
	return &node{kind: "pt:" + grp, pt: p, leaf: f.encode(p, raw), lenOv: -1}
}

// genPtCheap draws a pool point, its negation or infinity (no fresh scalar multiplication).
func (s *sctx) genPtCheap(t *rapid.T, lab, grp string, raw bool) *node {
	f := s.g[grp]
	pl := f.pool()
	i := rapid.IntRange(-1, 2*len(pl.sub)-1).Draw(t, lab)
	p := ref.Pt{Inf: true}
	if i >= len(pl.sub) {
		p = f.G.E.Neg(pl.sub[i-len(pl.sub)])
	} else if i >= 0 {
		p = pl.sub[i]
	}
	return &node{kind: "pt:" + grp, pt: p, leaf: f.encode(p, raw), lenOv: -1}
}

func (s *sctx) genItem(t *rapid.T, lab, kind string, raw bool) *item {
	return s.genItemOpt(t, lab, kind, itemOpt{raw: raw})
}

func (s *sctx) genItemOpt(t *rapid.T, lab, kind string, o itemOpt) *item {
	raw := o.raw
	it := &item{kind: kind, raw: raw}
	if strings.HasPrefix(kind, "[]pt:") && (o.mixedItems || o.long > 0) {
		grp := kind[5:]
		n := o.long
		if n == 0 {
			n = rapid.IntRange(2, 5).Draw(t, lab+"n")
		}
		v := &node{kind: "vec", lenOv: -1, long: o.long > 0}
		for i := 0; i < n; i++ {
			r := raw
			if o.mixedItems {
				r = rapid.Bool().Draw(t, fmt.Sprintf("%s.%draw", lab, i))
			}
			v.kids = append(v.kids, s.genPtCheap(t, fmt.Sprintf("%s.%d", lab, i), grp, r))
		}
		it.root, it.mixedItems = v, o.mixedItems
		return it
	}
	u64 := func(l string) *node {
		u := rapid.OneOf(rapid.Uint64(), rapid.SampledFrom([]uint64{0, 1, 1<<32 - 1, 1 << 32, 1<<63 - 1, 1 << 63, ^uint64(0)})).Draw(t, l)
		var b [8]byte
		binary.BigEndian.PutUint64(b[:], u)
		return &node{kind: "u64", u: u, leaf: b[:], lenOv: -1}
	}
	switch {
	case kind == "u64":
		it.root = u64(lab)
	case kind == "fr" || kind == "fp":
		it.root = s.genFelt(t, lab, kind)
	case kind == "[]fr" || kind == "[]fp":
		it.root = s.genVec(t, lab, 4, func(i int) *node { return s.genFelt(t, fmt.Sprintf("%s.%d", lab, i), kind[2:]) })
		if s.full && rapid.IntRange(0, 3).Draw(t, lab+"named") == 0 {
			it.enc = "named_vector"
		}
	case kind == "[][]fr":
		it.root = s.genVec(t, lab, 3, func(i int) *node {
			return s.genVec(t, fmt.Sprintf("%s.%d", lab, i), 3, func(j int) *node { return s.genFelt(t, fmt.Sprintf("%s.%d.%d", lab, i, j), "fr") })
		})
	case kind == "[][][]fr":
		it.root = s.genVec(t, lab, 3, func(i int) *node {
			return s.genVec(t, fmt.Sprintf("%s.%d", lab, i), 3, func(j int) *node {
				return s.genVec(t, fmt.Sprintf("%s.%d.%d", lab, i, j), 2, func(k int) *node {
					return s.genFelt(t, fmt.Sprintf("%s.%d.%d.%d", lab, i, j, k), "fr")
				})
			})
		})
	case kind == "[]u64":
		it.root = s.genVec(t, lab, 4, func(i int) *node { return u64(fmt.Sprintf("%s.%d", lab, i)) })
	case kind == "[][]u64":
		it.root = s.genVec(t, lab, 3, func(i int) *node {
			return s.genVec(t, fmt.Sprintf("%s.%d", lab, i), 3, func(j int) *node { return u64(fmt.Sprintf("%s.%d.%d", lab, i, j)) })
		})
	case strings.HasPrefix(kind, "pt:"):
		it.root = s.genPt(t, lab, kind[3:], raw)
	case strings.HasPrefix(kind, "[]pt:"):
		it.root = s.genVec(t, lab, 4, func(i int) *node { return s.genPt(t, fmt.Sprintf("%s.%d", lab, i), kind[5:], raw) })
		if s.full && rapid.IntRange(0, 3).Draw(t, lab+"ptr") == 0 {
			it.enc = "ptr_to_slice"
		}
	default:
		panic("kind " + kind)
	}
	return it
}

// ---- library values -----------------------------------------------------------------------------

func (s *sctx) leafType(kind string) reflect.Type {
	switch {
	case kind == "u64":
		return reflect.TypeOf(uint64(0))
	case kind == "fr":
		return s.frT
	case kind == "fp":
		return s.fpT
	case strings.HasPrefix(kind, "pt:"):
		return s.g[kind[3:]].G.AffType()
	}
	panic("leaf " + kind)
}

// goType returns the Go type of the value of an item kind.
func (s *sctx) goType(kind string) reflect.Type {
	d := 0
	for strings.HasPrefix(kind, "[]") {
		kind = kind[2:]
		d++
	}
	t := s.leafType(kind)
	for ; d > 0; d-- {
		t = reflect.SliceOf(t)
	}
	return t
}

// build fills dst (addressable, of the item's Go type) from the tree.
func (s *sctx) build(dst reflect.Value, n *node) {
	switch {
	case n.kind == "vec":
		sl := reflect.MakeSlice(dst.Type(), len(n.kids), len(n.kids))
		for i, k := range n.kids {
			s.build(sl.Index(i), k)
		}
		dst.Set(sl)
	case n.kind == "u64":
		dst.SetUint(n.u)
	case n.kind == "fr" || n.kind == "fp":
		reg.Unflatten(dst.Addr().Interface(), []*big.Int{n.v})
	default:
		f := s.g[n.kind[3:]]
		dst.Set(reflect.ValueOf(f.G.FromRef(n.pt)).Elem())
	}
}

// render gives the canonical text of a decoded library value.
func (s *sctx) render(v reflect.Value) string {
	switch v.Kind() {
	case reflect.Uint64:
		return fmt.Sprintf("%d", v.Uint())
	case reflect.Slice:
		var sb strings.Builder
		sb.WriteByte('[')
		for i := 0; i < v.Len(); i++ {
			if i > 0 {
				sb.WriteByte(' ')
			}
			sb.WriteString(s.render(v.Index(i)))
		}
		sb.WriteByte(']')
		return sb.String()
	}
	c := reflect.New(v.Type())
	c.Elem().Set(v)
	fl := reg.Flatten(c.Interface())
	if len(fl) == 1 {
		return fl[0].Text(16)
	}
	return renderPt(fl)
}

func renderPt(fl []*big.Int) string {
	zero := true
	for _, x := range fl {
		if x.Sign() != 0 {
			zero = false
		}
	}
	if zero {
		return "O"
	}
	h := len(fl) / 2
	return "(" + ref.String(fl[:h]) + ";" + ref.String(fl[h:]) + ")"
}

func renderRefPt(f *fmtG, p ref.Pt) string {
	if p.Inf {
		return "O"
	}
	return "(" + ref.String(ref.Red(f.G.E.F, p.X)) + ";" + ref.String(ref.Red(f.G.E.F, p.Y)) + ")"
}

// ---- the stream oracle ---------------------------------------------------------------------------

// parse is the reference parser of one item at b[off:]. ok=false: the format says the decoder must
// fail (why names the first reason).
func (s *sctx) parse(kind string, b []byte, off int, sub bool) (txt string, end int, ok bool, why string) {
	return s.parseX(kind, b, off, sub, nil, -1)
}

// pinRec records a point that the pinned parse accepted on behalf of a listed known finding.
type pinRec struct {
	idx    int // element index in the enclosing slice, -1 for a single point
	off, n int
	raw    bool
	kf     string
}

// parseX is parse; with pins != nil, points rejected for a reason that falls in a listed known finding
// are taken as accepted with exactly their pinned value (see fmtG.pinned) and recorded in *pins.
func (s *sctx) parseX(kind string, b []byte, off int, sub bool, pins *[]pinRec, idx int) (txt string, end int, ok bool, why string) {
	if strings.HasPrefix(kind, "[]") {
		if len(b)-off < 4 {
			return "", off, false, "truncated_prefix"
		}
		n := int(binary.BigEndian.Uint32(b[off:]))
		off += 4
		var sb strings.Builder
		sb.WriteByte('[')
		for i := 0; i < n; i++ {
			t, e, k, w := s.parseX(kind[2:], b, off, sub, pins, i)
			if !k {
				return "", e, false, w
			}
			if i > 0 {
				sb.WriteByte(' ')
			}
			sb.WriteString(t)
			off = e
		}
		sb.WriteByte(']')
		return sb.String(), off, true, ""
	}
	rest := b[off:]
	switch {
	case kind == "u64":
		if len(rest) < 8 {
			return "", off, false, "truncated_u64"
		}
		return fmt.Sprintf("%d", binary.BigEndian.Uint64(rest)), off + 8, true, ""
	case kind == "fr" || kind == "fp":
		q, nb := s.frQ, s.frB
		if kind == "fp" {
			q, nb = s.fpQ, s.fpB
		}
		if len(rest) < nb {
			return "", off, false, "truncated_element"
		}
		v := new(big.Int).SetBytes(rest[:nb])
		if v.Cmp(q) >= 0 {
			return "", off, false, "noncanonical_element"
		}
		return v.Text(16), off + nb, true, ""
	}
	f := s.g[kind[3:]]
	if len(rest) < f.S {
		return "", off, false, "truncated_point"
	}
	if f.kind(rest[0]) == kInvalid {
		return "", off, false, "pt:invalid_flag"
	}
	need := f.need(rest[0])
	if len(rest) < need {
		return "", off, false, "truncated_point"
	}
	v := f.decodeCached(rest[:need], sub)
	if !v.ok && pins != nil {
		if pv, kf := f.pinned(rest[:need], v, sub); kf != "" {
			*pins = append(*pins, pinRec{idx: idx, off: off, n: pv.n, raw: pv.raw, kf: kf})
			return renderRefPt(f, pv.pt), off + pv.n, true, "pt:" + pv.why
		}
	}
	if !v.ok {
		return "", off, false, "pt:" + v.why
	}
	return renderRefPt(f, v.pt), off + v.n, true, "pt:" + v.why
}

// ---- readers and writers --------------------------------------------------------------------------

type countW struct {
	w io.Writer
	n int64
}

func (c *countW) Write(p []byte) (int, error) { n, err := c.w.Write(p); c.n += int64(n); return n, err }

type countR struct {
	r io.Reader
	n int64
}

func (c *countR) Read(p []byte) (int, error) { n, err := c.r.Read(p); c.n += int64(n); return n, err }

// chunkR returns at most sizes[i] bytes on the i-th call (cycling).
type chunkR struct {
	b     []byte
	sizes []int
	i     int
}

func (c *chunkR) Read(p []byte) (int, error) {
	if len(c.b) == 0 {
		return 0, io.EOF
	}
	n := c.sizes[c.i%len(c.sizes)]
	c.i++
	if n > len(p) {
		n = len(p)
	}
	if n > len(c.b) {
		n = len(c.b)
	}
	copy(p, c.b[:n])
	c.b = c.b[n:]
	return n, nil
}

var readerKinds = []string{"whole", "whole", "onebyte", "chunks", "dataerr", "half"}

func drawReader(t *rapid.T, b []byte) (io.Reader, string) {
	k := rapid.SampledFrom(readerKinds).Draw(t, "reader")
	switch k {
	case "onebyte":
		return iotest.OneByteReader(bytes.NewReader(b)), k
	case "chunks":
		sz := rapid.SliceOfN(rapid.IntRange(1, 70), 1, 6).Draw(t, "chunks")
		return &chunkR{b: append([]byte{}, b...), sizes: sz}, k
	case "dataerr":
		return iotest.DataErrReader(bytes.NewReader(b)), k
	case "half":
		return iotest.HalfReader(bytes.NewReader(b)), k
	}
	return bytes.NewReader(b), k
}

// ---- mutations ------------------------------------------------------------------------------------

type leafRef struct {
	n                *node
	lastOfNonLastVec bool // last element of an inner vector that is followed by a sibling vector
	midOfPointSlice  bool
	depth            int
}

func collect(n *node, depth int, parentHasNext bool, out *[]leafRef, vecs *[]*node) {
	if n.kind != "vec" {
		return
	}
	*vecs = append(*vecs, n)
	for i, k := range n.kids {
		if k.kind == "vec" {
			collect(k, depth+1, i < len(n.kids)-1, out, vecs)
			continue
		}
		lr := leafRef{n: k, depth: depth}
		if depth > 0 && parentHasNext && i == len(n.kids)-1 {
			lr.lastOfNonLastVec = true
		}
		if strings.HasPrefix(k.kind, "pt:") && i > 0 && i < len(n.kids)-1 {
			lr.midOfPointSlice = true
		}
		*out = append(*out, lr)
	}
}

func nonCanonical(t *rapid.T, q *big.Int, nb int) ([]byte, string) {
	one := big.NewInt(1)
	switch rapid.IntRange(0, 3).Draw(t, "nc") {
	case 0:
		return beBytes(q, nb), "=q"
	case 1:
		return beBytes(new(big.Int).Add(q, one), nb), "q+1"
	case 2:
		return bytes.Repeat([]byte{0xff}, nb), "allones"
	default:
		room := new(big.Int).Sub(new(big.Int).Lsh(one, uint(8*nb)), q)
		d := new(big.Int).SetBytes(rapid.SliceOfN(rapid.Byte(), nb, nb).Draw(t, "ncd"))
		return beBytes(new(big.Int).Add(q, d.Mod(d, room)), nb), ">q"
	}
}

// mutate applies one typed mutation to the items (tree level) or to the bytes; returns the final bytes.
func (s *sctx) mutate(t *rapid.T, items []*item, cls *[]string) []byte {
	ser := func() []byte {
		var w bytes.Buffer
		for _, it := range items {
			it.root.write(&w)
		}
		return w.Bytes()
	}
	var leaves []leafRef
	var vecs []*node
	for _, it := range items {
		if it.root.kind == "vec" {
			collect(it.root, 0, false, &leaves, &vecs)
		} else {
			leaves = append(leaves, leafRef{n: it.root, depth: -1})
		}
	}
	pick := func(pred func(l leafRef) bool) *leafRef {
		var c []int
		for i, l := range leaves {
			if pred(l) {
				c = append(c, i)
			}
		}
		if len(c) == 0 {
			return nil
		}
		return &leaves[c[rapid.IntRange(0, len(c)-1).Draw(t, "leaf")]]
	}
	isFelt := func(l leafRef) bool { return l.n.kind == "fr" || l.n.kind == "fp" }
	isPt := func(l leafRef) bool { return strings.HasPrefix(l.n.kind, "pt:") }
	m := rapid.SampledFrom([]string{"none", "none", "none", "truncate", "truncate", "felt", "felt", "felt_aligned", "felt_aligned",
		"point", "point", "point", "point_mid", "point_y0", "point_long", "point_long", "prefix", "prefix", "bitflip", "insert"}).Draw(t, "mut")
	if forceLong := hasLong(vecs); forceLong && m != "none" && m != "truncate" && rapid.IntRange(0, 2).Draw(t, "aimlong") != 0 {
		m = "point_long"
	}
	if m == "point_long" {
		// a bad item at a chosen position of a worker chunk of a slice longer than NumCPU
		var lv []*node
		for _, v := range vecs {
			if v.long && len(v.kids) > 0 {
				lv = append(lv, v)
			}
		}
		if len(lv) == 0 {
			m = "point"
		} else {
			v := lv[rapid.IntRange(0, len(lv)-1).Draw(t, "longvec")]
			ch := chunksOf(len(v.kids))
			c := ch[rapid.IntRange(0, len(ch)-1).Draw(t, "chunk")]
			idx := c[0]
			switch rapid.SampledFrom([]string{"first", "middle", "last_but_one", "last"}).Draw(t, "chunkpos") {
			case "middle":
				idx = c[0] + (c[1]-c[0])/2
			case "last_but_one":
				if c[1]-c[0] >= 2 {
					idx = c[1] - 2
				}
			case "last":
				idx = c[1] - 1
			}
			l := v.kids[idx]
			f := s.g[l.kind[3:]]
			pl := f.pool()
			how := rapid.SampledFrom([]string{"nosqrt", "nosqrt", "cof_compressed", "cof_compressed", "cof_raw", "offcurve_raw", "grammar"}).Draw(t, "badhow")
			switch how {
			case "nosqrt":
				b := make([]byte, f.S)
				f.putCoord(b, pl.nonsq[rapid.IntRange(0, len(pl.nonsq)-1).Draw(t, "ns")])
				b[0] |= f.flagBits(rapid.SampledFrom([]int{kSmall, kLarge}).Draw(t, "nsflag"))
				l.leaf = b
			case "cof_compressed", "cof_raw":
				p := pl.cof[rapid.IntRange(0, len(pl.cof)-1).Draw(t, "cof")]
				l.leaf = f.encode(p, how == "cof_raw")
			case "offcurve_raw":
				p := pl.sub[rapid.IntRange(0, len(pl.sub)-1).Draw(t, "oc")]
				l.leaf = f.encode(ref.Pt{X: p.X, Y: f.G.E.F.Add(p.Y, f.G.E.F.One())}, true)
			default:
				var pc []string
				l.leaf, pc = f.genPoint(t, "mp", -1)
				for _, c := range pc {
					*cls = append(*cls, "mp:"+c)
				}
			}
			*cls = append(*cls, "mut:point_long", "mut:point_long_"+how, "bad_item_pos_in_chunk:"+posInChunk(len(v.kids), idx))
			return ser()
		}
	}
	if m == "point_y0" {
		// a point of order 2 (y = 0) in place of a point: raw, or compressed with either flag
		l := pick(func(l leafRef) bool { return isPt(l) && len(s.g[l.n.kind[3:]].pool().tors) > 0 })
		if l == nil {
			m = "point"
		} else {
			f := s.g[l.n.kind[3:]]
			p := f.pool().tors[0]
			switch rapid.IntRange(0, 2).Draw(t, "y0") {
			case 0:
				l.n.leaf = f.encode(p, true)
				*cls = append(*cls, "mut:point_y0_raw")
			case 1:
				l.n.leaf = f.encode(p, false)
				*cls = append(*cls, "mut:point_y0_smallest")
			default:
				l.n.leaf = f.encode(p, false)
				l.n.leaf[0] = l.n.leaf[0]&^f.mask() | f.flagBits(kLarge)
				*cls = append(*cls, "mut:point_y0_largest")
			}
			return ser()
		}
	}
	switch m {
	case "truncate":
		b := ser()
		if len(b) == 0 {
			break
		}
		o := rapid.IntRange(0, len(b)-1).Draw(t, "cut")
		*cls = append(*cls, "mut:truncate")
		return b[:o]
	case "felt", "felt_aligned":
		var l *leafRef
		if m == "felt_aligned" {
			l = pick(func(l leafRef) bool { return isFelt(l) && l.lastOfNonLastVec })
		}
		if l == nil {
			l = pick(isFelt)
		}
		if l == nil {
			break
		}
		q, nb := s.frQ, s.frB
		if l.n.kind == "fp" {
			q, nb = s.fpQ, s.fpB
		}
		var c string
		l.n.leaf, c = nonCanonical(t, q, nb)
		*cls = append(*cls, "mut:felt_"+c, fmt.Sprintf("mut:felt_depth%d", l.depth))
		if l.lastOfNonLastVec {
			*cls = append(*cls, "mut:felt_last_of_nonlast_inner")
		}
	case "point", "point_mid":
		var l *leafRef
		if m == "point_mid" {
			l = pick(func(l leafRef) bool { return isPt(l) && l.midOfPointSlice })
		}
		if l == nil {
			l = pick(isPt)
		}
		if l == nil {
			break
		}
		f := s.g[l.n.kind[3:]]
		var pc []string
		l.n.leaf, pc = f.genPoint(t, "mp", -1)
		*cls = append(*cls, "mut:point")
		for _, c := range pc {
			*cls = append(*cls, "mp:"+c)
		}
		if l.midOfPointSlice {
			*cls = append(*cls, "mut:point_mid_of_slice")
		} else if l.depth == 0 {
			*cls = append(*cls, "mut:point_in_slice")
		}
	case "prefix":
		if len(vecs) == 0 {
			break
		}
		v := vecs[rapid.IntRange(0, len(vecs)-1).Draw(t, "vec")]
		n := int64(len(v.kids))
		how := rapid.SampledFrom([]string{"+1", "+1", "-1", "-1", "huge", "zero"}).Draw(t, "pfx")
		switch how {
		case "+1":
			v.lenOv = n + 1
		case "-1":
			if n == 0 {
				v.lenOv = 1
			} else {
				v.lenOv = n - 1
			}
		case "zero":
			v.lenOv = 0
		case "huge":
			v.lenOv = rapid.SampledFrom([]int64{n + 1000, 1 << 16, 1 << 16, 1 << 20, maxPrefix}).Draw(t, "huge")
		}
		*cls = append(*cls, "mut:prefix_"+how)
	case "bitflip":
		b := ser()
		if len(b) == 0 {
			break
		}
		// never raise a length prefix above the resource guard: flips are confined to bits that keep
		// every possible prefix interpretation small only if the byte is not a leading prefix byte;
		// the oracle parse below decides, and oversize announcements are filtered by guard().
		o := rapid.IntRange(0, len(b)-1).Draw(t, "pos")
		b[o] ^= 1 << uint(rapid.IntRange(0, 7).Draw(t, "bit"))
		*cls = append(*cls, "mut:bitflip")
		return b
	case "insert":
		b := ser()
		o := rapid.IntRange(0, len(b)).Draw(t, "pos")
		x := rapid.Byte().Draw(t, "ins")
		b = append(b[:o:o], append([]byte{x}, b[o:]...)...)
		*cls = append(*cls, "mut:insert_byte")
		return b
	}
	if m == "none" {
		*cls = append(*cls, "mut:none")
	}
	return ser()
}

func hasLong(vecs []*node) bool {
	for _, v := range vecs {
		if v.long {
			return true
		}
	}
	return false
}

// guard scans the type script over the bytes like the decoders do and reports whether any length
// prefix that a decoder would read announces more than maxPrefix elements (such streams are not fed
// to the library: the outcome would depend on the allocator).
func (s *sctx) guard(kind string, b []byte, off int) (end int, over bool, ok bool) {
	if strings.HasPrefix(kind, "[]") {
		if len(b)-off < 4 {
			return off, false, false
		}
		n := int(binary.BigEndian.Uint32(b[off:]))
		if n > maxPrefix {
			return off, true, false
		}
		off += 4
		for i := 0; i < n; i++ {
			e, ov, k := s.guard(kind[2:], b, off)
			if ov {
				return e, true, false
			}
			if !k {
				return e, false, false
			}
			off = e
		}
		return off, false, true
	}
	// leaves: only the size matters here (a scan past an invalid leaf is a harmless over-approximation)
	rest := b[off:]
	var sz int
	switch {
	case kind == "u64":
		sz = 8
	case kind == "fr":
		sz = s.frB
	case kind == "fp":
		sz = s.fpB
	default:
		f := s.g[kind[3:]]
		if len(rest) < f.S {
			return off, false, false
		}
		sz = f.need(rest[0])
	}
	if len(rest) < sz {
		return off, false, false
	}
	return off + sz, false, true
}

// ---- the property ----------------------------------------------------------------------------------

func (s *sctx) newEncoder(w io.Writer, raw bool) interface{} {
	if raw {
		return s.pkg.F("NewEncoder", w, s.pkg.F("RawEncoding")[0])[0]
	}
	return s.pkg.F("NewEncoder", w)[0]
}

func (s *sctx) newDecoder(r io.Reader, nosub bool) interface{} {
	if nosub {
		return s.pkg.F("NewDecoder", r, s.pkg.F("NoSubgroupChecks")[0])[0]
	}
	return s.pkg.F("NewDecoder", r)[0]
}

func propStream(t *rapid.T, s *sctx, focus string) {
	test := "C07_Stream/" + s.curve + "/" + focus
	raw := rapid.Bool().Draw(t, "rawenc")
	nosub := rapid.IntRange(0, 2).Draw(t, "nosub") == 0
	// scenario: "pt_slices" = several point slices in independently drawn encodings decoded by ONE decoder;
	// "long_slice" = a point slice longer than NumCPU (parallel phase handles several items per worker)
	scenario := rapid.SampledFrom([]string{"mixed", "mixed", "mixed", "mixed", "mixed", "mixed", "mixed", "pt_slices", "pt_slices", "long_slice"}).Draw(t, "scenario")
	perItemMode := scenario == "pt_slices" || rapid.IntRange(0, 3).Draw(t, "peritem") == 0
	k := rapid.IntRange(1, 5).Draw(t, "k")
	if scenario == "pt_slices" {
		k = rapid.IntRange(2, 4).Draw(t, "k2")
	}
	kinds := s.kinds(focus)
	items := make([]*item, k)
	cls := []string{}
	var script []string
	longAt := -1
	if scenario == "long_slice" {
		longAt = rapid.IntRange(0, k-1).Draw(t, "longat")
	}
	for i := range items {
		kd := rapid.SampledFrom(kinds).Draw(t, fmt.Sprintf("kind%d", i))
		o := itemOpt{raw: raw}
		if perItemMode {
			o.raw = rapid.Bool().Draw(t, fmt.Sprintf("raw%d", i))
		}
		if scenario == "pt_slices" {
			kd = "[]pt:" + focus
			if s.g["G2"] != nil && rapid.IntRange(0, 3).Draw(t, fmt.Sprintf("grp%d", i)) == 0 {
				kd = "[]pt:G1"
				if focus == "G1" {
					kd = "[]pt:G2"
				}
			}
		}
		if i == longAt {
			kd = "[]pt:" + focus
			o.long = rapid.SampledFrom(longSizes()).Draw(t, "longn")
		}
		if strings.HasPrefix(kd, "[]pt:") && rapid.IntRange(0, 5).Draw(t, fmt.Sprintf("mixeditems%d", i)) == 0 {
			o.mixedItems = true
		}
		items[i] = s.genItemOpt(t, fmt.Sprintf("i%d", i), kd, o)
		script = append(script, kd)
		cls = append(cls, "type:"+strings.TrimSuffix(strings.TrimSuffix(kd, ":G1"), ":G2"))
		if items[i].root.long {
			cls = append(cls, "slice_len>NumCPU", fmt.Sprintf("slice_len:%d", len(items[i].root.kids)))
		}
		if items[i].mixedItems {
			nr := 0
			for _, kid := range items[i].root.kids {
				if len(kid.leaf) == 2*s.g[kd[5:]].S {
					nr++
				}
			}
			if nr > 0 && nr < len(items[i].root.kids) {
				cls = append(cls, "slice:mixed_item_encodings")
			}
		}
	}
	// a stream holds mixed encodings when point-bearing items of both modes occur
	var sawRaw, sawComp bool
	for _, it := range items {
		if strings.Contains(it.kind, "pt:") && !it.mixedItems {
			if it.raw {
				sawRaw = true
			} else {
				sawComp = true
			}
		}
		if it.raw {
			cls = append(cls, "enc:raw")
		} else {
			cls = append(cls, "enc:compressed")
		}
	}
	if sawRaw && sawComp {
		cls = append(cls, "stream:mixed_encodings")
	}
	if nosub {
		cls = append(cls, "opt:NoSubgroupChecks")
	}

	// (1) encode with the library: a compressed and a RawEncoding Encoder append to the same writer (the
	// concatenation is a legal stream, every item describes its own mode); compare with the reference
	// serialisation and each Encoder's byte counter with what it produced
	var want bytes.Buffer
	for _, it := range items {
		it.root.write(&want)
	}
	var got bytes.Buffer
	cw := &countW{w: &got}
	encs := map[bool]interface{}{false: s.newEncoder(cw, false), true: s.newEncoder(cw, true)}
	encN := map[bool]int64{}
	for i, it := range items {
		if it.mixedItems {
			it.root.write(&got) // assembled by hand, not through an Encoder
			cw.n = int64(got.Len())
			continue
		}
		arg := s.encArg(it)
		if it.enc != "" {
			cls = append(cls, "encvariant:"+it.enc)
		}
		before := cw.n
		enc := encs[it.raw]
		if err := reg.Err(reg.M(enc, "Encode", arg)); err != nil {
			t.Fatalf("%s: Encode(item %d, %s) failed: %v", s.curve, i, it.kind, err)
		}
		encN[it.raw] += cw.n - before
		bw := reg.M(enc, "BytesWritten")[0].(int64)
		if bw != encN[it.raw] || cw.n != int64(got.Len()) {
			t.Fatalf("%s: after Encode(item %d, %s, raw=%v): BytesWritten=%d, this encoder produced %d bytes", s.curve, i, it.kind, it.raw, bw, encN[it.raw])
		}
	}
	if !bytes.Equal(got.Bytes(), want.Bytes()) {
		t.Fatalf("%s: Encoder output differs from the format (script %v):\n got  %x\n want %x", s.curve, script, got.Bytes(), want.Bytes())
	}

	// (2) mutate, then decode with the same type script
	b := s.mutate(t, items, &cls)
	off := 0
	for _, kd := range script {
		e, over, ok := s.guard(kd, b, off)
		if over {
			rep.Case(test, fmt.Sprintf("%s %v %x", s.curve, script, b), false, "skipped:prefix_above_guard")
			return
		}
		if !ok {
			break
		}
		off = e
	}
	rd, rk := drawReader(t, b)
	cls = append(cls, "reader:"+rk)
	key := fmt.Sprintf("%s raw=%v nosub=%v %v %s %x", s.curve, raw, nosub, script, rk, b)
	// destination of each Decode: 0 fresh; 1 a used slice of exactly the announced length; 2 a used, LONGER slice;
	// 3 a used, shorter one (a Decoder variable reused across messages of different sizes)
	presize := make([]int, len(script))
	for i := range presize {
		if rapid.IntRange(0, 2).Draw(t, fmt.Sprintf("presize%d", i)) == 0 {
			presize[i] = rapid.IntRange(1, 3).Draw(t, fmt.Sprintf("presizemode%d", i))
		}
	}
	s.checkDecode(t, test, script, b, nosub, rd, rk, presize, &cls)
	nontrivial := true // every stream here has a slice/nested value, a mutation, a short-read reader or an option, or is a mixed sequence
	if k == 1 && !strings.HasPrefix(script[0], "[]") && rk == "whole" && !nosub && contains(cls, "mut:none") {
		nontrivial = false
	}
	rep.Case(test, key, nontrivial, cls...)
}

// checkDecode decodes b with the type script and compares every call with the reference parser:
// error iff the format says so, equal values, BytesRead = bytes the reader delivered (= end offset of
// the item on success). An item the format rejects only because of points in a listed known finding
// (F5, F41) may either fail (correct) or decode to exactly the pinned value with exact counters and
// re-encoding; decoding then continues behind it.
func (s *sctx) checkDecode(t fataler, test string, script []string, b []byte, nosub bool, rd io.Reader, rk string, presize []int, cls *[]string) {
	off := 0
	cr := &countR{r: rd}
	dec := s.newDecoder(cr, nosub)
	off = 0
	failedAt := -1
	for i, kd := range script {
		txt, end, ok, why := s.parse(kd, b, off, !nosub)
		var pins []pinRec
		pinnedOK := false
		ptxt, pend := "", 0
		if !ok && knownClass(s.g, kd, why, !nosub) != "" {
			var pk bool
			ptxt, pend, pk, _ = s.parseX(kd, b, off, !nosub, &pins, -1)
			pinnedOK = pk && len(pins) > 0
		}
		dst := reflect.New(s.goType(kd))
		if presize != nil && presize[i] != 0 && dst.Elem().Kind() == reflect.Slice && ok {
			// decode into an existing slice (of the announced length, longer, or shorter) holding other data;
			// nested slices hold used inner slices too
			n := int(binary.BigEndian.Uint32(b[off:]))
			switch presize[i] {
			case 2:
				n += 1 + n%3
			case 3:
				n -= 1 + n%2
				if n < 0 {
					n = 0
				}
			}
			dst.Elem().Set(usedSlice(dst.Elem().Type(), n))
			poison(dst.Elem())
			*cls = append(*cls, "dst:presized", []string{"", "dst:presized_exact", "dst:presized_longer", "dst:presized_shorter"}[presize[i]])
		}
		err := reg.Err(reg.M(dec, "Decode", dst.Interface()))
		br := reg.M(dec, "BytesRead")[0].(int64)
		if ok {
			if err != nil {
				t.Fatalf("%s: Decode(item %d, %s) failed: %v; the format accepts it (%s)\n stream %x offset %d nosub=%v", s.curve, i, kd, err, why, b, off, nosub)
			}
			if g := s.render(dst.Elem()); g != txt {
				t.Fatalf("%s: Decode(item %d, %s) value differs from the reference\n got  %s\n want %s\n stream %x offset %d", s.curve, i, kd, g, txt, b, off)
			}
			if br != int64(end) || cr.n != int64(end) {
				t.Fatalf("%s: after Decode(item %d, %s): BytesRead=%d, reader delivered %d, format says %d\n stream %x", s.curve, i, kd, br, cr.n, end, b)
			}
			if why != "" {
				*cls = append(*cls, "dec:"+why)
			}
			off = end
			continue
		}
		if err == nil && pinnedOK {
			// tolerated deviation of a listed known finding: exactly the pinned value, nothing else
			if g := s.render(dst.Elem()); g != ptxt {
				t.Fatalf("%s: Decode(item %d, %s) accepted a string of known-finding class %s but the value is not the pinned one\n got  %s\n want %s\n stream %x offset %d", s.curve, i, kd, pins[0].kf, g, ptxt, b, off)
			}
			if br != int64(pend) || cr.n != int64(pend) {
				t.Fatalf("%s: after Decode(item %d, %s) [known-finding class %s]: BytesRead=%d, reader delivered %d, format says %d\n stream %x", s.curve, i, kd, pins[0].kf, br, cr.n, pend, b)
			}
			for _, pr := range pins {
				el := dst.Interface()
				if pr.idx >= 0 {
					el = dst.Elem().Index(pr.idx).Addr().Interface()
				}
				if re := libBytes(el, pr.raw); !bytes.Equal(re, b[pr.off:pr.off+pr.n]) {
					t.Fatalf("%s: Decode(item %d, %s) [known-finding class %s]: element re-encodes to %x, input was %x", s.curve, i, kd, pr.kf, re, b[pr.off:pr.off+pr.n])
				}
				*cls = append(*cls, "known_class:"+pr.kf+":accepted_as_pinned")
			}
			off = pend
			continue
		}
		if err == nil {
			t.Fatalf("%s: Decode(item %d, %s) returned nil error, the format says it must fail (%s); decoded %s\n stream %x offset %d nosub=%v reader=%s",
				s.curve, i, kd, why, s.render(dst.Elem()), b, off, nosub, rk)
		}
		if br != cr.n {
			t.Fatalf("%s: after failing Decode(item %d, %s, %s): BytesRead=%d but the reader delivered %d bytes\n stream %x", s.curve, i, kd, why, br, cr.n, b)
		}
		*cls = append(*cls, "err:"+why, fmt.Sprintf("err_at_item:%d", i))
		if pinnedOK {
			*cls = append(*cls, "known_class:"+pins[0].kf+":rejected")
		}
		failedAt = i
		break
	}
	if failedAt < 0 && off == len(b) {
		var u uint64
		if err := reg.Err(reg.M(dec, "Decode", &u)); err == nil {
			t.Fatalf("%s: Decode past the end of the stream returned nil error", s.curve)
		}
		*cls = append(*cls, "eof_probe")
	}
}

func contains(xs []string, x string) bool {
	for _, y := range xs {
		if y == x {
			return true
		}
	}
	return false
}

// poison fills every uint64 word reachable in v with a pattern.
// usedSlice builds a slice of n elements whose nested slices (if any) are non-empty as well.
func usedSlice(typ reflect.Type, n int) reflect.Value {
	v := reflect.MakeSlice(typ, n, n)
	if typ.Elem().Kind() == reflect.Slice {
		for i := 0; i < n; i++ {
			v.Index(i).Set(usedSlice(typ.Elem(), 1+i%3))
		}
	}
	return v
}

func poison(v reflect.Value) {
	switch v.Kind() {
	case reflect.Slice, reflect.Array:
		for i := 0; i < v.Len(); i++ {
			poison(v.Index(i))
		}
	case reflect.Struct:
		for i := 0; i < v.NumField(); i++ {
			poison(v.Field(i))
		}
	case reflect.Uint64:
		if v.CanSet() {
			v.SetUint(0x0123456789abcdef)
		}
	}
}

func streamShards() [][2]string {
	var out [][2]string
	for _, id := range groupIDs() {
		if id[0] == "secp256k1" {
			continue
		}
		out = append(out, id)
	}
	return out
}

func TestC07_Stream(t *testing.T) {
	for _, id := range streamShards() {
		if !selected(id[0] + "/" + id[1]) {
			continue
		}
		s := newSctx(id[0])
		for _, f := range s.g {
			f.pool()
		}
		id := id
		rep.Note("C07_Stream/"+id[0]+"/"+id[1], fmt.Sprintf("generated length prefixes are capped at 2^22 = %d elements (resource guard: the decoders allocate the announced length before reading); streams whose mutated bytes announce more are skipped and counted as skipped:prefix_above_guard", maxPrefix))
		t.Run(id[0]+"_"+id[1], func(t *testing.T) {
			rapid.Check(t, func(t *rapid.T) { propStream(t, s, id[1]) })
		})
	}
}

// TestC07_Unsupported: values outside the documented type list are refused with an error and move no counter.
func TestC07_Unsupported(t *testing.T) {
	type withString struct{ S string }
	for _, c := range inst.CurveNames {
		if c == "secp256k1" || !selected(c) {
			continue
		}
		s := newSctx(c)
		var w bytes.Buffer
		for _, raw := range []bool{false, true} {
			enc := s.newEncoder(&w, raw)
			var nilPt *int
			for i, v := range []interface{}{nil, "text", 7, map[string]int{}, withString{"x"}, []string{"a"}, nilPt, []int{1}, struct{ A []uint64 }{}} {
				err := reg.Err(reg.M(enc, "Encode", v))
				if err == nil {
					t.Fatalf("%s: Encode(unsupported value #%d %T) returned nil error", c, i, v)
				}
				if n := reg.M(enc, "BytesWritten")[0].(int64); n != 0 || w.Len() != 0 {
					t.Fatalf("%s: refused Encode(#%d %T) wrote %d bytes, counter %d", c, i, v, w.Len(), n)
				}
			}
		}
		data := bytes.Repeat([]byte{1}, 64)
		cr := &countR{r: bytes.NewReader(data)}
		dec := s.newDecoder(cr, false)
		var str string
		var in int
		var mp map[string]int
		var nilU *uint64
		for i, v := range []interface{}{nil, uint64(3), str, &str, &in, &mp, nilU, &[]string{}, &withString{}} {
			err := reg.Err(reg.M(dec, "Decode", v))
			if err == nil {
				t.Fatalf("%s: Decode(unsupported target #%d %T) returned nil error", c, i, v)
			}
			if n := reg.M(dec, "BytesRead")[0].(int64); n != cr.n {
				t.Fatalf("%s: refused Decode(#%d %T): BytesRead=%d, reader delivered %d", c, i, v, n, cr.n)
			}
		}
		rep.Count("C07_Unsupported/"+c, "unsupported_types", 27, 27, c+": nil, string, int, map, struct with string, []string, nil pointer, []int, struct with slice")
	}
}

func drawFixedReader(b []byte, onebyte bool) (io.Reader, string) {
	if onebyte {
		return iotest.OneByteReader(bytes.NewReader(b)), "onebyte"
	}
	return bytes.NewReader(b), "whole"
}
