// Package c07: point and stream codecs round-trip, validate fully and never hide an error.
//
// model_test.go is the format model (the oracle): the byte formats of the point codecs written
// from the doc comments at the top of ecc/<curve>/marshal.go, evaluated with the math/big reference
// curve arithmetic of harness/internal/ref. It shares no code with the library.
package c07

import (
	"math/big"
	"os"
	"regexp"
	"sync"
	"testing"

	"verif/harness/internal/inst"
	"verif/harness/internal/ref"
	"verif/harness/internal/rep"
)

func TestMain(m *testing.M) { rep.Main(m) }

func selected(name string) bool {
	p := os.Getenv("VERIF_INST")
	if p == "" {
		return true
	}
	ok, _ := regexp.MatchString(p, name)
	return ok
}

// flag kinds
const (
	kRaw = iota
	kRawInf
	kSmall
	kLarge
	kInf
	kInvalid
)

var kindName = []string{"raw", "rawinf", "smallest", "largest", "inf", "invalid"}

// three-bit (ZCash style) scheme: bls12-377, bls12-381, bls24-315, bls24-317, bw6-761, bw6-633.
// two-bit scheme: bn254, grumpkin, stark-curve. secp256k1: raw only, no flag.
var threeBit = map[string]bool{"bls12-377": true, "bls12-381": true, "bls24-315": true, "bls24-317": true, "bw6-761": true, "bw6-633": true}

// fmtG is the format model of one group.
type fmtG struct {
	G      *inst.Group
	Name   string
	Three  bool
	NoFlag bool
	FpB    int // bytes of one base-field coordinate = 8 * number of 64-bit words
	D      int // degree of the coordinate field over Fp
	S      int // compressed size
	P      *big.Int

	mu      sync.Mutex
	subMemo map[string]string
	decMemo map[string]verdict
}

var (
	fmtMu    sync.Mutex
	fmtCache = map[string]*fmtG{}
)

func getFmt(curve, group string) *fmtG {
	fmtMu.Lock()
	defer fmtMu.Unlock()
	id := curve + "/" + group
	if f, ok := fmtCache[id]; ok {
		return f
	}
	c := inst.GetCurve(curve)
	g := c.G1
	if group == "G2" {
		g = c.G2
	}
	if g == nil {
		return nil
	}
	f := &fmtG{G: g, Name: id, Three: threeBit[curve], NoFlag: curve == "secp256k1", P: c.P, subMemo: map[string]string{}}
	f.FpB = (c.P.BitLen() + 63) / 64 * 8
	f.D = g.E.F.Deg()
	f.S = f.FpB * f.D
	fmtCache[id] = f
	return f
}

func (f *fmtG) mask() byte {
	if f.NoFlag {
		return 0
	}
	if f.Three {
		return 0xE0
	}
	return 0xC0
}

// flagBits returns the flag byte of a kind (valid kinds only).
func (f *fmtG) flagBits(k int) byte {
	if f.Three {
		switch k {
		case kRaw:
			return 0x00
		case kRawInf:
			return 0x40
		case kSmall:
			return 0x80
		case kLarge:
			return 0xA0
		case kInf:
			return 0xC0
		}
		panic("no such flag")
	}
	switch k {
	case kRaw:
		return 0x00
	case kSmall:
		return 0x80
	case kLarge:
		return 0xC0
	case kInf:
		return 0x40
	}
	panic("no such flag")
}

// patterns lists every value of the flag bits.
func (f *fmtG) patterns() []byte {
	if f.Three {
		return []byte{0x00, 0x20, 0x40, 0x60, 0x80, 0xA0, 0xC0, 0xE0}
	}
	return []byte{0x00, 0x40, 0x80, 0xC0}
}

func (f *fmtG) kind(b0 byte) int {
	m := b0 & f.mask()
	if f.NoFlag {
		return kRaw
	}
	if f.Three {
		switch m {
		case 0x00:
			return kRaw
		case 0x40:
			return kRawInf
		case 0x80:
			return kSmall
		case 0xA0:
			return kLarge
		case 0xC0:
			return kInf
		}
		return kInvalid
	}
	switch m {
	case 0x00:
		return kRaw
	case 0x40:
		return kInf
	case 0x80:
		return kSmall
	}
	return kLarge
}

// need returns the number of bytes an encoding starting with b0 occupies.
func (f *fmtG) need(b0 byte) int {
	switch f.kind(b0) {
	case kRaw, kRawInf:
		return 2 * f.S
	}
	return f.S
}

// putCoord writes a coordinate: base-field coefficients as fixed-size big-endian integers, highest
// coefficient first (E2: A1|A0, E4: B1.A1|B1.A0|B0.A1|B0.A0). Values need not be reduced; they are
// truncated to FpB bytes.
func (f *fmtG) putCoord(dst []byte, v ref.V) {
	for i := 0; i < f.D; i++ {
		c := v[f.D-1-i]
		chunk := dst[i*f.FpB : (i+1)*f.FpB]
		for j := range chunk {
			chunk[j] = 0
		}
		b := c.Bytes()
		if len(b) > f.FpB {
			b = b[len(b)-f.FpB:]
		}
		copy(chunk[f.FpB-len(b):], b)
	}
}

// getCoord reads a coordinate (no reduction).
func (f *fmtG) getCoord(src []byte) ref.V {
	v := make(ref.V, f.D)
	for i := 0; i < f.D; i++ {
		v[f.D-1-i] = new(big.Int).SetBytes(src[i*f.FpB : (i+1)*f.FpB])
	}
	return v
}

func (f *fmtG) canonical(v ref.V) bool {
	for _, c := range v {
		if c.Cmp(f.P) >= 0 {
			return false
		}
	}
	return true
}

// lexLargest: y is strictly lexicographically larger than -y, comparing the highest coefficient first.
func (f *fmtG) lexLargest(y ref.V) bool {
	F := f.G.E.F
	y = ref.Red(F, y)
	ny := F.Neg(y)
	for i := len(y) - 1; i >= 0; i-- {
		if c := y[i].Cmp(ny[i]); c != 0 {
			return c > 0
		}
	}
	return false
}

func (f *fmtG) rhs(x ref.V) ref.V {
	F := f.G.E.F
	return F.Add(F.Add(F.Mul(F.Mul(x, x), x), F.Mul(f.G.E.A, x)), f.G.E.B)
}

// subClass is the memoised reference subgroup oracle ([r]P by double-and-add): "in" when [r]P = O,
// "out_3r" when [r]P != O but [3r]P = O (P has a component of order 3), "out" otherwise.
func (f *fmtG) subClass(p ref.Pt) string {
	if p.Inf {
		return "in"
	}
	key := ref.String(p.X) + ref.String(p.Y)
	f.mu.Lock()
	v, ok := f.subMemo[key]
	f.mu.Unlock()
	if ok {
		return v
	}
	E := f.G.E
	if !E.OnCurve(p) {
		panic("c07: subgroup oracle asked about an off-curve point")
	}
	q := E.Mul(f.G.R, p)
	switch {
	case q.Inf:
		v = "in"
	case E.Mul(big.NewInt(3), q).Inf:
		v = "out_3r"
	default:
		v = "out"
	}
	f.mu.Lock()
	if len(f.subMemo) < 1<<16 {
		f.subMemo[key] = v
	}
	f.mu.Unlock()
	return v
}

func (f *fmtG) inSubgroup(p ref.Pt) bool { return f.subClass(p) == "in" }

// notInSub names the rejection reason of a curve point outside the subgroup.
func (f *fmtG) notInSub(p ref.Pt) string {
	w := "not_in_subgroup"
	if f.subClass(p) == "out_3r" {
		w = "not_in_subgroup_3r"
	}
	if f.G.E.F.IsZero(p.Y) {
		w += "_y0"
	}
	return w
}

// verdict of the acceptance predicate on a byte string.
type verdict struct {
	ok    bool
	pt    ref.Pt
	n     int    // bytes consumed when ok
	why   string // accept class or reject reason
	raw   bool   // the string is a raw-mode encoding
	alias bool   // all-zero raw string standing for infinity where the canonical raw infinity is flagged
	kind  int
}

func isZero(b []byte) bool {
	for _, x := range b {
		if x != 0 {
			return false
		}
	}
	return true
}

// decode is the acceptance predicate: valid flag pattern, canonical coordinates, infinity flags imply an
// all-zero payload, raw: on the curve (or the all-zero infinity), compressed: x^3+ax+b is a square and
// the flag names the root it selects, subgroup checks on: [r]P = O.
func (f *fmtG) decode(b []byte, sub bool) verdict {
	F := f.G.E.F
	if f.NoFlag {
		if len(b) < 2*f.S {
			return verdict{why: "short", raw: true}
		}
		x, y := f.getCoord(b[:f.S]), f.getCoord(b[f.S:2*f.S])
		if !f.canonical(x) || !f.canonical(y) {
			return verdict{why: "noncanonical", raw: true}
		}
		if F.IsZero(x) && F.IsZero(y) {
			return verdict{ok: true, pt: ref.Pt{Inf: true}, n: 2 * f.S, why: "acc_infinity_raw", raw: true}
		}
		p := ref.Pt{X: x, Y: y}
		if !f.G.E.OnCurve(p) {
			return verdict{why: "off_curve", raw: true}
		}
		if sub && !f.inSubgroup(p) {
			return verdict{why: f.notInSub(p), raw: true}
		}
		return verdict{ok: true, pt: p, n: 2 * f.S, why: "acc_raw", raw: true}
	}
	if len(b) < f.S {
		return verdict{why: "short", kind: -1}
	}
	k := f.kind(b[0])
	v := verdict{kind: k, raw: k == kRaw || k == kRawInf}
	low := b[0] &^ f.mask()
	switch k {
	case kInvalid:
		v.why = "invalid_flag"
		return v
	case kInf:
		if low != 0 || !isZero(b[1:f.S]) {
			v.why = "dirty_infinity"
			return v
		}
		v.ok, v.pt, v.n, v.why = true, ref.Pt{Inf: true}, f.S, "acc_infinity_compressed"
		return v
	case kRawInf:
		if len(b) < 2*f.S {
			v.why = "short"
			return v
		}
		if low != 0 || !isZero(b[1:2*f.S]) {
			v.why = "dirty_infinity"
			return v
		}
		v.ok, v.pt, v.n, v.why = true, ref.Pt{Inf: true}, 2*f.S, "acc_infinity_raw"
		return v
	case kRaw:
		if len(b) < 2*f.S {
			v.why = "short"
			return v
		}
		x, y := f.getCoord(b[:f.S]), f.getCoord(b[f.S:2*f.S])
		if !f.canonical(x) || !f.canonical(y) {
			v.why = "noncanonical"
			return v
		}
		if F.IsZero(x) && F.IsZero(y) {
			v.ok, v.pt, v.n = true, ref.Pt{Inf: true}, 2*f.S
			if f.Three {
				v.alias, v.why = true, "acc_infinity_raw_allzero_alias"
			} else {
				v.why = "acc_infinity_raw"
			}
			return v
		}
		p := ref.Pt{X: x, Y: y}
		if !f.G.E.OnCurve(p) {
			v.why = "off_curve"
			return v
		}
		if sub && !f.inSubgroup(p) {
			v.why = f.notInSub(p)
			return v
		}
		v.ok, v.pt, v.n, v.why = true, p, 2*f.S, "acc_raw"
		if F.IsZero(y) {
			v.why = "acc_raw_y0"
		}
		return v
	}
	// compressed
	xb := append([]byte{}, b[:f.S]...)
	xb[0] = low
	x := f.getCoord(xb)
	if !f.canonical(x) {
		v.why = "noncanonical"
		return v
	}
	y := F.Sqrt(f.rhs(x))
	if y == nil {
		v.why = "no_sqrt"
		return v
	}
	if F.IsZero(y) {
		// the only root is 0, which is not strictly larger than its negation: the encoder emits "smallest"
		if k == kLarge {
			v.why = "y0_largest_flag"
			return v
		}
	} else if f.lexLargest(y) != (k == kLarge) {
		y = F.Neg(y)
	}
	p := ref.Pt{X: x, Y: y}
	if sub && !f.inSubgroup(p) {
		v.why = f.notInSub(p)
		return v
	}
	v.ok, v.pt, v.n, v.why = true, p, f.S, "acc_compressed"
	if F.IsZero(y) {
		v.why = "acc_compressed_y0"
	}
	return v
}

// decodeCached memoises decode (pool points recur in long slices).
func (f *fmtG) decodeCached(b []byte, sub bool) verdict {
	key := string(b)
	if sub {
		key += "S"
	} else {
		key += "N"
	}
	f.mu.Lock()
	v, ok := f.decMemo[key]
	f.mu.Unlock()
	if ok {
		return v
	}
	v = f.decode(b, sub)
	f.mu.Lock()
	if f.decMemo == nil {
		f.decMemo = map[string]verdict{}
	}
	if len(f.decMemo) < 1<<14 {
		f.decMemo[key] = v
	}
	f.mu.Unlock()
	return v
}

// encode is the canonical encoding of a point in the given mode.
func (f *fmtG) encode(p ref.Pt, raw bool) []byte {
	if f.NoFlag {
		out := make([]byte, 2*f.S)
		if !p.Inf {
			f.putCoord(out[:f.S], ref.Red(f.G.E.F, p.X))
			f.putCoord(out[f.S:], ref.Red(f.G.E.F, p.Y))
		}
		return out
	}
	if raw {
		out := make([]byte, 2*f.S)
		if p.Inf {
			if f.Three {
				out[0] = f.flagBits(kRawInf)
			}
			return out
		}
		f.putCoord(out[:f.S], ref.Red(f.G.E.F, p.X))
		f.putCoord(out[f.S:], ref.Red(f.G.E.F, p.Y))
		return out
	}
	out := make([]byte, f.S)
	if p.Inf {
		out[0] = f.flagBits(kInf)
		return out
	}
	f.putCoord(out, ref.Red(f.G.E.F, p.X))
	if f.lexLargest(p.Y) {
		out[0] |= f.flagBits(kLarge)
	} else {
		out[0] |= f.flagBits(kSmall)
	}
	return out
}

// ---- roots of x^3 = c (for the 2-torsion points (x,0) of the j=0 curves) -------------------------

// cubeRoot returns some cube root of c in F, or nil. Written from the structure of the cyclic group
// F*: q-1 = 3^s t, 3 does not divide t.
func cubeRoot(F ref.Fld, c ref.V) ref.V {
	if F.IsZero(c) {
		return F.Zero()
	}
	q1 := new(big.Int).Sub(F.Order(), big.NewInt(1))
	three := big.NewInt(3)
	if new(big.Int).Mod(q1, three).Sign() != 0 {
		// cubing is a bijection: root = c^(1/3 mod q-1)
		e := new(big.Int).ModInverse(three, q1)
		r := ref.Exp(F, c, e)
		if F.Eq(F.Mul(F.Mul(r, r), r), c) {
			return r
		}
		return nil
	}
	if !F.Eq(ref.Exp(F, c, new(big.Int).Div(q1, three)), F.One()) {
		return nil
	}
	s := 0
	t := new(big.Int).Set(q1)
	for new(big.Int).Mod(t, three).Sign() == 0 {
		t.Div(t, three)
		s++
	}
	// a non-cube g: search small constants deterministically
	var g ref.V
	for i := int64(2); i < 2000 && g == nil; i++ {
		for j := 0; j < F.Deg() && g == nil; j++ {
			cand := F.Zero()
			cand[0] = big.NewInt(1)
			cand[j] = new(big.Int).Add(cand[j], big.NewInt(i))
			if !F.Eq(ref.Exp(F, cand, new(big.Int).Div(q1, three)), F.One()) {
				g = cand
			}
		}
	}
	if g == nil {
		return nil
	}
	a := ref.Exp(F, g, t) // generator of the 3-Sylow subgroup, order 3^s
	x := ref.Exp(F, c, t) // lies in <a^3>
	// discrete log e with a^e = x, digit by digit in base 3
	e := new(big.Int)
	pow3 := func(k int) *big.Int { return new(big.Int).Exp(three, big.NewInt(int64(k)), nil) }
	w := ref.Exp(F, a, pow3(s-1)) // primitive cube root of unity
	for i := 0; i < s; i++ {
		// (x a^-e)^(3^(s-1-i)) in {1, w, w^2}
		y := ref.Exp(F, F.Mul(x, ref.Exp(F, a, new(big.Int).Neg(e))), pow3(s-1-i))
		d := int64(-1)
		cur := F.One()
		for k := int64(0); k < 3; k++ {
			if F.Eq(y, cur) {
				d = k
				break
			}
			cur = F.Mul(cur, w)
		}
		if d < 0 {
			return nil
		}
		e.Add(e, new(big.Int).Mul(big.NewInt(d), pow3(i)))
	}
	if new(big.Int).Mod(e, three).Sign() != 0 {
		return nil
	}
	// 1 = alpha t + beta 3^s ; c = (c^t)^alpha (c^(3^s))^beta
	alpha, beta := new(big.Int), new(big.Int)
	new(big.Int).GCD(alpha, beta, t, pow3(s))
	r1 := ref.Exp(F, a, new(big.Int).Mul(new(big.Int).Div(e, three), alpha))
	inv3t := new(big.Int).ModInverse(three, t)
	if t.Cmp(big.NewInt(1)) == 0 {
		inv3t = big.NewInt(0)
	}
	r2 := ref.Exp(F, ref.Exp(F, c, pow3(s)), new(big.Int).Mul(beta, inv3t))
	r := F.Mul(r1, r2)
	if F.Eq(F.Mul(F.Mul(r, r), r), c) {
		return r
	}
	return nil
}
