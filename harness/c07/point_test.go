package c07

// point_test.go: single-point codecs SetBytes / Unmarshal / Bytes / RawBytes / Marshal of every
// curve and group against the format model.

import (
	"bytes"
	"fmt"
	"testing"

	"pgregory.net/rapid"

	"verif/harness/internal/inst"
	"verif/harness/internal/ref"
	"verif/harness/internal/reg"
	"verif/harness/internal/rep"
)

// groupIDs lists "curve/G1", "curve/G2" for all curves.
func groupIDs() [][2]string {
	var out [][2]string
	for _, c := range inst.CurveNames {
		out = append(out, [2]string{c, "G1"})
		if inst.GetCurve(c).G2 != nil {
			out = append(out, [2]string{c, "G2"})
		}
	}
	return out
}

func forGroups(t *testing.T, skipNoFlag bool, body func(t *testing.T, f *fmtG)) {
	for _, id := range groupIDs() {
		if !selected(id[0] + "/" + id[1]) {
			continue
		}
		f := getFmt(id[0], id[1])
		if skipNoFlag && f.NoFlag {
			continue
		}
		t.Run(id[0]+"_"+id[1], func(t *testing.T) { body(t, f) })
	}
}

// checkAccepted verifies value and canonicity of an accepted string.
func (f *fmtG) checkAccepted(t fataler, what string, lib interface{}, b []byte, v verdict) {
	if !f.sameAsRef(lib, v.pt) {
		t.Fatalf("%s %s: decoded value differs from the reference: bytes=%x want %s got %v", f.Name, what, b, f.G.E.Str(v.pt), lib)
	}
	re := libBytes(lib, v.raw)
	want := b[:v.n]
	if v.alias {
		want = f.encode(ref.Pt{Inf: true}, true)
	}
	if !bytes.Equal(re, want) {
		t.Fatalf("%s %s: accepted string does not re-encode to itself (raw=%v): in=%x out=%x", f.Name, what, v.raw, b[:v.n], re)
	}
}

func propPoint(t *rapid.T, f *fmtG) {
	test := "C07_Point/" + f.Name
	b, cls := f.genPoint(t, "p", -1)
	// length mutation: truncation at every offset, extension by trailing bytes
	switch rapid.IntRange(0, 9).Draw(t, "len") {
	case 0, 1:
		full := len(b)
		o := rapid.IntRange(0, full-1).Draw(t, "cut")
		b = b[:o]
		cls = append(cls, "len:truncated")
		if o == f.S || o == 0 || o == f.S-1 || o == full-1 {
			cls = append(cls, "len:truncated_boundary")
		}
	case 3:
		extra := rapid.SliceOfN(rapid.Byte(), 1, f.S+3).Draw(t, "extra")
		b = append(append([]byte{}, b...), extra...)
		cls = append(cls, "len:extended")
	default:
		cls = append(cls, "len:exact")
	}
	v := f.decode(b, true)
	cls = append(cls, "verdict:"+v.why)
	key := fmt.Sprintf("%s SetBytes(%x)", f.Name, b)
	if pv, kf := f.pinned(b, v, true); kf != "" {
		// known finding: the library may reject (correct) or accept exactly the pinned value
		cls = append(cls, "known_class:"+kf+":"+f.checkSetBytesPinned(t, b, pv))
		rep.Case(test, key, true, cls...)
		return
	}

	f.checkSetBytes(t, b, v, rapid.Bool().Draw(t, "dirtyrecv"))
	rep.Case(test, key, true, cls...)
}

// fataler is the part of *rapid.T / *testing.T the shared checks need.
type fataler interface {
	Fatalf(format string, args ...any)
}

// checkSetBytes compares SetBytes/Unmarshal on b with the verdict of the acceptance predicate.
func (f *fmtG) checkSetBytes(t fataler, b []byte, v verdict, dirtyReceiver bool) {
	lib := f.G.NewAff()
	if dirtyReceiver {
		lib = f.G.FromRef(f.pool().sub[3])
	}
	n, err := libSetBytes(lib, b)
	if (err == nil) != v.ok {
		t.Fatalf("%s: SetBytes(%x): library err=%v, acceptance predicate says accept=%v (%s)", f.Name, b, err, v.ok, v.why)
	}
	lib2 := f.G.NewAff()
	hasUnmarshal := reg.HasM(lib2, "Unmarshal")
	if hasUnmarshal {
		err2 := libUnmarshal(lib2, b)
		if (err2 == nil) != v.ok {
			t.Fatalf("%s: Unmarshal(%x): library err=%v, acceptance predicate says accept=%v (%s)", f.Name, b, err2, v.ok, v.why)
		}
	}
	if v.ok {
		if n != v.n {
			t.Fatalf("%s: SetBytes(%x) reports %d consumed bytes, format says %d", f.Name, b, n, v.n)
		}
		f.checkAccepted(t, "SetBytes", lib, b, v)
		if hasUnmarshal {
			f.checkAccepted(t, "Unmarshal", lib2, b, v)
		}
	} else if n != 0 {
		t.Fatalf("%s: SetBytes(%x) failed (%v) but reports %d consumed bytes", f.Name, b, err, n)
	}
}

// checkSetBytesPinned: b is rejected by the predicate but falls in a listed known finding. Tolerated:
// an error (n = 0), or acceptance with exactly the pinned verdict (value, consumed length, re-encoding).
func (f *fmtG) checkSetBytesPinned(t fataler, b []byte, pv verdict) string {
	lib := f.G.NewAff()
	n, err := libSetBytes(lib, b)
	if err != nil {
		if n != 0 {
			t.Fatalf("%s: SetBytes(%x) failed (%v) but reports %d consumed bytes", f.Name, b, err, n)
		}
		return "rejected"
	}
	if n != pv.n {
		t.Fatalf("%s: SetBytes(%x) [known-finding class %s] reports %d consumed bytes, format says %d", f.Name, b, pv.why, n, pv.n)
	}
	f.checkAccepted(t, "SetBytes ["+pv.why+"]", lib, b, pv)
	if lib2 := f.G.NewAff(); reg.HasM(lib2, "Unmarshal") {
		if err := libUnmarshal(lib2, b); err != nil {
			t.Fatalf("%s: SetBytes accepts %x but Unmarshal fails: %v", f.Name, b, err)
		}
		f.checkAccepted(t, "Unmarshal ["+pv.why+"]", lib2, b, pv)
	}
	return "accepted_as_pinned"
}

// propValue: value -> Bytes/RawBytes/Marshal (compared with the format model) -> SetBytes/Unmarshal.
func propValue(t *rapid.T, f *fmtG) {
	test := "C07_Value/" + f.Name
	var p ref.Pt
	var how string
	if !f.NoFlag && rapid.IntRange(0, 5).Draw(t, "cof") == 0 && len(f.pool().tors) > 0 {
		// encoders are total on curve points: order-2 point (y = 0 is never "largest")
		p, how = f.pool().tors[0], "tors2"
	} else {
		p, how = f.drawSub(t, "v", true)
	}
	lib := f.G.FromRef(p)
	key := f.Name + " " + how
	modes := []bool{true}
	if !f.NoFlag {
		modes = []bool{false, true}
	}
	for _, raw := range modes {
		got := libBytes(lib, raw)
		want := f.encode(p, raw)
		if !bytes.Equal(got, want) {
			t.Fatalf("%s: encoding (raw=%v) of %s = %x, format model says %x", f.Name, raw, f.G.E.Str(p), got, want)
		}
		if how == "tors2" {
			continue // outside the subgroup: SetBytes must reject, covered by propPoint
		}
		back := f.G.FromRef(f.pool().sub[2])
		n, err := libSetBytes(back, got)
		if err != nil || n != len(got) || !f.sameAsRef(back, p) {
			t.Fatalf("%s: SetBytes(encode(%s), raw=%v) = (%d,%v) value %v", f.Name, f.G.E.Str(p), raw, n, err, back)
		}
	}
	if !f.NoFlag {
		m := bytesOf(reg.M(lib, "Marshal")[0])
		if !bytes.Equal(m, f.encode(p, true)) {
			t.Fatalf("%s: Marshal(%s) = %x is not the raw encoding", f.Name, f.G.E.Str(p), m)
		}
		if how != "tors2" {
			back := f.G.NewAff()
			if err := libUnmarshal(back, m); err != nil || !f.sameAsRef(back, p) {
				t.Fatalf("%s: Unmarshal(Marshal(%s)) err=%v value %v", f.Name, f.G.E.Str(p), err, back)
			}
		}
	}
	rep.Case(test, key, true, "value:"+classOfHow(how))
}

func classOfHow(how string) string {
	switch {
	case how == "O":
		return "infinity"
	case how == "tors2":
		return "order2"
	case len(how) > 4 && how[:4] == "pool":
		return "pool"
	case len(how) > 5 && how[:5] == "fresh":
		return "fresh_kG"
	}
	return "pool_sum"
}

func TestC07_Point(t *testing.T) {
	forGroups(t, false, func(t *testing.T, f *fmtG) {
		f.pool()
		rapid.Check(t, func(t *rapid.T) { propPoint(t, f) })
	})
}

func TestC07_Value(t *testing.T) {
	forGroups(t, false, func(t *testing.T, f *fmtG) {
		f.pool()
		rapid.Check(t, func(t *rapid.T) { propValue(t, f) })
	})
}
