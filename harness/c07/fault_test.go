package c07

// fault_test.go: fault injection on the encode side. Encoder.Encode of every supported value type
// (compressed and RawEncoding) and WriteTo/WriteRawTo of the KZG and Pedersen serializers run
// against a writer that fails after exactly k accepted bytes. Oracle: a call during which the writer
// failed returns a non-nil error, never panics, and BytesWritten() / the returned n equal the number
// of bytes the writer actually accepted.

import (
	"bytes"
	"errors"
	"fmt"
	"math/big"
	"reflect"
	"strings"
	"testing"

	"pgregory.net/rapid"

	"verif/harness/internal/inst"
	"verif/harness/internal/ref"
	"verif/harness/internal/reg"
	"verif/harness/internal/rep"
)

var errInjected = errors.New("injected write failure")

// failW accepts bytes until `limit` bytes have been accepted, then fails. It is a valid io.Writer:
// every Write that returns n < len(p) also returns a non-nil error.
//
//	partial:   the Write crossing the limit accepts the bytes up to the limit and returns (n < len(p), err);
//	           otherwise it accepts nothing of that Write and returns (0, err).
//	transient: only that one Write fails, later Writes succeed again (e.g. a retried network write);
//	           otherwise every later Write fails too.
type failW struct {
	limit     int
	partial   bool
	transient bool
	accepted  int
	failures  int
	tripped   bool
}

func (w *failW) Write(p []byte) (int, error) {
	if w.tripped && w.transient {
		w.accepted += len(p)
		return len(p), nil
	}
	if w.tripped {
		w.failures++
		return 0, errInjected
	}
	if w.accepted+len(p) <= w.limit {
		w.accepted += len(p)
		return len(p), nil
	}
	w.tripped = true
	w.failures++
	n := 0
	if w.partial {
		n = w.limit - w.accepted
	}
	w.accepted += n
	return n, errInjected
}

var faultModes = []struct {
	name               string
	partial, transient bool
}{{"hard_partial", true, false}, {"hard_whole", false, false}, {"transient_partial", true, true}, {"transient_whole", false, true}}

// encArg builds the Encode argument of an item.
func (s *sctx) encArg(it *item) interface{} {
	val := reflect.New(s.goType(it.kind)).Elem()
	s.build(val, it.root)
	switch {
	case it.kind == "u64":
		return val.Interface()
	case it.kind == "fr" || it.kind == "fp" || strings.HasPrefix(it.kind, "pt:"):
		return val.Addr().Interface()
	case it.enc == "named_vector":
		vt := s.frVecT
		if it.kind == "[]fp" {
			vt = s.fpVecT
		}
		return val.Convert(vt).Interface()
	case it.enc == "ptr_to_slice":
		return val.Addr().Interface()
	}
	return val.Interface()
}

// offsetClass labels where in the item the failure offset falls.
func offsetClass(k, start, end int) string {
	switch {
	case k == start:
		return "writer_fail@item_start"
	case k-start < 4:
		return "writer_fail@inside_first_4_bytes"
	case k == end-1:
		return "writer_fail@last_byte"
	}
	return "writer_fail@inside"
}

// checkEncodeFault encodes the items against a writer failing after k bytes and applies the oracle.
func (s *sctx) checkEncodeFault(t fataler, items []*item, raw bool, k int, mode int) []string {
	m := faultModes[mode]
	w := &failW{limit: k, partial: m.partial, transient: m.transient}
	enc := s.newEncoder(w, raw)
	var cls []string
	off := 0
	for i, it := range items {
		var sz bytes.Buffer
		it.root.write(&sz)
		before := w.failures
		var err error
		func() {
			defer func() {
				if r := recover(); r != nil {
					t.Fatalf("%s: Encode(item %d, %s, raw=%v) panicked with a writer failing after %d bytes (%s): %v", s.curve, i, it.kind, raw, k, m.name, r)
				}
			}()
			err = reg.Err(reg.M(enc, "Encode", s.encArg(it)))
		}()
		failed := w.failures > before
		bw := reg.M(enc, "BytesWritten")[0].(int64)
		what := fmt.Sprintf("%s: Encode(item %d of %d, %s%s, raw=%v), writer fails after %d bytes (%s)", s.curve, i, len(items), it.kind, it.enc, raw, k, m.name)
		if failed && err == nil {
			t.Fatalf("%s: the writer returned an error during the call but Encode returned nil", what)
		}
		if !failed && err != nil {
			t.Fatalf("%s: Encode failed (%v) although the writer accepted everything", what, err)
		}
		if bw != int64(w.accepted) {
			t.Fatalf("%s: BytesWritten()=%d but the writer accepted %d bytes (err=%v)", what, bw, w.accepted, err)
		}
		if failed {
			cls = append(cls, "fault_type:"+strings.TrimSuffix(strings.TrimSuffix(it.kind, ":G1"), ":G2"), offsetClass(k, off, off+sz.Len()), "writer:"+m.name)
			if it.enc != "" {
				cls = append(cls, "fault_encvariant:"+it.enc)
			}
			return cls
		}
		off += sz.Len()
	}
	return append(cls, "writer_fail@never_reached")
}

func propEncodeFault(t *rapid.T, s *sctx, focus string) {
	test := "C07_EncodeFault/" + s.curve + "/" + focus
	raw := rapid.Bool().Draw(t, "rawenc")
	n := rapid.IntRange(1, 3).Draw(t, "k")
	kinds := s.kinds(focus)
	items := make([]*item, n)
	var script []string
	var all bytes.Buffer
	for i := range items {
		kd := rapid.SampledFrom(kinds).Draw(t, fmt.Sprintf("kind%d", i))
		items[i] = s.genItem(t, fmt.Sprintf("i%d", i), kd, raw)
		items[i].root.write(&all)
		script = append(script, kd+items[i].enc)
	}
	total := all.Len()
	k := rapid.IntRange(0, total-1).Draw(t, "failAfter")
	mode := rapid.IntRange(0, len(faultModes)-1).Draw(t, "mode")
	cls := s.checkEncodeFault(t, items, raw, k, mode)
	if raw {
		cls = append(cls, "fault_enc:raw")
	} else {
		cls = append(cls, "fault_enc:compressed")
	}
	rep.Case(test, fmt.Sprintf("%s raw=%v %v fail@%d/%d %s %x", s.curve, raw, script, k, total, faultModes[mode].name, all.Bytes()), true, cls...)
}

func TestC07_EncodeFault(t *testing.T) {
	for _, id := range streamShards() {
		if !selected(id[0] + "/" + id[1]) {
			continue
		}
		s := newSctx(id[0])
		id := id
		t.Run(id[0]+"_"+id[1], func(t *testing.T) {
			rapid.Check(t, func(t *rapid.T) { propEncodeFault(t, s, id[1]) })
		})
	}
}

// fixedItems builds one small value of every supported type (deterministic).
func (s *sctx) fixedItems(raw bool) []*item {
	felt := func(which string, v int64) *node {
		nb := s.frB
		if which == "fp" {
			nb = s.fpB
		}
		return &node{kind: which, v: big.NewInt(v), leaf: beBytes(big.NewInt(v), nb), lenOv: -1}
	}
	u64 := func(u uint64) *node {
		return &node{kind: "u64", u: u, leaf: []byte{byte(u >> 56), byte(u >> 48), byte(u >> 40), byte(u >> 32), byte(u >> 24), byte(u >> 16), byte(u >> 8), byte(u)}, lenOv: -1}
	}
	vec := func(kids ...*node) *node { return &node{kind: "vec", kids: kids, lenOv: -1} }
	pt := func(grp string, i int) *node {
		f := s.g[grp]
		p := ref.Pt{Inf: true}
		if i >= 0 {
			p = f.pool().sub[i]
		}
		return &node{kind: "pt:" + grp, pt: p, leaf: f.encode(p, raw), lenOv: -1}
	}
	items := []*item{
		{kind: "u64", root: u64(0x0102030405060708)},
		{kind: "fr", root: felt("fr", 5)},
		{kind: "fp", root: felt("fp", 7)},
		{kind: "[]fr", root: vec(felt("fr", 1), felt("fr", 2))},
		{kind: "[]fp", root: vec(felt("fp", 3))},
		{kind: "[]fr", root: vec()},
	}
	if s.full {
		items = append(items,
			&item{kind: "[]fr", root: vec(felt("fr", 1), felt("fr", 2)), enc: "named_vector"},
			&item{kind: "[]fp", root: vec(felt("fp", 1)), enc: "named_vector"},
			&item{kind: "[][]fr", root: vec(vec(felt("fr", 1)), vec(felt("fr", 2), felt("fr", 3)), vec())},
			&item{kind: "[][]fr", root: vec(vec(felt("fr", 1), felt("fr", 2)), vec(felt("fr", 3)))},
			&item{kind: "[][][]fr", root: vec(vec(vec(felt("fr", 1)), vec(felt("fr", 2))), vec(vec(felt("fr", 3))))},
			&item{kind: "[][][]fr", root: vec(vec(), vec(vec(), vec(felt("fr", 4))))},
			&item{kind: "[]u64", root: vec(u64(1), u64(2))},
			&item{kind: "[][]u64", root: vec(vec(u64(1)), vec(u64(2), u64(3)))},
		)
	}
	for _, grp := range []string{"G1", "G2"} {
		if s.g[grp] == nil {
			continue
		}
		items = append(items,
			&item{kind: "pt:" + grp, root: pt(grp, 1)},
			&item{kind: "pt:" + grp, root: pt(grp, -1)},
			&item{kind: "[]pt:" + grp, root: vec(pt(grp, 0), pt(grp, -1), pt(grp, 2))},
			&item{kind: "[]pt:" + grp, root: vec()},
		)
		if s.full {
			items = append(items, &item{kind: "[]pt:" + grp, root: vec(pt(grp, 0), pt(grp, 3)), enc: "ptr_to_slice"})
		}
	}
	return items
}

// TestC07_EncodeFaultSweep: every supported type, one small value each, every failure offset
// 0..total-1, every writer mode, both encodings (exhaustive over this finite space).
func TestC07_EncodeFaultSweep(t *testing.T) {
	for _, c := range inst.CurveNames {
		if c == "secp256k1" || !selected(c) {
			continue
		}
		s := newSctx(c)
		test := "C07_EncodeFaultSweep/" + c
		var n int64
		for _, raw := range []bool{false, true} {
			for _, it := range s.fixedItems(raw) {
				var sz bytes.Buffer
				it.root.write(&sz)
				for k := 0; k < sz.Len(); k++ {
					for mode := range faultModes {
						cls := s.checkEncodeFault(t, []*item{it}, raw, k, mode)
						for _, cl := range cls {
							rep.Count(test, cl, 1, 0, fmt.Sprintf("%s %s%s raw=%v fail@%d/%d", c, it.kind, it.enc, raw, k, sz.Len()))
						}
						n++
					}
				}
				// a writer that never fails: everything is accepted
				if cls := s.checkEncodeFault(t, []*item{it}, raw, sz.Len(), 0); len(cls) != 1 {
					t.Fatalf("%s: %s: writer failed although the limit equals the size", c, it.kind)
				}
			}
		}
		rep.Count(test, "sweep_cases", n, n, c+": every type x every offset x 4 writer modes x 2 encodings")
		rep.Exhaustive(test)
	}
}

// ---- WriteTo / WriteRawTo of the KZG and Pedersen serializers ------------------------------------

// checkWriteToFault runs obj.<wm>(w) against writers failing after every k in ks.
func checkWriteToFault(t fataler, test, what string, obj interface{}, wm string, total int, ks []int) {
	for _, k := range ks {
		for mode, m := range faultModes {
			w := &failW{limit: k, partial: m.partial, transient: m.transient}
			var r []interface{}
			func() {
				defer func() {
					if p := recover(); p != nil {
						t.Fatalf("%s.%s panicked with a writer failing after %d bytes (%s): %v", what, wm, k, m.name, p)
					}
				}()
				r = reg.M(obj, wm, w)
			}()
			err, n := reg.Err(r), r[0].(int64)
			if w.failures == 0 {
				t.Fatalf("%s.%s: harness: writer with limit %d of %d never failed", what, wm, k, total)
			}
			if err == nil {
				t.Fatalf("%s.%s: the writer failed after %d of %d bytes (%s) but the call returned a nil error (n=%d)", what, wm, k, total, m.name, n)
			}
			if n != int64(w.accepted) {
				t.Fatalf("%s.%s: writer failing after %d of %d bytes (%s): returned n=%d but the writer accepted %d bytes", what, wm, k, total, m.name, n, w.accepted)
			}
			_ = mode
			rep.Count(test, "writeto_fault:"+what[strings.Index(what, " ")+1:], 1, 0, "")
			rep.Count(test, "writer:"+m.name, 1, 0, "")
		}
	}
}

func propWriteToFault(t *rapid.T, s *sctx) {
	test := "C07_WriteToFault/" + s.curve
	kz := reg.Get("ecc/" + s.curve + "/kzg")
	pd := reg.Get("ecc/" + s.curve + "/fr/pedersen")
	g1, g2 := s.g["G1"], s.g["G2"]
	size := rapid.IntRange(2, 4).Draw(t, "size")
	alpha := big.NewInt(int64(rapid.IntRange(2, 1<<30).Draw(t, "alpha")))
	res := kz.F("NewSRS", uint64(size), alpha)
	if err := reg.Err(res); err != nil {
		t.Fatalf("%s: NewSRS: %v", s.curve, err)
	}
	srs := res[0]
	h, _ := g1.drawSub(t, "H", true)
	op := kz.New("OpeningProof")
	setField(op, "H", reflect.ValueOf(g1.G.FromRef(h)).Elem())
	reg.Unflatten(reg.Field(op, "ClaimedValue"), []*big.Int{big.NewInt(9)})
	bp := kz.New("BatchOpeningProof")
	setField(bp, "H", reflect.ValueOf(g1.G.FromRef(h)).Elem())
	vec := s.genVec(t, "cvs", 3, func(i int) *node { return s.genFelt(t, fmt.Sprintf("cv%d", i), "fr") })
	vals := reflect.New(reflect.SliceOf(s.frT)).Elem()
	s.build(vals, vec)
	setField(bp, "ClaimedValues", vals)
	nb := rapid.IntRange(0, 3).Draw(t, "nbasis")
	basis := make([]ref.Pt, nb)
	for i := range basis {
		basis[i], _ = g1.drawSub(t, fmt.Sprintf("b%d", i), true)
	}
	ppk := pd.New("ProvingKey")
	setField(ppk, "Basis", s.ptSlice("G1", basis))
	setField(ppk, "BasisExpSigma", s.ptSlice("G1", basis))
	pvk := pd.New("VerifyingKey")
	gq, _ := g2.drawSub(t, "g", true)
	setField(pvk, "G", reflect.ValueOf(g2.G.FromRef(gq)).Elem())
	setField(pvk, "GSigmaNeg", reflect.ValueOf(g2.G.FromRef(gq)).Elem())
	objs := []struct {
		what string
		obj  interface{}
		raw  bool
	}{
		{"kzg.ProvingKey", reg.Field(srs, "Pk"), true}, {"kzg.VerifyingKey", reg.Field(srs, "Vk"), true}, {"kzg.SRS", srs, true},
		{"kzg.OpeningProof", op, false}, {"kzg.BatchOpeningProof", bp, false},
		{"pedersen.ProvingKey", ppk, true}, {"pedersen.VerifyingKey", pvk, true},
	}
	for _, o := range objs {
		wms := []string{"WriteTo"}
		if o.raw {
			wms = append(wms, "WriteRawTo")
		}
		for _, wm := range wms {
			var buf bytes.Buffer
			r := reg.M(o.obj, wm, &buf)
			if err := reg.Err(r); err != nil {
				t.Fatalf("%s %s.%s: %v", s.curve, o.what, wm, err)
			}
			total := buf.Len()
			// boundary offsets plus rapid-drawn ones (every offset is reachable; small objects are swept
			// exhaustively by TestC07_WriteToFaultSweep)
			ks := []int{0, total - 1}
			for j := 0; j < 4; j++ {
				ks = append(ks, rapid.IntRange(0, total-1).Draw(t, fmt.Sprintf("%s.%s.k%d", o.what, wm, j)))
			}
			checkWriteToFault(t, test, s.curve+" "+o.what, o.obj, wm, total, ks)
		}
	}
	rep.Case(test, fmt.Sprintf("%s size=%d alpha=%s nb=%d", s.curve, size, alpha, nb), true, "writeto_fault_case")
}

func TestC07_WriteToFault(t *testing.T) {
	for _, n := range inst.PairingNames {
		if !selected(n) {
			continue
		}
		s := newSctx(n)
		t.Run(n, func(t *testing.T) { rapid.Check(t, func(t *rapid.T) { propWriteToFault(t, s) }) })
	}
}

// TestC07_WriteToFaultSweep: the small serializers (opening proofs, Pedersen keys, a 2-point KZG
// proving key) at every failure offset.
func TestC07_WriteToFaultSweep(t *testing.T) {
	for _, c := range inst.PairingNames {
		if !selected(c) {
			continue
		}
		s := newSctx(c)
		test := "C07_WriteToFaultSweep/" + c
		kz := reg.Get("ecc/" + c + "/kzg")
		pd := reg.Get("ecc/" + c + "/fr/pedersen")
		g1, g2 := s.g["G1"], s.g["G2"]
		p1, p2 := g1.pool().sub[0], g1.pool().sub[2]
		op := kz.New("OpeningProof")
		setField(op, "H", reflect.ValueOf(g1.G.FromRef(p1)).Elem())
		reg.Unflatten(reg.Field(op, "ClaimedValue"), []*big.Int{big.NewInt(9)})
		bp := kz.New("BatchOpeningProof")
		setField(bp, "H", reflect.ValueOf(g1.G.FromRef(p2)).Elem())
		vals := reflect.MakeSlice(reflect.SliceOf(s.frT), 2, 2)
		reg.Unflatten(vals.Index(0).Addr().Interface(), []*big.Int{big.NewInt(3)})
		reg.Unflatten(vals.Index(1).Addr().Interface(), []*big.Int{big.NewInt(4)})
		setField(bp, "ClaimedValues", vals)
		kpk := kz.New("ProvingKey")
		setField(kpk, "G1", s.ptSlice("G1", []ref.Pt{p1, p2}))
		ppk := pd.New("ProvingKey")
		setField(ppk, "Basis", s.ptSlice("G1", []ref.Pt{p1}))
		setField(ppk, "BasisExpSigma", s.ptSlice("G1", []ref.Pt{p2}))
		pvk := pd.New("VerifyingKey")
		setField(pvk, "G", reflect.ValueOf(g2.G.FromRef(g2.pool().sub[0])).Elem())
		setField(pvk, "GSigmaNeg", reflect.ValueOf(g2.G.FromRef(g2.pool().sub[1])).Elem())
		for _, o := range []struct {
			what string
			obj  interface{}
			raw  bool
		}{{"kzg.OpeningProof", op, false}, {"kzg.BatchOpeningProof", bp, false}, {"kzg.ProvingKey", kpk, true},
			{"pedersen.ProvingKey", ppk, true}, {"pedersen.VerifyingKey", pvk, true}} {
			wms := []string{"WriteTo"}
			if o.raw {
				wms = append(wms, "WriteRawTo")
			}
			for _, wm := range wms {
				var buf bytes.Buffer
				if err := reg.Err(reg.M(o.obj, wm, &buf)); err != nil {
					t.Fatalf("%s %s.%s: %v", c, o.what, wm, err)
				}
				ks := make([]int, buf.Len())
				for i := range ks {
					ks[i] = i
				}
				checkWriteToFault(t, test, c+" "+o.what, o.obj, wm, buf.Len(), ks)
			}
		}
		rep.Exhaustive(test)
	}
}

// F46 regression (rapid-free): a transient write failure inside a non-last inner vector of
// [][]fr.Element / [][][]fr.Element must not be hidden, and the counters must stay exact when a
// length prefix or a generic fixed-size value is refused.
func TestC07_RegressF46(t *testing.T) {
	for _, c := range inst.CurveNames {
		if c == "secp256k1" || !selected(c) {
			continue
		}
		s := newSctx(c)
		for _, raw := range []bool{false, true} {
			for _, it := range s.fixedItems(raw) {
				if !(strings.HasPrefix(it.kind, "[]") || it.kind == "u64") {
					continue
				}
				var sz bytes.Buffer
				it.root.write(&sz)
				for _, k := range []int{0, 1, 3, 4, 5, sz.Len() / 2, sz.Len() - 1} {
					if k < 0 || k >= sz.Len() {
						continue
					}
					for mode := range faultModes {
						s.checkEncodeFault(errorfer{t}, []*item{it}, raw, k, mode)
					}
				}
			}
		}
	}
}

// errorfer turns Fatalf into Errorf so that a regression test lists every failing case.
type errorfer struct{ t *testing.T }

func (e errorfer) Fatalf(format string, args ...any) { e.t.Errorf(format, args...) }
