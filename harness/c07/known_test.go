package c07

// known_test.go: known-finding classes (exclusion predicate + probes) and rapid-free regression
// tests of the defects the C07 check found on the pinned tree.

import (
	"bytes"
	"encoding/binary"
	"fmt"
	"math/big"
	"reflect"
	"strings"
	"testing"

	"verif/harness/internal/inst"
	"verif/harness/internal/ref"
	"verif/harness/internal/reg"
	"verif/harness/internal/rep"
)

const (
	kF5  = "F5-nosubgroupcheck-offcurve-raw"
	kF41 = "F41-bw6-subgroup-check-accepts-order3"
)

// groups on which the lattice-based membership test only proves [3r]P = O.
var f41Groups = map[string]bool{"bw6-633/G1": true, "bw6-761/G2": true}

// knownClass maps a rejection reason of the format model to the known-finding class it falls in
// ("" when none): F5 = {NoSubgroupChecks, raw encoding, coordinates canonical but off the curve};
// F41 = {subgroup checks on, bw6-633 G1 / bw6-761 G2, [r]P != O, [3r]P = O}.
func knownClass(g map[string]*fmtG, kind, why string, sub bool) string {
	i := strings.Index(kind, "pt:")
	if i < 0 || !strings.HasPrefix(why, "pt:") {
		return ""
	}
	return knownClassPt(g[kind[i+3:]], why[3:], sub)
}

func knownClassPt(f *fmtG, why string, sub bool) string {
	switch {
	case !sub && why == "off_curve":
		return kF5
	case sub && strings.HasPrefix(why, "not_in_subgroup_3r") && f41Groups[f.Name]:
		return kF41
	}
	return ""
}

// pinned returns, for a string the acceptance predicate rejects for a reason that falls in a listed
// known finding, the one deviating behaviour that finding tolerates: acceptance with exactly the
// coordinates the bytes carry (F5: the raw (x,y) as written; F41: the curve point the bytes denote,
// i.e. the verdict of the predicate without the subgroup clause). Everything else - another value, a
// panic, wrong counters, acceptance of any other rejected string - remains a violation: the caller
// accepts either the correct behaviour (error) or exactly this verdict.
func (f *fmtG) pinned(b []byte, v verdict, sub bool) (verdict, string) {
	kf := knownClassPt(f, v.why, sub)
	if v.ok || kf == "" || !rep.Known("C07", kf) {
		return verdict{}, ""
	}
	switch kf {
	case kF5:
		x, y := f.getCoord(b[:f.S]), f.getCoord(b[f.S:2*f.S])
		return verdict{ok: true, pt: ref.Pt{X: x, Y: y}, n: 2 * f.S, raw: true, why: "pinned_F5", kind: kRaw}, kf
	case kF41:
		w := f.decodeCached(b, false)
		if !w.ok {
			panic("c07: F41 class member is not a curve point")
		}
		w.why = "pinned_F41"
		return w, kf
	}
	return verdict{}, ""
}

// TestC07_ProbeF5 re-observes F5: with NoSubgroupChecks() a raw (x,y) that is not on the curve decodes
// without error (single point and inside a slice).
func TestC07_ProbeF5(t *testing.T) {
	seen := []string{}
	for _, id := range streamShards() {
		if !selected(id[0] + "/" + id[1]) {
			continue
		}
		s := newSctx(id[0])
		f := s.g[id[1]]
		p := f.pool().sub[1]
		bad := ref.Pt{X: p.X, Y: f.G.E.F.Add(p.Y, f.G.E.F.One())}
		if f.G.E.OnCurve(bad) {
			t.Fatalf("%s: probe point unexpectedly on the curve", f.Name)
		}
		one := f.encode(bad, true)
		var sl bytes.Buffer
		binary.Write(&sl, binary.BigEndian, uint32(2))
		sl.Write(f.encode(p, true))
		sl.Write(one)
		for _, c := range []struct {
			kind string
			b    []byte
		}{{"pt:" + id[1], one}, {"[]pt:" + id[1], sl.Bytes()}} {
			dst := reflect.New(s.goType(c.kind))
			err := reg.Err(reg.M(s.newDecoder(bytes.NewReader(c.b), true), "Decode", dst.Interface()))
			if err == nil {
				seen = append(seen, f.Name+" "+c.kind[:strings.Index(c.kind, ":")])
				// the tolerated deviation is exactly: the point carries the coordinates as written
				el := dst.Interface()
				if dst.Elem().Kind() == reflect.Slice {
					el = dst.Elem().Index(1).Addr().Interface()
				}
				if !f.sameAsRef(el, bad) || !bytes.Equal(libBytes(el, true), one) {
					t.Fatalf("%s: off-curve raw point accepted under NoSubgroupChecks but decoded to other coordinates: %v", f.Name, el)
				}
			}
			// with subgroup checks the same bytes must be refused
			dst = reflect.New(s.goType(c.kind))
			if err := reg.Err(reg.M(s.newDecoder(bytes.NewReader(c.b), false), "Decode", dst.Interface())); err == nil {
				t.Fatalf("%s: off-curve raw point accepted by the default decoder (%s)", f.Name, c.kind)
			}
		}
		rep.Count("C07_ProbeF5", "probe:"+f.Name, 4, 4, fmt.Sprintf("%s off-curve raw %x", f.Name, one))
	}
	if len(seen) > 0 {
		if !rep.Known("C07", kF5) {
			t.Fatalf("NoSubgroupChecks decoders accept raw off-curve points (not listed in known_findings.json): %v", seen)
		}
		rep.StillPresent("C07", kF5, fmt.Sprintf("%d of the probed (group, single|slice) decoders: %s", len(seen), strings.Join(seen, ", ")))
	}
}

// TestC07_ProbeF41 re-observes F41: encodings of points of order 3 pass the subgroup check of the
// default decoders on bw6-633 G1 and bw6-761 G2.
func TestC07_ProbeF41(t *testing.T) {
	seen := []string{}
	for g := range f41Groups {
		if !selected(g) {
			continue
		}
		cg := strings.Split(g, "/")
		f := getFmt(cg[0], cg[1])
		for _, p := range f.pool().tors3 {
			if f.subClass(p) != "out_3r" {
				t.Fatalf("%s: reference: order-3 point misclassified", g)
			}
			for _, raw := range []bool{false, true} {
				lib := f.G.NewAff()
				if _, err := libSetBytes(lib, f.encode(p, raw)); err == nil {
					seen = append(seen, fmt.Sprintf("%s raw=%v", g, raw))
					if !f.sameAsRef(lib, p) {
						t.Fatalf("%s: order-3 point accepted but decoded to other coordinates: %v", g, lib)
					}
				}
			}
		}
		// a point of order 3r: subgroup point + order-3 point
		if len(f.pool().tors3) > 0 {
			q := f.G.E.Add(f.pool().sub[0], f.pool().tors3[0])
			lib := f.G.NewAff()
			if _, err := libSetBytes(lib, f.encode(q, true)); err == nil {
				seen = append(seen, g+" order 3r")
			}
		}
		// any other cofactor component must still be refused: generic curve points ([3r]P != O)
		for _, p := range f.pool().cof {
			if f.subClass(p) != "out" {
				continue
			}
			for _, q := range []ref.Pt{p, f.G.E.Add(p, f.pool().tors3[0])} {
				if f.subClass(q) != "out" {
					continue
				}
				lib := f.G.NewAff()
				if _, err := libSetBytes(lib, f.encode(q, true)); err == nil {
					t.Fatalf("%s: a curve point with [3r]P != O passes the decoder's subgroup check: %s", g, f.G.E.Str(q))
				}
			}
		}
		rep.Count("C07_ProbeF41", "probe:"+g, 5, 5, g)
	}
	if len(seen) > 0 {
		if !rep.Known("C07", kF41) {
			t.Fatalf("decoders with subgroup checks accept points with an order-3 component (not listed in known_findings.json): %v", seen)
		}
		rep.StillPresent("C07", kF41, strings.Join(seen, ", "))
	}
}

// ---- regressions (rapid-free) -------------------------------------------------------------------

// F4: Decoder.Decode(*[][]fr.Element) / (*[][][]fr.Element) must report an invalid inner vector even
// when a valid one follows it.
func TestC07_RegressF4(t *testing.T) {
	for _, c := range inst.CurveNames {
		if c == "secp256k1" || c == "stark-curve" || !selected(c) {
			continue
		}
		s := newSctx(c)
		bad := beBytes(s.frQ, s.frB) // = q: non canonical, keeps the stream aligned
		good := beBytes(big.NewInt(5), s.frB)
		u32 := func(n uint32) []byte { var b [4]byte; binary.BigEndian.PutUint32(b[:], n); return b[:] }
		cat := func(bs ...[]byte) []byte { return bytes.Join(bs, nil) }
		v2 := cat(u32(2), u32(1), bad, u32(1), good)
		v3 := cat(u32(2), u32(2), u32(1), good, u32(1), bad, u32(1), u32(1), good)
		for _, cse := range []struct {
			kind string
			b    []byte
		}{{"[][]fr", v2}, {"[][][]fr", v3}} {
			dst := reflect.New(s.goType(cse.kind))
			err := reg.Err(reg.M(s.newDecoder(bytes.NewReader(cse.b), false), "Decode", dst.Interface()))
			if err == nil {
				t.Errorf("%s: Decode(*%s) hid the error of a non-canonical element in a non-last inner vector; decoded %s", c, cse.kind, s.render(dst.Elem()))
			}
		}
	}
}

// F22: secp256k1 G1Affine.SetBytes on 32..63 bytes must fail with an error (it panicked, or read the
// spare capacity of the slice).
func TestC07_RegressF22(t *testing.T) {
	if !selected("secp256k1/G1") {
		return
	}
	f := getFmt("secp256k1", "G1")
	full := f.encode(f.pool().sub[2], true)
	for _, n := range []int{0, 1, 31, 32, 33, 40, 63} {
		for _, spare := range []bool{false, true} {
			b := append([]byte{}, full[:n]...)
			if spare {
				b = full[:n] // capacity 64: the remaining bytes are reachable by re-slicing
			}
			func() {
				defer func() {
					if r := recover(); r != nil {
						t.Errorf("secp256k1: SetBytes(%d bytes, spare capacity=%v) panicked: %v", n, spare, r)
					}
				}()
				lib := f.G.NewAff()
				if k, err := libSetBytes(lib, b); err == nil {
					t.Errorf("secp256k1: SetBytes(%d bytes, spare capacity=%v) accepted a truncated encoding (n=%d)", n, spare, k)
				}
			}()
		}
	}
}

// F42: stark-curve accepted the compressed-infinity flag with an arbitrary payload.
func TestC07_RegressF42(t *testing.T) {
	if !selected("stark-curve/G1") {
		return
	}
	s := newSctx("stark-curve")
	f := s.g["G1"]
	for _, pos := range []int{0, 1, 17, 31} {
		b := f.encode(ref.Pt{Inf: true}, false)
		b[pos] |= 1
		lib := f.G.NewAff()
		if _, err := libSetBytes(lib, b); err == nil {
			t.Errorf("stark-curve: SetBytes(%x) accepted an infinity encoding with non-zero padding", b)
		}
		var sl bytes.Buffer
		binary.Write(&sl, binary.BigEndian, uint32(2))
		sl.Write(f.encode(f.pool().sub[0], false))
		sl.Write(b)
		dst := reflect.New(s.goType("[]pt:G1"))
		if err := reg.Err(reg.M(s.newDecoder(bytes.NewReader(sl.Bytes()), false), "Decode", dst.Interface())); err == nil {
			t.Errorf("stark-curve: Decode(*[]G1Affine) accepted an infinity encoding with non-zero padding (%x)", b)
		}
	}
}

// F45: a compressed abscissa with x^3+ax+b = 0 and the "largest" flag was accepted under
// NoSubgroupChecks and re-encoded with the "smallest" flag (two strings for one point of order 2).
func TestC07_RegressF45(t *testing.T) {
	n := 0
	for _, id := range streamShards() {
		if !selected(id[0] + "/" + id[1]) {
			continue
		}
		s := newSctx(id[0])
		f := s.g[id[1]]
		for _, p := range f.pool().tors {
			n++
			small := f.encode(p, false)
			large := append([]byte{}, small...)
			large[0] = large[0]&^f.mask() | f.flagBits(kLarge)
			for _, c := range []struct {
				b  []byte
				ok bool
			}{{small, true}, {large, false}} {
				dst := reflect.New(s.goType("pt:" + id[1]))
				err := reg.Err(reg.M(s.newDecoder(bytes.NewReader(c.b), true), "Decode", dst.Interface()))
				if (err == nil) != c.ok {
					t.Errorf("%s: NoSubgroupChecks Decode(%x): err=%v, want accept=%v", f.Name, c.b, err, c.ok)
				}
				if err == nil {
					if re := libBytes(dst.Interface(), false); !bytes.Equal(re, c.b) {
						t.Errorf("%s: accepted %x re-encodes to %x", f.Name, c.b, re)
					}
				}
				var sl bytes.Buffer
				binary.Write(&sl, binary.BigEndian, uint32(1))
				sl.Write(c.b)
				dsl := reflect.New(s.goType("[]pt:" + id[1]))
				err = reg.Err(reg.M(s.newDecoder(bytes.NewReader(sl.Bytes()), true), "Decode", dsl.Interface()))
				if (err == nil) != c.ok {
					t.Errorf("%s: NoSubgroupChecks Decode(*[]G, %x): err=%v, want accept=%v", f.Name, c.b, err, c.ok)
				}
			}
		}
	}
	_ = n
}

// F44: after a short read in the generic fixed-size path (uint64 and other encoding/binary types)
// BytesRead did not include the bytes that had been consumed.
func TestC07_RegressF44(t *testing.T) {
	for _, c := range inst.CurveNames {
		if c == "secp256k1" || !selected(c) {
			continue
		}
		s := newSctx(c)
		for _, n := range []int{1, 3, 7} {
			cr := &countR{r: bytes.NewReader(make([]byte, n))}
			dec := s.newDecoder(cr, false)
			var u uint64
			if err := reg.Err(reg.M(dec, "Decode", &u)); err == nil {
				t.Errorf("%s: Decode(*uint64) on %d bytes returned nil error", c, n)
			}
			if br := reg.M(dec, "BytesRead")[0].(int64); br != cr.n {
				t.Errorf("%s: Decode(*uint64) on %d bytes: BytesRead=%d, the reader delivered %d bytes", c, n, br, cr.n)
			}
		}
	}
}
