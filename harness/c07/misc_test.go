package c07

// misc_test.go: GT codecs, twisted-Edwards point codec, KZG and Pedersen WriteTo/ReadFrom.

import (
	"bytes"
	"encoding/binary"
	"fmt"
	"io"
	"math/big"
	"reflect"
	"testing"

	"pgregory.net/rapid"

	"verif/harness/internal/gen"
	"verif/harness/internal/inst"
	"verif/harness/internal/ref"
	"verif/harness/internal/reg"
	"verif/harness/internal/rep"
)

// ---- GT ------------------------------------------------------------------------------------------

// GT layouts: E12 (bn254, bls12-377, bls12-381) and E6 (bw6-*) write the coefficients from the last
// one (C1.B2.A1 resp. B1.A2) down to the first, E24 (bls24-*) from the first (D0.C0.B0.A0) up.
var gtForward = map[string]bool{"bls24-315": true, "bls24-317": true}

func propGT(t *rapid.T, c *inst.Curve) {
	test := "C07_GT/" + c.Name
	deg := c.GT.Deg()
	nb := (c.P.BitLen() + 63) / 64 * 8
	sp := gen.FieldSpec{Q: c.P, NLimbs: nb / 8, LimbBits: 64}
	co := make([]*big.Int, deg)
	for i := range co {
		co[i], _ = sp.Elem(t, fmt.Sprintf("c%d", i))
	}
	cls := []string{}
	canonical := true
	one := big.NewInt(1)
	if rapid.IntRange(0, 2).Draw(t, "nc") == 0 {
		i := rapid.IntRange(0, deg-1).Draw(t, "nci")
		switch rapid.IntRange(0, 3).Draw(t, "ncv") {
		case 0:
			co[i] = new(big.Int).Set(c.P)
			cls = append(cls, "coeff:=p")
		case 1:
			co[i] = new(big.Int).Add(c.P, one)
			cls = append(cls, "coeff:p+1")
		case 2:
			co[i] = new(big.Int).Sub(new(big.Int).Lsh(one, uint(8*nb)), one)
			cls = append(cls, "coeff:allones")
		default:
			co[i] = new(big.Int).Sub(c.P, one)
			cls = append(cls, "coeff:p-1")
		}
		canonical = co[i].Cmp(c.P) < 0
		cls = append(cls, fmt.Sprintf("coeff_index:%d", i))
	}
	b := make([]byte, 0, deg*nb)
	for k := 0; k < deg; k++ {
		i := deg - 1 - k
		if gtForward[c.Name] {
			i = k
		}
		b = append(b, beBytes(co[i], nb)...)
	}
	okLen := true
	switch rapid.IntRange(0, 7).Draw(t, "len") {
	case 0:
		b = b[:rapid.IntRange(0, len(b)-1).Draw(t, "cut")]
		okLen = false
		cls = append(cls, "len:short")
	case 1:
		b = append(b, rapid.SliceOfN(rapid.Byte(), 1, 9).Draw(t, "extra")...)
		okLen = false
		cls = append(cls, "len:long")
	default:
		cls = append(cls, "len:exact")
	}
	want := okLen && canonical
	for _, m := range []string{"SetBytes", "Unmarshal"} {
		z := c.Pkg.New("GT")
		if !reg.HasM(z, m) {
			continue // the hand-written E6 of bw6-* has no Marshal/Unmarshal
		}
		poison(reflect.ValueOf(z).Elem())
		err := reg.Err(reg.M(z, m, b))
		if (err == nil) != want {
			t.Fatalf("%s: GT.%s: err=%v, format says accept=%v (length ok=%v, canonical=%v) bytes=%x", c.Name, m, err, want, okLen, canonical, b)
		}
		if !want {
			continue
		}
		got := reg.Flatten(z)
		for i := range co {
			if got[i].Cmp(co[i]) != 0 {
				t.Fatalf("%s: GT.%s: coefficient %d = %s, want %s", c.Name, m, i, got[i].Text(16), co[i].Text(16))
			}
		}
		if re := bytesOf(reg.M(z, "Bytes")[0]); !bytes.Equal(re, b) {
			t.Fatalf("%s: GT bytes do not re-encode to themselves", c.Name)
		}
		if reg.HasM(z, "Marshal") {
			if re := bytesOf(reg.M(z, "Marshal")[0]); !bytes.Equal(re, b) {
				t.Fatalf("%s: GT.Marshal differs from the input", c.Name)
			}
		}
	}
	if want {
		cls = append(cls, "verdict:accept")
	} else {
		cls = append(cls, "verdict:reject")
	}
	rep.Case(test, fmt.Sprintf("%s GT %x", c.Name, b), true, cls...)
}

func TestC07_GT(t *testing.T) {
	for _, n := range inst.PairingNames {
		if !selected(n) {
			continue
		}
		c := inst.GetCurve(n)
		t.Run(n, func(t *testing.T) { rapid.Check(t, func(t *rapid.T) { propGT(t, c) }) })
	}
}

// ---- twisted Edwards -------------------------------------------------------------------------------

// edDecode is the acceptance predicate of the compressed twisted-Edwards point format (doc comment of
// PointAffine.Bytes: little-endian y, the top bit of the last byte set iff x is lexicographically larger
// than -x): canonical y, (1-y^2)/(a-dy^2) a square, the sign bit selects the root, x = 0 has sign 0.
func edDecode(e *inst.Edwards, b []byte) (p ref.EPt, ok bool, why string) {
	n := (e.Q.BitLen() + 63) / 64 * 8
	if len(b) < n {
		return p, false, "short"
	}
	be := make([]byte, n)
	for i := 0; i < n; i++ {
		be[i] = b[n-1-i]
	}
	sign := be[0]>>7 == 1
	be[0] &= 0x7f
	y := new(big.Int).SetBytes(be)
	if y.Cmp(e.Q) >= 0 {
		return p, false, "noncanonical_y"
	}
	F := e.E.F
	y2 := F.Sqr(y)
	den := F.Sub(e.E.A, F.Mul(e.E.D, y2))
	if den.Sign() == 0 {
		return p, false, "no_x"
	}
	x := F.Sqrt(F.Mul(F.Sub(big.NewInt(1), y2), F.Inv(den)))
	if x == nil {
		return p, false, "no_sqrt"
	}
	if x.Sign() == 0 {
		if sign {
			return p, false, "x0_sign_set"
		}
		return ref.EPt{X: x, Y: y}, true, "acc_x0"
	}
	half := new(big.Int).Rsh(new(big.Int).Sub(e.Q, big.NewInt(1)), 1)
	if (x.Cmp(half) > 0) != sign {
		x = F.Neg(x)
	}
	return ref.EPt{X: x, Y: y}, true, "acc"
}

func edEncode(e *inst.Edwards, p ref.EPt) []byte {
	n := (e.Q.BitLen() + 63) / 64 * 8
	be := beBytes(e.E.F.Red(p.Y), n)
	half := new(big.Int).Rsh(new(big.Int).Sub(e.Q, big.NewInt(1)), 1)
	if e.E.F.Red(p.X).Cmp(half) > 0 {
		be[0] |= 0x80
	}
	out := make([]byte, n)
	for i := range out {
		out[i] = be[n-1-i]
	}
	return out
}

func propEdwards(t *rapid.T, e *inst.Edwards) {
	test := "C07_Edwards/" + e.Name
	n := (e.Q.BitLen() + 63) / 64 * 8
	F := e.E.F
	one := big.NewInt(1)
	var y *big.Int
	cls := []string{}
	body := rapid.SampledFrom([]string{"point", "point", "point", "lattice", "lattice", "y=1", "y=-1", "y=0", "noncanonical", "noncanonical", "random"}).Draw(t, "body")
	cls = append(cls, "body:"+body)
	sign := rapid.Bool().Draw(t, "sign")
	var b []byte
	switch body {
	case "point":
		k, _ := gen.Int(t, e.Order, e.Order.BitLen()+3, "k")
		p := e.E.Mul(k, e.Base)
		// value -> bytes against the format model
		lib := e.NewAffine(p)
		b = edEncode(e, p)
		if got := bytesOf(reg.M(lib, "Bytes")[0]); !bytes.Equal(got, b) {
			t.Fatalf("%s: Bytes([%s]Base) = %x, format model says %x", e.Name, k, got, b)
		}
		if got := bytesOf(reg.M(lib, "Marshal")[0]); !bytes.Equal(got, b) {
			t.Fatalf("%s: Marshal differs from Bytes", e.Name)
		}
		if rapid.IntRange(0, 3).Draw(t, "flip") == 0 {
			b[n-1] ^= 0x80 // the other sign: decodes to -P (or fails when x = 0)
			cls = append(cls, "sign_flipped")
		}
	case "lattice":
		y, _ = gen.FieldSpec{Q: e.Q, NLimbs: n / 8, LimbBits: 64}.Elem(t, "y")
	case "y=1":
		y = big.NewInt(1)
	case "y=-1":
		y = F.Neg(one)
	case "y=0":
		y = new(big.Int)
	case "noncanonical":
		switch rapid.IntRange(0, 3).Draw(t, "nc") {
		case 0:
			y = new(big.Int).Set(e.Q)
		case 1:
			y = new(big.Int).Add(e.Q, one)
		case 2:
			y = new(big.Int).Sub(new(big.Int).Lsh(one, uint(8*n-1)), one)
		default:
			// q + (a valid ordinate): reduces to a curve point
			k, _ := gen.Int(t, e.Order, 64, "k")
			y = new(big.Int).Add(e.Q, e.E.Mul(k, e.Base).Y)
		}
		if y.BitLen() > 8*n-1 {
			y = new(big.Int).Set(e.Q)
		}
	case "random":
		b = rapid.SliceOfN(rapid.Byte(), n, n).Draw(t, "rnd")
	}
	if b == nil {
		be := beBytes(y, n)
		if sign {
			be[0] |= 0x80
		}
		b = make([]byte, n)
		for i := range b {
			b[i] = be[n-1-i]
		}
	}
	switch rapid.IntRange(0, 7).Draw(t, "len") {
	case 0:
		b = b[:rapid.IntRange(0, n-1).Draw(t, "cut")]
		cls = append(cls, "len:short")
	case 1:
		b = append(append([]byte{}, b...), rapid.SliceOfN(rapid.Byte(), 1, 5).Draw(t, "extra")...)
		cls = append(cls, "len:extended")
	default:
		cls = append(cls, "len:exact")
	}
	p, ok, why := edDecode(e, b)
	cls = append(cls, "verdict:"+why)
	for _, m := range []string{"SetBytes", "Unmarshal"} {
		lib := e.Pkg.New("PointAffine")
		poison(reflect.ValueOf(lib).Elem())
		r := reg.M(lib, m, b)
		err := reg.Err(r)
		if (err == nil) != ok {
			t.Fatalf("%s: %s(%x): err=%v, the format says accept=%v (%s)", e.Name, m, b, err, ok, why)
		}
		if !ok {
			continue
		}
		if m == "SetBytes" && r[0].(int) != n {
			t.Fatalf("%s: SetBytes reports %d consumed bytes, want %d", e.Name, r[0].(int), n)
		}
		if g := e.ToRef(lib); g.X.Cmp(p.X) != 0 || g.Y.Cmp(p.Y) != 0 {
			t.Fatalf("%s: %s(%x) = (%s,%s), reference (%s,%s)", e.Name, m, b, g.X.Text(16), g.Y.Text(16), p.X.Text(16), p.Y.Text(16))
		}
		if !e.E.OnCurve(p) {
			t.Fatalf("%s: harness: reference decoded an off-curve point", e.Name)
		}
		if re := bytesOf(reg.M(lib, "Bytes")[0]); !bytes.Equal(re, b[:n]) {
			t.Fatalf("%s: accepted %x re-encodes to %x", e.Name, b[:n], re)
		}
	}
	rep.Case(test, fmt.Sprintf("%s %x", e.Name, b), true, cls...)
}

func TestC07_Edwards(t *testing.T) {
	for _, n := range inst.EdwardsNames {
		if !selected(n) {
			continue
		}
		e := inst.GetEdwards(n)
		t.Run(n, func(t *testing.T) { rapid.Check(t, func(t *rapid.T) { propEdwards(t, e) }) })
	}
}

// F14: PointAffine.SetBytes accepted every string of the right length.
func TestC07_RegressF14(t *testing.T) {
	for _, name := range inst.EdwardsNames {
		if !selected(name) {
			continue
		}
		e := inst.GetEdwards(name)
		n := (e.Q.BitLen() + 63) / 64 * 8
		le := func(v *big.Int, sign bool) []byte {
			be := beBytes(v, n)
			if sign {
				be[0] |= 0x80
			}
			out := make([]byte, n)
			for i := range out {
				out[i] = be[n-1-i]
			}
			return out
		}
		// an ordinate without abscissa
		var bad *big.Int
		for y := int64(2); bad == nil; y++ {
			if _, ok := e.E.LiftY(big.NewInt(y)); !ok {
				bad = big.NewInt(y)
			}
		}
		cases := map[string][]byte{
			"y without x (no square root)":  le(bad, false),
			"non-canonical y = q + Base.Y":  le(new(big.Int).Add(e.Q, e.Base.Y), false),
			"non-canonical y = q":           le(e.Q, false),
			"x = 0 (y = 1) with sign bit 1": le(big.NewInt(1), true),
		}
		if new(big.Int).Add(e.Q, e.Base.Y).BitLen() > 8*n-1 {
			delete(cases, "non-canonical y = q + Base.Y")
		}
		for what, b := range cases {
			lib := e.Pkg.New("PointAffine")
			if err := reg.Err(reg.M(lib, "SetBytes", b)); err == nil {
				t.Errorf("%s: SetBytes accepted %s: %x -> %v", name, what, b, lib)
			}
		}
	}
}

// F43: GT.SetBytes of the hand-written E24 (bls24-*) and E6 (bw6-*) reduced non-canonical coefficients silently.
func TestC07_RegressF43(t *testing.T) {
	for _, n := range inst.PairingNames {
		if !selected(n) {
			continue
		}
		c := inst.GetCurve(n)
		nb := (c.P.BitLen() + 63) / 64 * 8
		for _, i := range []int{0, c.GT.Deg() / 2, c.GT.Deg() - 1} {
			b := make([]byte, c.GT.Deg()*nb)
			copy(b[i*nb:], beBytes(new(big.Int).Add(c.P, big.NewInt(1)), nb))
			z := c.Pkg.New("GT")
			if err := reg.Err(reg.M(z, "SetBytes", b)); err == nil {
				t.Errorf("%s: GT.SetBytes accepted the non-canonical coefficient p+1 at chunk %d", n, i)
			}
		}
	}
}

// ---- KZG / Pedersen ---------------------------------------------------------------------------------

type wr interface {
	io.WriterTo
	io.ReaderFrom
}

// roundTrip writes obj with method wm, checks the byte count, optionally the exact bytes, reads it
// back into fresh (method rm) through a chunked counting reader, compares, and checks that truncated
// inputs fail.
func roundTrip(t *rapid.T, what string, obj interface{}, wm, rm string, fresh func() interface{}, want []byte, wantPrefix bool) []byte {
	var buf bytes.Buffer
	cw := &countW{w: &buf}
	r := reg.M(obj, wm, cw)
	if err := reg.Err(r); err != nil {
		t.Fatalf("%s.%s: %v", what, wm, err)
	}
	if n := r[0].(int64); n != cw.n || n != int64(buf.Len()) {
		t.Fatalf("%s.%s returned %d, writer received %d bytes", what, wm, n, cw.n)
	}
	b := buf.Bytes()
	if want != nil {
		if wantPrefix {
			if len(b) < len(want) || !bytes.Equal(b[:len(want)], want) {
				t.Fatalf("%s.%s: output does not start with the documented encoding\n got  %x\n want %x", what, wm, b[:min(len(b), len(want))], want)
			}
		} else if !bytes.Equal(b, want) {
			t.Fatalf("%s.%s: output differs from the format\n got  %x\n want %x", what, wm, b, want)
		}
	}
	rd, _ := drawReader(t, b)
	cr := &countR{r: rd}
	back := fresh()
	r = reg.M(back, rm, cr)
	if err := reg.Err(r); err != nil {
		t.Fatalf("%s.%s of %s output: %v", what, rm, wm, err)
	}
	if n := r[0].(int64); n != int64(len(b)) || cr.n != int64(len(b)) {
		t.Fatalf("%s.%s returned %d, reader delivered %d, stream has %d bytes", what, rm, n, cr.n, len(b))
	}
	if !reflect.DeepEqual(reflect.ValueOf(back).Elem().Interface(), reflect.ValueOf(obj).Elem().Interface()) {
		t.Fatalf("%s: %s(%s(x)) != x", what, rm, wm)
	}
	// truncation
	cut := rapid.IntRange(0, len(b)-1).Draw(t, "cut")
	cr = &countR{r: bytes.NewReader(b[:cut])}
	r = reg.M(fresh(), rm, cr)
	if err := reg.Err(r); err == nil {
		t.Fatalf("%s.%s accepted a stream truncated at %d of %d bytes", what, rm, cut, len(b))
	}
	if n := r[0].(int64); n != cr.n {
		t.Fatalf("%s.%s on a truncated stream returned %d, reader delivered %d", what, rm, n, cr.n)
	}
	return b
}

func setField(ptr interface{}, name string, val reflect.Value) {
	reflect.ValueOf(ptr).Elem().FieldByName(name).Set(val)
}

func (s *sctx) ptSlice(grp string, ps []ref.Pt) reflect.Value {
	f := s.g[grp]
	sl := reflect.MakeSlice(reflect.SliceOf(f.G.AffType()), len(ps), len(ps))
	for i, p := range ps {
		sl.Index(i).Set(reflect.ValueOf(f.G.FromRef(p)).Elem())
	}
	return sl
}

func (s *sctx) serPts(grp string, ps []ref.Pt, raw bool) []byte {
	var w bytes.Buffer
	binary.Write(&w, binary.BigEndian, uint32(len(ps)))
	for _, p := range ps {
		w.Write(s.g[grp].encode(p, raw))
	}
	return w.Bytes()
}

func propKZG(t *rapid.T, s *sctx) {
	test := "C07_KZG/" + s.curve
	kz := reg.Get("ecc/" + s.curve + "/kzg")
	g1, g2 := s.g["G1"], s.g["G2"]
	size := rapid.IntRange(2, 6).Draw(t, "size")
	alpha, _ := gen.Int(t, s.frQ, s.frQ.BitLen(), "alpha")
	alpha.Abs(alpha).Mod(alpha, s.frQ)
	if alpha.Sign() == 0 {
		alpha.SetInt64(2)
	}
	res := kz.F("NewSRS", uint64(size), alpha)
	if err := reg.Err(res); err != nil {
		t.Fatalf("%s: NewSRS: %v", s.curve, err)
	}
	srs := res[0]
	// reference SRS: [alpha^i]G1, and G2, [alpha]G2, G1 at the head of the verifying key
	pts := make([]ref.Pt, size)
	a := big.NewInt(1)
	for i := range pts {
		pts[i] = g1.G.E.Mul(a, g1.G.Gen)
		a = new(big.Int).Mod(new(big.Int).Mul(a, alpha), s.frQ)
	}
	ag2 := g2.G.E.Mul(alpha, g2.G.Gen)
	pk, vk := reg.Field(srs, "Pk"), reg.Field(srs, "Vk")
	for _, raw := range []bool{false, true} {
		wm := "WriteTo"
		if raw {
			wm = "WriteRawTo"
		}
		pkB := s.serPts("G1", pts, raw)
		vkHead := append(append(append([]byte{}, g2.encode(g2.G.Gen, raw)...), g2.encode(ag2, raw)...), g1.encode(g1.G.Gen, raw)...)
		roundTrip(t, s.curve+" kzg.ProvingKey", pk, wm, "ReadFrom", func() interface{} { return kz.New("ProvingKey") }, pkB, false)
		roundTrip(t, s.curve+" kzg.ProvingKey", pk, wm, "UnsafeReadFrom", func() interface{} { return kz.New("ProvingKey") }, pkB, false)
		vb := roundTrip(t, s.curve+" kzg.VerifyingKey", vk, wm, "ReadFrom", func() interface{} { return kz.New("VerifyingKey") }, vkHead, true)
		sb := roundTrip(t, s.curve+" kzg.SRS", srs, wm, "ReadFrom", func() interface{} { return kz.New("SRS") }, append(append([]byte{}, pkB...), vb...), false)
		roundTrip(t, s.curve+" kzg.SRS", srs, wm, "UnsafeReadFrom", func() interface{} { return kz.New("SRS") }, sb, false)
	}
	// opening proofs
	h, hs := g1.drawSub(t, "H", true)
	cv := s.genFelt(t, "claimed", "fr")
	op := kz.New("OpeningProof")
	setField(op, "H", reflect.ValueOf(g1.G.FromRef(h)).Elem())
	reg.Unflatten(reg.Field(op, "ClaimedValue"), []*big.Int{cv.v})
	roundTrip(t, s.curve+" kzg.OpeningProof", op, "WriteTo", "ReadFrom", func() interface{} { return kz.New("OpeningProof") },
		append(append([]byte{}, g1.encode(h, false)...), cv.leaf...), false)
	bp := kz.New("BatchOpeningProof")
	setField(bp, "H", reflect.ValueOf(g1.G.FromRef(h)).Elem())
	vec := s.genVec(t, "cvs", 4, func(i int) *node { return s.genFelt(t, fmt.Sprintf("cv%d", i), "fr") })
	vals := reflect.New(reflect.SliceOf(s.frT)).Elem()
	s.build(vals, vec)
	setField(bp, "ClaimedValues", vals)
	var vb bytes.Buffer
	vec.write(&vb)
	roundTrip(t, s.curve+" kzg.BatchOpeningProof", bp, "WriteTo", "ReadFrom", func() interface{} { return kz.New("BatchOpeningProof") },
		append(append([]byte{}, g1.encode(h, false)...), vb.Bytes()...), false)
	rep.Case(test, fmt.Sprintf("%s size=%d alpha=%s H=%s claimed=%s n=%d", s.curve, size, alpha.Text(16), hs, cv.v.Text(16), len(vec.kids)), true,
		fmt.Sprintf("srs_size:%d", size), fmt.Sprintf("batch_values:%d", len(vec.kids)))
}

func propPedersen(t *rapid.T, s *sctx) {
	test := "C07_Pedersen/" + s.curve
	pd := reg.Get("ecc/" + s.curve + "/fr/pedersen")
	n := rapid.IntRange(0, 4).Draw(t, "n")
	basis, sigma := make([]ref.Pt, n), make([]ref.Pt, n)
	for i := range basis {
		basis[i], _ = s.g["G1"].drawSub(t, fmt.Sprintf("b%d", i), true)
		sigma[i], _ = s.g["G1"].drawSub(t, fmt.Sprintf("s%d", i), true)
	}
	pk := pd.New("ProvingKey")
	setField(pk, "Basis", s.ptSlice("G1", basis))
	setField(pk, "BasisExpSigma", s.ptSlice("G1", sigma))
	g, _ := s.g["G2"].drawSub(t, "g", true)
	gs, _ := s.g["G2"].drawSub(t, "gs", true)
	vk := pd.New("VerifyingKey")
	setField(vk, "G", reflect.ValueOf(s.g["G2"].G.FromRef(g)).Elem())
	setField(vk, "GSigmaNeg", reflect.ValueOf(s.g["G2"].G.FromRef(gs)).Elem())
	for _, raw := range []bool{false, true} {
		wm := "WriteTo"
		if raw {
			wm = "WriteRawTo"
		}
		roundTrip(t, s.curve+" pedersen.ProvingKey", pk, wm, "ReadFrom", func() interface{} { return pd.New("ProvingKey") },
			append(s.serPts("G1", basis, raw), s.serPts("G1", sigma, raw)...), false)
		want := append(append([]byte{}, s.g["G2"].encode(g, raw)...), s.g["G2"].encode(gs, raw)...)
		roundTrip(t, s.curve+" pedersen.VerifyingKey", vk, wm, "ReadFrom", func() interface{} { return pd.New("VerifyingKey") }, want, false)
		roundTrip(t, s.curve+" pedersen.VerifyingKey", vk, wm, "UnsafeReadFrom", func() interface{} { return pd.New("VerifyingKey") }, want, false)
	}
	// a proving key whose two vectors differ in length is refused
	if n > 0 {
		b := append(s.serPts("G1", basis, false), s.serPts("G1", sigma[:n-1], false)...)
		if err := reg.Err(reg.M(pd.New("ProvingKey"), "ReadFrom", bytes.NewReader(b))); err == nil {
			t.Fatalf("%s: pedersen.ProvingKey.ReadFrom accepted vectors of different lengths", s.curve)
		}
	}
	rep.Case(test, fmt.Sprintf("%s n=%d %s %s", s.curve, n, s.g["G2"].G.E.Str(g), s.g["G1"].G.E.Str(ref.Pt{Inf: n == 0})), true, fmt.Sprintf("basis_len:%d", n))
}

func TestC07_KZG(t *testing.T) {
	for _, n := range inst.PairingNames {
		if !selected(n) {
			continue
		}
		s := newSctx(n)
		t.Run(n, func(t *testing.T) { rapid.Check(t, func(t *rapid.T) { propKZG(t, s) }) })
	}
}

func TestC07_Pedersen(t *testing.T) {
	for _, n := range inst.PairingNames {
		if !selected(n) {
			continue
		}
		s := newSctx(n)
		t.Run(n, func(t *testing.T) { rapid.Check(t, func(t *rapid.T) { propPedersen(t, s) }) })
	}
}
