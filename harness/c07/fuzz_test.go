package c07

// fuzz_test.go: native fuzz targets (thorough tier). The semantic oracle (format model + reference
// curve arithmetic) runs inside the target; the corpus is seeded with valid encodings and hostile
// constants. The instance is chosen with VERIF_INST ("curve/G1"); default bn254/G1.

import (
	"bytes"
	"encoding/binary"
	"math/big"
	"os"
	"testing"

	"verif/harness/internal/ref"
	"verif/harness/internal/rep"
)

func fuzzGroup() (string, string) {
	if os.Getenv("VERIF_INST") != "" {
		for _, id := range groupIDs() {
			if selected(id[0] + "/" + id[1]) {
				return id[0], id[1]
			}
		}
	}
	return "bn254", "G1"
}

// hostile returns encodings around the format's boundaries for group f.
func (f *fmtG) hostile() [][]byte {
	var out [][]byte
	pl := f.pool()
	add := func(b []byte) { out = append(out, b) }
	for _, p := range append(append([]ref.Pt{{Inf: true}}, pl.sub[:4]...), pl.cof[:2]...) {
		add(f.encode(p, true))
		if !f.NoFlag {
			add(f.encode(p, false))
		}
	}
	for _, p := range append(append([]ref.Pt{}, pl.tors...), pl.tors3...) {
		add(f.encode(p, true))
		if !f.NoFlag {
			add(f.encode(p, false))
		}
	}
	one := big.NewInt(1)
	consts := []*big.Int{f.P, new(big.Int).Add(f.P, one), new(big.Int).Sub(f.P, one), new(big.Int).Rsh(f.P, 1),
		new(big.Int).Sub(new(big.Int).Lsh(one, uint(8*f.FpB)), one), new(big.Int)}
	for _, c := range consts {
		for i := 0; i < 2*f.D; i++ {
			x, y := append(ref.V{}, pl.sub[1].X...), append(ref.V{}, pl.sub[1].Y...)
			if i < f.D {
				x[i] = c
			} else {
				y[i-f.D] = c
			}
			b := make([]byte, 2*f.S)
			f.putCoord(b[:f.S], x)
			f.putCoord(b[f.S:], y)
			add(b)
			if !f.NoFlag && i < f.D {
				for _, pat := range f.patterns() {
					cb := append([]byte{}, b[:f.S]...)
					cb[0] = cb[0]&^f.mask() | pat
					add(cb)
				}
			}
		}
	}
	for _, x := range pl.nonsq {
		b := make([]byte, f.S)
		f.putCoord(b, x)
		if !f.NoFlag {
			b[0] |= f.flagBits(kSmall)
		}
		add(b)
	}
	return out
}

func FuzzC07_SetBytes(f *testing.F) {
	c, g := fuzzGroup()
	fm := getFmt(c, g)
	for _, b := range fm.hostile() {
		f.Add(b)
		if len(b) > 3 {
			f.Add(b[:len(b)-1])
		}
	}
	test := "C07_FuzzSetBytes/" + fm.Name
	n := int64(2 * len(fm.hostile()))
	rep.Count(test, "fuzz_seed_corpus", n, n, fm.Name+": valid encodings, order-2/order-3 points, coordinates p, p+1, p-1, 2^(8n)-1 under every flag pattern")
	rep.Note(test, "native fuzzing: only the seed corpus is counted here; executions per second are in the job log (workers are separate processes)")
	f.Fuzz(func(t *testing.T, b []byte) {
		if len(b) > 4*fm.S {
			return
		}
		v := fm.decode(b, true)
		if pv, kf := fm.pinned(b, v, true); kf != "" {
			fm.checkSetBytesPinned(t, b, pv)
			return
		}
		fm.checkSetBytes(t, b, v, len(b)%2 == 1)
		rep.Count(test, "verdict:"+v.why, 1, 0, "")
	})
}

var fuzzKinds = []string{"u64", "fr", "fp", "[]fr", "[]fp", "[][]fr", "[][][]fr", "[]u64", "[][]u64", "pt", "[]pt"}

// FuzzC07_DecodeStream: data = option byte (bit 0 NoSubgroupChecks, bit 1 one-byte reader, bits 2..3
// number of items - 1), then one byte per item selecting its type, then the stream.
func FuzzC07_DecodeStream(f *testing.F) {
	c, g := fuzzGroup()
	if c == "secp256k1" {
		c = "bn254"
	}
	s := newSctx(c)
	fm := s.g[g]
	kinds := fuzzKinds
	if !s.full {
		kinds = []string{"u64", "fr", "fp", "[]fr", "[]fp", "pt", "[]pt"}
	}
	u32 := func(n uint32) []byte { var b [4]byte; binary.BigEndian.PutUint32(b[:], n); return b[:] }
	cat := func(bs ...[]byte) []byte { return bytes.Join(bs, nil) }
	felt := beBytes(big.NewInt(7), s.frB)
	bad := beBytes(s.frQ, s.frB)
	kindIdx := func(k string) byte {
		for i, x := range kinds {
			if x == k {
				return byte(i)
			}
		}
		return 0
	}
	seed := func(opt byte, ks []string, stream []byte) {
		h := []byte{opt | byte(len(ks)-1)<<2}
		for _, k := range ks {
			h = append(h, kindIdx(k))
		}
		f.Add(append(h, stream...))
	}
	for opt := byte(0); opt < 4; opt++ {
		seed(opt, []string{"u64", "fr"}, cat([]byte{0, 0, 0, 0, 0, 0, 0, 9}, felt))
		seed(opt, []string{"[]fr"}, cat(u32(2), felt, felt))
		seed(opt, []string{"[]fr"}, cat(u32(2), bad, felt))
		seed(opt, []string{"[]fr"}, cat(u32(1<<22), felt))
		if s.full {
			seed(opt, []string{"[][]fr", "u64"}, cat(u32(2), u32(1), felt, u32(1), felt, []byte{1, 2, 3, 4, 5, 6, 7, 8}))
			seed(opt, []string{"[][]fr"}, cat(u32(2), u32(1), bad, u32(1), felt))
			seed(opt, []string{"[][][]fr"}, cat(u32(2), u32(2), u32(1), felt, u32(1), bad, u32(1), u32(1), felt))
			seed(opt, []string{"[]u64", "[][]u64"}, cat(u32(1), []byte{0, 0, 0, 0, 0, 0, 0, 1}, u32(1), u32(1), []byte{0, 0, 0, 0, 0, 0, 0, 2}))
		}
		for i, b := range fm.hostile() {
			if i%3 == 0 {
				seed(opt, []string{"pt"}, b)
				seed(opt, []string{"[]pt"}, cat(u32(2), fm.encode(fm.pool().sub[0], false), b))
			}
		}
	}
	test := "C07_FuzzDecodeStream/" + fm.Name
	rep.Count(test, "fuzz_seed_corpus", 1, 1, fm.Name+": typed decode scripts over valid, non-canonical (aligned) and huge-prefix streams, hostile point encodings single and in slices")
	rep.Note(test, "native fuzzing: only the seed corpus is counted here; executions per second are in the job log (workers are separate processes)")
	f.Fuzz(func(t *testing.T, data []byte) {
		if len(data) < 2 || len(data) > 1200 {
			return
		}
		nosub, onebyte := data[0]&1 == 1, data[0]&2 == 2
		k := int(data[0]>>2&3) + 1
		if len(data) < 1+k {
			return
		}
		script := make([]string, k)
		for i := range script {
			kd := kinds[int(data[1+i])%len(kinds)]
			if kd == "pt" || kd == "[]pt" {
				kd += ":" + g
			}
			script[i] = kd
		}
		b := data[1+k:]
		off := 0
		for _, kd := range script {
			e, over, ok := s.guard(kd, b, off)
			if over {
				return
			}
			if !ok {
				break
			}
			off = e
		}
		rd, rk := drawFixedReader(b, onebyte)
		var cls []string
		s.checkDecode(t, test, script, b, nosub, rd, rk, nil, &cls)
		rep.Count(test, "streams", 1, 0, "")
	})
}
