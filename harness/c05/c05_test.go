// Package c05: pairings are bilinear, non-degenerate and identical across computation variants.
//
// Oracles (all exact, none shares code with the library's pairing):
//
//	(a) PairingCheck([a_i]G1,[b_i]G2) is true  <=>  sum a_i*b_i = 0 (mod r)           (iff, both directions)
//	(b) Pair([a_i]G1,[b_i]G2) = e(G1,G2)^(sum a_i*b_i), the power taken with ref.Exp in the reference GT
//	    field on the flattened value; e(G1,G2) != 1 and e(G1,G2)^r = 1 by the reference (r prime => order r)
//	(c) Pair, MillerLoop+FinalExponentiation, FinalExponentiation over a partition of the pairs,
//	    the product of the single pairings (multiplied by the reference), MillerLoopFixedQ/PairFixedQ/
//	    PairingCheckFixedQ on PrecomputeLines, and the input with the infinity pairs removed all give the
//	    same GT element (library Equal and identical Bytes())
//	(d) size mismatches are errors (sizes_test.go)
//
// The points [a]G1, [b]G2 are computed by the reference curve model (ref.Curve.Mul / Add / Neg), never by
// the library's scalar multiplication, so the pairing is the only library code under test.
package c05

import (
	"crypto/sha256"
	"fmt"
	"math/big"
	"os"
	"reflect"
	"regexp"
	"strings"
	"sync"
	"testing"

	"pgregory.net/rapid"

	"verif/harness/internal/inst"
	"verif/harness/internal/ref"
	"verif/harness/internal/reg"
	"verif/harness/internal/rep"
)

func TestMain(m *testing.M) { rep.Main(m) }

func selected(name string) bool {
	p := os.Getenv("VERIF_INST")
	if p == "" {
		return true
	}
	ok, _ := regexp.MatchString(p, name)
	return ok
}

// ---- per-curve context ---------------------------------------------------------------------------

const poolSize = 24

type pc struct {
	c    *inst.Curve
	G    [2]*inst.Group
	r    *big.Int
	gt   ref.Fld
	pool []*big.Int // fixed pseudo-random scalars (function of the curve name only)

	mu    sync.Mutex
	cache [2]map[string]ref.Pt // reference multiples of the generators, keyed by the scalar mod r

	e0 ref.V // flattened library value Pair([G1],[G2]), validated by the reference in setup
}

var (
	pcMu  sync.Mutex
	pcs   = map[string]*pc{}
	pcErr = map[string]error{}
)

func getPC(name string) (*pc, error) {
	pcMu.Lock()
	defer pcMu.Unlock()
	if p, ok := pcs[name]; ok {
		return p, pcErr[name]
	}
	c := inst.GetCurve(name)
	p := &pc{c: c, G: [2]*inst.Group{c.G1, c.G2}, r: c.R, gt: c.GT}
	p.cache[0], p.cache[1] = map[string]ref.Pt{}, map[string]ref.Pt{}
	for j := 0; len(p.pool) < poolSize; j++ {
		var buf []byte
		for ctr := 0; len(buf) < (p.r.BitLen()+7)/8+8; ctr++ {
			h := sha256.Sum256([]byte(fmt.Sprintf("verif/C05/%s/%d/%d", name, j, ctr)))
			buf = append(buf, h[:]...)
		}
		s := new(big.Int).SetBytes(buf)
		s.Mod(s, p.r)
		if s.Sign() != 0 {
			p.pool = append(p.pool, s)
		}
	}
	pcs[name] = p
	pcErr[name] = p.setup()
	return p, pcErr[name]
}

// setup computes e0 = Pair([G1],[G2]) with the library and validates it with the reference:
// e0 != 1 and e0^r = 1, hence (r prime) e0 has exact order r.
func (p *pc) setup() error {
	one := big.NewInt(1)
	v, err := p.pair(p.libPts(0, []*big.Int{one}), p.libPts(1, []*big.Int{one}))
	if err != nil {
		return fmt.Errorf("%s: Pair(G1,G2) returned error %v", p.c.Name, err)
	}
	p.e0 = flat(v)
	if len(p.e0) != p.gt.Deg() {
		return fmt.Errorf("%s: GT flattens to %d coefficients, reference GT has degree %d", p.c.Name, len(p.e0), p.gt.Deg())
	}
	if !p.r.ProbablyPrime(32) {
		return fmt.Errorf("%s: r is not prime", p.c.Name)
	}
	if p.gt.Eq(p.e0, p.gt.One()) {
		return fmt.Errorf("%s: degenerate pairing: e(G1,G2) = 1", p.c.Name)
	}
	if !p.gt.Eq(ref.Exp(p.gt, p.e0, p.r), p.gt.One()) {
		return fmt.Errorf("%s: e(G1,G2)^r != 1 (reference exponentiation): %s", p.c.Name, ref.String(p.e0))
	}
	return nil
}

// pt returns the reference point [s]G of group gi (0 = G1, 1 = G2).
func (p *pc) pt(gi int, s *big.Int) ref.Pt {
	s = new(big.Int).Mod(s, p.r)
	if s.Sign() == 0 {
		return ref.Pt{Inf: true}
	}
	key := s.Text(62)
	p.mu.Lock()
	defer p.mu.Unlock()
	if q, ok := p.cache[gi][key]; ok {
		return q
	}
	g := p.G[gi]
	var q ref.Pt
	if o, ok := p.cache[gi][new(big.Int).Sub(p.r, s).Text(62)]; ok {
		q = g.E.Neg(o)
	} else {
		q = g.E.Mul(s, g.Gen)
	}
	p.cache[gi][key] = q
	return q
}

// ptSum records [s1+s2]G = [s1]G + [s2]G (one reference addition instead of a full multiplication).
func (p *pc) ptSum(gi int, s1, s2 *big.Int) *big.Int {
	s := new(big.Int).Add(s1, s2)
	s.Mod(s, p.r)
	if s.Sign() == 0 {
		return s
	}
	a, b := p.pt(gi, s1), p.pt(gi, s2)
	p.mu.Lock()
	defer p.mu.Unlock()
	if _, ok := p.cache[gi][s.Text(62)]; !ok {
		p.cache[gi][s.Text(62)] = p.G[gi].E.Add(a, b)
	}
	return s
}

// libPts converts the reference multiples into library affine points (pointers).
func (p *pc) libPts(gi int, ss []*big.Int) []interface{} {
	out := make([]interface{}, len(ss))
	for i, s := range ss {
		out[i] = p.G[gi].FromRef(p.pt(gi, s))
	}
	return out
}

// ---- library entry points (through the reflective registry) --------------------------------------

func ptr(v interface{}) interface{} {
	rv := reflect.ValueOf(v)
	q := reflect.New(rv.Type())
	q.Elem().Set(rv)
	return q.Interface()
}

func flat(gt interface{}) ref.V { return ref.V(reg.Flatten(gt)) }

// sl builds a fresh []G1Affine / []G2Affine (values are copied, so the library never sees our originals).
func (p *pc) sl(gi int, pts []interface{}) interface{} { return reg.SliceOf(p.G[gi].AffType(), pts...) }

// unchanged panics (a rapid failure) when a library call modified the point slice it was given:
// the entry points take their inputs by slice and must treat them as read-only.
func (p *pc) unchanged(fn string, gi int, sl interface{}, pts []interface{}) {
	for i, want := range pts {
		if !reflect.DeepEqual(reg.Flatten(reg.Index(sl, i)), reg.Flatten(want)) {
			panic(fmt.Sprintf("%s: %s modified element %d of the caller's []G%dAffine input", p.c.Name, fn, i, gi+1))
		}
	}
}

func (p *pc) callPQ(fn string, P, Q []interface{}) []interface{} {
	ps, qs := p.sl(0, P), p.sl(1, Q)
	res := p.c.Pkg.F(fn, ps, qs)
	p.unchanged(fn, 0, ps, P)
	p.unchanged(fn, 1, qs, Q)
	return res
}

func (p *pc) pair(P, Q []interface{}) (interface{}, error) {
	res := p.callPQ("Pair", P, Q)
	return ptr(res[0]), reg.Err(res)
}

func (p *pc) check(P, Q []interface{}) (bool, error) {
	res := p.callPQ("PairingCheck", P, Q)
	return res[0].(bool), reg.Err(res)
}

func (p *pc) miller(P, Q []interface{}) (interface{}, error) {
	res := p.callPQ("MillerLoop", P, Q)
	return ptr(res[0]), reg.Err(res)
}

// finalExp calls FinalExponentiation(ms[0], ms[1:]...). The Miller-loop outputs are inputs: the call must
// leave every one of them untouched (the caller may finish the same outputs again, alone or in another product).
func (p *pc) finalExp(ms ...interface{}) interface{} {
	before := make([]interface{}, len(ms))
	for i, m := range ms {
		before[i] = reg.Clone(m)
	}
	out := ptr(p.c.Pkg.F("FinalExponentiation", ms...)[0])
	for i, m := range ms {
		if !reflect.DeepEqual(reflect.ValueOf(m).Elem().Interface(), reflect.ValueOf(before[i]).Elem().Interface()) {
			panic(fmt.Sprintf("%s: FinalExponentiation with %d arguments modified its argument %d (a Miller-loop output owned by the caller)", p.c.Name, len(ms), i))
		}
	}
	return out
}

// lines returns a fresh [][2][n]LineEvaluationAff with PrecomputeLines(Q_i) at index i.
func (p *pc) lines(Q []interface{}) interface{} {
	at := p.c.Pkg.Funcs["PrecomputeLines"].Type().Out(0)
	s := reflect.MakeSlice(reflect.SliceOf(at), len(Q), len(Q))
	for i, q := range Q {
		s.Index(i).Set(reflect.ValueOf(p.c.Pkg.F("PrecomputeLines", q)[0]))
	}
	return s.Interface()
}

// cpLines deep-copies a lines slice (elements are arrays of structs of arrays: plain values).
func cpLines(l interface{}) interface{} {
	v := reflect.ValueOf(l)
	s := reflect.MakeSlice(v.Type(), v.Len(), v.Len())
	reflect.Copy(s, v)
	return s.Interface()
}

func (p *pc) millerFixed(P []interface{}, lines interface{}) (interface{}, error) {
	ps := p.sl(0, P)
	res := p.c.Pkg.F("MillerLoopFixedQ", ps, lines)
	p.unchanged("MillerLoopFixedQ", 0, ps, P)
	return ptr(res[0]), reg.Err(res)
}

func (p *pc) pairFixed(P []interface{}, lines interface{}) (interface{}, error) {
	ps := p.sl(0, P)
	res := p.c.Pkg.F("PairFixedQ", ps, lines)
	p.unchanged("PairFixedQ", 0, ps, P)
	return ptr(res[0]), reg.Err(res)
}

func (p *pc) checkFixed(P []interface{}, lines interface{}) (bool, error) {
	ps := p.sl(0, P)
	res := p.c.Pkg.F("PairingCheckFixedQ", ps, lines)
	p.unchanged("PairingCheckFixedQ", 0, ps, P)
	return res[0].(bool), reg.Err(res)
}

// sameGT: library equality and identical serialisation.
func sameGT(a, b interface{}) bool {
	if !reg.Bool(a, "Equal", b) {
		return false
	}
	return reflect.DeepEqual(reg.M(a, "Bytes")[0], reg.M(b, "Bytes")[0])
}

// ---- generator -----------------------------------------------------------------------------------

type pcase struct {
	k     int
	a, b  []*big.Int // scalars in [0,r); 0 = point at infinity
	mode  string     // how the sum was constructed
	delta *big.Int   // target of the construction (nil for free)
	part  []int      // group index of every pair for the split-product variant
	rpow  bool       // also check x^r = 1 by the reference
	reuse bool       // also pair a second P vector against the same precomputed lines
}

func (p *pc) drawScalar(t *rapid.T, gi int, label string) *big.Int {
	r := p.r
	neg := func(x *big.Int) *big.Int { return new(big.Int).Sub(r, x) }
	switch rapid.IntRange(0, 11).Draw(t, label+"_kind") {
	case 0, 1:
		return big.NewInt(int64(rapid.IntRange(1, 6).Draw(t, label+"_small")))
	case 2:
		return neg(big.NewInt(int64(rapid.IntRange(1, 6).Draw(t, label+"_small"))))
	case 3, 4, 5:
		return new(big.Int).Set(p.pool[rapid.IntRange(0, poolSize-1).Draw(t, label+"_pool")])
	case 6:
		return neg(p.pool[rapid.IntRange(0, poolSize-1).Draw(t, label+"_pool")])
	case 7:
		h := new(big.Int).Rsh(r, 1) // (r-1)/2
		sp := []*big.Int{h, new(big.Int).Add(h, big.NewInt(1)),
			new(big.Int).Mod(new(big.Int).Lsh(big.NewInt(1), 64), r),
			new(big.Int).Mod(new(big.Int).Sub(new(big.Int).Lsh(big.NewInt(1), 128), big.NewInt(1)), r)}
		return new(big.Int).Set(sp[rapid.IntRange(0, len(sp)-1).Draw(t, label+"_sp")])
	case 8, 9: // sum / difference of two pool scalars, or pool + small: one reference addition
		x := p.pool[rapid.IntRange(0, poolSize-1).Draw(t, label+"_pool")]
		var y *big.Int
		if rapid.Bool().Draw(t, label+"_ps") {
			y = big.NewInt(int64(rapid.IntRange(1, 6).Draw(t, label+"_small")))
		} else {
			y = p.pool[rapid.IntRange(0, poolSize-1).Draw(t, label+"_pool2")]
		}
		if rapid.Bool().Draw(t, label+"_neg") {
			y = neg(y)
		}
		s := p.ptSum(gi, x, y)
		if s.Sign() == 0 {
			return big.NewInt(1)
		}
		return s
	default: // fresh, nearly uniform
		n := (r.BitLen()+7)/8 + 8
		b := rapid.SliceOfN(rapid.Byte(), n, n).Draw(t, label+"_u")
		s := new(big.Int).SetBytes(b)
		s.Mod(s, r)
		if s.Sign() == 0 {
			return big.NewInt(1)
		}
		return s
	}
}

func drawPos(t *rapid.T, k int, label string) int {
	switch rapid.SampledFrom([]string{"first", "middle", "middle", "last"}).Draw(t, label) {
	case "first":
		return 0
	case "last":
		return k - 1
	default:
		if k >= 3 {
			return rapid.IntRange(1, k-2).Draw(t, label+"_i")
		}
		return rapid.IntRange(0, k-1).Draw(t, label+"_i")
	}
}

func (p *pc) mulmod(x, y *big.Int) *big.Int {
	z := new(big.Int).Mul(x, y)
	return z.Mod(z, p.r)
}

func (p *pc) sum(a, b []*big.Int) *big.Int {
	s := new(big.Int)
	for i := range a {
		s.Add(s, new(big.Int).Mul(a[i], b[i]))
	}
	return s.Mod(s, p.r)
}

// solve sets a[j] (side 0) or b[j] (side 1) such that sum a_i b_i = delta (mod r).
// The other side at j must be non-zero.
func (p *pc) solve(cs *pcase, j, side int, delta *big.Int) {
	rest := new(big.Int)
	for i := 0; i < cs.k; i++ {
		if i != j {
			rest.Add(rest, new(big.Int).Mul(cs.a[i], cs.b[i]))
		}
	}
	need := new(big.Int).Sub(delta, rest)
	need.Mod(need, p.r)
	if side == 0 {
		cs.a[j] = p.mulmod(need, new(big.Int).ModInverse(cs.b[j], p.r))
	} else {
		cs.b[j] = p.mulmod(need, new(big.Int).ModInverse(cs.a[j], p.r))
	}
}

func (p *pc) genCase(t *rapid.T) *pcase {
	r := p.r
	k := rapid.SampledFrom([]int{1, 2, 2, 2, 3, 3, 4, 4, 5, 6}).Draw(t, "k")
	cs := &pcase{k: k, a: make([]*big.Int, k), b: make([]*big.Int, k)}
	za, zb := make([]bool, k), make([]bool, k)
	switch rapid.IntRange(0, 9).Draw(t, "infpat") {
	case 0, 1, 2, 3, 4: // no infinity requested
	case 5:
		za[drawPos(t, k, "infpos")] = true
	case 6:
		zb[drawPos(t, k, "infpos")] = true
	case 7: // one on each side (possibly the same index)
		za[drawPos(t, k, "infposA")] = true
		zb[drawPos(t, k, "infposB")] = true
	default: // random mask
		for i := 0; i < k; i++ {
			switch rapid.IntRange(0, 8).Draw(t, "infm") {
			case 0:
				za[i] = true
			case 1:
				zb[i] = true
			case 2:
				za[i], zb[i] = true, true
			}
		}
	}
	for i := 0; i < k; i++ {
		cs.a[i], cs.b[i] = new(big.Int), new(big.Int)
		if !za[i] {
			cs.a[i] = p.drawScalar(t, 0, "a")
		}
		if !zb[i] {
			cs.b[i] = p.drawScalar(t, 1, "b")
		}
	}
	var live []int
	for i := 0; i < k; i++ {
		if !za[i] && !zb[i] {
			live = append(live, i)
		}
	}
	side := func() int { // which side is solved for: G1 multiples are cheaper for the reference
		if rapid.IntRange(0, 3).Draw(t, "side") == 0 {
			return 1
		}
		return 0
	}
	cs.mode = rapid.SampledFrom([]string{"free", "free", "zero_solved", "zero_solved", "zero_cancel", "zero_cancel", "target", "target"}).Draw(t, "mode")
	if len(live) == 0 && cs.mode != "free" {
		cs.mode = "zero_allinf"
	}
	switch cs.mode {
	case "zero_solved":
		cs.delta = new(big.Int)
		p.solve(cs, live[rapid.IntRange(0, len(live)-1).Draw(t, "j")], side(), cs.delta)
	case "target":
		h := new(big.Int).Rsh(r, 1)
		ds := []*big.Int{big.NewInt(1), new(big.Int).Sub(r, big.NewInt(1)), big.NewInt(1), new(big.Int).Sub(r, big.NewInt(1)),
			big.NewInt(2), big.NewInt(30030), new(big.Int).Mod(new(big.Int).Lsh(big.NewInt(1), 64), r),
			new(big.Int).Mod(new(big.Int).Lsh(big.NewInt(1), 128), r), h, new(big.Int).Sub(r, big.NewInt(2))}
		cs.delta = ds[rapid.IntRange(0, len(ds)-1).Draw(t, "delta")]
		p.solve(cs, live[rapid.IntRange(0, len(live)-1).Draw(t, "j")], side(), cs.delta)
	case "zero_cancel":
		cs.delta = new(big.Int)
		if len(live) < 2 {
			cs.mode = "zero_solved"
			p.solve(cs, live[0], side(), cs.delta)
			break
		}
		perm := rapid.Permutation(live).Draw(t, "perm")
		i, j, rest := perm[0], perm[1], perm[2:]
		if len(rest) == 1 {
			// three pairs with the same Q: (a,b), (a',b), (-(a+a'), b)
			m := rest[0]
			cs.b[j], cs.b[m] = cs.b[i], cs.b[i]
			s := p.ptSum(0, cs.a[i], cs.a[j])
			cs.a[m] = new(big.Int).Mod(new(big.Int).Neg(s), r)
			cs.mode = "zero_cancel3"
			break
		}
		switch rapid.SampledFrom([]string{"negP", "negQ", "cross"}).Draw(t, "cancel") {
		case "negP": // (a,b), (-a,b)
			cs.a[j], cs.b[j] = new(big.Int).Sub(r, cs.a[i]), cs.b[i]
		case "negQ": // (a,b), (a,-b)
			cs.a[j], cs.b[j] = cs.a[i], new(big.Int).Sub(r, cs.b[i])
		default: // (a,b), (b,-a)
			cs.a[j], cs.b[j] = cs.b[i], new(big.Int).Sub(r, cs.a[i])
		}
		if len(rest) >= 2 {
			p.solve(cs, rest[0], side(), cs.delta)
		}
	}
	// partition for the split-product variant: g non-empty groups
	g := rapid.IntRange(1, min(k, 3)).Draw(t, "groups")
	cs.part = make([]int, k)
	for i := 0; i < k; i++ {
		if i < g {
			cs.part[i] = i // every group non-empty
		} else {
			cs.part[i] = rapid.IntRange(0, g-1).Draw(t, "grp")
		}
	}
	if g > 1 && k > 1 {
		sh := rapid.Permutation(cs.part).Draw(t, "partperm")
		cs.part = sh
	}
	cs.rpow = rapid.IntRange(0, 3).Draw(t, "rpow") == 0
	cs.reuse = rapid.IntRange(0, 2).Draw(t, "reuse") == 0
	return cs
}

func hexs(v []*big.Int) string {
	s := make([]string, len(v))
	for i, x := range v {
		s[i] = x.Text(16)
	}
	return "[" + strings.Join(s, ",") + "]"
}

func posName(i, k int) string {
	switch {
	case i == 0:
		return "first"
	case i == k-1:
		return "last"
	default:
		return "middle"
	}
}

// classes returns the labels of a case, computed from the actual scalars.
func (p *pc) classes(cs *pcase, S *big.Int) (cl []string, anyInf bool) {
	k := cs.k
	cl = append(cl, fmt.Sprintf("k=%d", k), "mode:"+cs.mode)
	if k >= 3 {
		cl = append(cl, "k>=3")
	}
	seen := map[string]bool{}
	add := func(c string) {
		if !seen[c] {
			seen[c] = true
			cl = append(cl, c)
		}
	}
	ninf := 0
	for i := 0; i < k; i++ {
		ia, ib := cs.a[i].Sign() == 0, cs.b[i].Sign() == 0
		if ia {
			add("infG1@" + posName(i, k))
		}
		if ib {
			add("infG2@" + posName(i, k))
		}
		if ia && ib {
			add("inf:both_sides_same_index")
		}
		if ia || ib {
			ninf++
		}
	}
	switch {
	case ninf == 0:
		add("inf:none")
	case ninf == k:
		add("inf:all_pairs")
	default:
		add("inf:some_pairs")
	}
	for i := 0; i < k; i++ {
		for j := i + 1; j < k; j++ {
			if cs.a[i].Sign() == 0 || cs.b[i].Sign() == 0 || cs.a[j].Sign() == 0 || cs.b[j].Sign() == 0 {
				continue
			}
			if cs.a[i].Cmp(cs.a[j]) == 0 {
				add("rel:same_P")
			}
			if cs.b[i].Cmp(cs.b[j]) == 0 {
				add("rel:same_Q")
			}
			if new(big.Int).Add(cs.a[i], cs.a[j]).Cmp(p.r) == 0 {
				add("rel:opposite_P")
			}
			if new(big.Int).Add(cs.b[i], cs.b[j]).Cmp(p.r) == 0 {
				add("rel:opposite_Q")
			}
		}
	}
	if S.Sign() == 0 {
		add("sum:zero")
		if strings.HasPrefix(cs.mode, "zero_") {
			add("sum:zero_constructed")
		}
		if ninf < k {
			add("sum:zero_with_finite_pairs")
		}
	} else {
		add("sum:nonzero")
		if S.Cmp(big.NewInt(1)) == 0 || new(big.Int).Add(S, big.NewInt(1)).Cmp(p.r) == 0 {
			add("sum:off_by_one")
		} else if cs.mode == "target" {
			add("sum:zero_mod_small_not_mod_r")
		}
	}
	return cl, ninf > 0
}

// ---- the property --------------------------------------------------------------------------------

var variants = []string{"variant:Pair", "variant:PairingCheck", "variant:MillerLoop+FinalExp", "variant:FinalExp_split_product",
	"variant:product_of_singles", "variant:MillerLoopFixedQ+FinalExp", "variant:PairFixedQ", "variant:PairingCheckFixedQ", "variant:fixedQ"}

func propPairing(t *rapid.T, p *pc) {
	cs := p.genCase(t)
	name, k, gt := p.c.Name, cs.k, p.gt
	S := p.sum(cs.a, cs.b)
	zero := S.Sign() == 0
	key := fmt.Sprintf("%s k=%d a=%s b=%s part=%v", name, k, hexs(cs.a), hexs(cs.b), cs.part)
	cl, anyInf := p.classes(cs, S)
	if cs.delta != nil && S.Cmp(cs.delta) != 0 {
		t.Fatalf("harness error: constructed sum %s differs from its target %s (%s)", S, cs.delta, key)
	}
	P, Q := p.libPts(0, cs.a), p.libPts(1, cs.b)

	// (b) exact value: e(G1,G2)^S by the reference
	want := ref.Exp(gt, p.e0, S)

	v, err := p.pair(P, Q)
	if err != nil {
		t.Fatalf("%s: Pair returned error %v on %d pairs (%s)", name, err, k, key)
	}
	vv := flat(v)
	if !gt.Eq(vv, want) {
		t.Fatalf("%s: Pair([a_i]G1,[b_i]G2) != e(G1,G2)^(sum a_i b_i)\n case %s\n sum %s\n got  %s\n want %s", name, key, S.Text(16), ref.String(vv), ref.String(want))
	}
	if isOne := gt.Eq(vv, gt.One()); isOne != zero {
		t.Fatalf("%s: Pair is one = %v but sum a_i b_i = 0 is %v (%s)", name, isOne, zero, key)
	}
	// (a) the iff
	ok, err := p.check(P, Q)
	if err != nil {
		t.Fatalf("%s: PairingCheck returned error %v (%s)", name, err, key)
	}
	if ok != zero {
		t.Fatalf("%s: PairingCheck = %v but (sum a_i b_i = 0 mod r) is %v; sum = %s (%s)", name, ok, zero, S.Text(16), key)
	}
	// result lies in GT
	if !reg.Bool(v, "IsInSubGroup") {
		t.Fatalf("%s: Pair result is not in GT according to IsInSubGroup (%s)", name, key)
	}
	if cs.rpow {
		if !gt.Eq(ref.Exp(gt, vv, p.r), gt.One()) {
			t.Fatalf("%s: Pair result x has x^r != 1 by the reference (%s)", name, key)
		}
		cl = append(cl, "check:x^r=1_by_reference")
	}

	cmp := func(what string, w interface{}) {
		if !sameGT(v, w) {
			t.Fatalf("%s: %s differs from Pair\n case %s\n Pair  %s\n other %s", name, what, key, ref.String(vv), ref.String(flat(w)))
		}
	}

	// (c) Miller loop followed by the final exponentiation
	m, err := p.miller(P, Q)
	if err != nil {
		t.Fatalf("%s: MillerLoop returned error %v (%s)", name, err, key)
	}
	cmp("FinalExponentiation(MillerLoop(P,Q))", p.finalExp(m))

	// (c) product split across the variadic argument
	ng := 0
	for _, g := range cs.part {
		if g+1 > ng {
			ng = g + 1
		}
	}
	var ms []interface{}
	for g := 0; g < ng; g++ {
		var Pg, Qg []interface{}
		for i := 0; i < k; i++ {
			if cs.part[i] == g {
				Pg, Qg = append(Pg, P[i]), append(Qg, Q[i])
			}
		}
		mg, err := p.miller(Pg, Qg)
		if err != nil {
			t.Fatalf("%s: MillerLoop on sub-product %d returned error %v (%s)", name, g, err, key)
		}
		ms = append(ms, mg)
	}
	cmp(fmt.Sprintf("FinalExponentiation over %d sub-products", ng), p.finalExp(ms...))
	cl = append(cl, fmt.Sprintf("split:%d_groups", ng))
	if ng > 1 {
		// the same Miller-loop outputs again: the same product a second time, and each output finished alone
		// (product by the reference) - a call that accumulated into one of its arguments shows here
		cmp(fmt.Sprintf("FinalExponentiation over the same %d sub-products, second call", ng), p.finalExp(ms...))
		pr := gt.One()
		for _, mg := range ms {
			pr = gt.Mul(pr, flat(p.finalExp(mg)))
		}
		if !gt.Eq(pr, vv) {
			t.Fatalf("%s: the product of FinalExponentiation(m_g) over the %d sub-products (outputs re-used after a joint call) differs from Pair (%s)", name, ng, key)
		}
		cl = append(cl, "variant:FinalExp_outputs_reused")
	}

	// (c) multi-pairing vs product of single pairings (multiplied by the reference)
	prod := gt.One()
	for i := 0; i < k; i++ {
		vi, err := p.pair(P[i:i+1], Q[i:i+1])
		if err != nil {
			t.Fatalf("%s: Pair on the single pair %d returned error %v (%s)", name, i, err, key)
		}
		if (cs.a[i].Sign() == 0 || cs.b[i].Sign() == 0) && !reg.Bool(vi, "IsOne") {
			t.Fatalf("%s: pairing with a point at infinity (pair %d) is not one (%s)", name, i, key)
		}
		prod = gt.Mul(prod, flat(vi))
	}
	if !gt.Eq(prod, vv) {
		t.Fatalf("%s: multi-pairing differs from the product of the %d single pairings (%s)", name, k, key)
	}

	// (c) fixed-Q variants on precomputed lines. One lines object serves all three entry points (and the
	// same object again below): the entry points must leave it untouched (F25: they used to scale it in place).
	L := p.lines(Q)
	L0 := cpLines(L)
	mf, err := p.millerFixed(P, L)
	if err != nil {
		t.Fatalf("%s: MillerLoopFixedQ returned error %v (%s)", name, err, key)
	}
	cmp("FinalExponentiation(MillerLoopFixedQ(P,lines))", p.finalExp(mf))
	vf, err := p.pairFixed(P, L)
	if err != nil {
		t.Fatalf("%s: PairFixedQ returned error %v (%s)", name, err, key)
	}
	cmp("PairFixedQ (second use of the same precomputed lines)", vf)
	okf, err := p.checkFixed(P, L)
	if err != nil {
		t.Fatalf("%s: PairingCheckFixedQ returned error %v (%s)", name, err, key)
	}
	if okf != zero {
		t.Fatalf("%s: PairingCheckFixedQ = %v but (sum a_i b_i = 0 mod r) is %v (third use of the same lines) (%s)", name, okf, zero, key)
	}
	if !reflect.DeepEqual(L, L0) {
		t.Fatalf("%s: the fixed-Q entry points modified the caller's precomputed lines (%s)", name, key)
	}
	// the same lines with the P side permuted consistently is covered by the generator; here: lines of Q_i
	// re-used for a different P vector (the point of a fixed argument): e([2a_i]G1, Q_i) = e0^(2S)
	if cs.reuse {
		a2 := make([]*big.Int, k)
		for i := range a2 {
			a2[i] = p.ptSum(0, cs.a[i], cs.a[i])
		}
		v2, err := p.pairFixed(p.libPts(0, a2), L)
		if err != nil {
			t.Fatalf("%s: PairFixedQ([2a_i]G1, same lines) returned error %v (%s)", name, err, key)
		}
		want2 := gt.Mul(want, want)
		if !gt.Eq(flat(v2), want2) {
			t.Fatalf("%s: PairFixedQ([2a_i]G1, lines re-used) != e(G1,G2)^(2 sum a_i b_i) (%s)", name, key)
		}
		cl = append(cl, "variant:fixedQ_lines_reused_other_P")
	}

	// (c) bw6-761 only: the direct-extension Miller loop
	if p.c.Pkg.Has("MillerLoopDirect") {
		res := p.callPQ("MillerLoopDirect", P, Q)
		if e := reg.Err(res); e != nil {
			t.Fatalf("%s: MillerLoopDirect returned error %v (%s)", name, e, key)
		}
		cmp("FinalExponentiation(MillerLoopDirect(P,Q))", p.finalExp(ptr(res[0])))
		cl = append(cl, "variant:MillerLoopDirect+FinalExp")
	}

	// (c) infinity pairs contribute the identity: removing them does not change the result
	if anyInf {
		var Pf, Qf []interface{}
		for i := 0; i < k; i++ {
			if cs.a[i].Sign() != 0 && cs.b[i].Sign() != 0 {
				Pf, Qf = append(Pf, P[i]), append(Qf, Q[i])
			}
		}
		if len(Pf) == 0 {
			if !reg.Bool(v, "IsOne") {
				t.Fatalf("%s: every pair holds a point at infinity but Pair is not one (%s)", name, key)
			}
		} else {
			w, err := p.pair(Pf, Qf)
			if err != nil {
				t.Fatalf("%s: Pair on the %d finite pairs returned error %v (%s)", name, len(Pf), err, key)
			}
			cmp("Pair with the infinity pairs removed", w)
			wf, err := p.pairFixed(Pf, p.lines(Qf))
			if err != nil {
				t.Fatalf("%s: PairFixedQ on the %d finite pairs returned error %v (%s)", name, len(Pf), err, key)
			}
			cmp("PairFixedQ with the infinity pairs removed", wf)
		}
		cl = append(cl, "variant:infinity_pairs_removed")
	}
	cl = append(cl, variants...)
	// DESIGN rule: k>=2, or an infinity pair, or a constructed-zero sum, or a fixed-Q variant
	// (every case runs the fixed-Q variants, so every case qualifies).
	rep.Case("C05_Pairing/"+name, key, true, cl...)
}

func forCurves(t *testing.T, body func(t *testing.T, p *pc)) {
	for _, n := range inst.PairingNames {
		if !selected(n) {
			continue
		}
		n := n
		t.Run(n, func(t *testing.T) {
			p, err := getPC(n)
			if err != nil {
				t.Fatalf("generator pairing invalid, nothing else can be decided: %v", err)
			}
			body(t, p)
		})
	}
}

func TestC05_Pairing(t *testing.T) {
	forCurves(t, func(t *testing.T, p *pc) {
		rep.Note("C05_Pairing/"+p.c.Name, "points [a]G1,[b]G2 computed by the reference curve model (ref.Curve.Mul/Add/Neg), not by the library")
		rapid.Check(t, func(t *rapid.T) { propPairing(t, p) })
	})
}
