package c05

import (
	"math/big"
	"testing"

	"pgregory.net/rapid"

	"verif/harness/internal/ref"
	"verif/harness/internal/reg"
	"verif/harness/internal/rep"
)

// Documented final exponents: FinalExponentiation's doc comment states the result is (prod z_i)^d with
// d = s*(p^k-1)/r and names the cofactor s per curve; x0 is the seed from the package doc.
var feSpec = map[string]struct {
	x0 string
	s  func(x *big.Int) *big.Int
}{
	"bn254":     {"4965661367192848881", func(x *big.Int) *big.Int { return poly(x, 0, 2, 6, 12) }}, // 2x(6x^2+3x+1)
	"bls12-377": {"9586122913090633729", func(x *big.Int) *big.Int { return big.NewInt(3) }},
	"bls12-381": {"-15132376222941642752", func(x *big.Int) *big.Int { return big.NewInt(3) }},
	"bls24-315": {"-3218079743", func(x *big.Int) *big.Int { return big.NewInt(3) }},
	"bls24-317": {"3640754176", func(x *big.Int) *big.Int { return big.NewInt(3) }},
	"bw6-633":   {"-3218079743", func(x *big.Int) *big.Int { return poly(x, 0, -1, 0, 0, -1, 1) }}, // x^5-x^4-x
	"bw6-761":   {"9586122913090633729", func(x *big.Int) *big.Int { return poly(x, 1, 1) }},       // x+1
}

// poly evaluates c0 + c1 x + c2 x^2 + ...
func poly(x *big.Int, c ...int64) *big.Int {
	r := new(big.Int)
	for i := len(c) - 1; i >= 0; i-- {
		r.Mul(r, x)
		r.Add(r, big.NewInt(c[i]))
	}
	return r
}

func (p *pc) finalExponent() *big.Int {
	sp := feSpec[p.c.Name]
	x, _ := new(big.Int).SetString(sp.x0, 10)
	d := new(big.Int).Sub(p.gt.Order(), big.NewInt(1))
	q, m := new(big.Int).DivMod(d, p.r, new(big.Int))
	if m.Sign() != 0 {
		panic("r does not divide p^k-1")
	}
	return q.Mul(q, sp.s(x))
}

// TestC05_FinalExp anchors the exact value: FinalExponentiation(z, _z...) = (prod z_i)^d for the documented
// d, the power computed by ref.Exp in the reference GT field, on arbitrary non-zero field elements (not only
// Miller-loop outputs). This is what distinguishes the documented pairing from any other fixed power of it
// (which would still be bilinear and agree across all variants).
func TestC05_FinalExp(t *testing.T) {
	forCurves(t, func(t *testing.T, p *pc) {
		name, gt := p.c.Name, p.gt
		d := p.finalExponent()
		test := "C05_FinalExp/" + name
		rep.Note(test, "d = s*(p^k-1)/r with s and the seed x0 transcribed from the FinalExponentiation / package doc comments")
		rapid.Check(t, func(t *rapid.T) {
			uniform := func(label string) ref.V {
				z := make(ref.V, gt.Deg())
				nb := (p.c.P.BitLen()+7)/8 + 8
				for i := range z {
					b := rapid.SliceOfN(rapid.Byte(), nb, nb).Draw(t, label)
					z[i] = new(big.Int).Mod(new(big.Int).SetBytes(b), p.c.P)
				}
				if gt.IsZero(z) {
					z[0] = big.NewInt(1)
				}
				return z
			}
			lib := func(z ref.V) interface{} {
				g := p.c.Pkg.New("GT")
				reg.Unflatten(g, z)
				return g
			}
			zs := []ref.V{uniform("z")}
			cl := []string{"fe:uniform_field_element"}
			switch rapid.IntRange(0, 2).Draw(t, "extra") {
			case 1: // a second uniform factor through the variadic argument
				zs = append(zs, uniform("z2"))
				cl = append(cl, "fe:variadic")
			case 2: // a Miller-loop output through the variadic argument
				a, b := p.drawScalar(t, 0, "a"), p.drawScalar(t, 1, "b")
				m, err := p.miller(p.libPts(0, []*big.Int{a}), p.libPts(1, []*big.Int{b}))
				if err != nil {
					t.Fatalf("%s: MillerLoop: %v", name, err)
				}
				zs = append(zs, flat(m))
				cl = append(cl, "fe:variadic", "fe:miller_output")
			}
			prod := gt.One()
			args := make([]interface{}, len(zs))
			for i, z := range zs {
				prod = gt.Mul(prod, z)
				args[i] = lib(z)
			}
			got := flat(p.finalExp(args...))
			want := ref.Exp(gt, prod, d)
			key := name + " FinalExponentiation("
			for _, z := range zs {
				key += ref.String(z) + " "
			}
			if !gt.Eq(got, want) {
				t.Fatalf("%s: FinalExponentiation(z...) != (prod z)^d for the documented d = s(p^k-1)/r\n z = %s\n got  %s\n want %s", name, key, ref.String(got), ref.String(want))
			}
			rep.Case(test, key+")", true, cl...)
		})
	})
}
