package c05

import (
	"math/big"
	"reflect"
	"testing"

	"verif/harness/internal/rep"
)

// TestC05_RegressFixedQLinesReuse (F25): the fixed-argument entry points must not write to the caller's
// precomputed lines. Before the fix MillerLoopFixedQ scaled lines[k][*][i].R0/R1 in place, so the second
// use of one lines object returned a different (wrong) GT element. Rapid-free.
func TestC05_RegressFixedQLinesReuse(t *testing.T) {
	forCurves(t, func(t *testing.T, p *pc) {
		name := p.c.Name
		test := "C05_RegressFixedQLinesReuse/" + name
		for _, sc := range [][2][]int64{
			{{5}, {3}},
			{{5, 7}, {3, 9}},
			{{5, 0, 7}, {3, 4, 0}},
			{{2, 3, 4, 5}, {6, 7, 8, 9}},
		} {
			var a, b []*big.Int
			for i := range sc[0] {
				a, b = append(a, big.NewInt(sc[0][i])), append(b, big.NewInt(sc[1][i]))
			}
			P, Q := p.libPts(0, a), p.libPts(1, b)
			want, err := p.pair(P, Q)
			if err != nil {
				t.Fatal(err)
			}
			L := p.lines(Q)
			L0 := cpLines(L)
			for round := 1; round <= 3; round++ {
				var v interface{}
				var err error
				what := ""
				switch round {
				case 1:
					what = "PairFixedQ"
					v, err = p.pairFixed(P, L)
				case 2:
					what = "FinalExponentiation(MillerLoopFixedQ)"
					var m interface{}
					m, err = p.millerFixed(P, L)
					if err == nil {
						v = p.finalExp(m)
					}
				default:
					what = "PairingCheckFixedQ then PairFixedQ"
					if _, err = p.checkFixed(P, L); err == nil {
						v, err = p.pairFixed(P, L)
					}
				}
				if err != nil {
					t.Fatalf("%s: %s: %v", name, what, err)
				}
				if !reflect.DeepEqual(L, L0) {
					t.Fatalf("%s: k=%d: %s (use %d of the same lines) modified the caller's precomputed lines", name, len(a), what, round)
				}
				if !sameGT(v, want) {
					t.Fatalf("%s: k=%d: %s on re-used lines (use %d) differs from Pair", name, len(a), what, round)
				}
			}
			rep.Case(test, name+" "+hexs(a)+" "+hexs(b), true, "regress:F25_lines_reuse")
		}
	})
}
