package c05

import (
	"fmt"
	"math/big"
	"os"
	"reflect"
	"sort"
	"testing"

	"pgregory.net/rapid"

	"verif/harness/internal/inst"
	"verif/harness/internal/ref"
	"verif/harness/internal/reg"
	"verif/harness/internal/rep"
)

// Many pairs. The property holds "for any number of pairs" and for every placement of the infinity pairs;
// the main property stops at k = 6. Here k runs over sizes around the machine-word boundaries (63..66,
// 127..129) and ~200, with points at infinity (P side, Q side, both) at drawn positions that always include
// indexes around 0, 63/64/65, 127/128/129 and k-1, several at once. Every entry point is called on the same
// input. The oracle stays exact and cheap: the value is e(G1,G2)^(sum a_i b_i) (one reference power, or none
// when the sum is constructed to vanish); the scalars come from a small set of reference multiples, so the
// reference side is scalar arithmetic plus one solved G1 multiple.

var manyK = []int{63, 64, 65, 66, 127, 128, 129, 200}

// manyScalar draws a non-zero scalar from a small, cheap-to-reference set (G2 multiples are the expensive ones).
func (p *pc) manyScalar(t *rapid.T, gi int, label string) *big.Int {
	r := p.r
	np := 4 // pool entries used
	if gi == 1 {
		np = 2
	}
	var s *big.Int
	if rapid.IntRange(0, 2).Draw(t, label+"_kind") == 0 {
		s = new(big.Int).Set(p.pool[rapid.IntRange(0, np-1).Draw(t, label+"_pool")])
	} else {
		s = big.NewInt(int64(rapid.IntRange(1, 5).Draw(t, label+"_small")))
	}
	if rapid.IntRange(0, 2).Draw(t, label+"_neg") == 0 {
		s.Sub(r, s)
	}
	return s
}

func propMany(t *rapid.T, p *pc, k, salt int) {
	name, gt := p.c.Name, p.gt
	// every rapid.Check of one process starts from the same seed: shift the stream by a per-(curve, size) amount
	// so that the sizes (and curves) do not all see the same draws
	for j := 0; j < salt; j++ {
		rapid.Uint64().Draw(t, "salt")
	}
	a, b := make([]*big.Int, k), make([]*big.Int, k)
	for i := 0; i < k; i++ {
		a[i], b[i] = p.manyScalar(t, 0, "a"), p.manyScalar(t, 1, "b")
	}
	// positions of interest (inside [0,k))
	var hot []int
	for _, x := range []int{0, 1, 62, 63, 64, 65, 66, 126, 127, 128, 129, 130, k - 2, k - 1} {
		if x >= 0 && x < k {
			hot = append(hot, x)
		}
	}
	drawIdx := func(label string, lo int) int { // an index >= lo, hot ones preferred
		if lo >= k {
			lo = k - 1
		}
		if rapid.IntRange(0, 3).Draw(t, label+"_any") == 0 {
			return rapid.IntRange(lo, k-1).Draw(t, label+"_i")
		}
		var h []int
		for _, x := range hot {
			if x >= lo {
				h = append(h, x)
			}
		}
		return h[rapid.IntRange(0, len(h)-1).Draw(t, label+"_h")]
	}
	setInf := func(i int, side string) {
		if side == "P" || side == "both" {
			a[i] = new(big.Int)
		}
		if side == "Q" || side == "both" {
			b[i] = new(big.Int)
		}
	}
	// (1) in 3 cases of 4 with k >= 65: a G1 infinity behind the first machine word (and, when k >= 129, in 1 of 2 behind the second)
	if k >= 65 && rapid.IntRange(0, 3).Draw(t, "forceP") != 0 {
		lo := 64
		if k >= 129 && rapid.Bool().Draw(t, "forceP128") {
			lo = 128
		}
		if rapid.IntRange(0, 2).Draw(t, "forceP_at_lo") == 0 {
			setInf(lo, "P") // exactly the first index of the next word
		} else {
			setInf(drawIdx("forcePi", lo), "P")
		}
	}
	// (2) in 1 case of 2 with k >= 65: a G2 infinity at an index >= 64
	if k >= 65 && rapid.Bool().Draw(t, "forceQ") {
		setInf(drawIdx("forceQi", 64), "Q")
	}
	// (3) 0..5 more infinities anywhere, any side
	for n := rapid.IntRange(0, 5).Draw(t, "ninf"); n > 0; n-- {
		setInf(drawIdx("infi", 0), rapid.SampledFrom([]string{"P", "P", "Q", "Q", "both"}).Draw(t, "infside"))
	}
	// the sum: free, or solved at a live index on the G1 side for 0 / 1 / a pool value
	cs := &pcase{k: k, a: a, b: b}
	var live []int
	for i := 0; i < k; i++ {
		if a[i].Sign() != 0 && b[i].Sign() != 0 {
			live = append(live, i)
		}
	}
	mode := rapid.SampledFrom([]string{"zero_solved", "zero_solved", "target_one", "target_pool", "free"}).Draw(t, "mode")
	if len(live) == 0 {
		mode = "zero_allinf"
	}
	switch mode {
	case "zero_solved":
		cs.delta = new(big.Int)
	case "target_one":
		cs.delta = big.NewInt(1)
	case "target_pool":
		cs.delta = new(big.Int).Set(p.pool[5])
	}
	if cs.delta != nil {
		// solve in front of the infinities when possible (a dropped prefix must change the value)
		p.solve(cs, live[rapid.IntRange(0, min(len(live)-1, 7)).Draw(t, "j")], 0, cs.delta)
	}
	S := p.sum(a, b)
	if cs.delta != nil && S.Cmp(cs.delta) != 0 {
		t.Fatalf("harness error: constructed sum differs from its target")
	}
	zero := S.Sign() == 0

	// labels and key
	var infP, infQ []int
	for i := 0; i < k; i++ {
		if a[i].Sign() == 0 {
			infP = append(infP, i)
		}
		if b[i].Sign() == 0 {
			infQ = append(infQ, i)
		}
	}
	cl := []string{fmt.Sprintf("many:k=%d", k), "many:mode:" + mode, "variant:fixedQ_many_pairs", "variant:fixedQ"}
	seen := map[string]bool{}
	add := func(c string) {
		if !seen[c] {
			seen[c] = true
			cl = append(cl, c)
		}
	}
	if k >= 65 {
		add("k>=65")
	}
	if k >= 129 {
		add("k>=129")
	}
	for si, l := range [][]int{infP, infQ} {
		side := []string{"G1", "G2"}[si]
		for _, i := range l {
			if i >= 64 {
				add("inf_at>=64")
				add("inf_at>=64:" + side)
			}
			if i >= 128 {
				add("inf_at>=128:" + side)
			}
			switch i {
			case 0:
				add("many:inf_first:" + side)
			case k - 1:
				add("many:inf_last:" + side)
			case 63, 64, 65:
				add(fmt.Sprintf("many:inf@%d:%s", i, side))
			}
		}
	}
	nInfPairs := k - len(live)
	switch {
	case nInfPairs == 0:
		add("many:no_infinity")
	case nInfPairs >= 2:
		add("many:several_infinity_pairs")
	default:
		add("many:one_infinity_pair")
	}
	if zero {
		add("many:sum_zero")
	} else {
		add("many:sum_nonzero")
	}
	sort.Strings(cl[4:])
	key := fmt.Sprintf("%s k=%d infP=%v infQ=%v mode=%s a=%s b=%s", name, k, infP, infQ, mode, hexs(a), hexs(b))

	P, Q := p.libPts(0, a), p.libPts(1, b)
	want := gt.One()
	if !zero {
		want = ref.Exp(gt, p.e0, S)
	}
	ctx := fmt.Sprintf("%d pairs, G1 infinity at %v, G2 infinity at %v, sum %s", k, infP, infQ, S.Text(16))

	v, err := p.pair(P, Q)
	if err != nil {
		t.Fatalf("%s: Pair returned error %v (%s)", name, err, ctx)
	}
	vv := flat(v)
	if !gt.Eq(vv, want) {
		t.Fatalf("%s: Pair != e(G1,G2)^(sum a_i b_i) on %s\n case %s", name, ctx, key)
	}
	ok, err := p.check(P, Q)
	if err != nil || ok != zero {
		t.Fatalf("%s: PairingCheck = %v, %v but (sum = 0 mod r) is %v on %s\n case %s", name, ok, err, zero, ctx, key)
	}
	cmp := func(what string, w interface{}) {
		if !sameGT(v, w) {
			t.Fatalf("%s: %s differs from Pair = e(G1,G2)^(sum a_i b_i) on %s\n case %s", name, what, ctx, key)
		}
	}
	m, err := p.miller(P, Q)
	if err != nil {
		t.Fatalf("%s: MillerLoop returned error %v (%s)", name, err, ctx)
	}
	cmp("FinalExponentiation(MillerLoop)", p.finalExp(m))
	// two sub-products, cut at a drawn index (often a word boundary)
	cut := rapid.SampledFrom([]int{1, 63, 64, 65, k / 2, k - 1}).Draw(t, "cut")
	if cut >= k {
		cut = k - 1
	}
	m1, err1 := p.miller(P[:cut], Q[:cut])
	m2, err2 := p.miller(P[cut:], Q[cut:])
	if err1 != nil || err2 != nil {
		t.Fatalf("%s: MillerLoop on the sub-products [0,%d) / [%d,%d): %v %v", name, cut, cut, k, err1, err2)
	}
	cmp(fmt.Sprintf("FinalExponentiation(MillerLoop[0:%d], MillerLoop[%d:%d])", cut, cut, k), p.finalExp(m1, m2))

	// fixed-Q entry points on one lines object
	L := p.lines(Q)
	L0 := cpLines(L)
	mf, err := p.millerFixed(P, L)
	if err != nil {
		t.Fatalf("%s: MillerLoopFixedQ returned error %v (%s)", name, err, ctx)
	}
	cmp("FinalExponentiation(MillerLoopFixedQ)", p.finalExp(mf))
	vf, err := p.pairFixed(P, L)
	if err != nil {
		t.Fatalf("%s: PairFixedQ returned error %v (%s)", name, err, ctx)
	}
	cmp("PairFixedQ", vf)
	okf, err := p.checkFixed(P, L)
	if err != nil || okf != zero {
		t.Fatalf("%s: PairingCheckFixedQ = %v, %v but (sum = 0 mod r) is %v on %s\n case %s", name, okf, err, zero, ctx, key)
	}
	if !reflect.DeepEqual(L, L0) {
		t.Fatalf("%s: the fixed-Q entry points modified the caller's precomputed lines (%s)", name, ctx)
	}
	// mixed product: the first sub-product through the fixed-Q loop, the second through the plain one
	lv := reflect.ValueOf(L)
	mf1, err := p.millerFixed(P[:cut], lv.Slice(0, cut).Interface())
	if err != nil {
		t.Fatalf("%s: MillerLoopFixedQ on [0,%d): %v", name, cut, err)
	}
	cmp(fmt.Sprintf("FinalExponentiation(MillerLoopFixedQ[0:%d], MillerLoop[%d:%d])", cut, cut, k), p.finalExp(mf1, m2))

	if p.c.Pkg.Has("MillerLoopDirect") {
		res := p.callPQ("MillerLoopDirect", P, Q)
		if e := reg.Err(res); e != nil {
			t.Fatalf("%s: MillerLoopDirect returned error %v (%s)", name, e, ctx)
		}
		cmp("FinalExponentiation(MillerLoopDirect)", p.finalExp(ptr(res[0])))
		cl = append(cl, "variant:MillerLoopDirect_many_pairs")
	}
	rep.Case("C05_ManyPairs/"+name, key, true, cl...)
}

// TestC05_ManyPairs runs the property once per size (rapid.checks cases for each k), so that every size is
// reached in every run whatever the seed. VERIF_SHARD=i/n keeps the sizes with index = i mod n.
func TestC05_ManyPairs(t *testing.T) {
	si, sn := 0, 1
	fmt.Sscanf(os.Getenv("VERIF_SHARD"), "%d/%d", &si, &sn)
	forCurves(t, func(t *testing.T, p *pc) {
		rep.Note("C05_ManyPairs/"+p.c.Name, "k in {63,64,65,66,127,128,129,200}; exact value e(G1,G2)^(sum a_i b_i); scalars from a small set of reference multiples")
		for i, k := range manyK {
			if sn > 1 && i%sn != si {
				continue
			}
			k, salt := k, i+len(manyK)*curveIndex(p.c.Name)
			t.Run(fmt.Sprintf("k=%d", k), func(t *testing.T) {
				rapid.Check(t, func(t *rapid.T) { propMany(t, p, k, salt) })
			})
		}
	})
}

func curveIndex(name string) int {
	for i, n := range inst.PairingNames {
		if n == name {
			return i
		}
	}
	return 0
}
