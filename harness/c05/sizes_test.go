package c05

import (
	"fmt"
	"math/big"
	"testing"

	"verif/harness/internal/ref"
	"verif/harness/internal/reg"
	"verif/harness/internal/rep"
)

// noPanic runs f and reports a panic as a test failure with a readable message.
func noPanic(t *testing.T, what string, f func()) {
	t.Helper()
	defer func() {
		if r := recover(); r != nil {
			t.Fatalf("%s panicked: %v", what, r)
		}
	}()
	f()
}

// TestC05_Sizes: (d) every entry point reports len(P) != len(Q) (resp. len(lines)) as an error, whatever
// the content (points at infinity would be filtered later, the lengths are still mismatched).
// Empty input (0,0): nothing is documented; the code returns an error. Asserted: no panic, and if no
// error is returned the value is the empty product (one / true).
func TestC05_Sizes(t *testing.T) {
	forCurves(t, func(t *testing.T, p *pc) {
		name := p.c.Name
		test := "C05_Sizes/" + name
		// all (m,n) in 0..4 x 0..4, plus mismatches around the machine-word sizes
		var grid [][2]int
		for m := 0; m <= 4; m++ {
			for n := 0; n <= 4; n++ {
				grid = append(grid, [2]int{m, n})
			}
		}
		grid = append(grid, [2]int{64, 65}, [2]int{65, 64}, [2]int{129, 128}, [2]int{65, 1}, [2]int{0, 65})
		for _, content := range []string{"finite", "infinity_last", "infinity_all"} {
			for _, mn := range grid {
				{
					m, n := mn[0], mn[1]
					if m > 4 || n > 4 {
						if content == "infinity_all" {
							continue
						}
					}
					sc := func(cnt int) []*big.Int {
						out := make([]*big.Int, cnt)
						for i := range out {
							out[i] = big.NewInt(int64(i%7 + 1))
							if content == "infinity_all" || (content == "infinity_last" && i == cnt-1) {
								out[i] = new(big.Int)
							}
						}
						return out
					}
					P, Q := p.libPts(0, sc(m)), p.libPts(1, sc(n))
					var lcache interface{}
					lines := func() interface{} {
						if lcache == nil {
							lcache = p.lines(Q)
						}
						return lcache
					}
					large := ""
					if m > 4 || n > 4 {
						large = "size:mismatch_large"
					}
					type res struct {
						gt  interface{}
						ok  *bool
						err error
					}
					b := func(v bool) *bool { return &v }
					entries := []struct {
						nm string
						f  func() res
					}{
						{"Pair", func() res { v, e := p.pair(P, Q); return res{gt: v, err: e} }},
						{"PairingCheck", func() res { v, e := p.check(P, Q); return res{ok: b(v), err: e} }},
						{"MillerLoop", func() res { v, e := p.miller(P, Q); return res{gt: v, err: e} }},
						{"PairFixedQ", func() res { v, e := p.pairFixed(P, lines()); return res{gt: v, err: e} }},
						{"PairingCheckFixedQ", func() res { v, e := p.checkFixed(P, lines()); return res{ok: b(v), err: e} }},
						{"MillerLoopFixedQ", func() res { v, e := p.millerFixed(P, lines()); return res{gt: v, err: e} }},
					}
					if p.c.Pkg.Has("MillerLoopDirect") {
						entries = append(entries, struct {
							nm string
							f  func() res
						}{"MillerLoopDirect", func() res {
							r := p.c.Pkg.F("MillerLoopDirect", p.sl(0, P), p.sl(1, Q))
							return res{gt: ptr(r[0]), err: reg.Err(r)}
						}})
					}
					for _, en := range entries {
						var r res
						what := fmt.Sprintf("%s: %s with len(P)=%d len(Q)=%d (%s)", name, en.nm, m, n, content)
						noPanic(t, what, func() { r = en.f() })
						key := fmt.Sprintf("%s %s m=%d n=%d %s", name, en.nm, m, n, content)
						switch {
						case m != n:
							if r.err == nil {
								t.Fatalf("%s: size mismatch not reported as an error", what)
							}
							if large != "" {
								rep.Case(test, key, true, "size:mismatch", large, "entry:"+en.nm, "content:"+content)
							} else {
								rep.Case(test, key, true, "size:mismatch", "entry:"+en.nm, "content:"+content)
							}
						case m == 0:
							if r.err == nil {
								if r.ok != nil && !*r.ok {
									t.Fatalf("%s: empty product reported as != 1 without error", what)
								}
								if r.gt != nil && !reg.Bool(r.gt, "IsOne") {
									t.Fatalf("%s: empty product is not one and no error was returned", what)
								}
								rep.Case(test, key, true, "size:empty_no_error", "entry:"+en.nm)
							} else {
								rep.Case(test, key, true, "size:empty_error", "entry:"+en.nm)
							}
						default:
							if r.err != nil {
								t.Fatalf("%s: equal sizes but error %v", what, r.err)
							}
							rep.Case(test, key, false, "size:match", "entry:"+en.nm, "content:"+content)
						}
					}
				}
			}
		}
		rep.Exhaustive(test)
	})
}

// TestC05_Generator: (b) non-degeneracy. e(G1,G2) != 1 and e(G1,G2)^r = 1 are established by the
// reference in setup (getPC fails otherwise); here additionally: library IsInSubGroup, PairingCheck on
// the generators is false, e(G1,G2) is not killed by any proper... (r is prime, so order exactly r),
// and e([r-1]G1,G2) * e(G1,G2) = 1 by the reference product.
func TestC05_Generator(t *testing.T) {
	forCurves(t, func(t *testing.T, p *pc) {
		name, gt := p.c.Name, p.gt
		test := "C05_Generator/" + name
		one := []*big.Int{big.NewInt(1)}
		G1, G2 := p.libPts(0, one), p.libPts(1, one)
		v, err := p.pair(G1, G2)
		if err != nil {
			t.Fatal(err)
		}
		if !reg.Bool(v, "IsInSubGroup") {
			t.Fatalf("%s: e(G1,G2) not in GT according to IsInSubGroup", name)
		}
		if reg.Bool(v, "IsOne") {
			t.Fatalf("%s: IsOne(e(G1,G2))", name)
		}
		ok, err := p.check(G1, G2)
		if err != nil || ok {
			t.Fatalf("%s: PairingCheck(G1,G2) = %v, %v; want false, nil", name, ok, err)
		}
		okf, err := p.checkFixed(G1, p.lines(G2))
		if err != nil || okf {
			t.Fatalf("%s: PairingCheckFixedQ(G1,lines(G2)) = %v, %v; want false, nil", name, okf, err)
		}
		// the inverse by the reference: e0^(r-1) * e0 = 1 and Pair([r-1]G1, G2) equals it
		rm1 := new(big.Int).Sub(p.r, big.NewInt(1))
		inv := ref.Exp(gt, p.e0, rm1)
		if !gt.Eq(gt.Mul(inv, p.e0), gt.One()) {
			t.Fatalf("%s: e0^(r-1)*e0 != 1 by the reference", name)
		}
		w, err := p.pair(p.libPts(0, []*big.Int{rm1}), G2)
		if err != nil || !gt.Eq(flat(w), inv) {
			t.Fatalf("%s: Pair([r-1]G1,G2) != e(G1,G2)^(r-1)", name)
		}
		w2, err := p.pair(G1, p.libPts(1, []*big.Int{rm1}))
		if err != nil || !gt.Eq(flat(w2), inv) {
			t.Fatalf("%s: Pair(G1,[r-1]G2) != e(G1,G2)^(r-1)", name)
		}
		rep.Case(test, name+" e(G1,G2) has exact order r (reference): "+ref.String(p.e0), true, "generator:order_r", "generator:nondegenerate")
		rep.Note(test, "e(G1,G2) != 1 and e(G1,G2)^r = 1 computed by ref.Exp in the reference GT tower; r checked prime")
	})
}
