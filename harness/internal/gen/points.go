package gen

// Constructive point generators for the short-Weierstrass groups (inst.Group) and the twisted
// Edwards companions (inst.Edwards). Every point is built by the *reference* (ref.Curve /
// ref.Edwards); nothing here calls the library's group arithmetic. Used by C02, C03 and later
// properties.

import (
	"math/big"
	"sync"

	"pgregory.net/rapid"

	"verif/harness/internal/inst"
	"verif/harness/internal/ref"
	"verif/harness/internal/reg"
)

// SpecOf returns the boundary-lattice spec of an inst.Field.
func SpecOf(f inst.Field) FieldSpec {
	return FieldSpec{Q: f.Q(), NLimbs: f.NLimbs(), LimbBits: f.LimbBits()}
}

// BaseSpec returns the lattice spec of the base prime field of a curve.
func BaseSpec(c *inst.Curve) FieldSpec { return SpecOf(inst.FieldByName(c.Name + "/fp")) }

// ScalarSpec returns the lattice spec of the scalar field of a curve.
func ScalarSpec(c *inst.Curve) FieldSpec { return SpecOf(inst.FieldByName(c.Name + "/fr")) }

// FieldV draws an element of F (a tower over the prime field described by s) coefficient-wise:
// small constants, a single non-zero coefficient (zero sub-coordinates), every coefficient from
// the prime-field lattice, or uniform.
func FieldV(t *rapid.T, F ref.Fld, s FieldSpec, label string) (ref.V, string) {
	d := F.Deg()
	v := make(ref.V, d)
	for i := range v {
		v[i] = new(big.Int)
	}
	switch rapid.IntRange(0, 7).Draw(t, label+"fm") {
	case 0:
		c := rapid.SampledFrom([]int64{0, 1, -1, 2, -2, 3}).Draw(t, label+"c")
		v[0] = new(big.Int).Mod(bi(c), s.Q)
		return v, "const"
	case 1: // one non-zero coefficient
		i := rapid.IntRange(0, d-1).Draw(t, label+"i")
		v[i], _ = s.Elem(t, label+"e")
		if d == 1 {
			return v, "lattice"
		}
		return v, "single_coeff"
	case 2, 3:
		for i := range v {
			v[i], _ = s.Elem(t, label+"e")
		}
		return v, "lattice"
	default:
		for i := range v {
			v[i] = s.Uniform(t, label+"u")
		}
		return v, "uniform"
	}
}

// NonZeroV is FieldV with zero replaced by one.
func NonZeroV(t *rapid.T, F ref.Fld, s FieldSpec, label string) (ref.V, string) {
	v, c := FieldV(t, F, s, label)
	if F.IsZero(v) {
		return F.One(), "one"
	}
	if F.Eq(v, F.One()) {
		return v, "one"
	}
	return v, c
}

// ---- cached [2^i]G tables: [k]G for k in [0,r) costs popcount(k) reference additions ---------

type genTable struct {
	mu  sync.Mutex
	pow []ref.Pt
}

var (
	tabMu  sync.Mutex
	tables = map[*inst.Group]*genTable{}
)

// MulGen returns [k]G computed by the reference for any integer k, through k mod r and a cached
// table of [2^i]G. Sound because inst validated [r]G = O.
func MulGen(g *inst.Group, k *big.Int) ref.Pt {
	tabMu.Lock()
	tb := tables[g]
	if tb == nil {
		tb = &genTable{}
		tables[g] = tb
	}
	tabMu.Unlock()
	tb.mu.Lock()
	if tb.pow == nil {
		n := g.R.BitLen()
		tb.pow = make([]ref.Pt, n)
		tb.pow[0] = g.Gen
		for i := 1; i < n; i++ {
			tb.pow[i] = g.E.Double(tb.pow[i-1])
		}
	}
	pow := tb.pow
	tb.mu.Unlock()
	m := new(big.Int).Mod(k, g.R)
	acc := g.E.Infinity()
	for i := 0; i < m.BitLen(); i++ {
		if m.Bit(i) == 1 {
			acc = g.E.Add(acc, pow[i])
		}
	}
	return acc
}

// Pt is a generated reference point with its provenance.
type Pt struct {
	P     ref.Pt
	Class string   // generator class
	K     *big.Int // discrete log w.r.t. the group generator when known (subgroup points), else nil
}

// SubgroupPoint draws [k]G with k from the integer lattice around r (O included: k = 0, r, kr).
func SubgroupPoint(t *rapid.T, g *inst.Group, label string) Pt {
	k, kc := Int(t, g.R, 2*g.R.BitLen(), label+"k")
	return Pt{P: MulGen(g, k), Class: "sub:" + kc, K: new(big.Int).Mod(k, g.R)}
}

// LiftPoint draws x from the field lattice and returns the first curve point with abscissa
// x, x+1, x+2, ... (constructive: no rejection of draws); the sign of y is drawn.
func LiftPoint(t *rapid.T, g *inst.Group, s FieldSpec, label string) Pt {
	F := g.E.F
	x, xc := FieldV(t, F, s, label+"x")
	neg := rapid.Bool().Draw(t, label+"neg")
	for i := 0; i < 1000; i++ {
		if p, ok := g.E.LiftX(x); ok {
			if neg {
				p = g.E.Neg(p)
			}
			return Pt{P: p, Class: "lift:" + xc}
		}
		x = F.Add(x, F.One())
	}
	panic("gen: no curve point found in 1000 consecutive abscissae")
}

// CofactorPoint returns [r]R for a lifted R: a point of the cofactor group (O on prime-order curves).
func CofactorPoint(t *rapid.T, g *inst.Group, s FieldSpec, label string) Pt {
	r := LiftPoint(t, g, s, label+"R")
	return Pt{P: g.E.Mul(g.R, r.P), Class: "cofactor"}
}

// SmallOrderPoint returns a point of order 3 with x = 0 when the curve has one over its field
// (y^2 = b solvable), else O. Class "ord3" / "none".
func SmallOrderPoint(t *rapid.T, g *inst.Group, label string) Pt {
	if !g.E.F.IsZero(g.E.A) {
		return Pt{P: g.E.Infinity(), Class: "O"}
	}
	p, ok := g.E.LiftX(g.E.F.Zero())
	if !ok {
		return Pt{P: g.E.Infinity(), Class: "O"}
	}
	if rapid.Bool().Draw(t, label+"neg") {
		p = g.E.Neg(p)
	}
	return Pt{P: p, Class: "ord3"}
}

// AnyPoint draws a curve point from the mixture O / subgroup / arbitrary curve point /
// cofactor-group point / subgroup + cofactor component / small order.
func AnyPoint(t *rapid.T, g *inst.Group, s FieldSpec, label string) Pt {
	switch rapid.IntRange(0, 11).Draw(t, label+"pm") {
	case 0:
		return Pt{P: g.E.Infinity(), Class: "O", K: new(big.Int)}
	case 1, 2, 3, 4:
		return SubgroupPoint(t, g, label)
	case 5, 6, 7:
		return LiftPoint(t, g, s, label)
	case 8:
		return CofactorPoint(t, g, s, label)
	case 9:
		return SmallOrderPoint(t, g, label)
	default:
		a := SubgroupPoint(t, g, label+"a")
		var b Pt
		if rapid.Bool().Draw(t, label+"so") {
			b = SmallOrderPoint(t, g, label+"b")
		} else {
			b = CofactorPoint(t, g, s, label+"b")
		}
		return Pt{P: g.E.Add(a.P, b.P), Class: "sub+" + b.Class}
	}
}

// RelatedPoint draws Q in relation with P: O, P, -P, 2P, P + small/cofactor component, or independent.
func RelatedPoint(t *rapid.T, g *inst.Group, s FieldSpec, p Pt, label string) Pt {
	switch rapid.IntRange(0, 9).Draw(t, label+"rel") {
	case 0:
		return Pt{P: g.E.Infinity(), Class: "O", K: new(big.Int)}
	case 1, 2:
		return Pt{P: p.P, Class: "=P", K: p.K}
	case 3, 4:
		q := Pt{P: g.E.Neg(p.P), Class: "=-P"}
		if p.K != nil {
			q.K = new(big.Int).Mod(new(big.Int).Neg(p.K), g.R)
		}
		return q
	case 5:
		q := Pt{P: g.E.Double(p.P), Class: "=2P"}
		if p.K != nil {
			q.K = new(big.Int).Mod(new(big.Int).Lsh(p.K, 1), g.R)
		}
		return q
	default:
		q := AnyPoint(t, g, s, label)
		q.Class = "indep:" + q.Class
		return q
	}
}

// ---- twisted Edwards ---------------------------------------------------------------------------

// EPt is a generated Edwards reference point with its provenance.
type EPt struct {
	P     ref.EPt
	Class string
	K     *big.Int
}

var (
	etabMu  sync.Mutex
	etables = map[*inst.Edwards][]ref.EPt{}
)

// EdMulBase returns [k]Base by the reference through a cached table of [2^i]Base.
func EdMulBase(e *inst.Edwards, k *big.Int) ref.EPt {
	etabMu.Lock()
	pow := etables[e]
	if pow == nil {
		n := e.Order.BitLen()
		pow = make([]ref.EPt, n)
		pow[0] = e.Base
		for i := 1; i < n; i++ {
			pow[i], _ = e.E.Add(pow[i-1], pow[i-1])
		}
		etables[e] = pow
	}
	etabMu.Unlock()
	m := new(big.Int).Mod(k, e.Order)
	acc := e.E.Zero()
	for i := 0; i < m.BitLen(); i++ {
		if m.Bit(i) == 1 {
			acc, _ = e.E.Add(acc, pow[i])
		}
	}
	return acc
}

// EdMul is double-and-add with the unified affine law; ok=false when an intermediate sum is not
// an affine point (only possible on incomplete curves, for points outside the prime subgroup).
func EdMul(e *inst.Edwards, k *big.Int, p ref.EPt) (ref.EPt, bool) {
	n := new(big.Int).Abs(k)
	r := e.E.Zero()
	ok := true
	for i := n.BitLen() - 1; i >= 0; i-- {
		if r, ok = e.E.Add(r, r); !ok {
			return ref.EPt{}, false
		}
		if n.Bit(i) == 1 {
			if r, ok = e.E.Add(r, p); !ok {
				return ref.EPt{}, false
			}
		}
	}
	if k.Sign() < 0 {
		r = e.E.Neg(r)
	}
	return r, true
}

// EdSubgroupPoint draws [k]Base.
func EdSubgroupPoint(t *rapid.T, e *inst.Edwards, label string) EPt {
	k, kc := Int(t, e.Order, 2*e.Order.BitLen(), label+"k")
	return EPt{P: EdMulBase(e, k), Class: "sub:" + kc, K: new(big.Int).Mod(k, e.Order)}
}

// EdLiftPoint draws y from the lattice and returns the first curve point with ordinate y, y+1, ...
func EdLiftPoint(t *rapid.T, e *inst.Edwards, s FieldSpec, label string) EPt {
	y, yc := s.Elem(t, label+"y")
	neg := rapid.Bool().Draw(t, label+"neg")
	for i := 0; i < 1000; i++ {
		if p, ok := e.E.LiftY(y); ok {
			if neg {
				p = e.E.Neg(p)
			}
			return EPt{P: p, Class: "lift:" + yc}
		}
		y = e.E.F.Add(y, bi(1))
	}
	panic("gen: no Edwards point found")
}

// EdAnyPoint draws from O / subgroup / arbitrary / (0,-1) / cofactor-group / subgroup+cofactor.
func EdAnyPoint(t *rapid.T, e *inst.Edwards, s FieldSpec, label string) EPt {
	switch rapid.IntRange(0, 11).Draw(t, label+"pm") {
	case 0:
		return EPt{P: e.E.Zero(), Class: "O", K: new(big.Int)}
	case 1, 2, 3, 4:
		return EdSubgroupPoint(t, e, label)
	case 5, 6, 7:
		return EdLiftPoint(t, e, s, label)
	case 8:
		return EPt{P: ref.EPt{X: new(big.Int), Y: e.E.F.Neg(bi(1))}, Class: "ord2"}
	case 9:
		r := EdLiftPoint(t, e, s, label+"R")
		c, ok := EdMul(e, e.Order, r.P)
		if !ok { // incomplete curve (bandersnatch): the multiple is a point at infinity
			return EPt{P: ref.EPt{X: new(big.Int), Y: e.E.F.Neg(bi(1))}, Class: "ord2"}
		}
		return EPt{P: c, Class: "cofactor"}
	default:
		a := EdSubgroupPoint(t, e, label+"a")
		r := EdLiftPoint(t, e, s, label+"R")
		c, ok := EdMul(e, e.Order, r.P)
		if !ok {
			return a
		}
		p, ok := e.E.Add(a.P, c)
		if !ok {
			return a
		}
		return EPt{P: p, Class: "sub+cofactor"}
	}
}

// EdRelatedPoint draws Q in relation with P.
func EdRelatedPoint(t *rapid.T, e *inst.Edwards, s FieldSpec, p EPt, label string) EPt {
	switch rapid.IntRange(0, 9).Draw(t, label+"rel") {
	case 0:
		return EPt{P: e.E.Zero(), Class: "O", K: new(big.Int)}
	case 1, 2:
		return EPt{P: p.P, Class: "=P", K: p.K}
	case 3, 4:
		return EPt{P: e.E.Neg(p.P), Class: "=-P"}
	case 5:
		d, ok := e.E.Add(p.P, p.P)
		if !ok {
			return EPt{P: p.P, Class: "=P"}
		}
		return EPt{P: d, Class: "=2P"}
	default:
		q := EdAnyPoint(t, e, s, label)
		q.Class = "indep:" + q.Class
		return q
	}
}

// JacRep builds a Jacobian representative of p: (x z^2, y z^3, z) with z drawn from the field
// lattice (non-zero); for infinity either the representative the library's own FromAffine returns
// or (t^2, t^3, 0), or the zero value (0,0,0). The class is "Z=1", "Z!=1", "inf_lib", "inf_zero" or "inf_t".
func JacRep(t *rapid.T, g *inst.Group, s FieldSpec, p ref.Pt, label string) (interface{}, string) {
	if p.Inf {
		switch rapid.IntRange(0, 2).Draw(t, label+"lib") {
		case 0:
			j := g.NewJac()
			reg.M(j, "FromAffine", g.FromRef(p))
			return j, "inf_lib"
		case 1:
			// the Go zero value (0,0,0): what `var acc G1Jac` holds and what DoubleMixed of the
			// affine identity returns; Y^2 = X^3 holds, so it is inside the asserted domain
			return g.NewJac(), "inf_zero"
		}
		z, _ := NonZeroV(t, g.E.F, s, label)
		return g.JacFromRef(p, z), "inf_t"
	}
	z, zc := NonZeroV(t, g.E.F, s, label)
	if zc == "one" {
		return g.JacFromRef(p, z), "Z=1"
	}
	return g.JacFromRef(p, z), "Z!=1"
}
