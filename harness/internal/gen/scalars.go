package gen

// Scalar generators for C03 and later properties: the integer lattice of gen.Int plus scalars
// synthesised from GLV sub-scalars. Everything (eigenvalues, reduced lattice bases) is derived
// here from r alone with math/big — no library constant is read.

import (
	"math/big"

	"pgregory.net/rapid"
)

// GLV holds, for each candidate eigenvalue λ of an endomorphism on a group of prime order R,
// a Lagrange-reduced basis (V1,V2) of the lattice {(a,b) : a + bλ = 0 mod R}.
type GLV struct {
	R       *big.Int
	Lambdas []*big.Int
	Bases   [][2][2]*big.Int
}

// CubeRootsOfUnity returns the two primitive cube roots of unity modulo the prime r, or nil
// when 3 does not divide r-1.
func CubeRootsOfUnity(r *big.Int) []*big.Int {
	r1 := new(big.Int).Sub(r, bi(1))
	if new(big.Int).Mod(r1, bi(3)).Sign() != 0 {
		return nil
	}
	e := new(big.Int).Div(r1, bi(3))
	for g := int64(2); g < 200; g++ {
		w := new(big.Int).Exp(bi(g), e, r)
		if w.Cmp(bi(1)) != 0 {
			w2 := new(big.Int).Mul(w, w)
			w2.Mod(w2, r)
			// sanity: w^2+w+1 = 0
			s := new(big.Int).Add(w2, w)
			s.Add(s, bi(1)).Mod(s, r)
			if s.Sign() != 0 {
				panic("gen: cube root of unity self-check failed")
			}
			return []*big.Int{w, w2}
		}
	}
	return nil
}

// SqrtsMod returns both square roots of a modulo the prime r (nil if none).
func SqrtsMod(a, r *big.Int) []*big.Int {
	x := new(big.Int).ModSqrt(new(big.Int).Mod(a, r), r)
	if x == nil {
		return nil
	}
	return []*big.Int{x, new(big.Int).Sub(r, x)}
}

func dot(a, b [2]*big.Int) *big.Int {
	x := new(big.Int).Mul(a[0], b[0])
	return x.Add(x, new(big.Int).Mul(a[1], b[1]))
}

// roundDiv returns the integer nearest to n/d (d > 0).
func roundDiv(n, d *big.Int) *big.Int {
	two := bi(2)
	num := new(big.Int).Mul(n, two)
	num.Add(num, d)
	den := new(big.Int).Mul(d, two)
	q := new(big.Int)
	m := new(big.Int)
	q.DivMod(num, den, m) // Euclidean: floor for positive den
	return q
}

// NewGLV computes the reduced bases for the given eigenvalues.
func NewGLV(r *big.Int, lambdas []*big.Int) *GLV {
	g := &GLV{R: r}
	for _, l := range lambdas {
		u := [2]*big.Int{new(big.Int).Set(r), new(big.Int)}
		v := [2]*big.Int{new(big.Int).Neg(l), bi(1)}
		for {
			if dot(u, u).Cmp(dot(v, v)) > 0 {
				u, v = v, u
			}
			m := roundDiv(dot(u, v), dot(u, u))
			if m.Sign() == 0 {
				break
			}
			v = [2]*big.Int{new(big.Int).Sub(v[0], new(big.Int).Mul(m, u[0])), new(big.Int).Sub(v[1], new(big.Int).Mul(m, u[1]))}
		}
		for _, w := range [][2]*big.Int{u, v} {
			c := new(big.Int).Mul(w[1], l)
			c.Add(c, w[0]).Mod(c, r)
			if c.Sign() != 0 {
				panic("gen: reduced vector not in the GLV lattice")
			}
		}
		g.Lambdas = append(g.Lambdas, l)
		g.Bases = append(g.Bases, [2][2]*big.Int{u, v})
	}
	return g
}

// HalfBits is the nominal sub-scalar length ceil(bitlen(r)/2).
func (g *GLV) HalfBits() int { return (g.R.BitLen() + 1) / 2 }

func randBits(t *rapid.T, n int, label string) *big.Int {
	if n <= 0 {
		return new(big.Int)
	}
	b := rapid.SliceOfN(rapid.Byte(), (n+7)/8, (n+7)/8).Draw(t, label)
	v := new(big.Int).SetBytes(b)
	v.And(v, new(big.Int).Sub(new(big.Int).Lsh(bi(1), uint(n)), bi(1)))
	return v.SetBit(v, n-1, 1)
}

// Synth draws a scalar k1 + k2*λ with the sub-scalars at or just above the lattice bound, each
// sign pattern, for one of the eigenvalues. Returns the scalar and a class label.
func (g *GLV) Synth(t *rapid.T, label string) (*big.Int, string) {
	i := rapid.IntRange(0, len(g.Lambdas)-1).Draw(t, label+"lam")
	l, B := g.Lambdas[i], g.Bases[i]
	var k1, k2 *big.Int
	cls := ""
	if rapid.Bool().Draw(t, label+"mode") {
		// (k1,k2) = (a V1 + b V2)/2^16 with (a,b)/2^16 at the edge ±1/2 of the fundamental parallelogram
		const h = 1 << 15
		edge := func(lbl string) int64 {
			switch rapid.IntRange(0, 5).Draw(t, lbl) {
			case 0:
				return h
			case 1:
				return h - 1
			case 2:
				return h + 1
			case 3:
				return h + 3
			case 4:
				return int64(rapid.IntRange(0, h).Draw(t, lbl+"r"))
			default:
				return h - int64(rapid.IntRange(0, 64).Draw(t, lbl+"n"))
			}
		}
		a, b := edge(label+"a"), edge(label+"b")
		if rapid.Bool().Draw(t, label+"sa") {
			a = -a
		}
		if rapid.Bool().Draw(t, label+"sb") {
			b = -b
		}
		den := bi(1 << 16)
		k1 = roundDiv(new(big.Int).Add(new(big.Int).Mul(bi(a), B[0][0]), new(big.Int).Mul(bi(b), B[1][0])), den)
		k2 = roundDiv(new(big.Int).Add(new(big.Int).Mul(bi(a), B[0][1]), new(big.Int).Mul(bi(b), B[1][1])), den)
		cls = "glv_edge"
	} else {
		// random halves of nominal length and one bit above, each sign pattern
		n1 := g.HalfBits() + rapid.IntRange(-1, 1).Draw(t, label+"n1")
		n2 := g.HalfBits() + rapid.IntRange(-1, 1).Draw(t, label+"n2")
		k1, k2 = randBits(t, n1, label+"k1"), randBits(t, n2, label+"k2")
		if rapid.Bool().Draw(t, label+"s1") {
			k1.Neg(k1)
		}
		if rapid.Bool().Draw(t, label+"s2") {
			k2.Neg(k2)
		}
		cls = "glv_halves"
	}
	s := new(big.Int).Mul(k2, l)
	s.Add(s, k1)
	switch rapid.IntRange(0, 3).Draw(t, label+"red") {
	case 0: // as is (may be negative, may exceed r)
		cls += "_raw"
	case 1:
		s.Mod(s, g.R)
		cls += "_modr"
	case 2:
		s.Mod(s, g.R)
		s.Sub(s, g.R) // the negative representative
		cls += "_negrep"
	default:
		s.Mod(s, g.R)
		s.Add(s, new(big.Int).Mul(g.R, bi(int64(rapid.IntRange(1, 3).Draw(t, label+"m")))))
		cls += "_plus_mr"
	}
	return s, cls
}

// Scalar draws from the integer lattice around r (70%) or, when glv is non-nil, a synthesised
// GLV scalar (30%).
func Scalar(t *rapid.T, r *big.Int, maxBits int, glv *GLV, label string) (*big.Int, string) {
	if glv != nil && len(glv.Lambdas) > 0 && rapid.IntRange(0, 9).Draw(t, label+"src") < 3 {
		return glv.Synth(t, label)
	}
	return Int(t, r, maxBits, label)
}
