// Package gen holds the shared rapid generators. All are constructive (no filtering), and every
// random choice is a rapid draw so shrinking and replay work.
package gen

import (
	"fmt"
	"math/big"

	"pgregory.net/rapid"
)

func bi(x int64) *big.Int { return big.NewInt(x) }

// FieldSpec describes the shape of a prime field for the boundary lattice.
type FieldSpec struct {
	Q        *big.Int
	NLimbs   int
	LimbBits int
}

func (s FieldSpec) rinv() *big.Int {
	r := new(big.Int).Lsh(bi(1), uint(s.NLimbs*s.LimbBits))
	return new(big.Int).ModInverse(r.Mod(r, s.Q), s.Q)
}

func (s FieldSpec) limb(t *rapid.T, i int, label string) *big.Int {
	w := uint(s.LimbBits)
	mask := new(big.Int).Sub(new(big.Int).Lsh(bi(1), w), bi(1))
	ql := new(big.Int).And(new(big.Int).Rsh(s.Q, uint(i)*w), mask)
	switch rapid.IntRange(0, 8).Draw(t, label) {
	case 0:
		return bi(0)
	case 1:
		return bi(1)
	case 2:
		return mask
	case 3:
		return new(big.Int).Lsh(bi(1), w-1)
	case 4:
		return ql
	case 5:
		return new(big.Int).And(new(big.Int).Add(ql, bi(1)), mask)
	case 6:
		return new(big.Int).And(new(big.Int).Sub(ql, bi(1)), mask)
	case 7:
		return new(big.Int).Sub(mask, bi(1))
	default:
		return new(big.Int).SetUint64(rapid.Uint64().Draw(t, label+"v") & mask.Uint64())
	}
}

func (s FieldSpec) limbLattice(t *rapid.T, label string) *big.Int {
	v := new(big.Int)
	for i := s.NLimbs - 1; i >= 0; i-- {
		v.Lsh(v, uint(s.LimbBits))
		v.Or(v, s.limb(t, i, label+"l"))
	}
	return v.Mod(v, s.Q)
}

func (s FieldSpec) special(t *rapid.T, label string) *big.Int {
	q := s.Q
	nb := s.NLimbs * s.LimbBits
	k := rapid.IntRange(0, 13).Draw(t, label+"s")
	var v *big.Int
	switch k {
	case 0:
		v = bi(0)
	case 1:
		v = bi(1)
	case 2:
		v = bi(2)
	case 3:
		v = new(big.Int).Sub(q, bi(1))
	case 4:
		v = new(big.Int).Sub(q, bi(2))
	case 5:
		v = new(big.Int).Rsh(new(big.Int).Sub(q, bi(1)), 1)
	case 6:
		v = new(big.Int).Rsh(new(big.Int).Add(q, bi(1)), 1)
	case 7: // R mod q
		v = new(big.Int).Lsh(bi(1), uint(nb))
	case 8: // R^2 mod q
		v = new(big.Int).Lsh(bi(1), uint(2*nb))
	case 9: // R^-1
		v = s.rinv()
	case 10, 11, 12: // 2^k, 2^k±1 at limb and byte boundaries
		var e int
		if rapid.Bool().Draw(t, label+"limbb") {
			e = s.LimbBits * rapid.IntRange(0, s.NLimbs).Draw(t, label+"e")
		} else {
			e = 8 * rapid.IntRange(0, nb/8).Draw(t, label+"e")
		}
		v = new(big.Int).Lsh(bi(1), uint(e))
		v.Add(v, bi(int64(k-11)))
	default: // small
		v = bi(int64(rapid.IntRange(0, 300).Draw(t, label+"small")))
	}
	return v.Mod(v, q)
}

// Elem draws a canonical field value from the two-domain boundary lattice.
// The second result names the generator class used.
func (s FieldSpec) Elem(t *rapid.T, label string) (*big.Int, string) {
	switch rapid.IntRange(0, 4).Draw(t, label+"m") {
	case 0:
		return s.special(t, label), "special"
	case 1:
		return s.limbLattice(t, label), "canon_limbs"
	case 2: // Montgomery limbs on the lattice: value = L * R^-1
		l := s.limbLattice(t, label)
		return l.Mod(l.Mul(l, s.rinv()), s.Q), "mont_limbs"
	case 3: // Montgomery form of a special value's neighbour: raw limbs = special
		l := s.special(t, label)
		return l.Mod(l.Mul(l, s.rinv()), s.Q), "mont_special"
	default:
		return s.Uniform(t, label), "uniform"
	}
}

// Uniform draws a (nearly) uniform value in [0,q).
func (s FieldSpec) Uniform(t *rapid.T, label string) *big.Int {
	n := (s.Q.BitLen()+7)/8 + 8
	b := rapid.SliceOfN(rapid.Byte(), n, n).Draw(t, label+"u")
	v := new(big.Int).SetBytes(b)
	return v.Mod(v, s.Q)
}

// Related draws y in a boundary relation with x.
func (s FieldSpec) Related(t *rapid.T, x *big.Int, label string) (*big.Int, string) {
	q := s.Q
	m := func(v *big.Int) *big.Int { return v.Mod(v, q) }
	switch rapid.IntRange(0, 11).Draw(t, label+"rel") {
	case 0:
		return new(big.Int).Set(x), "y=x"
	case 1:
		return m(new(big.Int).Neg(x)), "y=-x"
	case 2:
		return m(new(big.Int).Sub(bi(-1), x)), "x+y=q-1"
	case 3:
		return m(new(big.Int).Sub(bi(1), x)), "x+y=q+1"
	case 4:
		return m(new(big.Int).Sub(s.rinv(), x)), "mont:x+y=q+1"
	case 5:
		return m(new(big.Int).Sub(new(big.Int).Neg(s.rinv()), x)), "mont:x+y=q-1"
	case 6:
		if x.Sign() == 0 {
			return bi(0), "y=1/x"
		}
		return new(big.Int).ModInverse(x, q), "y=1/x"
	case 7:
		return m(new(big.Int).Add(x, bi(1))), "y=x+1"
	case 8:
		return m(new(big.Int).Add(x, s.rinv())), "mont:y=x+1"
	default:
		v, c := s.Elem(t, label)
		return v, "indep:" + c
	}
}

// OnBoundary reports whether a canonical value (or its Montgomery form) has a limb in
// {0, 2^w-1, limb of q} or is within 2 of 0 or q — the C01 non-triviality rule for operands.
func (s FieldSpec) OnBoundary(v *big.Int) bool {
	if s.onB(v) {
		return true
	}
	r := new(big.Int).Lsh(bi(1), uint(s.NLimbs*s.LimbBits))
	mv := new(big.Int).Mul(v, r)
	return s.onB(mv.Mod(mv, s.Q))
}

func (s FieldSpec) onB(v *big.Int) bool {
	if v.Cmp(bi(2)) <= 0 || new(big.Int).Sub(s.Q, v).Cmp(bi(2)) <= 0 {
		return true
	}
	w := uint(s.LimbBits)
	mask := new(big.Int).Sub(new(big.Int).Lsh(bi(1), w), bi(1))
	for i := 0; i < s.NLimbs; i++ {
		l := new(big.Int).And(new(big.Int).Rsh(v, uint(i)*w), mask)
		ql := new(big.Int).And(new(big.Int).Rsh(s.Q, uint(i)*w), mask)
		if (l.Sign() == 0 && s.NLimbs > 1 && i < (s.Q.BitLen()-1)/int(w)) || l.Cmp(mask) == 0 || l.Cmp(ql) == 0 {
			return true
		}
	}
	return false
}

// Int draws an integer from the scalar/exponent lattice around the modulus r:
// 0, ±1, ±2, r-1, r, r+1, 2r±1, kr, 2^k, 2^k±1, uniform of up to maxBits bits, negatives of these.
func Int(t *rapid.T, r *big.Int, maxBits int, label string) (*big.Int, string) {
	var v *big.Int
	cls := ""
	switch rapid.IntRange(0, 9).Draw(t, label+"k") {
	case 0:
		v, cls = bi(int64(rapid.IntRange(0, 3).Draw(t, label+"small"))), "tiny"
	case 1:
		v, cls = new(big.Int).Add(r, bi(int64(rapid.IntRange(-2, 2).Draw(t, label+"d")))), "near_r"
	case 2:
		k := int64(rapid.IntRange(2, 5).Draw(t, label+"mult"))
		v = new(big.Int).Mul(r, bi(k))
		v.Add(v, bi(int64(rapid.IntRange(-1, 1).Draw(t, label+"d"))))
		cls = "near_kr"
	case 3:
		e := rapid.IntRange(0, maxBits).Draw(t, label+"e")
		v = new(big.Int).Lsh(bi(1), uint(e))
		v.Add(v, bi(int64(rapid.IntRange(-1, 1).Draw(t, label+"d"))))
		cls = "pow2"
	case 4:
		e := 64 * rapid.IntRange(0, maxBits/64).Draw(t, label+"e")
		v = new(big.Int).Lsh(bi(1), uint(e))
		v.Add(v, bi(int64(rapid.IntRange(-1, 1).Draw(t, label+"d"))))
		cls = "pow2_word"
	case 5, 6:
		n := (r.BitLen() + 7) / 8
		b := rapid.SliceOfN(rapid.Byte(), n+2, n+2).Draw(t, label+"u")
		v = new(big.Int).SetBytes(b)
		v.Mod(v, r)
		cls = "mod_r"
	case 7:
		nb := rapid.IntRange(1, maxBits).Draw(t, label+"bits")
		b := rapid.SliceOfN(rapid.Byte(), (nb+7)/8, (nb+7)/8).Draw(t, label+"u")
		v = new(big.Int).SetBytes(b)
		v.SetBit(v, nb-1, 1)
		v.And(v, new(big.Int).Sub(new(big.Int).Lsh(bi(1), uint(nb)), bi(1)))
		cls = "wide"
	case 8:
		v, cls = new(big.Int).Rsh(r, 1), "half_r"
	default:
		v, cls = new(big.Int).Sub(new(big.Int).Lsh(bi(1), uint(maxBits)), bi(1)), "all_ones"
	}
	if rapid.IntRange(0, 3).Draw(t, label+"neg") == 0 {
		v.Neg(v)
		cls = "neg_" + cls
	}
	return v, cls
}

// MontRoundPair draws operands (canonical values) whose MONTGOMERY limbs are built so that the first
// reduction round of a word-by-word Montgomery product x*y uses a chosen multiplier
// m = lo(x0*y0)*(-q0^-1) mod 2^w: y has lowest stored limb 1, x has lowest stored limb -m*q0 mod 2^w,
// with m from {0, 1, 2^w-1, 2^(w-1), -q_j^-1 mod 2^w for every odd limb q_j of q, q_j}; the other
// limbs come from the limb lattice. These are the carry boundaries of the m*q accumulation (e.g.
// lo(m*q_j) = 2^w-1), which uniform operands hit with probability 2^-w.
func (s FieldSpec) MontRoundPair(t *rapid.T, label string) (x, y *big.Int, cls string) {
	w := uint(s.LimbBits)
	mod := new(big.Int).Lsh(bi(1), w)
	mask := new(big.Int).Sub(mod, bi(1))
	limbQ := func(j int) *big.Int { return new(big.Int).And(new(big.Int).Rsh(s.Q, uint(j)*w), mask) }
	q0 := limbQ(0)
	var targets []*big.Int
	var names []string
	add := func(v *big.Int, n string) {
		targets = append(targets, new(big.Int).And(v, mask))
		names = append(names, n)
	}
	add(bi(0), "m=0")
	add(bi(1), "m=1")
	add(mask, "m=2^w-1")
	add(new(big.Int).Lsh(bi(1), w-1), "m=2^(w-1)")
	for j := 0; j < s.NLimbs; j++ {
		qj := limbQ(j)
		add(qj, fmt.Sprintf("m=q%d", j))
		if qj.Bit(0) == 1 {
			inv := new(big.Int).ModInverse(qj, mod)
			add(new(big.Int).Sub(mod, inv), fmt.Sprintf("m=-1/q%d", j))
			add(inv, fmt.Sprintf("m=1/q%d", j))
		}
	}
	k := rapid.IntRange(0, len(targets)-1).Draw(t, label+"m")
	m := targets[k]
	// x0 = -m*q0 mod 2^w
	x0 := new(big.Int).Mul(m, q0)
	x0.Neg(x0).Mod(x0, mod)
	build := func(low *big.Int, lab string) *big.Int {
		raw := new(big.Int)
		for i := s.NLimbs - 1; i >= 1; i-- {
			l := s.limb(t, i, lab)
			if i == s.NLimbs-1 { // keep the stored value below q without touching the low limb
				top := limbQ(i)
				if l.Cmp(top) >= 0 {
					l = new(big.Int).Sub(top, bi(1))
					if l.Sign() < 0 {
						l = bi(0)
					}
				}
			}
			raw.Lsh(raw, w).Or(raw, l)
		}
		raw.Lsh(raw, w).Or(raw, low)
		if raw.Cmp(s.Q) >= 0 { // single-limb fields: fall back to a reduced value (class label says so)
			raw.Mod(raw, s.Q)
			cls = "reduced:"
		}
		// canonical value = raw * R^-1
		return raw.Mod(raw.Mul(raw, s.rinv()), s.Q)
	}
	x = build(x0, label+"x")
	y = build(bi(1), label+"y")
	return x, y, "montround:" + cls + names[k]
}

// MontFinalSubPair draws operands (canonical values) whose word-by-word Montgomery product leaves, BEFORE the
// final conditional subtraction, exactly a chosen unreduced value V in [q, 2q) (V is unique: (X*Y + m*q)/R with
// m = -X*Y/q mod R, whatever the word size of the implementation). V is built on the borrow boundaries of the
// subtraction V - q: for a 32-bit word index j, word j of V equals word j of q while the part below it is smaller
// than q's (a borrow arrives at an all-equal word and must be propagated), or V = q (result 0), V = q+1, V = 2q-1.
// A uniform operand pair hits such a V with probability about 2^-32 per word. The pair is found by drawing the
// stored form X and solving Y = V*R/X, keeping the first X (of at most 12) for which the unreduced value is V and
// not V-q; if none is found the last pair is returned with class "finalsub:fallback".
func (s FieldSpec) MontFinalSubPair(t *rapid.T, label string) (x, y *big.Int, cls string) {
	nbits := uint(s.NLimbs * s.LimbBits)
	R := new(big.Int).Lsh(bi(1), nbits)
	qinv := new(big.Int).ModInverse(s.Q, R)
	nw := int(nbits / 32)
	var V *big.Int
	switch kind := rapid.IntRange(0, 9).Draw(t, label+"kind"); {
	case kind == 0:
		V, cls = new(big.Int).Set(s.Q), "finalsub:V=q"
	case kind == 1:
		V, cls = new(big.Int).Add(s.Q, bi(1)), "finalsub:V=q+1"
	case kind == 2:
		V, cls = new(big.Int).Sub(new(big.Int).Lsh(s.Q, 1), bi(1)), "finalsub:V=2q-1"
	default:
		j := 0
		if nw > 2 {
			j = rapid.IntRange(1, nw-2).Draw(t, label+"word")
		}
		low := new(big.Int).And(s.Q, new(big.Int).Sub(new(big.Int).Lsh(bi(1), uint(32*j)), bi(1)))
		b := bi(0)
		if low.Sign() > 0 {
			switch rapid.IntRange(0, 2).Draw(t, label+"b") {
			case 0:
				b = bi(1)
			case 1:
				b = new(big.Int).Set(low)
			default:
				b = new(big.Int).Rsh(low, 1)
				if b.Sign() == 0 {
					b = bi(1)
				}
			}
		}
		a := new(big.Int).Lsh(bi(int64(rapid.IntRange(1, 2).Draw(t, label+"a"))), uint(32*(j+1)))
		V = new(big.Int).Add(s.Q, a)
		V.Sub(V, b)
		if V.Cmp(new(big.Int).Lsh(s.Q, 1)) >= 0 || V.Cmp(s.Q) < 0 { // tiny fields: stay inside [q, 2q)
			V, cls = new(big.Int).Set(s.Q), "finalsub:V=q"
		} else {
			cls = fmt.Sprintf("finalsub:borrow_into_equal_word%d", j)
		}
	}
	vr := new(big.Int).Mul(V, R)
	vr.Mod(vr, s.Q)
	var X, Y *big.Int
	found := false
	for try := 0; try < 12 && !found; try++ {
		X = s.Uniform(t, label+"X")
		if X.Sign() == 0 {
			X = bi(1)
		}
		Y = new(big.Int).Mul(vr, new(big.Int).ModInverse(X, s.Q))
		Y.Mod(Y, s.Q)
		// unreduced Montgomery product of the stored forms
		xy := new(big.Int).Mul(X, Y)
		m := new(big.Int).Mul(xy, qinv)
		m.Neg(m).Mod(m, R)
		T := new(big.Int).Add(xy, m.Mul(m, s.Q))
		T.Rsh(T, nbits)
		found = T.Cmp(V) == 0
	}
	if !found {
		cls = "finalsub:fallback"
	}
	ri := s.rinv()
	x = new(big.Int).Mod(new(big.Int).Mul(X, ri), s.Q)
	y = new(big.Int).Mod(new(big.Int).Mul(Y, ri), s.Q)
	return x, y, cls
}
