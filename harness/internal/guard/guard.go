// Package guard places test operands in memory that is fenced by inaccessible pages, so that code which reads or
// writes even one byte outside the slice it was given (typically a SIMD kernel with a too-wide load at the end of
// a vector) faults deterministically instead of silently touching a neighbour. Together with
// debug.SetPanicOnFault(true) the fault becomes an ordinary Go panic that rapid reports and shrinks.
//
// Layout of one region:  [PROT_NONE page][k data pages][PROT_NONE page]; the n requested bytes are flush against
// the upper fence (AtEnd) or against the lower one (AtStart). The memory is outside the Go heap: only types
// without pointers may be placed there.
package guard

import (
	"fmt"
	"runtime/debug"
	"syscall"
)

const page = 4096

type Placement int

const (
	AtEnd   Placement = iota // the byte after the slice is inaccessible
	AtStart                  // the byte before the slice is inaccessible
)

// Alloc returns n zeroed bytes (n >= 0) placed as requested and a function that releases the region.
// For n == 0 a one-byte data area exists but the returned slice is empty and points at the fence side.
func Alloc(n int, where Placement) ([]byte, func()) {
	k := (n + page - 1) / page
	if k == 0 {
		k = 1
	}
	total := (k + 2) * page
	mem, err := syscall.Mmap(-1, 0, total, syscall.PROT_READ|syscall.PROT_WRITE, syscall.MAP_ANON|syscall.MAP_PRIVATE)
	if err != nil {
		panic(fmt.Sprintf("guard: mmap %d bytes: %v", total, err))
	}
	if err := syscall.Mprotect(mem[:page], syscall.PROT_NONE); err != nil {
		panic("guard: mprotect: " + err.Error())
	}
	if err := syscall.Mprotect(mem[total-page:], syscall.PROT_NONE); err != nil {
		panic("guard: mprotect: " + err.Error())
	}
	free := func() { _ = syscall.Munmap(mem) }
	if where == AtEnd {
		return mem[total-page-n : total-page : total-page], free
	}
	return mem[page : page+n : page+n], free
}

// PanicOnFault makes memory faults of the calling goroutine ordinary (recoverable) panics and returns a function
// that restores the previous setting.
func PanicOnFault() func() {
	old := debug.SetPanicOnFault(true)
	return func() { debug.SetPanicOnFault(old) }
}
