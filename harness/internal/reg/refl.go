// Package reg is a reflective registry over gnark-crypto's generated packages (which share method
// names but no interfaces): types and package-level functions by name, plus helpers to flatten
// any field/tower/point value into base-field integers and to call methods by name.
package reg

import (
	"fmt"
	"math/big"
	"reflect"
)

// Pkg lists the exported (non-generic) types and functions of one library package.
type Pkg struct {
	Path  string
	Types map[string]reflect.Type
	Funcs map[string]reflect.Value
}

// Get returns the registered package (key = path relative to the module root) or nil.
func Get(path string) *Pkg { return pkgs[path] }

// Has reports whether the package exports the named function.
func (p *Pkg) Has(fn string) bool { _, ok := p.Funcs[fn]; return ok }

// HasType reports whether the package exports the named type.
func (p *Pkg) HasType(t string) bool { _, ok := p.Types[t]; return ok }

// New returns a pointer to a new zero value of the named type (as interface{} holding *T).
func (p *Pkg) New(t string) interface{} {
	ty, ok := p.Types[t]
	if !ok {
		panic("reg: no type " + t + " in " + p.Path)
	}
	return reflect.New(ty).Interface()
}

// F calls the named package-level function.
func (p *Pkg) F(fn string, args ...interface{}) []interface{} {
	f, ok := p.Funcs[fn]
	if !ok {
		panic("reg: no func " + fn + " in " + p.Path)
	}
	return call(f, args)
}

func call(f reflect.Value, args []interface{}) []interface{} {
	ft := f.Type()
	in := make([]reflect.Value, len(args))
	for i, a := range args {
		var want reflect.Type
		if ft.IsVariadic() && i >= ft.NumIn()-1 {
			want = ft.In(ft.NumIn() - 1).Elem()
		} else {
			want = ft.In(i)
		}
		if a == nil {
			in[i] = reflect.Zero(want)
			continue
		}
		v := reflect.ValueOf(a)
		if v.Type() != want {
			switch {
			case v.Kind() == reflect.Ptr && v.Type().Elem() == want:
				v = v.Elem() // *T passed where T wanted
			case v.Type().ConvertibleTo(want) && want.Kind() != reflect.Interface:
				v = v.Convert(want)
			}
		}
		in[i] = v
	}
	out := f.Call(in)
	res := make([]interface{}, len(out))
	for i, o := range out {
		res[i] = o.Interface()
	}
	return res
}

// M calls method name on recv (a pointer). Arguments that are *T where T is wanted are dereferenced.
func M(recv interface{}, name string, args ...interface{}) []interface{} {
	m := reflect.ValueOf(recv).MethodByName(name)
	if !m.IsValid() {
		panic(fmt.Sprintf("reg: %T has no method %s", recv, name))
	}
	return call(m, args)
}

// HasM reports whether recv has the named method.
func HasM(recv interface{}, name string) bool {
	return reflect.ValueOf(recv).MethodByName(name).IsValid()
}

// Bool calls a method returning a single bool.
func Bool(recv interface{}, name string, args ...interface{}) bool {
	return M(recv, name, args...)[0].(bool)
}

// Err returns the last result of a call as an error.
func Err(res []interface{}) error {
	if e, ok := res[len(res)-1].(error); ok {
		return e
	}
	return nil
}

var bigIntType = reflect.TypeOf((*big.Int)(nil))

func isLeaf(t reflect.Type) bool {
	m, ok := reflect.PtrTo(t).MethodByName("BigInt")
	return ok && m.Type.NumIn() == 2 && m.Type.In(1) == bigIntType
}

// Flatten walks v (a pointer to, or a value of, a field element, tower element, point, or any
// struct/array of those) in declaration order and returns the base-field coefficients.
func Flatten(v interface{}) []*big.Int {
	rv := reflect.ValueOf(v)
	if rv.Kind() == reflect.Ptr {
		rv = rv.Elem()
	} else {
		c := reflect.New(rv.Type()).Elem()
		c.Set(rv)
		rv = c
	}
	var out []*big.Int
	flatten(rv, &out)
	return out
}

func flatten(rv reflect.Value, out *[]*big.Int) {
	t := rv.Type()
	if isLeaf(t) {
		r := rv.Addr().MethodByName("BigInt").Call([]reflect.Value{reflect.ValueOf(new(big.Int))})
		*out = append(*out, r[0].Interface().(*big.Int))
		return
	}
	switch t.Kind() {
	case reflect.Struct:
		for i := 0; i < t.NumField(); i++ {
			if t.Field(i).IsExported() {
				flatten(rv.Field(i), out)
			}
		}
	case reflect.Array, reflect.Slice:
		for i := 0; i < rv.Len(); i++ {
			flatten(rv.Index(i), out)
		}
	default:
		panic("reg: cannot flatten " + t.String())
	}
}

// Unflatten writes vals (as produced by Flatten) into *ptr through SetBigInt.
func Unflatten(ptr interface{}, vals []*big.Int) {
	rv := reflect.ValueOf(ptr).Elem()
	rest := unflatten(rv, vals)
	if len(rest) != 0 {
		panic(fmt.Sprintf("reg: Unflatten %T: %d values left over", ptr, len(rest)))
	}
}

func unflatten(rv reflect.Value, vals []*big.Int) []*big.Int {
	t := rv.Type()
	if isLeaf(t) {
		rv.Addr().MethodByName("SetBigInt").Call([]reflect.Value{reflect.ValueOf(vals[0])})
		return vals[1:]
	}
	switch t.Kind() {
	case reflect.Struct:
		for i := 0; i < t.NumField(); i++ {
			if t.Field(i).IsExported() {
				vals = unflatten(rv.Field(i), vals)
			}
		}
	case reflect.Array, reflect.Slice:
		for i := 0; i < rv.Len(); i++ {
			vals = unflatten(rv.Index(i), vals)
		}
	default:
		panic("reg: cannot unflatten " + t.String())
	}
	return vals
}

// Degree returns the number of base-field coefficients of a value of type t.
func Degree(t reflect.Type) int {
	return len(Flatten(reflect.New(t).Interface()))
}

// Clone returns a pointer to a copy of *ptr.
func Clone(ptr interface{}) interface{} {
	rv := reflect.ValueOf(ptr).Elem()
	c := reflect.New(rv.Type())
	c.Elem().Set(rv)
	return c.Interface()
}

// Field returns a pointer to the named struct field of *ptr.
func Field(ptr interface{}, name string) interface{} {
	return reflect.ValueOf(ptr).Elem().FieldByName(name).Addr().Interface()
}

// SliceOf builds a []T (T = element type of the pointers given) from pointers to T.
func SliceOf(t reflect.Type, ptrs ...interface{}) interface{} {
	s := reflect.MakeSlice(reflect.SliceOf(t), len(ptrs), len(ptrs))
	for i, p := range ptrs {
		s.Index(i).Set(reflect.ValueOf(p).Elem())
	}
	return s.Interface()
}

// Index returns a pointer to element i of slice s ([]T).
func Index(s interface{}, i int) interface{} {
	return reflect.ValueOf(s).Index(i).Addr().Interface()
}

// Len returns the length of a slice/array value.
func Len(s interface{}) int { return reflect.ValueOf(s).Len() }
