package rep

import (
	"os"
	"strconv"
)

// Thorough reports whether the thorough tier was requested.
func Thorough() bool { return os.Getenv("VERIF_TIER") == "thorough" }

// Scale returns q for the quick tier and th for the thorough tier.
func Scale(q, th int) int {
	if Thorough() {
		return th
	}
	return q
}

// EnvInt reads an integer environment variable with a default.
func EnvInt(name string, def int) int {
	if v, err := strconv.Atoi(os.Getenv(name)); err == nil {
		return v
	}
	return def
}
