// Package rep collects what a check run actually covered (evaluations, class histogram,
// distinct non-trivial cases, samples) and writes it to the file named by VERIF_REPORT.
// It also implements the run-time side of the known-findings protocol.
package rep

import (
	"encoding/binary"
	"encoding/json"
	"fmt"
	"hash/fnv"
	"os"
	"path/filepath"
	"sort"
	"sync"
	"testing"
)

const maxSamplesPerClass = 3
const maxSampleLen = 400

type testStats struct {
	Evaluations int64               `json:"evaluations"`
	NonTrivial  int64               `json:"nontrivial"`
	Classes     map[string]int64    `json:"classes"`
	Samples     map[string][]string `json:"samples"`
	Exhaustive  bool                `json:"exhaustive,omitempty"`
	Notes       []string            `json:"notes,omitempty"`
}

var (
	mu     sync.Mutex
	stats  = map[string]*testStats{}
	hashes = map[uint64]struct{}{}
	kfSeen = map[string]bool{}
	kfOut  []string
)

func get(test string) *testStats {
	s := stats[test]
	if s == nil {
		s = &testStats{Classes: map[string]int64{}, Samples: map[string][]string{}}
		stats[test] = s
	}
	return s
}

// Case records one generated case. key is a canonical description of the inputs (it is hashed to
// count distinct cases and doubles as the sample text). nontrivial is the property's stated rule.
func Case(test, key string, nontrivial bool, classes ...string) {
	mu.Lock()
	defer mu.Unlock()
	s := get(test)
	s.Evaluations++
	if nontrivial {
		s.NonTrivial++
		h := fnv.New64a()
		h.Write([]byte(test))
		h.Write([]byte{0})
		h.Write([]byte(key))
		hashes[h.Sum64()] = struct{}{}
	}
	if len(classes) == 0 {
		classes = []string{"plain"}
	}
	for _, c := range classes {
		s.Classes[c]++
		if len(s.Samples[c]) < maxSamplesPerClass {
			k := key
			if len(k) > maxSampleLen {
				k = k[:maxSampleLen] + "…"
			}
			s.Samples[c] = append(s.Samples[c], k)
		}
	}
}

// Count adds n evaluations of one class without per-case hashing (exhaustive sweeps);
// distinct counts the distinct non-trivial members among them as measured by the caller.
func Count(test, class string, n, distinctNontrivial int64, sample string) {
	mu.Lock()
	defer mu.Unlock()
	s := get(test)
	s.Evaluations += n
	s.NonTrivial += distinctNontrivial
	s.Classes[class] += n
	if len(s.Samples[class]) < maxSamplesPerClass && sample != "" {
		s.Samples[class] = append(s.Samples[class], sample)
	}
	bulkDistinct += distinctNontrivial
}

var bulkDistinct int64

// Exhaustive marks that test enumerated its finite space completely.
func Exhaustive(test string) {
	mu.Lock()
	defer mu.Unlock()
	get(test).Exhaustive = true
}

// Note attaches a free-text note (assumption, skipped class, excluded count) to a test.
func Note(test, note string) {
	mu.Lock()
	defer mu.Unlock()
	s := get(test)
	for _, n := range s.Notes {
		if n == note {
			return
		}
	}
	s.Notes = append(s.Notes, note)
}

// ---- known findings --------------------------------------------------------------------------

type finding struct {
	Property string `json:"property"`
	Key      string `json:"key"`
	Status   string `json:"status"`
	What     string `json:"what"`
	Commit   string `json:"commit,omitempty"`
}

var (
	kfOnce sync.Once
	kf     map[string]finding
)

func loadKF() {
	kf = map[string]finding{}
	p := os.Getenv("VERIF_KNOWN")
	if p == "" {
		p = "/verif/known_findings.json"
	}
	b, err := os.ReadFile(p)
	if err != nil {
		return
	}
	var doc struct {
		Findings []finding `json:"findings"`
	}
	if json.Unmarshal(b, &doc) != nil {
		return
	}
	for _, f := range doc.Findings {
		kf[f.Property+"/"+f.Key] = f
	}
}

// Known reports whether (property,key) is listed with status "known" in known_findings.json.
func Known(property, key string) bool {
	kfOnce.Do(loadKF)
	f, ok := kf[property+"/"+key]
	return ok && f.Status == "known"
}

// StillPresent is called by a probe that has just re-observed a listed known finding: it emits
// the KNOWN-FINDING line (once per process).
func StillPresent(property, key, detail string) {
	kfOnce.Do(loadKF)
	mu.Lock()
	defer mu.Unlock()
	id := property + "/" + key
	if kfSeen[id] {
		return
	}
	kfSeen[id] = true
	what := kf[id].What
	line := fmt.Sprintf("KNOWN-FINDING: property=%s key=%s %s", property, key, what)
	if detail != "" {
		line += " [" + detail + "]"
	}
	fmt.Println(line)
	kfOut = append(kfOut, line)
}

// Excluded counts a generated case that was skipped because it falls in a known finding's class.
func Excluded(test, property, key string) {
	mu.Lock()
	defer mu.Unlock()
	get(test).Classes["excluded_known:"+property+"/"+key]++
}

// ---- flush -----------------------------------------------------------------------------------

// Flush writes the report. Call it from TestMain after m.Run().
func Flush() {
	p := os.Getenv("VERIF_REPORT")
	if p == "" {
		return
	}
	mu.Lock()
	defer mu.Unlock()
	out := struct {
		Tests         map[string]*testStats `json:"tests"`
		Distinct      int64                 `json:"distinct_hashed"`
		BulkDistinct  int64                 `json:"bulk_distinct"`
		KnownFindings []string              `json:"known_findings"`
	}{stats, int64(len(hashes)), bulkDistinct, kfOut}
	b, _ := json.Marshal(out)
	os.MkdirAll(filepath.Dir(p), 0o755)
	os.WriteFile(p, b, 0o644)
	hs := make([]uint64, 0, len(hashes))
	for h := range hashes {
		hs = append(hs, h)
	}
	sort.Slice(hs, func(i, j int) bool { return hs[i] < hs[j] })
	buf := make([]byte, 8*len(hs))
	for i, h := range hs {
		binary.LittleEndian.PutUint64(buf[8*i:], h)
	}
	os.WriteFile(p+".hashes", buf, 0o644)
}

// Main is a TestMain body.
func Main(m *testing.M) {
	code := m.Run()
	Flush()
	os.Exit(code)
}
