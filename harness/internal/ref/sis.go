package ref

// Ring-SIS hash, written from the definition in the sis packages ("return the hash of the
// polynomial corresponding to the sum sum_i A[i]*m Mod X^{d}+1") and from the sage/python
// generators shipped next to them (sis.sage / sis.py), which fix the conventions:
//
//   * every input element e (canonical integer) is cut into 8·Bytes/logTwoBound limbs of
//     logTwoBound bits, least significant limb first (“evaluated at 2^logTwoBound we get the
//     original field element”);
//   * the limb sequence of the whole input, zero-extended, is cut into chunks of d = 2^logTwoDegree
//     coefficients: chunk i is the polynomial m_i;
//   * “careful Montgomery constant”: each coefficient is the limb multiplied by RR^-1 with
//     RR = 2^(8·Bytes) — the generators do this explicitly, it is part of the specified function;
//   * the result is  Σ_i A_i · m_i  mod (X^d + 1), coefficient vector of length d;
//   * the number of key polynomials is ceil(maxNbElementsToHash · limbsPerElement / d); hashing more
//     than maxNbElementsToHash elements is an error;
//   * key coefficient (i,j) = blake2b-256("SIS" ‖ be64(seed) ‖ be64(i) ‖ be64(j)) read as a big-endian
//     integer mod q.
//
// The product is a schoolbook negacyclic convolution over math/big; no FFT, no gnark-crypto code.

import (
	"encoding/binary"
	"errors"
	"math/big"

	"golang.org/x/crypto/blake2b"
)

// SISFieldSpec describes a field that has a sis package.
type SISFieldSpec struct {
	Name      string
	Q         string
	ElemBytes int
	Bits      int // bit length of q
}

// SISFields lists the four sis packages.
var SISFields = []SISFieldSpec{
	{"koalabear", "2130706433", 4, 31},
	{"babybear", "2013265921", 4, 31},
	{"goldilocks", "18446744069414584321", 8, 64},
	{"bls12-377", MiMCSpecs[1].Q, 32, 253},
}

// SISAcceptsBound is the documented constructor predicate on logTwoBound (for positive values):
// at most 64 and at most Bits, a multiple of 8, and the limb byte size divides the element size.
func (s SISFieldSpec) SISAcceptsBound(logTwoBound int) bool {
	if logTwoBound <= 0 || logTwoBound > 64 || logTwoBound > s.Bits || logTwoBound%8 != 0 {
		return false
	}
	return s.ElemBytes%(logTwoBound/8) == 0
}

// SIS is a reference instance.
type SIS struct {
	F         *Fp
	ElemBytes int
	LogDegree int
	LogBound  int
	MaxElems  int
	Key       [][]*big.Int // N polynomials of Degree coefficients
	rInv      *big.Int
}

func (s *SIS) Degree() int { return 1 << s.LogDegree }

// LimbsPerElem is 8·Bytes/logTwoBound.
func (s *SIS) LimbsPerElem() int { return 8 * s.ElemBytes / s.LogBound }

// SISNumPolys is ceil(maxElems·limbsPerElem / degree).
func SISNumPolys(elemBytes, logDegree, logBound, maxElems int) int {
	n := maxElems * (8 * elemBytes / logBound)
	d := 1 << logDegree
	return (n + d - 1) / d
}

// SISKeyElement is the documented key derivation for coefficient j of polynomial i.
func SISKeyElement(q *big.Int, seed, i, j int64) *big.Int {
	var buf [3 + 3*8]byte
	copy(buf[:3], "SIS")
	binary.BigEndian.PutUint64(buf[3:], uint64(seed))
	binary.BigEndian.PutUint64(buf[11:], uint64(i))
	binary.BigEndian.PutUint64(buf[19:], uint64(j))
	d := blake2b.Sum256(buf[:])
	v := new(big.Int).SetBytes(d[:])
	return v.Mod(v, q)
}

func newSIS(f SISFieldSpec, logDegree, logBound, maxElems int) *SIS {
	q, ok := new(big.Int).SetString(f.Q, 10)
	if !ok {
		panic("ref: bad SIS modulus")
	}
	s := &SIS{F: NewFp(q), ElemBytes: f.ElemBytes, LogDegree: logDegree, LogBound: logBound, MaxElems: maxElems}
	rr := new(big.Int).Lsh(big.NewInt(1), uint(8*f.ElemBytes))
	s.rInv = s.F.Inv(rr)
	return s
}

// NewSIS builds an instance with the key derived from seed by the documented blake2b rule.
func NewSIS(f SISFieldSpec, seed int64, logDegree, logBound, maxElems int) *SIS {
	s := newSIS(f, logDegree, logBound, maxElems)
	n := SISNumPolys(f.ElemBytes, logDegree, logBound, maxElems)
	d := s.Degree()
	s.Key = make([][]*big.Int, n)
	for i := range s.Key {
		s.Key[i] = make([]*big.Int, d)
		for j := 0; j < d; j++ {
			s.Key[i][j] = SISKeyElement(s.F.Q, seed, int64(i), int64(j))
		}
	}
	return s
}

// NewSISSageKey builds an instance with the key of the sage/python generators
// (poly_pseudo_rand: coefficient_0 = seed², coefficient_{k+1} = coefficient_k²; seed+1 for the next
// polynomial), used only to anchor the reference on the shipped test_cases.json.
func NewSISSageKey(f SISFieldSpec, seed int64, logDegree, logBound, maxElems int) *SIS {
	s := newSIS(f, logDegree, logBound, maxElems)
	n := SISNumPolys(f.ElemBytes, logDegree, logBound, maxElems)
	d := s.Degree()
	s.Key = make([][]*big.Int, n)
	for i := range s.Key {
		x := s.F.Red(big.NewInt(seed + int64(i)))
		s.Key[i] = make([]*big.Int, d)
		for j := 0; j < d; j++ {
			x = s.F.Sqr(x)
			s.Key[i][j] = x
		}
	}
	return s
}

// Limbs returns the limb decomposition of the input (plain integers, not yet scaled).
func (s *SIS) Limbs(v []*big.Int) []*big.Int {
	per := s.LimbsPerElem()
	mask := new(big.Int).Sub(new(big.Int).Lsh(big.NewInt(1), uint(s.LogBound)), big.NewInt(1))
	out := make([]*big.Int, 0, len(v)*per)
	for _, e := range v {
		e = s.F.Red(e)
		for k := 0; k < per; k++ {
			l := new(big.Int).Rsh(e, uint(k*s.LogBound))
			out = append(out, l.And(l, mask))
		}
	}
	return out
}

// ErrSISTooLong is the documented error for more than MaxElems inputs.
var ErrSISTooLong = errors.New("ref: too many elements for this SIS instance")

// Hash returns the d coefficients of Σ A_i·m_i mod X^d+1.
func (s *SIS) Hash(v []*big.Int) ([]*big.Int, error) {
	if len(v) > s.MaxElems {
		return nil, ErrSISTooLong
	}
	d := s.Degree()
	limbs := s.Limbs(v)
	acc := make([]*big.Int, d)
	for i := range acc {
		acc[i] = new(big.Int)
	}
	tmp := new(big.Int)
	for pos, l := range limbs {
		if l.Sign() == 0 {
			continue
		}
		i, a := pos/d, pos%d // coefficient a of m_i
		if i >= len(s.Key) {
			panic("ref: SIS key too short for the admitted input length")
		}
		// X^a · A_i(X) mod X^d+1 : coefficient b goes to a+b, negated when it wraps
		for b := 0; b < d; b++ {
			tmp.Mul(l, s.Key[i][b])
			k := a + b
			if k >= d {
				acc[k-d].Sub(acc[k-d], tmp)
			} else {
				acc[k].Add(acc[k], tmp)
			}
		}
	}
	for i := range acc {
		acc[i].Mul(acc[i], s.rInv)
		acc[i].Mod(acc[i], s.F.Q)
	}
	return acc, nil
}
