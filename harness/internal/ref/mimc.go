package ref

// MiMC in the Miyaguchi–Preneel mode, written from the package documentation of
// ecc/<curve>/fr/mimc ("Package mimc provides MiMC hash function using Miyaguchi–Preneel
// construction", doc.go "Hash input format") and the comments of mimc.go:
//
//   constants   c_0 = K(K(seed)), c_{i+1} = K(bytes(c_i))  with K = legacy Keccak-256, seed = "seed",
//               each 32-byte digest read as a big-endian integer and reduced mod q
//   cipher      E_k(m): for i in 0..rounds-1: m <- (m + k + c_i)^d ; return m + k
//   hash        h <- 0 ; for every message block m: h <- E_h(m) + h + m     (Miyaguchi–Preneel,
//               "the XOR operation is replaced by field addition")
//   input       a byte string is a sequence of BlockSize-byte canonical field elements (big endian
//               by default, little endian with WithByteOrder); a single write shorter than one
//               block is left-padded with zeros ("sometimes we hash short values … we left-pad")
//   digest      the BlockSize-byte big-endian encoding of h
//
// No gnark-crypto code is imported. Keccak comes from golang.org/x/crypto/sha3 (trusted base,
// pinned by a known-answer test in the C14 anchors).

import (
	"crypto/sha256"
	"errors"
	"math/big"

	"golang.org/x/crypto/sha3"
)

// LegacyKeccak256 is the pre-standard Keccak-256 (Ethereum's), as named by the package docs.
func LegacyKeccak256(b []byte) []byte {
	h := sha3.NewLegacyKeccak256()
	h.Write(b)
	return h.Sum(nil)
}

// KeccakChain returns n successive field elements K^2(seed), K^3(seed), … reduced mod q: the rule
// shared by the MiMC constants and the Poseidon2 round keys ("pre hash before use").
func KeccakChain(seed string, n int, q *big.Int) []*big.Int {
	rnd := LegacyKeccak256([]byte(seed))
	out := make([]*big.Int, n)
	for i := 0; i < n; i++ {
		rnd = LegacyKeccak256(rnd)
		v := new(big.Int).SetBytes(rnd)
		out[i] = v.Mod(v, q)
	}
	return out
}

// MiMCSpec is the documented parameter set of one mimc package.
type MiMCSpec struct {
	Name      string // curve directory name, e.g. "bn254"
	Q         string // modulus of fr, decimal, from the doc comment of ecc/<curve>/fr
	D         int    // S-box exponent ("m = (m+k+c)^5", "^7", "^**17")
	Rounds    int    // mimcNbRounds
	Seed      string // "seed"
	BlockSize int    // fr.Bytes
}

// MiMCSpecs lists the eight MiMC instances of the library.
var MiMCSpecs = []MiMCSpec{
	{"bn254", "21888242871839275222246405745257275088548364400416034343698204186575808495617", 5, 110, "seed", 32},
	{"bls12-377", "8444461749428370424248824938781546531375899335154063827935233455917409239041", 17, 62, "seed", 32},
	{"bls12-381", "52435875175126190479447740508185965837690552500527637822603658699938581184513", 5, 111, "seed", 32},
	{"bls24-315", "11502027791375260645628074404575422495959608200132055716665986169834464870401", 5, 109, "seed", 32},
	{"bls24-317", "30869589236456844204538189757527902584594726589286811523515204428962673459201", 7, 91, "seed", 32},
	{"bw6-633", "39705142709513438335025689890408969744933502416914749335064285505637884093126342347073617133569", 5, 136, "seed", 40},
	{"bw6-761", "258664426012969094010652733694893533536393512754914660539884262666720468348340822774968888139573360124440321458177", 5, 163, "seed", 48},
	{"grumpkin", "21888242871839275222246405745257275088696311157297823662689037894645226208583", 5, 110, "seed", 32},
}

// MiMC is one instance of the reference hash.
type MiMC struct {
	F         *Fp
	D         int
	Rounds    int
	BlockSize int
	C         []*big.Int
}

// NewMiMC builds the reference from a spec (constants derived from the seed).
func NewMiMC(s MiMCSpec) *MiMC {
	q, ok := new(big.Int).SetString(s.Q, 10)
	if !ok {
		panic("ref: bad modulus in MiMC spec " + s.Name)
	}
	return &MiMC{F: NewFp(q), D: s.D, Rounds: s.Rounds, BlockSize: s.BlockSize, C: KeccakChain(s.Seed, s.Rounds, q)}
}

// NewMiMCWith builds a reference over explicit constants (used for the hand-computed anchor).
func NewMiMCWith(q *big.Int, d int, consts []*big.Int, blockSize int) *MiMC {
	return &MiMC{F: NewFp(q), D: d, Rounds: len(consts), BlockSize: blockSize, C: consts}
}

// Encrypt is the MiMC block cipher E_k(m).
func (m *MiMC) Encrypt(k, msg *big.Int) *big.Int {
	x := m.F.Red(msg)
	d := big.NewInt(int64(m.D))
	for i := 0; i < m.Rounds; i++ {
		x = m.F.Add(m.F.Add(x, k), m.C[i])
		x = new(big.Int).Exp(x, d, m.F.Q)
	}
	return m.F.Add(x, k)
}

// Absorb returns the chaining value after absorbing blocks from chaining value h.
func (m *MiMC) Absorb(h *big.Int, blocks []*big.Int) *big.Int {
	h = m.F.Red(h)
	for _, b := range blocks {
		e := m.Encrypt(h, b)
		h = m.F.Add(m.F.Add(e, h), b)
	}
	return h
}

// Hash is the digest (as a field element) of a block sequence from the zero initial value.
func (m *MiMC) Hash(blocks []*big.Int) *big.Int { return m.Absorb(new(big.Int), blocks) }

// ErrMiMCInput is returned by Blocks for inadmissible input.
var ErrMiMCInput = errors.New("ref: inadmissible MiMC input")

// Blocks parses one Write argument into field elements following the documented input format.
// len(p)=0 → no block; 0<len(p)<BlockSize → one block, left-padded with zeros; otherwise len(p)
// must be a multiple of BlockSize and every block must encode an integer < q.
func (m *MiMC) Blocks(p []byte, littleEndian bool) ([]*big.Int, error) {
	if len(p) == 0 {
		return nil, nil
	}
	if len(p) < m.BlockSize {
		pp := make([]byte, m.BlockSize)
		copy(pp[m.BlockSize-len(p):], p)
		p = pp
	}
	if len(p)%m.BlockSize != 0 {
		return nil, ErrMiMCInput
	}
	var out []*big.Int
	for o := 0; o < len(p); o += m.BlockSize {
		blk := p[o : o+m.BlockSize]
		v := new(big.Int)
		if littleEndian {
			for i := len(blk) - 1; i >= 0; i-- {
				v.Lsh(v, 8)
				v.Or(v, big.NewInt(int64(blk[i])))
			}
		} else {
			for i := 0; i < len(blk); i++ {
				v.Lsh(v, 8)
				v.Or(v, big.NewInt(int64(blk[i])))
			}
		}
		if v.Cmp(m.F.Q) >= 0 {
			return out, ErrMiMCInput
		}
		out = append(out, v)
	}
	return out, nil
}

// Bytes is the digest/state encoding: BlockSize bytes, big endian.
func (m *MiMC) Bytes(h *big.Int) []byte {
	return m.F.Red(h).FillBytes(make([]byte, m.BlockSize))
}

// StringElement is the element appended by WriteString(raw): hash_to_field of RFC 9380 §5.2 with
// expand_message_xmd(SHA-256), DST "string:", count 1, L = 16 + ceil(bitlen(q)/8) (the rule of the
// field packages' Hash function).
func (m *MiMC) StringElement(raw []byte) *big.Int {
	L := 16 + (m.F.Q.BitLen()+7)/8
	u := mimcExpandXMDSHA256(raw, []byte("string:"), L)
	v := new(big.Int).SetBytes(u)
	return v.Mod(v, m.F.Q)
}

// MiMCExpandXMD exposes the expander for its RFC 9380 known-answer anchor.
func MiMCExpandXMD(msg, dst []byte, n int) []byte { return mimcExpandXMDSHA256(msg, dst, n) }

// mimcExpandXMDSHA256 is expand_message_xmd of RFC 9380 §5.3.1 for SHA-256 (b=32, s=64).
func mimcExpandXMDSHA256(msg, dst []byte, n int) []byte {
	const b, s = 32, 64
	ell := (n + b - 1) / b
	if ell > 255 || n > 65535 || len(dst) > 255 {
		panic("ref: expand_message_xmd parameters out of range")
	}
	dstPrime := append(append([]byte{}, dst...), byte(len(dst)))
	h := sha256.New()
	h.Write(make([]byte, s))
	h.Write(msg)
	h.Write([]byte{byte(n >> 8), byte(n), 0})
	h.Write(dstPrime)
	b0 := h.Sum(nil)
	h.Reset()
	h.Write(b0)
	h.Write([]byte{1})
	h.Write(dstPrime)
	bi := h.Sum(nil)
	out := append([]byte{}, bi...)
	for i := 2; i <= ell; i++ {
		x := make([]byte, b)
		for j := range x {
			x[j] = b0[j] ^ bi[j]
		}
		h.Reset()
		h.Write(x)
		h.Write([]byte{byte(i)})
		h.Write(dstPrime)
		bi = h.Sum(nil)
		out = append(out, bi...)
	}
	return out[:n]
}
