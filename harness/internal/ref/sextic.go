package ref

import (
	"fmt"
	"math/big"
)

// Sextic views the top field K of a pairing tower as F_q[w]/(w^6 - xi): every tower of the
// library ends with "quadratic over cubic over F_q" (F_q = F_p2 for the E12 towers, F_p4 for the
// E24 towers, F_p for the BW6 towers) where the quadratic non-residue is the generator of the
// cubic step, so K = F_q(w), w^6 = xi. In the flat coefficient order the six F_q-blocks
// (C0.B0, C0.B1, C0.B2, C1.B0, C1.B1, C1.B2) carry w^0, w^2, w^4, w^1, w^3, w^5.
//
// The q-power Frobenius is diagonal in this basis: (e_i w^i)^q = e_i * gamma^i * w^i with
// gamma = xi^((q-1)/6) (computed here by exponentiation from the documented xi, and validated
// against x -> x^q computed by plain exponentiation).
type Sextic struct {
	K     Fld
	Fq    Fld
	Xi    V   // in Fq
	Q     *big.Int
	Gamma V   // xi^((q-1)/6), a primitive 6th root of unity of Fq
	gpow  [6]V
	bd    int // degree of Fq over Fp
}

// BlockExp[j] is the exponent of w carried by the j-th Fq-block of the flat vector.
var BlockExp = [6]int{0, 2, 4, 1, 3, 5}

// ExpBlock[i] is the flat block index that carries w^i.
var ExpBlock = [6]int{0, 3, 1, 4, 2, 5}

// NewSextic builds the view from the last three levels of a tower (fq, cubic over fq, quadratic
// over the cubic) and validates the shape. k is the implementation of the top field used for
// the arithmetic (top itself, or a TabFld over it).
func NewSextic(fq Fld, cubic, top *Ext, k Fld) *Sextic {
	if cubic.D != 3 || top.D != 2 || cubic.B != fq || top.B != Fld(cubic) {
		panic("ref: tower does not end with quadratic over cubic")
	}
	// the quadratic non-residue must be the generator of the cubic step: (0,1,0)
	gen := cubic.Zero()
	copy(gen[fq.Deg():2*fq.Deg()], fq.One())
	if !cubic.Eq(top.NR, gen) {
		panic("ref: quadratic non-residue is not the cubic generator")
	}
	s := &Sextic{K: k, Fq: fq, Xi: cubic.NR, Q: fq.Order(), bd: fq.Deg()}
	e := new(big.Int).Sub(s.Q, bi(1))
	if new(big.Int).Mod(e, bi(6)).Sign() != 0 {
		panic("ref: 6 does not divide q-1")
	}
	s.Gamma = Exp(fq, s.Xi, e.Div(e, bi(6)))
	s.gpow[0] = fq.One()
	for i := 1; i < 6; i++ {
		s.gpow[i] = fq.Mul(s.gpow[i-1], s.Gamma)
	}
	// gamma must be a primitive 6th root of unity
	if !fq.Eq(fq.Mul(s.gpow[5], s.Gamma), fq.One()) || fq.Eq(s.gpow[3], fq.One()) || fq.Eq(s.gpow[2], fq.One()) {
		panic("ref: gamma is not a primitive 6th root of unity")
	}
	// validate the diagonal Frobenius against plain exponentiation on a dense element
	x := make(V, top.Deg())
	for i := range x {
		x[i] = new(big.Int).Mod(bi(int64(3*i*i+5*i+2)), top.P())
	}
	if !k.Eq(s.FrobQ(x), Exp(k, x, s.Q)) {
		panic("ref: diagonal q-Frobenius disagrees with exponentiation")
	}
	return s
}

// Block returns the j-th Fq-block of the flat vector (flat order).
func (s *Sextic) Block(a V, j int) V { return a[j*s.bd : (j+1)*s.bd] }

// Coef returns the coefficient of w^i.
func (s *Sextic) Coef(a V, i int) V { return s.Block(a, ExpBlock[i]) }

// FromCoefs builds the element sum e[i] w^i.
func (s *Sextic) FromCoefs(e [6]V) V {
	out := make(V, 6*s.bd)
	for i := 0; i < 6; i++ {
		copy(out[ExpBlock[i]*s.bd:], Red(s.Fq, e[i]))
	}
	return out
}

// FrobQ is x -> x^q.
func (s *Sextic) FrobQ(a V) V {
	out := make(V, 0, len(a))
	for j := 0; j < 6; j++ {
		out = append(out, s.Fq.Mul(s.Block(a, j), s.gpow[BlockExp[j]])...)
	}
	return out
}

// Conj is x -> x^(q^3) (w -> -w).
func (s *Sextic) Conj(a V) V {
	out := make(V, 0, len(a))
	for j := 0; j < 6; j++ {
		if BlockExp[j]%2 == 1 {
			out = append(out, s.Fq.Neg(s.Block(a, j))...)
		} else {
			out = append(out, Red(s.Fq, s.Block(a, j))...)
		}
	}
	return out
}

// CycloOrder is Phi_6(q) = q^2 - q + 1, the order of the cyclotomic subgroup of K*.
func (s *Sextic) CycloOrder() *big.Int {
	n := new(big.Int).Mul(s.Q, s.Q)
	n.Sub(n, s.Q)
	return n.Add(n, bi(1))
}

// EasyPart maps x != 0 into the cyclotomic subgroup: x^((q^3-1)(q+1)).
func (s *Sextic) EasyPart(x V) V {
	t := s.K.Mul(s.Conj(x), s.K.Inv(x))
	return s.K.Mul(s.FrobQ(t), t)
}

// IsCyclotomic reports x^(q^2-q+1) = 1 (x^(q^2) * x = x^q, x != 0).
func (s *Sextic) IsCyclotomic(x V) bool {
	if s.K.IsZero(x) {
		return false
	}
	return s.K.Eq(s.K.Mul(s.FrobQ(s.FrobQ(x)), x), s.FrobQ(x))
}

// KarabinaWitness returns a cyclotomic element (!= 1) one of whose compressed coordinates
// vanishes, from a closed-form rational parametrisation of the curve {e_1 = 0} (kind "g3": the
// coefficient of w^1, stored in C1.B0, is zero while the coefficient of w^5 is not) or
// {e_5 = 0} (kind "g5": the coefficient of w^5, stored in C1.B2, is zero while that of w^1 is
// not). The parametrisation solves y^(q^2) y = y^q, written out on the basis w^i, with
// e_1 = 0 (resp. e_5 = 0):
//
//	g3: D = 2+2 xi t^3; e0 = (2 xi t^3 - 1)/D; e2 = 3t/D; e4 = 6t^2/D;
//	    e5 = e2*sqrt((8 xi t^3 - 1)/(3 xi)); e3 = e5/t; e1 = 0
//	g5: D = 2+2 xi t^3; e0 = (2 - xi t^3)/D; e2 = 6t/D; e4 = 3t^2/D;
//	    e1 = sqrt(3t(8 - xi t^3))/D; e3 = t e1; e5 = 0
//
// It returns nil when the needed square root does not exist for this t (about half of the t).
// The result is verified to lie in the cyclotomic subgroup before it is returned.
func (s *Sextic) KarabinaWitness(kind string, t V) V {
	F := s.Fq
	sc := func(k int64) V { return Scalar(F, bi(k)) }
	if F.IsZero(t) {
		return nil
	}
	t2 := F.Mul(t, t)
	xt3 := F.Mul(s.Xi, F.Mul(t2, t))
	D := F.Add(sc(2), F.Mul(sc(2), xt3))
	if F.IsZero(D) {
		return nil
	}
	Di := F.Inv(D)
	var e [6]V
	switch kind {
	case "g3":
		rad := F.Mul(F.Sub(F.Mul(sc(8), xt3), sc(1)), F.Inv(F.Mul(sc(3), s.Xi)))
		if F.IsZero(rad) {
			return nil
		}
		r := F.Sqrt(rad)
		if r == nil {
			return nil
		}
		e[0] = F.Mul(F.Sub(F.Mul(sc(2), xt3), sc(1)), Di)
		e[2] = F.Mul(F.Mul(sc(3), t), Di)
		e[4] = F.Mul(F.Mul(sc(6), t2), Di)
		e[5] = F.Mul(e[2], r)
		e[3] = F.Mul(e[5], F.Inv(t))
		e[1] = F.Zero()
	case "g5":
		rad := F.Mul(F.Mul(sc(3), t), F.Sub(sc(8), xt3))
		if F.IsZero(rad) {
			return nil
		}
		r := F.Sqrt(rad)
		if r == nil {
			return nil
		}
		e[0] = F.Mul(F.Sub(sc(2), xt3), Di)
		e[2] = F.Mul(F.Mul(sc(6), t), Di)
		e[4] = F.Mul(F.Mul(sc(3), t2), Di)
		e[1] = F.Mul(r, Di)
		e[3] = F.Mul(t, e[1])
		e[5] = F.Zero()
	default:
		panic("ref: unknown witness kind " + kind)
	}
	y := s.FromCoefs(e)
	if !s.IsCyclotomic(y) {
		panic(fmt.Sprintf("ref: Karabina witness (%s) is not cyclotomic — parametrisation wrong", kind))
	}
	if s.K.Eq(y, s.K.One()) {
		return nil
	}
	return y
}
