package ref

// Reference discrete Fourier transform over a prime field, math/big only, written from the
// definition: for a vector a of length n (a power of two), a primitive n-th root of unity w and a
// shift s,
//
//	DFT(a)[i] = sum_j a[j] * (s*w^i)^j          (s = 1: the plain transform)
//
// in *natural* order on both sides. Bit-reversed orderings are produced by the caller with
// BitRev / Permute. Nothing here shares code with gnark-crypto.

import (
	"errors"
	"fmt"
	"math/big"
)

// TwoAdicity returns the largest k with 2^k | q-1.
func TwoAdicity(q *big.Int) int {
	m := new(big.Int).Sub(q, bi(1))
	k := 0
	for m.Sign() != 0 && m.Bit(k) == 0 {
		k++
	}
	return k
}

// IsPow2 reports whether n is a power of two (n >= 1).
func IsPow2(n uint64) bool { return n != 0 && n&(n-1) == 0 }

// Log2 returns log2(n) for a power of two n.
func Log2(n uint64) int {
	k := 0
	for n > 1 {
		n >>= 1
		k++
	}
	return k
}

// BitRev reverses the low logn bits of i (bit by bit, from the definition).
func BitRev(i uint64, logn int) uint64 {
	var r uint64
	for b := 0; b < logn; b++ {
		r = r<<1 | (i>>uint(b))&1
	}
	return r
}

// BitRevPerm returns the bit-reversal permutation of 0..n-1 (n a power of two).
func BitRevPerm(n int) []int {
	l := Log2(uint64(n))
	p := make([]int, n)
	for i := range p {
		p[i] = int(BitRev(uint64(i), l))
	}
	return p
}

// HasOrderPow2 reports whether g has multiplicative order exactly 2^k modulo q:
// g^(2^k) = 1 and (k > 0) g^(2^(k-1)) = -1. (Sufficient and necessary since the order is a
// power of two dividing 2^k and -1 is the only element of order 2.)
func HasOrderPow2(q, g *big.Int, k int) bool {
	f := NewFp(q)
	x := f.Red(g)
	if x.Sign() == 0 {
		return false
	}
	if k == 0 {
		return x.Cmp(bi(1)) == 0
	}
	for i := 0; i < k-1; i++ {
		x = f.Sqr(x)
	}
	// x = g^(2^(k-1))
	if x.Cmp(new(big.Int).Sub(q, bi(1))) != 0 {
		return false
	}
	return f.Sqr(x).Cmp(bi(1)) == 0
}

// DFT is a validated transform description: size N = 2^LogN and a primitive N-th root W.
type DFT struct {
	F    *Fp
	N    int
	LogN int
	W    *big.Int
	pw   []*big.Int // W^k, 0 <= k < N
}

// NewDFT validates (n, w): n a power of two dividing q-1, w of order exactly n.
func NewDFT(q *big.Int, n uint64, w *big.Int) (*DFT, error) {
	if !IsPow2(n) {
		return nil, fmt.Errorf("size %d is not a power of two", n)
	}
	l := Log2(n)
	if l > TwoAdicity(q) {
		return nil, fmt.Errorf("size 2^%d does not divide q-1 (two-adicity %d)", l, TwoAdicity(q))
	}
	if w.Sign() < 0 || w.Cmp(q) >= 0 {
		return nil, errors.New("root not reduced")
	}
	if !HasOrderPow2(q, w, l) {
		return nil, fmt.Errorf("w=%s is not a primitive 2^%d-th root of unity (w^n=1 and w^(n/2)=-1 required)", w, l)
	}
	if n > 1<<26 {
		return nil, errors.New("size too large for the reference")
	}
	d := &DFT{F: NewFp(q), N: int(n), LogN: l, W: new(big.Int).Set(w)}
	return d, nil
}

func (d *DFT) table() []*big.Int {
	if d.pw == nil {
		d.pw = make([]*big.Int, d.N)
		d.pw[0] = bi(1)
		for k := 1; k < d.N; k++ {
			d.pw[k] = d.F.Mul(d.pw[k-1], d.W)
		}
	}
	return d.pw
}

// Pow returns W^k for any integer k >= 0 (reduced modulo N first, valid because W^N = 1).
func (d *DFT) Pow(k uint64) *big.Int { return d.table()[k%uint64(d.N)] }

// CheckInverses validates wInv = W^-1 and nInv = N^-1 by multiplication.
func (d *DFT) CheckInverses(wInv, nInv *big.Int) error {
	if d.F.Mul(wInv, d.W).Cmp(bi(1)) != 0 {
		return fmt.Errorf("GeneratorInv*Generator != 1")
	}
	if d.F.Mul(nInv, new(big.Int).SetUint64(uint64(d.N))).Cmp(bi(1)) != 0 {
		return fmt.Errorf("CardinalityInv*Cardinality != 1")
	}
	return nil
}

// ShiftInSubgroup reports whether s^N = 1, i.e. the "coset" s*<W> is the subgroup itself.
func (d *DFT) ShiftInSubgroup(s *big.Int) bool {
	return d.F.Exp(s, new(big.Int).SetUint64(uint64(d.N))).Cmp(bi(1)) == 0
}

// Point returns the i-th evaluation point s*W^i (s nil means 1).
func (d *DFT) Point(i int, s *big.Int) *big.Int {
	x := d.Pow(uint64(i))
	if s != nil {
		x = d.F.Mul(x, s)
	}
	return x
}

// EvalAt evaluates the polynomial with coefficient vector a at the point x by Horner's rule.
func (d *DFT) EvalAt(a []*big.Int, x *big.Int) *big.Int {
	acc := new(big.Int)
	for j := len(a) - 1; j >= 0; j-- {
		acc.Mul(acc, x)
		acc.Add(acc, a[j])
		acc.Mod(acc, d.F.Q)
	}
	return acc
}

// Transform returns the natural-order transform out[i] = sum_j a[j]*(s*W^i)^j, O(n^2),
// s nil means 1. The inner sum is accumulated over the integers and reduced once.
func (d *DFT) Transform(a []*big.Int, s *big.Int) []*big.Int {
	if len(a) != d.N {
		panic("ref.DFT: length mismatch")
	}
	pw := d.table()
	b := a
	if s != nil {
		b = make([]*big.Int, d.N)
		sj := bi(1)
		for j := range a {
			b[j] = d.F.Mul(a[j], sj)
			sj = d.F.Mul(sj, s)
		}
	}
	out := make([]*big.Int, d.N)
	mask := d.N - 1
	tmp := new(big.Int)
	for i := 0; i < d.N; i++ {
		acc := new(big.Int)
		k := 0
		for j := 0; j < d.N; j++ {
			// k = i*j mod N
			tmp.Mul(b[j], pw[k])
			acc.Add(acc, tmp)
			k = (k + i) & mask
		}
		out[i] = acc.Mod(acc, d.F.Q)
	}
	return out
}

// Inverse returns the coefficient vector a with Transform(a, s) = y:
// a[k] = s^-k * N^-1 * sum_i y[i]*W^(-i*k).
func (d *DFT) Inverse(y []*big.Int, s *big.Int) []*big.Int {
	if len(y) != d.N {
		panic("ref.DFT: length mismatch")
	}
	pw := d.table()
	nInv := d.F.Inv(new(big.Int).SetUint64(uint64(d.N)))
	out := make([]*big.Int, d.N)
	mask := d.N - 1
	tmp := new(big.Int)
	sInv, sk := bi(1), bi(1)
	if s != nil {
		sInv = d.F.Inv(s)
	}
	for k := 0; k < d.N; k++ {
		acc := new(big.Int)
		e := 0
		for i := 0; i < d.N; i++ {
			// W^(-i*k) = W^((N - i*k mod N) mod N)
			tmp.Mul(y[i], pw[(d.N-e)&mask])
			acc.Add(acc, tmp)
			e = (e + k) & mask
		}
		acc.Mod(acc, d.F.Q)
		acc = d.F.Mul(acc, nInv)
		out[k] = d.F.Mul(acc, sk)
		sk = d.F.Mul(sk, sInv)
	}
	return out
}

// BasisForward returns the transform of the j-th basis vector in closed form:
// out[i] = (s*W^i)^j = s^j * W^(i*j).
func (d *DFT) BasisForward(j int, s *big.Int) []*big.Int {
	out := make([]*big.Int, d.N)
	sj := bi(1)
	if s != nil {
		sj = d.F.Exp(s, big.NewInt(int64(j)))
	}
	for i := 0; i < d.N; i++ {
		out[i] = d.F.Mul(sj, d.Pow(uint64(i)*uint64(j)))
	}
	return out
}

// BasisInverse returns the inverse transform of the j-th basis vector in closed form:
// out[k] = s^-k * N^-1 * W^(-j*k).
func (d *DFT) BasisInverse(j int, s *big.Int) []*big.Int {
	out := make([]*big.Int, d.N)
	nInv := d.F.Inv(new(big.Int).SetUint64(uint64(d.N)))
	sInv, sk := bi(1), bi(1)
	if s != nil {
		sInv = d.F.Inv(s)
	}
	n := uint64(d.N)
	for k := 0; k < d.N; k++ {
		e := (n - (uint64(j)*uint64(k))%n) % n
		out[k] = d.F.Mul(d.F.Mul(nInv, sk), d.Pow(e))
		sk = d.F.Mul(sk, sInv)
	}
	return out
}

// Permute returns b with b[i] = a[p[i]].
func Permute[T any](a []T, p []int) []T {
	b := make([]T, len(a))
	for i := range p {
		b[i] = a[p[i]]
	}
	return b
}
