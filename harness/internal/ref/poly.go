package ref

// Reference polynomials for C20: a polynomial is its coefficient list over Fp; every change of
// representation is done from the definition (evaluation at the points of the domain by Horner,
// interpolation by the Lagrange product formula) — no FFT, no code shared with gnark-crypto.

import (
	"errors"
	"fmt"
	"math/big"
	"math/bits"
)

// Poly is c[0] + c[1] X + ... over F. The zero-length list is the zero polynomial.
type Poly struct {
	F *Fp
	C []*big.Int
}

// NewPoly copies (and reduces) the coefficients.
func NewPoly(f *Fp, c []*big.Int) Poly {
	out := make([]*big.Int, len(c))
	for i, v := range c {
		out[i] = f.Red(v)
	}
	return Poly{F: f, C: out}
}

// Eval is Horner's rule.
func (p Poly) Eval(x *big.Int) *big.Int {
	r := new(big.Int)
	for i := len(p.C) - 1; i >= 0; i-- {
		r.Mul(r, x)
		r.Add(r, p.C[i])
		r.Mod(r, p.F.Q)
	}
	return r
}

// Coeff returns c[i], zero beyond the stored length.
func (p Poly) Coeff(i int) *big.Int {
	if i < 0 || i >= len(p.C) {
		return new(big.Int)
	}
	return new(big.Int).Set(p.C[i])
}

// Degree returns -1 for the zero polynomial.
func (p Poly) Degree() int {
	for i := len(p.C) - 1; i >= 0; i-- {
		if p.C[i].Sign() != 0 {
			return i
		}
	}
	return -1
}

func (p Poly) Add(q Poly) Poly {
	n := len(p.C)
	if len(q.C) > n {
		n = len(q.C)
	}
	out := make([]*big.Int, n)
	for i := range out {
		out[i] = p.F.Add(p.Coeff(i), q.Coeff(i))
	}
	return Poly{p.F, out}
}

func (p Poly) Sub(q Poly) Poly {
	n := len(p.C)
	if len(q.C) > n {
		n = len(q.C)
	}
	out := make([]*big.Int, n)
	for i := range out {
		out[i] = p.F.Sub(p.Coeff(i), q.Coeff(i))
	}
	return Poly{p.F, out}
}

func (p Poly) Scale(k *big.Int) Poly {
	out := make([]*big.Int, len(p.C))
	for i := range out {
		out[i] = p.F.Mul(p.C[i], k)
	}
	return Poly{p.F, out}
}

// Mul is the schoolbook product.
func (p Poly) Mul(q Poly) Poly {
	if len(p.C) == 0 || len(q.C) == 0 {
		return Poly{p.F, nil}
	}
	out := make([]*big.Int, len(p.C)+len(q.C)-1)
	for i := range out {
		out[i] = new(big.Int)
	}
	for i, a := range p.C {
		if a.Sign() == 0 {
			continue
		}
		for j, b := range q.C {
			out[i+j].Add(out[i+j], new(big.Int).Mul(a, b))
		}
	}
	for i := range out {
		out[i].Mod(out[i], p.F.Q)
	}
	return Poly{p.F, out}
}

// Equal compares as polynomials (trailing zeros are irrelevant).
func (p Poly) Equal(q Poly) bool {
	n := len(p.C)
	if len(q.C) > n {
		n = len(q.C)
	}
	for i := 0; i < n; i++ {
		if p.Coeff(i).Cmp(q.Coeff(i)) != 0 {
			return false
		}
	}
	return true
}

// PolyXnMinusOne returns X^n - 1.
func PolyXnMinusOne(f *Fp, n int) Poly {
	c := make([]*big.Int, n+1)
	for i := range c {
		c[i] = new(big.Int)
	}
	c[0] = f.Neg(bi(1))
	c[n] = f.Add(c[n], bi(1))
	return Poly{f, c}
}

// PolyInterpolate returns the unique polynomial of degree < len(xs) through (xs[i], ys[i]), by the
// Lagrange product formula  Σ_i y_i Π_{j≠i} (X - x_j)/(x_i - x_j).  The xs must be distinct.
func PolyInterpolate(f *Fp, xs, ys []*big.Int) (Poly, error) {
	n := len(xs)
	if len(ys) != n {
		return Poly{}, errors.New("ref: Interpolate: length mismatch")
	}
	// master product M(X) = Π (X - x_j)
	m := Poly{f, []*big.Int{bi(1)}}
	for j := 0; j < n; j++ {
		m = m.Mul(Poly{f, []*big.Int{f.Neg(xs[j]), bi(1)}})
	}
	res := Poly{f, make([]*big.Int, n)}
	for i := range res.C {
		res.C[i] = new(big.Int)
	}
	for i := 0; i < n; i++ {
		// N_i(X) = M(X)/(X - x_i) by synthetic division
		ni := make([]*big.Int, n)
		carry := new(big.Int)
		for k := n; k >= 1; k-- {
			carry = f.Add(m.C[k], f.Mul(carry, xs[i]))
			ni[k-1] = carry
		}
		den := Poly{f, ni}.Eval(xs[i])
		if den.Sign() == 0 {
			return Poly{}, fmt.Errorf("ref: Interpolate: abscissa %d repeated", i)
		}
		k := f.Mul(ys[i], f.Inv(den))
		for t := 0; t < n; t++ {
			res.C[t] = f.Add(res.C[t], f.Mul(ni[t], k))
		}
	}
	return res, nil
}

// ---- multiplicative domains -----------------------------------------------------------------------

// PolyDomain is the subgroup <W> of order N (a power of two) together with a coset shift S.
type PolyDomain struct {
	F *Fp
	N int
	W *big.Int
	S *big.Int
}

// NewPolyDomain validates its arguments: n is a power of two, w has order exactly n, and the coset
// s·<w> is disjoint from <w> (s ≠ 0 and s^n ≠ 1), which is what makes X^n - 1 invertible on it.
func NewPolyDomain(f *Fp, n int, w, s *big.Int) (*PolyDomain, error) {
	if n < 1 || n&(n-1) != 0 {
		return nil, fmt.Errorf("ref: domain size %d is not a power of two", n)
	}
	w, s = f.Red(w), f.Red(s)
	if f.Exp(w, bi(int64(n))).Cmp(bi(1)) != 0 {
		return nil, fmt.Errorf("ref: w^%d != 1", n)
	}
	if n > 1 && f.Exp(w, bi(int64(n/2))).Cmp(bi(1)) == 0 {
		return nil, fmt.Errorf("ref: w has order < %d", n)
	}
	if s.Sign() == 0 || f.Exp(s, bi(int64(n))).Cmp(bi(1)) == 0 {
		return nil, fmt.Errorf("ref: coset shift lies in the subgroup of order %d (or is zero)", n)
	}
	return &PolyDomain{F: f, N: n, W: w, S: s}, nil
}

// Point returns w^i for any integer i.
func (d *PolyDomain) Point(i int) *big.Int {
	i %= d.N
	if i < 0 {
		i += d.N
	}
	return d.F.Exp(d.W, bi(int64(i)))
}

// CosetPoint returns s·w^i.
func (d *PolyDomain) CosetPoint(i int) *big.Int { return d.F.Mul(d.S, d.Point(i)) }

// Points returns [w^0 … w^(N-1)].
func (d *PolyDomain) Points() []*big.Int {
	out := make([]*big.Int, d.N)
	acc := bi(1)
	for i := range out {
		out[i] = acc
		acc = d.F.Mul(acc, d.W)
	}
	return out
}

// CosetPoints returns [s·w^0 … s·w^(N-1)].
func (d *PolyDomain) CosetPoints() []*big.Int {
	out := d.Points()
	for i := range out {
		out[i] = d.F.Mul(out[i], d.S)
	}
	return out
}

// Contains reports whether x^N = 1.
func (d *PolyDomain) Contains(x *big.Int) bool {
	return d.F.Exp(x, bi(int64(d.N))).Cmp(bi(1)) == 0
}

// LagrangeValues returns [p(w^i)] in natural order.
func (p Poly) LagrangeValues(d *PolyDomain) []*big.Int {
	pts := d.Points()
	out := make([]*big.Int, d.N)
	for i := range out {
		out[i] = p.Eval(pts[i])
	}
	return out
}

// CosetValues returns [p(s·w^i)] in natural order.
func (p Poly) CosetValues(d *PolyDomain) []*big.Int {
	pts := d.CosetPoints()
	out := make([]*big.Int, d.N)
	for i := range out {
		out[i] = p.Eval(pts[i])
	}
	return out
}

// PolyFromLagrange interpolates natural-order values on the domain.
func PolyFromLagrange(d *PolyDomain, vals []*big.Int) (Poly, error) {
	return PolyInterpolate(d.F, d.Points(), vals)
}

// PolyFromCoset interpolates natural-order values on the coset.
func PolyFromCoset(d *PolyDomain, vals []*big.Int) (Poly, error) {
	return PolyInterpolate(d.F, d.CosetPoints(), vals)
}

// PolyBitRev returns the index i with its log2(n) low bits reversed.
func PolyBitRev(i, n int) int {
	if n <= 1 {
		return 0
	}
	lg := bits.TrailingZeros(uint(n))
	r := 0
	for b := 0; b < lg; b++ {
		if i&(1<<b) != 0 {
			r |= 1 << (lg - 1 - b)
		}
	}
	return r
}

// PolyBitReversed returns the permuted copy out[PolyBitRev(i)] = v[i]; len(v) must be a power of two.
func PolyBitReversed(v []*big.Int) []*big.Int {
	out := make([]*big.Int, len(v))
	for i := range v {
		out[PolyBitRev(i, len(v))] = v[i]
	}
	return out
}

// ---- multilinear polynomials --------------------------------------------------------------------

// EqFactor is x·y + (1-x)(1-y).
func (f *Fp) EqFactor(x, y *big.Int) *big.Int {
	one := bi(1)
	return f.Add(f.Mul(x, y), f.Mul(f.Sub(one, x), f.Sub(one, y)))
}

// EvalEq is Π_i EqFactor(q_i, h_i) (the empty product is 1).
func (f *Fp) EvalEq(q, h []*big.Int) *big.Int {
	r := bi(1)
	for i := range q {
		r = f.Mul(r, f.EqFactor(q[i], h[i]))
	}
	return r
}

// MultilinIndex is the position of the hypercube vertex (b_1..b_n) in a bookkeeping table whose
// first variable is the most significant bit (the convention under which "Fold" fixes X_1 by
// combining the lower and the upper half).
func MultilinIndex(b []int) int {
	idx := 0
	for _, v := range b {
		idx = idx<<1 | v
	}
	return idx
}

// MultilinEval evaluates the multilinear extension of table (len 2^n) at x (len n) by the sum
// formula Σ_{b∈{0,1}^n} table[idx(b)] Π_j Eq(x_j, b_j).
func (f *Fp) MultilinEval(table, x []*big.Int) *big.Int {
	n := len(x)
	if len(table) != 1<<n {
		panic("ref: MultilinEval: table size")
	}
	sum := new(big.Int)
	for idx := range table {
		term := new(big.Int).Set(table[idx])
		for j := 0; j < n; j++ {
			bj := int64((idx >> (n - 1 - j)) & 1)
			term = f.Mul(term, f.EqFactor(x[j], bi(bj)))
		}
		sum = f.Add(sum, term)
	}
	return sum
}

// MultilinFix returns the table (len 2^(n-1)) of the polynomial obtained by setting X_1 = r,
// each entry computed with the sum formula over the two values of b_1.
func (f *Fp) MultilinFix(table []*big.Int, r *big.Int) []*big.Int {
	half := len(table) / 2
	out := make([]*big.Int, half)
	for i := 0; i < half; i++ {
		out[i] = f.Add(f.Mul(table[i], f.EqFactor(r, bi(0))), f.Mul(table[i+half], f.EqFactor(r, bi(1))))
	}
	return out
}

// EqTable returns the table of h ↦ m0 · Π_j Eq(q_j, h_j) over the hypercube.
func (f *Fp) EqTable(q []*big.Int, m0 *big.Int) []*big.Int {
	n := len(q)
	out := make([]*big.Int, 1<<n)
	for idx := range out {
		v := f.Red(m0)
		for j := 0; j < n; j++ {
			bj := int64((idx >> (n - 1 - j)) & 1)
			v = f.Mul(v, f.EqFactor(q[j], bi(bj)))
		}
		out[idx] = v
	}
	return out
}
