package ref

import "bytes"

// Reference Merkle trees for property C16. No gnark-crypto import: hashes are parameters.
//
// (a) The RFC-6962-shaped tree of accumulator/merkletree, with that package's hashing rules.
//     RFC 6962 §2.1 defines, for an ordered list D[n] of n >= 1 inputs,
//
//	MTH({d0})  = H(0x00 ‖ d0)
//	MTH(D[n])  = H(0x01 ‖ MTH(D[0:k]) ‖ MTH(D[k:n]))     k = the largest power of two smaller than n
//
//     and the audit path of leaf m
//
//	PATH(0, {d0}) = {}
//	PATH(m, D[n]) = PATH(m, D[0:k]) : MTH(D[k:n])          for m <  k
//	PATH(m, D[n]) = PATH(m-k, D[k:n]) : MTH(D[0:k])        for m >= k
//
//     The repository keeps this shape but has its two domain-separation prefixes commented out
//     (tree.go leafSum/nodeSum: `sum(h, data)` and `sum(h, a, b)`), so here
//
//	leaf(d)   = H(d)          node(l, r) = H(l ‖ r)
//
//     with H taking the *sequence of chunks* (for MiMC every chunk is its own Write, see ChunkHash).
//     A proof set is the leaf data followed by PATH(m, D[n]) (lowest sibling first).
//
// (b) The Vortex tree: a complete binary tree over 2^d leaf hashes with a two-to-one compression
//     function, generic in the hash type so that the library's Poseidon2 compression can be plugged in
//     as a black box (the hash itself is decided by C14).

// MerkleRef computes MTH over sub-ranges of a fixed leaf list with memoisation.
type MerkleRef struct {
	h      ChunkHash
	leaves [][]byte
	memo   map[[2]int][]byte
}

// NewMerkleRef copies nothing: the caller must not modify leaves afterwards.
func NewMerkleRef(h ChunkHash, leaves [][]byte) *MerkleRef {
	return &MerkleRef{h: h, leaves: leaves, memo: map[[2]int][]byte{}}
}

func merkleSplit(n int) int {
	k := 1
	for 2*k < n {
		k *= 2
	}
	return k
}

// MTH returns the tree hash of leaves[a:b], b > a.
func (r *MerkleRef) MTH(a, b int) []byte {
	key := [2]int{a, b}
	if v, ok := r.memo[key]; ok {
		return v
	}
	var v []byte
	if b-a == 1 {
		v = r.h([][]byte{r.leaves[a]})
	} else {
		k := merkleSplit(b - a)
		v = r.h([][]byte{r.MTH(a, a+k), r.MTH(a+k, b)})
	}
	r.memo[key] = v
	return v
}

// Root returns MTH(leaves[0:n]).
func (r *MerkleRef) Root(n int) []byte { return r.MTH(0, n) }

// Path returns PATH(m, leaves[0:n]), lowest sibling first.
func (r *MerkleRef) Path(m, n int) [][]byte { return r.path(m, 0, n) }

func (r *MerkleRef) path(m, a, b int) [][]byte {
	if b-a == 1 {
		return nil
	}
	k := merkleSplit(b - a)
	if m < a+k {
		return append(r.path(m, a, a+k), r.MTH(a+k, b))
	}
	return append(r.path(m, a+k, b), r.MTH(a, a+k))
}

// ProofSet returns the library-shaped proof: leaf data, then the audit path.
func (r *MerkleRef) ProofSet(m, n int) [][]byte {
	return append([][]byte{r.leaves[m]}, r.Path(m, n)...)
}

// MerkleRootFromProof recomputes the root that (proofSet, m, n) commits to by replaying the RFC 6962
// recursion top-down. ok is false when the proof does not have exactly the shape of PATH(m, D[n])
// (wrong number of siblings, no leaf, m >= n).
func MerkleRootFromProof(h ChunkHash, proofSet [][]byte, m, n uint64) (root []byte, ok bool) {
	if n == 0 || m >= n || len(proofSet) == 0 {
		return nil, false
	}
	return merkleReplay(h, proofSet[0], proofSet[1:], m, n)
}

func merkleReplay(h ChunkHash, leaf []byte, path [][]byte, m, n uint64) ([]byte, bool) {
	if n == 1 {
		if len(path) != 0 {
			return nil, false
		}
		return h([][]byte{leaf}), true
	}
	if len(path) == 0 {
		return nil, false
	}
	k := uint64(1)
	for 2*k < n && 2*k > k {
		k *= 2
	}
	top := path[len(path)-1]
	if m < k {
		sub, ok := merkleReplay(h, leaf, path[:len(path)-1], m, k)
		if !ok {
			return nil, false
		}
		return h([][]byte{sub, top}), true
	}
	sub, ok := merkleReplay(h, leaf, path[:len(path)-1], m-k, n-k)
	if !ok {
		return nil, false
	}
	return h([][]byte{top, sub}), true
}

// MerkleVerify is the reference verifier: (proofSet, m, n) is an honest-shaped proof whose recomputed
// root equals root byte for byte. A nil root never verifies (the library documents that).
func MerkleVerify(h ChunkHash, root []byte, proofSet [][]byte, m, n uint64) bool {
	if root == nil {
		return false
	}
	got, ok := MerkleRootFromProof(h, proofSet, m, n)
	return ok && bytes.Equal(got, root)
}

// ---- complete binary tree (Vortex) -------------------------------------------------------------

// CompleteRoot returns the root of the complete binary tree over leaves (len a power of two >= 1):
// root({x}) = x, root(L ‖ R) = compress(root(L), root(R)).
func CompleteRoot[H any](leaves []H, compress func(a, b H) H) H {
	if len(leaves) == 1 {
		return leaves[0]
	}
	half := len(leaves) / 2
	return compress(CompleteRoot(leaves[:half], compress), CompleteRoot(leaves[half:], compress))
}

// CompletePath returns the siblings of leaf i from the lowest level up to just under the root.
func CompletePath[H any](leaves []H, i int, compress func(a, b H) H) []H {
	if len(leaves) == 1 {
		return nil
	}
	half := len(leaves) / 2
	if i < half {
		return append(CompletePath(leaves[:half], i, compress), CompleteRoot(leaves[half:], compress))
	}
	return append(CompletePath(leaves[half:], i-half, compress), CompleteRoot(leaves[:half], compress))
}

// CompleteVerify is the reference verifier for a tree with n = 2^d leaves: the path must have exactly
// d siblings, 0 <= i < n, and the recomputed root must equal root.
func CompleteVerify[H comparable](root, leaf H, i int, n int, path []H, compress func(a, b H) H) bool {
	if n < 1 || n&(n-1) != 0 || i < 0 || i >= n {
		return false
	}
	d := 0
	for 1<<d < n {
		d++
	}
	if len(path) != d {
		return false
	}
	return completeReplay(leaf, i, path, compress) == root
}

func completeReplay[H any](leaf H, i int, path []H, compress func(a, b H) H) H {
	d := len(path)
	if d == 0 {
		return leaf
	}
	half := 1 << (d - 1)
	if i < half {
		return compress(completeReplay(leaf, i, path[:d-1], compress), path[d-1])
	}
	return compress(path[d-1], completeReplay(leaf, i-half, path[:d-1], compress))
}
