package ref

// Merkle–Damgård construction over a 2-to-1 compression function, from the documentation of
// hash.NewMerkleDamgardHasher / hash.Compressor:
//
//   state_0 = initialState ; state_{k+1} = Compress(state_k, block_k) ; digest = final state
//   "The construction does not perform explicit padding on the input data. The last block of input
//   data is zero-padded to full block size."
//
// The padding is applied per Write call (there is no buffering between calls): a call contributes
// floor(len/B) full blocks followed, when len mod B ≠ 0, by one short block padded with zeros on
// the LEFT — the same convention the MiMC package documents for short values (big-endian field
// elements keep their value). The side is not stated in the doc comment; it is recorded as an
// assumption of the C14 check.

import "errors"

// MD is a Merkle–Damgård hasher description.
type MD struct {
	BlockSize int
	IV        []byte
	// F returns (compressed, true) or (nil, false) when an operand is inadmissible.
	F func(left, right []byte) ([]byte, bool)
}

// ErrMDInput reports an inadmissible block.
var ErrMDInput = errors.New("ref: inadmissible Merkle–Damgård block")

// Split cuts one Write argument into blocks (the last one left-padded when short).
func (m *MD) Split(p []byte) [][]byte {
	var out [][]byte
	for len(p) > 0 {
		if len(p) < m.BlockSize {
			b := make([]byte, m.BlockSize)
			copy(b[m.BlockSize-len(p):], p)
			out = append(out, b)
			break
		}
		out = append(out, append([]byte{}, p[:m.BlockSize]...))
		p = p[m.BlockSize:]
	}
	return out
}

// Absorb folds blocks into state (state is not modified).
func (m *MD) Absorb(state []byte, blocks [][]byte) ([]byte, error) {
	s := append([]byte{}, state...)
	for _, b := range blocks {
		n, ok := m.F(s, b)
		if !ok {
			return nil, ErrMDInput
		}
		s = n
	}
	return s, nil
}

// Hash is the digest of a sequence of Write arguments from the initial state.
func (m *MD) Hash(writes ...[]byte) ([]byte, error) {
	s := append([]byte{}, m.IV...)
	for _, w := range writes {
		var err error
		if s, err = m.Absorb(s, m.Split(w)); err != nil {
			return nil, err
		}
	}
	return s, nil
}
