package ref

// Poseidon2 (Grassi, Khovratovich, Schofnegger — eprint 2023/323) written from the published
// definition and the parameter choices documented in the poseidon2 packages:
//
//   P(x) = E_{RF/2} ∘ … ∘ I_{RP} ∘ … ∘ E_1 ( M_E · x )
//   external (full) round     E_r(x) = M_E · sbox_all( x + c_r )          c_r ∈ F^t
//   internal (partial) round  I_r(x) = M_I · ( sbox(x_0 + c_r), x_1, … )   c_r ∈ F
//   M_E = circ(2,1) (t=2), circ(2,1,1) (t=3), circ(2·M4, M4, …, M4) (4 | t)
//   M_I = J + diag(μ)   (J the all-ones matrix)
//
// Everything is computed by plain matrix–vector products over math/big. Round keys are re-derived
// from the documented seed string by the iterated legacy-Keccak rule (see KeccakChain), assigned
// in round order: t keys for each of the first RF/2 full rounds, one key for each partial round,
// t keys for each of the last RF/2 full rounds.

import (
	"fmt"
	"math/big"
)

// Poseidon2Spec is the documented, per-package part of the parameters.
type Poseidon2Spec struct {
	Name   string // "bn254", …, "koalabear"
	Q      string // modulus (decimal, from the field package documentation)
	Tag    string // name used in the seed string "Poseidon2-<Tag>[t=%d,rF=%d,rP=%d,d=%d]"
	D      int    // S-box degree
	Widths []int  // widths accepted by NewPermutation
	// Default parameters of GetDefaultParameters / NewMerkleDamgardHasher.
	DefT, DefRF, DefRP int
	// ElemBytes is the byte size of a field element (fr.Bytes).
	ElemBytes int
	// M4 is the 4×4 block of the external matrix for widths divisible by 4 (nil for t=2,3).
	M4 [][]int64
	// Diag returns μ (the diagonal added to J) for width t.
	Diag func(q *big.Int, t int) []*big.Int
}

// m4Paper is the matrix of eprint 2023/323 appendix B (used by the goldilocks package).
var m4Paper = [][]int64{{5, 7, 1, 3}, {4, 6, 1, 1}, {1, 3, 5, 7}, {1, 1, 4, 6}}

// m4Light is the matrix written in the koalabear/babybear package comments.
var m4Light = [][]int64{{2, 3, 1, 1}, {1, 2, 3, 1}, {1, 1, 2, 3}, {3, 1, 1, 2}}

// rational diagonal entry: sign * 2^-k for k>0, or the plain integer n when k==0.
type p2rat struct {
	n int64
	k uint
}

func p2ratVals(q *big.Int, rs []p2rat) []*big.Int {
	f := NewFp(q)
	out := make([]*big.Int, len(rs))
	for i, r := range rs {
		v := f.Red(big.NewInt(r.n))
		if r.k > 0 {
			v = f.Mul(v, f.Inv(new(big.Int).Lsh(big.NewInt(1), r.k)))
		}
		out[i] = v
	}
	return out
}

// Diagonals exactly as written in the comments of matMulInternalInPlace.
// koalabear 16: [-2, 1, 2, 1/2, 3, 4, -1/2, -3, -4, 1/2^8, 1/8, 1/2^24, -1/2^8, -1/8, -1/16, -1/2^24]
var koala16 = []p2rat{{-2, 0}, {1, 0}, {2, 0}, {1, 1}, {3, 0}, {4, 0}, {-1, 1}, {-3, 0}, {-4, 0}, {1, 8}, {1, 3}, {1, 24}, {-1, 8}, {-1, 3}, {-1, 4}, {-1, 24}}

// koalabear 24: [-2, 1, 2, 1/2, 3, 4, -1/2, -3, -4, 1/2^8, 1/4, 1/8, 1/16, 1/32, 1/64, 1/2^24, -1/2^8, -1/8, -1/16, -1/32, -1/64, -1/2^7, -1/2^9, -1/2^24]
var koala24 = []p2rat{{-2, 0}, {1, 0}, {2, 0}, {1, 1}, {3, 0}, {4, 0}, {-1, 1}, {-3, 0}, {-4, 0}, {1, 8}, {1, 2}, {1, 3}, {1, 4}, {1, 5}, {1, 6}, {1, 24}, {-1, 8}, {-1, 3}, {-1, 4}, {-1, 5}, {-1, 6}, {-1, 7}, {-1, 9}, {-1, 24}}

// babybear 16: [-2, 1, 2, 1/2, 3, 4, -1/2, -3, -4, 1/2^8, 1/4, 1/8, 1/2^27, -1/2^8, -1/16, -1/2^27]
var baby16 = []p2rat{{-2, 0}, {1, 0}, {2, 0}, {1, 1}, {3, 0}, {4, 0}, {-1, 1}, {-3, 0}, {-4, 0}, {1, 8}, {1, 2}, {1, 3}, {1, 27}, {-1, 8}, {-1, 4}, {-1, 27}}

// babybear 24: [-2, 1, 2, 1/2, 3, 4, -1/2, -3, -4, 1/2^8, 1/4, 1/8, 1/16, 1/2^7, 1/2^9, 1/2^27, -1/2^8, -1/4, -1/8, -1/16, -1/32, -1/64, -1/2^7, -1/2^27]
var baby24 = []p2rat{{-2, 0}, {1, 0}, {2, 0}, {1, 1}, {3, 0}, {4, 0}, {-1, 1}, {-3, 0}, {-4, 0}, {1, 8}, {1, 2}, {1, 3}, {1, 4}, {1, 7}, {1, 9}, {1, 27}, {-1, 8}, {-1, 2}, {-1, 3}, {-1, 4}, {-1, 5}, {-1, 6}, {-1, 7}, {-1, 27}}

// The numeric tables published in hash.go of the small-field packages ("from Plonky3").
// For koalabear/babybear they must agree with the rational form above (checked by the anchors);
// for goldilocks they are the only documented form.
var Poseidon2DocDiag = map[string][]uint64{
	"koalabear/16":  {2130706431, 1, 2, 1065353217, 3, 4, 1065353216, 2130706430, 2130706429, 2122383361, 1864368129, 2130706306, 8323072, 266338304, 133169152, 127},
	"koalabear/24":  {2130706431, 1, 2, 1065353217, 3, 4, 1065353216, 2130706430, 2130706429, 2122383361, 1598029825, 1864368129, 1997537281, 2064121857, 2097414145, 2130706306, 8323072, 266338304, 133169152, 66584576, 33292288, 16646144, 4161536, 127},
	"babybear/16":   {2013265919, 1, 2, 1006632961, 3, 4, 1006632960, 2013265918, 2013265917, 2005401601, 1509949441, 1761607681, 2013265906, 7864320, 125829120, 15},
	"babybear/24":   {2013265919, 1, 2, 1006632961, 3, 4, 1006632960, 2013265918, 2013265917, 2005401601, 1509949441, 1761607681, 1887436801, 1997537281, 2009333761, 2013265906, 7864320, 503316480, 251658240, 125829120, 62914560, 31457280, 15728640, 15},
	"goldilocks/8":  {12216033376705242021, 2072934925475504800, 16432743296706583078, 1287600597097751715, 10482065724875379356, 3057917794534811537, 4460508886913832365, 4574242228824269566},
	"goldilocks/12": {14102670999874605824, 15585654191999307702, 940187017142450255, 8747386241522630711, 6750641561540124747, 7440998025584530007, 6136358134615751536, 12413576830284969611, 11675438539028694709, 17580553691069642926, 892707462476851331, 15167485180850043744},
}

func curveDiag(q *big.Int, t int) []*big.Int {
	// "when T=2,3 the matrix are respectively [[2,1][1,3]] and [[2,1,1][1,2,1][1,1,3]]"
	switch t {
	case 2:
		return []*big.Int{bi(1), bi(2)}
	case 3:
		return []*big.Int{bi(1), bi(1), bi(2)}
	}
	return nil
}

func ratDiag(a16, a24 []p2rat) func(q *big.Int, t int) []*big.Int {
	return func(q *big.Int, t int) []*big.Int {
		switch t {
		case 16:
			return p2ratVals(q, a16)
		case 24:
			return p2ratVals(q, a24)
		}
		return nil
	}
}

func goldilocksDiag(q *big.Int, t int) []*big.Int {
	tab := Poseidon2DocDiag[fmt.Sprintf("goldilocks/%d", t)]
	if tab == nil {
		return nil
	}
	out := make([]*big.Int, len(tab))
	for i, v := range tab {
		out[i] = new(big.Int).SetUint64(v)
	}
	return out
}

func curveP2(name, q, tag string, d, rp, bytes int) Poseidon2Spec {
	return Poseidon2Spec{Name: name, Q: q, Tag: tag, D: d, Widths: []int{2, 3}, DefT: 2, DefRF: 6, DefRP: rp, ElemBytes: bytes, Diag: curveDiag}
}

// Poseidon2Specs lists the eleven Poseidon2 packages.
var Poseidon2Specs = []Poseidon2Spec{
	curveP2("bn254", MiMCSpecs[0].Q, "BN254", 5, 50, 32),
	curveP2("bls12-377", MiMCSpecs[1].Q, "BLS12_377", 17, 26, 32),
	curveP2("bls12-381", MiMCSpecs[2].Q, "BLS12_381", 5, 50, 32),
	curveP2("bls24-315", MiMCSpecs[3].Q, "BLS24_315", 5, 50, 32),
	curveP2("bls24-317", MiMCSpecs[4].Q, "BLS24_317", 7, 40, 32),
	curveP2("bw6-633", MiMCSpecs[5].Q, "BW6_633", 5, 50, 40),
	curveP2("bw6-761", MiMCSpecs[6].Q, "BW6_761", 5, 50, 48),
	curveP2("grumpkin", MiMCSpecs[7].Q, "GRUMPKIN", 5, 50, 32),
	{Name: "koalabear", Q: "2130706433", Tag: "koalabear", D: 3, Widths: []int{16, 24}, DefT: 16, DefRF: 6, DefRP: 21, ElemBytes: 4, M4: m4Light, Diag: ratDiag(koala16, koala24)},
	{Name: "babybear", Q: "2013265921", Tag: "babybear", D: 7, Widths: []int{16, 24}, DefT: 16, DefRF: 8, DefRP: 13, ElemBytes: 4, M4: m4Light, Diag: ratDiag(baby16, baby24)},
	{Name: "goldilocks", Q: "18446744069414584321", Tag: "goldilocks", D: 7, Widths: []int{8, 12}, DefT: 8, DefRF: 6, DefRP: 17, ElemBytes: 8, M4: m4Paper, Diag: goldilocksDiag},
}

// Modulus parses the spec's modulus.
func (s Poseidon2Spec) Modulus() *big.Int {
	q, ok := new(big.Int).SetString(s.Q, 10)
	if !ok {
		panic("ref: bad modulus in Poseidon2 spec " + s.Name)
	}
	return q
}

// SeedString is Parameters.String() as documented ("unique for specific parameters and curve").
func (s Poseidon2Spec) SeedString(t, rf, rp int) string {
	return fmt.Sprintf("Poseidon2-%s[t=%d,rF=%d,rP=%d,d=%d]", s.Tag, t, rf, rp, s.D)
}

// Supports reports whether NewPermutation documents width t as supported.
func (s Poseidon2Spec) Supports(t int) bool {
	for _, w := range s.Widths {
		if w == t {
			return true
		}
	}
	return false
}

// Poseidon2 is one permutation instance.
type Poseidon2 struct {
	F         *Fp
	T, RF, RP int
	D         int
	RC        [][]*big.Int // RF+RP rows: t entries for full rounds, one for partial rounds
	ME, MI    [][]*big.Int
	ElemBytes int
}

// Poseidon2RoundKeys derives the round keys from a seed string.
func Poseidon2RoundKeys(q *big.Int, seed string, t, rf, rp int) [][]*big.Int {
	half := rf / 2
	chain := KeccakChain(seed, 2*half*t+rp, q)
	rc := make([][]*big.Int, 0, rf+rp)
	k := 0
	for i := 0; i < half; i++ {
		rc = append(rc, chain[k:k+t])
		k += t
	}
	for i := 0; i < rp; i++ {
		rc = append(rc, chain[k:k+1])
		k++
	}
	for i := 0; i < half; i++ {
		rc = append(rc, chain[k:k+t])
		k += t
	}
	return rc
}

// Poseidon2External returns M_E for width t.
func Poseidon2External(t int, m4 [][]int64) [][]*big.Int {
	m := make([][]*big.Int, t)
	for i := range m {
		m[i] = make([]*big.Int, t)
	}
	switch {
	case t == 2 || t == 3: // circ(2,1) / circ(2,1,1)
		for i := 0; i < t; i++ {
			for j := 0; j < t; j++ {
				m[i][j] = bi(1)
				if i == j {
					m[i][j] = bi(2)
				}
			}
		}
	case t%4 == 0 && m4 != nil: // circ(2·M4, M4, …, M4)
		for bi_ := 0; bi_ < t/4; bi_++ {
			for bj := 0; bj < t/4; bj++ {
				f := int64(1)
				if bi_ == bj {
					f = 2
				}
				for i := 0; i < 4; i++ {
					for j := 0; j < 4; j++ {
						m[4*bi_+i][4*bj+j] = bi(f * m4[i][j])
					}
				}
			}
		}
	default:
		return nil
	}
	return m
}

// Poseidon2Internal returns J + diag(mu).
func Poseidon2Internal(mu []*big.Int) [][]*big.Int {
	t := len(mu)
	m := make([][]*big.Int, t)
	for i := range m {
		m[i] = make([]*big.Int, t)
		for j := range m[i] {
			m[i][j] = bi(1)
			if i == j {
				m[i][j] = new(big.Int).Add(bi(1), mu[i])
			}
		}
	}
	return m
}

// NewPoseidon2 builds the permutation with the default seed string (NewPermutation /
// NewParameters). It returns nil when the width is not supported by the package.
func NewPoseidon2(s Poseidon2Spec, t, rf, rp int) *Poseidon2 {
	return NewPoseidon2Seeded(s, t, rf, rp, s.SeedString(t, rf, rp))
}

// NewPoseidon2Seeded builds the permutation with round keys derived from an explicit seed
// (NewPermutationWithSeed / NewParametersWithSeed).
func NewPoseidon2Seeded(s Poseidon2Spec, t, rf, rp int, seed string) *Poseidon2 {
	if !s.Supports(t) {
		return nil
	}
	q := s.Modulus()
	return &Poseidon2{F: NewFp(q), T: t, RF: rf, RP: rp, D: s.D, RC: Poseidon2RoundKeys(q, seed, t, rf, rp),
		ME: Poseidon2External(t, s.M4), MI: Poseidon2Internal(s.Diag(q, t)), ElemBytes: s.ElemBytes}
}

func (p *Poseidon2) matVec(m [][]*big.Int, x []*big.Int) []*big.Int {
	out := make([]*big.Int, len(x))
	for i := range m {
		acc := new(big.Int)
		for j := range x {
			acc.Add(acc, new(big.Int).Mul(m[i][j], x[j]))
		}
		out[i] = acc.Mod(acc, p.F.Q)
	}
	return out
}

func (p *Poseidon2) sbox(x *big.Int) *big.Int {
	return new(big.Int).Exp(x, big.NewInt(int64(p.D)), p.F.Q)
}

// Permute returns P(in) (in is not modified). len(in) must be T.
func (p *Poseidon2) Permute(in []*big.Int) []*big.Int {
	if len(in) != p.T {
		panic("ref: Poseidon2 width mismatch")
	}
	x := make([]*big.Int, p.T)
	for i := range in {
		x[i] = p.F.Red(in[i])
	}
	x = p.matVec(p.ME, x)
	half := p.RF / 2
	full := func(r int) {
		for j := range x {
			x[j] = p.sbox(p.F.Add(x[j], p.RC[r][j]))
		}
		x = p.matVec(p.ME, x)
	}
	for r := 0; r < half; r++ {
		full(r)
	}
	for r := half; r < half+p.RP; r++ {
		x[0] = p.sbox(p.F.Add(x[0], p.RC[r][0]))
		x = p.matVec(p.MI, x)
	}
	for r := half + p.RP; r < 2*half+p.RP; r++ {
		full(r)
	}
	return x
}

// CompressElems is the documented 2-to-1 compression: with n = T/2,
// out = P(left‖right)[n:] + right ("save right to feed forward later").
func (p *Poseidon2) CompressElems(left, right []*big.Int) []*big.Int {
	n := p.T / 2
	if p.T != 2*n || len(left) != n || len(right) != n {
		panic("ref: Poseidon2 compress shape")
	}
	y := p.Permute(append(append([]*big.Int{}, left...), right...))
	out := make([]*big.Int, n)
	for i := 0; i < n; i++ {
		out[i] = p.F.Add(y[n+i], right[i])
	}
	return out
}

// CompressBlockSize is the byte length of each Compress operand and of its result.
func (p *Poseidon2) CompressBlockSize() int { return p.T / 2 * p.ElemBytes }

// DecodeElems parses n canonical big-endian elements; ok=false when the length is wrong or an
// element is not reduced.
func (p *Poseidon2) DecodeElems(b []byte) ([]*big.Int, bool) {
	if p.ElemBytes == 0 || len(b)%p.ElemBytes != 0 {
		return nil, false
	}
	var out []*big.Int
	for o := 0; o < len(b); o += p.ElemBytes {
		v := new(big.Int).SetBytes(b[o : o+p.ElemBytes])
		if v.Cmp(p.F.Q) >= 0 {
			return nil, false
		}
		out = append(out, v)
	}
	return out, true
}

// EncodeElems is the concatenation of the big-endian element encodings.
func (p *Poseidon2) EncodeElems(v []*big.Int) []byte {
	out := make([]byte, 0, len(v)*p.ElemBytes)
	for _, e := range v {
		out = append(out, p.F.Red(e).FillBytes(make([]byte, p.ElemBytes))...)
	}
	return out
}

// Compress is the byte-level compression function: both operands must be CompressBlockSize bytes
// of canonical elements, else ok=false (the library must return an error).
func (p *Poseidon2) Compress(left, right []byte) ([]byte, bool) {
	if p.T%2 != 0 || len(left) != p.CompressBlockSize() || len(right) != p.CompressBlockSize() {
		return nil, false
	}
	l, ok1 := p.DecodeElems(left)
	r, ok2 := p.DecodeElems(right)
	if !ok1 || !ok2 {
		return nil, false
	}
	return p.EncodeElems(p.CompressElems(l, r)), true
}
