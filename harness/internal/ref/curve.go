package ref

import "math/big"

// Curve is the short Weierstrass curve y^2 = x^3 + A x + B over F, with the textbook affine
// chord-and-tangent law and an explicit point at infinity.
type Curve struct {
	F    Fld
	A, B V
}

// Pt is an affine point or the point at infinity.
type Pt struct {
	X, Y V
	Inf  bool
}

func (c *Curve) Infinity() Pt { return Pt{Inf: true} }

func (c *Curve) rhs(x V) V {
	F := c.F
	return F.Add(F.Add(F.Mul(F.Mul(x, x), x), F.Mul(c.A, x)), c.B)
}

func (c *Curve) OnCurve(p Pt) bool {
	if p.Inf {
		return true
	}
	return c.F.Eq(c.F.Mul(p.Y, p.Y), c.rhs(p.X))
}

func (c *Curve) Eq(p, q Pt) bool {
	if p.Inf || q.Inf {
		return p.Inf == q.Inf
	}
	return c.F.Eq(p.X, q.X) && c.F.Eq(p.Y, q.Y)
}

func (c *Curve) Neg(p Pt) Pt {
	if p.Inf {
		return p
	}
	return Pt{X: p.X, Y: c.F.Neg(p.Y)}
}

func (c *Curve) Double(p Pt) Pt {
	F := c.F
	if p.Inf || F.IsZero(p.Y) {
		return Pt{Inf: true}
	}
	x2 := F.Mul(p.X, p.X)
	num := F.Add(F.Add(F.Add(x2, x2), x2), c.A)
	l := F.Mul(num, F.Inv(F.Add(p.Y, p.Y)))
	x3 := F.Sub(F.Sub(F.Mul(l, l), p.X), p.X)
	y3 := F.Sub(F.Mul(l, F.Sub(p.X, x3)), p.Y)
	return Pt{X: x3, Y: y3}
}

func (c *Curve) Add(p, q Pt) Pt {
	F := c.F
	if p.Inf {
		return q
	}
	if q.Inf {
		return p
	}
	if F.Eq(p.X, q.X) {
		if F.Eq(p.Y, q.Y) {
			return c.Double(p)
		}
		return Pt{Inf: true}
	}
	l := F.Mul(F.Sub(q.Y, p.Y), F.Inv(F.Sub(q.X, p.X)))
	x3 := F.Sub(F.Sub(F.Mul(l, l), p.X), q.X)
	y3 := F.Sub(F.Mul(l, F.Sub(p.X, x3)), p.Y)
	return Pt{X: x3, Y: y3}
}

func (c *Curve) Sub(p, q Pt) Pt { return c.Add(p, c.Neg(q)) }

// Mul is double-and-add on |k|, negated for negative k.
func (c *Curve) Mul(k *big.Int, p Pt) Pt {
	n := new(big.Int).Abs(k)
	r := Pt{Inf: true}
	for i := n.BitLen() - 1; i >= 0; i-- {
		r = c.Double(r)
		if n.Bit(i) == 1 {
			r = c.Add(r, p)
		}
	}
	if k.Sign() < 0 {
		r = c.Neg(r)
	}
	return r
}

// LiftX returns a point with abscissa x if x^3+Ax+B is a square.
func (c *Curve) LiftX(x V) (Pt, bool) {
	y := c.F.Sqrt(c.rhs(x))
	if y == nil {
		return Pt{}, false
	}
	return Pt{X: Red(c.F, x), Y: y}, true
}

func (c *Curve) Str(p Pt) string {
	if p.Inf {
		return "O"
	}
	return "(" + String(p.X) + "," + String(p.Y) + ")"
}

// ---- twisted Edwards ------------------------------------------------------------------------

// Edwards is a x^2 + y^2 = 1 + d x^2 y^2 over a prime field, with the unified affine law.
type Edwards struct {
	F    *Fp
	A, D *big.Int
}

// EPt is an affine twisted-Edwards point.
type EPt struct{ X, Y *big.Int }

func (e *Edwards) Zero() EPt { return EPt{new(big.Int), bi(1)} }

func (e *Edwards) OnCurve(p EPt) bool {
	F := e.F
	x2, y2 := F.Sqr(p.X), F.Sqr(p.Y)
	l := F.Add(F.Mul(e.A, x2), y2)
	r := F.Add(bi(1), F.Mul(e.D, F.Mul(x2, y2)))
	return F.Eq(l, r)
}

func (e *Edwards) Eq(p, q EPt) bool { return e.F.Eq(p.X, q.X) && e.F.Eq(p.Y, q.Y) }

func (e *Edwards) Neg(p EPt) EPt { return EPt{e.F.Neg(p.X), e.F.Red(p.Y)} }

// Add is the unified addition law; ok=false if a denominator vanishes (cannot happen for
// points of a complete curve: a square, d non-square).
func (e *Edwards) Add(p, q EPt) (EPt, bool) {
	F := e.F
	x1y2 := F.Mul(p.X, q.Y)
	y1x2 := F.Mul(p.Y, q.X)
	y1y2 := F.Mul(p.Y, q.Y)
	x1x2 := F.Mul(p.X, q.X)
	t := F.Mul(e.D, F.Mul(x1x2, y1y2))
	d1 := F.Add(bi(1), t)
	d2 := F.Sub(bi(1), t)
	if d1.Sign() == 0 || d2.Sign() == 0 {
		return EPt{}, false
	}
	x3 := F.Mul(F.Add(x1y2, y1x2), F.Inv(d1))
	y3 := F.Mul(F.Sub(y1y2, F.Mul(e.A, x1x2)), F.Inv(d2))
	return EPt{x3, y3}, true
}

func (e *Edwards) Mul(k *big.Int, p EPt) EPt {
	n := new(big.Int).Abs(k)
	r := e.Zero()
	for i := n.BitLen() - 1; i >= 0; i-- {
		r, _ = e.Add(r, r)
		if n.Bit(i) == 1 {
			r, _ = e.Add(r, p)
		}
	}
	if k.Sign() < 0 {
		r = e.Neg(r)
	}
	return r
}

// LiftY returns the points with ordinate y: x^2 = (1-y^2)/(a - d y^2).
func (e *Edwards) LiftY(y *big.Int) (EPt, bool) {
	F := e.F
	y2 := F.Sqr(y)
	den := F.Sub(e.A, F.Mul(e.D, y2))
	if den.Sign() == 0 {
		return EPt{}, false
	}
	x2 := F.Mul(F.Sub(bi(1), y2), F.Inv(den))
	x := F.Sqrt(x2)
	if x == nil {
		return EPt{}, false
	}
	return EPt{x, F.Red(y)}, true
}
