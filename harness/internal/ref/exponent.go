package ref

// "Verification in the exponent" (DESIGN §3): with a known trapdoor τ every SRS element [τ^i]G and
// every honest or forged group element [k]G is tracked by its discrete logarithm in F_r, so the
// verifier's pairing equation e([a]G1,G2)·e([b]G1,[τ]G2) = 1 becomes the scalar identity
// a + τ·b = 0 (mod r), which is evaluated exactly. Nothing here touches a curve or the library.

import (
	"crypto/sha256"
	"math/big"
)

// Exponent is the scalar field F_r together with the trapdoor τ of a structured reference string.
type Exponent struct {
	F   *Fp
	Tau *big.Int
}

func NewExponent(r, tau *big.Int) *Exponent {
	f := NewFp(r)
	return &Exponent{F: f, Tau: f.Red(tau)}
}

// Horner evaluates Σ p[i] X^i at x (the empty polynomial evaluates to 0).
func (e *Exponent) Horner(p []*big.Int, x *big.Int) *big.Int {
	acc := new(big.Int)
	for i := len(p) - 1; i >= 0; i-- {
		acc = e.F.Add(e.F.Mul(acc, x), p[i])
	}
	return acc
}

// Commit is the discrete logarithm of the KZG commitment of p: p(τ).
func (e *Exponent) Commit(p []*big.Int) *big.Int { return e.Horner(p, e.Tau) }

// Quotient returns q = (p − p(z))/(X − z) (len(p)−1 coefficients, empty for a constant) and p(z),
// by textbook long division from the leading coefficient: q_{n−2} = p_{n−1}, q_{i−1} = p_i + z·q_i;
// the remainder p_0 + z·q_0 is p(z).
func (e *Exponent) Quotient(p []*big.Int, z *big.Int) (q []*big.Int, v *big.Int) {
	n := len(p)
	if n == 0 {
		return nil, new(big.Int)
	}
	q = make([]*big.Int, n-1)
	carry := new(big.Int)
	for i := n - 1; i >= 1; i-- {
		carry = e.F.Add(p[i], e.F.Mul(z, carry))
		q[i-1] = carry
	}
	v = e.F.Add(p[0], e.F.Mul(z, carry))
	return q, v
}

// MulXMinus returns (X − z)·q.
func (e *Exponent) MulXMinus(q []*big.Int, z *big.Int) []*big.Int {
	out := make([]*big.Int, len(q)+1)
	for i := range out {
		out[i] = new(big.Int)
	}
	for i := range q {
		out[i+1] = e.F.Add(out[i+1], q[i])
		out[i] = e.F.Sub(out[i], e.F.Mul(z, q[i]))
	}
	return out
}

// Holds decides the single-opening relation for the tuple (commitment [c]G1, quotient [h]G1,
// claimed value v, point z):  c − v = (τ − z)·h  (mod r).
func (e *Exponent) Holds(c, h, v, z *big.Int) bool {
	return e.F.Eq(e.F.Sub(c, v), e.F.Mul(e.F.Sub(e.Tau, z), h))
}

// Fold returns Σ γ^i a_i.
func (e *Exponent) Fold(a []*big.Int, gamma *big.Int) *big.Int {
	acc := new(big.Int)
	g := bi(1)
	for i := range a {
		acc = e.F.Add(acc, e.F.Mul(g, a[i]))
		g = e.F.Mul(g, gamma)
	}
	return acc
}

// BatchHolds decides the folded relation Σγ^i(c_i − v_i) = (τ − z)·h.
func (e *Exponent) BatchHolds(cs, vs []*big.Int, h, z, gamma *big.Int) bool {
	if len(cs) != len(vs) {
		return false
	}
	return e.Holds(e.Fold(cs, gamma), h, e.Fold(vs, gamma), z)
}

// KZGGamma is the folding challenge of the batched single-point opening as the package comment of
// fiat-shamir and kzg.deriveGamma define it for a one-challenge transcript named "gamma" over
// SHA-256:  γ = SHA-256("gamma" ‖ point ‖ digest_0 ‖ … ‖ value_0 ‖ … ‖ data_0 ‖ …) read as a
// big-endian integer and reduced modulo r. The encodings (fixed-size big-endian scalars, the
// Marshal() encoding of the points) are supplied by the caller.
func KZGGamma(r *big.Int, point []byte, digests, values, data [][]byte) *big.Int {
	h := sha256.New()
	h.Write([]byte("gamma"))
	h.Write(point)
	for _, d := range digests {
		h.Write(d)
	}
	for _, v := range values {
		h.Write(v)
	}
	for _, d := range data {
		h.Write(d)
	}
	g := new(big.Int).SetBytes(h.Sum(nil))
	return g.Mod(g, r)
}

// LagrangeAtTau returns L_i(τ), i<n, for the domain {ω^i}: L_i(X) = Π_{j≠i}(X − ω^j)/(ω^i − ω^j),
// computed from the definition (O(n²)).
func (e *Exponent) LagrangeAtTau(n int, omega *big.Int) []*big.Int {
	F := e.F
	pts := make([]*big.Int, n)
	w := bi(1)
	for i := range pts {
		pts[i] = w
		w = F.Mul(w, omega)
	}
	out := make([]*big.Int, n)
	for i := 0; i < n; i++ {
		num, den := bi(1), bi(1)
		for j := 0; j < n; j++ {
			if j == i {
				continue
			}
			num = F.Mul(num, F.Sub(e.Tau, pts[j]))
			den = F.Mul(den, F.Sub(pts[i], pts[j]))
		}
		out[i] = F.Mul(num, F.Inv(den))
	}
	return out
}
