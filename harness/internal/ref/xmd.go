package ref

import (
	"crypto/sha256"
	"errors"
	"math/big"
)

// RFC 9380 section 5.3.1, expand_message_xmd, instantiated with H = SHA-256
// (b_in_bytes = 32, s_in_bytes = 64). Written from the RFC pseudocode:
//
//  1. ell = ceil(len_in_bytes / b_in_bytes)
//  2. ABORT if ell > 255 or len_in_bytes > 65535 or len(DST) > 255
//  3. DST_prime = DST || I2OSP(len(DST), 1)
//  4. Z_pad = I2OSP(0, s_in_bytes)
//  5. l_i_b_str = I2OSP(len_in_bytes, 2)
//  6. msg_prime = Z_pad || msg || l_i_b_str || I2OSP(0, 1) || DST_prime
//  7. b_0 = H(msg_prime)
//  8. b_1 = H(b_0 || I2OSP(1, 1) || DST_prime)
//  9. for i in (2, ..., ell): b_i = H(strxor(b_0, b_(i - 1)) || I2OSP(i, 1) || DST_prime)
//  11. uniform_bytes = b_1 || ... || b_ell
//  12. return substr(uniform_bytes, 0, len_in_bytes)
const (
	xmdB = 32 // b_in_bytes of SHA-256
	xmdS = 64 // s_in_bytes (input block size) of SHA-256
)

var (
	ErrXMDLen = errors.New("ref: expand_message_xmd: ell > 255 or len_in_bytes > 65535")
	ErrXMDDst = errors.New("ref: expand_message_xmd: len(DST) > 255")
)

// I2OSP is the big-endian encoding of v on n bytes (RFC 8017); v must fit.
func I2OSP(v, n int) []byte {
	out := make([]byte, n)
	for i := n - 1; i >= 0; i-- {
		out[i] = byte(v & 0xff)
		v >>= 8
	}
	if v != 0 {
		panic("ref: I2OSP overflow")
	}
	return out
}

// OS2IP is the big-endian decoding.
func OS2IP(b []byte) *big.Int { return new(big.Int).SetBytes(b) }

func cat(parts ...[]byte) []byte {
	var out []byte
	for _, p := range parts {
		out = append(out, p...)
	}
	return out
}

func h256(parts ...[]byte) []byte {
	s := sha256.Sum256(cat(parts...))
	return s[:]
}

// ExpandMessageXMD returns len_in_bytes uniform bytes or the RFC's abort conditions as errors.
// lenInBytes must be >= 0.
func ExpandMessageXMD(msg, dst []byte, lenInBytes int) ([]byte, error) {
	if lenInBytes < 0 {
		panic("ref: negative length")
	}
	ell := lenInBytes / xmdB
	if lenInBytes%xmdB != 0 {
		ell++
	}
	if ell > 255 || lenInBytes > 65535 {
		return nil, ErrXMDLen
	}
	if len(dst) > 255 {
		return nil, ErrXMDDst
	}
	dstPrime := cat(dst, I2OSP(len(dst), 1))
	zPad := I2OSP(0, xmdS)
	lib := I2OSP(lenInBytes, 2)
	b0 := h256(zPad, msg, lib, I2OSP(0, 1), dstPrime)
	var uniform []byte
	prev := h256(b0, I2OSP(1, 1), dstPrime)
	if ell >= 1 {
		uniform = append(uniform, prev...)
	}
	for i := 2; i <= ell; i++ {
		x := make([]byte, xmdB)
		for j := range x {
			x[j] = b0[j] ^ prev[j]
		}
		prev = h256(x, I2OSP(i, 1), dstPrime)
		uniform = append(uniform, prev...)
	}
	out := make([]byte, lenInBytes)
	copy(out, uniform[:lenInBytes])
	return out, nil
}

// SecurityBits is the parameter k of RFC 9380 (128-bit target for every suite here).
const SecurityBits = 128

// HashToFieldL is L = ceil((ceil(log2(p)) + k) / 8) (RFC 9380 section 5.1/5.2).
func HashToFieldL(p *big.Int) int {
	// ceil(log2 p) = bitlen(p-1) for p >= 2
	lg := new(big.Int).Sub(p, bi(1)).BitLen()
	return (lg + SecurityBits + 7) / 8
}

// HashToField is RFC 9380 section 5.2 with expand_message_xmd/SHA-256: count elements of the
// extension of degree m of F_p, element i = (e_0..e_{m-1}), e_j = OS2IP(tv) mod p with
// tv = substr(uniform_bytes, L*(j + i*m), L).
func HashToField(msg, dst []byte, p *big.Int, m, count int) ([]V, error) {
	L := HashToFieldL(p)
	ub, err := ExpandMessageXMD(msg, dst, count*m*L)
	if err != nil {
		return nil, err
	}
	out := make([]V, count)
	for i := 0; i < count; i++ {
		e := make(V, m)
		for j := 0; j < m; j++ {
			off := L * (j + i*m)
			e[j] = new(big.Int).Mod(OS2IP(ub[off:off+L]), p)
		}
		out[i] = e
	}
	return out, nil
}
