package ref

import (
	"math/big"
)

// TabFld is the same field as F with the product evaluated through a multiplication table:
// the table T[i][j] = b_i * b_j of the flat basis (b_i = i-th unit coefficient vector) is
// computed once with F's own schoolbook product, and x*y = sum_{i,j} x_i y_j T[i][j] by
// bilinearity, with one reduction per output coefficient. It exists because the nested
// schoolbook product of a 12- or 24-dimensional tower costs hundreds of modular reductions;
// this form is ~10x faster and is, by construction, the same bilinear map. NewTabFld
// cross-checks it against F.Mul on dense operands. Everything else delegates to F.
type TabFld struct {
	F     Fld
	n     int
	p     *big.Int
	terms [][]tabTerm // index i*n+j
}

type tabTerm struct {
	k    int
	coef *big.Int // centred representative in (-p/2, p/2]
	unit int      // +1 / -1 when coef is a unit, else 0
}

// NewTabFld tabulates F.
func NewTabFld(F Fld) *TabFld {
	n := F.Deg()
	t := &TabFld{F: F, n: n, p: F.P(), terms: make([][]tabTerm, n*n)}
	half := new(big.Int).Rsh(t.p, 1)
	unit := func(i int) V {
		v := F.Zero()
		v[i] = bi(1)
		return v
	}
	for i := 0; i < n; i++ {
		for j := 0; j < n; j++ {
			prod := F.Mul(unit(i), unit(j))
			for k, c := range prod {
				c = new(big.Int).Mod(c, t.p)
				if c.Sign() == 0 {
					continue
				}
				if c.Cmp(half) > 0 {
					c.Sub(c, t.p)
				}
				tt := tabTerm{k: k, coef: c}
				if c.IsInt64() && (c.Int64() == 1 || c.Int64() == -1) {
					tt.unit = int(c.Int64())
				}
				t.terms[i*n+j] = append(t.terms[i*n+j], tt)
			}
		}
	}
	// cross-check on dense operands (two fixed pseudo-random vectors and 1, b_i)
	a, b := make(V, n), make(V, n)
	for i := 0; i < n; i++ {
		a[i] = new(big.Int).Exp(bi(int64(3+i)), bi(97), t.p)
		b[i] = new(big.Int).Exp(bi(int64(5+2*i)), bi(101), t.p)
	}
	for r := 0; r < 3; r++ {
		if !F.Eq(t.Mul(a, b), F.Mul(a, b)) {
			panic("ref: TabFld product disagrees with the schoolbook product")
		}
		a, b = F.Mul(a, b), F.Add(a, b)
	}
	return t
}

func (t *TabFld) Deg() int           { return t.n }
func (t *TabFld) P() *big.Int        { return t.p }
func (t *TabFld) Order() *big.Int    { return t.F.Order() }
func (t *TabFld) Zero() V            { return t.F.Zero() }
func (t *TabFld) One() V             { return t.F.One() }
func (t *TabFld) Add(a, b V) V       { return t.F.Add(a, b) }
func (t *TabFld) Sub(a, b V) V       { return t.F.Sub(a, b) }
func (t *TabFld) Neg(a V) V          { return t.F.Neg(a) }
func (t *TabFld) Inv(a V) V          { return t.F.Inv(a) }
func (t *TabFld) IsZero(a V) bool    { return t.F.IsZero(a) }
func (t *TabFld) Eq(a, b V) bool     { return t.F.Eq(a, b) }
func (t *TabFld) IsSquare(a V) bool  { return t.F.IsSquare(a) }
func (t *TabFld) Sqrt(a V) V         { return t.F.Sqrt(a) }

// Mul is the bilinear extension of the tabulated basis products.
func (t *TabFld) Mul(a, b V) V {
	n := t.n
	acc := make([]*big.Int, n)
	for k := range acc {
		acc[k] = new(big.Int)
	}
	var prod, tmp big.Int
	for i := 0; i < n; i++ {
		if a[i].Sign() == 0 {
			continue
		}
		for j := 0; j < n; j++ {
			if b[j].Sign() == 0 {
				continue
			}
			prod.Mul(a[i], b[j])
			for _, tt := range t.terms[i*n+j] {
				switch tt.unit {
				case 1:
					acc[tt.k].Add(acc[tt.k], &prod)
				case -1:
					acc[tt.k].Sub(acc[tt.k], &prod)
				default:
					tmp.Mul(&prod, tt.coef)
					acc[tt.k].Add(acc[tt.k], &tmp)
				}
			}
		}
	}
	for k := range acc {
		acc[k].Mod(acc[k], t.p)
	}
	return acc
}
