package ref

import (
	"crypto/sha256"
	"errors"
	"hash"
)

// Sequential specification of a Fiat–Shamir transcript (property C15).
//
// A transcript is declared with an ordered list of distinct challenge names n_0 … n_{k-1}.
//
//	Bind(n_p, v)   appends v to the binding list of challenge p.
//	               Refused when the name is not declared or challenge p has already been computed.
//	Compute(n_p)   c_p = H(n_p ‖ c_{p-1} (only when p > 0) ‖ v_1 ‖ … ‖ v_m)  with v_j the values bound to p,
//	               in binding order. Refused when the name is not declared or p > 0 and c_{p-1} has not been
//	               computed yet. Computing an already computed challenge returns the same bytes again.
//	A refused call changes nothing. Values are copied in and out: the model owns its state.
//
// The hash is a parameter: a function from the *sequence of written chunks* to the digest. For a
// byte-stream hash (SHA-256) that is the hash of the concatenation; for a block-oriented algebraic hash
// (MiMC, where each Write is parsed into field-element blocks on its own) the chunk boundaries are part
// of the input, which is why the model hands over chunks rather than one concatenated string.

// ChunkHash maps the sequence of chunks written to a fresh hash instance to its digest.
type ChunkHash func(chunks [][]byte) []byte

// SHA256Chunks is SHA-256 of the concatenation of the chunks (crypto/sha256 one-shot API).
func SHA256Chunks(chunks [][]byte) []byte {
	var all []byte
	for _, c := range chunks {
		all = append(all, c...)
	}
	d := sha256.Sum256(all)
	return d[:]
}

// StdChunks is the byte-stream hash newH (a standard-library constructor such as sha512.New) of the
// concatenation of the chunks, computed on a fresh instance.
func StdChunks(newH func() hash.Hash) ChunkHash {
	return func(chunks [][]byte) []byte {
		h := newH()
		var all []byte
		for _, c := range chunks {
			all = append(all, c...)
		}
		h.Write(all)
		return h.Sum(nil)
	}
}

var (
	ErrTranscriptUnknown  = errors.New("ref: challenge name not declared")
	ErrTranscriptComputed = errors.New("ref: challenge already computed, cannot bind")
	ErrTranscriptOrder    = errors.New("ref: previous challenge not computed yet")
)

type trChallenge struct {
	bindings [][]byte
	value    []byte // nil until computed
}

// Transcript is the model state.
type Transcript struct {
	h     ChunkHash
	names []string
	pos   map[string]int
	ch    []trChallenge
}

// NewTranscript declares the challenges. Names must be distinct (the model panics otherwise: the
// specification is only stated for distinct names).
func NewTranscript(h ChunkHash, names ...string) *Transcript {
	t := &Transcript{h: h, names: append([]string(nil), names...), pos: map[string]int{}, ch: make([]trChallenge, len(names))}
	for i, n := range names {
		if _, dup := t.pos[n]; dup {
			panic("ref.NewTranscript: duplicate challenge name")
		}
		t.pos[n] = i
	}
	return t
}

func trClone(b []byte) []byte {
	c := make([]byte, len(b))
	copy(c, b)
	return c
}

// Bind implements the Bind step of the specification.
func (t *Transcript) Bind(name string, v []byte) error {
	p, ok := t.pos[name]
	if !ok {
		return ErrTranscriptUnknown
	}
	if t.ch[p].value != nil {
		return ErrTranscriptComputed
	}
	t.ch[p].bindings = append(t.ch[p].bindings, trClone(v))
	return nil
}

// Compute implements the ComputeChallenge step of the specification.
func (t *Transcript) Compute(name string) ([]byte, error) {
	p, ok := t.pos[name]
	if !ok {
		return nil, ErrTranscriptUnknown
	}
	if t.ch[p].value != nil {
		return trClone(t.ch[p].value), nil
	}
	chunks := [][]byte{[]byte(name)}
	if p > 0 {
		if t.ch[p-1].value == nil {
			return nil, ErrTranscriptOrder
		}
		chunks = append(chunks, trClone(t.ch[p-1].value))
	}
	for _, b := range t.ch[p].bindings {
		chunks = append(chunks, trClone(b))
	}
	v := t.h(chunks)
	if v == nil {
		v = []byte{}
	}
	t.ch[p].value = trClone(v)
	return trClone(v), nil
}

// Computed reports whether the challenge at position p has been computed.
func (t *Transcript) Computed(p int) bool { return t.ch[p].value != nil }

// NumBindings returns how many values are currently bound to the challenge at position p.
func (t *Transcript) NumBindings(p int) int { return len(t.ch[p].bindings) }
