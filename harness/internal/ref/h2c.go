package ref

import (
	"errors"
	"fmt"
	"math/big"
)

// Reference models for RFC 9380 map-to-curve: sgn0 (4.1), inv0, is_square, the simplified SWU
// map (6.6.2), the Shallue-van de Woestijne map (6.6.1, constants c1..c4 of F.1 computed from
// (A,B,Z)), the Z selection procedures of Appendix H (find_z_sswu, find_z_svdw) and rational
// (isogeny) maps of Appendix E. All over ref.Fld, i.e. math/big only. The maps are written from
// the *definitional* pseudocode of section 6.6, not from the constant-time straight-line
// versions of Appendix F the library transcribes; the RFC states both compute the same function.

// Sgn0 is RFC 9380 section 4.1 for an element given by its coefficient vector (x_0, ..., x_{m-1}).
func Sgn0(F Fld, x V) int {
	x = Red(F, x)
	sign, zero := 0, 1
	for _, xi := range x {
		signI := int(xi.Bit(0))
		zeroI := 0
		if xi.Sign() == 0 {
			zeroI = 1
		}
		sign = sign | (zero & signI)
		zero = zero & zeroI
	}
	return sign
}

// Inv0 is the RFC's inv0 (0 maps to 0); ref fields already follow that convention.
func Inv0(F Fld, x V) V { return F.Inv(x) }

// FieldGen is the element the Appendix H procedures start from in an extension field
// ("F.gen()"): the adjoined root of the top extension step; 1 for a prime field.
func FieldGen(F Fld) V {
	if e, ok := F.(*Ext); ok {
		g := e.Zero()
		copy(g[e.B.Deg():2*e.B.Deg()], e.B.One())
		return g
	}
	return F.One()
}

func weier(F Fld, A, B, x V) V {
	return F.Add(F.Add(F.Mul(F.Mul(x, x), x), F.Mul(A, x)), B)
}

func smallC(F Fld, k int64) V { return Scalar(F, bi(k)) }

// ---- polynomials over F (coefficients low to high), only what find_z_sswu needs ---------------

type poly []V

func polyTrim(F Fld, a poly) poly {
	for len(a) > 0 && F.IsZero(a[len(a)-1]) {
		a = a[:len(a)-1]
	}
	return a
}

// polyMod returns a mod b (b non-zero).
func polyMod(F Fld, a, b poly) poly {
	a = polyTrim(F, append(poly{}, a...))
	b = polyTrim(F, b)
	if len(b) == 0 {
		panic("ref: polynomial division by zero")
	}
	lead := F.Inv(b[len(b)-1])
	for len(a) >= len(b) {
		c := F.Mul(a[len(a)-1], lead)
		sh := len(a) - len(b)
		for i := range b {
			a[sh+i] = F.Sub(a[sh+i], F.Mul(c, b[i]))
		}
		a = polyTrim(F, a)
	}
	return a
}

func polyMulMod(F Fld, a, b, f poly) poly {
	if len(a) == 0 || len(b) == 0 {
		return poly{}
	}
	r := make(poly, len(a)+len(b)-1)
	for i := range r {
		r[i] = F.Zero()
	}
	for i := range a {
		for j := range b {
			r[i+j] = F.Add(r[i+j], F.Mul(a[i], b[j]))
		}
	}
	return polyMod(F, r, f)
}

// cubicIrreducible reports whether the monic cubic f is irreducible over F: a cubic is
// irreducible iff it has no root in F iff gcd(f, x^|F| - x) is constant.
func cubicIrreducible(F Fld, f poly) bool {
	if len(f) != 4 {
		panic("ref: not a cubic")
	}
	x := poly{F.Zero(), F.One()}
	r := poly{F.One()}
	n := F.Order()
	for i := n.BitLen() - 1; i >= 0; i-- {
		r = polyMulMod(F, r, r, f)
		if n.Bit(i) == 1 {
			r = polyMulMod(F, r, x, f)
		}
	}
	// h = x^|F| - x mod f
	h := make(poly, 3)
	for i := range h {
		h[i] = F.Zero()
		if i < len(r) {
			h[i] = r[i]
		}
	}
	h[1] = F.Sub(h[1], F.One())
	a, b := polyTrim(F, append(poly{}, f...)), polyTrim(F, h)
	for len(b) > 0 {
		a, b = b, polyMod(F, a, b)
	}
	return len(a) == 1 // gcd is a non-zero constant
}

// ---- simplified SWU (RFC 9380 section 6.6.2) ------------------------------------------------

// SSWU is the simplified SWU map to y^2 = x^3 + A x + B, A*B != 0, with the constant Z.
type SSWU struct {
	F       Fld
	A, B, Z V
}

func (s *SSWU) Curve() *Curve { return &Curve{F: s.F, A: s.A, B: s.B} }

// Map evaluates the map at u. The second result names the branch taken: "x1" / "x2", prefixed
// by "exc:" in the exceptional case tv1 == 0, and suffixed by ":undefined" (with a zero Pt) when
// neither gx1 nor gx2 is a square, which happens only for a Z violating criterion 1 or 4.
//
//  1. tv1 = inv0(Z^2 * u^4 + Z * u^2)
//  2. x1 = (-B / A) * (1 + tv1)
//  3. If tv1 == 0, set x1 = B / (Z * A)
//  4. gx1 = x1^3 + A * x1 + B
//  5. x2 = Z * u^2 * x1
//  6. gx2 = x2^3 + A * x2 + B
//  7. If is_square(gx1), set x = x1 and y = sqrt(gx1)
//  8. Else set x = x2 and y = sqrt(gx2)
//  9. If sgn0(u) != sgn0(y), set y = -y
func (s *SSWU) Map(u V) (Pt, string) {
	F := s.F
	if F.IsZero(s.A) || F.IsZero(s.B) {
		panic("ref: SSWU needs A*B != 0")
	}
	zu2 := F.Mul(s.Z, F.Mul(u, u))
	tv1 := Inv0(F, F.Add(F.Mul(zu2, zu2), zu2))
	x1 := F.Mul(F.Mul(F.Neg(s.B), F.Inv(s.A)), F.Add(F.One(), tv1))
	br := ""
	if F.IsZero(tv1) {
		x1 = F.Mul(s.B, F.Inv(F.Mul(s.Z, s.A)))
		br = "exc:"
	}
	gx1 := weier(F, s.A, s.B, x1)
	x2 := F.Mul(zu2, x1)
	gx2 := weier(F, s.A, s.B, x2)
	var x, y V
	if F.IsSquare(gx1) {
		x, y = x1, F.Sqrt(gx1)
		br += "x1"
	} else {
		x, y = x2, F.Sqrt(gx2)
		br += "x2"
	}
	if y == nil {
		// only possible when Z violates criterion 1 or 4: the RFC map is not defined at u
		return Pt{}, br + ":undefined"
	}
	if Sgn0(F, u) != Sgn0(F, y) {
		y = F.Neg(y)
	}
	return Pt{X: Red(F, x), Y: Red(F, y)}, br
}

// Exceptional returns the inputs with Z^2 u^4 + Z u^2 = 0: u = 0 and, when -1/Z is a square,
// u = +-sqrt(-1/Z).
func (s *SSWU) Exceptional() []V {
	F := s.F
	out := []V{F.Zero()}
	t := F.Neg(F.Inv(s.Z))
	if F.IsSquare(t) {
		if r := F.Sqrt(t); r != nil {
			out = append(out, Red(F, r), Red(F, F.Neg(r)))
		}
	}
	return out
}

// ZSSWUCriteria evaluates the four criteria of RFC 9380 section 6.6.2 / Appendix H.2 for Z:
// [0] Z is non-square, [1] Z != -1, [2] g(x) - Z is irreducible over F, [3] g(B/(Z*A)) is square.
// Criteria 1, 2 and 4 make the map well defined (exactly one of gx1, gx2 is a square; the
// exceptional case lands on the curve); criterion 3 only concerns the distribution of the output.
func ZSSWUCriteria(F Fld, A, B, Z V) [4]bool {
	return [4]bool{
		!F.IsSquare(Z),
		!F.Eq(Z, F.Neg(F.One())),
		cubicIrreducible(F, poly{F.Sub(B, Z), A, F.Zero(), F.One()}), // g(x) - Z = x^3 + A x + (B - Z)
		F.IsSquare(weier(F, A, B, F.Mul(B, F.Inv(F.Mul(Z, A))))),
	}
}

// CheckZSSWU verifies the four criteria of RFC 9380 Appendix H.2 for Z.
func CheckZSSWU(F Fld, A, B, Z V) error {
	msg := [4]string{"criterion 1: Z is a square", "criterion 2: Z = -1", "criterion 3: g(x) - Z is reducible", "criterion 4: g(B/(Z*A)) is not a square"}
	for i, ok := range ZSSWUCriteria(F, A, B, Z) {
		if !ok {
			return errors.New(msg[i])
		}
	}
	return nil
}

// FindZSSWU is find_z_sswu of Appendix H.2: ctr starts at F.gen() and is incremented by 1;
// at each step the candidates ctr and -ctr are tried in that order.
func FindZSSWU(F Fld, A, B V) V {
	ctr := FieldGen(F)
	for n := 0; n < 10000; n++ {
		for _, z := range []V{ctr, F.Neg(ctr)} {
			if CheckZSSWU(F, A, B, z) == nil {
				return Red(F, z)
			}
		}
		ctr = F.Add(ctr, F.One())
	}
	panic("ref: find_z_sswu did not terminate")
}

// ---- Shallue - van de Woestijne (RFC 9380 section 6.6.1) -------------------------------------

// SvdW is the Shallue-van de Woestijne map to y^2 = x^3 + A x + B with the constant Z; C1..C4
// are the constants of Appendix F.1.
type SvdW struct {
	F              Fld
	A, B, Z        V
	C1, C2, C3, C4 V
}

func (s *SvdW) Curve() *Curve { return &Curve{F: s.F, A: s.A, B: s.B} }

// NewSvdW computes the constants by the RFC formulas:
//
//	c1 = g(Z)
//	c2 = -Z / 2
//	c3 = sqrt(-g(Z) * (3 * Z^2 + 4 * A))     # sgn0(c3) MUST equal 0
//	c4 = -4 * g(Z) / (3 * Z^2 + 4 * A)
func NewSvdW(F Fld, A, B, Z V) (*SvdW, error) {
	if err := CheckZSvdW(F, A, B, Z); err != nil {
		return nil, err
	}
	s := &SvdW{F: F, A: Red(F, A), B: Red(F, B), Z: Red(F, Z)}
	gz := weier(F, A, B, Z)
	d := F.Add(F.Mul(smallC(F, 3), F.Mul(Z, Z)), F.Mul(smallC(F, 4), A)) // 3Z^2 + 4A
	s.C1 = Red(F, gz)
	s.C2 = Red(F, F.Mul(F.Neg(Z), F.Inv(smallC(F, 2))))
	c3 := F.Sqrt(F.Neg(F.Mul(gz, d)))
	if c3 == nil {
		return nil, errors.New("ref: SvdW: -g(Z)(3Z^2+4A) is not a square")
	}
	if Sgn0(F, c3) == 1 {
		c3 = F.Neg(c3)
	}
	s.C3 = Red(F, c3)
	s.C4 = Red(F, F.Mul(F.Mul(smallC(F, -4), gz), F.Inv(d)))
	return s, nil
}

// Map evaluates the map at u; the second result names the branch ("x1","x2","x3"), prefixed by
// "exc:" when tv1*tv2 == 0 (inv0 of zero).
//
//  1. tv1 = u^2 * g(Z)
//  2. tv2 = 1 + tv1
//  3. tv1 = 1 - tv1
//  4. tv3 = inv0(tv1 * tv2)
//  5. tv4 = sqrt(-g(Z) * (3 * Z^2 + 4 * A))    # = c3, sgn0 = 0
//  7. tv5 = u * tv1 * tv3 * tv4
//  8. tv6 = -4 * g(Z) / (3 * Z^2 + 4 * A)      # = c4
//  9. x1 = -Z / 2 - tv5
//  10. x2 = -Z / 2 + tv5
//  11. x3 = Z + tv6 * (tv2^2 * tv3)^2
//  12. If is_square(g(x1)), set x = x1 and y = sqrt(g(x1))
//  13. Else If is_square(g(x2)), set x = x2 and y = sqrt(g(x2))
//  14. Else set x = x3 and y = sqrt(g(x3))
//  15. If sgn0(u) != sgn0(y), set y = -y
func (s *SvdW) Map(u V) (Pt, string) {
	F := s.F
	tv1 := F.Mul(F.Mul(u, u), s.C1)
	tv2 := F.Add(F.One(), tv1)
	tv1 = F.Sub(F.One(), tv1)
	prod := F.Mul(tv1, tv2)
	tv3 := Inv0(F, prod)
	br := ""
	if F.IsZero(prod) {
		br = "exc:"
	}
	tv5 := F.Mul(F.Mul(F.Mul(u, tv1), tv3), s.C3)
	x1 := F.Sub(s.C2, tv5)
	x2 := F.Add(s.C2, tv5)
	t := F.Mul(F.Mul(tv2, tv2), tv3)
	x3 := F.Add(s.Z, F.Mul(s.C4, F.Mul(t, t)))
	var x, y V
	switch {
	case F.IsSquare(weier(F, s.A, s.B, x1)):
		x, y = x1, F.Sqrt(weier(F, s.A, s.B, x1))
		br += "x1"
	case F.IsSquare(weier(F, s.A, s.B, x2)):
		x, y = x2, F.Sqrt(weier(F, s.A, s.B, x2))
		br += "x2"
	default:
		x, y = x3, F.Sqrt(weier(F, s.A, s.B, x3))
		br += "x3"
	}
	if y == nil {
		panic("ref: SvdW: none of g(x1), g(x2), g(x3) is a square (Z is not a valid SvdW constant)")
	}
	if Sgn0(F, u) != Sgn0(F, y) {
		y = F.Neg(y)
	}
	return Pt{X: Red(F, x), Y: Red(F, y)}, br
}

// Exceptional returns the inputs for which tv1*tv2 = (1 - c1 u^2)(1 + c1 u^2) vanishes, i.e.
// u^2 = 1/c1 or u^2 = -1/c1 (whichever are squares), plus u = 0 (tv5 = 0, x1 = x2 = -Z/2).
func (s *SvdW) Exceptional() []V {
	F := s.F
	out := []V{F.Zero()}
	ic := F.Inv(s.C1)
	for _, t := range []V{ic, F.Neg(ic)} {
		if F.IsSquare(t) {
			if r := F.Sqrt(t); r != nil {
				out = append(out, Red(F, r), Red(F, F.Neg(r)))
			}
		}
	}
	return out
}

// CheckZSvdW verifies the four criteria of Appendix H.1.
func CheckZSvdW(F Fld, A, B, Z V) error {
	gz := weier(F, A, B, Z)
	if F.IsZero(gz) {
		return errors.New("criterion 1: g(Z) = 0")
	}
	h := F.Mul(F.Neg(F.Add(F.Mul(smallC(F, 3), F.Mul(Z, Z)), F.Mul(smallC(F, 4), A))), F.Inv(F.Mul(smallC(F, 4), gz)))
	if F.IsZero(h) {
		return errors.New("criterion 2: -(3Z^2+4A)/(4g(Z)) = 0")
	}
	if !F.IsSquare(h) {
		return errors.New("criterion 3: -(3Z^2+4A)/(4g(Z)) is not a square")
	}
	mz2 := F.Mul(F.Neg(Z), F.Inv(smallC(F, 2)))
	if !F.IsSquare(gz) && !F.IsSquare(weier(F, A, B, mz2)) {
		return errors.New("criterion 4: neither g(Z) nor g(-Z/2) is a square")
	}
	return nil
}

// FindZSvdW is find_z_svdw of Appendix H.1 with init_ctr = start (the RFC uses 1 and suggests
// F.gen() when 1 does not lead to a Z); candidates ctr, -ctr, then ctr += 1.
func FindZSvdW(F Fld, A, B, start V) V {
	ctr := start
	for n := 0; n < 10000; n++ {
		for _, z := range []V{ctr, F.Neg(ctr)} {
			if CheckZSvdW(F, A, B, z) == nil {
				return Red(F, z)
			}
		}
		ctr = F.Add(ctr, F.One())
	}
	panic("ref: find_z_svdw did not terminate")
}

// ---- rational maps (isogenies, RFC 9380 Appendix E) -------------------------------------------

// RatMap is (x, y) -> (XNum(x)/XDen(x), y * YNum(x)/YDen(x)); coefficient lists are low to high
// degree; the denominators are monic and their leading coefficient 1 is omitted from the lists.
// A zero denominator maps to the point at infinity (RFC: the kernel of the isogeny).
type RatMap struct {
	F                      Fld
	XNum, XDen, YNum, YDen []V
}

func (m *RatMap) eval(cs []V, monic bool, x V) V {
	F := m.F
	acc := F.Zero()
	if monic {
		acc = F.One()
	}
	for i := len(cs) - 1; i >= 0; i-- {
		acc = F.Add(F.Mul(acc, x), cs[i])
	}
	return acc
}

func (m *RatMap) Eval(p Pt) Pt {
	if p.Inf {
		return p
	}
	F := m.F
	xd, yd := m.eval(m.XDen, true, p.X), m.eval(m.YDen, true, p.X)
	if F.IsZero(xd) || F.IsZero(yd) {
		return Pt{Inf: true}
	}
	x := F.Mul(m.eval(m.XNum, false, p.X), F.Inv(xd))
	y := F.Mul(p.Y, F.Mul(m.eval(m.YNum, false, p.X), F.Inv(yd)))
	return Pt{X: Red(F, x), Y: Red(F, y)}
}

// Validate checks numerically that m is a non-constant group homomorphism from src to dst on
// the given sample points of src (image on dst, additive, compatible with negation).
func (m *RatMap) Validate(src, dst *Curve, pts []Pt) error {
	distinct := false
	for i, p := range pts {
		if !src.OnCurve(p) {
			return fmt.Errorf("sample %d is not on the source curve", i)
		}
		ip := m.Eval(p)
		if !dst.OnCurve(ip) {
			return fmt.Errorf("image of sample %d is not on the target curve", i)
		}
		if !dst.Eq(m.Eval(src.Neg(p)), dst.Neg(ip)) {
			return fmt.Errorf("map does not commute with negation on sample %d", i)
		}
		if i > 0 {
			q := pts[i-1]
			if !dst.Eq(m.Eval(src.Add(p, q)), dst.Add(ip, m.Eval(q))) {
				return fmt.Errorf("map is not additive on samples %d,%d", i-1, i)
			}
			if !dst.Eq(ip, m.Eval(q)) {
				distinct = true
			}
		}
		if !dst.Eq(m.Eval(src.Double(p)), dst.Double(ip)) {
			return fmt.Errorf("map does not commute with doubling on sample %d", i)
		}
	}
	if len(pts) > 1 && !distinct {
		return errors.New("map is constant on the samples")
	}
	return nil
}

// HexV parses hex ("0x..") or decimal strings into a reduced coefficient vector.
func HexV(F Fld, ss ...string) V {
	if len(ss) != F.Deg() {
		panic(fmt.Sprintf("ref: HexV: %d coefficients for a degree-%d field", len(ss), F.Deg()))
	}
	out := make(V, len(ss))
	for i, s := range ss {
		v, ok := new(big.Int).SetString(s, 0)
		if !ok {
			panic("ref: bad number " + s)
		}
		out[i] = v.Mod(v, F.P())
	}
	return out
}

// ---- near-exceptional inputs ------------------------------------------------------------------
//
// The constant-time implementations recognise the exceptional cases by zero tests on stored limbs
// of a temporary (tv2 = Z^2 u^4 + Z u^2 for SSWU; tv1, tv2, tv1*tv2 for SvdW). The solvers below
// return the inputs u for which such a temporary takes a prescribed value t, so that a test can
// place a single non-zero limb anywhere in it.

func sqrtBoth(F Fld, w V) []V {
	if F.IsZero(w) || !F.IsSquare(w) {
		return nil
	}
	r := F.Sqrt(w)
	if r == nil {
		return nil
	}
	return []V{Red(F, r), Red(F, F.Neg(r))}
}

// SolveTv2 returns every non-zero u with Z^2 u^4 + Z u^2 = t: s^2 + s = t for s = Z u^2, i.e.
// s = (-1 +- sqrt(1 + 4t)) / 2, then u = +-sqrt(s / Z).
func (s *SSWU) SolveTv2(t V) []V {
	F := s.F
	disc := F.Add(F.One(), F.Mul(smallC(F, 4), t))
	if !F.IsSquare(disc) {
		return nil
	}
	r := F.Sqrt(disc)
	if r == nil {
		return nil
	}
	half := F.Inv(smallC(F, 2))
	var out []V
	for _, rr := range []V{r, F.Neg(r)} {
		sv := F.Mul(F.Sub(rr, F.One()), half)
		for _, u := range sqrtBoth(F, F.Mul(sv, F.Inv(s.Z))) {
			zu2 := F.Mul(s.Z, F.Mul(u, u))
			if F.Eq(F.Add(F.Mul(zu2, zu2), zu2), t) { // self-check
				out = append(out, u)
			}
		}
		if F.IsZero(F.Sub(rr, F.Neg(rr))) {
			break
		}
	}
	return out
}

// SolveTv returns every non-zero u for which the temporary `which` of the SvdW map equals t:
// 1: tv1 = 1 - c1 u^2, 2: tv2 = 1 + c1 u^2, 3: tv1*tv2 = 1 - c1^2 u^4 (the value handed to inv0).
func (s *SvdW) SolveTv(which int, t V) []V {
	F := s.F
	ic := F.Inv(s.C1)
	var u2s []V
	switch which {
	case 1:
		u2s = []V{F.Mul(F.Sub(F.One(), t), ic)}
	case 2:
		u2s = []V{F.Mul(F.Sub(t, F.One()), ic)}
	case 3:
		for _, r := range sqrtBoth(F, F.Sub(F.One(), t)) {
			u2s = append(u2s, F.Mul(r, ic))
		}
	default:
		panic("ref: SolveTv: which must be 1..3")
	}
	var out []V
	for _, u2 := range u2s {
		for _, u := range sqrtBoth(F, u2) {
			tv1 := F.Mul(F.Mul(u, u), s.C1)
			tv2 := F.Add(F.One(), tv1)
			tv1 = F.Sub(F.One(), tv1)
			got := map[int]V{1: tv1, 2: tv2, 3: F.Mul(tv1, tv2)}[which]
			if F.Eq(got, t) { // self-check
				out = append(out, u)
			}
		}
	}
	return out
}
