package ref

import (
	"fmt"
	"math/big"
)

// V is an element of a finite field given by its coefficients over the prime field, in nested
// order: for F = B[X]/(X^D - NR), coefficient i (an element of B) occupies V[i*deg(B):(i+1)*deg(B)].
type V = []*big.Int

// Fld is a finite field on flat coefficient vectors.
type Fld interface {
	Deg() int
	P() *big.Int
	Order() *big.Int
	Zero() V
	One() V
	Add(a, b V) V
	Sub(a, b V) V
	Neg(a V) V
	Mul(a, b V) V
	Inv(a V) V // Inv(0) = 0 (library convention)
	IsZero(a V) bool
	Eq(a, b V) bool
	IsSquare(a V) bool // true for 0
	Sqrt(a V) V        // some root, or nil
}

// ---- prime field as Fld --------------------------------------------------------------------

type PrimeFld struct{ *Fp }

func NewPrimeFld(q *big.Int) PrimeFld        { return PrimeFld{NewFp(q)} }
func (f PrimeFld) Deg() int                  { return 1 }
func (f PrimeFld) P() *big.Int               { return f.Q }
func (f PrimeFld) Order() *big.Int           { return f.Q }
func (f PrimeFld) Zero() V                   { return V{new(big.Int)} }
func (f PrimeFld) One() V                    { return V{bi(1)} }
func (f PrimeFld) Add(a, b V) V              { return V{f.Fp.Add(a[0], b[0])} }
func (f PrimeFld) Sub(a, b V) V              { return V{f.Fp.Sub(a[0], b[0])} }
func (f PrimeFld) Neg(a V) V                 { return V{f.Fp.Neg(a[0])} }
func (f PrimeFld) Mul(a, b V) V              { return V{f.Fp.Mul(a[0], b[0])} }
func (f PrimeFld) Inv(a V) V                 { return V{f.Fp.Inv(a[0])} }
func (f PrimeFld) IsZero(a V) bool           { return f.Fp.IsZero(a[0]) }
func (f PrimeFld) Eq(a, b V) bool            { return f.Fp.Eq(a[0], b[0]) }
func (f PrimeFld) IsSquare(a V) bool         { return f.Fp.Legendre(a[0]) >= 0 }
func (f PrimeFld) Sqrt(a V) V {
	r := f.Fp.Sqrt(a[0])
	if r == nil {
		return nil
	}
	return V{r}
}

// ---- extension -----------------------------------------------------------------------------

// Ext is B[X]/(X^D - NR), D in {2,3}.
type Ext struct {
	B  Fld
	D  int
	NR V
}

// NewExt builds the extension and checks that X^D - NR is irreducible over B.
func NewExt(b Fld, d int, nr V) *Ext {
	e := &Ext{B: b, D: d, NR: nr}
	if d != 2 && d != 3 {
		panic("ref: only quadratic and cubic steps")
	}
	// irreducibility: NR is not a d-th power in B  <=>  NR^((|B|-1)/d) != 1
	ord1 := new(big.Int).Sub(b.Order(), bi(1))
	if new(big.Int).Mod(ord1, bi(int64(d))).Sign() != 0 {
		panic("ref: d does not divide |B|-1")
	}
	if b.Eq(Exp(b, nr, new(big.Int).Div(ord1, bi(int64(d)))), b.One()) {
		panic(fmt.Sprintf("ref: X^%d - NR is reducible (NR is a %d-th power)", d, d))
	}
	return e
}

func (e *Ext) Deg() int      { return e.D * e.B.Deg() }
func (e *Ext) P() *big.Int   { return e.B.P() }
func (e *Ext) Order() *big.Int {
	return new(big.Int).Exp(e.B.Order(), bi(int64(e.D)), nil)
}
func (e *Ext) co(a V, i int) V { n := e.B.Deg(); return a[i*n : (i+1)*n] }
func (e *Ext) join(cs ...V) V {
	out := make(V, 0, e.Deg())
	for _, c := range cs {
		out = append(out, c...)
	}
	return out
}
func (e *Ext) Zero() V {
	cs := make([]V, e.D)
	for i := range cs {
		cs[i] = e.B.Zero()
	}
	return e.join(cs...)
}
func (e *Ext) One() V {
	cs := make([]V, e.D)
	for i := range cs {
		cs[i] = e.B.Zero()
	}
	cs[0] = e.B.One()
	return e.join(cs...)
}
func (e *Ext) map2(a, b V, f func(x, y V) V) V {
	cs := make([]V, e.D)
	for i := range cs {
		cs[i] = f(e.co(a, i), e.co(b, i))
	}
	return e.join(cs...)
}
func (e *Ext) Add(a, b V) V { return e.map2(a, b, e.B.Add) }
func (e *Ext) Sub(a, b V) V { return e.map2(a, b, e.B.Sub) }
func (e *Ext) Neg(a V) V {
	cs := make([]V, e.D)
	for i := range cs {
		cs[i] = e.B.Neg(e.co(a, i))
	}
	return e.join(cs...)
}
func (e *Ext) Mul(a, b V) V {
	lo := make([]V, e.D)
	hi := make([]V, e.D)
	for i := range lo {
		lo[i], hi[i] = e.B.Zero(), e.B.Zero()
	}
	for i := 0; i < e.D; i++ {
		for j := 0; j < e.D; j++ {
			t := e.B.Mul(e.co(a, i), e.co(b, j))
			if i+j < e.D {
				lo[i+j] = e.B.Add(lo[i+j], t)
			} else {
				hi[i+j-e.D] = e.B.Add(hi[i+j-e.D], t)
			}
		}
	}
	for i := range lo {
		lo[i] = e.B.Add(lo[i], e.B.Mul(hi[i], e.NR))
	}
	return e.join(lo...)
}
func (e *Ext) IsZero(a V) bool {
	for _, c := range a {
		if new(big.Int).Mod(c, e.P()).Sign() != 0 {
			return false
		}
	}
	return true
}
func (e *Ext) Eq(a, b V) bool { return e.IsZero(e.Sub(a, b)) }

// Embed lifts a base element to the extension (constant coefficient).
func (e *Ext) Embed(c V) V {
	cs := make([]V, e.D)
	for i := range cs {
		cs[i] = e.B.Zero()
	}
	cs[0] = c
	return e.join(cs...)
}

// Norm to the base field (D=2: a0^2 - NR a1^2).
func (e *Ext) norm2(a V) V {
	a0, a1 := e.co(a, 0), e.co(a, 1)
	return e.B.Sub(e.B.Mul(a0, a0), e.B.Mul(e.NR, e.B.Mul(a1, a1)))
}

func (e *Ext) Inv(a V) V {
	if e.IsZero(a) {
		return e.Zero()
	}
	var r V
	B := e.B
	if e.D == 2 {
		n := B.Inv(e.norm2(a))
		r = e.join(B.Mul(e.co(a, 0), n), B.Neg(B.Mul(e.co(a, 1), n)))
	} else {
		a0, a1, a2 := e.co(a, 0), e.co(a, 1), e.co(a, 2)
		t0 := B.Sub(B.Mul(a0, a0), B.Mul(e.NR, B.Mul(a1, a2)))
		t1 := B.Sub(B.Mul(e.NR, B.Mul(a2, a2)), B.Mul(a0, a1))
		t2 := B.Sub(B.Mul(a1, a1), B.Mul(a0, a2))
		n := B.Add(B.Mul(a0, t0), B.Mul(e.NR, B.Add(B.Mul(a2, t1), B.Mul(a1, t2))))
		ni := B.Inv(n)
		r = e.join(B.Mul(t0, ni), B.Mul(t1, ni), B.Mul(t2, ni))
	}
	if !e.Eq(e.Mul(a, r), e.One()) {
		panic("ref: extension inverse self-check failed")
	}
	return r
}

func (e *Ext) IsSquare(a V) bool {
	if e.IsZero(a) {
		return true
	}
	if e.D == 2 {
		return e.B.IsSquare(e.norm2(a))
	}
	ex := new(big.Int).Rsh(new(big.Int).Sub(e.Order(), bi(1)), 1)
	return e.Eq(Exp(e, a, ex), e.One())
}

func (e *Ext) Sqrt(a V) V {
	if e.IsZero(a) {
		return e.Zero()
	}
	if e.D != 2 {
		panic("ref: Sqrt only for quadratic steps")
	}
	B := e.B
	a0, a1 := e.co(a, 0), e.co(a, 1)
	var r V
	if B.IsZero(a1) {
		if B.IsSquare(a0) {
			r = e.join(B.Sqrt(a0), B.Zero())
		} else {
			s := B.Sqrt(B.Mul(a0, B.Inv(e.NR)))
			if s == nil {
				return nil
			}
			r = e.join(B.Zero(), s)
		}
	} else {
		n := B.Sqrt(e.norm2(a))
		if n == nil {
			return nil
		}
		two := B.Add(B.One(), B.One())
		half := B.Inv(two)
		d := B.Mul(B.Add(a0, n), half)
		if !B.IsSquare(d) || B.IsZero(d) {
			d = B.Mul(B.Sub(a0, n), half)
		}
		x0 := B.Sqrt(d)
		if x0 == nil || B.IsZero(x0) {
			return nil
		}
		x1 := B.Mul(a1, B.Inv(B.Mul(two, x0)))
		r = e.join(x0, x1)
	}
	if !e.Eq(e.Mul(r, r), a) {
		return nil
	}
	return r
}

// ---- generic helpers -----------------------------------------------------------------------

// Exp computes a^k in f for any integer k (negative through Inv; x^0 = 1).
func Exp(f Fld, a V, k *big.Int) V {
	if k.Sign() < 0 {
		a = f.Inv(a)
		k = new(big.Int).Neg(k)
	}
	r := f.One()
	for i := k.BitLen() - 1; i >= 0; i-- {
		r = f.Mul(r, r)
		if k.Bit(i) == 1 {
			r = f.Mul(r, a)
		}
	}
	return r
}

// Frobenius computes a^(p^k) by exponentiation (independent of any coefficient table).
func Frobenius(f Fld, a V, k int) V {
	return Exp(f, a, new(big.Int).Exp(f.P(), bi(int64(k)), nil))
}

// Conj is the conjugation of a quadratic extension: (a0, a1) -> (a0, -a1).
func (e *Ext) Conj(a V) V {
	if e.D != 2 {
		panic("ref: Conj only for quadratic steps")
	}
	return e.join(e.co(a, 0), e.B.Neg(e.co(a, 1)))
}

// Red reduces every coefficient into [0,p).
func Red(f Fld, a V) V {
	out := make(V, len(a))
	for i, c := range a {
		out[i] = new(big.Int).Mod(c, f.P())
	}
	return out
}

// FromInt64s builds a vector from small integers (reduced mod p).
func FromInt64s(f Fld, xs ...int64) V {
	if len(xs) != f.Deg() {
		panic("ref: wrong length")
	}
	out := make(V, len(xs))
	for i, x := range xs {
		out[i] = new(big.Int).Mod(bi(x), f.P())
	}
	return out
}

// Scalar lifts an integer to the field (coefficient vector (c,0,...,0)).
func Scalar(f Fld, c *big.Int) V {
	out := f.Zero()
	out[0] = new(big.Int).Mod(c, f.P())
	return out
}

// String renders a vector compactly in hex.
func String(a V) string {
	s := "["
	for i, c := range a {
		if i > 0 {
			s += ","
		}
		s += c.Text(16)
	}
	return s + "]"
}
