// Package ref holds the reference models (the oracles). It imports nothing from gnark-crypto:
// everything is written from the mathematical definitions over math/big.
package ref

import "math/big"

// Fp is the prime field Z/qZ on canonical representatives in [0,q).
type Fp struct {
	Q *big.Int
}

func NewFp(q *big.Int) *Fp { return &Fp{Q: new(big.Int).Set(q)} }

func bi(x int64) *big.Int { return big.NewInt(x) }

func (f *Fp) Red(a *big.Int) *big.Int { return new(big.Int).Mod(a, f.Q) }
func (f *Fp) Add(a, b *big.Int) *big.Int {
	return f.Red(new(big.Int).Add(a, b))
}
func (f *Fp) Sub(a, b *big.Int) *big.Int { return f.Red(new(big.Int).Sub(a, b)) }
func (f *Fp) Neg(a *big.Int) *big.Int    { return f.Red(new(big.Int).Neg(a)) }
func (f *Fp) Mul(a, b *big.Int) *big.Int { return f.Red(new(big.Int).Mul(a, b)) }
func (f *Fp) Sqr(a *big.Int) *big.Int    { return f.Mul(a, a) }
func (f *Fp) MulI(a *big.Int, k int64) *big.Int {
	return f.Red(new(big.Int).Mul(a, bi(k)))
}

// Inv returns a^-1, with the library's documented convention Inv(0)=0.
func (f *Fp) Inv(a *big.Int) *big.Int {
	a = f.Red(a)
	if a.Sign() == 0 {
		return new(big.Int)
	}
	return new(big.Int).ModInverse(a, f.Q)
}
func (f *Fp) Div(a, b *big.Int) *big.Int { return f.Mul(a, f.Inv(b)) }

// Halve returns a/2.
func (f *Fp) Halve(a *big.Int) *big.Int {
	if f.Q.Cmp(bi(2)) == 0 {
		return f.Red(a)
	}
	return f.Mul(a, f.Inv(bi(2)))
}

// Exp returns a^k for any integer k (negative through the inverse; 0^negative = 0, x^0 = 1).
func (f *Fp) Exp(a, k *big.Int) *big.Int {
	a = f.Red(a)
	if k.Sign() < 0 {
		a = f.Inv(a)
		k = new(big.Int).Neg(k)
	}
	return new(big.Int).Exp(a, k, f.Q)
}

// Legendre returns the Euler criterion value in {-1,0,1}.
func (f *Fp) Legendre(a *big.Int) int {
	a = f.Red(a)
	if a.Sign() == 0 {
		return 0
	}
	e := new(big.Int).Rsh(new(big.Int).Sub(f.Q, bi(1)), 1)
	r := new(big.Int).Exp(a, e, f.Q)
	if r.Cmp(bi(1)) == 0 {
		return 1
	}
	return -1
}

// Sqrt returns some square root or nil.
func (f *Fp) Sqrt(a *big.Int) *big.Int {
	a = f.Red(a)
	r := new(big.Int).ModSqrt(a, f.Q)
	if r == nil {
		return nil
	}
	if f.Sqr(r).Cmp(a) != 0 {
		panic("ref: ModSqrt returned a non-root")
	}
	return r
}

func (f *Fp) IsZero(a *big.Int) bool { return f.Red(a).Sign() == 0 }
func (f *Fp) Eq(a, b *big.Int) bool  { return f.Red(a).Cmp(f.Red(b)) == 0 }

// ---- native reference for the 31-bit fields (exhaustive sweeps) -----------------------------

// Small is Z/qZ for q < 2^32 on uint64.
type Small struct{ Q uint64 }

func (s Small) Add(a, b uint64) uint64 { return (a + b) % s.Q }
func (s Small) Sub(a, b uint64) uint64 { return (a + s.Q - b) % s.Q }
func (s Small) Neg(a uint64) uint64    { return (s.Q - a) % s.Q }
func (s Small) Mul(a, b uint64) uint64 { return a * b % s.Q }
func (s Small) Exp(a, k uint64) uint64 {
	r := uint64(1)
	a %= s.Q
	for ; k > 0; k >>= 1 {
		if k&1 == 1 {
			r = r * a % s.Q
		}
		a = a * a % s.Q
	}
	return r
}
func (s Small) Inv(a uint64) uint64 {
	if a%s.Q == 0 {
		return 0
	}
	return s.Exp(a, s.Q-2)
}
func (s Small) Halve(a uint64) uint64 {
	if a&1 == 1 {
		return (a + s.Q) / 2
	}
	return a / 2
}
func (s Small) Legendre(a uint64) int {
	if a%s.Q == 0 {
		return 0
	}
	if s.Exp(a, (s.Q-1)/2) == 1 {
		return 1
	}
	return -1
}
