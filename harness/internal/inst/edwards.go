package inst

import (
	"fmt"
	"math/big"
	"sync"

	"verif/harness/internal/ref"
	"verif/harness/internal/reg"
)

// Edwards bundles one twisted-Edwards companion curve package with its reference model.
// Parameters (a, d, order, cofactor, base) are read from GetEdwardsCurve() and validated by the
// reference: base on curve, order prime, [order]base = O, a,d non-zero, a != d.
type Edwards struct {
	Name     string // e.g. "bn254/twistededwards", "bls12-381/bandersnatch"
	Pkg      *reg.Pkg
	EddsaPkg *reg.Pkg
	Q        *big.Int // field of definition (the host curve's scalar field)
	E        *ref.Edwards
	Order    *big.Int
	Cofactor *big.Int
	Base     ref.EPt
}

// EdwardsNames lists the companions.
var EdwardsNames = []string{"bn254/twistededwards", "bls12-377/twistededwards", "bls12-381/twistededwards", "bls12-381/bandersnatch",
	"bls24-315/twistededwards", "bls24-317/twistededwards", "bw6-633/twistededwards", "bw6-761/twistededwards"}

var (
	edMu    sync.Mutex
	edCache = map[string]*Edwards{}
)

// GetEdwards returns the validated bundle.
func GetEdwards(name string) *Edwards {
	edMu.Lock()
	defer edMu.Unlock()
	if e, ok := edCache[name]; ok {
		return e
	}
	pkg := reg.Get("ecc/" + name)
	if pkg == nil {
		panic("inst: no package ecc/" + name)
	}
	params := ptrTo(pkg.F("GetEdwardsCurve")[0])
	a := reg.Flatten(reg.Field(params, "A"))[0]
	d := reg.Flatten(reg.Field(params, "D"))[0]
	cof := reg.Flatten(reg.Field(params, "Cofactor"))[0]
	order := new(big.Int).Set(reg.Field(params, "Order").(*big.Int))
	base := reg.Flatten(reg.Field(params, "Base"))
	// modulus of the field of definition = scalar field of the host curve
	host := name[:len(name)-len("/twistededwards")]
	if name == "bls12-381/bandersnatch" {
		host = "bls12-381"
	}
	q := FieldByName(host + "/fr").Q()
	e := &Edwards{Name: name, Pkg: pkg, EddsaPkg: reg.Get("ecc/" + name + "/eddsa"), Q: q,
		E: &ref.Edwards{F: ref.NewFp(q), A: a, D: d}, Order: order, Cofactor: cof, Base: ref.EPt{X: base[0], Y: base[1]}}
	if a.Sign() == 0 || d.Sign() == 0 || a.Cmp(d) == 0 {
		panic("inst: degenerate Edwards parameters for " + name)
	}
	if !e.E.OnCurve(e.Base) {
		panic("inst: Edwards base point not on curve: " + name)
	}
	if !order.ProbablyPrime(32) {
		panic("inst: Edwards order not prime: " + name)
	}
	if !e.E.Eq(e.E.Mul(order, e.Base), e.E.Zero()) || e.E.Eq(e.Base, e.E.Zero()) {
		panic(fmt.Sprintf("inst: [order]base != O on %s", name))
	}
	edCache[name] = e
	return e
}

// ToRef converts a library PointAffine/PointProj/PointExtended (pointer) to a reference point.
func (e *Edwards) ToRef(p interface{}) ref.EPt {
	v := reg.Flatten(p)
	F := e.E.F
	switch len(v) {
	case 2:
		return ref.EPt{X: v[0], Y: v[1]}
	case 3, 4:
		zi := F.Inv(v[2])
		return ref.EPt{X: F.Mul(v[0], zi), Y: F.Mul(v[1], zi)}
	}
	panic("inst: unexpected Edwards point shape")
}

// NewAffine builds a library PointAffine from a reference point.
func (e *Edwards) NewAffine(p ref.EPt) interface{} {
	a := e.Pkg.New("PointAffine")
	reg.Unflatten(a, []*big.Int{e.E.F.Red(p.X), e.E.F.Red(p.Y)})
	return a
}

// NewProj builds the projective representative (xz, yz, z).
func (e *Edwards) NewProj(p ref.EPt, z *big.Int) interface{} {
	F := e.E.F
	a := e.Pkg.New("PointProj")
	reg.Unflatten(a, []*big.Int{F.Mul(p.X, z), F.Mul(p.Y, z), F.Red(z)})
	return a
}

// NewExtended builds the extended representative (xz, yz, z, xyz).
func (e *Edwards) NewExtended(p ref.EPt, z *big.Int) interface{} {
	F := e.E.F
	a := e.Pkg.New("PointExtended")
	reg.Unflatten(a, []*big.Int{F.Mul(p.X, z), F.Mul(p.Y, z), F.Red(z), F.Mul(F.Mul(p.X, p.Y), z)})
	return a
}
