package inst

// Type-erased adapter over the seven generated KZG packages (ecc/<curve>/kzg). The packages differ
// only by import path; kzg_gen_<curve>.go (written by /verif/harness/gen_inst_kzg.py) holds one
// concrete, direct-call implementation of the KZG interface per curve. Scalars cross the adapter
// as canonical *big.Int in [0,r); G1 points as KPoint (a *G1Affine of the curve package).

import (
	"errors"
	"fmt"
	"hash"
	"io"
	"math/big"
	"sort"
	"sync/atomic"
)

// KPoint is a pointer to a library G1Affine (= kzg.Digest) of the curve.
type KPoint interface{}

// KProof mirrors kzg.OpeningProof.
type KProof struct {
	H KPoint
	V *big.Int
}

// KBatchProof mirrors kzg.BatchOpeningProof.
type KBatchProof struct {
	H  KPoint
	Vs []*big.Int
}

// ErrKZGInputMutated is returned by the adapter (never by the library) when a call modified the
// polynomial slice(s) handed to it.
var ErrKZGInputMutated = errors.New("inst: the library call modified its input polynomial")

// KZGRepeat makes every verifier / folder call of the adapter run twice on the same native objects
// (proof, digests, key reuse); the two verdicts (and folded values) must agree.
var KZGRepeat bool

var kzgPurity atomic.Int64

// KZGPurityChecks is the number of verifier / folder calls whose inputs were compared with their snapshots.
func KZGPurityChecks() int64 { return kzgPurity.Load() }

func kzgPurityChecked() { kzgPurity.Add(1) }

func kzgImpure(curve, fn, what string) {
	panic(fmt.Sprintf("inst: %s/kzg.%s modified its input: %s is no longer bit-identical to its snapshot", curve, fn, what))
}

func kzgUnrepeatable(curve, fn string, err1, err2 error) {
	panic(fmt.Sprintf("inst: %s/kzg.%s is not repeatable: the same call on the same objects returned (%v) and then (%v)", curve, fn, err1, err2))
}

// KSRS is a *kzg.SRS.
type KSRS interface {
	Native() interface{}    // *kzg.SRS
	PkPtr() interface{}     // *kzg.ProvingKey
	VkPtr() interface{}     // *kzg.VerifyingKey
	Size() int              // len(Pk.G1)
	G1(i int) KPoint        // &Pk.G1[i]
	VkG1() KPoint           // &Vk.G1
	VkG2(i int) interface{} // &Vk.G2[i] (*G2Affine)
	VkLines() interface{}   // &Vk.Lines
	VkMem() []byte          // copy of the raw memory image of Vk (it holds no pointers)
	Truncated(n int) KSRS   // same Vk value, Pk.G1[:n] (shares the backing array)
	CloneN(n int) KSRS      // independent copy: same Vk value, a fresh slice holding Pk.G1[:n]
	LinesConsistent() bool  // Vk.Lines[i] == curve.PrecomputeLines(Vk.G2[i]) for i=0,1
}

// KMpc is a *kzg.MpcSetup.
type KMpc interface {
	io.WriterTo
	io.ReaderFrom
	Native() interface{}
	Contribute()
	Verify(next KMpc) error
	Seal(beacon []byte) KSRS
}

// KZG is one kzg package.
type KZG interface {
	Name() string // curve name: "bn254", …
	FrBytes() int
	FrGenerator(m uint64) (*big.Int, error) // fr.Generator: the root of unity ToLagrangeG1 uses

	G1Base(k *big.Int) KPoint // [k]G1 through ScalarMultiplicationBase
	G1Inf() KPoint
	PtEqual(a, b KPoint) bool
	PtIsInf(a KPoint) bool
	PtMarshal(a KPoint) []byte // G1Affine.Marshal(): the (uncompressed) encoding the library binds into the transcript
	PtRaw(a KPoint) []byte
	PtClone(a KPoint) KPoint

	NewSRS(size uint64, tau *big.Int) (KSRS, error)
	EmptySRS() KSRS
	WrapSRS(native interface{}) (KSRS, bool) // native must be a non-nil *kzg.SRS of THIS curve's package
	Commit(s KSRS, p []*big.Int, nbTasks ...int) (KPoint, error)
	Open(s KSRS, p []*big.Int, z *big.Int) (KProof, error)
	Verify(s KSRS, c KPoint, pr KProof, z *big.Int) error
	BatchOpenSinglePoint(s KSRS, ps [][]*big.Int, ds []KPoint, z *big.Int, hf hash.Hash, data ...[]byte) (KBatchProof, error)
	FoldProof(ds []KPoint, bp KBatchProof, z *big.Int, hf hash.Hash, data ...[]byte) (KProof, KPoint, error)
	BatchVerifySinglePoint(s KSRS, ds []KPoint, bp KBatchProof, z *big.Int, hf hash.Hash, data ...[]byte) error
	BatchVerifyMultiPoints(s KSRS, ds []KPoint, prs []KProof, zs []*big.Int) error
	ToLagrangeG1(pts []KPoint) ([]KPoint, error)

	// codecs: the native values implement io.WriterTo and io.ReaderFrom
	ProofNative(pr KProof) interface{} // *kzg.OpeningProof
	ProofFromNative(n interface{}) KProof
	BatchProofNative(bp KBatchProof) interface{} // *kzg.BatchOpeningProof
	BatchProofFromNative(n interface{}) KBatchProof

	InitializeSetup(n int) KMpc
	EmptySetup() KMpc
}

var kzgs = map[string]KZG{}

func registerKZG(k KZG) { kzgs[k.Name()] = k }

// KZGByName returns the adapter of ecc/<name>/kzg or nil.
func KZGByName(name string) KZG { return kzgs[name] }

// KZGNames lists the curves that have a kzg package, sorted.
func KZGNames() []string {
	var n []string
	for k := range kzgs {
		n = append(n, k)
	}
	sort.Strings(n)
	return n
}
