// Package inst is the instance registry: type-erased adapters (built with generics) over the
// strongly typed, generated packages of gnark-crypto, so that one property body runs over all
// 23 fields, all groups, all towers.
package inst

import (
	"fmt"
	"io"
	"math/big"
	"unsafe"
)

// EltC is the method set shared by every generated Element type.
type EltC[T any] interface {
	*T
	Add(a, b *T) *T
	Sub(a, b *T) *T
	Mul(a, b *T) *T
	Div(a, b *T) *T
	Neg(a *T) *T
	Double(a *T) *T
	Square(a *T) *T
	Inverse(a *T) *T
	Sqrt(a *T) *T
	Halve()
	Exp(x T, k *big.Int) *T
	Legendre() int
	Cmp(x *T) int
	Equal(x *T) bool
	IsZero() bool
	IsOne() bool
	LexicographicallyLargest() bool
	Select(c int, x0, x1 *T) *T
	Set(x *T) *T
	SetBigInt(v *big.Int) *T
	BigInt(res *big.Int) *big.Int
	SetUint64(v uint64) *T
	SetInt64(v int64) *T
	SetOne() *T
	SetZero() *T
	SetBytes(e []byte) *T
	SetBytesCanonical(e []byte) error
	SetString(s string) (*T, error)
	SetInterface(i interface{}) (*T, error)
	Text(base int) string
	String() string
	Marshal() []byte
	Unmarshal(e []byte)
	MarshalJSON() ([]byte, error)
	UnmarshalJSON(data []byte) error
	Uint64() uint64
	IsUint64() bool
	FitsOnOneWord() bool
	BitLen() int
}

// VecC is the method set of every generated Vector type ([]Element).
type VecC[T any, V ~[]T] interface {
	*V
	Add(a, b V)
	Sub(a, b V)
	Mul(a, b V)
	ScalarMul(a V, b *T)
	Sum() T
	InnerProduct(other V) T
	WriteTo(w io.Writer) (int64, error)
	ReadFrom(r io.Reader) (int64, error)
	AsyncReadFrom(r io.Reader) (int64, error, chan error)
	MarshalBinary() ([]byte, error)
	UnmarshalBinary(data []byte) error
}

// FieldFuncs carries the package-level functions of one field package.
type FieldFuncs[T any] struct {
	Modulus     func() *big.Int
	MulBy3      func(*T)
	MulBy5      func(*T)
	MulBy13     func(*T)
	Butterfly   func(a, b *T)
	BatchInvert func([]T) []T
	NewElement  func(uint64) T
	One         func() T
	Hash        func(msg, dst []byte, count int) ([]T, error)
	Generator   func(m uint64) (T, error) // nil when the package has none
	Mul2ExpNegN func(z, x *T, n uint32)   // nil except for the 31-bit fields
	BEGet       func(b []byte) (T, error) // len(b) must be Bytes
	LEGet       func(b []byte) (T, error)
	BEPut       func(b []byte, e T)
	LEPut       func(b []byte, e T)
	Bytes       int
	Bits        int
}

// E is a type-erased field element (always a pointer to a library Element).
type E interface {
	F() Field
	Big() *big.Int     // value through the library's BigInt
	Raw() []uint64     // raw (Montgomery) limbs, least significant first
	SetRaw(l []uint64) // writes raw limbs, no reduction
	Clone() E
	Ptr() unsafe.Pointer

	Add(a, b E) E
	Sub(a, b E) E
	Mul(a, b E) E
	Div(a, b E) E
	Neg(a E) E
	Double(a E) E
	Square(a E) E
	Inverse(a E) E
	Sqrt(a E) bool // false when the library returned nil
	Halve()
	Exp(x E, k *big.Int) E
	Legendre() int
	Cmp(x E) int
	Equal(x E) bool
	IsZero() bool
	IsOne() bool
	LexicographicallyLargest() bool
	Select(c int, x0, x1 E) E
	Set(x E) E
	SetBig(v *big.Int) E
	SetUint64(v uint64) E
	SetInt64(v int64) E
	SetOne() E
	SetZero() E
	SetBytes(b []byte) E
	SetBytesCanonical(b []byte) error
	SetString(s string) error
	SetInterface(i interface{}) error
	Text(base int) string
	String() string
	Marshal() []byte
	Unmarshal(b []byte)
	MarshalJSON() ([]byte, error)
	UnmarshalJSON(b []byte) error
	Uint64() uint64
	IsUint64() bool
	FitsOnOneWord() bool
	BitLen() int
	MulBy3()
	MulBy5()
	MulBy13()
	Mul2ExpNegN(x E, n uint32)
	BEPut(b []byte)
	LEPut(b []byte)
	BEGet(b []byte) error
	LEGet(b []byte) error
	Native() interface{} // *T
}

// Vec is a type-erased Vector.
type Vec interface {
	F() Field
	Len() int
	At(i int) E // pointer into the vector
	Slice(lo, hi int) Vec
	Clone() Vec
	Add(a, b Vec)
	Sub(a, b Vec)
	Mul(a, b Vec)
	ScalarMul(a Vec, b E)
	Sum() E
	InnerProduct(o Vec) E
	WriteTo(w io.Writer) (int64, error)
	ReadFrom(r io.Reader) (int64, error)
	AsyncReadFrom(r io.Reader) (int64, error, chan error)
	MarshalBinary() ([]byte, error)
	UnmarshalBinary(b []byte) error
	BatchInvert() Vec
	Native() interface{} // *V
}

// Field is one field instantiation.
type Field interface {
	Name() string
	Q() *big.Int
	NLimbs() int
	LimbBits() int // 64 or 32
	Bytes() int
	Bits() int
	New() E
	FromBig(v *big.Int) E // SetBigInt(v)
	NewElement(v uint64) E
	One() E
	NewVec(n int) Vec
	// NewVecAt views mem (at least n*sizeof(element) bytes, suitably aligned, outside the Go heap or pinned by the
	// caller) as a vector of n elements; used to place operands next to guard pages.
	NewVecAt(mem []byte, n int) Vec
	Butterfly(a, b E)
	HasMul2ExpNegN() bool
	Hash(msg, dst []byte, count int) ([]E, error)
	Generator(m uint64) (E, error, bool) // third result false when the package has no Generator
	R() *big.Int                         // 2^(NLimbs*LimbBits) mod q (Montgomery radix)
}

type field[T any, V ~[]T, PT EltC[T], PV VecC[T, V]] struct {
	name string
	fn   FieldFuncs[T]
	q    *big.Int
	r    *big.Int
	nl   int
	lb   int
}

type elt[T any, V ~[]T, PT EltC[T], PV VecC[T, V]] struct {
	f *field[T, V, PT, PV]
	p *T
}

type vec[T any, V ~[]T, PT EltC[T], PV VecC[T, V]] struct {
	f *field[T, V, PT, PV]
	v *V
}

func newField[T any, V ~[]T, PT EltC[T], PV VecC[T, V]](name string, fn FieldFuncs[T]) Field {
	var z T
	sz := int(unsafe.Sizeof(z))
	f := &field[T, V, PT, PV]{name: name, fn: fn, q: fn.Modulus()}
	if sz == 4 {
		f.nl, f.lb = 1, 32
	} else {
		f.nl, f.lb = sz/8, 64
	}
	f.r = new(big.Int).Lsh(big.NewInt(1), uint(f.nl*f.lb))
	f.r.Mod(f.r, f.q)
	return f
}

func (f *field[T, V, PT, PV]) Name() string  { return f.name }
func (f *field[T, V, PT, PV]) Q() *big.Int   { return new(big.Int).Set(f.q) }
func (f *field[T, V, PT, PV]) R() *big.Int   { return new(big.Int).Set(f.r) }
func (f *field[T, V, PT, PV]) NLimbs() int   { return f.nl }
func (f *field[T, V, PT, PV]) LimbBits() int { return f.lb }
func (f *field[T, V, PT, PV]) Bytes() int    { return f.fn.Bytes }
func (f *field[T, V, PT, PV]) Bits() int     { return f.fn.Bits }
func (f *field[T, V, PT, PV]) wrap(p *T) E   { return &elt[T, V, PT, PV]{f, p} }
func (f *field[T, V, PT, PV]) New() E        { return f.wrap(new(T)) }
func (f *field[T, V, PT, PV]) FromBig(v *big.Int) E {
	e := new(T)
	PT(e).SetBigInt(v)
	return f.wrap(e)
}
func (f *field[T, V, PT, PV]) NewElement(v uint64) E { e := f.fn.NewElement(v); return f.wrap(&e) }
func (f *field[T, V, PT, PV]) One() E                { e := f.fn.One(); return f.wrap(&e) }
func (f *field[T, V, PT, PV]) NewVec(n int) Vec {
	v := make(V, n)
	return &vec[T, V, PT, PV]{f, &v}
}
func (f *field[T, V, PT, PV]) NewVecAt(mem []byte, n int) Vec {
	var zero T
	if need := n * int(unsafe.Sizeof(zero)); len(mem) < need {
		panic(fmt.Sprintf("inst: NewVecAt: %d bytes for %d elements", len(mem), n))
	}
	v := V(unsafe.Slice((*T)(unsafe.Pointer(unsafe.SliceData(mem))), n))
	return &vec[T, V, PT, PV]{f, &v}
}
func (f *field[T, V, PT, PV]) Butterfly(a, b E)     { f.fn.Butterfly(f.un(a), f.un(b)) }
func (f *field[T, V, PT, PV]) HasMul2ExpNegN() bool { return f.fn.Mul2ExpNegN != nil }
func (f *field[T, V, PT, PV]) Hash(msg, dst []byte, count int) ([]E, error) {
	r, err := f.fn.Hash(msg, dst, count)
	out := make([]E, len(r))
	for i := range r {
		out[i] = f.wrap(&r[i])
	}
	return out, err
}
func (f *field[T, V, PT, PV]) Generator(m uint64) (E, error, bool) {
	if f.fn.Generator == nil {
		return nil, nil, false
	}
	g, err := f.fn.Generator(m)
	return f.wrap(&g), err, true
}
func (f *field[T, V, PT, PV]) un(e E) *T { return e.(*elt[T, V, PT, PV]).p }

func (e *elt[T, V, PT, PV]) F() Field            { return e.f }
func (e *elt[T, V, PT, PV]) z() PT               { return PT(e.p) }
func (e *elt[T, V, PT, PV]) Native() interface{} { return e.p }
func (e *elt[T, V, PT, PV]) Ptr() unsafe.Pointer { return unsafe.Pointer(e.p) }
func (e *elt[T, V, PT, PV]) u(x E) *T            { return x.(*elt[T, V, PT, PV]).p }
func (e *elt[T, V, PT, PV]) Big() *big.Int       { return e.z().BigInt(new(big.Int)) }
func (e *elt[T, V, PT, PV]) Clone() E            { c := *e.p; return e.f.wrap(&c) }
func (e *elt[T, V, PT, PV]) Raw() []uint64 {
	out := make([]uint64, e.f.nl)
	if e.f.lb == 32 {
		out[0] = uint64(*(*uint32)(unsafe.Pointer(e.p)))
		return out
	}
	copy(out, unsafe.Slice((*uint64)(unsafe.Pointer(e.p)), e.f.nl))
	return out
}
func (e *elt[T, V, PT, PV]) SetRaw(l []uint64) {
	if e.f.lb == 32 {
		*(*uint32)(unsafe.Pointer(e.p)) = uint32(l[0])
		return
	}
	copy(unsafe.Slice((*uint64)(unsafe.Pointer(e.p)), e.f.nl), l)
}
func (e *elt[T, V, PT, PV]) Add(a, b E) E  { e.z().Add(e.u(a), e.u(b)); return e }
func (e *elt[T, V, PT, PV]) Sub(a, b E) E  { e.z().Sub(e.u(a), e.u(b)); return e }
func (e *elt[T, V, PT, PV]) Mul(a, b E) E  { e.z().Mul(e.u(a), e.u(b)); return e }
func (e *elt[T, V, PT, PV]) Div(a, b E) E  { e.z().Div(e.u(a), e.u(b)); return e }
func (e *elt[T, V, PT, PV]) Neg(a E) E     { e.z().Neg(e.u(a)); return e }
func (e *elt[T, V, PT, PV]) Double(a E) E  { e.z().Double(e.u(a)); return e }
func (e *elt[T, V, PT, PV]) Square(a E) E  { e.z().Square(e.u(a)); return e }
func (e *elt[T, V, PT, PV]) Inverse(a E) E { e.z().Inverse(e.u(a)); return e }
func (e *elt[T, V, PT, PV]) Sqrt(a E) bool { return e.z().Sqrt(e.u(a)) != nil }
func (e *elt[T, V, PT, PV]) Halve()        { e.z().Halve() }
func (e *elt[T, V, PT, PV]) Exp(x E, k *big.Int) E {
	e.z().Exp(*e.u(x), k)
	return e
}
func (e *elt[T, V, PT, PV]) Legendre() int                  { return e.z().Legendre() }
func (e *elt[T, V, PT, PV]) Cmp(x E) int                    { return e.z().Cmp(e.u(x)) }
func (e *elt[T, V, PT, PV]) Equal(x E) bool                 { return e.z().Equal(e.u(x)) }
func (e *elt[T, V, PT, PV]) IsZero() bool                   { return e.z().IsZero() }
func (e *elt[T, V, PT, PV]) IsOne() bool                    { return e.z().IsOne() }
func (e *elt[T, V, PT, PV]) LexicographicallyLargest() bool { return e.z().LexicographicallyLargest() }
func (e *elt[T, V, PT, PV]) Select(c int, x0, x1 E) E {
	e.z().Select(c, e.u(x0), e.u(x1))
	return e
}
func (e *elt[T, V, PT, PV]) Set(x E) E                        { e.z().Set(e.u(x)); return e }
func (e *elt[T, V, PT, PV]) SetBig(v *big.Int) E              { e.z().SetBigInt(v); return e }
func (e *elt[T, V, PT, PV]) SetUint64(v uint64) E             { e.z().SetUint64(v); return e }
func (e *elt[T, V, PT, PV]) SetInt64(v int64) E               { e.z().SetInt64(v); return e }
func (e *elt[T, V, PT, PV]) SetOne() E                        { e.z().SetOne(); return e }
func (e *elt[T, V, PT, PV]) SetZero() E                       { e.z().SetZero(); return e }
func (e *elt[T, V, PT, PV]) SetBytes(b []byte) E              { e.z().SetBytes(b); return e }
func (e *elt[T, V, PT, PV]) SetBytesCanonical(b []byte) error { return e.z().SetBytesCanonical(b) }
func (e *elt[T, V, PT, PV]) SetString(s string) error         { _, err := e.z().SetString(s); return err }
func (e *elt[T, V, PT, PV]) SetInterface(i interface{}) error {
	_, err := e.z().SetInterface(i)
	return err
}
func (e *elt[T, V, PT, PV]) Text(base int) string         { return e.z().Text(base) }
func (e *elt[T, V, PT, PV]) String() string               { return e.z().String() }
func (e *elt[T, V, PT, PV]) Marshal() []byte              { return e.z().Marshal() }
func (e *elt[T, V, PT, PV]) Unmarshal(b []byte)           { e.z().Unmarshal(b) }
func (e *elt[T, V, PT, PV]) MarshalJSON() ([]byte, error) { return e.z().MarshalJSON() }
func (e *elt[T, V, PT, PV]) UnmarshalJSON(b []byte) error { return e.z().UnmarshalJSON(b) }
func (e *elt[T, V, PT, PV]) Uint64() uint64               { return e.z().Uint64() }
func (e *elt[T, V, PT, PV]) IsUint64() bool               { return e.z().IsUint64() }
func (e *elt[T, V, PT, PV]) FitsOnOneWord() bool          { return e.z().FitsOnOneWord() }
func (e *elt[T, V, PT, PV]) BitLen() int                  { return e.z().BitLen() }
func (e *elt[T, V, PT, PV]) MulBy3()                      { e.f.fn.MulBy3(e.p) }
func (e *elt[T, V, PT, PV]) MulBy5()                      { e.f.fn.MulBy5(e.p) }
func (e *elt[T, V, PT, PV]) MulBy13()                     { e.f.fn.MulBy13(e.p) }
func (e *elt[T, V, PT, PV]) Mul2ExpNegN(x E, n uint32)    { e.f.fn.Mul2ExpNegN(e.p, e.u(x), n) }
func (e *elt[T, V, PT, PV]) BEPut(b []byte)               { e.f.fn.BEPut(b, *e.p) }
func (e *elt[T, V, PT, PV]) LEPut(b []byte)               { e.f.fn.LEPut(b, *e.p) }
func (e *elt[T, V, PT, PV]) BEGet(b []byte) error {
	v, err := e.f.fn.BEGet(b)
	if err == nil {
		*e.p = v
	}
	return err
}
func (e *elt[T, V, PT, PV]) LEGet(b []byte) error {
	v, err := e.f.fn.LEGet(b)
	if err == nil {
		*e.p = v
	}
	return err
}

func (v *vec[T, V, PT, PV]) F() Field            { return v.f }
func (v *vec[T, V, PT, PV]) Native() interface{} { return v.v }
func (v *vec[T, V, PT, PV]) Len() int            { return len(*v.v) }
func (v *vec[T, V, PT, PV]) At(i int) E          { return v.f.wrap(&(*v.v)[i]) }
func (v *vec[T, V, PT, PV]) Slice(lo, hi int) Vec {
	s := (*v.v)[lo:hi:hi]
	return &vec[T, V, PT, PV]{v.f, &s}
}
func (v *vec[T, V, PT, PV]) Clone() Vec {
	c := make(V, len(*v.v))
	copy(c, *v.v)
	return &vec[T, V, PT, PV]{v.f, &c}
}
func (v *vec[T, V, PT, PV]) u(x Vec) V    { return *x.(*vec[T, V, PT, PV]).v }
func (v *vec[T, V, PT, PV]) Add(a, b Vec) { PV(v.v).Add(v.u(a), v.u(b)) }
func (v *vec[T, V, PT, PV]) Sub(a, b Vec) { PV(v.v).Sub(v.u(a), v.u(b)) }
func (v *vec[T, V, PT, PV]) Mul(a, b Vec) { PV(v.v).Mul(v.u(a), v.u(b)) }
func (v *vec[T, V, PT, PV]) ScalarMul(a Vec, b E) {
	PV(v.v).ScalarMul(v.u(a), v.f.un(b))
}
func (v *vec[T, V, PT, PV]) Sum() E { r := PV(v.v).Sum(); return v.f.wrap(&r) }
func (v *vec[T, V, PT, PV]) InnerProduct(o Vec) E {
	r := PV(v.v).InnerProduct(v.u(o))
	return v.f.wrap(&r)
}
func (v *vec[T, V, PT, PV]) WriteTo(w io.Writer) (int64, error)  { return PV(v.v).WriteTo(w) }
func (v *vec[T, V, PT, PV]) ReadFrom(r io.Reader) (int64, error) { return PV(v.v).ReadFrom(r) }
func (v *vec[T, V, PT, PV]) AsyncReadFrom(r io.Reader) (int64, error, chan error) {
	return PV(v.v).AsyncReadFrom(r)
}
func (v *vec[T, V, PT, PV]) MarshalBinary() ([]byte, error) { return PV(v.v).MarshalBinary() }
func (v *vec[T, V, PT, PV]) UnmarshalBinary(b []byte) error { return PV(v.v).UnmarshalBinary(b) }
func (v *vec[T, V, PT, PV]) BatchInvert() Vec {
	r := V(v.f.fn.BatchInvert([]T(*v.v)))
	return &vec[T, V, PT, PV]{v.f, &r}
}

// Fields returns all field instantiations.
func Fields() []Field { return allFields }

// FieldByName returns the named field or nil.
func FieldByName(n string) Field {
	for _, f := range allFields {
		if f.Name() == n {
			return f
		}
	}
	return nil
}
