package inst

import (
	"fmt"
	"math/big"
	"reflect"
	"sync"

	"verif/harness/internal/ref"
	"verif/harness/internal/reg"
)

// Curve bundles the library package of one curve with its reference model. Constants (tower
// non-residues, curve and twist coefficients) are transcribed from the package documentation
// (DESIGN Appendix A) and validated numerically when the curve is first used.
type Curve struct {
	Name    string
	Pkg     *reg.Pkg
	P, R    *big.Int // base-field and scalar-field moduli
	Fp      ref.PrimeFld
	G1, G2  *Group   // G2 nil for non-pairing curves
	Tower   []ref.Fld // Fp, then each level up to GT (pairing curves only)
	GT      ref.Fld
	TowerNm []string // names of levels: "Fp","E2",...
}

// Group is one prime-order group of a curve.
type Group struct {
	C    *Curve
	Name string // "G1" | "G2"
	E    *ref.Curve
	Gen  ref.Pt
	R    *big.Int
	Aff  string // library type names
	Jac  string
}

type towerStep struct {
	d  int
	nr []int64 // non-residue as small ints in the base level
	nm string
}

type curveSpec struct {
	a, b    string  // curve coefficients over Fp (decimal; b may be negative)
	tower   []towerStep
	g2level int     // index in tower (0=Fp) of the field of definition of the twist
	// twist coefficient b' = bTwistNum * (bTwistDen)^-1, both as small-int vectors at g2level
	twNum, twDen []int64
}

var curveSpecs = map[string]curveSpec{
	"bn254": {a: "0", b: "3", tower: []towerStep{{2, []int64{-1}, "E2"}, {3, []int64{9, 1}, "E6"}, {2, []int64{0, 0, 1, 0, 0, 0}, "E12"}},
		g2level: 1, twNum: []int64{3, 0}, twDen: []int64{9, 1}},
	"bls12-377": {a: "0", b: "1", tower: []towerStep{{2, []int64{-5}, "E2"}, {3, []int64{0, 1}, "E6"}, {2, []int64{0, 0, 1, 0, 0, 0}, "E12"}},
		g2level: 1, twNum: []int64{1, 0}, twDen: []int64{0, 1}},
	"bls12-381": {a: "0", b: "4", tower: []towerStep{{2, []int64{-1}, "E2"}, {3, []int64{1, 1}, "E6"}, {2, []int64{0, 0, 1, 0, 0, 0}, "E12"}},
		g2level: 1, twNum: []int64{4, 4}, twDen: []int64{1, 0}},
	"bls24-315": {a: "0", b: "1", tower: []towerStep{{2, []int64{13}, "E2"}, {2, []int64{0, 1}, "E4"}, {3, []int64{0, 0, 1, 0}, "E12"}, {2, []int64{0, 0, 0, 0, 1, 0, 0, 0, 0, 0, 0, 0}, "E24"}},
		g2level: 2, twNum: []int64{1, 0, 0, 0}, twDen: []int64{0, 0, 1, 0}},
	"bls24-317": {a: "0", b: "4", tower: []towerStep{{2, []int64{-1}, "E2"}, {2, []int64{1, 1}, "E4"}, {3, []int64{0, 0, 1, 0}, "E12"}, {2, []int64{0, 0, 0, 0, 1, 0, 0, 0, 0, 0, 0, 0}, "E24"}},
		g2level: 2, twNum: []int64{0, 0, 4, 0}, twDen: []int64{1, 0, 0, 0}},
	"bw6-761": {a: "0", b: "-1", tower: []towerStep{{3, []int64{-4}, "E3"}, {2, []int64{0, 1, 0}, "E6"}},
		g2level: 0, twNum: []int64{4}, twDen: []int64{1}},
	"bw6-633": {a: "0", b: "4", tower: []towerStep{{3, []int64{2}, "E3"}, {2, []int64{0, 1, 0}, "E6"}},
		g2level: 0, twNum: []int64{8}, twDen: []int64{1}},
	"secp256k1":   {a: "0", b: "7"},
	"stark-curve": {a: "1", b: "3141592653589793238462643383279502884197169399375105820974944592307816406665"},
	"grumpkin":    {a: "0", b: "-17"},
}

// CurveNames lists all curves; PairingNames the pairing-friendly ones.
var CurveNames = []string{"bn254", "bls12-377", "bls12-381", "bls24-315", "bls24-317", "bw6-633", "bw6-761", "secp256k1", "stark-curve", "grumpkin"}
var PairingNames = CurveNames[:7]

var (
	curveMu    sync.Mutex
	curveCache = map[string]*Curve{}
)

func dec(s string) *big.Int {
	v, ok := new(big.Int).SetString(s, 10)
	if !ok {
		panic("bad decimal " + s)
	}
	return v
}

// GetCurve returns the (validated) curve bundle.
func GetCurve(name string) *Curve {
	curveMu.Lock()
	defer curveMu.Unlock()
	if c, ok := curveCache[name]; ok {
		return c
	}
	sp, ok := curveSpecs[name]
	if !ok {
		panic("inst: unknown curve " + name)
	}
	c := &Curve{Name: name, Pkg: reg.Get("ecc/" + name)}
	c.P = FieldByName(name + "/fp").Q()
	c.R = FieldByName(name + "/fr").Q()
	if !c.P.ProbablyPrime(32) || !c.R.ProbablyPrime(32) {
		panic("inst: modulus not prime for " + name)
	}
	c.Fp = ref.NewPrimeFld(c.P)
	c.Tower = []ref.Fld{c.Fp}
	c.TowerNm = []string{"Fp"}
	for _, st := range sp.tower {
		base := c.Tower[len(c.Tower)-1]
		c.Tower = append(c.Tower, ref.NewExt(base, st.d, ref.FromInt64s(base, st.nr...)))
		c.TowerNm = append(c.TowerNm, st.nm)
	}
	if len(sp.tower) > 0 {
		c.GT = c.Tower[len(c.Tower)-1]
	}
	// G1
	e1 := &ref.Curve{F: c.Fp, A: ref.Scalar(c.Fp, dec(sp.a)), B: ref.Scalar(c.Fp, dec(sp.b))}
	c.G1 = &Group{C: c, Name: "G1", E: e1, R: c.R, Aff: "G1Affine", Jac: "G1Jac"}
	gens := c.Pkg.F("Generators")
	if len(sp.tower) > 0 {
		f2 := c.Tower[sp.g2level]
		bt := f2.Mul(ref.FromInt64s(f2, sp.twNum...), f2.Inv(ref.FromInt64s(f2, sp.twDen...)))
		e2 := &ref.Curve{F: f2, A: f2.Zero(), B: bt}
		c.G2 = &Group{C: c, Name: "G2", E: e2, R: c.R, Aff: "G2Affine", Jac: "G2Jac"}
		// Generators() (g1Jac, g2Jac, g1Aff, g2Aff)
		c.G1.Gen = c.G1.ToRef(ptrTo(gens[2]))
		c.G2.Gen = c.G2.ToRef(ptrTo(gens[3]))
	} else {
		// Generators() (g1Jac, g1Aff)
		c.G1.Gen = c.G1.ToRef(ptrTo(gens[1]))
	}
	for _, g := range []*Group{c.G1, c.G2} {
		if g == nil {
			continue
		}
		if g.Gen.Inf || !g.E.OnCurve(g.Gen) {
			panic(fmt.Sprintf("inst: %s %s generator is not on the documented curve", name, g.Name))
		}
		if !g.E.Mul(g.R, g.Gen).Inf {
			panic(fmt.Sprintf("inst: %s %s [r]G != O", name, g.Name))
		}
	}
	curveCache[name] = c
	return c
}

func ptrTo(v interface{}) interface{} {
	rv := reflect.ValueOf(v)
	p := reflect.New(rv.Type())
	p.Elem().Set(rv)
	return p.Interface()
}

// Groups returns G1 (and G2 when present).
func (c *Curve) Groups() []*Group {
	if c.G2 == nil {
		return []*Group{c.G1}
	}
	return []*Group{c.G1, c.G2}
}

// ID is "curve/G1".
func (g *Group) ID() string { return g.C.Name + "/" + g.Name }

func (g *Group) NewAff() interface{} { return g.C.Pkg.New(g.Aff) }
func (g *Group) NewJac() interface{} { return g.C.Pkg.New(g.Jac) }
func (g *Group) AffType() reflect.Type { return g.C.Pkg.Types[g.Aff] }
func (g *Group) JacType() reflect.Type { return g.C.Pkg.Types[g.Jac] }

// ToRef converts a library affine point (pointer) to a reference point; (0,0) is infinity.
func (g *Group) ToRef(aff interface{}) ref.Pt {
	v := reg.Flatten(aff)
	n := len(v) / 2
	x, y := ref.V(v[:n]), ref.V(v[n:])
	if g.E.F.IsZero(x) && g.E.F.IsZero(y) {
		return ref.Pt{Inf: true}
	}
	return ref.Pt{X: x, Y: y}
}

// FromRef builds a library affine point from a reference point.
func (g *Group) FromRef(p ref.Pt) interface{} {
	a := g.NewAff()
	if p.Inf {
		return a
	}
	reg.Unflatten(a, append(append(ref.V{}, ref.Red(g.E.F, p.X)...), ref.Red(g.E.F, p.Y)...))
	return a
}

// JacFromRef builds the Jacobian representative (x z^2, y z^3, z) of p; for infinity (z^2, z^3, 0)
// with the given z (the library's own convention is (1,1,0)).
func (g *Group) JacFromRef(p ref.Pt, z ref.V) interface{} {
	F := g.E.F
	j := g.NewJac()
	z2 := F.Mul(z, z)
	z3 := F.Mul(z2, z)
	var c ref.V
	if p.Inf {
		c = append(append(append(ref.V{}, z2...), z3...), F.Zero()...)
	} else {
		c = append(append(append(ref.V{}, F.Mul(p.X, z2)...), F.Mul(p.Y, z3)...), ref.Red(F, z)...)
	}
	reg.Unflatten(j, c)
	return j
}

// JacToRef converts a library Jacobian point to the reference affine point (X/Z^2, Y/Z^3).
func (g *Group) JacToRef(jac interface{}) ref.Pt {
	F := g.E.F
	v := reg.Flatten(jac)
	n := len(v) / 3
	x, y, z := ref.V(v[:n]), ref.V(v[n:2*n]), ref.V(v[2*n:])
	if F.IsZero(z) {
		return ref.Pt{Inf: true}
	}
	zi := F.Inv(z)
	zi2 := F.Mul(zi, zi)
	return ref.Pt{X: F.Mul(x, zi2), Y: F.Mul(y, F.Mul(zi2, zi))}
}

// InSubgroup is the reference subgroup oracle: on curve and killed by r.
func (g *Group) InSubgroup(p ref.Pt) bool {
	return g.E.OnCurve(p) && g.E.Mul(g.R, p).Inf
}
