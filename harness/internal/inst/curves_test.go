package inst

import "testing"

func TestCurvesValidate(t *testing.T) {
	for _, n := range CurveNames {
		c := GetCurve(n)
		t.Log(n, len(c.Tower), c.G2 != nil)
	}
}

func TestEdwardsValidate(t *testing.T) {
	for _, n := range EdwardsNames {
		e := GetEdwards(n)
		t.Log(n, e.Cofactor, e.Order.BitLen())
	}
}
