package inst

// Type-erased adapter over the generated fft packages (ecc/<curve>/fr/fft, field/<small>/fft).
// The packages differ only by import path (and by which kernels they have); the registry in
// fft_gen.go (written by /verif/harness/gen_inst_fft.py) lists them.

import (
	"io"
	"math/big"
)

// Decimation mirrors fft.Decimation.
type Decimation int

const (
	DIT Decimation = iota // input bit-reversed, output natural
	DIF                   // input natural, output bit-reversed
)

func (d Decimation) String() string {
	if d == DIT {
		return "DIT"
	}
	return "DIF"
}

// DomainOpt are the NewDomain options. Shift nil: no WithShift option is passed.
type DomainOpt struct {
	Shift             E
	WithoutPrecompute bool
}

// FFTOpt are the FFT/FFTInverse options. NbTasks 0: no WithNbTasks option is passed
// (library default runtime.NumCPU()).
type FFTOpt struct {
	Coset   bool
	NbTasks int
}

// FFT is one fft package.
type FFT interface {
	Name() string // same as the name of the field: "bn254/fr", "koalabear", …
	F() Field
	NewDomain(m uint64, o DomainOpt) Domain
	ZeroDomain() Domain // new(fft.Domain): the receiver for ReadFrom
	BitReverse(v Vec)
	Generator(m uint64) (E, error)      // fft.Generator
	FieldGenerator(m uint64) (E, error) // <field package>.Generator (fr.Generator, koalabear.Generator, …)
	GeneratorFullMultiplicativeGroup() E
	BuildExpTable(w E, table Vec)

	// bulk helpers on vectors of this field (adapter side; only Set/Equal/SetBigInt/BigInt of the library)
	VecEq(a Vec, i int, b Vec, j int) bool
	VecSet(a Vec, i int, b Vec, j int)
	VecCopy(dst, src Vec)
	VecZero(v Vec)
	VecFromBig(vals []*big.Int) Vec
	VecToBig(v Vec) []*big.Int
}

// Domain is a *fft.Domain.
type Domain interface {
	FFT(a Vec, dec Decimation, o FFTOpt)
	FFTInverse(a Vec, dec Decimation, o FFTOpt)
	Cardinality() uint64
	// the exported element fields (pointers into the struct)
	CardinalityInv() E
	Generator() E
	GeneratorInv() E
	FrMultiplicativeGen() E
	FrMultiplicativeGenInv() E
	WriteTo(w io.Writer) (int64, error)
	ReadFrom(r io.Reader) (int64, error)
	Twiddles() ([]Vec, error)
	TwiddlesInv() ([]Vec, error)
	CosetTable() (Vec, error)
	CosetTableInv() (Vec, error)
	Native() interface{}
	// ValueCopy returns a plain Go value copy of the struct (d2 := *d): it shares the table slices with d.
	ValueCopy() Domain
}

// DomC is the method set of every generated *fft.Domain that does not mention package-local types.
type DomC[T any, D any] interface {
	*D
	WriteTo(w io.Writer) (int64, error)
	ReadFrom(r io.Reader) (int64, error)
	Twiddles() ([][]T, error)
	TwiddlesInv() ([][]T, error)
	CosetTable() ([]T, error)
	CosetTableInv() ([]T, error)
}

// FFTPkg carries the package-level functions and method expressions of one fft package.
// DO = fft.DomainOption, O = fft.Option, Dec = fft.Decimation.
type FFTPkg[T any, D any, DO any, O any, Dec any] struct {
	NewDomain         func(uint64, ...DO) *D
	WithShift         func(T) DO
	WithoutPrecompute func() DO
	OnCoset           func() O
	WithNbTasks       func(int) O
	FFT               func(*D, []T, Dec, ...O)
	FFTInverse        func(*D, []T, Dec, ...O)
	DIT, DIF          Dec
	BitReverse        func([]T)
	Generator         func(uint64) (T, error)
	FieldGenerator    func(uint64) (T, error)
	FullGen           func() T
	BuildExpTable     func(T, []T)
	Fields            func(*D) (*uint64, [5]*T) // Cardinality; CardinalityInv, Generator, GeneratorInv, FrMultiplicativeGen, FrMultiplicativeGenInv
}

type fftFns[T any, D any] struct {
	newDomain     func(m uint64, shift *T, noPre bool) *D
	fft           func(d *D, a []T, dit, inverse, coset bool, nbTasks int)
	bitReverse    func([]T)
	generator     func(uint64) (T, error)
	fieldGen      func(uint64) (T, error)
	fullGen       func() T
	buildExpTable func(T, []T)
	fields        func(*D) (*uint64, [5]*T)
}

type fftInst[T any, V ~[]T, PT EltC[T], PV VecC[T, V], D any, PD DomC[T, D]] struct {
	name string
	fld  *field[T, V, PT, PV]
	fn   fftFns[T, D]
}

type dom[T any, V ~[]T, PT EltC[T], PV VecC[T, V], D any, PD DomC[T, D]] struct {
	x *fftInst[T, V, PT, PV, D, PD]
	d *D
}

func newFFT[T any, V ~[]T, PT EltC[T], PV VecC[T, V], D any, PD DomC[T, D], DO any, O any, Dec any](name string, p FFTPkg[T, D, DO, O, Dec]) FFT {
	f, ok := FieldByName(name).(*field[T, V, PT, PV])
	if !ok {
		panic("inst: fft package " + name + " has no matching field instantiation")
	}
	x := &fftInst[T, V, PT, PV, D, PD]{name: name, fld: f}
	x.fn = fftFns[T, D]{
		newDomain: func(m uint64, shift *T, noPre bool) *D {
			var o []DO
			if shift != nil {
				o = append(o, p.WithShift(*shift))
			}
			if noPre {
				o = append(o, p.WithoutPrecompute())
			}
			return p.NewDomain(m, o...)
		},
		fft: func(d *D, a []T, dit, inverse, coset bool, nbTasks int) {
			var o []O
			if coset {
				o = append(o, p.OnCoset())
			}
			if nbTasks != 0 {
				o = append(o, p.WithNbTasks(nbTasks))
			}
			dec := p.DIF
			if dit {
				dec = p.DIT
			}
			if inverse {
				p.FFTInverse(d, a, dec, o...)
			} else {
				p.FFT(d, a, dec, o...)
			}
		},
		bitReverse:    p.BitReverse,
		generator:     p.Generator,
		fieldGen:      p.FieldGenerator,
		fullGen:       p.FullGen,
		buildExpTable: p.BuildExpTable,
		fields:        p.Fields,
	}
	return x
}

func (x *fftInst[T, V, PT, PV, D, PD]) nat(v Vec) []T { return []T(*v.(*vec[T, V, PT, PV]).v) }
func (x *fftInst[T, V, PT, PV, D, PD]) mkvec(s []T) Vec {
	v := V(s)
	return &vec[T, V, PT, PV]{x.fld, &v}
}
func (x *fftInst[T, V, PT, PV, D, PD]) Name() string { return x.name }
func (x *fftInst[T, V, PT, PV, D, PD]) F() Field     { return x.fld }
func (x *fftInst[T, V, PT, PV, D, PD]) NewDomain(m uint64, o DomainOpt) Domain {
	var s *T
	if o.Shift != nil {
		s = x.fld.un(o.Shift)
	}
	return &dom[T, V, PT, PV, D, PD]{x, x.fn.newDomain(m, s, o.WithoutPrecompute)}
}
func (x *fftInst[T, V, PT, PV, D, PD]) ZeroDomain() Domain {
	return &dom[T, V, PT, PV, D, PD]{x, new(D)}
}
func (x *fftInst[T, V, PT, PV, D, PD]) BitReverse(v Vec) { x.fn.bitReverse(x.nat(v)) }
func (x *fftInst[T, V, PT, PV, D, PD]) Generator(m uint64) (E, error) {
	g, err := x.fn.generator(m)
	return x.fld.wrap(&g), err
}
func (x *fftInst[T, V, PT, PV, D, PD]) FieldGenerator(m uint64) (E, error) {
	g, err := x.fn.fieldGen(m)
	return x.fld.wrap(&g), err
}
func (x *fftInst[T, V, PT, PV, D, PD]) GeneratorFullMultiplicativeGroup() E {
	g := x.fn.fullGen()
	return x.fld.wrap(&g)
}
func (x *fftInst[T, V, PT, PV, D, PD]) BuildExpTable(w E, table Vec) {
	x.fn.buildExpTable(*x.fld.un(w), x.nat(table))
}
func (x *fftInst[T, V, PT, PV, D, PD]) VecEq(a Vec, i int, b Vec, j int) bool {
	return PT(&x.nat(a)[i]).Equal(&x.nat(b)[j])
}
func (x *fftInst[T, V, PT, PV, D, PD]) VecSet(a Vec, i int, b Vec, j int) {
	x.nat(a)[i] = x.nat(b)[j]
}
func (x *fftInst[T, V, PT, PV, D, PD]) VecCopy(dst, src Vec) { copy(x.nat(dst), x.nat(src)) }
func (x *fftInst[T, V, PT, PV, D, PD]) VecZero(v Vec) {
	s := x.nat(v)
	var z T
	for i := range s {
		s[i] = z
	}
}
func (x *fftInst[T, V, PT, PV, D, PD]) VecFromBig(vals []*big.Int) Vec {
	s := make([]T, len(vals))
	for i, v := range vals {
		PT(&s[i]).SetBigInt(v)
	}
	return x.mkvec(s)
}
func (x *fftInst[T, V, PT, PV, D, PD]) VecToBig(v Vec) []*big.Int {
	s := x.nat(v)
	out := make([]*big.Int, len(s))
	for i := range s {
		out[i] = PT(&s[i]).BigInt(new(big.Int))
	}
	return out
}

func (d *dom[T, V, PT, PV, D, PD]) Native() interface{} { return d.d }
func (d *dom[T, V, PT, PV, D, PD]) ValueCopy() Domain {
	c := *d.d
	return &dom[T, V, PT, PV, D, PD]{d.x, &c}
}
func (d *dom[T, V, PT, PV, D, PD]) FFT(a Vec, dec Decimation, o FFTOpt) {
	d.x.fn.fft(d.d, d.x.nat(a), dec == DIT, false, o.Coset, o.NbTasks)
}
func (d *dom[T, V, PT, PV, D, PD]) FFTInverse(a Vec, dec Decimation, o FFTOpt) {
	d.x.fn.fft(d.d, d.x.nat(a), dec == DIT, true, o.Coset, o.NbTasks)
}
func (d *dom[T, V, PT, PV, D, PD]) Cardinality() uint64 { c, _ := d.x.fn.fields(d.d); return *c }
func (d *dom[T, V, PT, PV, D, PD]) el(i int) E {
	_, e := d.x.fn.fields(d.d)
	return d.x.fld.wrap(e[i])
}
func (d *dom[T, V, PT, PV, D, PD]) CardinalityInv() E                   { return d.el(0) }
func (d *dom[T, V, PT, PV, D, PD]) Generator() E                        { return d.el(1) }
func (d *dom[T, V, PT, PV, D, PD]) GeneratorInv() E                     { return d.el(2) }
func (d *dom[T, V, PT, PV, D, PD]) FrMultiplicativeGen() E              { return d.el(3) }
func (d *dom[T, V, PT, PV, D, PD]) FrMultiplicativeGenInv() E           { return d.el(4) }
func (d *dom[T, V, PT, PV, D, PD]) WriteTo(w io.Writer) (int64, error)  { return PD(d.d).WriteTo(w) }
func (d *dom[T, V, PT, PV, D, PD]) ReadFrom(r io.Reader) (int64, error) { return PD(d.d).ReadFrom(r) }
func (d *dom[T, V, PT, PV, D, PD]) vecs(t [][]T, err error) ([]Vec, error) {
	if err != nil {
		return nil, err
	}
	out := make([]Vec, len(t))
	for i := range t {
		out[i] = d.x.mkvec(t[i])
	}
	return out, nil
}
func (d *dom[T, V, PT, PV, D, PD]) Twiddles() ([]Vec, error)    { return d.vecs(PD(d.d).Twiddles()) }
func (d *dom[T, V, PT, PV, D, PD]) TwiddlesInv() ([]Vec, error) { return d.vecs(PD(d.d).TwiddlesInv()) }
func (d *dom[T, V, PT, PV, D, PD]) CosetTable() (Vec, error) {
	t, err := PD(d.d).CosetTable()
	if err != nil {
		return nil, err
	}
	return d.x.mkvec(t), nil
}
func (d *dom[T, V, PT, PV, D, PD]) CosetTableInv() (Vec, error) {
	t, err := PD(d.d).CosetTableInv()
	if err != nil {
		return nil, err
	}
	return d.x.mkvec(t), nil
}

// FFTs returns all fft package instantiations.
func FFTs() []FFT { return allFFTs() }

// FFTByName returns the named fft package or nil.
func FFTByName(n string) FFT {
	for _, f := range allFFTs() {
		if f.Name() == n {
			return f
		}
	}
	return nil
}
