package c08

import (
	"bufio"
	"bytes"
	"encoding/binary"
	"fmt"
	"os"
	"os/exec"
	"strconv"
	"strings"
	"testing"
	"time"

	"verif/harness/internal/inst"
	"verif/harness/internal/rep"
)

// F40 (found while building C08; outside the generated domain because of the 2^22 prefix guard):
// Vector.AsyncReadFrom computed the byte length of the announced vector as sliceLen*Bytes in uint32.
// A prefix of ceil(2^32/Bytes) elements wraps it to (almost) zero, so the bulk read "succeeds" on a stream
// that holds no data (n=4, err=nil) and the validation goroutines then index past the byte slice: an
// unrecoverable panic in a background goroutine, i.e. a process crash from a handful of input bytes.
//
// The reproduction allocates the announced vector (4 GiB of untouched virtual memory), so it runs in a
// child process and only when the machine has room for it.

const childEnv = "VERIF_C08_CHILD"

func overflowStream(f inst.Field) []byte {
	B := uint64(f.Bytes())
	prefix := (uint64(1)<<32 + B - 1) / B
	wrapped := (prefix * B) & (1<<32 - 1) // what the uint32 product wraps to
	stream := make([]byte, 4+wrapped)
	binary.BigEndian.PutUint32(stream, uint32(prefix))
	return stream
}

// TestC08_RegressAsyncOverflowChild is the body executed in the child process.
func TestC08_RegressAsyncOverflowChild(t *testing.T) {
	name := os.Getenv(childEnv)
	if name == "" {
		t.Skip("helper of TestC08_RegressAsyncOverflow")
	}
	f := inst.FieldByName(name)
	stream := overflowStream(f)
	v := f.NewVec(0)
	n, err, ch := v.AsyncReadFrom(bytes.NewReader(stream))
	fmt.Printf("CHILD n=%d err=%v\n", n, err)
	if err == nil {
		// the stream is far shorter than announced: without an error here the reader trusted a wrapped length
		select {
		case verr := <-ch:
			fmt.Printf("CHILD validation=%v\n", verr)
		case <-time.After(30 * time.Second):
		}
		t.Fatalf("%s: AsyncReadFrom accepted a %d-byte stream announcing %d elements", name, len(stream), binary.BigEndian.Uint32(stream))
	}
	fmt.Println("CHILD OK")
}

func memAvailableGiB() int {
	fh, err := os.Open("/proc/meminfo")
	if err != nil {
		return 0
	}
	defer fh.Close()
	sc := bufio.NewScanner(fh)
	for sc.Scan() {
		fs := strings.Fields(sc.Text())
		if len(fs) >= 2 && fs[0] == "MemAvailable:" {
			kb, _ := strconv.Atoi(fs[1])
			return kb >> 20
		}
	}
	return 0
}

// TestC08_RegressAsyncOverflow re-executes the F40 reproduction (rapid-free) for one 31-bit field, the
// 64-bit field and one multi-limb field with a non-power-of-two Bytes (generated from the same template).
func TestC08_RegressAsyncOverflow(t *testing.T) {
	test := "C08_Regress"
	if g := memAvailableGiB(); g < 12 {
		rep.Note(test, fmt.Sprintf("F40 regression skipped: it allocates a 4 GiB vector and only %d GiB are available", g))
		t.Skipf("needs 12 GiB available, have %d", g)
	}
	for _, name := range []string{"koalabear", "goldilocks", "bn254/fr", "bls12-377/fp"} {
		if !selected(name) {
			continue
		}
		cmd := exec.Command(os.Args[0], "-test.run=^TestC08_RegressAsyncOverflowChild$", "-test.v", "-test.timeout=120s")
		env := []string{childEnv + "=" + name}
		for _, e := range os.Environ() {
			if !strings.HasPrefix(e, "VERIF_REPORT=") && !strings.HasPrefix(e, childEnv+"=") {
				env = append(env, e)
			}
		}
		cmd.Env = env
		out, err := cmd.CombinedOutput()
		s := string(out)
		if err != nil || !strings.Contains(s, "CHILD OK") || strings.Contains(s, "panic:") {
			if len(s) > 1500 {
				s = s[:1500] + "…"
			}
			t.Errorf("%s: AsyncReadFrom on a %d-byte stream announcing ceil(2^32/Bytes) elements: child failed (%v):\n%s", name, len(overflowStream(inst.FieldByName(name))), err, s)
		}
		rep.Case(test, name+" AsyncReadFrom prefix=ceil(2^32/Bytes) over an (almost) empty stream", true, "regress:F40")
	}
}
