package c08

import (
	"bytes"
	"fmt"
	"io"
	"math/big"
	"testing"

	"verif/harness/internal/inst"
	"verif/harness/internal/rep"
)

type entryKind struct {
	name  string
	v     *big.Int
	valid bool
}

// sweepKinds are the entries planted at every position: the non-canonical values of the quantifier
// (q, q+1, 2^(8B)-1, top-byte patterns, lowest/highest limb of q bumped) and two canonical boundary
// values that must still be accepted (both directions of accept <=> value < q).
func sweepKinds(f inst.Field) []entryKind {
	q := f.Q()
	B := f.Bytes()
	var ks []entryKind
	add := func(n string, v *big.Int) {
		if v.Sign() < 0 || v.BitLen() > 8*B {
			return
		}
		ks = append(ks, entryKind{n, v, v.Cmp(q) < 0})
	}
	add("bad=q", new(big.Int).Set(q))
	add("ok=q-1", new(big.Int).Sub(q, bi(1)))
	add("bad=q+1", new(big.Int).Add(q, bi(1)))
	add("bad=2^(8B)-1", new(big.Int).Sub(pow2(8*B), bi(1)))
	top := make([]byte, B)
	top[0] = 0x80
	if new(big.Int).SetBytes(top).Cmp(q) < 0 {
		top[0] = 0xff
	}
	add("bad=top_byte", new(big.Int).SetBytes(top))
	// q with its top limb incremented and everything below cleared (>= q), and decremented with everything below set (< q)
	w := f.LimbBits()
	sh := uint((f.NLimbs() - 1) * w)
	hi := new(big.Int).Rsh(q, sh)
	add("bad=q_toplimb+1", new(big.Int).Lsh(new(big.Int).Add(hi, bi(1)), sh))
	lowOnes := new(big.Int).Sub(pow2(int(sh)), bi(1))
	add("ok=q_toplimb-1|ones", new(big.Int).Add(new(big.Int).Lsh(new(big.Int).Sub(hi, bi(1)), sh), lowOnes))
	add("ok=0", bi(0))
	return ks
}

func sweepValues(f inst.Field, n int) []*big.Int {
	q := f.Q()
	consts := []*big.Int{bi(0), bi(1), new(big.Int).Sub(q, bi(1)), new(big.Int).Sub(q, bi(2)), new(big.Int).Rsh(q, 1),
		mod(pow2(f.LimbBits()), q), mod(new(big.Int).Sub(pow2(f.LimbBits()), bi(1)), q), f.R(), mod(pow2(f.Bits()-1), q), bi(0xdead)}
	out := make([]*big.Int, n)
	for i := range out {
		out[i] = consts[(i*7+n)%len(consts)]
	}
	return out
}

// TestC08_VectorSweep: every vector length 0..300 round-trips through the three decoders, and an
// invalid entry at every position is reported by each of them (ReadFrom right after that element,
// AsyncReadFrom through its channel, UnmarshalBinary); canonical boundary entries stay accepted.
// Quick tier: the entry kind rotates with (length+position); thorough tier: every kind at every position.
func TestC08_VectorSweep(t *testing.T) {
	forFields(t, func(t *testing.T, f inst.Field) {
		q := f.Q()
		B := f.Bytes()
		name := f.Name()
		test := "C08_VectorSweep/" + name
		kinds := sweepKinds(f)
		maxN := 300
		counts := map[string]int64{}
		for n := 0; n <= maxN; n++ {
			vals := sweepValues(f, n)
			vec := f.NewVec(n)
			for i, v := range vals {
				vec.At(i).SetBig(v)
			}
			stream := refEncode(B, uint32(n), vals)
			mb, err := vec.MarshalBinary()
			if err != nil || !bytes.Equal(mb, stream) {
				t.Fatalf("%s: MarshalBinary(n=%d) differs from the reference encoding (err=%v)", name, n, err)
			}
			mk := func() io.Reader { return bytes.NewReader(stream) }
			decodeAll(t, f, stream, mk, refOutcome{ok: true, syncN: int64(len(stream)), asyncN: int64(len(stream)), vals: vals}, "whole", fmt.Sprintf("n=%d honest", n))
			counts["honest"]++
			for pos := 0; pos < n; pos++ {
				lo, hi := 0, len(kinds)
				if !rep.Thorough() {
					lo = (n + pos) % len(kinds)
					hi = lo + 1
				}
				for _, k := range kinds[lo:hi] {
					off := 4 + pos*B
					copy(stream[off:off+B], be(k.v, B))
					exp := refOutcome{ok: k.valid, syncN: int64(len(stream)), asyncN: int64(len(stream)), why: "invalid_entry"}
					if k.valid {
						exp.why = ""
					} else {
						exp.syncN = int64(off + B)
					}
					kv, p := k.v, pos
					decodeAllV(t, f, stream, mk, exp, "whole", fmt.Sprintf("n=%d pos=%d %s", n, pos, k.name), func(what string, v inst.Vec) {
						// vec was verified element by element (math/big) on the honest stream of this length
						if v.Len() != n {
							t.Fatalf("%s: %s: decoded length %d want %d", name, what, v.Len(), n)
						}
						for i := 0; i < n; i++ {
							if i == p {
								checkVal(t, f, what, v.At(i), kv)
							} else if !v.At(i).Equal(vec.At(i)) {
								t.Fatalf("%s: %s: element %d differs from the honest decoding", name, what, i)
							}
						}
					})
					counts[k.name]++
					copy(stream[off:off+B], be(vals[pos], B))
				}
			}
		}
		names := make([]string, 0, len(counts))
		for k := range counts {
			names = append(names, k)
		}
		sortStrings(names)
		for _, k := range names {
			c := counts[k]
			rep.Count(test, "sweep:"+k, c, c, fmt.Sprintf("%s: lengths 0..%d, entry %s at every position (rotating in quick tier): %d streams x 3 decoders", name, maxN, k, c))
		}
		if rep.Thorough() {
			rep.Exhaustive(test)
		}
		_ = q
	})
}

// TestC08_TruncSweep: a valid stream cut at every byte offset is an error for every decoder and every
// reader chunking (never a panic, never a silent success), with all available bytes consumed; and a
// length prefix that announces more elements than the data holds is an error.
func TestC08_TruncSweep(t *testing.T) {
	forFields(t, func(t *testing.T, f inst.Field) {
		q := f.Q()
		B := f.Bytes()
		name := f.Name()
		test := "C08_TruncSweep/" + name
		var cuts, prefixes int64
		kinds := []string{"whole", "onebyte", "half", "dataerr", "chunks", "dataerr+chunks"}
		for _, n := range []int{0, 1, 2, 3, 16, 17, 33} {
			vals := sweepValues(f, n)
			full := refEncode(B, uint32(n), vals)
			for off := 0; off < len(full); off++ {
				stream := full[:off]
				rk := kinds[off%len(kinds)]
				chunks := []int{1 + off%7, 3, 1 + B/2}
				mk := func() io.Reader { return buildReader(rk, stream, chunks) }
				exp := refDecode(q, B, stream)
				if exp.ok {
					t.Fatalf("harness error: truncated stream judged valid")
				}
				decodeAll(t, f, stream, mk, exp, rk, fmt.Sprintf("n=%d cut at %d/%d reader=%s", n, off, len(full), rk))
				cuts++
			}
			for _, p := range []int{n + 1, n + 2, 2*n + 1, 1 << 16, 1 << 20, maxPrefix} {
				stream := append(refEncode(B, uint32(p), nil), full[4:]...)
				mk := func() io.Reader { return bytes.NewReader(stream) }
				exp := refDecode(q, B, stream)
				if exp.ok {
					t.Fatalf("harness error: over-announced stream judged valid")
				}
				decodeAll(t, f, stream, mk, exp, "whole", fmt.Sprintf("n=%d prefix=%d", n, p))
				prefixes++
			}
		}
		rep.Count(test, "sweep:truncated_at_every_offset", cuts, cuts, fmt.Sprintf("%s: n in {0,1,2,3,16,17,33}, every cut offset, 6 reader behaviours: %d streams x 3 decoders", name, cuts))
		rep.Count(test, "sweep:prefix_larger_than_data", prefixes, prefixes, fmt.Sprintf("%s: prefixes n+1,n+2,2n+1,2^16,2^20,2^22 over n elements: %d streams x 3 decoders", name, prefixes))
		rep.Exhaustive(test)
	})
}
