package c08

import (
	"bytes"
	"errors"
	"fmt"
	"io"
	"math/big"
	"testing"

	"verif/harness/internal/inst"
	"verif/harness/internal/rep"
)

// Vector serialisation under faults. Vector documents that it implements io.WriterTo / io.ReaderFrom, so:
//
//	(a) whenever a Write call of the sink returned an error (or a short count), WriteTo returns a non-nil error;
//	(b) whenever WriteTo returns nil, the bytes the sink accepted are the reference encoding and decode
//	    (ReadFrom / AsyncReadFrom / UnmarshalBinary) to the same vector;
//	(c) the returned n is the number of bytes the sink accepted ("the number of bytes written");
//	(d) a fault that is never reached causes no error;
//
// and on the reader side: a Read call that failed (once, then the reader recovers) makes ReadFrom /
// AsyncReadFrom return a non-nil error — never nil with a wrong vector.

var errFault = errors.New("injected fault")

// faultSink fails at its k-th Write call (1-based):
//
//	"perm"    the k-th and every later call accept nothing and return an error
//	"once"    only the k-th call fails (accepting nothing); later calls succeed again (transient fault)
//	"partial" only the k-th call fails, after accepting half of the bytes
//	"short"   only the k-th call is short: it accepts half of the bytes and returns io.ErrShortWrite
type faultSink struct {
	mode     string
	k        int
	calls    int
	faulted  bool
	accepted bytes.Buffer
}

var sinkModes = []string{"perm", "once", "partial", "short"}

func (s *faultSink) Write(p []byte) (int, error) {
	s.calls++
	hit := s.calls == s.k || (s.mode == "perm" && s.calls > s.k)
	if !hit {
		s.accepted.Write(p)
		return len(p), nil
	}
	s.faulted = true
	switch s.mode {
	case "partial":
		s.accepted.Write(p[:len(p)/2])
		return len(p) / 2, errFault
	case "short":
		s.accepted.Write(p[:len(p)/2])
		return len(p) / 2, io.ErrShortWrite
	}
	return 0, errFault
}

// checkWriteToFault runs WriteTo into a faulty sink and asserts (a)-(d). want is the reference encoding,
// verify checks a decoded vector against the original (nil = element-by-element through math/big).
func checkWriteToFault(t tb, f inst.Field, vec inst.Vec, vals []*big.Int, want []byte, mode string, k int, verify func(string, inst.Vec)) (faulted bool) {
	name := f.Name()
	sink := &faultSink{mode: mode, k: k}
	what := fmt.Sprintf("WriteTo(n=%d) into a sink with fault %q at Write call #%d", len(vals), mode, k)
	n, err := vec.WriteTo(sink)
	acc := sink.accepted.Bytes()
	if sink.faulted && err == nil && !bytes.Equal(acc, want) { // a failure that cost data must be reported
		t.Fatalf("%s: %s: the sink reported a failed/short Write (call %d of %d) but WriteTo returned a nil error; the sink holds %d of %d bytes",
			name, what, k, sink.calls, len(acc), len(want))
	}
	if !sink.faulted && err != nil {
		t.Fatalf("%s: %s: no Write call failed (%d calls) but WriteTo returned %v", name, what, sink.calls, err)
	}
	// the count returned TOGETHER WITH an error is outside C08's statement (round trips, no panics): only the
	// success path is asserted
	if err == nil && n != int64(len(acc)) {
		t.Fatalf("%s: %s: returned n=%d and a nil error but the sink accepted %d bytes", name, what, n, len(acc))
	}
	if err == nil {
		if !bytes.Equal(acc, want) {
			t.Fatalf("%s: %s: WriteTo returned nil but the sink holds %d bytes that differ from the reference encoding (%d bytes)", name, what, len(acc), len(want))
		}
		mk := func() io.Reader { return bytes.NewReader(acc) }
		decodeAllV(t, f, acc, mk, refOutcome{ok: true, syncN: int64(len(acc)), asyncN: int64(len(acc)), vals: vals}, "whole", what, verify)
	}
	return sink.faulted
}

// faultReader fails once, at its k-th Read call, returning no data; later calls succeed again.
type faultReader struct {
	r     io.Reader
	k     int
	calls int
	fired bool
}

func (r *faultReader) Read(p []byte) (int, error) {
	r.calls++
	if r.calls == r.k {
		r.fired = true
		return 0, errFault
	}
	return r.r.Read(p)
}

// checkReadFault decodes a valid stream through a reader with a transient fault at Read call k.
func checkReadFault(t tb, f inst.Field, stream []byte, vals []*big.Int, k int, inner string, verify func(string, inst.Vec)) (fired bool) {
	name := f.Name()
	check := func(what string, v inst.Vec) {
		if verify != nil {
			verify(what, v)
		} else {
			checkDecoded(t, f, what, v, vals)
		}
	}
	for _, dec := range []string{"ReadFrom", "AsyncReadFrom"} {
		fr := &faultReader{r: buildReader(inner, stream, []int{3, 1 + f.Bytes()/2, 7}), k: k}
		cr := &countingReader{r: fr}
		what := fmt.Sprintf("%s(n=%d, %s reader failing once at Read call #%d)", dec, len(vals), inner, k)
		v := f.NewVec(2)
		var n int64
		var err, verr error
		if dec == "ReadFrom" {
			n, err = v.ReadFrom(cr)
		} else {
			var ch chan error
			n, err, ch = v.AsyncReadFrom(cr)
			var done bool
			if verr, done = waitCh(ch); !done {
				t.Fatalf("%s: %s: validation channel neither delivered nor closed within 60s", name, what)
			}
		}
		if n != cr.n {
			t.Fatalf("%s: %s reported %d bytes but consumed %d", name, what, n, cr.n)
		}
		if fr.fired {
			if err == nil {
				t.Fatalf("%s: %s: a Read call failed but the decoder returned a nil error (validation=%v, %d elements)", name, what, verr, v.Len())
			}
			fired = true
			continue
		}
		if err != nil || verr != nil {
			t.Fatalf("%s: %s: the fault was never reached (%d Read calls) but the decoder failed: %v / %v", name, what, fr.calls, err, verr)
		}
		if n != int64(len(stream)) {
			t.Fatalf("%s: %s consumed %d bytes want %d", name, what, n, len(stream))
		}
		check(what, v)
	}
	return fired
}

// faultPositions returns the Write/Read call indices to fault for a vector of n elements: every position for
// short vectors; for long ones the first calls (an implementation that batches makes few calls), the last ones
// (one call per element) and a spread in between.
func faultPositions(n int) []int {
	if n <= 40 {
		ks := make([]int, 0, n+3)
		for k := 1; k <= n+3; k++ {
			ks = append(ks, k)
		}
		return ks
	}
	ks := []int{1, 2, 3, 4, 5, 6, 7, 8, 9, 10, 16, 17, 64, 65, n / 4, n / 2, n/2 + 1, 255, 256, 257, 258, 511, 512, 513, 514, 1024, 1025, 1026, n - 1, n, n + 1, n + 2}
	out := ks[:0]
	seen := map[int]bool{}
	for _, k := range ks {
		if k >= 1 && k <= n+2 && !seen[k] {
			seen[k] = true
			out = append(out, k)
		}
	}
	return out
}

var faultLens = []int{63, 64, 65, 127, 128, 129, 255, 256, 257, 300, 511, 512, 513, 600, 767, 768, 769, 1023, 1024, 1025, 1100}

// TestC08_FaultSweep: fault-injecting sinks and readers on the vector codec, for every length 0..40 at every
// call position and for lengths up to 1100 (across the 256/512/1024-element thresholds) at sampled positions.
func TestC08_FaultSweep(t *testing.T) {
	forFields(t, func(t *testing.T, f inst.Field) {
		B := f.Bytes()
		name := f.Name()
		test := "C08_FaultSweep/" + name
		counts := map[string]int64{}
		lens := seq(41)
		lens = append(lens, faultLens...)
		for _, n := range lens {
			vals := sweepValues(f, n)
			vec := f.NewVec(n)
			for i, v := range vals {
				vec.At(i).SetBig(v)
			}
			for i, v := range vals { // verified once per length through math/big
				checkVal(t, f, fmt.Sprintf("SetBigInt [%d/%d]", i, n), vec.At(i), v)
			}
			want := refEncode(B, uint32(n), vals)
			verify := func(what string, v inst.Vec) {
				if v.Len() != n {
					t.Fatalf("%s: %s: decoded length %d want %d", name, what, v.Len(), n)
				}
				for i := 0; i < n; i++ {
					if !v.At(i).Equal(vec.At(i)) {
						t.Fatalf("%s: %s: element %d differs from the written vector", name, what, i)
					}
				}
			}
			// no fault at all: the honest round trip through the sink
			if checkWriteToFault(t, f, vec, vals, want, "once", 0, verify) {
				t.Fatalf("harness error: fault fired with k=0")
			}
			for _, k := range faultPositions(n) {
				for _, mode := range sinkModes {
					if checkWriteToFault(t, f, vec, vals, want, mode, k, verify) {
						counts["sink_"+mode]++
					} else {
						counts["sink_fault_not_reached"]++
					}
				}
				inner := []string{"whole", "onebyte", "chunks", "dataerr"}[(k+n)%4]
				if n > 64 && inner == "onebyte" {
					inner = "chunks" // keep long vectors cheap
				}
				if checkReadFault(t, f, want, vals, k, inner, verify) {
					counts["reader_fail_once"]++
				} else {
					counts["reader_fault_not_reached"]++
				}
			}
		}
		names := make([]string, 0, len(counts))
		for k := range counts {
			names = append(names, k)
		}
		sortStrings(names)
		for _, k := range names {
			c := counts[k]
			rep.Count(test, "sweep:"+k, c, c, fmt.Sprintf("%s: vector lengths 0..40 (every call position) and %v (sampled positions): %d runs of class %s", name, faultLens, c, k))
		}
	})
}
