package c08

import (
	"bytes"
	"encoding/binary"
	"fmt"
	"io"
	"math/big"
	"os"
	"os/exec"
	"path/filepath"
	"regexp"
	"runtime"
	"strconv"
	"strings"
	"testing"

	"verif/harness/internal/inst"
	"verif/harness/internal/rep"
)

// Native fuzz targets (fuzzed in the thorough tier only, through TestC08_NativeFuzz below). The oracle lives inside
// the target, so a coverage-guided mutation that breaks "accept <=> exact length and value < q" or the
// byte accounting is a crash. In the quick tier only the seed corpus (hostile constants) is executed.

func fuzzField(sel uint8) inst.Field {
	fs := inst.Fields()
	return fs[int(sel)%len(fs)]
}

// FuzzC08_SetBytesCanonical: bytes -> every byte-level element decoder of one field.
func FuzzC08_SetBytesCanonical(f *testing.F) {
	for i, fd := range inst.Fields() {
		B := fd.Bytes()
		_, hv := hostile(fd)
		for _, v := range hv {
			if v.BitLen() <= 8*B {
				f.Add(uint8(i), be(v, B))
			}
			f.Add(uint8(i), v.Bytes())
		}
		f.Add(uint8(i), []byte{})
		f.Add(uint8(i), bytes.Repeat([]byte{0xff}, 2*B+1))
	}
	f.Fuzz(func(t *testing.T, sel uint8, data []byte) {
		fd := fuzzField(sel)
		q := fd.Q()
		B := fd.Bytes()
		v := new(big.Int).SetBytes(data)
		valid := len(data) == B && v.Cmp(q) < 0
		z := poison(fd)
		err := z.SetBytesCanonical(data)
		if (err == nil) != valid {
			t.Fatalf("%s: SetBytesCanonical(%x): err=%v but (len==Bytes && value<q)=%v", fd.Name(), data, err, valid)
		}
		if valid {
			checkVal(t, fd, fmt.Sprintf("SetBytesCanonical(%x)", data), z, v)
		}
		if len(data) == B {
			for _, le := range []bool{false, true} {
				in := append([]byte(nil), data...)
				w := v
				if le {
					w = new(big.Int).SetBytes(rev(data))
				}
				z := poison(fd)
				var err error
				if le {
					err = z.LEGet(in)
				} else {
					err = z.BEGet(in)
				}
				if (err == nil) != (w.Cmp(q) < 0) {
					t.Fatalf("%s: ByteOrder.Element(le=%v, %x): err=%v but value<q is %v", fd.Name(), le, in, err, w.Cmp(q) < 0)
				}
				if err == nil {
					checkVal(t, fd, fmt.Sprintf("ByteOrder.Element(le=%v, %x)", le, in), z, w)
				}
			}
		}
		checkVal(t, fd, fmt.Sprintf("SetBytes(%x)", data), poison(fd).SetBytes(data), mod(v, q))
		rep.Case("C08_FuzzSetBytes", fmt.Sprintf("%s %x", fd.Name(), data), !valid || len(data) != B, "fuzz:setbytes")
	})
}

// fuzzMaxPrefix keeps fuzz executions cheap (the decoders allocate the announced length up front).
const fuzzMaxPrefix = 1 << 16

// FuzzC08_VectorReadFrom: bytes -> the three vector decoders of one field through a chunked reader.
func FuzzC08_VectorReadFrom(f *testing.F) {
	for i, fd := range inst.Fields() {
		B := fd.Bytes()
		q := fd.Q()
		ok := []*big.Int{bi(0), new(big.Int).Sub(q, bi(1)), bi(1)}
		f.Add(uint8(i), uint8(0), refEncode(B, 3, ok))
		f.Add(uint8(i), uint8(1), refEncode(B, 3, []*big.Int{bi(0), q, bi(1)}))
		f.Add(uint8(i), uint8(3), refEncode(B, 2, []*big.Int{bi(5), new(big.Int).Sub(pow2(8*B), bi(1))}))
		f.Add(uint8(i), uint8(7), refEncode(B, 4, ok))      // announces more than it holds
		f.Add(uint8(i), uint8(2), refEncode(B, 3, ok)[:4+B+1]) // cut inside an element
		f.Add(uint8(i), uint8(0), []byte{0, 0, 0, 0})
		f.Add(uint8(i), uint8(0), []byte{0, 0, 0})
		f.Add(uint8(i), uint8(0), []byte{0, 1, 0, 0})
	}
	f.Fuzz(func(t *testing.T, sel uint8, chunk uint8, data []byte) {
		fd := fuzzField(sel)
		if len(data) >= 4 && binary.BigEndian.Uint32(data) > fuzzMaxPrefix {
			t.Skip("length prefix above the fuzzing resource guard")
		}
		exp := refDecode(fd.Q(), fd.Bytes(), data)
		kinds := []string{"whole", "onebyte", "half", "chunks", "dataerr", "dataerr+chunks"}
		rk := kinds[int(chunk)%len(kinds)]
		chunks := []int{1 + int(chunk)/len(kinds), 3, 1 + fd.Bytes()/2}
		mk := func() io.Reader { return buildReader(rk, data, chunks) }
		what := fmt.Sprintf("fuzz reader=%s %x", rk, data)
		if len(what) > 600 {
			what = what[:600] + "…"
		}
		decodeAll(t, fd, data, mk, exp, rk, what)
		rep.Case("C08_FuzzVector", fd.Name()+" "+what, !exp.ok, "fuzz:vector", "fuzz:vector:"+map[bool]string{true: "accept", false: "reject"}[exp.ok])
	})
}

// TestC08_NativeFuzz (thorough tier) runs one fuzz target with coverage guidance. The driver's test
// binaries are built without fuzz instrumentation, so the campaign is run through `go test -fuzz` on the
// package (instrumented build, cached by the go tool) in a child process; a crasher makes this test fail,
// and the failing input is kept under c08/testdata/fuzz/<target>/ where it is re-executed as a seed by
// every later run (quick tier included).
//
//	VERIF_C08_FUZZ      target name (FuzzC08_SetBytesCanonical | FuzzC08_VectorReadFrom)
//	VERIF_C08_FUZZTIME  go duration, default 60s
func TestC08_NativeFuzz(t *testing.T) {
	target := os.Getenv("VERIF_C08_FUZZ")
	if target == "" || !rep.Thorough() {
		t.Skip("native fuzzing runs in the thorough tier only (VERIF_C08_FUZZ selects the target)")
	}
	dur := os.Getenv("VERIF_C08_FUZZTIME")
	if dur == "" {
		dur = "60s"
	}
	_, file, _, _ := runtime.Caller(0)
	pkgDir := filepath.Dir(file)
	cmd := exec.Command("go", "test", "-vet=off", "-run", "^$", "-fuzz", "^"+target+"$", "-fuzztime", dur, ".")
	cmd.Dir = pkgDir
	for _, e := range os.Environ() {
		if !strings.HasPrefix(e, "VERIF_REPORT=") {
			cmd.Env = append(cmd.Env, e)
		}
	}
	out, err := cmd.CombinedOutput()
	s := string(out)
	var execs, interesting int64
	for _, m := range regexp.MustCompile(`execs: (\d+) \(\d+/sec\), new interesting: \d+ \(total: (\d+)\)`).FindAllStringSubmatch(s, -1) {
		execs, _ = strconv.ParseInt(m[1], 10, 64)
		interesting, _ = strconv.ParseInt(m[2], 10, 64)
	}
	tail := s
	if len(tail) > 3000 {
		tail = tail[len(tail)-3000:]
	}
	test := "C08_NativeFuzz/" + target
	if strings.Contains(s, "--- FAIL") || strings.Contains(s, "panic:") || strings.Contains(s, "Failing input written") {
		t.Fatalf("native fuzzing of %s found a failing input (%v):\n%s", target, err, tail)
	}
	if err != nil || execs == 0 {
		// tool-chain / machine problem (no go command, build error, killed): not a verdict on the library
		rep.Note(test, fmt.Sprintf("native fuzzing of %s could not run (%v); no fuzzing evidence from this run", target, err))
		t.Skipf("native fuzzing of %s could not run (%v):\n%s", target, err, tail)
	}
	rep.Count(test, "fuzz:execs:"+target, execs, interesting,
		fmt.Sprintf("%s: %d coverage-guided executions in %s, corpus of %d coverage-distinct inputs (counted as distinct)", target, execs, dur, interesting))
}
