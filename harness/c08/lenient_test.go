package c08

import (
	"fmt"
	"math/big"
	"reflect"
	"strings"
	"testing"

	"pgregory.net/rapid"

	"verif/harness/internal/inst"
	"verif/harness/internal/rep"
)

// ---- reference numeral parser, written from the SetString doc comment ---------------------------
//
//	[sign] [prefix] digits-with-underscores
//
// prefix 0b/0B -> 2, 0o/0O or a bare leading 0 -> 8, 0x/0X -> 16, none -> 10. An underscore may
// appear between a prefix and a digit and between successive digits. Anything else is invalid.
func refParse(s string) (*big.Int, bool) {
	neg := false
	if len(s) > 0 && (s[0] == '+' || s[0] == '-') {
		neg = s[0] == '-'
		s = s[1:]
	}
	base := 10
	prevDigit := false // an underscore is allowed after the previous character
	ndigits := 0
	switch {
	case len(s) >= 2 && s[0] == '0' && (s[1] == 'b' || s[1] == 'B'):
		base, s, prevDigit = 2, s[2:], true
	case len(s) >= 2 && s[0] == '0' && (s[1] == 'o' || s[1] == 'O'):
		base, s, prevDigit = 8, s[2:], true
	case len(s) >= 2 && s[0] == '0' && (s[1] == 'x' || s[1] == 'X'):
		base, s, prevDigit = 16, s[2:], true
	case len(s) >= 2 && s[0] == '0':
		base, s, prevDigit, ndigits = 8, s[1:], true, 1
	}
	v := new(big.Int)
	for i := 0; i < len(s); i++ {
		c := s[i]
		if c == '_' {
			if !prevDigit || i+1 >= len(s) || s[i+1] == '_' {
				return nil, false
			}
			prevDigit = false
			continue
		}
		d := -1
		switch {
		case c >= '0' && c <= '9':
			d = int(c - '0')
		case c >= 'a' && c <= 'f':
			d = int(c-'a') + 10
		case c >= 'A' && c <= 'F':
			d = int(c-'A') + 10
		}
		if d < 0 || d >= base {
			return nil, false
		}
		v.Mul(v, bi(int64(base)))
		v.Add(v, bi(int64(d)))
		prevDigit = true
		ndigits++
	}
	if ndigits == 0 || !prevDigit {
		return nil, false
	}
	if neg {
		v.Neg(v)
	}
	return v, true
}

// numeral renders n as a SetString-acceptable numeral with a drawn sign spelling, base prefix, digit
// case and (valid) underscore placement.
func numeral(t *rapid.T, n *big.Int, label string) (string, string) {
	base := rapid.SampledFrom([]int{2, 8, 10, 16}).Draw(t, label+"base")
	pf := prefixes[base]
	p := pf[rapid.IntRange(0, len(pf)-1).Draw(t, label+"pf")]
	digits := new(big.Int).Abs(n).Text(base)
	cls := fmt.Sprintf("str:base%d", base)
	if base == 16 && rapid.Bool().Draw(t, label+"upper") {
		digits = strings.ToUpper(digits)
	}
	if rapid.IntRange(0, 2).Draw(t, label+"us") == 0 {
		// underscores between successive digits (and, with a prefix, after the prefix)
		var sb strings.Builder
		for i := 0; i < len(digits); i++ {
			if (i > 0 || p != "") && rapid.IntRange(0, 3).Draw(t, label+"u") == 0 {
				sb.WriteByte('_')
			}
			sb.WriteByte(digits[i])
		}
		digits = sb.String()
		cls += ",underscores"
	}
	sign := ""
	if n.Sign() < 0 {
		sign = "-"
	} else if rapid.IntRange(0, 4).Draw(t, label+"plus") == 0 {
		sign = "+"
		cls += ",plus"
	}
	if p == "0" {
		cls += ",bare0"
	}
	return sign + p + digits, cls
}

// unsupported values for SetInterface: types that are neither in the documented list nor handled.
type stringer struct{}

func (stringer) String() string { return "1" }

func unsupportedValues(f inst.Field) map[string]interface{} {
	one := uint64(1)
	s := "1"
	bs := []byte{1}
	m := map[string]interface{}{
		"nil":          nil,
		"float64":      float64(1),
		"float32":      float32(1),
		"bool":         true,
		"struct":       struct{}{},
		"[]int":        []int{1},
		"[]uint64":     []uint64{1},
		"map":          map[string]int{"a": 1},
		"uintptr":      uintptr(1),
		"complex128":   complex(1, 0),
		"*uint64":      &one,
		"*string":      &s,
		"*[]byte":      &bs,
		"[4]uint64":    [4]uint64{1},
		"[32]byte":     [32]byte{1},
		"rune-slice":   []rune("1"),
		"Stringer":     stringer{},
		"*big.Float":   big.NewFloat(1),
		"*big.Rat":     big.NewRat(1, 1),
		"nil *big.Int": (*big.Int)(nil),
		"nil *Element": reflect.Zero(reflect.TypeOf(f.New().Native())).Interface(),
	}
	// an Element of another field is not this package's Element
	for _, g := range inst.Fields() {
		if elemType(g) != elemType(f) {
			e := g.FromBig(bi(1))
			m["foreign *Element"] = e.Native()
			m["foreign Element"] = reflect.ValueOf(e.Native()).Elem().Interface()
			break
		}
	}
	return m
}

var lenientOps = []string{"SetBytes", "SetBytes", "Unmarshal", "SetBigInt", "SetBigInt", "SetInt64", "SetUint64", "SetString", "SetString", "SetInterface", "SetInterface"}

// drawBytes draws a byte string of any length 0..2*Bytes+1 (and longer) for the lenient byte setters.
func drawBytes(t *rapid.T, f inst.Field, label string) ([]byte, string) {
	B := f.Bytes()
	lenOf := func() int {
		switch rapid.IntRange(0, 4).Draw(t, label+"lc") {
		case 0:
			return rapid.SampledFrom([]int{0, 1, B - 1, B, B + 1, 2 * B, 2*B + 1}).Draw(t, label+"len")
		case 1:
			return B
		case 2:
			return rapid.IntRange(2*B+2, rep.Scale(5, 40)*B+9).Draw(t, label+"len")
		default:
			return rapid.IntRange(0, 2*B+1).Draw(t, label+"len")
		}
	}
	switch rapid.IntRange(0, 5).Draw(t, label+"k") {
	case 0: // hostile constant, minimal encoding, left-padded with zeros
		n, v := hostile(f)
		i := rapid.IntRange(0, len(n)-1).Draw(t, label+"h")
		raw := v[i].Bytes()
		pad := rapid.SampledFrom([]int{0, 0, 1, B - len(raw), 2*B + 1 - len(raw), B + 1 - len(raw)}).Draw(t, label+"pad")
		if pad < 0 {
			pad = 0
		}
		return append(make([]byte, pad), raw...), "bytes:" + n[i]
	case 1: // integer lattice (wide), minimal encoding
		v, c := drawInt(t, f, label)
		return new(big.Int).Abs(v).Bytes(), "bytes:int/" + strings.TrimPrefix(c, "neg_")
	case 2:
		n := lenOf()
		b := make([]byte, n)
		for i := range b {
			b[i] = 0xff
		}
		return b, "bytes:ones"
	case 3:
		return make([]byte, lenOf()), "bytes:zeros"
	case 4: // exact length around q
		v, c := drawEnc(t, f, label)
		return be(v, B), "bytes:" + c
	default:
		n := lenOf()
		return rapid.SliceOfN(rapid.Byte(), n, n).Draw(t, label+"rb"), "bytes:random"
	}
}

func lenClass(f inst.Field, n int) string {
	B := f.Bytes()
	switch {
	case n == 0:
		return "len=0"
	case n < B:
		return "len<B"
	case n == B:
		return "len=B"
	case n == B+1:
		return "len=B+1"
	case n <= 2*B:
		return "len<=2B"
	case n == 2*B+1:
		return "len=2B+1"
	default:
		return "len>2B+1"
	}
}

// propLenient: every lenient setter produces v mod q (math/big), in canonical form, for inputs of any
// sign, size and length, and leaves its argument unchanged.
func propLenient(t *rapid.T, f inst.Field) {
	q := f.Q()
	name := f.Name()
	test := "C08_Lenient/" + name
	op := rapid.SampledFrom(lenientOps).Draw(t, "op")
	z := poison(f)
	switch op {
	case "SetBytes", "Unmarshal":
		b, c := drawBytes(t, f, "b")
		orig := append([]byte(nil), b...)
		want := mod(new(big.Int).SetBytes(b), q)
		if op == "SetBytes" {
			z.SetBytes(b)
		} else {
			z.Unmarshal(b)
		}
		checkVal(t, f, fmt.Sprintf("%s(%x)", op, orig), z, want)
		if string(orig) != string(b) {
			t.Fatalf("%s: %s modified its input", name, op)
		}
		iv := new(big.Int).SetBytes(b)
		nt := len(b) != f.Bytes() || iv.Cmp(q) >= 0
		_, vc := intClasses(f, iv)
		rep.Case(test, fmt.Sprintf("%s %s %x", name, op, orig), nt, append(vc, op, c, lenClass(f, len(b)))...)
	case "SetBigInt":
		v, c := drawInt(t, f, "v")
		orig := new(big.Int).Set(v)
		z.SetBig(v)
		checkVal(t, f, fmt.Sprintf("SetBigInt(%s)", orig), z, mod(orig, q))
		if v.Cmp(orig) != 0 {
			t.Fatalf("%s: SetBigInt modified its argument %s -> %s", name, orig, v)
		}
		nt, vc := intClasses(f, orig)
		rep.Case(test, fmt.Sprintf("%s SetBigInt %s", name, orig.Text(16)), nt, append(vc, op, "int:"+c)...)
	case "SetInt64":
		q63 := int64(q.Uint64() & (1<<63 - 1))
		v := rapid.OneOf(rapid.Int64(), rapid.SampledFrom([]int64{0, 1, -1, -2, 1<<31 - 1, 1 << 31, -1 << 31, 1<<32 - 1, 1 << 32, -1 << 32,
			1<<63 - 1, -1 << 63, -1<<63 + 1, q63, -q63, q63 - 1, q63 + 1, -q63 - 1, -q63 + 1, -65535, -65536})).Draw(t, "v")
		z.SetInt64(v)
		checkVal(t, f, fmt.Sprintf("SetInt64(%d)", v), z, mod(bi(v), q))
		_, vc := intClasses(f, bi(v))
		rep.Case(test, fmt.Sprintf("%s SetInt64 %d", name, v), true, append(vc, op)...)
	case "SetUint64":
		q64 := q.Uint64()
		v := rapid.OneOf(rapid.Uint64(), rapid.SampledFrom([]uint64{0, 1, 1<<31 - 1, 1 << 31, 1<<32 - 1, 1 << 32, 1<<63 - 1, 1 << 63, ^uint64(0), ^uint64(0) - 1,
			q64, q64 - 1, q64 + 1, 2 * q64, 2*q64 - 1, 2*q64 + 1})).Draw(t, "v")
		z.SetUint64(v)
		want := mod(new(big.Int).SetUint64(v), q)
		checkVal(t, f, fmt.Sprintf("SetUint64(%d)", v), z, want)
		checkVal(t, f, fmt.Sprintf("NewElement(%d)", v), f.NewElement(v), want)
		_, vc := intClasses(f, new(big.Int).SetUint64(v))
		rep.Case(test, fmt.Sprintf("%s SetUint64 %d", name, v), true, append(vc, op)...)
	case "SetString":
		n, c := drawInt(t, f, "n")
		s, sc := numeral(t, n, "s")
		// the numeral must denote n under the reference parser (harness self-check, not a library check)
		if pv, ok := refParse(s); !ok || pv.Cmp(n) != 0 {
			t.Fatalf("harness error: refParse(%q)=%v,%v want %s", s, pv, ok, n)
		}
		if err := z.SetString(s); err != nil {
			t.Fatalf("%s: SetString(%q) failed: %v", name, s, err)
		}
		checkVal(t, f, fmt.Sprintf("SetString(%q)", s), z, mod(n, q))
		nt, vc := intClasses(f, n)
		rep.Case(test, fmt.Sprintf("%s SetString %s", name, s), nt || strings.Contains(sc, ","), append(vc, op, sc, "int:"+c)...)
	case "SetInterface":
		propSetInterface(t, f, z)
	}
}

func propSetInterface(t *rapid.T, f inst.Field, z inst.E) {
	q := f.Q()
	name := f.Name()
	test := "C08_Lenient/" + name
	kind := rapid.SampledFrom([]string{"Element", "*Element", "uint64", "int", "string", "*big.Int", "big.Int", "[]byte",
		"small-int-types", "unsupported", "unsupported"}).Draw(t, "itype")
	var arg interface{}
	var want *big.Int
	key := ""
	documented := true
	switch kind {
	case "Element", "*Element":
		v, _ := drawVal(t, f, "v")
		e := f.FromBig(v)
		if kind == "Element" {
			arg = reflect.ValueOf(e.Native()).Elem().Interface()
		} else {
			arg = e.Native()
		}
		want, key = v, v.Text(16)
	case "uint64":
		v := rapid.OneOf(rapid.Uint64(), rapid.SampledFrom([]uint64{0, 1, ^uint64(0), q.Uint64(), q.Uint64() + 1, 1 << 63})).Draw(t, "v")
		arg, want, key = v, mod(new(big.Int).SetUint64(v), q), fmt.Sprint(v)
	case "int":
		v := rapid.OneOf(rapid.Int(), rapid.SampledFrom([]int{0, 1, -1, -65535, -65536, 1<<63 - 1, -1 << 63})).Draw(t, "v")
		arg, want, key = v, mod(bi(int64(v)), q), fmt.Sprint(v)
	case "string":
		n, _ := drawInt(t, f, "n")
		s, _ := numeral(t, n, "s")
		arg, want, key = s, mod(n, q), s
	case "*big.Int", "big.Int":
		n, _ := drawInt(t, f, "n")
		if kind == "big.Int" {
			arg = *new(big.Int).Set(n)
		} else {
			arg = new(big.Int).Set(n)
		}
		want, key = mod(n, q), n.Text(16)
	case "[]byte":
		b, _ := drawBytes(t, f, "b")
		arg, want, key = b, mod(new(big.Int).SetBytes(b), q), fmt.Sprintf("%x", b)
	case "small-int-types":
		// handled by the switch but absent from the documented list: only "nil error => right value"
		documented = false
		v := rapid.Int64().Draw(t, "v")
		var n int64
		switch rapid.IntRange(0, 7).Draw(t, "w") {
		case 0:
			arg, n = uint8(v), int64(uint8(v))
		case 1:
			arg, n = uint16(v), int64(uint16(v))
		case 2:
			arg, n = uint32(v), int64(uint32(v))
		case 3:
			arg, n = int8(v), int64(int8(v))
		case 4:
			arg, n = int16(v), int64(int16(v))
		case 5:
			arg, n = int32(v), int64(int32(v))
		case 6:
			arg, n = v, v
		default:
			arg, n = uint(uint32(v)), int64(uint32(v))
		}
		want, key = mod(bi(n), q), fmt.Sprintf("%T(%d)", arg, n)
	default:
		m := unsupportedValues(f)
		names := make([]string, 0, len(m))
		for k := range m {
			names = append(names, k)
		}
		sortStrings(names)
		k := rapid.SampledFrom(names).Draw(t, "utype")
		err := z.SetInterface(m[k])
		if err == nil {
			t.Fatalf("%s: SetInterface(%s) (type not in the documented list) returned no error", name, k)
		}
		rep.Case(test, name+" SetInterface unsupported "+k, true, "SetInterface", "iface:unsupported", "iface:unsupported/"+k)
		return
	}
	err := z.SetInterface(arg)
	if err != nil {
		if documented {
			t.Fatalf("%s: SetInterface(%s %s) failed: %v", name, kind, key, err)
		}
		rep.Case(test, name+" SetInterface "+kind+" "+key, true, "SetInterface", "iface:"+kind, "iface:undocumented_rejected")
		return
	}
	checkVal(t, f, fmt.Sprintf("SetInterface(%s %s)", kind, key), z, want)
	rep.Case(test, name+" SetInterface "+kind+" "+key, true, "SetInterface", "iface:"+kind)
}

func sortStrings(s []string) {
	for i := 1; i < len(s); i++ {
		for j := i; j > 0 && s[j] < s[j-1]; j-- {
			s[j], s[j-1] = s[j-1], s[j]
		}
	}
}

func TestC08_Lenient(t *testing.T) {
	forFields(t, func(t *testing.T, f inst.Field) {
		rapid.Check(t, func(t *rapid.T) { propLenient(t, f) })
	})
}
