package c08

import (
	"bytes"
	"encoding/binary"
	"errors"
	"fmt"
	"io"
	"math/big"
	"testing"
	"testing/iotest"
	"time"

	"pgregory.net/rapid"

	"verif/harness/internal/inst"
	"verif/harness/internal/rep"
)

// maxPrefix is the resource guard of DESIGN C07/C08: the decoders allocate the announced length before
// reading, so larger prefixes depend on the allocator / OS overcommit and are not generated.
const maxPrefix = 1 << 22

// ---- reference codec ---------------------------------------------------------------------------

// refEncode is the documented wire format: uint32 big-endian length, then each element big-endian on
// Bytes bytes. vals may contain non-canonical integers (< 2^(8*Bytes)).
func refEncode(B int, prefix uint32, vals []*big.Int) []byte {
	out := make([]byte, 4, 4+len(vals)*B)
	binary.BigEndian.PutUint32(out, prefix)
	for _, v := range vals {
		out = append(out, be(v, B)...)
	}
	return out
}

// refOutcome is what a decoder must do on a stream, from the format description alone.
type refOutcome struct {
	ok       bool       // the call (and, for the async reader, the validation) must succeed
	syncN    int64      // bytes ReadFrom must report / consume
	asyncN   int64      // bytes AsyncReadFrom must report / consume
	asyncErr bool       // AsyncReadFrom must fail immediately (short stream), else through the channel
	vals     []*big.Int // decoded values when ok
	why      string
}

func refDecode(q *big.Int, B int, stream []byte) refOutcome {
	L := int64(len(stream))
	if L < 4 {
		return refOutcome{syncN: L, asyncN: L, asyncErr: true, why: "short_prefix"}
	}
	m := int64(binary.BigEndian.Uint32(stream))
	need := 4 + m*int64(B)
	o := refOutcome{ok: true, syncN: need, asyncN: need}
	// synchronous reader: element by element, stops at the first short read or invalid element
	for i := int64(0); i < m; i++ {
		end := 4 + (i+1)*int64(B)
		if end > L {
			o.ok, o.syncN, o.why = false, L, "short_data"
			break
		}
		v := new(big.Int).SetBytes(stream[end-int64(B) : end])
		if v.Cmp(q) >= 0 {
			o.ok, o.syncN, o.why = false, end, "invalid_entry"
			break
		}
		o.vals = append(o.vals, v)
	}
	// asynchronous reader: bulk read of the announced size first, validation afterwards
	if L < need {
		o.asyncErr, o.asyncN = true, L
		if o.why == "invalid_entry" {
			o.why = "short_data+invalid_entry"
		}
	}
	if !o.ok {
		o.vals = nil
	}
	return o
}

// ---- readers -----------------------------------------------------------------------------------

type countingReader struct {
	r io.Reader
	n int64
}

func (c *countingReader) Read(p []byte) (int, error) {
	n, err := c.r.Read(p)
	c.n += int64(n)
	return n, err
}

// chunkReader hands out the data in the given chunk sizes (cycled).
type chunkReader struct {
	data   []byte
	chunks []int
	i      int
}

func (c *chunkReader) Read(p []byte) (int, error) {
	if len(c.data) == 0 {
		return 0, io.EOF
	}
	if len(p) == 0 {
		return 0, nil
	}
	k := c.chunks[c.i%len(c.chunks)]
	c.i++
	if k > len(p) {
		k = len(p)
	}
	if k > len(c.data) {
		k = len(c.data)
	}
	n := copy(p, c.data[:k])
	c.data = c.data[n:]
	return n, nil
}

var readerKinds = []string{"whole", "whole", "onebyte", "half", "chunks", "dataerr", "dataerr+chunks", "timeout"}

// buildReader wraps data in the reader behaviour named by kind.
func buildReader(kind string, data []byte, chunks []int) io.Reader {
	switch kind {
	case "onebyte":
		return iotest.OneByteReader(bytes.NewReader(data))
	case "half":
		return iotest.HalfReader(bytes.NewReader(data))
	case "chunks":
		return &chunkReader{data: data, chunks: chunks}
	case "dataerr": // final data arrives together with io.EOF
		return iotest.DataErrReader(bytes.NewReader(data))
	case "dataerr+chunks":
		return iotest.DataErrReader(&chunkReader{data: data, chunks: chunks})
	case "timeout": // second Read fails with ErrTimeout
		return iotest.TimeoutReader(bytes.NewReader(data))
	default:
		return bytes.NewReader(data)
	}
}

// waitCh waits for the validation result of AsyncReadFrom (first value sent, or nil at close).
func waitCh(ch chan error) (error, bool) {
	select { // fast path: validation of small vectors is usually finished already
	case err := <-ch:
		return err, true
	default:
	}
	tm := time.NewTimer(60 * time.Second)
	defer tm.Stop()
	select {
	case err := <-ch:
		return err, true
	case <-tm.C:
		return nil, false
	}
}

// ---- generators --------------------------------------------------------------------------------

func drawLen(t *rapid.T) int {
	switch rapid.IntRange(0, 4).Draw(t, "lenclass") {
	case 0:
		return rapid.IntRange(0, 3).Draw(t, "n")
	case 1:
		return rapid.SampledFrom([]int{15, 16, 17, 31, 32, 33, 47, 48, 49, 63, 64, 65, 127, 128, 129, 255, 256, 257, 299, 300}).Draw(t, "n")
	case 2:
		return rapid.IntRange(0, 40).Draw(t, "n")
	default:
		return rapid.IntRange(0, 300).Draw(t, "n")
	}
}

func vecLenClass(n int) string {
	switch {
	case n == 0:
		return "n=0"
	case n == 1:
		return "n=1"
	case n < 16:
		return "n<16"
	case n <= 64:
		return "n<=64"
	default:
		return "n<=300"
	}
}

// drawValues draws n canonical values from a small pool of lattice values.
func drawValues(t *rapid.T, f inst.Field, n int) []*big.Int {
	k := rapid.IntRange(1, 5).Draw(t, "pool")
	pool := make([]*big.Int, k)
	for i := range pool {
		pool[i], _ = drawVal(t, f, "p")
	}
	idx := rapid.SliceOfN(rapid.IntRange(0, k-1), n, n).Draw(t, "idx")
	vals := make([]*big.Int, n)
	for i := range vals {
		vals[i] = pool[idx[i]]
	}
	return vals
}

// invalidKinds are the non-canonical entries of the quantifier: q, q+1, 2^(8B)-1, top byte patterns, and
// the per-limb neighbours of q.
func invalidEntry(t *rapid.T, f inst.Field) (*big.Int, string) {
	q := f.Q()
	B := f.Bytes()
	for {
		switch rapid.IntRange(0, 5).Draw(t, "inv") {
		case 0:
			return new(big.Int).Set(q), "bad=q"
		case 1:
			return new(big.Int).Add(q, bi(1)), "bad=q+1"
		case 2:
			return new(big.Int).Sub(pow2(8*B), bi(1)), "bad=2^(8B)-1"
		case 3: // top byte set, rest zero
			b := make([]byte, B)
			b[0] = rapid.SampledFrom([]byte{0x80, 0xff, be(q, B)[0] + 1}).Draw(t, "top")
			if v := new(big.Int).SetBytes(b); v.Cmp(q) >= 0 {
				return v, "bad=top_byte"
			}
		case 4:
			v := aroundQ(t, q, f.LimbBits(), f.NLimbs(), rapid.IntRange(0, f.NLimbs()-1).Draw(t, "limb"), "aq")
			if v.Cmp(q) >= 0 {
				return v, "bad=q_limb+1"
			}
		default:
			v := aroundQ(t, q, 8, B, rapid.IntRange(0, B-1).Draw(t, "byte"), "aq")
			if v.Cmp(q) >= 0 {
				return v, "bad=q_byte+1"
			}
		}
	}
}

// ---- the codec property ------------------------------------------------------------------------

func checkDecoded(t tb, f inst.Field, what string, v inst.Vec, want []*big.Int) {
	if v.Len() != len(want) {
		t.Fatalf("%s: %s: decoded length %d want %d", f.Name(), what, v.Len(), len(want))
	}
	for i := range want {
		checkVal(t, f, fmt.Sprintf("%s [%d/%d]", what, i, len(want)), v.At(i), want[i])
	}
}

// decodeAll runs the three decoders on stream (through the given reader constructor for the two
// streaming ones) and compares each with the reference outcome.
func decodeAll(t tb, f inst.Field, stream []byte, mk func() io.Reader, exp refOutcome, rkind string, what string) {
	decodeAllV(t, f, stream, mk, exp, rkind, what, nil)
}

// decodeAllV is decodeAll with a custom verifier of an accepted vector (used by the sweeps, which compare
// against an already verified vector instead of re-deriving every element through math/big).
func decodeAllV(t tb, f inst.Field, stream []byte, mk func() io.Reader, exp refOutcome, rkind string, what string, verify func(what string, v inst.Vec)) {
	name := f.Name()
	checkDecoded := func(t tb, f inst.Field, what string, v inst.Vec, want []*big.Int) {
		if verify != nil {
			verify(what, v)
			return
		}
		checkDecoded(t, f, what, v, want)
	}
	timeout := rkind == "timeout"
	plain := exp
	// the timeout reader fails every stream that needs a second Read call
	if timeout {
		if len(stream) >= 4 && binary.BigEndian.Uint32(stream) == 0 {
			exp = refOutcome{ok: true, syncN: 4, asyncN: 4}
		} else {
			exp.ok, exp.asyncErr, exp.vals, exp.why = false, true, nil, "reader_error"
		}
	}

	// ReadFrom
	{
		cr := &countingReader{r: mk()}
		v := f.NewVec(3)
		n, err := v.ReadFrom(cr)
		if (err == nil) != exp.ok {
			t.Fatalf("%s: ReadFrom(%s): err=%v but the stream is valid=%v (%s)", name, what, err, exp.ok, exp.why)
		}
		if n != cr.n {
			t.Fatalf("%s: ReadFrom(%s) reported %d bytes but consumed %d", name, what, n, cr.n)
		}
		if !timeout && n != exp.syncN {
			t.Fatalf("%s: ReadFrom(%s) consumed %d bytes, want %d (%s)", name, what, n, exp.syncN, exp.why)
		}
		if exp.ok {
			checkDecoded(t, f, "ReadFrom("+what+")", v, exp.vals)
		}
	}
	// AsyncReadFrom
	{
		cr := &countingReader{r: mk()}
		v := f.NewVec(3)
		n, err, ch := v.AsyncReadFrom(cr)
		if ch == nil {
			t.Fatalf("%s: AsyncReadFrom(%s) returned a nil channel", name, what)
		}
		verr, done := waitCh(ch)
		if !done {
			t.Fatalf("%s: AsyncReadFrom(%s): validation channel neither delivered nor closed within 60s", name, what)
		}
		if n != cr.n {
			t.Fatalf("%s: AsyncReadFrom(%s) reported %d bytes but consumed %d", name, what, n, cr.n)
		}
		if !timeout && n != exp.asyncN {
			t.Fatalf("%s: AsyncReadFrom(%s) consumed %d bytes, want %d (%s)", name, what, n, exp.asyncN, exp.why)
		}
		if exp.asyncErr && err == nil {
			t.Fatalf("%s: AsyncReadFrom(%s) returned no error on a short stream (%s)", name, what, exp.why)
		}
		if !exp.asyncErr && err != nil {
			t.Fatalf("%s: AsyncReadFrom(%s) failed immediately: %v (expected outcome through the channel; %s)", name, what, err, exp.why)
		}
		if (err == nil && verr == nil) != exp.ok {
			t.Fatalf("%s: AsyncReadFrom(%s): err=%v validation=%v but the stream is valid=%v (%s)", name, what, err, verr, exp.ok, exp.why)
		}
		if exp.ok {
			checkDecoded(t, f, "AsyncReadFrom("+what+")", v, exp.vals)
		}
	}
	// UnmarshalBinary (no reader involved)
	{
		v := f.NewVec(3)
		err := v.UnmarshalBinary(stream)
		if (err == nil) != plain.ok {
			t.Fatalf("%s: UnmarshalBinary(%s): err=%v but the data is valid=%v (%s)", name, what, err, plain.ok, plain.why)
		}
		if plain.ok {
			checkDecoded(t, f, "UnmarshalBinary("+what+")", v, plain.vals)
		}
	}
}

type failingWriter struct {
	left int
}

var errSink = errors.New("sink full")

func (w *failingWriter) Write(p []byte) (int, error) {
	if len(p) > w.left {
		n := w.left
		w.left = 0
		return n, errSink
	}
	w.left -= len(p)
	return len(p), nil
}

func propVectorCodec(t *rapid.T, f inst.Field) {
	q := f.Q()
	B := f.Bytes()
	name := f.Name()
	test := "C08_VectorCodec/" + name
	n := drawLen(t)
	vals := drawValues(t, f, n)
	cl := []string{vecLenClass(n)}

	// encode with the library, compare with the reference encoding
	vec := f.NewVec(n)
	for i, v := range vals {
		vec.At(i).SetBig(v)
	}
	want := refEncode(B, uint32(n), vals)
	var buf bytes.Buffer
	wn, err := vec.WriteTo(&buf)
	if err != nil || wn != int64(len(want)) || !bytes.Equal(buf.Bytes(), want) {
		t.Fatalf("%s: WriteTo(n=%d) wrote %d bytes err=%v; differs from the reference encoding (%d bytes)", name, n, wn, err, len(want))
	}
	mb, err := vec.MarshalBinary()
	if err != nil || !bytes.Equal(mb, want) {
		t.Fatalf("%s: MarshalBinary(n=%d) err=%v differs from the reference encoding", name, n, err)
	}
	// a faulty sink (permanent, transient, partial or short write at a drawn Write call) must surface as an error,
	// n must be what the sink accepted, and a nil error means the sink holds a decodable copy (fault_test.go)
	smode := rapid.SampledFrom(sinkModes).Draw(t, "sinkmode")
	sk := rapid.IntRange(1, n+2).Draw(t, "sinkcall")
	if checkWriteToFault(t, f, vec, vals, want, smode, sk, nil) {
		cl = append(cl, "sink:"+smode)
	} else {
		cl = append(cl, "sink:fault_not_reached")
	}
	if cut := rapid.IntRange(0, len(want)-1).Draw(t, "wcut"); true {
		if _, err := vec.WriteTo(&failingWriter{left: cut}); err == nil {
			t.Fatalf("%s: WriteTo(n=%d) into a writer failing after %d bytes returned nil", name, n, cut)
		}
	}

	// mutate
	stream := want
	mut := rapid.SampledFrom([]string{"none", "none", "invalid", "invalid", "invalid", "two_invalid", "truncate", "truncate", "prefix_larger", "prefix_smaller", "trailing"}).Draw(t, "mut")
	key := fmt.Sprintf("%s n=%d mut=%s", name, n, mut)
	switch mut {
	case "invalid", "two_invalid":
		if n == 0 {
			mut = "none"
			break
		}
		pos := rapid.SampledFrom([]int{0, n - 1, n / 2, rapid.IntRange(0, n-1).Draw(t, "pos")}).Draw(t, "posc")
		bad, bc := invalidEntry(t, f)
		mv := append([]*big.Int(nil), vals...)
		mv[pos] = bad
		cl = append(cl, bc)
		switch {
		case pos == 0:
			cl = append(cl, "bad@first")
		case pos == n-1:
			cl = append(cl, "bad@last")
		default:
			cl = append(cl, "bad@middle")
		}
		if mut == "two_invalid" {
			p2 := rapid.IntRange(0, n-1).Draw(t, "pos2")
			mv[p2], _ = invalidEntry(t, f)
			key += fmt.Sprintf(" pos2=%d", p2)
		}
		stream = refEncode(B, uint32(n), mv)
		key += fmt.Sprintf(" pos=%d bad=%s", pos, bad.Text(16))
	case "truncate":
		off := rapid.SampledFrom([]int{0, 1, 3, 4, 5, len(want) - 1, len(want) - B, 4 + B*(n/2), rapid.IntRange(0, len(want)-1).Draw(t, "off")}).Draw(t, "offc")
		if off < 0 {
			off = 0
		}
		if off >= len(want) {
			off = len(want) - 1
		}
		stream = want[:off]
		key += fmt.Sprintf(" off=%d/%d", off, len(want))
		if off < 4 {
			cl = append(cl, "trunc:in_prefix")
		} else if (off-4)%B == 0 {
			cl = append(cl, "trunc:element_boundary")
		} else {
			cl = append(cl, "trunc:inside_element")
		}
	case "prefix_larger":
		extra := rapid.SampledFrom([]int{1, 1, 2, n + 1, 1000, 65536, 1 << 20, maxPrefix - n}).Draw(t, "extra")
		if extra > 65536 && rapid.IntRange(0, 3).Draw(t, "rare") != 0 {
			extra = rapid.IntRange(1, 300).Draw(t, "extra2")
		}
		stream = append(refEncode(B, uint32(n+extra), nil), want[4:]...)
		key += fmt.Sprintf(" prefix=%d", n+extra)
		if n+extra >= 1<<20 {
			cl = append(cl, "prefix>=2^20")
		}
	case "prefix_smaller":
		if n == 0 {
			mut = "none"
			break
		}
		m := rapid.IntRange(0, n-1).Draw(t, "m")
		stream = append(refEncode(B, uint32(m), nil), want[4:]...)
		key += fmt.Sprintf(" prefix=%d", m)
	case "trailing":
		k := rapid.IntRange(1, 2*B+3).Draw(t, "k")
		stream = append(append([]byte(nil), want...), bytes.Repeat([]byte{0xff}, k)...)
	}
	cl = append(cl, "mut:"+mut)
	exp := refDecode(q, B, stream)
	if mut == "none" && (!exp.ok || len(exp.vals) != n) {
		t.Fatalf("harness error: reference decoder rejects the reference encoding")
	}
	rkind := rapid.SampledFrom(readerKinds).Draw(t, "reader")
	cl = append(cl, "reader:"+rkind)
	if exp.why != "" {
		cl = append(cl, "outcome:"+exp.why)
	} else {
		cl = append(cl, "outcome:accept")
	}
	// the chunk sizes are drawn once so that the decoders see the same reader behaviour
	chunks := []int{1}
	if rkind == "chunks" || rkind == "dataerr+chunks" {
		chunks = rapid.SliceOfN(rapid.IntRange(1, 97), 1, 6).Draw(t, "chunks")
	}
	mk := func() io.Reader { return buildReader(rkind, stream, chunks) }
	decodeAll(t, f, stream, mk, exp, rkind, key)
	nt := mut != "none" || rkind != "whole" || n == 0
	rep.Case(test, key+" reader="+rkind, nt, cl...)
}

func TestC08_VectorCodec(t *testing.T) {
	forFields(t, func(t *testing.T, f inst.Field) {
		rep.Note("C08_VectorCodec/"+f.Name(), fmt.Sprintf("length prefixes are capped at 2^22 elements (resource guard: the decoders allocate the announced length before reading)"))
		rapid.Check(t, func(t *rapid.T) { propVectorCodec(t, f) })
	})
}
