package c08

import (
	"encoding/json"
	"fmt"
	"math/big"
	"strings"
	"testing"

	"pgregory.net/rapid"

	"verif/harness/internal/inst"
	"verif/harness/internal/rep"
)

var garbage = []string{"", "-", "+", "0x", "0X", "0b", "0B", "0o", "0O", "_", "1_", "_1", "1__2", "0x_", "0x_1_", "0_x1", "0__1", "-_1", "+_1",
	" 1", "1 ", "\t1", "1\n", "1e3", "1E3", "1.5", ".5", "1.", "0b2", "0o8", "09", "08", "0xg", "0xG", "--1", "+-1", "-+1", "++1", "1-", "1+1",
	"١٢٣", "\x00", "1\x00", "\xff\xfe", "null", "true", "false", "NaN", "Inf", "-Inf", "0x1p-2", "1/2", "１２", "0b_", "0o_7_",
	"+0x-1", "1,000", "1'000", "0x 1", "0 x1", "x1", "b1", "o7", "0z1", "00x1", "0b0x1", "1_e3", "0b1_", "0X_fF", "0_7", "0_", "00", "-0", "+0", "-00", "0x0", "-0b0",
	`"`, `""`, `"12`, `12"`, `"12"`, `""12""`, `"0x"`, `"-"`, `"_"`, `"1_"`, `'12'`, `{"a":1}`, `[1]`, `[]`, `{}`, `"1"`, `"1" `, ` "1"`, `"-5"`, `"+5"`, `-"5"`, `"0b101"`, `"0o17"`, `"017"`, `"0x1F"`}

const mutAlphabet = "_-+xXbBoO0189afFgzZ .e\"'\x00\xff"

// drawText draws a (mostly malformed) string: a hostile constant, a one/two-character mutation of a
// valid numeral, raw bytes, or a numeral with surrounding noise.
func drawText(t *rapid.T, f inst.Field, label string) (string, string) {
	switch rapid.IntRange(0, 5).Draw(t, label+"k") {
	case 0, 1:
		return rapid.SampledFrom(garbage).Draw(t, label+"g"), "text:constant"
	case 2, 3:
		n, _ := drawInt(t, f, label+"n")
		if n.BitLen() > 2*f.Bits() { // keep strings short enough for the JSON length bound to matter rarely
			n.Rsh(n, uint(n.BitLen()-f.Bits()))
		}
		s, _ := numeral(t, n, label+"s")
		b := []byte(s)
		for k := rapid.IntRange(1, 2).Draw(t, label+"nm"); k > 0; k-- {
			c := mutAlphabet[rapid.IntRange(0, len(mutAlphabet)-1).Draw(t, label+"c")]
			pos := rapid.IntRange(0, len(b)).Draw(t, label+"pos")
			switch rapid.IntRange(0, 2).Draw(t, label+"mk") {
			case 0: // insert
				b = append(b[:pos], append([]byte{c}, b[pos:]...)...)
			case 1: // replace
				if pos < len(b) {
					b[pos] = c
				}
			default: // delete
				if pos < len(b) {
					b = append(b[:pos], b[pos+1:]...)
				}
			}
		}
		return string(b), "text:mutated_numeral"
	case 4:
		n := rapid.IntRange(0, 40).Draw(t, label+"len")
		return string(rapid.SliceOfN(rapid.Byte(), n, n).Draw(t, label+"rb")), "text:random_bytes"
	default:
		// long digit strings (a lenient setter must still reduce them)
		d := rapid.SampledFrom([]string{"9", "1", "0", "f", "_1", "7"}).Draw(t, label+"d")
		p := rapid.SampledFrom([]string{"", "0x", "-", "0b", "0"}).Draw(t, label+"p")
		return p + strings.Repeat(d, rapid.IntRange(1, rep.Scale(600, 6000)).Draw(t, label+"rep")), "text:long"
	}
}

// agreeParse evaluates the reference parser and cross-checks it with math/big's own base-0 parser; on
// disagreement the case is not asserted (harness safety net, counted in the histogram).
func agreeParse(s string) (v *big.Int, ok, agree bool) {
	v, ok = refParse(s)
	bv, bok := new(big.Int).SetString(s, 0)
	agree = ok == bok && (!ok || v.Cmp(bv) == 0)
	return
}

// underscoreOnly reports whether s would be a valid numeral after removing its underscores, i.e. its
// only defect is underscore placement — the case the SetString doc comment describes as "reported as a panic".
func underscoreOnly(s string) bool {
	if !strings.Contains(s, "_") {
		return false
	}
	_, ok := refParse(strings.ReplaceAll(s, "_", ""))
	return ok
}

func stripQuotes(s string) string {
	if len(s) > 0 && s[0] == '"' {
		s = s[1:]
	}
	if len(s) > 0 && s[len(s)-1] == '"' {
		s = s[:len(s)-1]
	}
	return s
}

// propText: malformed text never panics; SetString returns an error and leaves z unchanged exactly when
// the input is not a numeral of the documented grammar; whatever UnmarshalJSON accepts denotes a number
// and decodes to its residue.
func propText(t *rapid.T, f inst.Field) {
	q := f.Q()
	name := f.Name()
	test := "C08_Text/" + name
	s, c := drawText(t, f, "s")
	cl := []string{c}

	// --- SetString (also through SetInterface(string))
	for _, via := range []string{"SetString", "SetInterface(string)"} {
		pv, ok, agree := agreeParse(s)
		z := poison(f)
		var err error
		var pan interface{}
		func() {
			defer func() { pan = recover() }()
			if via == "SetString" {
				err = z.SetString(s)
			} else {
				err = z.SetInterface(s)
			}
		}()
		switch {
		case pan != nil && underscoreOnly(s) && !ok:
			cl = append(cl, "setstring:documented_underscore_panic")
		case pan != nil:
			t.Fatalf("%s: %s(%q) panicked: %v", name, via, s, pan)
		case !agree:
			cl = append(cl, "setstring:ref_disagree(not asserted)")
		case ok:
			if err != nil {
				t.Fatalf("%s: %s(%q) rejected a valid numeral (= %s): %v", name, via, s, pv, err)
			}
			checkVal(t, f, fmt.Sprintf("%s(%q)", via, s), z, mod(pv, q))
			if via == "SetString" {
				cl = append(cl, "setstring:valid")
			}
		default:
			if err == nil {
				t.Fatalf("%s: %s(%q) accepted a malformed numeral as %s", name, via, s, z.Big())
			}
			// documented: "If the number is invalid this method leaves z unchanged"
			checkVal(t, f, fmt.Sprintf("receiver after failed %s(%q)", via, s), z, poisonVal)
			if via == "SetString" {
				cl = append(cl, "setstring:rejected")
			}
		}
	}

	// --- UnmarshalJSON, directly and through encoding/json
	for _, data := range []string{s, `"` + s + `"`} {
		inner := stripQuotes(data)
		pv, ok, agree := agreeParse(inner)
		z := poison(f)
		var err error
		var pan interface{}
		func() {
			defer func() { pan = recover() }()
			err = z.UnmarshalJSON([]byte(data))
		}()
		if pan != nil {
			t.Fatalf("%s: UnmarshalJSON(%q) panicked: %v", name, data, pan)
		}
		if !agree {
			cl = append(cl, "json:ref_disagree(not asserted)")
			continue
		}
		// documented input: a number or a quoted string holding a numeral
		wellFormed := ok && (data == inner || (len(data) == len(inner)+2))
		short := len(data) <= 3*f.Bits() // "value too large (max = Element.Bits * 3)"
		switch {
		case err == nil && !ok:
			t.Fatalf("%s: UnmarshalJSON(%q) accepted input that is not a number, as %s", name, data, z.Big())
		case err == nil:
			checkVal(t, f, fmt.Sprintf("UnmarshalJSON(%q)", data), z, mod(pv, q))
			cl = append(cl, "json:accepted")
		case wellFormed && short:
			t.Fatalf("%s: UnmarshalJSON(%q) rejected a numeral (= %s): %v", name, data, pv, err)
		case wellFormed:
			cl = append(cl, "json:rejected_too_long")
		default:
			cl = append(cl, "json:rejected")
		}
		if json.Valid([]byte(data)) {
			z2 := poison(f)
			func() {
				defer func() { pan = recover() }()
				err = json.Unmarshal([]byte(data), z2.Native())
			}()
			if pan != nil {
				t.Fatalf("%s: json.Unmarshal(%q) panicked: %v", name, data, pan)
			}
			// encoding/json hands the token without the surrounding JSON whitespace to UnmarshalJSON
			tok := strings.Trim(data, " \t\r\n")
			tv, tok_ok, tagree := agreeParse(stripQuotes(tok))
			if err == nil && tok != "null" && tagree {
				if !tok_ok {
					t.Fatalf("%s: json.Unmarshal(%q) accepted input that is not a number, as %s", name, data, z2.Big())
				}
				checkVal(t, f, fmt.Sprintf("json.Unmarshal(%q)", data), z2, mod(tv, q))
			}
			cl = append(cl, "json:valid_json_token")
		}
	}
	_, ok, _ := agreeParse(s)
	rep.Case(test, fmt.Sprintf("%s text %q", name, s), !ok || strings.ContainsAny(s, "_+-"), cl...)
}

func TestC08_Text(t *testing.T) {
	forFields(t, func(t *testing.T, f inst.Field) {
		rep.Note("C08_Text/"+f.Name(), "UnmarshalJSON: only 'accepted => denotes a number, decoded to its residue' and 'numeral or quoted numeral of at most 3*Bits characters => accepted' are asserted; "+
			"unbalanced quotes, null and over-long inputs are only required not to panic")
		rapid.Check(t, func(t *rapid.T) { propText(t, f) })
	})
}

// TestC08_RefParseSelfCheck keeps the harness honest: the reference numeral parser written from the doc
// comment must agree with math/big's base-0 parser on the hostile constants (a disagreement is a harness
// error, and such inputs are never asserted in the properties).
func TestC08_RefParseSelfCheck(t *testing.T) {
	for _, s := range garbage {
		for _, in := range []string{s, stripQuotes(s)} {
			if _, _, agree := agreeParse(in); !agree {
				v, ok := refParse(in)
				bv, bok := new(big.Int).SetString(in, 0)
				t.Errorf("harness: refParse(%q)=%v,%v but math/big says %v,%v", in, v, ok, bv, bok)
			}
		}
	}
}
