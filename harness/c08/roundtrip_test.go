package c08

import (
	"bytes"
	"encoding/json"
	"fmt"
	"math/big"
	"reflect"
	"strings"
	"testing"

	"pgregory.net/rapid"

	"verif/harness/internal/inst"
	"verif/harness/internal/rep"
)

// refText is Text(base) as documented: big.Int-style digits, no prefix, and for base 10 a leading
// "-" followed by q-v when that fits in a uint16 (v != 0).
func refText(f inst.Field, v *big.Int, base int) string {
	if base == 10 && v.Sign() != 0 {
		d := new(big.Int).Sub(f.Q(), v)
		if d.Cmp(bi(65535)) <= 0 {
			return "-" + d.Text(10)
		}
	}
	return v.Text(base)
}

var prefixes = map[int][]string{2: {"0b", "0B"}, 8: {"0o", "0O", "0"}, 10: {""}, 16: {"0x", "0X"}}

// propRoundTrip: every outward conversion of an element equals the reference rendering of its integer
// value, and feeding it to the matching inward conversion gives the same element back.
func propRoundTrip(t *rapid.T, f inst.Field) {
	q := f.Q()
	B := f.Bytes()
	v, gc := drawVal(t, f, "v")
	x := f.FromBig(v)
	checkVal(t, f, "SetBigInt", x, v)
	nt, cl := valClasses(f, v)
	key := fmt.Sprintf("%s roundtrip %s", f.Name(), v.Text(16))
	name := f.Name()

	// --- integers
	if g := x.Big(); g.Cmp(v) != 0 {
		t.Fatalf("%s: BigInt()=%s want %s", name, g, v)
	}
	// BigInt(res) must overwrite a used, negative, larger res and return it
	res := new(big.Int).Neg(new(big.Int).Lsh(q, 70))
	if r := bigIntInto(x, res); r != res || res.Cmp(v) != 0 {
		t.Fatalf("%s: BigInt(res) with a used res: got %s (same pointer=%v) want %s", name, res, r == res, v)
	}
	if g := bitsOf(x); g.Cmp(v) != 0 {
		t.Fatalf("%s: Bits() as little-endian integer = %s want %s", name, g.Text(16), v.Text(16))
	}
	y := poison(f).SetBig(x.Big())
	checkVal(t, f, "SetBigInt(BigInt(x))", y, v)

	// --- bytes
	wantBE := be(v, B)
	wantLE := rev(wantBE)
	if g := x.Marshal(); !bytes.Equal(g, wantBE) {
		t.Fatalf("%s: Marshal(%s)=%x want %x", name, v, g, wantBE)
	}
	if g := bytesOf(x); !bytes.Equal(g, wantBE) {
		t.Fatalf("%s: Bytes(%s)=%x want %x", name, v, g, wantBE)
	}
	buf := bytes.Repeat([]byte{0xa5}, B)
	x.BEPut(buf)
	if !bytes.Equal(buf, wantBE) {
		t.Fatalf("%s: BigEndian.PutElement(%s)=%x want %x", name, v, buf, wantBE)
	}
	buf = bytes.Repeat([]byte{0xa5}, B)
	x.LEPut(buf)
	if !bytes.Equal(buf, wantLE) {
		t.Fatalf("%s: LittleEndian.PutElement(%s)=%x want %x", name, v, buf, wantLE)
	}
	checkVal(t, f, "SetBytes(Marshal(x))", poison(f).SetBytes(wantBE), v)
	y = poison(f)
	y.Unmarshal(wantBE)
	checkVal(t, f, "Unmarshal(Marshal(x))", y, v)
	y = poison(f)
	if err := y.SetBytesCanonical(wantBE); err != nil {
		t.Fatalf("%s: SetBytesCanonical(Bytes(%s)) rejected: %v", name, v, err)
	}
	checkVal(t, f, "SetBytesCanonical(Bytes(x))", y, v)
	y = poison(f)
	if err := y.BEGet(wantBE); err != nil {
		t.Fatalf("%s: BigEndian.Element(PutElement(%s)) rejected: %v", name, v, err)
	}
	checkVal(t, f, "BigEndian.Element(PutElement(x))", y, v)
	y = poison(f)
	if err := y.LEGet(wantLE); err != nil {
		t.Fatalf("%s: LittleEndian.Element(PutElement(%s)) rejected: %v", name, v, err)
	}
	checkVal(t, f, "LittleEndian.Element(PutElement(x))", y, v)

	// --- text
	for _, base := range []int{2, 8, 10, 16, rapid.IntRange(2, 36).Draw(t, "base")} {
		s := x.Text(base)
		if w := refText(f, v, base); s != w {
			t.Fatalf("%s: Text(%d) of %s = %q want %q", name, base, v, s, w)
		}
		pf, ok := prefixes[base]
		if !ok {
			continue
		}
		// DESIGN §11: Text adds no prefix; the round trip goes through the documented prefix of SetString
		p := pf[rapid.IntRange(0, len(pf)-1).Draw(t, "prefix")]
		in := p + s
		if strings.HasPrefix(s, "-") {
			in = "-" + p + s[1:]
		}
		y = poison(f)
		if err := y.SetString(in); err != nil {
			t.Fatalf("%s: SetString(%q) (from Text(%d) of %s) failed: %v", name, in, base, v, err)
		}
		checkVal(t, f, fmt.Sprintf("SetString(%q)", in), y, v)
	}
	if s := x.String(); s != refText(f, v, 10) {
		t.Fatalf("%s: String() of %s = %q want %q", name, v, s, refText(f, v, 10))
	}

	// --- JSON
	js, err := x.MarshalJSON()
	if err != nil {
		t.Fatalf("%s: MarshalJSON(%s) error %v", name, v, err)
	}
	wantJS := refText(f, v, 10)
	if len(wantJS) > 15 {
		wantJS = `"` + wantJS + `"`
		cl = append(cl, "json:string")
	} else {
		cl = append(cl, "json:number")
		if len(wantJS) >= 14 {
			cl = append(cl, "json:len14-15")
		}
	}
	if string(js) != wantJS {
		t.Fatalf("%s: MarshalJSON(%s)=%s want %s", name, v, js, wantJS)
	}
	y = poison(f)
	if err := y.UnmarshalJSON(js); err != nil {
		t.Fatalf("%s: UnmarshalJSON(%s) error %v", name, js, err)
	}
	checkVal(t, f, "UnmarshalJSON(MarshalJSON(x))", y, v)
	// through encoding/json, which also validates that MarshalJSON emitted well-formed JSON
	js2, err := json.Marshal(x.Native())
	if err != nil || string(js2) != wantJS {
		t.Fatalf("%s: json.Marshal(%s)=%s,%v want %s", name, v, js2, err, wantJS)
	}
	y = poison(f)
	if err := json.Unmarshal(js2, y.Native()); err != nil {
		t.Fatalf("%s: json.Unmarshal(%s) error %v", name, js2, err)
	}
	checkVal(t, f, "json.Unmarshal(json.Marshal(x))", y, v)
	// inside a struct / slice
	wrap := reflect.New(reflect.SliceOf(elemType(f)))
	if err := json.Unmarshal([]byte("["+wantJS+",0,"+wantJS+"]"), wrap.Interface()); err != nil || wrap.Elem().Len() != 3 {
		t.Fatalf("%s: json.Unmarshal of [x,0,x] failed: %v", name, err)
	}
	y = poison(f)
	if err := y.SetInterface(wrap.Elem().Index(2).Interface()); err != nil {
		t.Fatalf("%s: SetInterface(Element) failed: %v", name, err)
	}
	checkVal(t, f, "json slice element", y, v)

	// --- word queries
	is64 := v.BitLen() <= 64
	if x.IsUint64() != is64 {
		t.Fatalf("%s: IsUint64(%s)=%v want %v", name, v, x.IsUint64(), is64)
	}
	if is64 { // Uint64 is documented as undefined otherwise (DESIGN §11)
		if g := x.Uint64(); g != v.Uint64() {
			t.Fatalf("%s: Uint64(%s)=%d", name, v, g)
		}
	}
	// FitsOnOneWord and BitLen act on the limbs as stored ("responsibility of the caller to convert
	// from Montgomery to Regular form"; the package's own test calls fromMont().BitLen()).
	raw := rawInt(x)
	if g, w := x.FitsOnOneWord(), raw.BitLen() <= f.LimbBits(); g != w {
		t.Fatalf("%s: FitsOnOneWord on limbs %s = %v want %v", name, raw.Text(16), g, w)
	}
	if g, w := x.BitLen(), raw.BitLen(); g != w {
		t.Fatalf("%s: BitLen on limbs %s = %d want %d", name, raw.Text(16), g, w)
	}
	reg := f.New()
	reg.SetRaw(limbsOf(f, v)) // regular form of v
	if g, w := reg.FitsOnOneWord(), v.BitLen() <= f.LimbBits(); g != w {
		t.Fatalf("%s: FitsOnOneWord of regular-form %s = %v want %v", name, v, g, w)
	}
	if g, w := reg.BitLen(), v.BitLen(); g != w {
		t.Fatalf("%s: BitLen of regular-form %s = %d want %d", name, v, g, w)
	}

	// the element itself must be untouched by all of the above
	checkVal(t, f, "x after conversions", x, v)
	rep.Case("C08_RoundTrip/"+name, key, nt, append(cl, "gen:"+gc)...)
}

func TestC08_RoundTrip(t *testing.T) {
	forFields(t, func(t *testing.T, f inst.Field) {
		rep.Note("C08_RoundTrip/"+f.Name(), "FitsOnOneWord/BitLen are asserted on the stored limbs (documented caller-converts convention), "+
			"and on regular-form limbs against the integer; Uint64 only when IsUint64; Text(16) round-trips through SetString(\"0x\"+s)")
		rapid.Check(t, func(t *rapid.T) { propRoundTrip(t, f) })
	})
}

// TestC08_NilReceiver: the two documented nil-pointer behaviours (Text -> "<nil>", MarshalJSON -> null).
func TestC08_NilReceiver(t *testing.T) {
	forFields(t, func(t *testing.T, f inst.Field) {
		np := reflect.Zero(reflect.TypeOf(f.New().Native()))
		if s := np.MethodByName("Text").Call([]reflect.Value{reflect.ValueOf(10)})[0].String(); s != "<nil>" {
			t.Errorf("%s: (*Element)(nil).Text(10)=%q want <nil>", f.Name(), s)
		}
		r := np.MethodByName("MarshalJSON").Call(nil)
		if string(r[0].Bytes()) != "null" || !r[1].IsNil() {
			t.Errorf("%s: (*Element)(nil).MarshalJSON()=%q", f.Name(), r[0].Bytes())
		}
		rep.Case("C08_NilReceiver/"+f.Name(), f.Name()+" nil receiver", true, "nil_receiver")
	})
}
