package c08

import (
	"fmt"
	"math/big"
	"testing"

	"pgregory.net/rapid"

	"verif/harness/internal/inst"
	"verif/harness/internal/rep"
)

// propStrict: the canonical decoders accept <=> (length == Bytes and integer < q), decode to exactly
// that integer, and the lenient SetBytes on the same string gives the residue.
func propStrict(t *rapid.T, f inst.Field) {
	q := f.Q()
	B := f.Bytes()
	name := f.Name()
	test := "C08_Strict/" + name
	if rapid.IntRange(0, 5).Draw(t, "wronglen") == 0 {
		// SetBytesCanonical with a length other than Bytes: always an error, whatever the value
		b, c := drawBytes(t, f, "b")
		if len(b) == B {
			b = append(b, 0)
		}
		z := poison(f)
		if err := z.SetBytesCanonical(b); err == nil {
			t.Fatalf("%s: SetBytesCanonical accepted %d bytes (Bytes=%d): %x", name, len(b), B, b)
		}
		rep.Case(test, fmt.Sprintf("%s SetBytesCanonical len=%d %x", name, len(b), b), true, "SetBytesCanonical", "wrong_length", lenClass(f, len(b)), c)
		return
	}
	v, c := drawEnc(t, f, "e")
	valid := v.Cmp(q) < 0
	enc := be(v, B)
	cl := append(encClasses(f, v), c)
	for _, op := range []string{"SetBytesCanonical", "BigEndian.Element", "LittleEndian.Element"} {
		z := poison(f)
		var err error
		in := append([]byte(nil), enc...)
		switch op {
		case "SetBytesCanonical":
			err = z.SetBytesCanonical(in)
		case "BigEndian.Element":
			err = z.BEGet(in)
		default:
			in = rev(enc)
			err = z.LEGet(in)
		}
		if valid && err != nil {
			t.Fatalf("%s: %s rejected the canonical encoding %x of %s < q: %v", name, op, in, v, err)
		}
		if !valid && err == nil {
			t.Fatalf("%s: %s accepted %x (value %s = q+%s >= q), decoded to %s", name, op, in, v, new(big.Int).Sub(v, q), z.Big())
		}
		if valid {
			checkVal(t, f, fmt.Sprintf("%s(%x)", op, in), z, v)
		}
	}
	// lenient contrast on the very same bytes (fast path when valid, big.Int path otherwise)
	checkVal(t, f, fmt.Sprintf("SetBytes(%x)", enc), poison(f).SetBytes(enc), mod(v, q))
	nt := !valid || new(big.Int).Sub(q, v).Cmp(bi(2)) <= 0 || len(cl) > 2
	rep.Case(test, fmt.Sprintf("%s strict %x", name, enc), nt, cl...)
}

func TestC08_Strict(t *testing.T) {
	forFields(t, func(t *testing.T, f inst.Field) {
		rapid.Check(t, func(t *rapid.T) { propStrict(t, f) })
	})
}

// TestC08_StrictSweep enumerates, without rapid, the complete acceptance boundary lattice of the
// fixed-length decoders: the hostile constants, and for every limb and every byte position the strings
// equal to q above it, q_i-1 / q_i+1 / 0 / max at it, and all-zero / all-one / q below it.
func TestC08_StrictSweep(t *testing.T) {
	forFields(t, func(t *testing.T, f inst.Field) {
		q := f.Q()
		B := f.Bytes()
		name := f.Name()
		test := "C08_StrictSweep/" + name
		seen := map[string]bool{}
		var n, acc int64
		try := func(v *big.Int, cls string) {
			if v.Sign() < 0 || v.BitLen() > 8*B || seen[v.Text(16)] {
				return
			}
			seen[v.Text(16)] = true
			enc := be(v, B)
			valid := v.Cmp(q) < 0
			for i, dec := range []func(z inst.E) error{
				func(z inst.E) error { return z.SetBytesCanonical(enc) },
				func(z inst.E) error { return z.BEGet(enc) },
				func(z inst.E) error { return z.LEGet(rev(enc)) },
			} {
				z := poison(f)
				err := dec(z)
				if (err == nil) != valid {
					t.Fatalf("%s: strict decoder #%d on %x (%s): accepted=%v but value<q is %v", name, i, enc, cls, err == nil, valid)
				}
				if valid {
					checkVal(t, f, fmt.Sprintf("strict decoder #%d (%x)", i, enc), z, v)
				}
			}
			checkVal(t, f, fmt.Sprintf("SetBytes(%x)", enc), poison(f).SetBytes(enc), mod(v, q))
			n++
			if valid {
				acc++
			}
		}
		hn, hv := hostile(f)
		for i := range hv {
			try(hv[i], hn[i])
		}
		for _, w := range []int{f.LimbBits(), 8} {
			nd := 8 * B / w
			mask := new(big.Int).Sub(pow2(w), bi(1))
			for i := 0; i < nd; i++ {
				qi := new(big.Int).And(new(big.Int).Rsh(q, uint(i*w)), mask)
				hi := new(big.Int).Rsh(q, uint((i+1)*w))
				hi.Lsh(hi, uint((i+1)*w))
				lowq := new(big.Int).And(q, new(big.Int).Sub(pow2(i*w), bi(1)))
				lowOnes := new(big.Int).Sub(pow2(i*w), bi(1))
				for _, di := range []*big.Int{new(big.Int).Sub(qi, bi(1)), new(big.Int).Add(qi, bi(1)), bi(0), mask, qi} {
					if di.Sign() < 0 || di.Cmp(mask) > 0 {
						continue
					}
					for _, low := range []*big.Int{bi(0), lowOnes, lowq, new(big.Int).Add(lowq, bi(1)), new(big.Int).Sub(lowq, bi(1))} {
						if low.Sign() < 0 || low.Cmp(lowOnes) > 0 {
							continue
						}
						v := new(big.Int).Add(hi, new(big.Int).Lsh(di, uint(i*w)))
						v.Add(v, low)
						try(v, fmt.Sprintf("digit%d/%d", i, w))
					}
				}
			}
		}
		smp := fmt.Sprintf("%s: %d boundary encodings (%d accepted, %d rejected)", name, n, acc, n-acc)
		rep.Count(test, "strict_lattice:accepted(<q)", acc, acc, smp)
		rep.Count(test, "strict_lattice:rejected(>=q)", n-acc, n-acc, smp)
		rep.Exhaustive(test)
	})
}
