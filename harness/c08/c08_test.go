// Package c08: field-element conversions round-trip; lenient setters reduce modulo q; strict
// decoders (SetBytesCanonical, ByteOrder.Element, Vector.ReadFrom/AsyncReadFrom/UnmarshalBinary)
// accept exactly the fixed-length encodings of integers below q.
//
// Oracles: math/big only (big-endian / little-endian integer interpretation, v mod q, a numeral
// parser written from the SetString doc comment). The library is never compared with itself.
package c08

import (
	"fmt"
	"math/big"
	"os"
	"reflect"
	"regexp"
	"testing"

	"pgregory.net/rapid"

	"verif/harness/internal/gen"
	"verif/harness/internal/inst"
	"verif/harness/internal/rep"
)

func TestMain(m *testing.M) { rep.Main(m) }

type tb interface {
	Fatalf(format string, args ...any)
}

func selected(name string) bool {
	p := os.Getenv("VERIF_INST")
	if p == "" {
		return true
	}
	ok, _ := regexp.MatchString(p, name)
	return ok
}

func forFields(t *testing.T, body func(t *testing.T, f inst.Field)) {
	for _, f := range inst.Fields() {
		if !selected(f.Name()) {
			continue
		}
		f := f
		t.Run(f.Name(), func(t *testing.T) { body(t, f) })
	}
}

func spec(f inst.Field) gen.FieldSpec {
	return gen.FieldSpec{Q: f.Q(), NLimbs: f.NLimbs(), LimbBits: f.LimbBits()}
}

func bi(x int64) *big.Int { return big.NewInt(x) }

func pow2(k int) *big.Int { return new(big.Int).Lsh(bi(1), uint(k)) }

// rawInt returns the raw (Montgomery) limbs of e as an integer.
func rawInt(e inst.E) *big.Int {
	l := e.Raw()
	v := new(big.Int)
	w := uint(e.F().LimbBits())
	for i := len(l) - 1; i >= 0; i-- {
		v.Lsh(v, w)
		v.Or(v, new(big.Int).SetUint64(l[i]))
	}
	return v
}

// limbsOf splits v (< 2^(NLimbs*LimbBits)) into the field's limbs, least significant first.
func limbsOf(f inst.Field, v *big.Int) []uint64 {
	w := uint(f.LimbBits())
	mask := new(big.Int).Sub(pow2(int(w)), bi(1))
	out := make([]uint64, f.NLimbs())
	for i := range out {
		out[i] = new(big.Int).And(new(big.Int).Rsh(v, uint(i)*w), mask).Uint64()
	}
	return out
}

// checkVal asserts that the library element holds exactly want (0 <= want < q) in canonical,
// fully reduced representation: raw limbs < q, raw limbs == want*R mod q, BigInt() == want.
func checkVal(t tb, f inst.Field, what string, got inst.E, want *big.Int) {
	raw := rawInt(got)
	if raw.Cmp(f.Q()) >= 0 {
		t.Fatalf("%s: %s: result not reduced: raw limbs %s >= q", f.Name(), what, raw.Text(16))
	}
	exp := new(big.Int).Mul(want, f.R())
	exp.Mod(exp, f.Q())
	if raw.Cmp(exp) != 0 {
		t.Fatalf("%s: %s: got %s want %s", f.Name(), what, got.Big().String(), want.String())
	}
	if g := got.Big(); g.Cmp(want) != 0 {
		t.Fatalf("%s: %s: BigInt()=%s want %s", f.Name(), what, g, want)
	}
}

// poison returns a fresh element holding a recognisable value, so that a conversion that forgets to
// write its receiver is caught.
func poison(f inst.Field) inst.E { return f.New().SetBig(bi(0xdead)) }

var poisonVal = bi(0xdead)

// be returns the big-endian encoding of v on exactly n bytes (v < 2^(8n)).
func be(v *big.Int, n int) []byte { return v.FillBytes(make([]byte, n)) }

func rev(b []byte) []byte {
	o := make([]byte, len(b))
	for i := range b {
		o[len(b)-1-i] = b[i]
	}
	return o
}

// mod returns v mod q in [0,q).
func mod(v, q *big.Int) *big.Int { return new(big.Int).Mod(v, q) }

// ---- reflection helpers for the methods whose signature depends on the array length -----------

// bitsOf calls Bits() (regular-form limbs, little-endian, per its doc comment) and returns the integer.
func bitsOf(e inst.E) *big.Int {
	r := reflect.ValueOf(e.Native()).MethodByName("Bits").Call(nil)[0]
	v := new(big.Int)
	w := uint(r.Type().Elem().Bits())
	for i := r.Len() - 1; i >= 0; i-- {
		v.Lsh(v, w)
		v.Or(v, new(big.Int).SetUint64(r.Index(i).Uint()))
	}
	return v
}

// bytesOf calls Bytes() ([Bytes]byte, big-endian).
func bytesOf(e inst.E) []byte {
	r := reflect.ValueOf(e.Native()).MethodByName("Bytes").Call(nil)[0]
	out := make([]byte, r.Len())
	for i := range out {
		out[i] = byte(r.Index(i).Uint())
	}
	return out
}

// bigIntInto calls BigInt(res) and returns the returned pointer.
func bigIntInto(e inst.E, res *big.Int) *big.Int {
	r := reflect.ValueOf(e.Native()).MethodByName("BigInt").Call([]reflect.Value{reflect.ValueOf(res)})[0]
	return r.Interface().(*big.Int)
}

// ---- generators --------------------------------------------------------------------------------

// drawVal draws a canonical value in [0,q) from the C08 boundary classes: the shared two-domain limb
// lattice plus the boundaries of the conversions themselves (small negatives for Text(10), the 15-char
// bound of MarshalJSON, the uint64 bound of IsUint64, powers of two at byte and limb boundaries).
func drawVal(t *rapid.T, f inst.Field, label string) (*big.Int, string) {
	q := f.Q()
	B := f.Bytes()
	var v *big.Int
	cls := ""
	switch rapid.IntRange(0, 9).Draw(t, label+"c") {
	case 0, 1:
		x, c := spec(f).Elem(t, label)
		return x, "lattice:" + c
	case 2:
		v = new(big.Int).Sub(q, bi(int64(rapid.IntRange(1, 4).Draw(t, label+"k"))))
		cls = "near_q"
	case 3: // q-k with k around the uint16 bound of the "-k" pretty printing
		k := rapid.SampledFrom([]int64{1, 2, 9, 10, 99, 100, 255, 256, 65534, 65535, 65536, 65537, 70000}).Draw(t, label+"k")
		if rapid.IntRange(0, 3).Draw(t, label+"kr") == 0 {
			k = int64(rapid.IntRange(1, 70000).Draw(t, label+"kk"))
		}
		v = new(big.Int).Sub(q, bi(k))
		cls = "small_neg"
	case 4:
		e := 8 * rapid.IntRange(0, B).Draw(t, label+"e")
		v = new(big.Int).Add(pow2(e), bi(int64(rapid.IntRange(-1, 1).Draw(t, label+"d"))))
		cls = "pow2_byte"
	case 5:
		e := f.LimbBits() * rapid.IntRange(0, f.NLimbs()).Draw(t, label+"e")
		v = new(big.Int).Add(pow2(e), bi(int64(rapid.IntRange(-1, 1).Draw(t, label+"d"))))
		cls = "pow2_limb"
	case 6:
		e := rapid.SampledFrom([]int{16, 31, 32, 63, 64}).Draw(t, label+"e")
		v = new(big.Int).Add(pow2(e), bi(int64(rapid.IntRange(-1, 1).Draw(t, label+"d"))))
		cls = "uint64_edge"
	case 7: // decimal length around MarshalJSON's maxSafeBound = 15 characters
		e := rapid.IntRange(13, 16).Draw(t, label+"e")
		v = new(big.Int).Exp(bi(10), bi(int64(e)), nil)
		v.Add(v, bi(int64(rapid.IntRange(-1, 1).Draw(t, label+"d"))))
		cls = "dec_len15"
	case 8:
		v = bi(int64(rapid.IntRange(0, 300).Draw(t, label+"s")))
		cls = "small"
	default: // top byte pattern, rest zero / ones / random
		top := rapid.SampledFrom([]byte{0, 1, 0x7f, 0x80, 0xff, be(q, B)[0], be(q, B)[0] - 1}).Draw(t, label+"top")
		b := make([]byte, B)
		switch rapid.IntRange(0, 2).Draw(t, label+"rest") {
		case 1:
			for i := range b {
				b[i] = 0xff
			}
		case 2:
			copy(b, rapid.SliceOfN(rapid.Byte(), B, B).Draw(t, label+"rb"))
		}
		b[0] = top
		v = new(big.Int).SetBytes(b)
		cls = "top_byte"
	}
	if v.Sign() < 0 || v.Cmp(q) >= 0 {
		cls += "(reduced)"
	}
	return mod(v, q), cls
}

// valClasses labels a canonical value for the evidence histogram and evaluates the C08 non-trivial
// rule for values (on a byte/limb boundary, within 4 of 0 or q, small negative).
func valClasses(f inst.Field, v *big.Int) (bool, []string) {
	q := f.Q()
	var cl []string
	d := new(big.Int).Sub(q, v)
	if v.Cmp(bi(4)) <= 0 {
		cl = append(cl, "v<=4")
	}
	if d.Cmp(bi(4)) <= 0 {
		cl = append(cl, "v>=q-4")
	}
	if v.Sign() != 0 && d.Cmp(bi(65535)) <= 0 {
		cl = append(cl, "v=-uint16")
	}
	if d.Cmp(bi(65536)) == 0 || d.Cmp(bi(65535)) == 0 {
		cl = append(cl, "v=-(65535|65536)")
	}
	for k := 8; k <= 8*f.Bytes(); k += 8 {
		p := pow2(k)
		if new(big.Int).Sub(v, p).CmpAbs(bi(1)) <= 0 {
			cl = append(cl, "v=2^(8k)+-1")
			break
		}
	}
	if v.BitLen() <= 64 && v.BitLen() >= 63 {
		cl = append(cl, "v~2^64")
	}
	if spec(f).OnBoundary(v) {
		cl = append(cl, "limb_boundary")
	}
	return len(cl) > 0, cl
}

// drawInt draws an integer of any sign and size around the modulus (lenient setters).
func drawInt(t *rapid.T, f inst.Field, label string) (*big.Int, string) {
	q := f.Q()
	if rapid.IntRange(0, 5).Draw(t, label+"m") == 0 { // exact multiples of q, both signs
		k := int64(rapid.IntRange(-6, 6).Draw(t, label+"k"))
		if rapid.Bool().Draw(t, label+"big") {
			k *= 1 << 40
		}
		return new(big.Int).Mul(q, bi(k)), "k*q"
	}
	if rapid.IntRange(0, 7).Draw(t, label+"b") == 0 { // 2^(8*Bytes) neighbourhood
		v := new(big.Int).Add(pow2(8*f.Bytes()), bi(int64(rapid.IntRange(-1, 1).Draw(t, label+"d"))))
		if rapid.Bool().Draw(t, label+"neg") {
			v.Neg(v)
			return v, "neg_2^(8B)+-1"
		}
		return v, "2^(8B)+-1"
	}
	return gen.Int(t, q, rep.Scale(4, 16)*f.NLimbs()*f.LimbBits(), label)
}

func intClasses(f inst.Field, v *big.Int) (bool, []string) {
	q := f.Q()
	var cl []string
	if v.Sign() < 0 {
		cl = append(cl, "int<0")
	}
	if v.CmpAbs(q) >= 0 {
		cl = append(cl, "|int|>=q")
	}
	if mod(v, q).Sign() == 0 {
		cl = append(cl, "int=0 mod q")
	}
	if v.BitLen() > 8*f.Bytes() {
		cl = append(cl, "int>=2^(8B)")
	}
	if len(cl) == 0 {
		cl = append(cl, "int in [1,q)")
		nt, c2 := valClasses(f, v)
		return nt, append(cl, c2...)
	}
	return true, cl
}

// hostile returns the named integers every encoding generator must produce.
func hostile(f inst.Field) (names []string, vals []*big.Int) {
	q := f.Q()
	B := f.Bytes()
	add := func(n string, v *big.Int) {
		names = append(names, n)
		vals = append(vals, v)
	}
	add("0", bi(0))
	add("1", bi(1))
	add("q-2", new(big.Int).Sub(q, bi(2)))
	add("q-1", new(big.Int).Sub(q, bi(1)))
	add("q", new(big.Int).Set(q))
	add("q+1", new(big.Int).Add(q, bi(1)))
	add("q+2", new(big.Int).Add(q, bi(2)))
	add("2^(8B)-1", new(big.Int).Sub(pow2(8*B), bi(1)))
	add("2^(8B)-2", new(big.Int).Sub(pow2(8*B), bi(2)))
	add("2^bits", pow2(f.Bits()))
	add("2^bits-1", new(big.Int).Sub(pow2(f.Bits()), bi(1)))
	add("2^(bits-1)", pow2(f.Bits()-1))
	if tq := new(big.Int).Lsh(q, 1); tq.BitLen() <= 8*B {
		add("2q", tq)
		add("2q-1", new(big.Int).Sub(tq, bi(1)))
	}
	return
}

// drawEnc draws an integer in [0, 2^(8*Bytes)) to be encoded on exactly Bytes bytes, concentrated on the
// acceptance boundary of smallerThanModulus: the named hostile constants, and for every limb / byte
// position the strings that agree with q above that position and differ by +-1 there.
func drawEnc(t *rapid.T, f inst.Field, label string) (*big.Int, string) {
	q := f.Q()
	B := f.Bytes()
	full := pow2(8 * B)
	switch rapid.IntRange(0, 7).Draw(t, label+"c") {
	case 0, 1:
		n, v := hostile(f)
		i := rapid.IntRange(0, len(n)-1).Draw(t, label+"h")
		if v[i].BitLen() > 8*B { // e.g. 2^bits when the modulus fills all Bytes
			return new(big.Int).Sub(full, bi(1)), "enc:2^(8B)-1"
		}
		return v[i], "enc:" + n[i]
	case 2, 3: // limb lattice around q
		w := f.LimbBits()
		nl := f.NLimbs()
		i := rapid.IntRange(0, nl-1).Draw(t, label+"limb")
		return aroundQ(t, q, w, nl, i, label), "enc:q_limb+-1"
	case 4: // byte lattice around q
		j := rapid.IntRange(0, B-1).Draw(t, label+"byte")
		return aroundQ(t, q, 8, B, j, label), "enc:q_byte+-1"
	case 5: // top byte patterns
		qt := be(q, B)[0]
		top := rapid.SampledFrom([]byte{0, 1, 0x7f, 0x80, 0xff, qt, qt + 1, qt - 1}).Draw(t, label+"top")
		b := be(q, B)
		switch rapid.IntRange(0, 3).Draw(t, label+"rest") {
		case 0:
			for i := range b {
				b[i] = 0
			}
		case 1:
			for i := range b {
				b[i] = 0xff
			}
		case 2:
			copy(b, rapid.SliceOfN(rapid.Byte(), B, B).Draw(t, label+"rb"))
		}
		b[0] = top
		return new(big.Int).SetBytes(b), "enc:top_byte"
	case 6:
		v, _ := drawVal(t, f, label)
		return v, "enc:valid_lattice"
	default:
		b := rapid.SliceOfN(rapid.Byte(), B, B).Draw(t, label+"u")
		v := new(big.Int).SetBytes(b)
		return v.Mod(v, full), "enc:uniform"
	}
}

// aroundQ returns the integer whose w-bit digits agree with q above position i, are q_i+d (d=+-1, or
// 0 / all-ones) at position i, and are all-zero / all-one / q's / random below.
func aroundQ(t *rapid.T, q *big.Int, w, n, i int, label string) *big.Int {
	mask := new(big.Int).Sub(pow2(w), bi(1))
	digit := func(v *big.Int, k int) *big.Int {
		return new(big.Int).And(new(big.Int).Rsh(v, uint(k*w)), mask)
	}
	qi := digit(q, i)
	var di *big.Int
	switch rapid.IntRange(0, 3).Draw(t, label+"d") {
	case 0:
		di = new(big.Int).And(new(big.Int).Sub(qi, bi(1)), mask)
	case 1:
		di = new(big.Int).And(new(big.Int).Add(qi, bi(1)), mask)
	case 2:
		di = bi(0)
	default:
		di = mask
	}
	low := rapid.IntRange(0, 3).Draw(t, label+"low")
	var rnd []byte
	if low == 3 {
		rnd = rapid.SliceOfN(rapid.Byte(), (n*w+7)/8, (n*w+7)/8).Draw(t, label+"lr")
	}
	v := new(big.Int)
	for k := n - 1; k >= 0; k-- {
		v.Lsh(v, uint(w))
		switch {
		case k > i:
			v.Or(v, digit(q, k))
		case k == i:
			v.Or(v, di)
		default:
			switch low {
			case 0:
			case 1:
				v.Or(v, mask)
			case 2:
				v.Or(v, digit(q, k))
			default:
				v.Or(v, digit(new(big.Int).SetBytes(rnd), k))
			}
		}
	}
	return v
}

// encClasses labels an exact-length encoding value.
func encClasses(f inst.Field, v *big.Int) []string {
	q := f.Q()
	var cl []string
	switch c := v.Cmp(q); {
	case c < 0:
		cl = append(cl, "enc<q")
	case c == 0:
		cl = append(cl, "enc=q")
	default:
		cl = append(cl, "enc>q")
	}
	d := new(big.Int).Sub(v, q)
	if d.CmpAbs(bi(2)) <= 0 && d.Sign() != 0 {
		cl = append(cl, "enc=q"+fmt.Sprintf("%+d", d.Int64()))
	}
	if v.Cmp(new(big.Int).Sub(pow2(8*f.Bytes()), bi(1))) == 0 {
		cl = append(cl, "enc=2^(8B)-1")
	}
	if v.BitLen() > f.Bits() {
		cl = append(cl, "enc>=2^bits")
	}
	// number of leading limbs equal to those of q (depth reached in smallerThanModulus)
	ql, vl := limbsOf(f, q), limbsOf(f, v)
	depth := 0
	for i := len(ql) - 1; i >= 0 && ql[i] == vl[i]; i-- {
		depth++
	}
	if depth > 0 {
		cl = append(cl, fmt.Sprintf("enc:eq_q_limbs=%d/%d", depth, len(ql)))
	}
	return cl
}

// elemType returns the reflect type of the field's Element.
func elemType(f inst.Field) reflect.Type { return reflect.TypeOf(f.New().Native()).Elem() }
