package c08

import (
	"bytes"
	"fmt"
	"math/big"
	"testing"

	"pgregory.net/rapid"

	"verif/harness/internal/inst"
	"verif/harness/internal/rep"
)

// History dimension of the conversions ("results stay valid"): every conversion that RETURNS a slice, a
// string, a big.Int or an array is called 2-4 times on different values BEFORE any earlier result is
// consumed. Each result is copied right after its call; after the last call every earlier result must
// still equal its copy and the reference rendering, and must decode back to its own value. Then the
// returned slices / big.Ints are scribbled over and the same conversions are repeated: later calls and the
// operands themselves must be unaffected (results must not share memory with internal state such as a
// pooled scratch buffer, nor with the element / vector).
//
// Not meaningful under -race (sync.Pool drops items at random there): the job is never run with race=True.

var historyKinds = []string{"MarshalBinary", "Marshal", "MarshalJSON", "Text", "String", "BigInt(res)", "Bits", "WriteTo"}

type heldResult struct {
	kind string
	desc string
	// operand
	x    inst.E
	v    *big.Int
	vec  inst.Vec
	vals []*big.Int
	base int
	// what was returned (live reference) and the copy taken right after the call
	b     []byte
	bCopy []byte
	s     string
	sCopy string
	res   *big.Int
	rCopy *big.Int
	bits  *big.Int
	// reference rendering
	wantB []byte
	wantS string
}

// histVecLen draws vector lengths that repeat and shrink across the calls of one history, so that a
// recycled buffer of a previous call is large enough to be reused in place.
func histVecLen(t *rapid.T, prev int) int {
	switch rapid.IntRange(0, 4).Draw(t, "hn") {
	case 0:
		return prev
	case 1:
		if prev > 0 {
			return prev - 1
		}
		return 0
	case 2:
		return prev + 1
	case 3:
		return rapid.IntRange(0, 3).Draw(t, "hn_small")
	default:
		return rapid.IntRange(0, 40).Draw(t, "hn_any")
	}
}

func histCall(t *rapid.T, f inst.Field, kind string, i int, prevLen *int) *heldResult {
	B := f.Bytes()
	h := &heldResult{kind: kind}
	switch kind {
	case "MarshalBinary", "WriteTo":
		n := histVecLen(t, *prevLen)
		*prevLen = n
		h.vals = make([]*big.Int, n)
		h.vec = f.NewVec(n)
		// distinct content per call: a drawn base value plus the index
		base, _ := drawVal(t, f, fmt.Sprintf("hv%d", i))
		for j := range h.vals {
			h.vals[j] = mod(new(big.Int).Add(base, bi(int64(j*(i+1)))), f.Q())
			h.vec.At(j).SetBig(h.vals[j])
		}
		h.wantB = refEncode(B, uint32(n), h.vals)
		h.desc = fmt.Sprintf("%s(n=%d,first=%s)", kind, n, first(h.vals))
		if kind == "MarshalBinary" {
			b, err := h.vec.MarshalBinary()
			if err != nil {
				t.Fatalf("%s: MarshalBinary(n=%d): %v", f.Name(), n, err)
			}
			h.b = b
		} else {
			var buf bytes.Buffer
			if _, err := h.vec.WriteTo(&buf); err != nil {
				t.Fatalf("%s: WriteTo(n=%d): %v", f.Name(), n, err)
			}
			h.b = buf.Bytes()
		}
		h.bCopy = append([]byte(nil), h.b...)
		return h
	}
	h.v, _ = drawVal(t, f, fmt.Sprintf("hx%d", i))
	h.x = f.FromBig(h.v)
	h.desc = fmt.Sprintf("%s(%s)", kind, h.v.Text(16))
	switch kind {
	case "Marshal":
		h.b = h.x.Marshal()
		h.bCopy = append([]byte(nil), h.b...)
		h.wantB = be(h.v, B)
	case "MarshalJSON":
		b, err := h.x.MarshalJSON()
		if err != nil {
			t.Fatalf("%s: MarshalJSON: %v", f.Name(), err)
		}
		h.b = b
		h.bCopy = append([]byte(nil), b...)
		w := refText(f, h.v, 10)
		if len(w) > 15 {
			w = `"` + w + `"`
		}
		h.wantB = []byte(w)
	case "Text":
		h.base = rapid.SampledFrom([]int{2, 8, 10, 16}).Draw(t, fmt.Sprintf("hb%d", i))
		h.s = h.x.Text(h.base)
		h.sCopy = string(append([]byte(nil), h.s...)) // a real copy, not a second header on the same bytes
		h.wantS = refText(f, h.v, h.base)
		h.desc = fmt.Sprintf("Text(%d)(%s)", h.base, h.v.Text(16))
	case "String":
		h.base = 10
		h.s = h.x.String()
		h.sCopy = string(append([]byte(nil), h.s...))
		h.wantS = refText(f, h.v, 10)
	case "BigInt(res)":
		h.res = bigIntInto(h.x, new(big.Int))
		h.rCopy = new(big.Int).Set(h.res)
	case "Bits":
		h.bits = bitsOf(h.x)
	}
	return h
}

func first(v []*big.Int) string {
	if len(v) == 0 {
		return "-"
	}
	return v[0].Text(16)
}

// histVerify checks a held result against its copy and the reference, then consumes (decodes) it.
func histVerify(t *rapid.T, f inst.Field, h *heldResult, when string) {
	name := f.Name()
	switch h.kind {
	case "MarshalBinary", "WriteTo", "Marshal", "MarshalJSON":
		if !bytes.Equal(h.b, h.bCopy) {
			t.Fatalf("%s: result of %s changed %s: was %x, is now %x", name, h.desc, when, h.bCopy, h.b)
		}
		if !bytes.Equal(h.b, h.wantB) {
			t.Fatalf("%s: %s = %x want %x", name, h.desc, h.b, h.wantB)
		}
	case "Text", "String":
		if h.s != h.sCopy {
			t.Fatalf("%s: result of %s changed %s: was %q, is now %q", name, h.desc, when, h.sCopy, h.s)
		}
		if h.s != h.wantS {
			t.Fatalf("%s: %s = %q want %q", name, h.desc, h.s, h.wantS)
		}
	case "BigInt(res)":
		if h.res.Cmp(h.rCopy) != 0 {
			t.Fatalf("%s: result of %s changed %s: was %s, is now %s", name, h.desc, when, h.rCopy, h.res)
		}
		if h.res.Cmp(h.v) != 0 {
			t.Fatalf("%s: %s = %s want %s", name, h.desc, h.res, h.v)
		}
	case "Bits":
		if h.bits.Cmp(h.v) != 0 {
			t.Fatalf("%s: %s = %s want %s", name, h.desc, h.bits, h.v)
		}
	}
	// consume: decode the (live) result back
	switch h.kind {
	case "MarshalBinary", "WriteTo":
		d := f.NewVec(1)
		if err := d.UnmarshalBinary(h.b); err != nil {
			t.Fatalf("%s: UnmarshalBinary of the result of %s %s: %v", name, h.desc, when, err)
		}
		checkDecoded(t, f, "UnmarshalBinary("+h.desc+") "+when, d, h.vals)
	case "Marshal":
		checkVal(t, f, "SetBytes("+h.desc+") "+when, poison(f).SetBytes(h.b), h.v)
	case "MarshalJSON":
		z := poison(f)
		if err := z.UnmarshalJSON(h.b); err != nil {
			t.Fatalf("%s: UnmarshalJSON of the result of %s %s: %v", name, h.desc, when, err)
		}
		checkVal(t, f, "UnmarshalJSON("+h.desc+") "+when, z, h.v)
	case "Text", "String":
		p := prefixes[h.base][0]
		in := p + h.s
		if len(h.s) > 0 && h.s[0] == '-' {
			in = "-" + p + h.s[1:]
		}
		z := poison(f)
		if err := z.SetString(in); err != nil {
			t.Fatalf("%s: SetString(%q) of the result of %s %s: %v", name, in, h.desc, when, err)
		}
		checkVal(t, f, "SetString("+h.desc+") "+when, z, h.v)
	case "BigInt(res)":
		checkVal(t, f, "SetBigInt("+h.desc+") "+when, poison(f).SetBig(h.res), h.v)
	}
	// the operands must still hold their values
	if h.x != nil {
		checkVal(t, f, "operand of "+h.desc+" "+when, h.x, h.v)
	}
	if h.vec != nil {
		checkDecoded(t, f, "operand of "+h.desc+" "+when, h.vec, h.vals)
	}
}

func propHistory(t *rapid.T, f inst.Field) {
	name := f.Name()
	test := "C08_History/" + name
	k := rapid.IntRange(2, 4).Draw(t, "calls")
	focus := rapid.SampledFrom(historyKinds).Draw(t, "focus")
	prevLen := rapid.IntRange(0, 12).Draw(t, "n0")
	held := make([]*heldResult, 0, k)
	key := name + " history"
	for i := 0; i < k; i++ {
		kind := focus
		if rapid.IntRange(0, 2).Draw(t, "other") == 0 {
			kind = rapid.SampledFrom(historyKinds).Draw(t, "kind")
		}
		h := histCall(t, f, kind, i, &prevLen)
		held = append(held, h)
		key += " " + h.desc
	}
	// consume the earlier results only now, in a drawn order
	order := rapid.Permutation(seq(k)).Draw(t, "consume_order")
	for _, i := range order {
		histVerify(t, f, held[i], fmt.Sprintf("after %d later call(s)", k-1-i))
	}
	// scribble over everything that was returned by reference ...
	for _, h := range held {
		for j := range h.b {
			h.b[j] = 0xaa
		}
		if h.res != nil {
			w := h.res.Bits()
			for j := range w {
				w[j] = ^w[j]
			}
			h.res.SetBits(append(w, 0x5555, 0x5555))
			h.res.Neg(h.res)
		}
	}
	// ... and repeat the same conversions on the same operands: they must be unaffected
	for i, h := range held {
		var again *heldResult
		switch h.kind {
		case "MarshalBinary":
			b, err := h.vec.MarshalBinary()
			if err != nil {
				t.Fatalf("%s: second MarshalBinary: %v", name, err)
			}
			again = &heldResult{b: b}
		case "WriteTo":
			var buf bytes.Buffer
			if _, err := h.vec.WriteTo(&buf); err != nil {
				t.Fatalf("%s: second WriteTo: %v", name, err)
			}
			again = &heldResult{b: buf.Bytes()}
		case "Marshal":
			again = &heldResult{b: h.x.Marshal()}
		case "MarshalJSON":
			b, _ := h.x.MarshalJSON()
			again = &heldResult{b: b}
		case "Text":
			again = &heldResult{s: h.x.Text(h.base)}
		case "String":
			again = &heldResult{s: h.x.String()}
		case "BigInt(res)":
			again = &heldResult{res: bigIntInto(h.x, new(big.Int))}
		case "Bits":
			again = &heldResult{bits: bitsOf(h.x)}
		}
		what := fmt.Sprintf("%s: call #%d %s repeated after the returned slices were overwritten", name, i, h.desc)
		switch {
		case again.b != nil || h.wantB != nil:
			if !bytes.Equal(again.b, h.wantB) {
				t.Fatalf("%s = %x want %x", what, again.b, h.wantB)
			}
		case again.res != nil:
			if again.res.Cmp(h.v) != 0 {
				t.Fatalf("%s = %s want %s", what, again.res, h.v)
			}
		case again.bits != nil:
			if again.bits.Cmp(h.v) != 0 {
				t.Fatalf("%s = %s want %s", what, again.bits, h.v)
			}
		default:
			if again.s != h.wantS {
				t.Fatalf("%s = %q want %q", what, again.s, h.wantS)
			}
		}
		if h.x != nil {
			checkVal(t, f, "operand after scribbling over the result of "+h.desc, h.x, h.v)
		}
		if h.vec != nil {
			checkDecoded(t, f, "operand after scribbling over the result of "+h.desc, h.vec, h.vals)
		}
	}
	cl := []string{"history:results_outlive_later_calls", fmt.Sprintf("history:calls=%d", k), "history:focus=" + focus}
	same := 0
	for _, h := range held {
		if h.kind == focus {
			same++
		}
	}
	if same >= 2 {
		cl = append(cl, "history:same_conversion_twice")
	}
	rep.Case(test, key, true, cl...)
}

func seq(n int) []int {
	s := make([]int, n)
	for i := range s {
		s[i] = i
	}
	return s
}

func TestC08_History(t *testing.T) {
	forFields(t, func(t *testing.T, f inst.Field) {
		rapid.Check(t, func(t *rapid.T) { propHistory(t, f) })
	})
}
