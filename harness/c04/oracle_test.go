package c04

// The oracle. Every input point is an element of a table whose discrete logarithm with respect to
// the validated generator G is known to the harness:
//
//   - pool table (a): P_k = [a_k]G computed by the REFERENCE (ref.Curve.Mul on inst's generator);
//   - multiples table (b): [1]G..[m]G computed by the library's BatchScalarMultiplication and then
//     validated against the reference (every entry up to 2^15 by the reference chord-and-tangent
//     chain T[j] = T[j-1] + G; above that the ends and 256 sampled entries through ref.Mul).
//
// For an input (±T[idx_i] or O, s_i) the expected MSM value is
//     Σ_k [Σ_{i→k} ±s_i mod r] P_k  =  [ Σ_i ±s_i·dlog(idx_i) mod r ] G
// and is evaluated by the reference with a single scalar multiplication (G has prime order r,
// validated by inst.GetCurve), independent of n and of the pool size.

import (
	"fmt"
	"math/big"
	"sync"

	"verif/harness/internal/inst"
	"verif/harness/internal/ref"
)

type table struct {
	h      tableH
	dlog   func(j int) *big.Int
	n      int
	kind   string
	id     uint8  // 1 pool, 2 multiples, 3 powers of two
	letter string // P / T / W in case descriptions
}

type groupCtx struct {
	ad     adapter
	g      *inst.Group
	m      *model
	r      *big.Int
	once   sync.Once
	pool   *table
	p2once sync.Once
	pow2   *table
	mu     sync.Mutex
	mgen   int // generation of the multiples table that was validated
}

var (
	ctxMu sync.Mutex
	ctxs  = map[string]*groupCtx{}
)

func getCtx(ad adapter) *groupCtx {
	ctxMu.Lock()
	defer ctxMu.Unlock()
	if c, ok := ctxs[ad.ID()]; ok {
		return c
	}
	g := ad.Grp()
	c := &groupCtx{ad: ad, g: g, m: newModel(ad), r: g.R}
	ctxs[ad.ID()] = c
	return c
}

// splitmix64: deterministic expansion of rapid-drawn (or fixed) seeds.
type prng struct{ s uint64 }

func (p *prng) Uint64() uint64 {
	p.s += 0x9e3779b97f4a7c15
	z := p.s
	z = (z ^ (z >> 30)) * 0xbf58476d1ce4e5b9
	z = (z ^ (z >> 27)) * 0x94d049bb133111eb
	return z ^ (z >> 31)
}

func (p *prng) Intn(n int) int { return int(p.Uint64() % uint64(n)) }

func (p *prng) Big(r *big.Int) *big.Int {
	nw := (r.BitLen()+63)/64 + 1
	w := make([]big.Word, nw)
	for i := range w {
		w[i] = big.Word(p.Uint64())
	}
	v := new(big.Int).SetBits(w)
	return v.Mod(v, r)
}

// poolSize: reference multiplications cost 1–5 ms in G1 and 10–100 ms in G2.
func poolSize(ad adapter) int {
	if ad.GName() == "G2" {
		return 24
	}
	return 64
}

// Pool returns the reference-computed pool (cached per process).
func (c *groupCtx) Pool() *table {
	c.once.Do(func() {
		K := poolSize(c.ad)
		rnd := &prng{s: 0xC04}
		as := make([]*big.Int, K)
		ptrs := make([]interface{}, K)
		var prev ref.Pt
		for k := 0; k < K; k++ {
			var p ref.Pt
			switch {
			case k == 0:
				as[k] = big.NewInt(1)
			case k == 1: // -G, the opposite of pool[0], computed as [r-1]G
				as[k] = new(big.Int).Sub(c.r, big.NewInt(1))
			case k == 2:
				as[k] = big.NewInt(2)
			case k%3 == 0:
				as[k] = big.NewInt(int64(3 + rnd.Intn(1<<16)))
			case k%3 == 1:
				as[k] = rnd.Big(c.r)
			default: // the opposite of the previous pool point, by reference negation
				as[k] = new(big.Int).Sub(c.r, as[k-1])
				p = c.g.E.Neg(prev)
			}
			if p.X == nil {
				p = c.g.E.Mul(as[k], c.g.Gen)
			}
			prev = p
			if p.Inf || !c.g.E.OnCurve(p) {
				panic("c04: bad pool point")
			}
			ptrs[k] = c.g.FromRef(p)
		}
		c.pool = &table{h: c.ad.TableFrom(ptrs), n: K, kind: "pool", id: 1, letter: "P", dlog: func(j int) *big.Int { return as[j] }}
	})
	return c.pool
}

// Multiples returns the validated table [1]G..[n]G (a prefix of the cached library table). The
// whole cached table is (re)validated each time the library recomputed it: every entry up to 2^15
// by the reference addition chain T[j] = T[j-1] + G, and above that the ends plus 256 sampled
// entries by reference scalar multiplication. A validation failure is a disagreement between the
// library's BatchScalarMultiplication and the reference (reported as such).
func (c *groupCtx) Multiples(n int) (*table, error) {
	c.mu.Lock()
	defer c.mu.Unlock()
	h, gen := c.ad.Multiples(n)
	if gen != c.mgen {
		E := c.g.E
		m := c.ad.Len(h)
		cur := ref.Pt{Inf: true}
		chain := min(m, 1<<15)
		for j := 0; j < chain; j++ {
			cur = E.Add(cur, c.g.Gen)
			if got := c.g.ToRef(c.ad.At(h, j)); !E.Eq(got, cur) {
				return nil, fmt.Errorf("%s: BatchScalarMultiplication(G, 1..%d)[%d] != [%d]G by the reference chain: got %s want %s", c.ad.ID(), m, j, j+1, E.Str(got), E.Str(cur))
			}
		}
		if m > chain {
			rnd := &prng{s: uint64(m)}
			idx := []int{chain, m - 2, m - 1}
			for k := 0; k < 256; k++ {
				idx = append(idx, chain+rnd.Intn(m-chain))
			}
			for _, j := range idx {
				want := E.Mul(big.NewInt(int64(j+1)), c.g.Gen)
				if got := c.g.ToRef(c.ad.At(h, j)); !E.Eq(got, want) {
					return nil, fmt.Errorf("%s: BatchScalarMultiplication(G, 1..%d)[%d] != [%d]G by the reference: got %s want %s", c.ad.ID(), m, j, j+1, E.Str(got), E.Str(want))
				}
			}
		}
		c.mgen = gen
	}
	return &table{h: h, n: n, kind: "mult", id: 2, letter: "T", dlog: func(j int) *big.Int { return big.NewInt(int64(j + 1)) }}, nil
}

// Pow2 returns the reference-computed table W_e = [2^e]G, e = 0..bits-1 (repeated reference doubling).
func (c *groupCtx) Pow2() *table {
	c.p2once.Do(func() {
		nb := c.m.bits
		ptrs := make([]interface{}, nb)
		cur := c.g.Gen
		for e := 0; e < nb; e++ {
			if cur.Inf || !c.g.E.OnCurve(cur) {
				panic("c04: bad power-of-two point")
			}
			ptrs[e] = c.g.FromRef(cur)
			cur = c.g.E.Double(cur)
		}
		c.pow2 = &table{h: c.ad.TableFrom(ptrs), n: nb, kind: "pow2", id: 3, letter: "W", dlog: func(j int) *big.Int {
			return new(big.Int).Lsh(big.NewInt(1), uint(j))
		}}
	})
	return c.pow2
}

// expected evaluates [Σ sign_i s_i dlog_i mod r] G with the reference.
func (c *groupCtx) expectedDlog(tableOf func(i int) *table, idx []int32, neg []bool, sc []*big.Int) *big.Int {
	acc := new(big.Int)
	tmp := new(big.Int)
	for i, j := range idx {
		if j < 0 || sc[i].Sign() == 0 {
			continue
		}
		tmp.Mul(sc[i], tableOf(i).dlog(int(j)))
		if neg[i] {
			acc.Sub(acc, tmp)
		} else {
			acc.Add(acc, tmp)
		}
	}
	return acc.Mod(acc, c.r)
}

func (c *groupCtx) point(dlog *big.Int) ref.Pt { return c.g.E.Mul(dlog, c.g.Gen) }
