// Package c04: MultiExp / Fold return the exact linear combination for every input, configuration
// and schedule; invalid configurations are reported as errors; every call terminates.
package c04

import (
	"fmt"
	"math"
	"math/big"
	"os"
	"regexp"
	"runtime"
	"sort"
	"strings"
	"testing"

	"pgregory.net/rapid"

	"verif/harness/internal/ref"
	"verif/harness/internal/rep"
)

func TestMain(m *testing.M) { rep.Main(m) }

func selected(name string) bool {
	p := os.Getenv("VERIF_INST")
	if p == "" {
		return true
	}
	ok, _ := regexp.MatchString(p, name)
	return ok
}

func forGroups(t *testing.T, body func(t *testing.T, ad adapter)) {
	for _, ad := range allGroups {
		if !selected(ad.ID()) {
			continue
		}
		ad := ad
		t.Run(strings.ReplaceAll(ad.ID(), "/", "_"), func(t *testing.T) { body(t, ad) })
	}
}

var gmpValues = []int{1, 2, 3, 8, 16}

type config struct {
	nbTasks int
	class   string // default | sem | ge_ncpu
	gmp     int
	recv    int
}

func (c config) String() string {
	return fmt.Sprintf("nbTasks=%d(%s) GOMAXPROCS=%d recv=%s", c.nbTasks, c.class, c.gmp, recvName[c.recv])
}

func drawConfig(t *rapid.T, label string) config {
	ncpu := runtime.NumCPU()
	var c config
	classes := []string{"default", "sem", "ge_ncpu"}
	if ncpu < 2 {
		classes = []string{"default", "ge_ncpu"}
	}
	c.class = rapid.SampledFrom(classes).Draw(t, label+"class")
	switch c.class {
	case "default":
		// "not set" is NbTasks <= 0: zero and negative values, small and extreme
		c.nbTasks = rapid.SampledFrom([]int{0, 0, -1, -1, -2, -16, -1000, math.MinInt32, math.MinInt64}).Draw(t, label+"nb")
	case "sem":
		c.nbTasks = rapid.IntRange(1, ncpu-1).Draw(t, label+"nb")
	default:
		c.nbTasks = rapid.SampledFrom([]int{ncpu, ncpu + 1, 2*ncpu - 1, 2 * ncpu, 2*ncpu + 1, 64, 100, 512, 1023, 1024}).Draw(t, label+"nb")
	}
	c.gmp = rapid.SampledFrom(gmpValues).Draw(t, label+"gmp")
	c.recv = rapid.IntRange(0, 1).Draw(t, label+"recv")
	return c
}

// taskLattice is the set NbTasks values are drawn from (valid ones).
func taskLattice() []int {
	ncpu := runtime.NumCPU()
	l := []int{0, -1}
	for k := 1; k < ncpu; k++ {
		l = append(l, k)
	}
	return append(l, ncpu, ncpu+1, 2*ncpu-1, 2*ncpu, 2*ncpu+1, 64, 100, 512, 1023, 1024)
}

func classOfTasks(nb int) string {
	switch {
	case nb <= 0:
		return "default"
	case nb < runtime.NumCPU():
		return "sem"
	case nb <= 1024:
		return "ge_ncpu"
	}
	return ">1024"
}

// drawConfigFor prefers (2 out of 3) a task count under which the schedule model predicts that the
// call on n points is not halved, so that the window size targeted by n is the one really used.
func drawConfigFor(t *rapid.T, m *model, n int, label string) config {
	c := drawConfig(t, label)
	if rapid.IntRange(0, 2).Draw(t, label+"free") == 0 {
		return c
	}
	var ok []int
	for _, nb := range taskLattice() {
		if len(m.plan(n, nb)) == 1 {
			ok = append(ok, nb)
		}
	}
	if len(ok) == 0 {
		return c
	}
	c.nbTasks = rapid.SampledFrom(ok).Draw(t, label+"nbNoSplit")
	c.class = classOfTasks(c.nbTasks)
	return c
}

func withGOMAXPROCS(k int, f func()) {
	old := runtime.GOMAXPROCS(k)
	defer runtime.GOMAXPROCS(old)
	f()
}

func shapeOf(ad adapter, n, gmp int) string {
	b := 0
	for x := n; x > 0; x >>= 1 {
		b++
	}
	return fmt.Sprintf("%s/2^%d/p%d", ad.ID(), b, gmp)
}

// callMSM runs one guarded library call.
func callMSM(t fataler, ad adapter, in inputH, cfg config, dScalars int, desc string) callRes {
	var res callRes
	var m0, m1 runtime.MemStats
	measure := !raceEnabled && in.Len() >= allocMinN
	withGOMAXPROCS(cfg.gmp, func() {
		if measure {
			runtime.ReadMemStats(&m0)
		}
		guarded(t, shapeOf(ad, in.Len(), cfg.gmp), desc+" "+cfg.String(), in.Len(), func() {
			res = in.MultiExp(cfg.recv, cfg.nbTasks, dScalars)
		})
		if measure {
			runtime.ReadMemStats(&m1)
			lastAlloc = m1.TotalAlloc - m0.TotalAlloc
		}
	})
	if !measure {
		lastAlloc = 0
	}
	return res
}

// Black-box confirmation of the window size really used: the digit table of an unsplit call is
// make([]uint16, n*nbChunks(c)), which dominates the bytes allocated during the call for large n,
// so round(bytes/(2n)) reveals nbChunks(c). Used for a label only, never for a verdict.
const allocMinN = 40000

var lastAlloc uint64

func confirmC(m *model, n, nbTasks int) (string, bool) {
	lv := m.plan(n, nbTasks)
	if lastAlloc == 0 || len(lv) != 1 || n < allocMinN {
		return "", false
	}
	implied := int((lastAlloc + uint64(n)) / uint64(2*n))
	if implied == m.nbChunks(lv[0].c) {
		return fmt.Sprintf("c:%d/confirmed_by_allocation", lv[0].c), true
	}
	return fmt.Sprintf("window size not confirmed by allocation: n=%d nbTasks=%d model c=%d (nbChunks %d) but bytes/(2n)=%d", n, nbTasks, lv[0].c, m.nbChunks(lv[0].c), implied), false
}

// checkResult compares a successful call with the expected reference point.
func checkResult(t fataler, cx *groupCtx, res callRes, want ref.Pt, desc string) {
	g, E := cx.g, cx.g.E
	if res.err != nil {
		t.Fatalf("%s: unexpected error %v", desc, res.err)
	}
	if res.retNil {
		t.Fatalf("%s: nil error and nil result pointer", desc)
	}
	if got := g.ToRef(res.aff); !E.OnCurve(got) {
		t.Fatalf("%s: the result is not a point of the curve: %s (want %s)", desc, E.Str(got), E.Str(want))
	}
	if res.jac != nil {
		if got := g.JacToRef(res.jac); !E.OnCurve(got) {
			t.Fatalf("%s: the Jacobian result (X/Z^2, Y/Z^3 by the reference) is not a point of the curve: %s (want %s)", desc, E.Str(got), E.Str(want))
		}
	}
	if got := g.ToRef(res.aff); !E.Eq(got, want) {
		t.Fatalf("%s: wrong result:\n got  %s\n want %s", desc, E.Str(got), E.Str(want))
	}
	if res.jac != nil {
		if got := g.JacToRef(res.jac); !E.Eq(got, want) {
			t.Fatalf("%s: wrong Jacobian result (X/Z^2, Y/Z^3 by the reference):\n got  %s\n want %s", desc, E.Str(got), E.Str(want))
		}
	}
}

// labels derives the class labels of one call from the schedule model.
type callLabels struct {
	classes    []string
	nontrivial bool
	cs         []int
}

func labelsFor(cs *msmCase, ms multiset, cfg config, withStats bool) callLabels {
	m := cs.cx.m
	var out callLabels
	add := func(s string) { out.classes = append(out.classes, s) }
	add("nbtasks:" + cfg.class)
	if cfg.nbTasks < 0 {
		add("nbtasks:negative")
		add(fmt.Sprintf("nbtasks:negative/%s/%s%s", cs.cx.ad.GName(), cs.entry, recvName[cfg.recv]))
	} else if cfg.nbTasks == 0 {
		add("nbtasks:zero")
	}
	add(fmt.Sprintf("gomaxprocs:%d", cfg.gmp))
	add("recv:" + recvName[cfg.recv])
	add("scalars:" + cs.scClass)
	add("points:" + cs.ptClass)
	add("group:" + cs.cx.ad.ID())
	switch {
	case cs.n <= 3:
		add(fmt.Sprintf("n:%d", cs.n))
	case cs.n < 49:
		add("n:4..48")
	}
	if ms.repeat {
		add("multiset:repeat")
	}
	if ms.opposite {
		add("multiset:opposite")
	}
	if ms.infinity {
		add("multiset:infinity")
	}
	if ms.distinct {
		add("multiset:distinct")
	}
	if ms.zeroScalar {
		add("scalar:zero_present")
	}
	if ms.maxScalar {
		add("scalar:r-1_present")
	}
	if cs.tie {
		add("scalars_tied_pairwise")
	}
	if strings.HasPrefix(cs.ptClass, "cancel:") {
		add(cs.ptClass + "/recv:" + recvName[cfg.recv])
		if cs.n >= 769 {
			add(cs.ptClass + "/n>=769")
		}
	}
	if cs.exp != nil && cs.exp.Sign() == 0 && cs.n >= 2 && !ms.allTrivial {
		add("result:O_by_cancellation")
	}
	leaves := m.plan(cs.n, cfg.nbTasks)
	seen := map[int]bool{}
	depth := 0
	var batch, jac, over bool
	var lastCarry, collide bool
	for _, lf := range leaves {
		if !seen[lf.c] {
			seen[lf.c] = true
			out.cs = append(out.cs, lf.c)
		}
		if lf.depth > depth {
			depth = lf.depth
		}
		if withStats && lf.hi > lf.lo {
			st := m.stats(lf, cs.sc)
			batch = batch || st.batchAffine > 0
			jac = jac || st.jacobian > 0
			over = over || st.overweight > 0
			lastCarry = lastCarry || st.lastCarry
			collide = collide || st.conflict
		}
	}
	sort.Ints(out.cs)
	for _, c := range out.cs {
		add(fmt.Sprintf("c:%d", c))
		if batch && c >= 10 {
			add(fmt.Sprintf("c:%d/batch-affine", c))
		}
	}
	if depth > 0 {
		add("split:recursive")
		if depth >= 3 {
			add("split:depth>=3")
		}
	} else {
		add("split:none")
	}
	if batch {
		add("proc:batch-affine")
		if collide && (ms.repeat || ms.opposite) {
			add("batch-affine:bucket_collisions_with_repeat_or_opposite")
		} else if collide {
			add("batch-affine:bucket_collisions")
		}
	}
	if jac {
		add("proc:jacobian-extended")
	}
	if over {
		add("overweight_chunk_split")
		if cfg.class == "sem" {
			add("overweight_chunk_split+semaphore")
		}
	}
	if lastCarry {
		add("carry_into_last_window")
	}
	out.nontrivial = cs.n >= 2 && (ms.repeat || ms.opposite || ms.infinity || ms.zeroScalar || ms.maxScalar ||
		cfg.class == "sem" || batch || over || strings.HasPrefix(cs.ptClass, "cancel:"))
	return out
}

// sizes ------------------------------------------------------------------------------------------

func maxN() int { return rep.EnvInt("VERIF_C04_MAXN", 1<<30) }

// drawWindowN picks a window size among cands and an n that selects it (for an unsplit call).
func drawWindowN(t *rapid.T, m *model, cands []int, th map[int]int, limit int) (int, int) {
	c := rapid.SampledFrom(cands).Draw(t, "c")
	lo := th[c]
	hi := limit
	keys := sortedKeys(th)
	for i, k := range keys {
		if k == c && i+1 < len(keys) {
			hi = th[keys[i+1]] - 1
		}
	}
	if hi > limit {
		hi = limit
	}
	if hi < lo {
		hi = lo
	}
	span := hi - lo + 1
	var n int
	switch rapid.IntRange(0, 7).Draw(t, "npos") {
	case 0, 1:
		n = lo + rapid.IntRange(0, min(span, 3)-1).Draw(t, "noff")
	case 2: // just below the next threshold (rarely: it is the most expensive size of the class)
		n = hi - rapid.IntRange(0, min(span, 3)-1).Draw(t, "noff")
	case 3, 4:
		n = lo + rapid.IntRange(0, min(span, 64)-1).Draw(t, "noff")
	default:
		n = lo + rapid.IntRange(0, min(span, max(lo/4, 64))-1).Draw(t, "noff")
	}
	return c, n
}

// the property --------------------------------------------------------------------------------------

type mode struct {
	name string
	cmin int
	cmax int
}

func propMSM(t *rapid.T, ad adapter, md mode) {
	cx := getCtx(ad)
	m := cx.m
	test := "C04_" + md.name + "/" + ad.ID()
	cs := &msmCase{cx: cx}
	limit := min(maxN(), 600000)
	th := m.thresholds(limit)
	var targetC int
	if md.name == "Small" {
		cs.n = rapid.OneOf(rapid.IntRange(0, 8), rapid.IntRange(0, 64), rapid.SampledFrom([]int{0, 1, 2, 3, 47, 48, 49, 50})).Draw(t, "n")
		targetC = m.bestC(cs.n)
	} else {
		var cands []int
		for _, c := range sortedKeys(th) {
			if c >= md.cmin && c <= md.cmax {
				cands = append(cands, c)
			}
		}
		if len(cands) == 0 {
			t.Skip("no window size in range for this group")
		}
		targetC, cs.n = drawWindowN(t, m, cands, th, limit)
	}
	cfg := drawConfigFor(t, m, cs.n, "cfg1_")
	// one case in three is a constructed cancellation (total / window / bucket / leaf sums exactly O)
	cancel := ""
	if cs.n >= 2 && rapid.IntRange(0, 2).Draw(t, "cancel") == 0 {
		cancel = rapid.SampledFrom(cancelKinds).Draw(t, "cancelKind")
		if cancel == "emb_leaf" { // needs a task count under which the call is halved
			var split []int
			for _, nb := range taskLattice() {
				if len(m.plan(cs.n, nb)) > 1 {
					split = append(split, nb)
				}
			}
			if len(split) > 0 {
				cfg.nbTasks = rapid.SampledFrom(split).Draw(t, "nbSplit")
				cfg.class = classOfTasks(cfg.nbTasks)
			}
		}
	}
	// the window the (first leaf of the) schedule will really use under this task count
	c := targetC
	if lv := m.plan(cs.n, cfg.nbTasks); len(lv) > 0 {
		c = lv[0].c
	}
	var s src
	if cs.n <= 48 {
		s = rapidSrc{t}
	} else {
		s = &prng{s: rapid.Uint64().Draw(t, "seed")}
	}
	const tableErr = "input table validation failed (library BatchScalarMultiplication vs reference — C03 territory, found while preparing C04 inputs): %v"
	if cancel != "" {
		ok, err := cs.genCancel(s, cancel, c, m.plan(cs.n, cfg.nbTasks))
		if err != nil {
			t.Fatalf(tableErr, err)
		}
		if !ok { // the shape does not allow this construction: total cancellation always works
			cancel = "total"
			cs.tbs, cs.note = nil, ""
			if _, err := cs.genCancel(s, cancel, c, nil); err != nil {
				t.Fatalf(tableErr, err)
			}
		}
	} else {
		ptClass := rapid.SampledFrom(ptClasses).Draw(t, "points")
		scClass := rapid.SampledFrom(scClasses).Draw(t, "scalars")
		if err := cs.genPoints(s, ptClass); err != nil {
			t.Fatalf(tableErr, err)
		}
		cs.genScalars(s, scClass, c)
		if (ptClass == "opposite" || ptClass == "repeat" || ptClass == "runs" || ptClass == "pool_small") && rapid.Bool().Draw(t, "tie") {
			cs.tieScalars()
		}
	}
	cs.build()
	want := cx.point(cs.exp)
	ms := cs.measure()
	desc := cs.describe()
	hash := cs.hash()

	run := func(in inputH, cfg config, extra ...string) callRes {
		res := callMSM(t, ad, in, cfg, 0, desc)
		return res
	}
	record := func(cfg config, extra ...string) {
		lb := labelsFor(cs, ms, cfg, true)
		if txt, ok := confirmC(m, cs.n, cfg.nbTasks); ok {
			extra = append(extra, txt)
		} else if txt != "" {
			// other heap allocations of the call (bucket arrays that do not fit a goroutine stack, G2 / wide
			// fields) drown the digit table: no confirmation either way, counted only
			extra = append(extra, "c:unconfirmed_by_allocation")
		}
		key := fmt.Sprintf("%s %s h=%016x", desc, cfg, hash)
		rep.Case(test, key, lb.nontrivial, append(lb.classes, extra...)...)
	}

	// 1. first configuration against the oracle
	r1 := run(cs.in, cfg)
	checkResult(t, cx, r1, want, desc+" "+cfg.String())
	record(cfg)

	// 2. a second configuration (other task count / GOMAXPROCS / receiver): same bytes
	if cs.n <= 256 || rapid.IntRange(0, 1).Draw(t, "second") == 0 {
		cfg2 := drawConfig(t, "cfg2_")
		if cs.n <= 256 {
			cfg2.recv = 1 - cfg.recv
		}
		r2 := run(cs.in, cfg2)
		checkResult(t, cx, r2, want, desc+" "+cfg2.String())
		if !cs.in.SameAff(r1.aff, r2.aff) {
			t.Fatalf("%s: result depends on the configuration: [%s] and [%s] give different affine bytes", desc, cfg, cfg2)
		}
		record(cfg2, "meta:config_independent")
	}

	// 3. metamorphic relations
	if cs.n >= 2 {
		switch rapid.IntRange(0, 5).Draw(t, "meta") {
		case 0: // MSM(A‖B) = MSM(A) + MSM(B), sum by the reference
			cut := rapid.IntRange(0, cs.n).Draw(t, "cut")
			cfa, cfb := drawConfig(t, "cfgA_"), drawConfig(t, "cfgB_")
			ra := callMSM(t, ad, cs.in.Slice(0, cut), cfa, 0, desc+fmt.Sprintf(" part [0,%d)", cut))
			rb := callMSM(t, ad, cs.in.Slice(cut, cs.n), cfb, 0, desc+fmt.Sprintf(" part [%d,n)", cut))
			if ra.err != nil || rb.err != nil {
				t.Fatalf("%s: split parts returned errors %v / %v", desc, ra.err, rb.err)
			}
			sum := cx.g.E.Add(cx.g.ToRef(ra.aff), cx.g.ToRef(rb.aff))
			if !cx.g.E.Eq(sum, want) {
				t.Fatalf("%s: MSM(A)+MSM(B) != MSM(A‖B) at cut %d:\n got  %s\n want %s", desc, cut, cx.g.E.Str(sum), cx.g.E.Str(want))
			}
			rep.Case(test, fmt.Sprintf("%s split@%d h=%016x", desc, cut, hash), cs.n >= 2, "meta:split")
		case 1: // permutation invariance
			perm := make([]int32, cs.n)
			for i := range perm {
				perm[i] = int32(i)
			}
			ps := &prng{s: rapid.Uint64().Draw(t, "permseed")}
			for i := cs.n - 1; i > 0; i-- {
				j := ps.Intn(i + 1)
				perm[i], perm[j] = perm[j], perm[i]
			}
			cfp := drawConfig(t, "cfgP_")
			rp := callMSM(t, ad, cs.in.Permuted(perm), cfp, 0, desc+" permuted")
			checkResult(t, cx, rp, want, desc+" permuted "+cfp.String())
			if !cs.in.SameAff(r1.aff, rp.aff) {
				t.Fatalf("%s: a permutation of the inputs changes the affine bytes of the result", desc)
			}
			rep.Case(test, fmt.Sprintf("%s perm h=%016x", desc, hash), cs.n >= 2, "meta:permutation")
		}
	}
}

func TestC04_Small(t *testing.T) {
	forGroups(t, func(t *testing.T, ad adapter) {
		rapid.Check(t, func(t *rapid.T) { propMSM(t, ad, mode{"Small", 0, 0}) })
	})
}

// TestC04_Window: sizes inducing the window sizes up to VERIF_C04_CMAX (13 by default).
func TestC04_Window(t *testing.T) {
	forGroups(t, func(t *testing.T, ad adapter) {
		rapid.Check(t, func(t *rapid.T) {
			propMSM(t, ad, mode{"Window", rep.EnvInt("VERIF_C04_CMIN", 4), rep.EnvInt("VERIF_C04_CMAX", 13)})
		})
	})
}

// TestC04_Big: the large window sizes (14..16 by default).
func TestC04_Big(t *testing.T) {
	forGroups(t, func(t *testing.T, ad adapter) {
		rapid.Check(t, func(t *rapid.T) {
			propMSM(t, ad, mode{"Big", rep.EnvInt("VERIF_C04_CMIN", 14), rep.EnvInt("VERIF_C04_CMAX", 16)})
		})
	})
}

// Fold ---------------------------------------------------------------------------------------------

func propFold(t *rapid.T, ad adapter) {
	cx := getCtx(ad)
	m := cx.m
	test := "C04_Fold/" + ad.ID()
	cs := &msmCase{cx: cx}
	limit := min(maxN(), rep.Scale(2000, 12000))
	if rapid.IntRange(0, 2).Draw(t, "nsel") > 0 {
		cs.n = rapid.IntRange(0, 40).Draw(t, "n")
	} else {
		th := m.thresholds(limit)
		_, cs.n = drawWindowN(t, m, sortedKeys(th), th, limit)
	}
	cfg := drawConfig(t, "cfg_")
	var s src
	if cs.n <= 48 {
		s = rapidSrc{t}
	} else {
		s = &prng{s: rapid.Uint64().Draw(t, "seed")}
	}
	ptClass := rapid.SampledFrom(ptClasses).Draw(t, "points")
	if err := cs.genPoints(s, ptClass); err != nil {
		t.Fatalf("input table validation failed (library BatchScalarMultiplication vs reference): %v", err)
	}
	kinds := []string{"zero", "one", "two", "rm1", "rm2", "half", "uniform", "uniform", "small", "digit"}
	kind := rapid.SampledFrom(kinds).Draw(t, "coeff")
	coeff := oneScalar(s, kind, m.bestC(cs.n), m.bits, cx.r)
	// Fold's documentation: sum_{i=0}^{len-1} points[i] * coeff^i
	cs.sc = make([]*big.Int, cs.n)
	pw := big.NewInt(1)
	for i := range cs.sc {
		cs.sc[i] = pw
		pw = new(big.Int).Mul(pw, coeff)
		pw.Mod(pw, cx.r)
	}
	cs.scClass = "fold:" + kind
	cs.entry = "fold_"
	cs.build()
	want := cx.point(cs.exp)
	desc := cs.describe() + " Fold coeff=" + coeff.Text(16)
	var res callRes
	withGOMAXPROCS(cfg.gmp, func() {
		guarded(t, shapeOf(ad, cs.n, cfg.gmp), desc+" "+cfg.String(), cs.n, func() {
			res = cs.in.Fold(cfg.recv, coeff, cfg.nbTasks)
		})
	})
	checkResult(t, cx, res, want, desc+" "+cfg.String())
	ms := cs.measure()
	lb := labelsFor(cs, ms, cfg, true)
	rep.Case(test, fmt.Sprintf("%s %s h=%016x", desc, cfg, cs.hash()), cs.n >= 2, append(lb.classes, "fold", "fold_coeff:"+kind)...)
	// invalid task count
	if rapid.IntRange(0, 3).Draw(t, "bad") == 0 {
		nb := rapid.SampledFrom(badTasks).Draw(t, "nbBad")
		var rb callRes
		guarded(t, shapeOf(ad, cs.n, 0), desc+" bad NbTasks", cs.n, func() { rb = cs.in.Fold(cfg.recv, coeff, nb) })
		if rb.err == nil {
			t.Fatalf("%s: Fold with NbTasks=%d returned no error", desc, nb)
		}
		rep.Case(test, fmt.Sprintf("%s nb=%d", desc, nb), true, "fold", "nbtasks:>1024_error")
	}
}

func TestC04_Fold(t *testing.T) {
	forGroups(t, func(t *testing.T, ad adapter) {
		rapid.Check(t, func(t *rapid.T) { propFold(t, ad) })
	})
}

// Errors -------------------------------------------------------------------------------------------

var badTasks = []int{1025, 1026, 2048, 1 << 20, math.MaxInt32, math.MaxInt64}

func propErrors(t *rapid.T, ad adapter) {
	cx := getCtx(ad)
	test := "C04_Errors/" + ad.ID()
	cs := &msmCase{cx: cx}
	cs.n = rapid.IntRange(0, 60).Draw(t, "n")
	s := rapidSrc{t}
	if err := cs.genPoints(s, rapid.SampledFrom([]string{"pool", "distinct", "infinity"}).Draw(t, "points")); err != nil {
		t.Fatalf("input table validation failed: %v", err)
	}
	cs.genScalars(&prng{s: rapid.Uint64().Draw(t, "seed")}, "uniform", 4)
	cs.build()
	cfg := drawConfig(t, "cfg_")
	kind := rapid.SampledFrom([]string{"len", "tasks", "both"}).Draw(t, "kind")
	d := 0
	if kind != "tasks" {
		if cs.n > 0 && rapid.Bool().Draw(t, "shorter") {
			d = -rapid.IntRange(1, cs.n).Draw(t, "d")
		} else {
			d = rapid.IntRange(1, 3).Draw(t, "d")
		}
	}
	if kind != "len" {
		cfg.nbTasks = rapid.SampledFrom(badTasks).Draw(t, "nbBad")
		cfg.class = ">1024"
	}
	desc := fmt.Sprintf("%s error case %s: len(scalars)-len(points)=%d", cs.describe(), kind, d)
	res := callMSM(t, ad, cs.in, cfg, d, desc)
	if res.err == nil {
		t.Fatalf("%s %s: no error returned", desc, cfg)
	}
	var classes []string
	if kind != "tasks" {
		classes = append(classes, "len_mismatch_error")
	}
	if kind != "len" {
		classes = append(classes, "nbtasks:>1024_error")
	}
	classes = append(classes, "recv:"+recvName[cfg.recv], fmt.Sprintf("gomaxprocs:%d", cfg.gmp))
	rep.Case(test, desc+" "+cfg.String(), true, classes...)
	// positive control at the boundary: 1024 tasks is valid
	if kind == "tasks" && rapid.Bool().Draw(t, "control") {
		cfg.nbTasks, cfg.class = 1024, "ge_ncpu"
		r := callMSM(t, ad, cs.in, cfg, 0, desc)
		checkResult(t, cx, r, cx.point(cs.exp), cs.describe()+" "+cfg.String())
		rep.Case(test, cs.describe()+" "+cfg.String(), cs.n >= 2, "nbtasks:1024_boundary_ok")
	}
}

func TestC04_Errors(t *testing.T) {
	forGroups(t, func(t *testing.T, ad adapter) {
		rapid.Check(t, func(t *rapid.T) { propErrors(t, ad) })
	})
}
