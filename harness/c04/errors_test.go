package c04

// The error clause as a PRODUCT, not a sample: for every group, every entry point
// (Affine.MultiExp, Jac.MultiExp, Affine.Fold, Jac.Fold) x every size class (0, 1, 2, small, large)
// x every error kind (fewer scalars than points, more scalars than points, NbTasks > 1024, and both
// combinations) must return a non-nil error, and must return at all. Each cell is executed for
// several out-of-range task counts / length differences; specific sizes and values inside a cell
// come from the rapid seed. Fold has no scalar vector: only the task-count kind applies to it.
// Every cell is a mandatory class (err:<kind>/n=<class>/<entry>), so a run that skipped one is
// reported inconclusive.

import (
	"fmt"
	"math/big"
	"runtime"
	"testing"

	"pgregory.net/rapid"

	"verif/harness/internal/rep"
)

var errKinds = []string{"nbtasks", "len_short", "len_long", "len_short+nbtasks", "len_long+nbtasks"}
var errSizes = []string{"0", "1", "2", "small", "large"}

func propErrorsProduct(t *rapid.T, ad adapter) {
	cx := getCtx(ad)
	test := "C04_ErrorsProduct/" + ad.ID()
	seed := rapid.Uint64().Draw(t, "seed")
	s := &prng{s: seed}
	for _, size := range errSizes {
		var n int
		switch size {
		case "0", "1", "2":
			n = int(size[0] - '0')
		case "small":
			n = 3 + s.Intn(46)
		default:
			n = 800 + s.Intn(2400) // window sizes 8..9/10: the regular multi-chunk path
		}
		cs := &msmCase{cx: cx, n: n}
		if err := cs.genPoints(s, []string{"pool", "distinct", "infinity", "pool_small"}[s.Intn(4)]); err != nil {
			t.Fatalf("input table validation failed: %v", err)
		}
		cs.genScalars(s, []string{"uniform", "one", "mixed", "zero"}[s.Intn(4)], 4)
		cs.build()
		for _, kind := range errKinds {
			for recv := 0; recv <= 1; recv++ {
				// --- MultiExp
				var ds []int
				switch kind {
				case "nbtasks":
					ds = []int{0}
				case "len_short", "len_short+nbtasks":
					if n == 0 {
						continue // a scalar vector cannot be shorter than an empty point vector
					}
					ds = []int{-1, -n}
					if n > 2 {
						ds = append(ds, -(1 + s.Intn(n-1)))
					}
				default:
					ds = []int{1, 2, 1 + s.Intn(n+5)}
				}
				tasks := []int{0, 1, runtime.NumCPU(), 1024, -1}
				if kind != "len_short" && kind != "len_long" {
					tasks = badTasks
				}
				for _, d := range ds {
					for _, nb := range tasks {
						cfg := config{nbTasks: nb, class: classOfTasks(nb), gmp: gmpValues[s.Intn(len(gmpValues))], recv: recv}
						desc := fmt.Sprintf("%s error product %s: len(scalars)-len(points)=%d", cs.describe(), kind, d)
						res := callMSM(t, ad, cs.in, cfg, d, desc)
						if res.err == nil {
							t.Fatalf("%s %s: %s.MultiExp returned no error", desc, cfg, ad.GName()+[]string{"Affine", "Jac"}[recv])
						}
						rep.Case(test, desc+" "+cfg.String(), true,
							fmt.Sprintf("err:%s/n=%s/%s%s.MultiExp", kind, size, ad.GName(), []string{"Affine", "Jac"}[recv]),
							"err:"+kind, "err:n="+size)
					}
				}
				// --- Fold (task count only)
				if kind != "nbtasks" {
					continue
				}
				coeff := []*big.Int{big.NewInt(0), big.NewInt(1), big.NewInt(2), srcBig(s, cx.r)}[s.Intn(4)]
				for _, nb := range badTasks {
					desc := fmt.Sprintf("%s error product Fold coeff=%s NbTasks=%d recv=%s", cs.describe(), coeff.Text(16), nb, recvName[recv])
					var rb callRes
					gmp := gmpValues[s.Intn(len(gmpValues))]
					withGOMAXPROCS(gmp, func() {
						guarded(t, shapeOf(ad, n, gmp), desc, n, func() { rb = cs.in.Fold(recv, coeff, nb) })
					})
					if rb.err == nil {
						t.Fatalf("%s: %s.Fold returned no error", desc, ad.GName()+[]string{"Affine", "Jac"}[recv])
					}
					rep.Case(test, desc, true,
						fmt.Sprintf("err:nbtasks/n=%s/%s%s.Fold", size, ad.GName(), []string{"Affine", "Jac"}[recv]), "err:nbtasks", "err:n="+size)
				}
			}
		}
	}
}

// TestC04_ErrorsProduct runs the complete product once per rapid iteration (its own job with a small
// iteration count: the product is the point, not the repetition).
func TestC04_ErrorsProduct(t *testing.T) {
	forGroups(t, func(t *testing.T, ad adapter) {
		rapid.Check(t, func(t *rapid.T) { propErrorsProduct(t, ad) })
	})
}
