package c04

// Self test of the watchdog's deadlock analyser on the dump format of the running Go version:
// a synthetic deadlock must be proven, a slow-but-alive computation must not.

import (
	"sync/atomic"
	"testing"
	"time"

	"verif/harness/internal/rep"
)

//go:noinline
func fakeDeadlock(n int) {
	ch := make(chan int)
	sem := make(chan struct{}, 1)
	for i := 0; i < n; i++ {
		go func() { <-sem; ch <- 1 }() // fakeDeadlock.func1: parked on the empty semaphore
	}
	<-ch
}

var spin atomic.Int64

//go:noinline
func fakeBusy(stop *atomic.Bool) {
	ch := make(chan int)
	go func() { // fakeBusy.func1: alive
		for !stop.Load() {
			spin.Add(1)
		}
		ch <- 1
	}()
	<-ch
}

//go:noinline
func fakeSleep(d time.Duration) {
	ch := make(chan int)
	go func() { time.Sleep(d); ch <- 1 }()
	<-ch
}

func TestC04_WatchdogSelfTest(t *testing.T) {
	oldMin, oldFirst, oldEvery, oldCPU, oldGap, oldExt := wdMinDeadline, wdFirstProbe, wdProbeEvery, wdCPUMin, wdAliveGap, wdExtend
	defer func() {
		wdMinDeadline, wdFirstProbe, wdProbeEvery, wdCPUMin, wdAliveGap, wdExtend = oldMin, oldFirst, oldEvery, oldCPU, oldGap, oldExt
	}()
	wdMinDeadline, wdFirstProbe, wdProbeEvery, wdExtend = 3*time.Second, 300*time.Millisecond, 300*time.Millisecond, 1

	v := watch("selftest/dead", "c04.fakeDeadlock", 0, func() { fakeDeadlock(3) })
	if !v.deadlock {
		t.Fatalf("synthetic deadlock not proven (ok=%v) dump:\n%s", v.ok, clip(v.dump, 4000))
	}
	rep.Case("C04_WatchdogSelfTest", "synthetic deadlock", true, "watchdog:deadlock_proven")

	var stop atomic.Bool
	v = watch("selftest/busy", "c04.fakeBusy", 0, func() { fakeBusy(&stop) })
	stop.Store(true)
	if v.deadlock || v.ok || v.spin {
		t.Fatalf("a running computation below its CPU allowance was classified deadlock=%v ok=%v spin=%v", v.deadlock, v.ok, v.spin)
	}
	if len(v.alive) == 0 {
		t.Fatalf("the running goroutine was not recognised as alive; dump:\n%s", clip(v.dump, 4000))
	}
	rep.Case("C04_WatchdogSelfTest", "synthetic slow call", true, "watchdog:alive_not_deadlock")

	// the same spinning call with a CPU allowance of 1 CPU-second and the two "still running" probes
	// 0.6 s apart: busy non-termination must be proven, and not before the allowance is consumed
	wdCPUMin, wdAliveGap, wdExtend = time.Second, 600*time.Millisecond, 10
	stop.Store(false)
	v = watch("selftest/spin", "c04.fakeBusy", 0, func() { fakeBusy(&stop) })
	stop.Store(true)
	if !v.spin || v.cpu <= time.Second || len(v.alive) == 0 {
		t.Fatalf("synthetic busy loop not proven: spin=%v cpu=%s alive=%v ok=%v deadlock=%v", v.spin, v.cpu, v.alive, v.ok, v.deadlock)
	}
	rep.Case("C04_WatchdogSelfTest", "synthetic busy loop", true, "watchdog:busy_nontermination_proven")

	// a call that is merely waiting (sleeping goroutine: no CPU, not running) is never a spin verdict
	v = watch("selftest/sleep", "c04.fakeSleep", 0, func() { fakeSleep(5 * time.Second) })
	if v.spin || v.deadlock {
		t.Fatalf("a sleeping call was classified spin=%v deadlock=%v", v.spin, v.deadlock)
	}
	rep.Case("C04_WatchdogSelfTest", "synthetic sleeping call", true, "watchdog:idle_not_spin")

	v = watch("selftest/fast", libMarker, 0, func() {})
	if !v.ok {
		t.Fatalf("a returning call was not recognised")
	}
	// parser on a literal dump
	gs := parseDump("goroutine 7 [chan receive, 2 minutes]:\ngithub.com/consensys/gnark-crypto/ecc/bn254.msmReduceChunkG1Affine(...)\n\t/repo/ecc/bn254/multiexp.go:304 +0x1\n\ngoroutine 9 [runnable]:\nmain.x()\n\t/x.go:1\ncreated by github.com/consensys/gnark-crypto/ecc/bn254._innerMsmG1 in goroutine 7\n\t/repo/x.go:2\n", libMarker)
	if len(gs) != 2 || !gs[0].lib || gs[0].state != "chan receive" || !gs[1].lib || gs[1].state != "runnable" || deadlockProof(gs) != nil {
		t.Fatalf("parseDump: %+v", gs)
	}
	if deadlockProof(gs[:1]) == nil {
		t.Fatalf("a single parked library goroutine must be a proof")
	}
}
