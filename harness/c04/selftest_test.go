package c04

// Self test of the watchdog's deadlock analyser on the dump format of the running Go version:
// a synthetic deadlock must be proven, a slow-but-alive computation must not.

import (
	"sync/atomic"
	"testing"
	"time"

	"verif/harness/internal/rep"
)

//go:noinline
func fakeDeadlock(n int) {
	ch := make(chan int)
	sem := make(chan struct{}, 1)
	for i := 0; i < n; i++ {
		go func() { <-sem; ch <- 1 }() // fakeDeadlock.func1: parked on the empty semaphore
	}
	<-ch
}

var spin atomic.Int64

//go:noinline
func fakeBusy(stop *atomic.Bool) {
	ch := make(chan int)
	go func() { // fakeBusy.func1: alive
		for !stop.Load() {
			spin.Add(1)
		}
		ch <- 1
	}()
	<-ch
}

func TestC04_WatchdogSelfTest(t *testing.T) {
	oldMin, oldFirst, oldEvery := wdMinDeadline, wdFirstProbe, wdProbeEvery
	defer func() { wdMinDeadline, wdFirstProbe, wdProbeEvery = oldMin, oldFirst, oldEvery }()
	wdMinDeadline, wdFirstProbe, wdProbeEvery = 3*time.Second, 300*time.Millisecond, 300*time.Millisecond

	v := watch("selftest/dead", "c04.fakeDeadlock", 0, func() { fakeDeadlock(3) })
	if !v.deadlock {
		t.Fatalf("synthetic deadlock not proven (ok=%v) dump:\n%s", v.ok, clip(v.dump, 4000))
	}
	rep.Case("C04_WatchdogSelfTest", "synthetic deadlock", true, "watchdog:deadlock_proven")

	var stop atomic.Bool
	v = watch("selftest/busy", "c04.fakeBusy", 0, func() { fakeBusy(&stop) })
	stop.Store(true)
	if v.deadlock || v.ok {
		t.Fatalf("a running computation was classified deadlock=%v ok=%v", v.deadlock, v.ok)
	}
	rep.Case("C04_WatchdogSelfTest", "synthetic slow call", true, "watchdog:alive_not_deadlock")

	v = watch("selftest/fast", libMarker, 0, func() {})
	if !v.ok {
		t.Fatalf("a returning call was not recognised")
	}
	// parser on a literal dump
	gs := parseDump("goroutine 7 [chan receive, 2 minutes]:\ngithub.com/consensys/gnark-crypto/ecc/bn254.msmReduceChunkG1Affine(...)\n\t/repo/ecc/bn254/multiexp.go:304 +0x1\n\ngoroutine 9 [runnable]:\nmain.x()\n\t/x.go:1\ncreated by github.com/consensys/gnark-crypto/ecc/bn254._innerMsmG1 in goroutine 7\n\t/repo/x.go:2\n", libMarker)
	if len(gs) != 2 || !gs[0].lib || gs[0].state != "chan receive" || !gs[1].lib || gs[1].state != "runnable" || deadlockProof(gs) != nil {
		t.Fatalf("parseDump: %+v", gs)
	}
	if deadlockProof(gs[:1]) == nil {
		t.Fatalf("a single parked library goroutine must be a proof")
	}
}
