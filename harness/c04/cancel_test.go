package c04

// Constructed-cancellation inputs. Every point has a known discrete logarithm, so multisets whose
// total — or whose per-window / per-bucket / per-leaf partial sums — are EXACTLY the point at
// infinity can be built on purpose. Random inputs never produce them, and P/−P pairs with equal
// scalars cancel inside one bucket (mixed addition), which is a different code path: these classes
// make the cancellation happen in the extended-Jacobian additions of the bucket reduction
// (runningSum / total), of the chunk recombination (msmReduceChunk) and of the recursive split.
//
//	total        random terms, one of them re-solved so that Σ ±s_i·dlog_i ≡ 0 (mod r)
//	windows      (±W_a, s·2^(c·j)) with (∓W_(a+c·j), s) — an upper window cancels against window 0
//	             when the chunks are recombined (also the 3-term variant with two upper windows)
//	buckets      within window j: digits d_1..d_k (distinct buckets) on points [x_i]G with
//	             Σ d_i·x_i = 0 — the weighted bucket sum of that chunk is O
//	emb_windows  the windows pair shifted up to windows (j_hi, j_lo), all other terms below
//	             window j_lo: the recombination accumulator is O after chunk j_lo, the total is not
//	emb_buckets  the buckets construction in window j, every other term with a zero digit in
//	             window j: that chunk's total is O, the MSM total is not
//	emb_leaf     when the call is halved recursively: one leaf's sub-MSM is exactly O
//
// Fillers of the non-embedded classes are terms that contribute nothing (zero scalar, or the point
// at infinity with a random scalar), so n — hence the window size — is free.

import (
	"fmt"
	"math/big"
)

var cancelKinds = []string{"total", "windows", "buckets", "emb_windows", "emb_buckets", "emb_leaf"}

// positions returns k distinct positions in [lo,hi).
func positions(s src, lo, hi, k int) []int {
	n := hi - lo
	if k > n {
		k = n
	}
	used := map[int]bool{}
	out := make([]int, 0, k)
	for len(out) < k {
		p := lo + s.Intn(n)
		for used[p] {
			p++
			if p >= hi {
				p = lo
			}
		}
		used[p] = true
		out = append(out, p)
	}
	return out
}

func (cs *msmCase) setTerm(i int, tb *table, j int, neg bool, sc *big.Int) {
	if cs.tbs == nil {
		cs.tbs = make([]*table, cs.n)
	}
	cs.tbs[i], cs.idx[i], cs.neg[i], cs.sc[i] = tb, int32(j), neg, sc
}

// solveTerm re-solves term p over the positions lo..hi-1 so that their weighted sum is 0 mod r.
func (cs *msmCase) solveTerm(s src, p, lo, hi int) {
	r := cs.cx.r
	tb := cs.tableOf(p)
	if tb == nil {
		tb = cs.cx.Pool()
	}
	j := s.Intn(tb.n)
	cs.setTerm(p, tb, j, s.Intn(2) == 0, new(big.Int))
	// weighted sum of the block with term p at scalar 0 (expectedDlog indexes tableOf relative to the slice)
	sum := cs.cx.expectedDlog(func(i int) *table { return cs.tableOf(lo + i) }, cs.idx[lo:hi], cs.neg[lo:hi], cs.sc[lo:hi])
	k := new(big.Int).Set(tb.dlog(j))
	if cs.neg[p] {
		k.Neg(k)
	}
	k.Mod(k, r)
	v := new(big.Int).ModInverse(k, r)
	v.Mul(v, sum).Neg(v).Mod(v, r)
	cs.sc[p] = v
}

// genCancel builds a cancellation case of the given kind; ok=false if the shape (n, plan) does not allow it.
func (cs *msmCase) genCancel(s src, kind string, c int, leaves []leaf) (bool, error) {
	cx, n := cs.cx, cs.n
	m := cx.m
	r := cx.r
	bits := m.bits
	nch := m.nbChunks(c)
	cs.ptClass, cs.scClass = "cancel:"+kind, "cancel"
	one := big.NewInt(1)
	// zero-contribution fillers / random fillers
	blank := func() {
		cs.tb = cx.Pool()
		cs.idx = make([]int32, n)
		cs.neg = make([]bool, n)
		cs.sc = make([]*big.Int, n)
		cs.tbs = make([]*table, n)
		for i := 0; i < n; i++ {
			if s.Intn(2) == 0 {
				cs.idx[i], cs.sc[i] = -1, srcBig(s, r) // infinity with a random scalar
			} else {
				cs.idx[i], cs.sc[i] = int32(s.Intn(cs.tb.n)), new(big.Int) // zero scalar
			}
		}
	}
	digit := func() int64 { // a positive digit 1..2^(c-1)-1
		hi := int64(1)<<uint(c-1) - 1
		switch s.Intn(4) {
		case 0:
			return 1
		case 1:
			return hi
		default:
			return 1 + int64(s.Intn(int(hi)))
		}
	}
	switch kind {
	case "total", "emb_leaf":
		if n < 2 {
			return false, nil
		}
		lo, hi := 0, n
		if kind == "emb_leaf" {
			if len(leaves) < 2 {
				return false, nil
			}
			lf := leaves[s.Intn(len(leaves))]
			lo, hi = lf.lo, lf.hi
			if hi-lo < 2 {
				return false, nil
			}
			cs.note = fmt.Sprintf("leaf=[%d,%d)", lo, hi)
		}
		classes := []string{"distinct", "distinct_signed", "pool", "pool", "infinity", "runs", "pool_small"}
		if err := cs.genPoints(s, classes[s.Intn(len(classes))]); err != nil {
			return false, err
		}
		scs := []string{"uniform", "uniform", "small", "digit", "dict", "mixed", "carry", "one"}
		cs.genScalars(s, scs[s.Intn(len(scs))], c)
		cs.ptClass, cs.scClass = "cancel:"+kind, "cancel"
		cs.solveTerm(s, lo+s.Intn(hi-lo), lo, hi)
		return true, nil

	case "windows", "emb_windows":
		if n < 2 || nch < 3 {
			return false, nil
		}
		pw := cx.Pow2()
		emb := kind == "emb_windows"
		maxHi := (bits-2)/c - 1 // c*jhi + c <= bits-2: the scalar s*2^(c*jhi) stays below r
		if maxHi > nch-2 {
			maxHi = nch - 2
		}
		jlo := 0
		if emb {
			if maxHi < 2 {
				return false, nil
			}
			jlo = 1 + s.Intn(maxHi-1)
		}
		if maxHi <= jlo {
			return false, nil
		}
		if emb { // every other term lives strictly below window jlo (top bit of window jlo-1 clear: no carry)
			cs.tb = cx.Pool()
			cs.idx = make([]int32, n)
			cs.neg = make([]bool, n)
			cs.sc = make([]*big.Int, n)
			cs.tbs = make([]*table, n)
			for i := 0; i < n; i++ {
				cs.idx[i], cs.neg[i] = int32(s.Intn(cs.tb.n)), s.Intn(4) == 0
				cs.sc[i] = srcBits(s, c*jlo-1)
			}
		} else {
			blank()
		}
		groups := 1 + s.Intn(min(4, n/3+1))
		free := positions(s, 0, n, min(n, 3*groups))
		note := fmt.Sprintf("c=%d jlo=%d", c, jlo)
		for g := 0; g < groups && len(free) >= 2; g++ {
			jhi := jlo + 1 + s.Intn(maxHi-jlo)
			d := jhi - jlo
			a := s.Intn(bits - 1 - c*d)
			sv := big.NewInt(digit())
			sg := s.Intn(2) == 0
			if len(free) >= 3 && jhi+1 <= maxHi && a+c*(d+1) <= bits-1 && s.Intn(3) == 0 {
				// (W_a, s(2^(c jhi) + 2^(c (jhi+1)))) with (-W_(a+c d), s 2^(c jlo)), (-W_(a+c(d+1)), s 2^(c jlo))
				hiS := new(big.Int).Lsh(one, uint(c*jhi))
				hiS.Add(hiS, new(big.Int).Lsh(one, uint(c*(jhi+1)))).Mul(hiS, sv)
				loS := new(big.Int).Lsh(sv, uint(c*jlo))
				cs.setTerm(free[0], pw, a, sg, hiS)
				cs.setTerm(free[1], pw, a+c*d, !sg, loS)
				cs.setTerm(free[2], pw, a+c*(d+1), !sg, loS)
				free = free[3:]
				note += fmt.Sprintf(" triple(a=%d,jhi=%d,%d,s=%s)", a, jhi, jhi+1, sv)
				continue
			}
			cs.setTerm(free[0], pw, a, sg, new(big.Int).Lsh(sv, uint(c*jhi)))
			cs.setTerm(free[1], pw, a+c*d, !sg, new(big.Int).Lsh(sv, uint(c*jlo)))
			free = free[2:]
			note += fmt.Sprintf(" pair(a=%d,jhi=%d,s=%s)", a, jhi, sv)
		}
		cs.note = note
		return true, nil

	case "buckets", "emb_buckets":
		if n < 2 || nch < 2 {
			return false, nil
		}
		const tsize = 4096
		tb, err := cx.Multiples(tsize)
		if err != nil {
			return false, err
		}
		maxJ := (bits-2)/c - 1
		if maxJ > nch-2 {
			maxJ = nch - 2
		}
		if maxJ < 0 {
			return false, nil
		}
		emb := kind == "emb_buckets"
		j := s.Intn(maxJ + 1)
		if emb {
			// every other term has a zero digit in window j: bits of window j cleared, and the top bit of
			// window j-1 cleared so that no carry enters window j
			cs.tb = cx.Pool()
			cs.idx = make([]int32, n)
			cs.neg = make([]bool, n)
			cs.sc = make([]*big.Int, n)
			cs.tbs = make([]*table, n)
			for i := 0; i < n; i++ {
				cs.idx[i], cs.neg[i] = int32(s.Intn(cs.tb.n)), s.Intn(4) == 0
				v := srcBig(s, r)
				for b := c * j; b < c*(j+1); b++ {
					v.SetBit(v, b, 0)
				}
				if j > 0 {
					v.SetBit(v, c*j-1, 0)
				}
				cs.sc[i] = v
			}
		} else {
			blank()
		}
		// many groups make the chunk large enough for the batch-affine processor (>= batch size buckets)
		gmax := []int{1, 2, 8, 64, 400}[s.Intn(5)]
		groups := 1 + s.Intn(gmax)
		free := positions(s, 0, n, min(n, 4*groups))
		dmax := int64(1)<<uint(c-1) - 1
		if dmax > 1000 {
			dmax = 1000
		}
		made := 0
		for g := 0; g < groups && len(free) >= 2; g++ {
			k := 2 + s.Intn(3)
			if k > len(free) {
				k = len(free)
			}
			if int64(k) > dmax { // not enough distinct digits (c = 2, 3)
				k = int(dmax)
			}
			if k < 2 {
				break
			}
			// distinct digits d_1..d_k
			ds := make([]int64, 0, k)
			for len(ds) < k {
				d := digit()
				if d > dmax {
					d = 1 + d%dmax
				}
				dup := false
				for _, e := range ds {
					dup = dup || e == d
				}
				if !dup {
					ds = append(ds, d)
				}
			}
			dk := ds[k-1]
			ymax := int64(tsize) / (int64(k-1) * dmax * 1)
			if lim := int64(tsize) / dk; lim < ymax {
				ymax = lim
			}
			if ymax < 1 {
				ymax = 1
			}
			var xk int64
			xs := make([]int64, k)
			for i := 0; i < k-1; i++ {
				y := 1 + int64(s.Intn(int(ymax)))
				if s.Intn(2) == 0 {
					y = -y
				}
				xs[i] = dk * y // x_i = d_k y_i
				xk -= ds[i] * y
			}
			xs[k-1] = xk // Σ_{i<k} d_i d_k y_i + d_k x_k = 0
			okg := xk != 0
			for _, x := range xs {
				if x > tsize || x < -tsize {
					okg = false
				}
			}
			if !okg {
				continue
			}
			for i := 0; i < k; i++ {
				x, ng := xs[i], false
				if x < 0 {
					x, ng = -x, true
				}
				cs.setTerm(free[i], tb, int(x-1), ng, new(big.Int).Lsh(big.NewInt(ds[i]), uint(c*j)))
			}
			free = free[k:]
			made++
		}
		if made == 0 {
			return false, nil
		}
		cs.note = fmt.Sprintf("c=%d window=%d groups=%d", c, j, made)
		return true, nil
	}
	panic("unknown cancellation kind " + kind)
}
