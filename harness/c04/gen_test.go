package c04

// Input generators: point multisets over a dlog-known table and scalar vectors by class.
// Every random choice comes from a `src`: either rapid draws (small inputs: fully shrinkable) or a
// splitmix64 stream expanded from one rapid-drawn seed (large inputs) — a pure function of the seed.

import (
	"encoding/binary"
	"fmt"
	"hash/fnv"
	"math/big"

	"pgregory.net/rapid"
)

type src interface {
	Intn(n int) int // uniform in [0,n)
	Uint64() uint64
}

type rapidSrc struct{ t *rapid.T }

func (s rapidSrc) Intn(n int) int { return rapid.IntRange(0, n-1).Draw(s.t, "k") }
func (s rapidSrc) Uint64() uint64 { return rapid.Uint64().Draw(s.t, "u") }

func srcBig(s src, r *big.Int) *big.Int {
	nw := (r.BitLen()+63)/64 + 1
	w := make([]big.Word, nw)
	for i := range w {
		w[i] = big.Word(s.Uint64())
	}
	v := new(big.Int).SetBits(w)
	return v.Mod(v, r)
}

func srcBits(s src, nbits int) *big.Int {
	if nbits <= 0 {
		return new(big.Int)
	}
	nw := (nbits + 63) / 64
	w := make([]big.Word, nw)
	for i := range w {
		w[i] = big.Word(s.Uint64())
	}
	v := new(big.Int).SetBits(w)
	return v.And(v, new(big.Int).Sub(new(big.Int).Lsh(big.NewInt(1), uint(nbits)), big.NewInt(1)))
}

type msmCase struct {
	cx      *groupCtx
	n       int
	tb      *table
	tbs     []*table // per-term table (nil entries / nil slice: cs.tb)
	idx     []int32  // table index, -1 = point at infinity
	neg     []bool
	sc      []*big.Int
	ptClass string
	scClass string
	tie     bool   // scalars of adjacent inputs were made equal (same bucket in every chunk)
	entry   string // "" for MultiExp, "fold_" for Fold (label prefix)
	note    string // construction parameters (cancellation classes)
	in      inputH
	exp     *big.Int // expected dlog
}

var ptClasses = []string{"distinct", "distinct_signed", "pool", "pool", "repeat", "opposite", "infinity", "allinf", "runs", "pool_small"}
var scClasses = []string{"uniform", "uniform", "zero", "one", "rm1", "small", "equal", "digit", "dict", "mixed", "sparse", "halfsmall", "carry"}

// genPoints fills idx/neg.
func (cs *msmCase) genPoints(s src, class string) error {
	cx, n := cs.cx, cs.n
	cs.ptClass = class
	cs.idx = make([]int32, n)
	cs.neg = make([]bool, n)
	pool := func() (int, int) { // (base, K) sub-pool
		p := cx.Pool()
		ks := []int{1, 2, 3, 4, 8, 16, p.n}
		K := ks[s.Intn(len(ks))]
		if K > p.n {
			K = p.n
		}
		return s.Intn(p.n - K + 1), K
	}
	switch class {
	case "distinct", "distinct_signed":
		tb, err := cx.Multiples(max(n, 1))
		if err != nil {
			return err
		}
		cs.tb = tb
		for i := range cs.idx {
			cs.idx[i] = int32(i)
			if class == "distinct_signed" {
				cs.neg[i] = s.Intn(2) == 0
				if s.Intn(16) == 0 {
					cs.idx[i] = -1
				}
			}
		}
	case "pool", "infinity", "pool_small":
		cs.tb = cx.Pool()
		base, K := pool()
		if class == "pool_small" {
			K = min(K, 2)
		}
		for i := range cs.idx {
			cs.idx[i] = int32(base + s.Intn(K))
			cs.neg[i] = s.Intn(4) == 0
			if class == "infinity" && s.Intn(3) == 0 {
				cs.idx[i] = -1
			}
		}
	case "repeat":
		cs.tb = cx.Pool()
		base, K := pool()
		K = min(K, 2)
		for i := range cs.idx {
			cs.idx[i] = int32(base + s.Intn(K))
		}
	case "opposite":
		cs.tb = cx.Pool()
		base, K := pool()
		for i := 0; i < n; i += 2 {
			j := int32(base + s.Intn(K))
			ng := s.Intn(2) == 0
			cs.idx[i], cs.neg[i] = j, ng
			if i+1 < n {
				cs.idx[i+1], cs.neg[i+1] = j, !ng
			}
		}
	case "allinf":
		cs.tb = cx.Pool()
		for i := range cs.idx {
			cs.idx[i] = -1
		}
	case "runs": // runs of one point: successive inputs collide in the current batch
		cs.tb = cx.Pool()
		base, K := pool()
		for i := 0; i < n; {
			j := int32(base + s.Intn(K))
			ng := s.Intn(4) == 0
			l := 1 + s.Intn(200)
			for ; l > 0 && i < n; l, i = l-1, i+1 {
				cs.idx[i], cs.neg[i] = j, ng
			}
		}
	default:
		panic("unknown point class " + class)
	}
	return nil
}

// digitScalar builds a value whose c-bit windows sit on the recoding boundaries.
func digitScalar(s src, c, bits int, r *big.Int) *big.Int {
	v := new(big.Int)
	nch := (bits + c - 1) / c
	one := big.NewInt(1)
	switch s.Intn(4) {
	case 0: // 2^(c*j) + {-1,0,1}
		j := s.Intn(nch)
		v.Lsh(one, uint(c*j))
		v.Add(v, big.NewInt(int64(s.Intn(3)-1)))
	case 1: // the same window value everywhere
		ds := []int{1 << uint(c-1), 1<<uint(c-1) - 1, 1<<uint(c-1) + 1, 1<<uint(c) - 1, 1, 1<<uint(c) - 2}
		d := ds[s.Intn(len(ds))]
		for j := nch - 1; j >= 0; j-- {
			v.Lsh(v, uint(c))
			v.Or(v, big.NewInt(int64(d)))
		}
	case 2: // each window from the boundary set
		ds := []int{0, 1, 1<<uint(c-1) - 1, 1 << uint(c-1), 1<<uint(c-1) + 1, 1<<uint(c) - 1}
		for j := nch - 1; j >= 0; j-- {
			v.Lsh(v, uint(c))
			v.Or(v, big.NewInt(int64(ds[s.Intn(len(ds))])))
		}
	default: // a carry chain: 2^(c-1) followed by all-ones windows up to window j
		j := 1 + s.Intn(nch)
		v.Lsh(one, uint(c*j))
		v.Sub(v, one)
		v.Sub(v, new(big.Int).Lsh(one, uint(c-1)))
		v.Add(v, one)
	}
	// keep the low windows intact: clear high bits until the value is < r
	for v.Cmp(r) >= 0 {
		v.SetBit(v, v.BitLen()-1, 0)
	}
	if v.Sign() < 0 {
		v.SetInt64(0)
	}
	return v
}

func oneScalar(s src, kind string, c, bits int, r *big.Int) *big.Int {
	switch kind {
	case "zero":
		return new(big.Int)
	case "one":
		return big.NewInt(1)
	case "two":
		return big.NewInt(2)
	case "rm1":
		return new(big.Int).Sub(r, big.NewInt(1))
	case "rm2":
		return new(big.Int).Sub(r, big.NewInt(2))
	case "half":
		return new(big.Int).Rsh(r, 1)
	case "uniform":
		return srcBig(s, r)
	case "small":
		bs := []int{1, c - 1, c, c + 1, 2*c - 1, 2 * c, 16, 32}
		return srcBits(s, bs[s.Intn(len(bs))])
	case "digit":
		return digitScalar(s, c, bits, r)
	case "carry": // the window below the last one is >= 2^(c-1): a carry enters the last window
		nch := (bits + c - 1) / c
		v := srcBig(s, r)
		if nch >= 2 {
			v.SetBit(v, (nch-1)*c-1, 1)
			for v.Cmp(r) >= 0 {
				v.SetBit(v, v.BitLen()-1, 0)
			}
		}
		return v
	}
	panic("unknown scalar kind " + kind)
}

var mixedKinds = []string{"zero", "one", "two", "rm1", "rm2", "half", "uniform", "uniform", "small", "digit", "carry"}

// genScalars fills sc; c is the window size the schedule model predicts for this input size.
func (cs *msmCase) genScalars(s src, class string, c int) {
	n, r, bits := cs.n, cs.cx.r, cs.cx.m.bits
	cs.scClass = class
	cs.sc = make([]*big.Int, n)
	switch class {
	case "zero", "one", "rm1":
		v := oneScalar(s, class, c, bits, r)
		for i := range cs.sc {
			cs.sc[i] = v
		}
	case "uniform", "digit", "carry":
		for i := range cs.sc {
			cs.sc[i] = oneScalar(s, class, c, bits, r)
		}
	case "small":
		bs := []int{1, c - 1, c, c + 1, 2*c - 1, 2 * c, 3 * c, 16, 32}
		b := bs[s.Intn(len(bs))]
		for i := range cs.sc {
			cs.sc[i] = srcBits(s, b)
		}
	case "equal":
		v := oneScalar(s, mixedKinds[s.Intn(len(mixedKinds))], c, bits, r)
		for i := range cs.sc {
			cs.sc[i] = v
		}
	case "dict":
		ms := []int{2, 3, 8, 100, 300, 1000}
		M := ms[s.Intn(len(ms))]
		if M > n+1 { // no point in a dictionary larger than the input (and small inputs draw every value from rapid)
			M = n + 1
		}
		d := make([]*big.Int, M)
		for k := range d {
			d[k] = oneScalar(s, mixedKinds[s.Intn(len(mixedKinds))], c, bits, r)
		}
		for i := range cs.sc {
			cs.sc[i] = d[s.Intn(M)]
		}
	case "mixed":
		for i := range cs.sc {
			cs.sc[i] = oneScalar(s, mixedKinds[s.Intn(len(mixedKinds))], c, bits, r)
		}
	case "sparse":
		z := new(big.Int)
		for i := range cs.sc {
			if s.Intn(8) == 0 {
				cs.sc[i] = srcBig(s, r)
			} else {
				cs.sc[i] = z
			}
		}
	case "halfsmall":
		den := 2 + s.Intn(6)
		for i := range cs.sc {
			if s.Intn(den) == 0 {
				cs.sc[i] = srcBig(s, r)
			} else {
				cs.sc[i] = srcBits(s, 2*c)
			}
		}
	default:
		panic("unknown scalar class " + class)
	}
}

// tieScalars makes the scalars of adjacent inputs equal, so that P/-P (or P/P) meet in one bucket in every chunk.
func (cs *msmCase) tieScalars() {
	for i := 1; i < cs.n; i += 2 {
		cs.sc[i] = cs.sc[i-1]
	}
	cs.tie = true
}

// tableOf returns the table term i is taken from.
func (cs *msmCase) tableOf(i int) *table {
	if cs.tbs != nil && cs.tbs[i] != nil {
		return cs.tbs[i]
	}
	return cs.tb
}

// build materialises the library input and the expected dlog.
func (cs *msmCase) build() {
	in := cs.cx.ad.NewInput(cs.n)
	for i := 0; i < cs.n; i++ {
		if cs.idx[i] < 0 {
			in.SetInf(i)
		} else {
			in.SetPoint(i, cs.tableOf(i).h, int(cs.idx[i]), cs.neg[i])
		}
		in.SetScalar(i, cs.sc[i])
	}
	cs.in = in
	cs.exp = cs.cx.expectedDlog(cs.tableOf, cs.idx, cs.neg, cs.sc)
}

type multiset struct {
	repeat, opposite, infinity, distinct bool
	zeroScalar, maxScalar                bool
	allTrivial                           bool // every term has a zero scalar or is the point at infinity
}

// measure classifies what the generator actually produced.
func (cs *msmCase) measure() multiset {
	var ms multiset
	ms.allTrivial = true
	seen := map[int64]uint8{}
	rm1 := new(big.Int).Sub(cs.cx.r, big.NewInt(1))
	for i, j32 := range cs.idx {
		j := int64(j32)
		if cs.sc[i].Sign() == 0 {
			ms.zeroScalar = true
		} else if cs.sc[i].Cmp(rm1) == 0 {
			ms.maxScalar = true
		}
		if j32 >= 0 && cs.sc[i].Sign() != 0 {
			ms.allTrivial = false
		}
		if j < 0 {
			ms.infinity = true
			continue
		}
		j |= int64(cs.tableOf(i).id) << 32
		bit := uint8(1)
		if cs.neg[i] {
			bit = 2
		}
		if seen[j]&bit != 0 {
			ms.repeat = true
		}
		seen[j] |= bit
		if seen[j] == 3 {
			ms.opposite = true
		}
	}
	// the pool contains P and -P as separate entries as well (dlog a and r-a)
	if !ms.opposite && cs.tbs == nil && cs.tb != nil && cs.tb.kind == "pool" {
		dl := map[string]bool{}
		for j, b := range seen {
			a := cs.tb.dlog(int(int32(j)))
			if b&1 != 0 {
				dl[a.String()] = true
			}
			if b&2 != 0 {
				dl[new(big.Int).Sub(cs.cx.r, a).String()] = true
			}
		}
		for k := range dl {
			a, _ := new(big.Int).SetString(k, 10)
			if dl[new(big.Int).Sub(cs.cx.r, a).String()] {
				ms.opposite = true
				break
			}
		}
	}
	ms.distinct = cs.n >= 1 && !ms.repeat && !ms.opposite && !ms.infinity
	return ms
}

func (cs *msmCase) hash() uint64 {
	h := fnv.New64a()
	var b [9]byte
	for i, j := range cs.idx {
		binary.LittleEndian.PutUint32(b[:], uint32(j))
		if cs.neg[i] {
			b[4] = 1
		} else {
			b[4] = 0
		}
		if j >= 0 {
			b[4] |= cs.tableOf(i).id << 1
		}
		h.Write(b[:5])
		h.Write(cs.sc[i].Bytes())
		h.Write([]byte{0xff})
	}
	return h.Sum64()
}

func (cs *msmCase) describe() string {
	kind := "mixed"
	if cs.tbs == nil {
		kind = cs.tb.kind
	}
	s := fmt.Sprintf("%s n=%d table=%s pts=%s sc=%s tie=%v", cs.cx.ad.ID(), cs.n, kind, cs.ptClass, cs.scClass, cs.tie)
	if cs.note != "" {
		s += " " + cs.note
	}
	if cs.n <= 12 {
		s += " ["
		for i := range cs.idx {
			sign := "+"
			if cs.neg[i] {
				sign = "-"
			}
			if cs.idx[i] < 0 {
				s += fmt.Sprintf(" (O,%s)", cs.sc[i].Text(16))
			} else {
				s += fmt.Sprintf(" (%s%s%d,%s)", sign, cs.tableOf(i).letter, cs.idx[i], cs.sc[i].Text(16))
			}
		}
		s += " ]"
	}
	return s
}
