package c04

// Typed access to the MultiExp / Fold entry points of every curve group. The library has no
// interfaces, so one generic adapter is instantiated per curve x group (groups_gen_test.go); the
// property code only sees the type-erased interfaces below.

import (
	"fmt"
	"math/big"
	"sync"

	"github.com/consensys/gnark-crypto/ecc"

	"verif/harness/internal/inst"
)

// receivers
const (
	recvAff = 0
	recvJac = 1
)

var recvName = []string{"aff", "jac"}

// result of one library call
type callRes struct {
	err    error
	retNil bool        // the returned pointer was nil
	retRcv bool        // the returned pointer is the receiver
	aff    interface{} // *A: value of the receiver after the call, converted with the library's FromJacobian for a Jacobian receiver
	jac    interface{} // *J: receiver after the call (Jacobian receivers only)
}

type tableH interface{} // []A

type adapter interface {
	ID() string
	Curve() string
	GName() string
	Grp() *inst.Group
	Bits() int
	Cs() []int
	// TableFrom builds a typed point table from pointers to affine points (*A).
	TableFrom(ptrs []interface{}) tableH
	// Multiples returns a table [1]G..[m]G, m >= n, computed by one call of the library's
	// BatchScalarMultiplication (cached; recomputed with doubled size when too short) and a
	// generation number that changes whenever the table was recomputed.
	Multiples(n int) (tableH, int)
	Len(tb tableH) int
	// At returns a pointer to a copy of table element j.
	At(tb tableH, j int) interface{}
	NewInput(n int) inputH
}

type inputH interface {
	Len() int
	SetPoint(i int, tb tableH, j int, neg bool)
	SetInf(i int)
	SetScalar(i int, v *big.Int)
	// Slice shares memory with the receiver.
	Slice(lo, hi int) inputH
	// Permuted returns a new input with element i taken from position perm[i].
	Permuted(perm []int32) inputH
	// MultiExp calls recv.MultiExp(points, scalars[:len+dScalars...], cfg). dScalars != 0 produces mismatched lengths.
	MultiExp(recv int, nbTasks int, dScalars int) callRes
	Fold(recv int, coeff *big.Int, nbTasks int) callRes
	// SameAff reports byte equality (struct ==) of two affine results produced by this adapter.
	SameAff(a, b interface{}) bool
}

type affI[A, J, S any] interface {
	*A
	MultiExp([]A, []S, ecc.MultiExpConfig) (*A, error)
	Fold([]A, S, ecc.MultiExpConfig) (*A, error)
	Neg(*A) *A
	FromJacobian(*J) *A
}

type jacI[A, J, S any] interface {
	*J
	MultiExp([]A, []S, ecc.MultiExpConfig) (*J, error)
	Fold([]A, S, ecc.MultiExpConfig) (*J, error)
	FromAffine(*A) *J
}

type scI[S any] interface {
	*S
	SetBigInt(*big.Int) *S
	SetUint64(uint64) *S
}

type ad[A comparable, J, S any, PA affI[A, J, S], PJ jacI[A, J, S], PS scI[S]] struct {
	curve, gname string
	batch        func(*A, []S) []A
	bits, limbs  int
	cs           []int

	mu   sync.Mutex
	mult []A
	gen  int // incremented each time the table is recomputed
}

func newAd[A comparable, J, S any, PA affI[A, J, S], PJ jacI[A, J, S], PS scI[S]](curve, gname string, batch func(*A, []S) []A, bits, limbs int, cs []int) adapter {
	return &ad[A, J, S, PA, PJ, PS]{curve: curve, gname: gname, batch: batch, bits: bits, limbs: limbs, cs: cs}
}

func (a *ad[A, J, S, PA, PJ, PS]) ID() string    { return a.curve + "/" + a.gname }
func (a *ad[A, J, S, PA, PJ, PS]) Curve() string { return a.curve }
func (a *ad[A, J, S, PA, PJ, PS]) GName() string { return a.gname }
func (a *ad[A, J, S, PA, PJ, PS]) Bits() int     { return a.bits }
func (a *ad[A, J, S, PA, PJ, PS]) Cs() []int     { return a.cs }

func (a *ad[A, J, S, PA, PJ, PS]) Grp() *inst.Group {
	c := inst.GetCurve(a.curve)
	if a.gname == "G2" {
		return c.G2
	}
	return c.G1
}

func (a *ad[A, J, S, PA, PJ, PS]) TableFrom(ptrs []interface{}) tableH {
	tb := make([]A, len(ptrs))
	for i, p := range ptrs {
		tb[i] = *(p.(*A))
	}
	return tb
}

func (a *ad[A, J, S, PA, PJ, PS]) Multiples(n int) (tableH, int) {
	a.mu.Lock()
	defer a.mu.Unlock()
	if len(a.mult) < n {
		m := 1024
		for m < n {
			m *= 2
		}
		sc := make([]S, m)
		for i := range sc {
			PS(&sc[i]).SetUint64(uint64(i + 1))
		}
		gen := a.Grp().FromRef(a.Grp().Gen).(*A)
		a.mult = a.batch(gen, sc)
		a.gen++
		if len(a.mult) != m {
			panic(fmt.Sprintf("%s: BatchScalarMultiplication returned %d points for %d scalars", a.ID(), len(a.mult), m))
		}
	}
	return a.mult, a.gen
}

func (a *ad[A, J, S, PA, PJ, PS]) Len(tb tableH) int { return len(tb.([]A)) }

func (a *ad[A, J, S, PA, PJ, PS]) At(tb tableH, j int) interface{} {
	v := tb.([]A)[j]
	return &v
}

type inp[A comparable, J, S any, PA affI[A, J, S], PJ jacI[A, J, S], PS scI[S]] struct {
	pts []A
	sc  []S
}

func (a *ad[A, J, S, PA, PJ, PS]) NewInput(n int) inputH {
	return &inp[A, J, S, PA, PJ, PS]{pts: make([]A, n), sc: make([]S, n)}
}

func (in *inp[A, J, S, PA, PJ, PS]) Len() int { return len(in.pts) }

func (in *inp[A, J, S, PA, PJ, PS]) SetPoint(i int, tb tableH, j int, neg bool) {
	in.pts[i] = tb.([]A)[j]
	if neg {
		PA(&in.pts[i]).Neg(&in.pts[i])
	}
}

func (in *inp[A, J, S, PA, PJ, PS]) SetInf(i int) {
	var z A
	in.pts[i] = z
}

func (in *inp[A, J, S, PA, PJ, PS]) SetScalar(i int, v *big.Int) { PS(&in.sc[i]).SetBigInt(v) }

func (in *inp[A, J, S, PA, PJ, PS]) Slice(lo, hi int) inputH {
	return &inp[A, J, S, PA, PJ, PS]{pts: in.pts[lo:hi:hi], sc: in.sc[lo:hi:hi]}
}

func (in *inp[A, J, S, PA, PJ, PS]) Permuted(perm []int32) inputH {
	o := &inp[A, J, S, PA, PJ, PS]{pts: make([]A, len(perm)), sc: make([]S, len(perm))}
	for i, p := range perm {
		o.pts[i] = in.pts[p]
		o.sc[i] = in.sc[p]
	}
	return o
}

func (in *inp[A, J, S, PA, PJ, PS]) SameAff(x, y interface{}) bool {
	return *(x.(*A)) == *(y.(*A))
}

// poison returns a non-trivial affine value to pre-load receivers with, so that a call that
// forgets to write its result is visible.
func (in *inp[A, J, S, PA, PJ, PS]) poison() A {
	var z A
	for i := range in.pts {
		if in.pts[i] != z {
			return in.pts[i]
		}
	}
	return z
}

func (in *inp[A, J, S, PA, PJ, PS]) scalarsFor(d int) []S {
	switch {
	case d == 0:
		return in.sc
	case d < 0:
		k := len(in.sc) + d
		if k < 0 {
			k = 0
		}
		return in.sc[:k]
	default:
		s := make([]S, len(in.sc)+d)
		copy(s, in.sc)
		for i := len(in.sc); i < len(s); i++ {
			PS(&s[i]).SetUint64(1)
		}
		return s
	}
}

func (in *inp[A, J, S, PA, PJ, PS]) MultiExp(recv, nbTasks, dScalars int) callRes {
	cfg := ecc.MultiExpConfig{NbTasks: nbTasks}
	sc := in.scalarsFor(dScalars)
	var res callRes
	if recv == recvAff {
		r := in.poison()
		ret, err := PA(&r).MultiExp(in.pts, sc, cfg)
		res.err, res.retNil, res.retRcv, res.aff = err, ret == nil, (*A)(ret) == &r, &r
		return res
	}
	p := in.poison()
	var r J
	PJ(&r).FromAffine(&p)
	ret, err := PJ(&r).MultiExp(in.pts, sc, cfg)
	var af A
	PA(&af).FromJacobian(&r)
	res.err, res.retNil, res.retRcv, res.aff, res.jac = err, ret == nil, (*J)(ret) == &r, &af, &r
	return res
}

func (in *inp[A, J, S, PA, PJ, PS]) Fold(recv int, coeff *big.Int, nbTasks int) callRes {
	cfg := ecc.MultiExpConfig{NbTasks: nbTasks}
	var c S
	PS(&c).SetBigInt(coeff)
	var res callRes
	if recv == recvAff {
		r := in.poison()
		ret, err := PA(&r).Fold(in.pts, c, cfg)
		res.err, res.retNil, res.retRcv, res.aff = err, ret == nil, (*A)(ret) == &r, &r
		return res
	}
	p := in.poison()
	var r J
	PJ(&r).FromAffine(&p)
	ret, err := PJ(&r).Fold(in.pts, c, cfg)
	var af A
	PA(&af).FromJacobian(&r)
	res.err, res.retNil, res.retRcv, res.aff, res.jac = err, ret == nil, (*J)(ret) == &r, &af, &r
	return res
}
