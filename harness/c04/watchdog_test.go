package c04

// Termination clause of C04. Every library call runs in its own goroutine under a watchdog.
//
//   - deadline = max(60 s, 100 x median duration of earlier calls of the same shape);
//   - while waiting, the watchdog periodically takes runtime.Stack(all) (a consistent, stop-the-world
//     snapshot) and checks whether the call is *provably* dead: at least one goroutine has a frame
//     inside gnark-crypto, and every such goroutine is parked in a channel / WaitGroup / semaphore
//     operation, none running or runnable. The library's channels are private to one call, so
//     nothing outside that set can ever wake it: this is a deadlock, whatever the clock says. The
//     proof must hold on two snapshots with the same goroutine set before it is reported;
//   - busy non-termination (a loop that spins instead of blocking) cannot be seen as a deadlock, and
//     wall-clock time says nothing on a loaded host. The second criterion is therefore CPU time, a
//     function of the work done and not of the machine load: the process CPU time (getrusage)
//     consumed since the call started must exceed max(120 CPU-s, 1000 x the median CPU cost of
//     earlier same-shape calls in this process) + 2 CPU-ms per input point (x10 under -race), AND
//     the dumps of two probes >= 10 s apart must both show a goroutine with a gnark-crypto frame
//     running/runnable. Nothing else runs in the process during a call (the watchdog sleeps), so
//     this CPU was burned by the call: the largest legitimate call of the thorough tier costs well
//     under the allowance, a spinning loop reaches it whatever the load. This is reported as a
//     termination violation; since the runaway goroutine cannot be stopped and pollutes every later
//     measurement, the process prints the FAIL lines with the dump and exits with status 1;
//   - deadline reached without either proof: inconclusive. While goroutines of the call are still
//     running and the CPU allowance is not consumed, the wait is extended (up to 10 x the deadline)
//     so that a loaded host delays the CPU verdict instead of hiding it. Then the process prints
//     the dump and exits with status 3 and no FAIL line, which the driver maps to "inconclusive"
//     (never a violation).

import (
	"fmt"
	"os"
	"regexp"
	"runtime"
	"sort"
	"strings"
	"sync"
	"syscall"
	"time"

	"verif/harness/internal/rep"
)

const libMarker = "github.com/consensys/gnark-crypto/"

var (
	wdMu        sync.Mutex
	wdDurations = map[string][]time.Duration{}
	// overridable by the self test
	wdMinDeadline = time.Duration(rep.EnvInt("VERIF_C04_DEADLINE_S", 60)) * time.Second
	wdFirstProbe  = time.Duration(rep.EnvInt("VERIF_C04_PROBE_S", 10)) * time.Second
	wdProbeEvery  = time.Duration(rep.EnvInt("VERIF_C04_PROBE_S", 10)) * time.Second
	wdCPUMin      = time.Duration(rep.EnvInt("VERIF_C04_CPU_S", 120)) * time.Second // CPU time, not wall time
	wdAliveGap    = 10 * time.Second                                                // minimal distance of the two "still running" probes
	wdExtend      = 10                                                              // deadline extension factor while the call is alive
	wdCPU         = map[string][]time.Duration{}
)

// cpuNow returns the CPU time (user+system) consumed by this process so far.
func cpuNow() time.Duration {
	var ru syscall.Rusage
	if err := syscall.Getrusage(syscall.RUSAGE_SELF, &ru); err != nil {
		return 0
	}
	return time.Duration(ru.Utime.Nano() + ru.Stime.Nano())
}

// wdCPUAllowance: max(120 CPU-s, 1000 x median CPU of same-shape calls) + 2 CPU-ms per input point.
func wdCPUAllowance(shape string, n int) time.Duration {
	wdMu.Lock()
	defer wdMu.Unlock()
	per := 2 * time.Millisecond
	if raceEnabled {
		per *= 10
	}
	d := wdCPUMin
	if cs := wdCPU[shape]; len(cs) > 0 {
		s := append([]time.Duration(nil), cs...)
		sort.Slice(s, func(i, j int) bool { return s[i] < s[j] })
		if m := 1000 * s[len(s)/2]; m > d {
			d = m
		}
	}
	return d + time.Duration(n)*per
}

func wdRecordCPU(shape string, d time.Duration) {
	wdMu.Lock()
	defer wdMu.Unlock()
	if len(wdCPU[shape]) < 64 {
		wdCPU[shape] = append(wdCPU[shape], d)
	}
}

// aliveLib returns a description of the library goroutines that are running or runnable.
func aliveLib(dump, marker string) []string {
	var out []string
	for _, blk := range strings.Split(dump, "\n\n") {
		gs := parseDump(blk, marker)
		if len(gs) != 1 || !gs[0].lib || (gs[0].state != "running" && gs[0].state != "runnable") {
			continue
		}
		top := ""
		for _, l := range strings.Split(strings.TrimSpace(blk), "\n")[1:] {
			if !strings.HasPrefix(l, "\t") && strings.Contains(l, marker) {
				top = strings.TrimSpace(l)
				break
			}
		}
		out = append(out, fmt.Sprintf("goroutine %s [%s] in %s", gs[0].id, gs[0].state, top))
	}
	return out
}

// wdDeadline: max(60 s, 100 x median of same-shape calls), plus a size allowance (3 ms per input
// point, x10 under -race) so that the first large call of a shape is not cut short on a loaded host.
func wdDeadline(shape string, n int) time.Duration {
	wdMu.Lock()
	defer wdMu.Unlock()
	per := 3 * time.Millisecond
	if raceEnabled {
		per *= 10
	}
	d := wdMinDeadline + time.Duration(n)*per
	ds := wdDurations[shape]
	if len(ds) > 0 {
		s := append([]time.Duration(nil), ds...)
		sort.Slice(s, func(i, j int) bool { return s[i] < s[j] })
		if m := 100 * s[len(s)/2]; m > d {
			d = m
		}
	}
	return d
}

func wdRecord(shape string, d time.Duration) {
	wdMu.Lock()
	defer wdMu.Unlock()
	if len(wdDurations[shape]) < 64 {
		wdDurations[shape] = append(wdDurations[shape], d)
	}
}

type gInfo struct {
	id    string
	state string
	lib   bool
}

var gHeader = regexp.MustCompile(`^goroutine (\d+) \[([^\]]*)\]:$`)

// parseDump splits a runtime.Stack(all) dump into goroutines.
func parseDump(dump, marker string) []gInfo {
	var out []gInfo
	for _, blk := range strings.Split(dump, "\n\n") {
		lines := strings.Split(strings.TrimSpace(blk), "\n")
		if len(lines) == 0 {
			continue
		}
		m := gHeader.FindStringSubmatch(strings.TrimSpace(lines[0]))
		if m == nil {
			continue
		}
		st := m[2]
		if i := strings.Index(st, ","); i >= 0 {
			st = st[:i]
		}
		g := gInfo{id: m[1], state: strings.TrimSpace(st)}
		for _, l := range lines[1:] {
			// frame lines (function names) are not indented; "created by" lines count too:
			// a goroutine started by the library belongs to the call
			if !strings.HasPrefix(l, "\t") && strings.Contains(l, marker) {
				g.lib = true
				break
			}
		}
		out = append(out, g)
	}
	return out
}

// states in which a goroutine can only continue if another goroutine acts on the same object
var parkedStates = map[string]bool{
	"chan receive": true, "chan send": true, "select": true,
	"chan receive (nil chan)": true, "chan send (nil chan)": true, "select (no cases)": true,
	"semacquire": true, "sync.WaitGroup.Wait": true, "sync.Mutex.Lock": true, "sync.RWMutex.Lock": true,
	"sync.RWMutex.RLock": true, "sync.Cond.Wait": true,
}

// deadlockProof returns the sorted ids of the library goroutines if all of them are parked (and
// there is at least one), else nil.
func deadlockProof(gs []gInfo) []string {
	var ids []string
	for _, g := range gs {
		if !g.lib {
			continue
		}
		if !parkedStates[g.state] {
			return nil
		}
		ids = append(ids, g.id)
	}
	sort.Strings(ids)
	return ids
}

func allStacks() string {
	buf := make([]byte, 1<<20)
	for {
		n := runtime.Stack(buf, true)
		if n < len(buf) {
			return string(buf[:n])
		}
		buf = make([]byte, 2*len(buf))
	}
}

// libFirst reorders a dump so that the goroutines belonging to the code under test come first.
func libFirst(dump, marker string) string {
	var lib, other []string
	for _, blk := range strings.Split(dump, "\n\n") {
		gs := parseDump(blk, marker)
		if len(gs) == 1 && gs[0].lib {
			lib = append(lib, strings.TrimSpace(blk))
		} else if strings.TrimSpace(blk) != "" {
			other = append(other, strings.TrimSpace(blk))
		}
	}
	return fmt.Sprintf("--- %d goroutines inside gnark-crypto ---\n%s\n--- %d other goroutines ---\n%s",
		len(lib), strings.Join(lib, "\n\n"), len(other), strings.Join(other, "\n\n"))
}

func clip(s string, n int) string {
	if len(s) > n {
		return s[:n] + "\n… (dump truncated)"
	}
	return s
}

type wdVerdict struct {
	ok       bool   // the call returned
	deadlock bool   // proven deadlock
	spin     bool   // proven busy non-termination (CPU criterion)
	dump     string // goroutine dump (deadlock, spin or deadline)
	alive    []string
	cpu      time.Duration // process CPU consumed since the call started
	allow    time.Duration // CPU allowance that applied
	panicked interface{}
	pstack   string
	elapsed  time.Duration
}

// watch runs f under the watchdog; marker selects the goroutines that belong to the code under test.
func watch(shape, marker string, n int, f func()) wdVerdict {
	done := make(chan struct{})
	var v wdVerdict
	start := time.Now()
	cpu0 := cpuNow()
	go func() {
		defer close(done)
		defer func() {
			if r := recover(); r != nil {
				v.panicked = r
				v.pstack = string(stackOf())
			}
		}()
		f()
	}()
	finished := func() wdVerdict {
		v.ok = true
		v.elapsed = time.Since(start)
		wdRecord(shape, v.elapsed)
		wdRecordCPU(shape, cpuNow()-cpu0)
		return v
	}
	deadline := wdDeadline(shape, n)
	allow := wdCPUAllowance(shape, n)
	v.allow = allow
	next := wdFirstProbe
	var lastAlive time.Time // time of the most recent probe that saw the call running, at least wdAliveGap ago or zero
	var aliveProbes []time.Time
	for {
		wait := next
		if wait > deadline && time.Since(start) < deadline {
			wait = deadline
		}
		tm := time.NewTimer(wait - time.Since(start))
		select {
		case <-done:
			tm.Stop()
			return finished()
		case <-tm.C:
		}
		d1 := allStacks()
		now := time.Now()
		if p1 := deadlockProof(parseDump(d1, marker)); p1 != nil {
			// confirm on a second snapshot
			select {
			case <-done:
				return finished()
			case <-time.After(500 * time.Millisecond):
			}
			d2 := allStacks()
			p2 := deadlockProof(parseDump(d2, marker))
			if p2 != nil && strings.Join(p1, ",") == strings.Join(p2, ",") {
				select {
				case <-done: // finished between the snapshots: not dead
					return finished()
				default:
				}
				v.deadlock, v.dump, v.elapsed = true, d2, time.Since(start)
				return v
			}
		}
		alive := aliveLib(d1, marker)
		burned := cpuNow() - cpu0
		if len(alive) > 0 {
			// was the call also seen running at a probe at least wdAliveGap earlier?
			lastAlive = time.Time{}
			for _, tp := range aliveProbes {
				if now.Sub(tp) >= wdAliveGap {
					lastAlive = tp
				}
			}
			aliveProbes = append(aliveProbes, now)
			if burned > allow && !lastAlive.IsZero() {
				select {
				case <-done:
					return finished()
				default:
				}
				v.spin, v.dump, v.alive, v.cpu, v.elapsed = true, d1, alive, burned, time.Since(start)
				return v
			}
		} else {
			aliveProbes = nil
		}
		if el := time.Since(start); el >= deadline {
			// extend while the call is visibly alive and has not yet consumed its CPU allowance
			if !(len(alive) > 0 && burned <= allow && el < time.Duration(wdExtend)*deadline) {
				v.dump, v.alive, v.cpu, v.elapsed = d1, alive, burned, el
				return v
			}
		}
		next += wdProbeEvery
	}
}

func stackOf() []byte {
	buf := make([]byte, 1<<16)
	return buf[:runtime.Stack(buf, false)]
}

type fataler interface {
	Fatalf(format string, args ...any)
}

// guarded runs one library call under the watchdog and converts the outcome:
// proven deadlock -> property failure; proven busy non-termination -> FAIL lines + exit 1 (the
// runaway goroutine cannot be stopped); deadline without proof -> process exit 3 (inconclusive);
// panic in the calling goroutine -> re-raised (rapid reports it as a failure).
func guarded(t fataler, shape, desc string, n int, f func()) time.Duration {
	v := watch(shape, libMarker, n, f)
	switch {
	case v.panicked != nil:
		panic(fmt.Sprintf("%s: panic: %v\n%s", desc, v.panicked, v.pstack))
	case v.ok:
		return v.elapsed
	case v.deadlock:
		t.Fatalf("%s: the call does not terminate: DEADLOCK proven after %s — every goroutine with a gnark-crypto frame is parked on a channel/semaphore and none is runnable (two identical snapshots):\n%s",
			desc, v.elapsed.Round(time.Millisecond), clip(libFirst(v.dump, libMarker), 24000))
	case v.spin:
		fmt.Printf("--- FAIL: C04 termination violation (busy non-termination)\n")
		fmt.Printf("    watchdog_test.go:1: %s: the call does not terminate: it has consumed %s of CPU time since it started (allowance max(%s, 1000 x median CPU of same-shape calls) + 2 ms/point = %s; wall %s) and is still running at two probes >= %s apart: %s\n",
			desc, v.cpu.Round(time.Second), wdCPUMin, v.allow.Round(time.Second), v.elapsed.Round(time.Second), wdAliveGap, strings.Join(v.alive, "; "))
		fmt.Printf("    to reproduce: same job with -rapid.seed of this run (the driver stores it next to this log)\n%s\nFAIL\n", clip(libFirst(v.dump, libMarker), 24000))
		rep.Flush()
		os.Exit(1)
	default:
		fmt.Printf("[c04] INCONCLUSIVE: %s still running after %s wall / %s CPU (deadline max(%s, 100 x median), CPU allowance %s); no deadlock proof and the CPU criterion is not met. Running library goroutines: %v. Dump:\n%s\n",
			desc, v.elapsed.Round(time.Second), v.cpu.Round(time.Second), wdMinDeadline, v.allow.Round(time.Second), v.alive, clip(libFirst(v.dump, libMarker), 24000))
		rep.Flush()
		os.Exit(3)
	}
	return v.elapsed
}
