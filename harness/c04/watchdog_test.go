package c04

// Termination clause of C04. Every library call runs in its own goroutine under a watchdog.
//
//   - deadline = max(60 s, 100 x median duration of earlier calls of the same shape);
//   - while waiting, the watchdog periodically takes runtime.Stack(all) (a consistent, stop-the-world
//     snapshot) and checks whether the call is *provably* dead: at least one goroutine has a frame
//     inside gnark-crypto, and every such goroutine is parked in a channel / WaitGroup / semaphore
//     operation, none running or runnable. The library's channels are private to one call, so
//     nothing outside that set can ever wake it: this is a deadlock, whatever the clock says. The
//     proof must hold on two snapshots with the same goroutine set before it is reported;
//   - deadline reached without such a proof: inconclusive. The process prints the dump and exits
//     with status 3 and no FAIL line, which the driver maps to "inconclusive" (never a violation).

import (
	"fmt"
	"os"
	"regexp"
	"runtime"
	"sort"
	"strings"
	"sync"
	"time"

	"verif/harness/internal/rep"
)

const libMarker = "github.com/consensys/gnark-crypto/"

var (
	wdMu        sync.Mutex
	wdDurations = map[string][]time.Duration{}
	// overridable by the self test
	wdMinDeadline = time.Duration(rep.EnvInt("VERIF_C04_DEADLINE_S", 60)) * time.Second
	wdFirstProbe  = time.Duration(rep.EnvInt("VERIF_C04_PROBE_S", 10)) * time.Second
	wdProbeEvery  = time.Duration(rep.EnvInt("VERIF_C04_PROBE_S", 10)) * time.Second
)

// wdDeadline: max(60 s, 100 x median of same-shape calls), plus a size allowance (3 ms per input
// point, x10 under -race) so that the first large call of a shape is not cut short on a loaded host.
func wdDeadline(shape string, n int) time.Duration {
	wdMu.Lock()
	defer wdMu.Unlock()
	per := 3 * time.Millisecond
	if raceEnabled {
		per *= 10
	}
	d := wdMinDeadline + time.Duration(n)*per
	ds := wdDurations[shape]
	if len(ds) > 0 {
		s := append([]time.Duration(nil), ds...)
		sort.Slice(s, func(i, j int) bool { return s[i] < s[j] })
		if m := 100 * s[len(s)/2]; m > d {
			d = m
		}
	}
	return d
}

func wdRecord(shape string, d time.Duration) {
	wdMu.Lock()
	defer wdMu.Unlock()
	if len(wdDurations[shape]) < 64 {
		wdDurations[shape] = append(wdDurations[shape], d)
	}
}

type gInfo struct {
	id    string
	state string
	lib   bool
}

var gHeader = regexp.MustCompile(`^goroutine (\d+) \[([^\]]*)\]:$`)

// parseDump splits a runtime.Stack(all) dump into goroutines.
func parseDump(dump, marker string) []gInfo {
	var out []gInfo
	for _, blk := range strings.Split(dump, "\n\n") {
		lines := strings.Split(strings.TrimSpace(blk), "\n")
		if len(lines) == 0 {
			continue
		}
		m := gHeader.FindStringSubmatch(strings.TrimSpace(lines[0]))
		if m == nil {
			continue
		}
		st := m[2]
		if i := strings.Index(st, ","); i >= 0 {
			st = st[:i]
		}
		g := gInfo{id: m[1], state: strings.TrimSpace(st)}
		for _, l := range lines[1:] {
			// frame lines (function names) are not indented; "created by" lines count too:
			// a goroutine started by the library belongs to the call
			if !strings.HasPrefix(l, "\t") && strings.Contains(l, marker) {
				g.lib = true
				break
			}
		}
		out = append(out, g)
	}
	return out
}

// states in which a goroutine can only continue if another goroutine acts on the same object
var parkedStates = map[string]bool{
	"chan receive": true, "chan send": true, "select": true,
	"chan receive (nil chan)": true, "chan send (nil chan)": true, "select (no cases)": true,
	"semacquire": true, "sync.WaitGroup.Wait": true, "sync.Mutex.Lock": true, "sync.RWMutex.Lock": true,
	"sync.RWMutex.RLock": true, "sync.Cond.Wait": true,
}

// deadlockProof returns the sorted ids of the library goroutines if all of them are parked (and
// there is at least one), else nil.
func deadlockProof(gs []gInfo) []string {
	var ids []string
	for _, g := range gs {
		if !g.lib {
			continue
		}
		if !parkedStates[g.state] {
			return nil
		}
		ids = append(ids, g.id)
	}
	sort.Strings(ids)
	return ids
}

func allStacks() string {
	buf := make([]byte, 1<<20)
	for {
		n := runtime.Stack(buf, true)
		if n < len(buf) {
			return string(buf[:n])
		}
		buf = make([]byte, 2*len(buf))
	}
}

// libFirst reorders a dump so that the goroutines belonging to the code under test come first.
func libFirst(dump, marker string) string {
	var lib, other []string
	for _, blk := range strings.Split(dump, "\n\n") {
		gs := parseDump(blk, marker)
		if len(gs) == 1 && gs[0].lib {
			lib = append(lib, strings.TrimSpace(blk))
		} else if strings.TrimSpace(blk) != "" {
			other = append(other, strings.TrimSpace(blk))
		}
	}
	return fmt.Sprintf("--- %d goroutines inside gnark-crypto ---\n%s\n--- %d other goroutines ---\n%s",
		len(lib), strings.Join(lib, "\n\n"), len(other), strings.Join(other, "\n\n"))
}

func clip(s string, n int) string {
	if len(s) > n {
		return s[:n] + "\n… (dump truncated)"
	}
	return s
}

type wdVerdict struct {
	ok       bool   // the call returned
	deadlock bool   // proven deadlock
	dump     string // goroutine dump (deadlock or deadline)
	panicked interface{}
	pstack   string
	elapsed  time.Duration
}

// watch runs f under the watchdog; marker selects the goroutines that belong to the code under test.
func watch(shape, marker string, n int, f func()) wdVerdict {
	done := make(chan struct{})
	var v wdVerdict
	start := time.Now()
	go func() {
		defer close(done)
		defer func() {
			if r := recover(); r != nil {
				v.panicked = r
				v.pstack = string(stackOf())
			}
		}()
		f()
	}()
	deadline := wdDeadline(shape, n)
	next := wdFirstProbe
	for {
		wait := next
		if wait > deadline {
			wait = deadline
		}
		tm := time.NewTimer(wait - time.Since(start))
		select {
		case <-done:
			tm.Stop()
			v.ok = true
			v.elapsed = time.Since(start)
			wdRecord(shape, v.elapsed)
			return v
		case <-tm.C:
		}
		d1 := allStacks()
		if p1 := deadlockProof(parseDump(d1, marker)); p1 != nil {
			// confirm on a second snapshot
			select {
			case <-done:
				v.ok = true
				v.elapsed = time.Since(start)
				return v
			case <-time.After(500 * time.Millisecond):
			}
			d2 := allStacks()
			p2 := deadlockProof(parseDump(d2, marker))
			if p2 != nil && strings.Join(p1, ",") == strings.Join(p2, ",") {
				select {
				case <-done: // finished between the snapshots: not dead
					v.ok = true
					v.elapsed = time.Since(start)
					return v
				default:
				}
				v.deadlock, v.dump, v.elapsed = true, d2, time.Since(start)
				return v
			}
		}
		if time.Since(start) >= deadline {
			v.dump, v.elapsed = d1, time.Since(start)
			return v
		}
		next += wdProbeEvery
	}
}

func stackOf() []byte {
	buf := make([]byte, 1<<16)
	return buf[:runtime.Stack(buf, false)]
}

type fataler interface {
	Fatalf(format string, args ...any)
}

// guarded runs one library call under the watchdog and converts the outcome:
// proven deadlock -> property failure; deadline without proof -> process exit 3 (inconclusive);
// panic in the calling goroutine -> re-raised (rapid reports it as a failure).
func guarded(t fataler, shape, desc string, n int, f func()) time.Duration {
	v := watch(shape, libMarker, n, f)
	switch {
	case v.panicked != nil:
		panic(fmt.Sprintf("%s: panic: %v\n%s", desc, v.panicked, v.pstack))
	case v.ok:
		return v.elapsed
	case v.deadlock:
		t.Fatalf("%s: the call does not terminate: DEADLOCK proven after %s — every goroutine with a gnark-crypto frame is parked on a channel/semaphore and none is runnable (two identical snapshots):\n%s",
			desc, v.elapsed.Round(time.Millisecond), clip(libFirst(v.dump, libMarker), 24000))
	default:
		fmt.Printf("[c04] INCONCLUSIVE: %s still running after %s (deadline max(%s, 100 x median)); goroutines inside gnark-crypto are running/runnable, so this is not a proven deadlock. Dump:\n%s\n",
			desc, v.elapsed.Round(time.Second), wdMinDeadline, clip(libFirst(v.dump, libMarker), 24000))
		rep.Flush()
		os.Exit(3)
	}
	return v.elapsed
}
