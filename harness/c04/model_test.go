package c04

// A re-implementation of the *schedule* decisions of MultiExp from its documented cost formulas
// (window size, recursive halving, signed-digit statistics, processor choice, overweight split).
// It is used only to choose input sizes and to put class labels on cases (which window sizes,
// processors and paths a case exercises) — never to decide a verdict: the verdict always comes
// from the reference model in oracle_test.go.

import (
	"math"
	"math/big"
	"runtime"
	"sort"
)

type model struct {
	bits   int   // fr.Bits
	cs     []int // implemented window sizes
	numCPU int
}

func newModel(ad adapter) *model {
	return &model{bits: ad.Bits(), cs: ad.Cs(), numCPU: runtime.NumCPU()}
}

// bestC: cost = bits/c * (nbPoints + 2^c), smallest cost wins, first wins ties.
func (m *model) bestC(n int) int {
	best, min := 0, math.MaxFloat64
	for _, c := range m.cs {
		cc := (m.bits + 1) * (n + (1 << uint(c)))
		cost := float64(cc) / float64(c)
		if cost < min {
			min, best = cost, c
		}
	}
	return best
}

func (m *model) nbChunks(c int) int { return (m.bits + c - 1) / c }

func (m *model) lastC(c int) int { return c + 1 - (m.nbChunks(c)*c - m.bits) }

// threshold returns the smallest n for which bestC(n) == c, or -1 if c is never chosen (below limit).
func (m *model) threshold(c int, limit int) int {
	if m.bestC(0) == c {
		return 0
	}
	if m.bestC(limit) < c {
		return -1
	}
	lo, hi := 0, limit // bestC(lo) < c <= bestC(hi); bestC is monotone in n
	for hi-lo > 1 {
		mid := (lo + hi) / 2
		if m.bestC(mid) >= c {
			hi = mid
		} else {
			lo = mid
		}
	}
	if m.bestC(hi) != c {
		return -1
	}
	return hi
}

func costFunction(nbTasks, nbCpus, costPerTask int) int {
	total := nbTasks
	for nbTasks >= nbCpus {
		nbTasks -= nbCpus
		total += costPerTask
	}
	if nbTasks > 0 {
		total += costPerTask
	}
	return total
}

type leaf struct {
	lo, hi  int // the sub-MSM covers input positions lo..hi-1
	c       int
	nbTasks int
	depth   int
}

// effTasks maps the user's NbTasks to the value the library works with.
func (m *model) effTasks(nbTasks int) int {
	if nbTasks <= 0 {
		return m.numCPU * 2
	}
	return nbTasks
}

// plan returns the sub-MSMs that a call on n points with the given (valid) NbTasks is cut into.
func (m *model) plan(n, nbTasks int) []leaf {
	var out []leaf
	var rec func(lo, hi, tasks, depth int)
	rec = func(lo, hi, tasks, depth int) {
		np := hi - lo
		c := m.bestC(np)
		pre := costFunction(m.nbChunks(c), tasks, np+(1<<uint(c)))
		c2 := m.bestC(np / 2)
		post := costFunction(m.nbChunks(c2)*2, tasks, np/2+(1<<uint(c2)))
		if post < pre {
			t2 := int(math.Ceil(float64(tasks) / 2.0))
			rec(lo, lo+np/2, t2, depth+1)
			rec(lo+np/2, hi, t2, depth+1)
			return
		}
		out = append(out, leaf{lo, hi, c, tasks, depth})
	}
	rec(0, n, m.effTasks(nbTasks), 0)
	return out
}

// batchSize of the batch-affine processor per window size (transcribed; labels only).
var batchSizes = map[int]int{10: 80, 11: 150, 12: 200, 13: 350, 14: 400, 15: 500, 16: 640}

type leafStats struct {
	batchAffine int  // chunks handled by the batch-affine processor
	jacobian    int  // chunks handled by the extended-Jacobian processor
	overweight  int  // chunks split in two because their weight is >= 115
	lastCarry   bool // some scalar carries into the last window
	negDigit    bool // some digit is negative
	conflict    bool // two different inputs hit one bucket in one chunk (c >= 10): queue / doubling / cancellation candidates
}

// window returns bits [bit, bit+c) of v.
func window(w []big.Word, bit, c int) int {
	const ws = 64
	i := bit / ws
	if i >= len(w) {
		return 0
	}
	sh := uint(bit % ws)
	x := uint64(w[i]) >> sh
	if int(sh)+c > ws && i+1 < len(w) {
		x |= uint64(w[i+1]) << (ws - sh)
	}
	return int(x & (1<<uint(c) - 1))
}

// stats recodes the scalars of one leaf into signed c-bit digits (digit > 2^(c-1)-1 borrows from
// the next window, the last window absorbs the carry) and derives the per-chunk statistics.
func (m *model) stats(lf leaf, scalars []*big.Int) leafStats {
	var st leafStats
	c := lf.c
	nch := m.nbChunks(c)
	max := 1<<uint(c-1) - 1
	n := lf.hi - lf.lo
	ops := make([]int, nch)
	var seen [][]bool
	filled := make([]int, nch)
	if c >= 10 {
		seen = make([][]bool, nch)
		for j := range seen {
			seen[j] = make([]bool, 1<<15+1)
		}
	}
	for i := 0; i < n; i++ {
		s := scalars[lf.lo+i]
		if s.Sign() == 0 {
			continue
		}
		w := s.Bits()
		carry := 0
		for j := 0; j < nch; j++ {
			d := carry + window(w, j*c, c)
			carry = 0
			if j < nch-1 && d > max {
				d -= 1 << uint(c)
				carry = 1
				st.negDigit = true
			}
			if j == nch-2 && carry == 1 {
				st.lastCarry = true
			}
			if d == 0 {
				continue
			}
			ops[j]++
			if seen != nil {
				b := d - 1
				if d < 0 {
					b = -d - 1
				}
				if b < len(seen[j]) {
					if seen[j][b] {
						st.conflict = true
					} else {
						seen[j][b] = true
						filled[j]++
					}
				}
			}
		}
	}
	if c <= 9 {
		st.jacobian = nch
		return st
	}
	total := 0
	for _, o := range ops {
		total += o
	}
	target := float32(total) / float32(nch)
	for j := 0; j < nch; j++ {
		cc := c
		if j == nch-1 {
			cc = m.lastC(c)
		}
		if bs, ok := batchSizes[cc]; ok && filled[j] >= bs {
			st.batchAffine++
		} else {
			st.jacobian++
		}
		if target != 0 && float32(ops[j])*100.0/target >= 115 {
			st.overweight++
		}
	}
	return st
}

// sizeFor lists, per window size reachable below limit, the first n that selects it when the call is not split.
func (m *model) thresholds(limit int) map[int]int {
	out := map[int]int{}
	for _, c := range m.cs {
		if th := m.threshold(c, limit); th >= 0 {
			out[c] = th
		}
	}
	return out
}

func sortedKeys(mm map[int]int) []int {
	var k []int
	for c := range mm {
		k = append(k, c)
	}
	sort.Ints(k)
	return k
}
