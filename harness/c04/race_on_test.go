//go:build race

package c04

const raceEnabled = true
