package c04

// Rapid-free regression tests for defects found by (or while preparing inputs for) the C04 check.

import (
	"math/big"
	"testing"

	"github.com/consensys/gnark-crypto/ecc/secp256k1"
	secpfr "github.com/consensys/gnark-crypto/ecc/secp256k1/fr"

	"verif/harness/internal/inst"
	"verif/harness/internal/rep"
)

// F80: secp256k1.BatchScalarMultiplicationG1 chose the window size c=16 for >= 3585 scalars, but
// with fr.Bits = 256 the last window (carry included) then needs 17 bits and does not fit the
// 16-bit digits of partitionScalars: a scalar whose top 16-bit window is >= 2^15 was silently
// mis-multiplied ([2^255]G came back as the point at infinity), and digits >= 16385 ran off the
// statistics bit set sized for c <= 15 (index-out-of-range panic in a library goroutine).
// MultiExp itself never uses c=16 on this curve. The C04 all-distinct input table ([1..n]G by
// BatchScalarMultiplication, validated against the reference) hit the panic for n >= 16385.
func TestC04_Regress_F80_Secp256k1BatchScalarMulWindow16(t *testing.T) {
	g := inst.GetCurve("secp256k1").G1
	gen := g.FromRef(g.Gen).(*secp256k1.G1Affine)
	const n = 3585 // smallest length for which the cost loop preferred c=16
	v := new(big.Int).Lsh(big.NewInt(1), 255)
	want := g.E.Mul(v, g.Gen)
	sc := make([]secpfr.Element, n)
	for i := range sc {
		sc[i].SetBigInt(v)
	}
	out := secp256k1.BatchScalarMultiplicationG1(gen, sc)
	for _, i := range []int{0, n / 2, n - 1} {
		if got := g.ToRef(&out[i]); !g.E.Eq(got, want) {
			t.Fatalf("BatchScalarMultiplicationG1(G, %d x 2^255)[%d] = %s, want [2^255]G = %s", n, i, g.E.Str(got), g.E.Str(want))
		}
	}
	rep.Case("C04_Regress", "F80 secp256k1 BatchScalarMultiplicationG1 3585 x 2^255", true, "regress:F80_wrong_value")
	// the panic form: digit 16385 in the lowest window (the process dies here while the defect is present)
	for i := range sc {
		sc[i].SetUint64(16385)
	}
	out = secp256k1.BatchScalarMultiplicationG1(gen, sc)
	want = g.E.Mul(big.NewInt(16385), g.Gen)
	if got := g.ToRef(&out[n-1]); !g.E.Eq(got, want) {
		t.Fatalf("BatchScalarMultiplicationG1(G, %d x 16385)[last] = %s, want %s", n, g.E.Str(got), g.E.Str(want))
	}
	rep.Case("C04_Regress", "F80 secp256k1 BatchScalarMultiplicationG1 3585 x 16385", true, "regress:F80_stats_bitset")
}
