package c13

import (
	"bytes"
	"fmt"
	"io"
	"math/big"
	"os"
	"path/filepath"
	"strings"
	"testing"

	"pgregory.net/rapid"

	"verif/harness/internal/inst"
	"verif/harness/internal/ref"
	"verif/harness/internal/reg"
	"verif/harness/internal/rep"
)

// ---- hash_to_field.New(dst) as a hash.Hash: call histories with value retention ----------------
//
// Model: Sum(b) = append(b, BE(Hash(all bytes written since the last Reset, dst, 1)[0])...), Sum does not
// change the state, Reset empties the message, instances are independent. Beyond the values returned
// at each step, the history keeps EVERY slice returned earlier (Sum results for nil / non-nil / spare-
// capacity prefixes on either instance, []byte of ExpandMsgXmd, []Element of <field>.Hash) together
// with a snapshot and compares all of them after every later call: a returned value belongs to the
// caller (hash.Hash: Sum "appends the current hash to b and returns the resulting slice"), it must
// not change behind the caller's back, and what the caller does to it (overwrite, append) must not
// reach the hasher.

type hashHash interface {
	Write(p []byte) (int, error)
	Sum(b []byte) []byte
	Reset()
	Size() int
	BlockSize() int
}

func wrapperPkg(f inst.Field) *reg.Pkg { return reg.Get("ecc/" + f.Name() + "/hash_to_field") }

const sentinel = 0xEE

type keptBytes struct {
	origin string
	got    []byte // the slice as returned (full capacity view kept separately)
	snap   []byte
	sumNil bool // a Sum(nil) result
	later  int  // number of later library calls it has been compared after
}

type keptElems struct {
	origin string
	got    []inst.E
	snap   []*big.Int
}

type wrapHist struct {
	t      *rapid.T
	f      inst.Field
	kb     []*keptBytes
	ke     []*keptElems
	guards []writeGuard
	trace  []string
}

// writeGuard watches the spare capacity behind a slice that was handed to Write.
type writeGuard struct {
	origin string
	tail   []byte
}

var bigChunks = []int{1023, 1024, 1025, 2048, 4096, 32768}

// patBytes is a cheap deterministic byte pattern (xorshift) of length n.
func patBytes(n int, seed uint64) []byte {
	b := make([]byte, n)
	x := seed | 1
	for i := range b {
		x ^= x << 13
		x ^= x >> 7
		x ^= x << 17
		b[i] = byte(x >> 24)
	}
	return b
}

// write hands c to Write through a caller-owned buffer with `spare` bytes of spare capacity (filled
// with a sentinel that must never change), then overwrites the buffer (the caller reuses it).
func (w *wrapHist) write(in *wrapInst, c []byte, spare int) {
	backing := make([]byte, len(c)+spare)
	copy(backing, c)
	for i := len(c); i < len(backing); i++ {
		backing[i] = sentinel
	}
	buf := backing[:len(c)]
	k, err := in.h.Write(buf)
	if k != len(c) || err != nil {
		w.t.Fatalf("%s: Write(%d bytes) = %d, %v", w.f.Name(), len(c), k, err)
	}
	in.model = append(in.model, c...)
	for j := range buf { // the caller may reuse its buffer after Write
		buf[j] ^= 0x5a
	}
	op := fmt.Sprintf("%s.Write(%d bytes, spare %d)", in.name, len(c), spare)
	if len(c) <= 16 {
		op = fmt.Sprintf("%s.Write(%x, spare %d)", in.name, c, spare)
	}
	w.trace = append(w.trace, op)
	if spare > 0 {
		w.guards = append(w.guards, writeGuard{origin: op, tail: backing[len(c):]})
	}
	w.verify(op)
}

type onlyReader struct{ r io.Reader }

func (o onlyReader) Read(p []byte) (int, error) { return o.r.Read(p) }

type onlyWriter struct{ h hashHash }

func (o onlyWriter) Write(p []byte) (int, error) { return o.h.Write(p) }

// stream copies msg into the hasher with io.CopyBuffer through one reused buffer of bs bytes.
func (w *wrapHist) stream(in *wrapInst, msg []byte, bs int) {
	buf := make([]byte, bs)
	n, err := io.CopyBuffer(onlyWriter{in.h}, onlyReader{bytes.NewReader(msg)}, buf)
	if err != nil || int(n) != len(msg) {
		w.t.Fatalf("%s: io.CopyBuffer = %d, %v", w.f.Name(), n, err)
	}
	in.model = append(in.model, msg...)
	for j := range buf {
		buf[j] = 0xC3
	}
	op := fmt.Sprintf("%s.CopyBuffer(%d bytes, buffer %d)", in.name, len(msg), bs)
	w.trace = append(w.trace, op)
	w.verify(op)
}

// verify compares every retained value with its snapshot; called after every library call.
func (w *wrapHist) verify(after string) {
	for _, g := range w.guards {
		for i, b := range g.tail {
			if b != sentinel {
				w.t.Fatalf("%s: the spare capacity behind the slice passed to %s was written to (offset %d) by/before %s\nhistory: %s",
					w.f.Name(), g.origin, i, after, strings.Join(w.trace, " "))
			}
		}
	}
	for _, k := range w.kb {
		if !bytes.Equal(k.got, k.snap) {
			w.t.Fatalf("%s: the slice returned earlier by %s was modified by the later call %s: now %x, was %x\nhistory: %s",
				w.f.Name(), k.origin, after, k.got, k.snap, strings.Join(w.trace, " "))
		}
		k.later++
	}
	for _, k := range w.ke {
		for i := range k.got {
			if k.got[i].Big().Cmp(k.snap[i]) != 0 {
				w.t.Fatalf("%s: element %d of the slice returned earlier by %s was modified by the later call %s\nhistory: %s",
					w.f.Name(), i, k.origin, after, strings.Join(w.trace, " "))
			}
		}
	}
}

func (w *wrapHist) keep(origin string, b []byte, sumNil bool) {
	w.kb = append(w.kb, &keptBytes{origin: origin, got: b, snap: append([]byte{}, b...), sumNil: sumNil})
}

type wrapInst struct {
	name  string
	h     hashHash
	dst   []byte
	model []byte
}

func (w *wrapHist) digest(in *wrapInst) []byte {
	want, err := ref.HashToField(in.model, in.dst, w.f.Q(), 1, 1)
	if err != nil {
		w.t.Fatalf("HARNESS: %v", err)
	}
	return want[0][0].FillBytes(make([]byte, w.f.Bytes()))
}

// sum calls Sum with a prefix of the requested shape and checks value, append semantics and bounds.
func (w *wrapHist) sum(in *wrapInst, shape int, pre []byte, spare int) string {
	f := w.f
	size := f.Bytes()
	wb := w.digest(in)
	var b, backing []byte
	cls := ""
	switch shape {
	case 0: // nil
		b = nil
		cls = "sum_nil"
	case 1: // non-nil, no spare capacity
		b = append(make([]byte, 0, len(pre)), pre...)
		cls = "sum_prefix_exact"
	default: // spare capacity: backing array filled with a sentinel beyond len(pre)
		backing = bytes.Repeat([]byte{sentinel}, len(pre)+spare)
		copy(backing, pre)
		b = backing[:len(pre)]
		cls = "prefix_with_spare_capacity"
	}
	got := in.h.Sum(b)
	op := fmt.Sprintf("%s.Sum(prefix len %d cap %d)", in.name, len(b), cap(b))
	w.trace = append(w.trace, op)
	want := append(append([]byte{}, pre...), wb...)
	if !bytes.Equal(got, want) {
		w.t.Fatalf("%s: %s after writing %x = %x, want %x||%x\nhistory: %s", f.Name(), op, in.model, got, pre, wb, strings.Join(w.trace, " "))
	}
	if in.h.Size() != size {
		w.t.Fatalf("%s: Size() = %d, digest has %d bytes", f.Name(), in.h.Size(), size)
	}
	if backing != nil {
		// Sum(b) = append(b, digest...): the prefix is untouched and nothing is written beyond len(b)+Size()
		if !bytes.Equal(backing[:len(pre)], pre) {
			w.t.Fatalf("%s: %s modified the prefix", f.Name(), op)
		}
		for i := len(pre) + size; i < len(backing); i++ {
			if backing[i] != sentinel {
				w.t.Fatalf("%s: %s wrote beyond len(b)+Size() into the spare capacity (offset %d)", f.Name(), op, i)
			}
		}
		if spare < size {
			// not enough room: append must reallocate and leave the caller's array alone
			for i := len(pre); i < len(backing); i++ {
				if backing[i] != sentinel {
					w.t.Fatalf("%s: %s wrote into a too-small spare capacity (offset %d)", f.Name(), op, i)
				}
			}
		}
	}
	w.verify(op)
	w.keep(op, got, shape == 0)
	return cls
}

func propWrapper(t *rapid.T, f inst.Field) {
	T := "C13_HashWrapper/" + f.Name()
	p := wrapperPkg(f)
	w := &wrapHist{t: t, f: f}
	newInst := func(name string) *wrapInst {
		n := rapid.SampledFrom([]int{0, 1, 16, 43, 254, 255}).Draw(t, name+"dstLen")
		dst := rapid.SliceOfN(rapid.Byte(), n, n).Draw(t, name+"dst")
		orig := append([]byte{}, dst...)
		h := p.F("New", dst)[0].(hashHash)
		for i := range dst { // "copy in case the argument is modified"
			dst[i] ^= 0xff
		}
		w.trace = append(w.trace, fmt.Sprintf("%s=New(dst len %d)", name, n))
		return &wrapInst{name: name, h: h, dst: orig}
	}
	insts := []*wrapInst{newInst("h1")}
	cls := map[string]bool{fmt.Sprintf("dst_len:%d", len(insts[0].dst)): true}
	steps := rapid.IntRange(3, 12).Draw(t, "steps")
	size := f.Bytes()
	for i := 0; i < steps; i++ {
		in := insts[rapid.IntRange(0, len(insts)-1).Draw(t, "inst")]
		switch rapid.IntRange(0, 12).Draw(t, "op") {
		case 0, 1, 2:
			// chunk: usually short; sometimes a long one (1023..32768 bytes, content from a drawn seed) -
			// long chunks preferably as the FIRST chunk of the message - always followed by more data
			var c []byte
			long := rapid.IntRange(0, 3).Draw(t, "long") == 0
			if long {
				n := rapid.SampledFrom(bigChunks).Draw(t, "chunkLen")
				if len(in.model) > 0 && rapid.Bool().Draw(t, "resetFirst") {
					in.h.Reset()
					in.model = nil
					w.trace = append(w.trace, in.name+".Reset")
					w.verify("Reset")
				}
				c = patBytes(n, rapid.Uint64().Draw(t, "chunkSeed"))
			} else {
				c = rapid.SliceOfN(rapid.Byte(), 0, 70).Draw(t, "chunk")
			}
			first := len(in.model) == 0
			w.write(in, c, rapid.SampledFrom([]int{0, 0, 1, 64, 4096}).Draw(t, "writeSpare"))
			if long {
				// the message continues
				w.write(in, rapid.SliceOfN(rapid.Byte(), 1, 40).Draw(t, "more"), 0)
				if first && len(c) >= 1024 {
					cls["first_chunk>=1024+continued"] = true
				}
				cls[fmt.Sprintf("chunk_len:%d", len(c))] = true
				// and the digest is taken right away, while the caller's buffers are dirty
				cls[w.sum(in, 0, nil, 0)] = true
			}
		case 3:
			in.h.Reset()
			in.model = nil
			w.trace = append(w.trace, in.name+".Reset")
			cls["reset"] = true
			w.verify("Reset")
		case 4, 5:
			cls[w.sum(in, 0, nil, 0)] = true
		case 6:
			pre := rapid.SliceOfN(rapid.Byte(), 0, 5).Draw(t, "prefix")
			cls[w.sum(in, 1, pre, 0)] = true
		case 7:
			pre := rapid.SliceOfN(rapid.Byte(), 0, 5).Draw(t, "prefix")
			spare := rapid.SampledFrom([]int{1, size - 1, size, size + 1, size + 9}).Draw(t, "spare")
			cls[w.sum(in, 2, pre, spare)] = true
		case 8:
			if len(insts) < 2 {
				insts = append(insts, newInst("h2"))
				cls["second_instance"] = true
				w.verify("New")
			}
		case 9:
			// the caller owns what it got: overwrite a retained slice and append to it, then go on
			if len(w.kb) > 0 {
				k := w.kb[rapid.IntRange(0, len(w.kb)-1).Draw(t, "victim")]
				for j := range k.got {
					k.got[j] = ^k.got[j]
				}
				grown := append(k.got, 0xAA, 0xBB, 0xCC)
				_ = grown
				k.snap = append([]byte{}, k.got...)
				w.trace = append(w.trace, "scribble("+k.origin+")")
				cls["returned_scribbled"] = true
				// other retained slices must not share memory with the scribbled one
				w.verify("caller overwrote the slice returned by " + k.origin)
			}
		case 10:
			// field hashing helper returning a slice of elements
			count := rapid.IntRange(1, 3).Draw(t, "count")
			es, err := libFieldHash(t, f, in.model, in.dst, count)
			if err != nil {
				t.Fatalf("%s.Hash: %v", f.Name(), err)
			}
			want, _ := ref.HashToField(in.model, in.dst, f.Q(), 1, count)
			k := &keptElems{origin: fmt.Sprintf("Hash(count %d)", count), got: es}
			for j := range es {
				checkElem(t, f, "Hash", es[j], want[j][0])
				k.snap = append(k.snap, want[j][0])
			}
			w.trace = append(w.trace, k.origin)
			w.verify(k.origin)
			if rapid.Bool().Draw(t, "scribbleElems") {
				for j := range es {
					es[j].SetUint64(uint64(0xdead + j))
					k.snap[j] = big.NewInt(int64(0xdead + j))
				}
				cls["returned_scribbled"] = true
			}
			w.ke = append(w.ke, k)
			cls["helper_slice_kept"] = true
		case 12:
			// streaming: io.CopyBuffer through a caller-owned buffer that is reused for every Read
			n := rapid.SampledFrom([]int{1500, 3000, 5000, 40000}).Draw(t, "streamLen")
			bs := rapid.SampledFrom([]int{512, 1024, 2048, 32768}).Draw(t, "bufLen")
			if rapid.Bool().Draw(t, "resetFirst") {
				in.h.Reset()
				in.model = nil
				w.trace = append(w.trace, in.name+".Reset")
			}
			w.stream(in, patBytes(n, rapid.Uint64().Draw(t, "streamSeed")), bs)
			cls["streamed_through_reused_buffer"] = true
			cls[fmt.Sprintf("stream_buffer:%d", bs)] = true
			cls[w.sum(in, 0, nil, 0)] = true
		case 11:
			n := rapid.SampledFrom([]int{1, 31, 32, 33, 64, 100}).Draw(t, "xmdLen")
			got, err := libXmd(t, in.model, in.dst, n)
			want, _ := ref.ExpandMessageXMD(in.model, in.dst, n)
			if err != nil || !bytes.Equal(got, want) {
				t.Fatalf("ExpandMsgXmd: %x, %v; want %x", got, err, want)
			}
			op := fmt.Sprintf("ExpandMsgXmd(%d)", n)
			w.trace = append(w.trace, op)
			w.verify(op)
			w.keep(op, got, false)
			cls["helper_slice_kept"] = true
		}
	}
	// close the history: every instance still answers for its own message
	for _, in := range insts {
		got := in.h.Sum(nil)
		w.trace = append(w.trace, in.name+".Sum(nil) [final]")
		if !bytes.Equal(got, w.digest(in)) {
			t.Fatalf("%s: final %s.Sum(nil) = %x, want %x\nhistory: %s", f.Name(), in.name, got, w.digest(in), strings.Join(w.trace, " "))
		}
		w.verify(in.name + ".Sum(nil) [final]")
		if len(in.model) == 0 {
			cls["empty_message"] = true
		}
	}
	for _, k := range w.kb {
		if k.sumNil && k.later >= 2 {
			cls["sum_nil_kept_across_calls"] = true
		}
	}
	var cl []string
	for c := range map[string]bool(cls) {
		cl = append(cl, c)
	}
	sortStrings(cl)
	rep.Case(T, f.Name()+" "+strings.Join(w.trace, " "), true, cl...)
}

func sortStrings(s []string) {
	for i := 1; i < len(s); i++ {
		for j := i; j > 0 && s[j] < s[j-1]; j-- {
			s[j], s[j-1] = s[j-1], s[j]
		}
	}
}

// wrapperFixed is the rapid-free core of the history property (runs once per wrapper package before
// the rapid search): Sum(nil) twice on one hasher with a Reset in between, both results retained;
// Sum into a prefix with spare capacity; a scribbled result does not reach the hasher.
func wrapperFixed(t *testing.T, f inst.Field) {
	T := "C13_HashWrapper/" + f.Name()
	p := wrapperPkg(f)
	dst := []byte("VERIF-C13-wrapper")
	dig := func(msg []byte) []byte {
		want, _ := ref.HashToField(msg, dst, f.Q(), 1, 1)
		return want[0][0].FillBytes(make([]byte, f.Bytes()))
	}
	h := p.F("New", dst)[0].(hashHash)
	h.Write([]byte("message one"))
	d1 := h.Sum(nil)
	s1 := append([]byte{}, d1...)
	if !bytes.Equal(d1, dig([]byte("message one"))) {
		t.Fatalf("%s: Sum(nil) of message one = %x", f.Name(), d1)
	}
	h.Reset()
	h.Write([]byte("another message"))
	d2 := h.Sum(nil)
	if !bytes.Equal(d1, s1) {
		t.Fatalf("%s: the digest of message one returned by Sum(nil) was modified by the next Sum on the same hasher: %x, was %x", f.Name(), d1, s1)
	}
	if !bytes.Equal(d2, dig([]byte("another message"))) {
		t.Fatalf("%s: Sum(nil) of the second message = %x", f.Name(), d2)
	}
	for i := range d2 {
		d2[i] = 0
	}
	h2 := p.F("New", dst)[0].(hashHash)
	h2.Write([]byte("x"))
	_ = h2.Sum(nil)
	if d3 := h.Sum(nil); !bytes.Equal(d3, dig([]byte("another message"))) || !bytes.Equal(d1, s1) {
		t.Fatalf("%s: overwriting a returned digest / using a second instance changed the hasher or an earlier result", f.Name())
	}
	size := f.Bytes()
	backing := bytes.Repeat([]byte{sentinel}, 3+size+5)
	copy(backing, "abc")
	got := h.Sum(backing[:3])
	if !bytes.Equal(got, append([]byte("abc"), dig([]byte("another message"))...)) {
		t.Fatalf("%s: Sum(prefix with spare capacity) = %x", f.Name(), got)
	}
	for i := 3 + size; i < len(backing); i++ {
		if backing[i] != sentinel {
			t.Fatalf("%s: Sum wrote beyond len(b)+Size()", f.Name())
		}
	}
	// long first chunk through a reused buffer with spare capacity, message continued; streaming = one shot
	for _, n := range bigChunks {
		h := p.F("New", dst)[0].(hashHash)
		msg := patBytes(n, uint64(n))
		backing := append(append([]byte{}, msg...), bytes.Repeat([]byte{sentinel}, 128)...)
		h.Write(backing[:n])
		for i := 0; i < n; i++ {
			backing[i] = 0
		}
		h.Write([]byte("tail"))
		if got := h.Sum(nil); !bytes.Equal(got, dig(append(append([]byte{}, msg...), "tail"...))) {
			t.Fatalf("%s: Write(%d-byte first chunk) + caller reuses its buffer + Write(more): Sum = %x, want the digest of the bytes that were written", f.Name(), n, got)
		}
		for i := n; i < len(backing); i++ {
			if backing[i] != sentinel {
				t.Fatalf("%s: after Write(%d-byte first chunk) + Write(more) the spare capacity of the caller's first buffer was written to", f.Name(), n)
			}
		}
	}
	for _, bs := range []int{512, 1024, 2048, 32768} {
		h := p.F("New", dst)[0].(hashHash)
		msg := patBytes(40000, uint64(bs))
		if _, err := io.CopyBuffer(onlyWriter{h}, onlyReader{bytes.NewReader(msg)}, make([]byte, bs)); err != nil {
			t.Fatal(err)
		}
		if got := h.Sum(nil); !bytes.Equal(got, dig(msg)) {
			t.Fatalf("%s: 40000 bytes streamed with io.CopyBuffer(buffer %d): Sum = %x, one-shot digest %x", f.Name(), bs, got, dig(msg))
		}
	}
	rep.Case(T, f.Name()+" fixed history (long chunks, streaming)", true, "first_chunk>=1024+continued", "streamed_through_reused_buffer", "fixed_history")
	rep.Case(T, f.Name()+" fixed history", true, "sum_nil_kept_across_calls", "returned_scribbled", "prefix_with_spare_capacity", "second_instance", "fixed_history")
}

func TestC13_HashWrapper(t *testing.T) {
	forFields(t, func(t *testing.T, f inst.Field) {
		if p := wrapperPkg(f); p == nil || !p.Has("New") {
			t.Skip("no hash_to_field package")
		}
		wrapperFixed(t, f)
		rapid.Check(t, func(t *rapid.T) { propWrapper(t, f) })
	})
}

// TestC13_WrapperInventory: every hash_to_field package present in the library tree is registered
// (and therefore run by TestC13_HashWrapper; conf/c13.py shards over the same 16 names).
func TestC13_WrapperInventory(t *testing.T) {
	const T = "C13_WrapperInventory"
	have := map[string]bool{}
	for _, f := range inst.Fields() {
		if p := wrapperPkg(f); p != nil && p.Has("New") {
			have[f.Name()] = true
			rep.Count(T, "wrapper_package", 1, 1, f.Name())
		}
	}
	if len(have) != 16 {
		t.Errorf("HARNESS: expected 16 hash_to_field wrapper packages in the registry, have %d", len(have))
	}
	repo := os.Getenv("VERIF_REPO")
	if repo == "" {
		repo = "/repo"
	}
	dirs, _ := filepath.Glob(filepath.Join(repo, "ecc", "*", "f[rp]", "hash_to_field"))
	if len(dirs) == 0 {
		rep.Note(T, "library tree not readable at "+repo+": inventory compared with the registry only")
	}
	for _, d := range dirs {
		rel, _ := filepath.Rel(filepath.Join(repo, "ecc"), filepath.Dir(d))
		if !have[filepath.ToSlash(rel)] {
			t.Errorf("HARNESS: %s has a hash_to_field wrapper that is not in the instance list (add it to gen_reg.py and conf/c13.py WRAPPED)", rel)
		}
	}
	rep.Exhaustive(T)
}
