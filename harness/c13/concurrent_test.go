package c13

import (
	"bytes"
	"fmt"
	"runtime/debug"
	"sync"
	"testing"

	"verif/harness/internal/inst"
	"verif/harness/internal/ref"
	"verif/harness/internal/rep"
)

// Concurrent section. The hash-to-field code draws scratch big.Ints from a process-wide pool
// (field/pool); the value oracle of C13 must also hold when many goroutines hash at once: g goroutines
// are released by a barrier, each hashes its own (msg, dst, count) over and over, and every result is
// compared with the reference value computed sequentially beforehand. A panic inside a goroutine is a
// failure reported with its stack. Deterministic inputs; case counts fixed per instance (most of the
// budget on the widest fields, whose scratch integers are the largest).

var concLevels = []int{2, 8, 32}

// concCalls: library calls per goroutine level (quick tier), by width of the field.
func concCalls(f inst.Field) int {
	n := 6000
	switch {
	case f.Name() == "bw6-761/fp":
		n = 160000
	case f.Name() == "bw6-633/fp":
		n = 60000
	case f.NLimbs() >= 6:
		n = 24000
	case f.NLimbs() >= 5:
		n = 12000
	}
	return rep.Scale(n, 6*n)
}

type concFailure struct {
	msg string
}

// runConcurrent releases g goroutines at once; body(i) runs in goroutine i and returns a failure text or "".
func runConcurrent(g int, body func(i int) string) []string {
	var start, done sync.WaitGroup
	start.Add(1)
	done.Add(g)
	fails := make([]string, g)
	for i := 0; i < g; i++ {
		i := i
		go func() {
			defer done.Done()
			defer func() {
				if r := recover(); r != nil {
					fails[i] = fmt.Sprintf("goroutine %d panicked: %v\n%s", i, r, debug.Stack())
				}
			}()
			start.Wait()
			fails[i] = body(i)
		}()
	}
	start.Done()
	done.Wait()
	var out []string
	for _, f := range fails {
		if f != "" {
			out = append(out, f)
		}
	}
	return out
}

func TestC13_ConcurrentFieldHash(t *testing.T) {
	forFields(t, func(t *testing.T, f inst.Field) {
		T := "C13_ConcurrentFieldHash/" + f.Name()
		var wp hashHashNew
		if p := wrapperPkg(f); p != nil && p.Has("New") {
			wp = func(dst []byte) hashHash { return p.F("New", dst)[0].(hashHash) }
		}
		total := int64(0)
		for _, g := range concLevels {
			type job struct {
				msg, dst []byte
				count    int
				want     []inst.E
				digest   []byte
			}
			jobs := make([]job, g)
			for i := range jobs {
				j := &jobs[i]
				j.msg = patBytes(1+(i*37)%200, uint64(1000*g+i))
				j.dst = patBytes(1+(i*11)%60, uint64(7000*g+i))
				j.count = 1 + i%3
				w, err := ref.HashToField(j.msg, j.dst, f.Q(), 1, j.count)
				if err != nil {
					t.Fatal(err)
				}
				for _, e := range w {
					j.want = append(j.want, f.FromBig(e[0]))
				}
				w1, _ := ref.HashToField(j.msg, j.dst, f.Q(), 1, 1) // the wrapper hashes with count = 1
				j.digest = w1[0][0].FillBytes(make([]byte, f.Bytes()))
			}
			per := concCalls(f) / g
			if per < 20 {
				per = 20
			}
			fails := runConcurrent(g, func(i int) string {
				j := &jobs[i]
				for k := 0; k < per; k++ {
					got, err := f.Hash(j.msg, j.dst, j.count)
					if err != nil || len(got) != j.count {
						return fmt.Sprintf("goroutine %d call %d: %s.Hash returned %d elements, %v", i, k, f.Name(), len(got), err)
					}
					for x := range got {
						if !got[x].Equal(j.want[x]) {
							return fmt.Sprintf("goroutine %d of %d, call %d: %s.Hash(msg=%x, dst=%x, %d)[%d] = %s, reference %s (the same call gives the reference value when made alone)",
								i, g, k, f.Name(), j.msg, j.dst, j.count, x, got[x].Big().Text(16), j.want[x].Big().Text(16))
						}
					}
					if wp != nil && k%16 == 0 {
						h := wp(j.dst)
						h.Write(j.msg)
						if d := h.Sum(nil); !bytes.Equal(d, j.digest) {
							return fmt.Sprintf("goroutine %d of %d, call %d: %s hash_to_field.New(dst).Write(msg).Sum(nil) = %x, reference %x", i, g, k, f.Name(), d, j.digest)
						}
					}
				}
				return ""
			})
			if len(fails) > 0 {
				t.Fatalf("%s: %d of %d concurrent goroutines saw a wrong result; first:\n%s", f.Name(), len(fails), g, fails[0])
			}
			total += int64(per * g)
			rep.Count(T, fmt.Sprintf("concurrent_goroutines:%d", g), int64(per*g), int64(g), fmt.Sprintf("%s: %d goroutines x %d calls", f.Name(), g, per))
		}
		rep.Count(T, "concurrent_hash:"+f.Name(), 1, 0, fmt.Sprintf("%d concurrent Hash calls", total))
		rep.Count(T, "concurrent_hash", 1, 1, f.Name())
	})
}

type hashHashNew func(dst []byte) hashHash

// concCurveIters: EncodeToG+HashToG iterations per goroutine (quick), by cost of the suite.
func concCurveIters(s *suite) int {
	n := 12
	switch s.id {
	case "bls24-315/G2", "bls24-317/G2":
		n = 2
	case "bls12-381/G2", "bls12-377/G2", "bn254/G2", "bw6-761/G1", "bw6-761/G2", "bw6-633/G1", "bw6-633/G2":
		n = 5
	}
	return rep.Scale(n, 4*n)
}

func TestC13_ConcurrentHashToCurve(t *testing.T) {
	forSuites(t, func(t *testing.T, s *suite) {
		T := "C13_ConcurrentHashToCurve/" + s.id
		E := s.g.E
		total := int64(0)
		for _, g := range concLevels {
			type job struct {
				msg, dst []byte
				want     [2]ref.Pt // EncodeToG, HashToG
			}
			jobs := make([]job, g)
			// expected values, computed sequentially: sum of MapToG over the reference hash_to_field
			// (the relation TestC13_HashToGroup decides against the reference maps); at most 8 distinct
			// (msg, dst) per level to bound the cost of the reference group law
			distinct := g
			if distinct > 8 {
				distinct = 8
			}
			for i := 0; i < distinct; i++ {
				j := &jobs[i]
				j.msg = patBytes(1+(i*53)%150, uint64(300*g+i))
				j.dst = patBytes(1+(i*7)%40, uint64(900*g+i))
				for c := 1; c <= 2; c++ {
					us, err := s.hashU(j.msg, j.dst, c)
					if err != nil {
						t.Fatal(err)
					}
					sum := ref.Pt{Inf: true}
					for _, u := range us {
						sum = E.Add(sum, s.g.ToRef(s.libMapToG(u)))
					}
					j.want[c-1] = sum
				}
			}
			for i := distinct; i < g; i++ {
				jobs[i] = jobs[i%distinct]
			}
			per := concCurveIters(s)
			fails := runConcurrent(g, func(i int) string {
				j := &jobs[i]
				for k := 0; k < per; k++ {
					for c, fn := range []string{"EncodeToG", "HashToG"} {
						p, err := s.libHash(fn, j.msg, j.dst)
						if err != nil {
							return fmt.Sprintf("goroutine %d: %s%s: %v", i, fn, s.n, err)
						}
						if got := s.g.ToRef(p); !E.Eq(got, j.want[c]) {
							return fmt.Sprintf("goroutine %d of %d, call %d: %s %s%s(msg=%x, dst=%x) = %s, expected %s (value of the same call made alone)",
								i, g, k, s.id, fn, s.n, j.msg, j.dst, E.Str(got), E.Str(j.want[c]))
						}
					}
				}
				return ""
			})
			if len(fails) > 0 {
				t.Fatalf("%s: %d of %d concurrent goroutines saw a wrong result; first:\n%s", s.id, len(fails), g, fails[0])
			}
			total += int64(2 * per * g)
			rep.Count(T, fmt.Sprintf("concurrent_goroutines:%d", g), int64(2*per*g), int64(distinct), fmt.Sprintf("%s: %d goroutines x %d x (EncodeToG, HashToG)", s.id, g, per))
		}
		rep.Count(T, "concurrent_hash:"+s.id, 1, 0, fmt.Sprintf("%d concurrent EncodeToG/HashToG calls", total))
		rep.Count(T, "concurrent_hash", 1, 1, s.id)
	})
}
