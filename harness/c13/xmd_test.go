package c13

import (
	"bytes"
	"fmt"
	"math/big"
	"testing"

	"pgregory.net/rapid"

	"verif/harness/internal/inst"
	"verif/harness/internal/ref"
	"verif/harness/internal/reg"
	"verif/harness/internal/rep"
)

// ---- library access with "must not panic" turned into a readable failure ----------------------

type fataler interface {
	Fatalf(format string, args ...any)
}

func libXmd(t fataler, msg, dst []byte, n int) (out []byte, err error) {
	defer func() {
		if r := recover(); r != nil {
			t.Fatalf("hash.ExpandMsgXmd(len(msg)=%d, len(dst)=%d, lenInBytes=%d) panicked: %v", len(msg), len(dst), n, r)
		}
	}()
	r := reg.Get("field/hash").F("ExpandMsgXmd", msg, dst, n)
	out, _ = r[0].([]byte)
	return out, reg.Err(r)
}

func libFieldHash(t fataler, f inst.Field, msg, dst []byte, count int) (out []inst.E, err error) {
	defer func() {
		if r := recover(); r != nil {
			t.Fatalf("%s.Hash(len(msg)=%d, len(dst)=%d, count=%d) panicked: %v", f.Name(), len(msg), len(dst), count, r)
		}
	}()
	return f.Hash(msg, dst, count)
}

// ---- generators -------------------------------------------------------------------------------

var dstLens = []int{0, 1, 2, 16, 31, 32, 43, 55, 64, 100, 254, 255}
var dstBadLens = []int{256, 257, 300, 511, 1000}

// drawDst draws a domain separation tag; ok=false when its length is inadmissible (> 255).
func drawDst(t *rapid.T) (dst []byte, class string, ok bool) {
	k := rapid.IntRange(0, 9).Draw(t, "dstKind")
	var n int
	switch {
	case k == 0:
		n = rapid.SampledFrom(dstBadLens).Draw(t, "dstLen")
	case k <= 5:
		n = rapid.SampledFrom(dstLens).Draw(t, "dstLen")
	default:
		n = rapid.IntRange(0, 255).Draw(t, "dstLen")
	}
	dst = rapid.SliceOfN(rapid.Byte(), n, n).Draw(t, "dst")
	switch {
	case n > 255:
		return dst, fmt.Sprintf("dst_len:%d(>255)", n), false
	case n == 0 || n == 255:
		return dst, fmt.Sprintf("dst_len:%d", n), true
	}
	return dst, "dst_len:1..254", true
}

var msgLens = []int{0, 1, 2, 31, 32, 33, 54, 55, 56, 57, 63, 64, 65, 118, 119, 120, 121, 127, 128, 129, 191, 192, 256}

// drawMsg draws a message whose length sits around the SHA-256 block/padding boundaries of
// msg_prime = Z_pad(64) || msg || 2 || 1 || dst || 1.
func drawMsg(t *rapid.T, dstLen int) ([]byte, string) {
	k := rapid.IntRange(0, 3).Draw(t, "msgKind")
	var n int
	class := "msg:len_list"
	switch k {
	case 0:
		n = rapid.IntRange(0, 300).Draw(t, "msgLen")
		class = "msg:len_random"
	case 1:
		// total length of msg_prime congruent to 55, 56, 63, 0 or 1 mod 64 (padding fits / spills)
		target := rapid.SampledFrom([]int{55, 56, 63, 0, 1}).Draw(t, "target")
		blocks := rapid.IntRange(0, 3).Draw(t, "blocks")
		fixed := 64 + 3 + dstLen + 1
		n = ((target-fixed)%64+64)%64 + 64*blocks
		class = fmt.Sprintf("msg:b0_total_mod64=%d", target)
	default:
		n = rapid.SampledFrom(msgLens).Draw(t, "msgLen")
	}
	return rapid.SliceOfN(rapid.Byte(), n, n).Draw(t, "msg"), class
}

func lenClass(n int) (string, bool) {
	switch {
	case n == 0:
		return "len:0", true
	case n < 32:
		return "len:1..31", true
	case n > 8160:
		return "len:>8160", true
	case n%32 != 0:
		return "len:not_multiple_of_32", true
	case n == 8160:
		return "len:8160", true
	}
	return "len:multiple_of_32", false
}

// ---- (1) ExpandMsgXmd -------------------------------------------------------------------------

func propXmd(t *rapid.T) {
	const T = "C13_Xmd"
	dst, dc, dstOK := drawDst(t)
	msg, mc := drawMsg(t, len(dst))
	var n int
	switch rapid.IntRange(0, 5).Draw(t, "lenKind") {
	case 0:
		n = rapid.IntRange(0, 31).Draw(t, "len")
	case 1:
		n = rapid.SampledFrom([]int{32, 33, 63, 64, 65, 95, 96, 97, 255, 256, 257, 8127, 8128, 8129, 8159, 8160}).Draw(t, "len")
	case 2:
		n = rapid.SampledFrom([]int{8161, 8191, 8192, 8193, 16384, 65535, 65536, 65537, 1 << 20}).Draw(t, "len")
	case 3:
		n = 32 * rapid.IntRange(1, 255).Draw(t, "ell")
	default:
		n = rapid.IntRange(0, 8160).Draw(t, "len")
	}
	lc, nt := lenClass(n)
	key := fmt.Sprintf("len=%d dst=%x msg=%x", n, dst, msg)
	want, werr := ref.ExpandMessageXMD(msg, dst, n)
	msg0, dst0 := append([]byte{}, msg...), append([]byte{}, dst...)
	got, err := libXmd(t, msg, dst, n)
	if !bytes.Equal(msg, msg0) || !bytes.Equal(dst, dst0) {
		t.Fatalf("ExpandMsgXmd modified its inputs")
	}
	if (err != nil) != (werr != nil) {
		t.Fatalf("ExpandMsgXmd(len(msg)=%d, len(dst)=%d, %d): error=%v, RFC 9380 5.3.1 says error=%v", len(msg), len(dst), n, err, werr)
	}
	if err == nil {
		if len(got) != n {
			t.Fatalf("ExpandMsgXmd returned %d bytes, asked for %d", len(got), n)
		}
		if !bytes.Equal(got, want) {
			t.Fatalf("ExpandMsgXmd(msg=%x, dst=%x, %d)\n got  %x\n want %x", msg, dst, n, got, want)
		}
	}
	cls := []string{lc, dc, mc}
	if err != nil {
		cls = append(cls, "error")
	}
	rep.Case(T, key, nt || !dstOK || len(dst) == 0 || len(dst) == 255, cls...)
}

func TestC13_Xmd(t *testing.T) { rapid.Check(t, propXmd) }

// TestC13_XmdSweep enumerates every output length 0..8160 (plus inadmissible ones), every DST
// length 0..300 and every message length 0..300 on fixed contents.
func TestC13_XmdSweep(t *testing.T) {
	const T = "C13_XmdSweep"
	pat := func(n int, seed byte) []byte {
		b := make([]byte, n)
		for i := range b {
			b[i] = seed + byte(i*7)
		}
		return b
	}
	check := func(msg, dst []byte, n int) {
		want, werr := ref.ExpandMessageXMD(msg, dst, n)
		got, err := libXmd(t, msg, dst, n)
		if (err != nil) != (werr != nil) {
			t.Fatalf("ExpandMsgXmd(len(msg)=%d, len(dst)=%d, %d): error=%v, RFC says error=%v", len(msg), len(dst), n, err, werr)
		}
		if err == nil && !bytes.Equal(got, want) {
			t.Fatalf("ExpandMsgXmd(len(msg)=%d, len(dst)=%d, %d)\n got  %x\n want %x", len(msg), len(dst), n, got, want)
		}
	}
	msg, dst := []byte("verif C13 sweep message"), []byte("QUUX-V01-CS02-with-expander-SHA256-128")
	nt := int64(0)
	for n := 0; n <= 8160; n++ {
		check(msg, dst, n)
		if n < 32 || n%32 != 0 {
			nt++
		}
	}
	rep.Count(T, "len:0..8160 (all)", 8161, nt, "every lenInBytes in 0..8160, fixed msg/dst")
	bad := []int{8161, 8162, 8191, 8192, 8193, 10000, 65535, 65536, 65537, 1 << 20, 1 << 24}
	for _, n := range bad {
		check(msg, dst, n)
	}
	rep.Count(T, "len:>8160 (error)", int64(len(bad)), int64(len(bad)), "8161, 8192, 65535, 65536, 2^24 ...")
	for _, n := range []int{0, 1, 20, 31, 32, 33, 48, 8160} {
		for d := 0; d <= 300; d++ {
			check(msg, pat(d, 3), n)
		}
		for m := 0; m <= 300; m++ {
			check(pat(m, 9), dst, n)
		}
	}
	rep.Count(T, "dst_len:0..300 x 8 lens", 8*301, 8*3, "every DST length 0..300 (256.. must be errors)")
	rep.Count(T, "msg_len:0..300 x 8 lens", 8*301, 0, "every message length 0..300")
	rep.Exhaustive(T)
}

// ---- (2) <field>.Hash -------------------------------------------------------------------------

func rawInt(e inst.E) *big.Int {
	l := e.Raw()
	v := new(big.Int)
	w := uint(e.F().LimbBits())
	for i := len(l) - 1; i >= 0; i-- {
		v.Lsh(v, w)
		v.Or(v, new(big.Int).SetUint64(l[i]))
	}
	return v
}

// checkElem asserts value and canonical (fully reduced Montgomery) representation.
func checkElem(t fataler, f inst.Field, what string, got inst.E, want *big.Int) {
	raw := rawInt(got)
	if raw.Cmp(f.Q()) >= 0 {
		t.Fatalf("%s: %s: result not reduced (raw limbs %s >= q)", f.Name(), what, raw.Text(16))
	}
	exp := new(big.Int).Mul(want, f.R())
	exp.Mod(exp, f.Q())
	if raw.Cmp(exp) != 0 || got.Big().Cmp(want) != 0 {
		t.Fatalf("%s: %s: got %s want %s", f.Name(), what, got.Big().Text(16), want.Text(16))
	}
}

func propFieldHash(t *rapid.T, f inst.Field) {
	T := "C13_FieldHash/" + f.Name()
	q := f.Q()
	L := ref.HashToFieldL(q)
	dst, dc, dstOK := drawDst(t)
	msg, mc := drawMsg(t, len(dst))
	var count int
	maxCount := 8160 / L
	switch rapid.IntRange(0, 9).Draw(t, "countKind") {
	case 0:
		count = rapid.SampledFrom([]int{maxCount, maxCount + 1, maxCount + 2, 2 * maxCount, 65536/L + 1}).Draw(t, "count")
	case 1, 2:
		count = rapid.IntRange(0, 1).Draw(t, "count")
	default:
		count = rapid.IntRange(0, 8).Draw(t, "count")
	}
	n := count * L
	lc, nt := lenClass(n)
	key := fmt.Sprintf("%s count=%d dst=%x msg=%x", f.Name(), count, dst, msg)
	want, werr := ref.HashToField(msg, dst, q, 1, count)
	got, err := libFieldHash(t, f, msg, dst, count)
	if (err != nil) != (werr != nil) {
		t.Fatalf("%s.Hash(len(msg)=%d, len(dst)=%d, count=%d) (L=%d, %d bytes): error=%v, RFC 9380 says error=%v", f.Name(), len(msg), len(dst), count, L, n, err, werr)
	}
	if err == nil {
		if len(got) != count {
			t.Fatalf("%s.Hash returned %d elements, asked for %d", f.Name(), len(got), count)
		}
		for i := range got {
			checkElem(t, f, fmt.Sprintf("Hash(msg=%x, dst=%x, %d)[%d]", msg, dst, count, i), got[i], want[i][0])
		}
		// determinism
		again, _ := libFieldHash(t, f, msg, dst, count)
		for i := range got {
			if !got[i].Equal(again[i]) {
				t.Fatalf("%s.Hash is not deterministic", f.Name())
			}
		}
	}
	cc := fmt.Sprintf("count:%d", count)
	if count > 8 {
		cc = "count:>8"
	}
	cls := []string{lc, dc, mc, cc}
	small := L < 32
	if small && count <= 1 {
		cls = append(cls, "small_field_count01")
	}
	if err != nil {
		cls = append(cls, "error")
	}
	rep.Case(T, key, nt || !dstOK || len(dst) == 0 || len(dst) == 255 || (small && count <= 1), cls...)
}

func forFields(t *testing.T, body func(t *testing.T, f inst.Field)) {
	for _, f := range inst.Fields() {
		if !selected(f.Name()) {
			continue
		}
		f := f
		t.Run(f.Name(), func(t *testing.T) { body(t, f) })
	}
}

func TestC13_FieldHash(t *testing.T) {
	forFields(t, func(t *testing.T, f inst.Field) {
		rapid.Check(t, func(t *rapid.T) { propFieldHash(t, f) })
	})
}

// TestC13_FieldL: the library documents L = ceil((ceil(log2(p)) + k) / 8), k = 128, computed as
// 16 + Bytes; compare with the RFC formula for all 23 moduli.
func TestC13_FieldL(t *testing.T) {
	const T = "C13_FieldL"
	if len(inst.Fields()) != 23 {
		t.Errorf("HARNESS: expected 23 fields, have %d", len(inst.Fields()))
	}
	for _, f := range inst.Fields() {
		L := ref.HashToFieldL(f.Q())
		if doc := 16 + f.Bytes(); doc != L {
			t.Errorf("%s: documented L = 16 + Bytes = %d, RFC 9380 L = %d", f.Name(), doc, L)
		}
		// behavioural: Hash(msg, dst, 1) must be OS2IP of exactly the first L bytes of a L-byte expansion
		rep.Count(T, fmt.Sprintf("L=%d", L), 1, 1, f.Name())
	}
	rep.Exhaustive(T)
}
