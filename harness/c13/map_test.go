package c13

import (
	"fmt"
	"math/big"
	"strings"
	"testing"

	"pgregory.net/rapid"

	"verif/harness/internal/gen"
	"verif/harness/internal/inst"
	"verif/harness/internal/ref"
	"verif/harness/internal/rep"
)

func (s *suite) spec() gen.FieldSpec {
	f := inst.FieldByName(s.cv.Name + "/fp")
	return gen.FieldSpec{Q: f.Q(), NLimbs: f.NLimbs(), LimbBits: f.LimbBits()}
}

// drawU draws an input of the map: 0, +-1, the exceptional inputs computed by the reference (and
// their neighbours), small integers, the field boundary lattice per coefficient, sparse extension
// elements, uniform. The second result is the class; the third whether it is exceptional/boundary.
func (s *suite) drawU(t *rapid.T, label string) (ref.V, []string, bool) {
	u, c, b := s.drawU1(t, label)
	return u, c, b
}

func (s *suite) drawU1(t *rapid.T, label string) (ref.V, []string, bool) {
	F := s.F
	sp := s.spec()
	switch rapid.IntRange(0, 12).Draw(t, label+"Kind") {
	case 12:
		return s.drawCoefSingleLimb(t, label)
	case 10, 11:
		if u, cls, ok := s.drawNearExceptional(t, label); ok {
			return u, cls, true
		}
		return s.drawCoefSingleLimb(t, label)
	case 0:
		return F.Zero(), []string{"u:0"}, true
	case 1:
		if rapid.Bool().Draw(t, label+"neg") {
			return ref.Red(F, F.Neg(F.One())), []string{"u:-1"}, true
		}
		return F.One(), []string{"u:1"}, true
	case 2, 3:
		// non-zero roots of the exceptional polynomial, when the field has any (0 has its own class)
		ex := s.exceptional()
		if len(ex) > 1 {
			return ex[rapid.IntRange(1, len(ex)-1).Draw(t, label+"exc")], []string{"u:exceptional_root"}, true
		}
		u := make(ref.V, F.Deg())
		for i := range u {
			u[i], _ = sp.Elem(t, fmt.Sprintf("%sc%d", label, i))
		}
		return u, []string{"u:lattice"}, sp.OnBoundary(u[0])
	case 4:
		// neighbours of the exceptional inputs (off by one in the first coefficient): not exceptional
		ex := s.exceptional()
		e := ex[rapid.IntRange(0, len(ex)-1).Draw(t, label+"exc")]
		d := F.One()
		if rapid.Bool().Draw(t, label+"neg") {
			d = F.Neg(d)
		}
		return ref.Red(F, F.Add(e, d)), []string{"u:exceptional_neighbour"}, true
	case 5:
		k := int64(rapid.IntRange(-20, 20).Draw(t, label+"small"))
		u := ref.Scalar(F, big.NewInt(k))
		if F.Deg() > 1 && rapid.Bool().Draw(t, label+"gen") {
			u = F.Add(u, ref.FieldGen(F))
		}
		return ref.Red(F, u), []string{"u:small"}, k == 0
	case 6:
		// sparse extension element / boundary value in a single coefficient
		u := F.Zero()
		i := rapid.IntRange(0, F.Deg()-1).Draw(t, label+"pos")
		v, _ := sp.Elem(t, label+"c")
		u[i] = v
		return u, []string{"u:single_coefficient_lattice"}, true
	case 7, 8:
		u := make(ref.V, F.Deg())
		for i := range u {
			u[i], _ = sp.Elem(t, fmt.Sprintf("%sc%d", label, i))
		}
		return u, []string{"u:lattice"}, sp.OnBoundary(u[0])
	default:
		u := make(ref.V, F.Deg())
		for i := range u {
			u[i] = sp.Uniform(t, fmt.Sprintf("%sc%d", label, i))
		}
		return u, []string{"u:uniform"}, false
	}
}

func (s *suite) callMapToCurve(t fataler, u ref.V) (p interface{}) {
	defer func() {
		if r := recover(); r != nil {
			t.Fatalf("%s: MapToCurve%s(%s) panicked: %v", s.id, s.n, vstr(u), r)
		}
	}()
	return s.libMapToCurve(u)
}

func (s *suite) callMapToG(t fataler, u ref.V) (p interface{}) {
	defer func() {
		if r := recover(); r != nil {
			t.Fatalf("%s: MapToG%s(%s) panicked: %v", s.id, s.n, vstr(u), r)
		}
	}()
	return s.libMapToG(u)
}

// refClear is the reference value of the cofactor clearing applied by MapToG / EncodeToG / HashToG
// to a point Q of E: Q itself when the cofactor is 1, [h_eff]Q where an effective cofactor is
// documented, otherwise the library's own ClearCofactor endomorphism (then only composition, validity
// and the subgroup membership are decided here).
func (s *suite) refClear(q ref.Pt) (ref.Pt, string) {
	switch {
	case s.cofactorOne():
		return q, "clear:none"
	case s.hEff != nil:
		return s.g.E.Mul(s.hEff, q), "clear:h_eff_reference"
	}
	return s.libClear(q), "clear:library_endomorphism"
}

// (3a) MapToCurve / MapToG on field elements
func propMapToCurve(t *rapid.T, s *suite) {
	u, ucs, boundary := s.drawU(t, "u")
	checkMap(t, s, "C13_MapToCurve/"+s.id, u, boundary, ucs...)
}

// checkMap is the oracle of MapToCurve / MapToG at one input u (shared by the rapid property and the
// near-exceptional sweep).
func checkMap(t fataler, s *suite, T string, u ref.V, boundary bool, ucs ...string) {
	F, E := s.F, s.g.E
	key := fmt.Sprintf("%s u=%s", s.id, vstr(u))
	cls := append(append([]string{}, ucs...), "kind:"+s.kind)

	w, br := s.refMapToCurve(u)
	cls = append(cls, "branch:"+br)
	lq := s.callMapToCurve(t, u)
	q := s.rawPt(lq)
	mc := s.mapCurve()
	undefined := strings.HasSuffix(br, ":undefined")
	if undefined && rep.Known("C13", kfSswuZ) {
		// known finding F71: Z of this suite fails criterion 4, the RFC map has no value at this exceptional
		// input. Only these inputs are tolerated, and only with exactly the output the library is known
		// to produce there (pinF71); anything else on this suite is still reported.
		pinF71(t, s, u)
		rep.Excluded(T, "C13", kfSswuZ)
		return
	}
	switch {
	case undefined:
		// The configured Z of this suite violates criterion 4 of RFC 9380 6.6.2, so the RFC map has
		// no value at this (exceptional) input. Nothing is asserted about MapToCurve here; the
		// validity of MapToG below still is.
	default:
		// on the curve the documentation names (E' before the isogeny for SSWU suites)
		if !mc.OnCurve(q) {
			t.Fatalf("%s: MapToCurve%s(%s) = %s is not on %s", s.id, s.n, vstr(u), mc.Str(q), curveName(s))
		}
		switch s.kind {
		case "SSWU", "SVDW":
			if !mc.Eq(q, w) {
				t.Fatalf("%s: MapToCurve%s(%s) = %s, RFC 9380 %s map gives %s (branch %s)", s.id, s.n, vstr(u), mc.Str(q), s.kind, mc.Str(w), br)
			}
			if !F.IsZero(q.Y) && ref.Sgn0(F, q.Y) != ref.Sgn0(F, u) {
				t.Fatalf("%s: MapToCurve%s(%s): sgn0(y) != sgn0(u)", s.id, s.n, vstr(u))
			}
		case "SVDW06":
			// hand-written draft-06 code: the x-coordinate selection is the SvdW one; its sign rule is
			// not the RFC's sgn0 and is not asserted
			if !F.Eq(q.X, w.X) {
				t.Fatalf("%s: MapToCurve%s(%s) has x = %s, the SvdW map selects x = %s (branch %s)", s.id, s.n, vstr(u), vstr(q.X), vstr(w.X), br)
			}
		}
	}
	// deterministic
	if q2 := s.rawPt(s.callMapToCurve(t, u)); !F.Eq(q.X, q2.X) || !F.Eq(q.Y, q2.Y) {
		t.Fatalf("%s: MapToCurve%s(%s) is not deterministic", s.id, s.n, vstr(u))
	}

	// MapToG: on E, in the subgroup, equal to clear(iso(map(u)))
	lp := s.callMapToG(t, u)
	p := s.g.ToRef(lp)
	if !E.OnCurve(p) {
		t.Fatalf("%s: MapToG%s(%s) = %s is not on the curve", s.id, s.n, vstr(u), E.Str(p))
	}
	if !E.Mul(s.g.R, p).Inf {
		t.Fatalf("%s: MapToG%s(%s) = %s is not in the prime-order subgroup ([r]P != O)", s.id, s.n, vstr(u), E.Str(p))
	}
	if p2 := s.g.ToRef(s.callMapToG(t, u)); !E.Eq(p, p2) {
		t.Fatalf("%s: MapToG%s(%s) is not deterministic", s.id, s.n, vstr(u))
	}
	if p.Inf {
		cls = append(cls, "result:infinity")
	}
	if !undefined {
		qe := s.refToE(w)
		if s.kind == "SVDW06" {
			qe = q // sign not modelled: continue from the library's (validated) point
		}
		if s.iso != nil {
			if lqe := s.libIsogeny(q); !E.Eq(lqe, qe) {
				t.Fatalf("%s: isogeny(MapToCurve%s(%s)) = %s, reference %s", s.id, s.n, vstr(u), E.Str(lqe), E.Str(qe))
			}
			if qe.Inf {
				cls = append(cls, "isogeny_kernel")
			}
		}
		wp, cc := s.refClear(qe)
		cls = append(cls, cc)
		if !E.Eq(p, wp) {
			t.Fatalf("%s: MapToG%s(%s) = %s, expected %s (%s)", s.id, s.n, vstr(u), E.Str(p), E.Str(wp), cc)
		}
	} else {
		cls = append(cls, "ref_undefined_at_exceptional_u")
	}
	rep.Case(T, key, boundary || strings.HasPrefix(br, "exc"), cls...)
}

func curveName(s *suite) string {
	if s.sswu != nil {
		return "the isogenous curve E'"
	}
	return "E"
}

func TestC13_MapToCurve(t *testing.T) {
	forSuites(t, func(t *testing.T, s *suite) {
		rapid.Check(t, func(t *rapid.T) { propMapToCurve(t, s) })
	})
}

// (3b) EncodeToG / HashToG on messages
func propHashToGroup(t *rapid.T, s *suite) {
	T := "C13_HashToGroup/" + s.id
	E := s.g.E
	dst, dc, dstOK := drawDst(t)
	msg, mc := drawMsg(t, len(dst))
	key := fmt.Sprintf("%s dst=%x msg=%x", s.id, dst, msg)
	cls := []string{dc, mc}
	for _, fn := range []string{"EncodeToG", "HashToG"} {
		count := 1
		if fn == "HashToG" {
			count = 2
		}
		var lp interface{}
		var err error
		func() {
			defer func() {
				if r := recover(); r != nil {
					t.Fatalf("%s: %s%s(len(msg)=%d, len(dst)=%d) panicked: %v", s.id, fn, s.n, len(msg), len(dst), r)
				}
			}()
			lp, err = s.libHash(fn, msg, dst)
		}()
		us, werr := s.hashU(msg, dst, count)
		if (err != nil) != (werr != nil) {
			t.Fatalf("%s: %s%s(len(dst)=%d): error=%v, RFC 9380 says error=%v", s.id, fn, s.n, len(dst), err, werr)
		}
		if err != nil {
			continue
		}
		p := s.g.ToRef(lp)
		if !E.OnCurve(p) {
			t.Fatalf("%s: %s%s(msg=%x, dst=%x) = %s is not on the curve", s.id, fn, s.n, msg, dst, E.Str(p))
		}
		if !E.Mul(s.g.R, p).Inf {
			t.Fatalf("%s: %s%s(msg=%x, dst=%x) = %s is not in the prime-order subgroup", s.id, fn, s.n, msg, dst, E.Str(p))
		}
		// RFC 9380 section 3: encode_to_curve = clear_cofactor(map_to_curve(u0)), u = hash_to_field(msg, 1);
		// hash_to_curve = clear_cofactor(map(u0) + map(u1)), u = hash_to_field(msg, 2). Clearing is a
		// homomorphism, so both equal the sum of MapToG(u_i) (decided against the reference by
		// TestC13_MapToCurve) with u_i from the reference hash_to_field.
		sum := ref.Pt{Inf: true}
		for _, u := range us {
			sum = E.Add(sum, s.g.ToRef(s.libMapToG(u)))
		}
		if !E.Eq(p, sum) {
			t.Fatalf("%s: %s%s(msg=%x, dst=%x) = %s, but sum of MapToG%s(hash_to_field(msg, dst, %d)) = %s", s.id, fn, s.n, msg, dst, E.Str(p), s.n, count, E.Str(sum))
		}
		// full reference pipeline where the map family and the clearing are modelled
		if s.kind != "SVDW06" {
			rs := ref.Pt{Inf: true}
			for _, u := range us {
				w, _ := s.refMapToCurve(u)
				rs = E.Add(rs, s.refToE(w))
			}
			wp, cc := s.refClear(rs)
			if !E.Eq(p, wp) {
				t.Fatalf("%s: %s%s(msg=%x, dst=%x) = %s, reference pipeline gives %s (%s)", s.id, fn, s.n, msg, dst, E.Str(p), E.Str(wp), cc)
			}
			if fn == "HashToG" {
				cls = append(cls, cc)
			}
		}
		lp2, _ := s.libHash(fn, msg, dst)
		if !E.Eq(p, s.g.ToRef(lp2)) {
			t.Fatalf("%s: %s%s is not deterministic", s.id, fn, s.n)
		}
	}
	if !dstOK {
		cls = append(cls, "error")
	}
	rep.Case(T, key, !dstOK || len(dst) == 0 || len(dst) == 255, cls...)
}

func TestC13_HashToGroup(t *testing.T) {
	forSuites(t, func(t *testing.T, s *suite) {
		rapid.Check(t, func(t *rapid.T) { propHashToGroup(t, s) })
	})
}
