package c13

import (
	"fmt"
	"math/big"
	"testing"

	"pgregory.net/rapid"

	"verif/harness/internal/ref"
	"verif/harness/internal/rep"
)

// Near-exceptional inputs. The straight-line maps decide "exceptional or not" with constant-time zero
// tests over the *stored limbs* of a temporary (G*NotZero(tv2) in SSWU; inv0 / CMOV in SvdW; the
// coefficient-wise zero test inside sgn0 for Fp2). A test that forgets a limb mistakes a non-zero value
// whose only non-zero limb is the forgotten one for zero. The generators below construct, by solving
// the defining quadratic in the reference, inputs u for which the tested temporary has all limbs zero
// except limb j - in the Montgomery (stored) reading and in the canonical reading of "limb", per
// coefficient for extension fields. The oracle is unchanged (reference map, on curve, subgroup).

func (s *suite) nLimbs() int { return (s.cv.P.BitLen() + 63) / 64 }

// limbValue returns the field value whose stored (mont=true: value*R mod p) or canonical limbs are all
// zero except limb j = k (k is shifted right until the integer is < p); nil if k becomes 0.
func (s *suite) limbValue(j int, k uint64, mont bool) *big.Int {
	p := s.cv.P
	L := new(big.Int).Lsh(new(big.Int).SetUint64(k), uint(64*j))
	for L.Cmp(p) >= 0 {
		k >>= 1
		L = new(big.Int).Lsh(new(big.Int).SetUint64(k), uint(64*j))
	}
	if k == 0 {
		return nil
	}
	if !mont {
		return L
	}
	R := new(big.Int).Lsh(big.NewInt(1), uint(64*s.nLimbs()))
	ri := new(big.Int).ModInverse(R, p)
	return L.Mul(L, ri).Mod(L, p)
}

// temporaries the exceptional branches test, per map family
func (s *suite) nearTemps() []string {
	if s.sswu != nil {
		return []string{"tv2"}
	}
	return []string{"tv1", "tv2", "tv1*tv2"}
}

func (s *suite) solveTemp(temp string, t ref.V) []ref.V {
	if s.sswu != nil {
		return s.sswu.SolveTv2(t)
	}
	return s.svdw.SolveTv(map[string]int{"tv1": 1, "tv2": 2, "tv1*tv2": 3}[temp], t)
}

// coefficient patterns of the target: one coefficient carries the limb, or (extension fields) all do
func (s *suite) patterns() [][]int {
	d := s.F.Deg()
	var out [][]int
	if s.kind == "SVDW06" {
		// Fp4, hand-written code without limb-wise zero tests: first coefficient and all coefficients only (cost)
		return [][]int{{0}, {0, 1, 2, 3}}
	}
	for i := 0; i < d; i++ {
		out = append(out, []int{i})
	}
	if d > 1 {
		all := make([]int, d)
		for i := range all {
			all[i] = i
		}
		out = append(out, all)
	}
	return out
}

// nearExceptional searches k0, k0+1, ... (at most tries values) for a u whose temporary `temp` has
// the single-limb pattern; returns the u and the k used.
func (s *suite) nearExceptional(temp string, pat []int, j int, mont bool, k0 uint64, tries int) (ref.V, uint64, bool) {
	for i := 0; i < tries; i++ {
		k := k0 + uint64(i)
		if k == 0 {
			continue
		}
		v := s.limbValue(j, k, mont)
		if v == nil {
			continue
		}
		t := s.F.Zero()
		for _, c := range pat {
			t[c] = v
		}
		if us := s.solveTemp(temp, t); len(us) > 0 {
			return us[int(k%uint64(len(us)))], k, true
		}
	}
	return nil, 0, false
}

func reading(mont bool) string {
	if mont {
		return "mont"
	}
	return "canon"
}

func (s *suite) nearClasses(temp string, j int, mont bool) []string {
	cls := []string{"u:near_exceptional", fmt.Sprintf("near_exceptional:limb%d", j), "near_exceptional:" + reading(mont), "near_exceptional:" + temp}
	if j == s.nLimbs()-1 {
		cls = append(cls, "near_exceptional:top_limb")
	}
	return cls
}

func (s *suite) drawNearExceptional(t *rapid.T, label string) (ref.V, []string, bool) {
	temps := s.nearTemps()
	temp := temps[rapid.IntRange(0, len(temps)-1).Draw(t, label+"temp")]
	pats := s.patterns()
	pat := pats[rapid.IntRange(0, len(pats)-1).Draw(t, label+"pat")]
	j := rapid.IntRange(0, s.nLimbs()-1).Draw(t, label+"limb")
	mont := rapid.Bool().Draw(t, label+"mont")
	k0 := rapid.OneOf(rapid.Uint64(), rapid.SampledFrom([]uint64{1, 2, 1 << 31, 1 << 32, 1 << 63, ^uint64(0) - 64})).Draw(t, label+"k")
	u, _, ok := s.nearExceptional(temp, pat, j, mont, k0, 48)
	if !ok {
		return nil, nil, false
	}
	return u, s.nearClasses(temp, j, mont), true
}

// drawCoefSingleLimb: u itself has, in one coefficient, a single non-zero limb (stored or canonical
// reading) and arbitrary other coefficients: the inputs on which a limb-forgetting zero test inside
// sgn0 (Fp2: "zero_i = x_i == 0") or an IsZero on u goes wrong.
func (s *suite) drawCoefSingleLimb(t *rapid.T, label string) (ref.V, []string, bool) {
	F := s.F
	sp := s.spec()
	u := make(ref.V, F.Deg())
	for i := range u {
		u[i] = sp.Uniform(t, fmt.Sprintf("%so%d", label, i))
		if rapid.Bool().Draw(t, label+"odd") {
			u[i].SetBit(u[i], 0, 1)
			u[i].Mod(u[i], s.cv.P)
		}
	}
	i := rapid.IntRange(0, F.Deg()-1).Draw(t, label+"pos")
	j := rapid.IntRange(0, s.nLimbs()-1).Draw(t, label+"limb")
	mont := rapid.Bool().Draw(t, label+"mont")
	k := rapid.OneOf(rapid.Uint64(), rapid.SampledFrom([]uint64{1, 2, 1 << 63})).Draw(t, label+"k")
	if v := s.limbValue(j, k|1<<1, mont); v != nil {
		u[i] = v
	}
	return u, []string{"u:coefficient_single_limb", fmt.Sprintf("u_single_limb:limb%d", j), "u_single_limb:" + reading(mont)}, true
}

// TestC13_NearExceptionalSweep: for every suite, every tested temporary, every coefficient pattern,
// every limb position and both readings of "limb", two constructed inputs (small k and large k)
// through the full MapToCurve / MapToG oracle. Deterministic; complete over the (suite, temporary,
// pattern, limb, reading) grid - a grid point for which no input exists within 4096 candidates fails.
func TestC13_NearExceptionalSweep(t *testing.T) {
	forSuites(t, func(t *testing.T, s *suite) {
		T := "C13_NearExceptionalSweep/" + s.id
		n := 0
		for _, temp := range s.nearTemps() {
			for _, pat := range s.patterns() {
				for j := 0; j < s.nLimbs(); j++ {
					for _, mont := range []bool{true, false} {
						for _, k0 := range []uint64{1, 0x9e3779b97f4a7c15} {
							u, k, ok := s.nearExceptional(temp, pat, j, mont, k0, 4096)
							if !ok {
								t.Fatalf("HARNESS: %s: no input with %s = single limb %d (%s, coefficients %v) among 4096 candidates", s.id, temp, j, reading(mont), pat)
							}
							cls := append(s.nearClasses(temp, j, mont), "near_exceptional:suite:"+s.id, fmt.Sprintf("near_exceptional:coefficients%v", pat))
							_ = k
							checkMap(t, s, T, u, true, cls...)
							n++
						}
					}
				}
			}
		}
		rep.Note(T, fmt.Sprintf("%d constructed inputs: temporaries %v x coefficient patterns %v x %d limbs x {stored, canonical} x 2 limb values", n, s.nearTemps(), s.patterns(), s.nLimbs()))
		rep.Exhaustive(T)
	})
}
