// Package c13: hash-to-field and hash-to-curve are total, valid and conform to RFC 9380.
//
// Oracles (harness/internal/ref, no gnark-crypto code): expand_message_xmd/SHA-256 and hash_to_field
// (ref/xmd.go), sgn0 / simplified SWU / Shallue-van de Woestijne / find_z_* / rational maps (ref/h2c.go),
// the affine group law of ref.Curve. Suite parameters are transcribed from the generator configuration
// (suites_gen_test.go) and validated numerically before use (TestC13_Params).
package c13

import (
	"fmt"
	"math/big"
	"os"
	"reflect"
	"regexp"
	"sync"
	"testing"

	"verif/harness/internal/inst"
	"verif/harness/internal/ref"
	"verif/harness/internal/reg"
	"verif/harness/internal/rep"
)

func TestMain(m *testing.M) { rep.Main(m) }

func selected(name string) bool {
	p := os.Getenv("VERIF_INST")
	if p == "" {
		return true
	}
	ok, _ := regexp.MatchString(p, name)
	return ok
}

// ---- tables filled by gen_h2c.py ---------------------------------------------------------------

type cfgSuite struct {
	Curve, Group, Kind string
	A, B, Z            []string
	Iso                [4][][]string // x num, x den, y num, y den (den monic, leading 1 omitted)
	C                  [4][]string   // SvdW c1..c4 as written in the configuration
}

type vecCase struct {
	Msg string
	U   [][]string
	Q   [][2][]string
	P   [2][]string
}

type vecSuite struct {
	Curve, Group, Kind, Dst string
	Cases                   []vecCase
}

type xmdVec struct {
	Msg string
	Len int
	Hex string
}

// ---- suites -------------------------------------------------------------------------------------

// suite bundles one (curve, group) that has a map with its reference model.
type suite struct {
	id    string
	cv    *inst.Curve
	g     *inst.Group
	n     string // "1" | "2": suffix of the library functions
	F     ref.Fld
	kind  string // "SSWU" (with isogeny) | "SVDW" (RFC 9380 straight-line, generated or stark-curve) | "SVDW06" (hand-written draft-06 code of bls24 G2)
	cfg   *cfgSuite
	sswu  *ref.SSWU   // map to E'
	iso   *ref.RatMap // E' -> E
	svdw  *ref.SvdW
	hpkg  *reg.Pkg // ecc/<curve>/hash_to_curve (nil for the hand-written ones)
	hEff  *big.Int // documented effective cofactor (nil: only "in the subgroup" is claimed)
	hNote string
	zCrit [4]bool // SSWU: which criteria of RFC 9380 6.6.2 the configured Z meets
	// how hash_to_field output is packed into an element of F by the library: number of base-field
	// elements consumed per u and their positions in the flat coefficient vector.
	uCoef []int
}

// seeds x0 of the BLS families as documented in the packages' doc.go; validated against r below.
var blsSeed = map[string]string{
	"bls12-381": "-15132376222941642752", // -0xd201000000010000
	"bls12-377": "9586122913090633729",   // 0x8508c00000000001
	"bls24-315": "-3218079743",           // -0xbfcfffff
	"bls24-317": "3640754176",            // 0xd9018000
}

// RFC 9380 section 8.8.2: h_eff of BLS12381G2_XMD:SHA-256_SSWU_*.
const bls12381G2hEff = "0xbc69f08f2ee75b3584c6a0ea91b352888e2a8e9145ad7689986ff031508ffe1329c2f178731db956d82bf015d1212b02ec0ec69d7477c1ae954cbc06689f6a359894c0adebbf6b4e8020005aaa95551"

var (
	suiteMu    sync.Mutex
	suiteCache = map[string]*suite{}
)

func mustInt(s string) *big.Int {
	v, ok := new(big.Int).SetString(s, 0)
	if !ok {
		panic("bad integer " + s)
	}
	return v
}

func findCfg(curve, group string) *cfgSuite {
	for i := range cfgSuites {
		if cfgSuites[i].Curve == curve && cfgSuites[i].Group == group {
			return &cfgSuites[i]
		}
	}
	return nil
}

// suiteIDs lists every (curve, group) for which the library exports a map, discovered reflectively.
func suiteIDs() []string {
	var out []string
	for _, c := range inst.CurveNames {
		p := reg.Get("ecc/" + c)
		if p.Has("MapToCurve1") {
			out = append(out, c+"/G1")
		}
		if p.Has("MapToCurve2") {
			out = append(out, c+"/G2")
		}
	}
	return out
}

// getSuite builds (once) the reference model of a suite. It panics on harness configuration
// errors (a transcribed constant that does not validate) - TestC13_Params reports those readably.
func getSuite(id string) *suite {
	suiteMu.Lock()
	defer suiteMu.Unlock()
	if s, ok := suiteCache[id]; ok {
		return s
	}
	s, err := buildSuite(id)
	if err != nil {
		panic("HARNESS: suite " + id + ": " + err.Error())
	}
	suiteCache[id] = s
	return s
}

func buildSuite(id string) (*suite, error) {
	curve, group := id[:len(id)-3], id[len(id)-2:]
	cv := inst.GetCurve(curve)
	s := &suite{id: id, cv: cv, n: group[1:]}
	if group == "G1" {
		s.g = cv.G1
	} else {
		s.g = cv.G2
	}
	if s.g == nil {
		return nil, fmt.Errorf("no reference group")
	}
	s.F = s.g.E.F
	F := s.F
	s.cfg = findCfg(curve, group)
	s.hpkg = reg.Get("ecc/" + curve + "/hash_to_curve")
	for i := 0; i < F.Deg(); i++ {
		s.uCoef = append(s.uCoef, i)
	}
	switch {
	case s.cfg != nil && s.cfg.Kind == "SSWU":
		s.kind = "SSWU"
		A, B := ref.HexV(F, s.cfg.A...), ref.HexV(F, s.cfg.B...)
		Zc := ref.HexV(F, s.cfg.Z...)
		if F.IsZero(A) || F.IsZero(B) {
			return nil, fmt.Errorf("A'B' = 0")
		}
		// The reference map uses the Z of the configuration (the library's documented parameter). Z must
		// be a non-square (criterion 1 of RFC 9380 6.6.2), otherwise the map is undefined on half of the
		// field. The other criteria are examined by TestC13_Params: when criterion 4 (g(B/(ZA)) square)
		// fails the RFC map has no value at the exceptional inputs (ref.SSWU.Map reports ":undefined").
		s.zCrit = ref.ZSSWUCriteria(F, A, B, Zc)
		if !s.zCrit[0] {
			return nil, fmt.Errorf("configured Z is a square")
		}
		s.sswu = &ref.SSWU{F: F, A: A, B: B, Z: Zc}
		if len(s.cfg.Iso[0]) == 0 {
			return nil, fmt.Errorf("SSWU suite without isogeny: not modelled")
		}
		s.iso = &ref.RatMap{F: F}
		for k, dstp := range []*[]ref.V{&s.iso.XNum, &s.iso.XDen, &s.iso.YNum, &s.iso.YDen} {
			for _, row := range s.cfg.Iso[k] {
				*dstp = append(*dstp, ref.HexV(F, row...))
			}
		}
	case s.cfg != nil && s.cfg.Kind == "SVDW":
		s.kind = "SVDW"
		Z := ref.FindZSvdW(F, s.g.E.A, s.g.E.B, F.One())
		sv, err := ref.NewSvdW(F, s.g.E.A, s.g.E.B, Z)
		if err != nil {
			return nil, err
		}
		s.svdw = sv
	default:
		// bls24-315 / bls24-317 G2: hand-written SvdW (draft-06), Z = 1 + v as written in the source,
		// validated against the find_z_svdw criteria and equal to find_z_svdw started at F.gen().
		s.kind = "SVDW06"
		Z := ref.FindZSvdW(F, s.g.E.A, s.g.E.B, ref.FieldGen(F))
		sv, err := ref.NewSvdW(F, s.g.E.A, s.g.E.B, Z)
		if err != nil {
			return nil, err
		}
		s.svdw = sv
		// EncodeToG2/HashToG2 fill B0.A0 and B1.A0 only
		s.uCoef = []int{0, 2}
	}
	// documented effective cofactors
	if x0, ok := blsSeed[curve]; ok && group == "G1" {
		x := mustInt(x0)
		// validate the seed against the scalar field: r = x^4 - x^2 + 1 (BLS12), x^8 - x^4 + 1 (BLS24)
		x2 := new(big.Int).Mul(x, x)
		x4 := new(big.Int).Mul(x2, x2)
		var r *big.Int
		if curve[:5] == "bls12" {
			r = new(big.Int).Add(new(big.Int).Sub(x4, x2), big.NewInt(1))
		} else {
			r = new(big.Int).Add(new(big.Int).Sub(new(big.Int).Mul(x4, x4), x4), big.NewInt(1))
		}
		if r.Cmp(cv.R) != 0 {
			return nil, fmt.Errorf("documented seed does not give r")
		}
		s.hEff = new(big.Int).Sub(big.NewInt(1), x)
		s.hNote = "h_eff = 1 - x0 (ClearCofactor comment: eprint 2019/403 section 5; RFC 9380 8.8.1 for bls12-381)"
	}
	if id == "bls12-381/G2" {
		s.hEff = mustInt(bls12381G2hEff)
		s.hNote = "h_eff of RFC 9380 section 8.8.2"
	}
	return s, nil
}

// clears reports whether the library's MapToG clears a cofactor for this group.
func (s *suite) cofactorOne() bool {
	switch s.id {
	case "bn254/G1", "secp256k1/G1", "grumpkin/G1", "stark-curve/G1":
		return true
	}
	return false
}

// ---- library access ---------------------------------------------------------------------------

func ptrOf(v interface{}) interface{} {
	rv := reflect.ValueOf(v)
	p := reflect.New(rv.Type())
	p.Elem().Set(rv)
	return p.Interface()
}

// newCoord returns a pointer to a fresh coordinate-field element of the group (fp.Element, E2, E4).
func (s *suite) newCoord(v ref.V) interface{} {
	c := reg.Clone(reg.Field(s.g.NewAff(), "X"))
	reg.Unflatten(c, ref.Red(s.F, v))
	return c
}

// rawPt converts a library affine point without any convention for infinity.
func (s *suite) rawPt(aff interface{}) ref.Pt {
	v := reg.Flatten(aff)
	n := len(v) / 2
	return ref.Pt{X: ref.V(v[:n]), Y: ref.V(v[n:])}
}

func (s *suite) libMapToCurve(u ref.V) interface{} {
	return ptrOf(s.cv.Pkg.F("MapToCurve"+s.n, s.newCoord(u))[0])
}

func (s *suite) libMapToG(u ref.V) interface{} {
	return ptrOf(s.cv.Pkg.F("MapToG"+s.n, s.newCoord(u))[0])
}

func (s *suite) libHash(fn string, msg, dst []byte) (interface{}, error) {
	r := s.cv.Pkg.F(fn+s.n, msg, dst)
	return ptrOf(r[0]), reg.Err(r)
}

// libIsogeny applies the library's isogeny evaluation to a point of E' (SSWU suites).
func (s *suite) libIsogeny(p ref.Pt) ref.Pt {
	x, y := s.newCoord(p.X), s.newCoord(p.Y)
	s.hpkg.F("G"+s.n+"Isogeny", x, y)
	xv, yv := ref.V(reg.Flatten(x)), ref.V(reg.Flatten(y))
	if s.F.IsZero(xv) && s.F.IsZero(yv) {
		return ref.Pt{Inf: true}
	}
	return ref.Pt{X: xv, Y: yv}
}

// libClear applies the library's ClearCofactor to a reference point of E.
func (s *suite) libClear(p ref.Pt) ref.Pt {
	a := s.g.FromRef(p)
	out := s.g.NewAff()
	reg.M(out, "ClearCofactor", a)
	return s.g.ToRef(out)
}

// ---- reference pipeline -----------------------------------------------------------------------

// refMapToCurve is the reference value of MapToCurve(u) (on E' for SSWU suites) and the branch label.
func (s *suite) refMapToCurve(u ref.V) (ref.Pt, string) {
	if s.sswu != nil {
		return s.sswu.Map(u)
	}
	return s.svdw.Map(u)
}

// refToE maps the reference MapToCurve output to E (isogeny for SSWU suites, identity otherwise).
func (s *suite) refToE(p ref.Pt) ref.Pt {
	if s.iso != nil {
		return s.iso.Eval(p)
	}
	return p
}

func (s *suite) mapCurve() *ref.Curve {
	if s.sswu != nil {
		return s.sswu.Curve()
	}
	return s.g.E
}

func (s *suite) exceptional() []ref.V {
	if s.sswu != nil {
		return s.sswu.Exceptional()
	}
	return s.svdw.Exceptional()
}

// hashU is the reference hash_to_field for this suite's u values, packed the way the library's
// Encode/Hash functions pack them (RFC order for Fp and Fp2).
func (s *suite) hashU(msg, dst []byte, count int) ([]ref.V, error) {
	m := len(s.uCoef)
	es, err := ref.HashToField(msg, dst, s.cv.P, m, count)
	if err != nil {
		return nil, err
	}
	out := make([]ref.V, count)
	for i, e := range es {
		u := s.F.Zero()
		for j, pos := range s.uCoef {
			u[pos] = e[j]
		}
		out[i] = u
	}
	return out, nil
}

func vstr(v ref.V) string { return ref.String(v) }

func forSuites(t *testing.T, body func(t *testing.T, s *suite)) {
	for _, id := range suiteIDs() {
		if !selected(id) {
			continue
		}
		id := id
		t.Run(id, func(t *testing.T) { body(t, getSuite(id)) })
	}
}
