package c13

import (
	"bytes"
	"encoding/hex"
	"fmt"
	"math/big"
	"reflect"
	"testing"

	"verif/harness/internal/inst"
	"verif/harness/internal/ref"
	"verif/harness/internal/reg"
	"verif/harness/internal/rep"
)

// samplePoints returns n deterministic points of c (x = k, then k + gen for extension fields).
func samplePoints(c *ref.Curve, n int) []ref.Pt {
	F := c.F
	var out []ref.Pt
	x := F.One()
	if F.Deg() > 1 {
		x = ref.FieldGen(F)
	}
	for k := 0; len(out) < n && k < 1000; k++ {
		if p, ok := c.LiftX(x); ok && !F.IsZero(p.Y) {
			out = append(out, p)
		}
		x = F.Add(x, F.One())
	}
	return out
}

func vecsEq(F ref.Fld, a, b []ref.V) bool {
	if len(a) != len(b) {
		return false
	}
	for i := range a {
		if !F.Eq(a[i], b[i]) {
			return false
		}
	}
	return true
}

// TestC13_Params validates every transcribed / derived suite parameter numerically and compares it
// with what the generated code exports. Rapid-free, deterministic.
func TestC13_Params(t *testing.T) {
	const T = "C13_Params"
	ids := suiteIDs()
	if len(ids) != 17 {
		t.Errorf("HARNESS: expected 17 (curve, group) suites with a map, discovered %d: %v", len(ids), ids)
	}
	for _, id := range ids {
		if !selected(id) {
			continue
		}
		s, err := buildSuite(id)
		if err != nil {
			t.Errorf("%s: %v", id, err)
			continue
		}
		F := s.F
		switch s.kind {
		case "SSWU":
			A, B, Z := s.sswu.A, s.sswu.B, s.sswu.Z
			// E' non-singular: 4A^3 + 27B^2 != 0
			disc := F.Add(F.Mul(ref.Scalar(F, big.NewInt(4)), F.Mul(A, F.Mul(A, A))), F.Mul(ref.Scalar(F, big.NewInt(27)), F.Mul(B, B)))
			if F.IsZero(disc) {
				t.Errorf("%s: E' is singular", id)
			}
			// Z derived by find_z_sswu (all four criteria). The library documents its Z only as "a quadratic
			// non-residue" with the RFC as reference; criterion 3 (g(x)-Z irreducible) affects the output
			// distribution, not validity, so a configured Z that fails it is recorded, not asserted.
			zd := ref.FindZSSWU(F, A, B)
			crit := s.zCrit
			if !crit[1] {
				t.Errorf("%s: Z = -1", id)
			}
			switch {
			case F.Eq(zd, Z):
				rep.Count(T, "z_equals_find_z_sswu", 1, 0, id)
			case !crit[3]:
				// g(B/(Z*A)) is not a square: the RFC map is undefined at u with Z^2u^4+Zu^2 = 0 (u = 0 always).
				rep.Count(T, "z_fails_criterion4", 1, 0, id)
				rep.Note(T, fmt.Sprintf("%s: configured Z=%s does not meet criterion 4 of RFC 9380 6.6.2 (g(B/(Z*A)) is not a square; criteria met: %v); "+
					"find_z_sswu(E') = %s. The RFC map has no value at the exceptional inputs of this suite; see TestC13_ExceptionalProbe", id, vstr(Z), crit, vstr(zd)))
				t.Logf("%s: configured Z=%s fails RFC 9380 6.6.2 criterion 4 (criteria met %v); find_z_sswu gives %s", id, vstr(Z), crit, vstr(zd))
			case !crit[2]:
				rep.Count(T, "z_fails_criterion3", 1, 0, id)
				rep.Note(T, fmt.Sprintf("%s: configured Z=%s does not meet criterion 3 of RFC 9380 6.6.2 (g(x)-Z is reducible); find_z_sswu(E') = %s. "+
					"Not asserted: the map stays well defined, only its output distribution is concerned (non-standard suite)", id, vstr(Z), vstr(zd)))
				t.Logf("%s: configured Z=%s fails find_z_sswu criterion 3; find_z_sswu gives %s", id, vstr(Z), vstr(zd))
			default:
				rep.Count(T, "z_valid_not_first", 1, 0, id)
				rep.Note(T, fmt.Sprintf("%s: configured Z=%s meets all criteria but find_z_sswu(E') = %s comes first", id, vstr(Z), vstr(zd)))
			}
			// standard suites: RFC 9380 8.8.1 / 8.8.2
			if id == "bls12-381/G1" && !F.Eq(Z, ref.Scalar(F, big.NewInt(11))) {
				t.Errorf("%s: Z != 11", id)
			}
			if id == "bls12-381/G2" && !F.Eq(Z, ref.FromInt64s(F, -2, -1)) {
				t.Errorf("%s: Z != -(2+I)", id)
			}
			// the generated code exports the same E', Z, isogeny
			r := s.hpkg.F("G" + s.n + "SSWUIsogenyCurveCoefficients")
			if la, lb := ref.V(reg.Flatten(r[0])), ref.V(reg.Flatten(r[1])); !F.Eq(la, A) || !F.Eq(lb, B) {
				t.Errorf("%s: library E' coefficients (%s,%s) differ from the configuration (%s,%s)", id, vstr(la), vstr(lb), vstr(A), vstr(B))
			}
			if lz := ref.V(reg.Flatten(s.hpkg.F("G" + s.n + "SSWUIsogenyZ")[0])); !F.Eq(lz, Z) {
				t.Errorf("%s: library Z %s differs from the configuration %s", id, vstr(lz), vstr(Z))
			}
			lm := reflect.ValueOf(s.hpkg.F("G" + s.n + "IsogenyMap")[0])
			for k, want := range [][]ref.V{s.iso.XNum, s.iso.XDen, s.iso.YNum, s.iso.YDen} {
				sl := lm.Index(k)
				var got []ref.V
				for i := 0; i < sl.Len(); i++ {
					e := reflect.New(sl.Type().Elem())
					e.Elem().Set(sl.Index(i))
					got = append(got, ref.V(reg.Flatten(e.Interface())))
				}
				if !vecsEq(F, got, want) {
					t.Errorf("%s: library isogeny coefficient list %d differs from the configuration", id, k)
				}
			}
			// the rational map is a homomorphism E' -> E
			pts := samplePoints(s.sswu.Curve(), 6)
			if err := s.iso.Validate(s.sswu.Curve(), s.g.E, pts); err != nil {
				t.Errorf("%s: configured isogeny: %v", id, err)
			}
			// library evaluation = reference evaluation
			for _, p := range pts {
				if g, w := s.libIsogeny(p), s.iso.Eval(p); !s.g.E.Eq(g, w) {
					t.Errorf("%s: G%sIsogeny%s = %s, reference %s", id, s.n, s.sswu.Curve().Str(p), s.g.E.Str(g), s.g.E.Str(w))
				}
			}
			rep.Count(T, "sswu_suite", 1, 1, id+" Z="+vstr(Z))
		case "SVDW":
			// Z derived by find_z_svdw must be the configured one; c1..c4 by the RFC formulas likewise
			if zc := ref.HexV(F, s.cfg.Z...); !F.Eq(zc, s.svdw.Z) {
				t.Errorf("%s: configured Z=%s but find_z_svdw = %s", id, vstr(zc), vstr(s.svdw.Z))
			}
			for k, c := range []ref.V{s.svdw.C1, s.svdw.C2, s.svdw.C3, s.svdw.C4} {
				if cc := ref.HexV(F, s.cfg.C[k]...); !F.Eq(cc, c) {
					t.Errorf("%s: configured c%d=%s but the RFC formula gives %s", id, k+1, vstr(cc), vstr(c))
				}
			}
			if ref.Sgn0(F, s.svdw.C3) != 0 {
				t.Errorf("%s: sgn0(c3) != 0", id)
			}
			rep.Count(T, "svdw_suite", 1, 1, id+" Z="+vstr(s.svdw.Z))
		case "SVDW06":
			want := ref.FromInt64s(F, 1, 0, 1, 0) // z = 1 + v in the source
			if !F.Eq(s.svdw.Z, want) {
				t.Errorf("%s: find_z_svdw(start=gen) = %s, source uses %s", id, vstr(s.svdw.Z), vstr(want))
			}
			rep.Count(T, "svdw06_suite", 1, 1, id+" Z="+vstr(s.svdw.Z))
		}
		// sgn0 of the generated code against the reference, on small and structured values
		if s.hpkg != nil && s.hpkg.Has("G"+s.n+"Sgn0") {
			for _, v := range sgnSamples(F) {
				g := s.hpkg.F("G"+s.n+"Sgn0", s.newCoord(v))[0].(uint64)
				if int(g) != ref.Sgn0(F, v) {
					t.Errorf("%s: G%sSgn0(%s) = %d, RFC sgn0 = %d", id, s.n, vstr(v), g, ref.Sgn0(F, v))
				}
			}
		}
	}
	rep.Exhaustive(T)
}

func sgnSamples(F ref.Fld) []ref.V {
	p := F.P()
	base := []*big.Int{big.NewInt(0), big.NewInt(1), big.NewInt(2), new(big.Int).Sub(p, big.NewInt(1)), new(big.Int).Sub(p, big.NewInt(2)),
		new(big.Int).Rsh(p, 1), new(big.Int).Add(new(big.Int).Rsh(p, 1), big.NewInt(1))}
	var out []ref.V
	if F.Deg() == 1 {
		for _, b := range base {
			out = append(out, ref.V{b})
		}
		return out
	}
	for _, a := range base {
		for _, b := range base {
			v := F.Zero()
			v[0], v[1] = a, b
			out = append(out, v)
		}
	}
	return out
}

func parseV(F ref.Fld, ss []string) ref.V { return ref.HexV(F, ss...) }

// TestC13_Anchor: the *reference* reproduces vectors that do not come from running the library:
// RFC 9380 K.1 (expand_message_xmd, SHA-256), J.9.1/J.9.2/J.10.1/J.10.2 (BLS12-381 G1/G2, RO and NU:
// u, Q0, Q1, P) and the RFC-style BN254 SVDW vectors shipped with the repository (u, Q; P where no
// cofactor is cleared). The copies used are those of /repo/field/hash/hashutils_test.go and
// /repo/ecc/{bls12-381,bn254}/hash_vectors_test.go (transcribed by gen_h2c.py).
func TestC13_Anchor(t *testing.T) {
	const T = "C13_Anchor"
	for _, v := range xmdVectors {
		got, err := ref.ExpandMessageXMD([]byte(v.Msg), []byte(xmdVectorsDst), v.Len)
		if err != nil || hex.EncodeToString(got) != v.Hex {
			t.Errorf("ref.ExpandMessageXMD(%q, len %d) = %x, %v; RFC K.1 says %s", v.Msg, v.Len, got, err, v.Hex)
		}
		rep.Count(T, "xmd_k1", 1, 1, fmt.Sprintf("msg=%q len=%d", v.Msg, v.Len))
	}
	for _, vs := range h2cVectors {
		id := vs.Curve + "/" + vs.Group
		s := getSuite(id)
		F, E := s.F, s.g.E
		for _, c := range vs.Cases {
			us, err := s.hashU([]byte(c.Msg), []byte(vs.Dst), len(c.U))
			if err != nil {
				t.Fatalf("%s: %v", id, err)
			}
			sum := ref.Pt{Inf: true}
			for i := range us {
				if w := parseV(F, c.U[i]); !F.Eq(us[i], w) {
					t.Errorf("%s %s msg=%q: reference hash_to_field u%d = %s, vector %s", id, vs.Kind, c.Msg, i, vstr(us[i]), vstr(w))
				}
				q0, _ := s.refMapToCurve(us[i])
				q := s.refToE(q0)
				w := ref.Pt{X: parseV(F, c.Q[i][0]), Y: parseV(F, c.Q[i][1])}
				if !E.Eq(q, w) {
					t.Errorf("%s %s msg=%q: reference map Q%d = %s, vector %s", id, vs.Kind, c.Msg, i, E.Str(q), E.Str(w))
				}
				sum = E.Add(sum, q)
			}
			wp := ref.Pt{X: parseV(F, c.P[0]), Y: parseV(F, c.P[1])}
			switch {
			case s.hEff != nil:
				if p := E.Mul(s.hEff, sum); !E.Eq(p, wp) {
					t.Errorf("%s %s msg=%q: reference [h_eff](sum Q) = %s, vector P = %s", id, vs.Kind, c.Msg, E.Str(p), E.Str(wp))
				}
			case s.cofactorOne():
				if !E.Eq(sum, wp) {
					t.Errorf("%s %s msg=%q: reference sum Q = %s, vector P = %s", id, vs.Kind, c.Msg, E.Str(sum), E.Str(wp))
				}
			default:
				// bn254 G2: the vector's P depends on the library's own cofactor-clearing endomorphism;
				// only its validity is anchored
				if !s.g.InSubgroup(wp) {
					t.Errorf("%s %s msg=%q: vector P is not in the subgroup", id, vs.Kind, c.Msg)
				}
			}
			rep.Count(T, "h2c_vector_"+vs.Kind, 1, 1, id+" msg="+c.Msg)
		}
	}
	rep.Exhaustive(T)
}

// TestC13_Vectors: the *library* reproduces the published vectors (u by <fp>.Hash, Q by MapToCurve
// (+ isogeny), P by EncodeToG / HashToG).
func TestC13_Vectors(t *testing.T) {
	const T = "C13_Vectors"
	for _, v := range xmdVectors {
		r := reg.Get("field/hash").F("ExpandMsgXmd", []byte(v.Msg), []byte(xmdVectorsDst), v.Len)
		got, _ := r[0].([]byte)
		if err := reg.Err(r); err != nil || hex.EncodeToString(got) != v.Hex {
			t.Errorf("ExpandMsgXmd(%q, len %d) = %x, %v; RFC K.1 says %s", v.Msg, v.Len, got, err, v.Hex)
		}
		rep.Count(T, "xmd_k1", 1, 1, fmt.Sprintf("msg=%q len=%d", v.Msg, v.Len))
	}
	for _, vs := range h2cVectors {
		id := vs.Curve + "/" + vs.Group
		if !selected(id) {
			continue
		}
		s := getSuite(id)
		F, E := s.F, s.g.E
		fp := inst.FieldByName(vs.Curve + "/fp")
		for _, c := range vs.Cases {
			m := F.Deg()
			es, err := fp.Hash([]byte(c.Msg), []byte(vs.Dst), m*len(c.U))
			if err != nil {
				t.Fatalf("%s: %v", id, err)
			}
			for i := range c.U {
				u := F.Zero()
				for j := 0; j < m; j++ {
					u[j] = es[i*m+j].Big()
				}
				if w := parseV(F, c.U[i]); !F.Eq(u, w) {
					t.Errorf("%s %s msg=%q: fp.Hash u%d = %s, vector %s", id, vs.Kind, c.Msg, i, vstr(u), vstr(w))
				}
				q := s.rawPt(s.libMapToCurve(parseV(F, c.U[i])))
				if s.iso != nil {
					q = s.libIsogeny(q)
				}
				if w := (ref.Pt{X: parseV(F, c.Q[i][0]), Y: parseV(F, c.Q[i][1])}); !E.Eq(q, w) {
					t.Errorf("%s %s msg=%q: library Q%d = %s, vector %s", id, vs.Kind, c.Msg, i, E.Str(q), E.Str(w))
				}
			}
			fn := "EncodeToG"
			if vs.Kind == "RO" {
				fn = "HashToG"
			}
			p, err := s.libHash(fn, []byte(c.Msg), []byte(vs.Dst))
			if err != nil {
				t.Fatalf("%s: %s: %v", id, fn, err)
			}
			if g, w := s.g.ToRef(p), (ref.Pt{X: parseV(F, c.P[0]), Y: parseV(F, c.P[1])}); !E.Eq(g, w) {
				t.Errorf("%s msg=%q: %s%s = %s, vector P = %s", id, c.Msg, fn, s.n, E.Str(g), E.Str(w))
			}
			rep.Count(T, "h2c_vector_"+vs.Kind, 1, 1, id+" msg="+c.Msg)
		}
	}
	rep.Exhaustive(T)
}

var _ = bytes.Equal
