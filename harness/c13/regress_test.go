package c13

import (
	"bytes"
	"crypto/sha256"
	"encoding/hex"
	"fmt"
	"strings"
	"testing"

	"verif/harness/internal/inst"
	"verif/harness/internal/ref"
	"verif/harness/internal/rep"
)

// kfSswuZ is the known-findings key of: SSWU suites whose configured Z violates criterion 4 of
// RFC 9380 6.6.2, so that the map has no value at the exceptional inputs (Z^2 u^4 + Z u^2 = 0).
const kfSswuZ = "F71-sswu-z-criterion4"

// TestC13_RegressF8: hash.ExpandMsgXmd panicked for every lenInBytes < 32 (copy(res[:32], b1) on a
// shorter slice), hence <field>.Hash panicked for count = 0 on every field and for count = 1 on the
// fields with L < 32 (koalabear, babybear: L = 20; goldilocks: L = 24). Rapid-free.
func TestC13_RegressF8(t *testing.T) {
	const T = "C13_RegressF8"
	msg, dst := []byte("abc"), []byte("QUUX-V01-CS02-with-expander-SHA256-128")
	for _, n := range []int{0, 1, 20, 24, 31} {
		want, _ := ref.ExpandMessageXMD(msg, dst, n)
		got, err := libXmd(t, msg, dst, n)
		if err != nil || !bytes.Equal(got, want) {
			t.Errorf("ExpandMsgXmd(abc, dst, %d) = %x, %v; want %x", n, got, err, want)
		}
		rep.Count(T, "xmd_short", 1, 1, fmt.Sprintf("len=%d", n))
	}
	for _, name := range []string{"koalabear", "babybear", "goldilocks", "bn254/fr", "bw6-761/fp"} {
		f := inst.FieldByName(name)
		for count := 0; count <= 1; count++ {
			want, _ := ref.HashToField(msg, dst, f.Q(), 1, count)
			got, err := libFieldHash(t, f, msg, dst, count)
			if err != nil || len(got) != count {
				t.Errorf("%s.Hash(abc, dst, %d): %d elements, %v", name, count, len(got), err)
				continue
			}
			for i := range got {
				checkElem(t, f, fmt.Sprintf("Hash(abc, dst, %d)[%d]", count, i), got[i], want[i][0])
			}
			rep.Count(T, "field_hash_short", 1, 1, fmt.Sprintf("%s count=%d", name, count))
		}
	}
}

// TestC13_RegressF72: bls24-315 MapToCurve2 used constants c1, c3 that do not belong to the curve
// and never initialised c4, so x3 degenerated to Z: every input for which neither g(x1) nor g(x2)
// is a square (about 1/4 of the field) was sent to the same point +-(Z, sqrt(g(Z))); EncodeToG2
// collided on ~20% of all messages. Rapid-free: the x-coordinates must be the SvdW ones and 64
// messages must encode to 64 different points.
func TestC13_RegressF72(t *testing.T) {
	const T = "C13_RegressF72"
	if !selected("bls24-315/G2") {
		t.Skip("not selected")
	}
	s := getSuite("bls24-315/G2")
	F := s.F
	for k := int64(1); k <= 12; k++ {
		u := ref.FromInt64s(F, k, 0, 0, 0)
		w, br := s.refMapToCurve(u)
		q := s.rawPt(s.libMapToCurve(u))
		if !F.Eq(q.X, w.X) {
			t.Errorf("bls24-315 MapToCurve2(%d): x = %s, SvdW selects %s (branch %s)", k, vstr(q.X), vstr(w.X), br)
		}
		rep.Count(T, "svdw_x:"+br, 1, 1, fmt.Sprintf("u=%d", k))
	}
	seen := map[string]bool{}
	for i := 0; i < 64; i++ {
		p, err := s.libHash("EncodeToG", []byte(fmt.Sprintf("msg-%d", i)), []byte("VERIF-C13"))
		if err != nil {
			t.Fatal(err)
		}
		seen[s.g.E.Str(s.g.ToRef(p))] = true
	}
	if len(seen) != 64 {
		t.Errorf("bls24-315 EncodeToG2: 64 messages gave only %d distinct points", len(seen))
	}
	rep.Count(T, "encode_distinct", 64, 64, "msg-0..63")
}

// TestC13_ExceptionalProbe evaluates, for every SSWU suite whose Z fails criterion 4, the library on
// all exceptional inputs (where the RFC map has no value). An invalid MapToG result (off the curve /
// outside the subgroup) is a violation unless the finding is listed as known, in which case it is
// announced by a KNOWN-FINDING line; the rapid property then excludes exactly these inputs.
func TestC13_ExceptionalProbe(t *testing.T) {
	const T = "C13_ExceptionalProbe"
	for _, id := range suiteIDs() {
		if !selected(id) {
			continue
		}
		s := getSuite(id)
		if s.sswu == nil || s.zCrit[3] {
			continue
		}
		var bad []string
		for _, u := range s.exceptional() {
			_, br := s.refMapToCurve(u)
			if !strings.HasSuffix(br, ":undefined") {
				// g(-B/(ZA)) happens to be a square: the RFC map has a value here (branch exc:x2) and the
				// rapid property compares it; not part of the finding
				continue
			}
			q := s.rawPt(s.libMapToCurve(u))
			p := s.g.ToRef(s.libMapToG(u))
			onE := s.g.E.OnCurve(p)
			inG := onE && s.g.E.Mul(s.g.R, p).Inf
			name := "u=0"
			if !s.F.IsZero(u) {
				name = "u=+-sqrt(-1/Z)"
			}
			rep.Count(T, fmt.Sprintf("%s:%s:onE'=%v,MapToG_on_curve=%v,in_subgroup=%v,infinity=%v", id, name, s.mapCurve().OnCurve(q), onE, inG, p.Inf), 1, 1, vstr(u))
			if !onE || !inG {
				bad = append(bad, fmt.Sprintf("%s MapToG%s(%s): on curve=%v in subgroup=%v", id, s.n, name, onE, inG))
			}
		}
		if len(bad) == 0 {
			rep.Note(T, fmt.Sprintf("%s: Z fails criterion 4 of RFC 9380 6.6.2; at the exceptional inputs MapToCurve%s returns (0,0) / MapToG%s the point at infinity (valid by the library's convention)", id, s.n, s.n))
			continue
		}
		if rep.Known("C13", kfSswuZ) {
			for _, u := range s.exceptional() {
				if _, br := s.refMapToCurve(u); strings.HasSuffix(br, ":undefined") {
					pinF71(t, s, u)
				}
			}
			rep.StillPresent("C13", kfSswuZ, strings.Join(bad, "; "))
		} else {
			t.Errorf("%s: the configured SSWU constant Z=%s violates criterion 4 of RFC 9380 6.6.2 and the library returns invalid points at the exceptional inputs: %s",
				id, vstr(s.sswu.Z), strings.Join(bad, "; "))
		}
	}
	rep.Exhaustive(T)
}

// f71Pinned: SHA-256 of "X,Y" (hex coefficient vectors) of MapToG1(u) at the non-zero exceptional
// inputs u = +-sqrt(-1/Z) of bw6-761 G1, keyed by sgn0(u): the (invalid, but deterministic) points
// the library returns there, recorded when the finding was listed.
var f71Pinned = map[string]string{
	"bw6-761/G1:sgn0=1": "ca2e30d7c5e1cff56f6e7a20161adff16939db30a8ea3c71c08d05adea4b57dc",
	"bw6-761/G1:sgn0=0": "1790d1e6d16877b1e233f6412e670bbb5449f73a3600f32352f4b7bd920a5236",
}

// pinF71 asserts that, at an exceptional input u where the RFC map is undefined because the
// configured Z fails criterion 4, the library behaves exactly as recorded in known finding F71:
//
//	u = 0:             MapToCurve(0) = (0,0), MapToG(0) = (0,0) (the point at infinity)
//	u = +-sqrt(-1/Z):  MapToCurve(u) = (-x1, y) with x1 = B'/(Z A'), y^2 = -g(x1), sgn0(y) = sgn0(u)
//	                   (what the straight-line code computes when it takes its exceptional path and
//	                   g(x1) is not a square); MapToG(u) = the pinned point (digest above)
//
// and that both calls are deterministic. Any other output is a new deviation and fails.
func pinF71(t fataler, s *suite, u ref.V) {
	F := s.F
	q := s.rawPt(s.callMapToCurve(t, u))
	p := s.rawPt(s.callMapToG(t, u))
	q2, p2 := s.rawPt(s.callMapToCurve(t, u)), s.rawPt(s.callMapToG(t, u))
	if !F.Eq(q.X, q2.X) || !F.Eq(q.Y, q2.Y) || !F.Eq(p.X, p2.X) || !F.Eq(p.Y, p2.Y) {
		t.Fatalf("%s: MapToCurve/MapToG not deterministic at the exceptional input %s", s.id, vstr(u))
	}
	if F.IsZero(u) {
		if !F.IsZero(q.X) || !F.IsZero(q.Y) || !F.IsZero(p.X) || !F.IsZero(p.Y) {
			t.Fatalf("%s: known finding %s pins MapToCurve%s(0) = (0,0) and MapToG%s(0) = infinity, library now returns %s and %s",
				s.id, kfSswuZ, s.n, s.n, s.mapCurve().Str(q), s.g.E.Str(p))
		}
		return
	}
	A, B, Z := s.sswu.A, s.sswu.B, s.sswu.Z
	x1 := F.Mul(B, F.Inv(F.Mul(Z, A)))
	gx1 := F.Add(F.Add(F.Mul(F.Mul(x1, x1), x1), F.Mul(A, x1)), B)
	wy := F.Sqrt(F.Neg(gx1))
	if wy == nil {
		t.Fatalf("HARNESS: %s: -g(B/(ZA)) is not a square; the F71 pin does not apply", s.id)
	}
	if ref.Sgn0(F, wy) != ref.Sgn0(F, u) {
		wy = F.Neg(wy)
	}
	if !F.Eq(q.X, F.Neg(x1)) || !F.Eq(q.Y, wy) {
		t.Fatalf("%s: known finding %s pins MapToCurve%s(+-sqrt(-1/Z)) = (-B/(ZA), y), y^2 = -g(B/(ZA)), sgn0(y) = sgn0(u); library now returns %s",
			s.id, kfSswuZ, s.n, s.mapCurve().Str(q))
	}
	d := sha256.Sum256([]byte(vstr(ref.Red(F, p.X)) + "," + vstr(ref.Red(F, p.Y))))
	k := fmt.Sprintf("%s:sgn0=%d", s.id, ref.Sgn0(F, u))
	if want, ok := f71Pinned[k]; !ok || hex.EncodeToString(d[:]) != want {
		t.Fatalf("%s: known finding %s pins MapToG%s(%s) (digest %s), library now returns %s (digest %x)", s.id, kfSswuZ, s.n, k, want, s.g.E.Str(p), d)
	}
}
