package c13

import (
	"bytes"
	"fmt"
	"strings"
	"testing"

	"verif/harness/internal/inst"
	"verif/harness/internal/ref"
	"verif/harness/internal/rep"
)

// kfSswuZ is the known-findings key of: SSWU suites whose configured Z violates criterion 4 of
// RFC 9380 6.6.2, so that the map has no value at the exceptional inputs (Z^2 u^4 + Z u^2 = 0).
const kfSswuZ = "F71-sswu-z-criterion4"

// TestC13_RegressF8: hash.ExpandMsgXmd panicked for every lenInBytes < 32 (copy(res[:32], b1) on a
// shorter slice), hence <field>.Hash panicked for count = 0 on every field and for count = 1 on the
// fields with L < 32 (koalabear, babybear: L = 20; goldilocks: L = 24). Rapid-free.
func TestC13_RegressF8(t *testing.T) {
	const T = "C13_RegressF8"
	msg, dst := []byte("abc"), []byte("QUUX-V01-CS02-with-expander-SHA256-128")
	for _, n := range []int{0, 1, 20, 24, 31} {
		want, _ := ref.ExpandMessageXMD(msg, dst, n)
		got, err := libXmd(t, msg, dst, n)
		if err != nil || !bytes.Equal(got, want) {
			t.Errorf("ExpandMsgXmd(abc, dst, %d) = %x, %v; want %x", n, got, err, want)
		}
		rep.Count(T, "xmd_short", 1, 1, fmt.Sprintf("len=%d", n))
	}
	for _, name := range []string{"koalabear", "babybear", "goldilocks", "bn254/fr", "bw6-761/fp"} {
		f := inst.FieldByName(name)
		for count := 0; count <= 1; count++ {
			want, _ := ref.HashToField(msg, dst, f.Q(), 1, count)
			got, err := libFieldHash(t, f, msg, dst, count)
			if err != nil || len(got) != count {
				t.Errorf("%s.Hash(abc, dst, %d): %d elements, %v", name, count, len(got), err)
				continue
			}
			for i := range got {
				checkElem(t, f, fmt.Sprintf("Hash(abc, dst, %d)[%d]", count, i), got[i], want[i][0])
			}
			rep.Count(T, "field_hash_short", 1, 1, fmt.Sprintf("%s count=%d", name, count))
		}
	}
}

// TestC13_RegressF72: bls24-315 MapToCurve2 used constants c1, c3 that do not belong to the curve
// and never initialised c4, so x3 degenerated to Z: every input for which neither g(x1) nor g(x2)
// is a square (about 1/4 of the field) was sent to the same point +-(Z, sqrt(g(Z))); EncodeToG2
// collided on ~20% of all messages. Rapid-free: the x-coordinates must be the SvdW ones and 64
// messages must encode to 64 different points.
func TestC13_RegressF72(t *testing.T) {
	const T = "C13_RegressF72"
	if !selected("bls24-315/G2") {
		t.Skip("not selected")
	}
	s := getSuite("bls24-315/G2")
	F := s.F
	for k := int64(1); k <= 12; k++ {
		u := ref.FromInt64s(F, k, 0, 0, 0)
		w, br := s.refMapToCurve(u)
		q := s.rawPt(s.libMapToCurve(u))
		if !F.Eq(q.X, w.X) {
			t.Errorf("bls24-315 MapToCurve2(%d): x = %s, SvdW selects %s (branch %s)", k, vstr(q.X), vstr(w.X), br)
		}
		rep.Count(T, "svdw_x:"+br, 1, 1, fmt.Sprintf("u=%d", k))
	}
	seen := map[string]bool{}
	for i := 0; i < 64; i++ {
		p, err := s.libHash("EncodeToG", []byte(fmt.Sprintf("msg-%d", i)), []byte("VERIF-C13"))
		if err != nil {
			t.Fatal(err)
		}
		seen[s.g.E.Str(s.g.ToRef(p))] = true
	}
	if len(seen) != 64 {
		t.Errorf("bls24-315 EncodeToG2: 64 messages gave only %d distinct points", len(seen))
	}
	rep.Count(T, "encode_distinct", 64, 64, "msg-0..63")
}

// TestC13_ExceptionalProbe evaluates, for every SSWU suite whose Z fails criterion 4, the library on
// all exceptional inputs (where the RFC map has no value). An invalid MapToG result (off the curve /
// outside the subgroup) is a violation unless the finding is listed as known, in which case it is
// announced by a KNOWN-FINDING line; the rapid property then excludes exactly these inputs.
func TestC13_ExceptionalProbe(t *testing.T) {
	const T = "C13_ExceptionalProbe"
	for _, id := range suiteIDs() {
		if !selected(id) {
			continue
		}
		s := getSuite(id)
		if s.sswu == nil || s.zCrit[3] {
			continue
		}
		var bad []string
		for _, u := range s.exceptional() {
			_, br := s.refMapToCurve(u)
			if !strings.HasSuffix(br, ":undefined") {
				// g(-B/(ZA)) happens to be a square: the RFC map has a value here (branch exc:x2) and the
				// rapid property compares it; not part of the finding
				continue
			}
			q := s.rawPt(s.libMapToCurve(u))
			p := s.g.ToRef(s.libMapToG(u))
			onE := s.g.E.OnCurve(p)
			inG := onE && s.g.E.Mul(s.g.R, p).Inf
			name := "u=0"
			if !s.F.IsZero(u) {
				name = "u=+-sqrt(-1/Z)"
			}
			rep.Count(T, fmt.Sprintf("%s:%s:onE'=%v,MapToG_on_curve=%v,in_subgroup=%v,infinity=%v", id, name, s.mapCurve().OnCurve(q), onE, inG, p.Inf), 1, 1, vstr(u))
			if !onE || !inG {
				bad = append(bad, fmt.Sprintf("%s MapToG%s(%s): on curve=%v in subgroup=%v", id, s.n, name, onE, inG))
			}
		}
		if len(bad) == 0 {
			rep.Note(T, fmt.Sprintf("%s: Z fails criterion 4 of RFC 9380 6.6.2; at the exceptional inputs MapToCurve%s returns (0,0) / MapToG%s the point at infinity (valid by the library's convention)", id, s.n, s.n))
			continue
		}
		if rep.Known("C13", kfSswuZ) {
			rep.StillPresent("C13", kfSswuZ, strings.Join(bad, "; "))
		} else {
			t.Errorf("%s: the configured SSWU constant Z=%s violates criterion 4 of RFC 9380 6.6.2 and the library returns invalid points at the exceptional inputs: %s",
				id, vstr(s.sswu.Z), strings.Join(bad, "; "))
		}
	}
	rep.Exhaustive(T)
}
