package c13

import (
	"bytes"
	"fmt"
	"os"
	"os/exec"
	"path/filepath"
	"regexp"
	"runtime"
	"strconv"
	"strings"
	"testing"

	"verif/harness/internal/inst"
	"verif/harness/internal/ref"
	"verif/harness/internal/rep"
)

// FuzzC13_ExpandHash: native (coverage-guided) fuzz target with the oracle inside: ExpandMsgXmd and
// <field>.Hash of one of the 23 fields against the reference, errors exactly for inadmissible
// parameters, no panic. Run as a plain test it executes the seed corpus below (quick tier);
// TestC13_NativeFuzz runs the campaign (thorough tier).
func FuzzC13_ExpandHash(f *testing.F) {
	long := bytes.Repeat([]byte{0xa5}, 300)
	seeds := []struct {
		msg, dst []byte
		n        uint16
		count    uint8
		field    uint8
	}{
		{nil, nil, 0, 0, 0},
		{[]byte("abc"), []byte("QUUX-V01-CS02-with-expander-SHA256-128"), 32, 1, 0},
		{[]byte("abc"), []byte("QUUX-V01-CS02-with-expander-SHA256-128"), 20, 1, 21},
		{[]byte("abc"), long[:255], 31, 2, 22},
		{[]byte("abc"), long[:256], 33, 2, 20},
		{long, long[:1], 8160, 8, 5},
		{long[:55], long[:2], 8161, 170, 1},
		{long[:56], nil, 65535, 255, 12},
		{long[:64], long[:43], 128, 171, 13},
	}
	for _, s := range seeds {
		f.Add(s.msg, s.dst, s.n, s.count, s.field)
	}
	fields := inst.Fields()
	f.Fuzz(func(t *testing.T, msg, dst []byte, n uint16, count uint8, field uint8) {
		if len(msg) > 1024 || len(dst) > 600 {
			t.Skip()
		}
		want, werr := ref.ExpandMessageXMD(msg, dst, int(n))
		got, err := libXmd(t, msg, dst, int(n))
		if (err != nil) != (werr != nil) {
			t.Fatalf("ExpandMsgXmd(len(msg)=%d, len(dst)=%d, %d): error=%v, RFC says error=%v", len(msg), len(dst), n, err, werr)
		}
		if err == nil && !bytes.Equal(got, want) {
			t.Fatalf("ExpandMsgXmd(msg=%x, dst=%x, %d)\n got  %x\n want %x", msg, dst, n, got, want)
		}
		fl := fields[int(field)%len(fields)]
		we, werr := ref.HashToField(msg, dst, fl.Q(), 1, int(count))
		ge, err := libFieldHash(t, fl, msg, dst, int(count))
		if (err != nil) != (werr != nil) {
			t.Fatalf("%s.Hash(len(msg)=%d, len(dst)=%d, count=%d): error=%v, RFC says error=%v", fl.Name(), len(msg), len(dst), count, err, werr)
		}
		if err == nil {
			if len(ge) != int(count) {
				t.Fatalf("%s.Hash returned %d elements, asked for %d", fl.Name(), len(ge), count)
			}
			for i := range ge {
				checkElem(t, fl, fmt.Sprintf("Hash(msg=%x, dst=%x, %d)[%d]", msg, dst, count, i), ge[i], we[i][0])
			}
		}
	})
}

// TestC13_NativeFuzz runs `go test -fuzz` on this package in a child process (the driver's test
// binaries carry no fuzz instrumentation). Thorough tier only. VERIF_C13_FUZZTIME: go duration.
func TestC13_NativeFuzz(t *testing.T) {
	if !rep.Thorough() {
		t.Skip("native fuzzing runs in the thorough tier only")
	}
	target := "FuzzC13_ExpandHash"
	dur := os.Getenv("VERIF_C13_FUZZTIME")
	if dur == "" {
		dur = "60s"
	}
	_, file, _, _ := runtime.Caller(0)
	cmd := exec.Command("go", "test", "-vet=off", "-run", "^$", "-fuzz", "^"+target+"$", "-fuzztime", dur, ".")
	cmd.Dir = filepath.Dir(file)
	for _, e := range os.Environ() {
		if !strings.HasPrefix(e, "VERIF_REPORT=") {
			cmd.Env = append(cmd.Env, e)
		}
	}
	out, err := cmd.CombinedOutput()
	s := string(out)
	var execs, interesting int64
	for _, m := range regexp.MustCompile(`execs: (\d+) \(\d+/sec\), new interesting: \d+ \(total: (\d+)\)`).FindAllStringSubmatch(s, -1) {
		execs, _ = strconv.ParseInt(m[1], 10, 64)
		interesting, _ = strconv.ParseInt(m[2], 10, 64)
	}
	tail := s
	if len(tail) > 3000 {
		tail = tail[len(tail)-3000:]
	}
	if err != nil {
		t.Fatalf("native fuzzing of %s failed (%v):\n%s", target, err, tail)
	}
	if !strings.Contains(s, "new interesting") {
		t.Fatalf("native fuzzing of %s ran without coverage guidance or did not run:\n%s", target, tail)
	}
	rep.Count("C13_NativeFuzz/"+target, "fuzz:execs:"+target, execs, interesting,
		fmt.Sprintf("%s: %d coverage-guided executions in %s, corpus of %d coverage-distinct inputs (counted as distinct)", target, execs, dur, interesting))
}
