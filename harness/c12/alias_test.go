package c12

import (
	"bytes"
	"crypto/sha256"
	"fmt"
	"math/big"
	"testing"

	"github.com/consensys/gnark-crypto/signature"

	"pgregory.net/rapid"

	"verif/harness/internal/rep"
)

// Aliasing / purity clause of the key handling: objects handed out by Public(), Bytes(), Sign and
// objects filled by SetBytes must not share memory with their source. After scribbling over them
// through their own API the source must serialise to the same bytes, still sign signatures that
// verify under the ORIGINAL public key (reloaded from bytes saved at the start, and decided by the
// reference equation as well), and behave like a key reloaded from the saved bytes.

// schemeOps is what the aliasing property needs from either scheme.
type schemeOps struct {
	name     string
	det      bool // deterministic signing (EdDSA)
	genKey   func(seed []byte) signature.Signer
	newPK    func() signature.PublicKey
	newSK    func() signature.Signer
	newSig   func() byteCodec
	invalid  func(t *rapid.T, pkb []byte) []byte              // an encoding PublicKey.SetBytes must refuse
	refCheck func(pkb, sig, msg []byte) (ok bool, why string) // independent verification under the key encoded by pkb
}

func scribble(b []byte) {
	for i := range b {
		b[i] ^= 0xa5
	}
}

func propAlias(t *rapid.T, S schemeOps) {
	test := "C12_Alias/" + S.name
	seed := rapid.SliceOfN(rapid.Byte(), 1, 8).Draw(t, "seed")
	sk := S.genKey(seed)
	other := S.genKey(append([]byte("other"), seed...))
	savedSK := append([]byte{}, sk.Bytes()...)
	savedPK := append([]byte{}, sk.Public().Bytes()...)
	otherPK := append([]byte{}, other.Public().Bytes()...)
	if bytes.Equal(savedPK, otherPK) {
		return
	}
	origPK := S.newPK()
	if _, err := origPK.SetBytes(append([]byte{}, savedPK...)); err != nil {
		t.Fatalf("%s: SetBytes(saved public key): %v", test, err)
	}
	msg := rapid.SliceOfN(rapid.Byte(), 0, 40).Draw(t, "msg")
	savedMsg := append([]byte{}, msg...)
	var classes []string

	nsteps := rapid.IntRange(2, 6).Draw(t, "nsteps")
	for si := 0; si < nsteps; si++ {
		lab := fmt.Sprintf("s%d", si)
		step := pickFrom(t, []string{
			"alias:public_of_private", "alias:public_of_private", "alias:public_of_private_invalid", "alias:bytes_slice", "alias:bytes_slice",
			"alias:setbytes_input", "alias:signature_slice", "alias:signature_object", "alias:public_of_loaded", "alias:verify_inputs", "alias:equal"}, lab)
		classes = append(classes, step)
		switch step {
		case "alias:public_of_private": // reuse the object returned by Public() to load a peer's key
			pk := sk.Public()
			if _, err := pk.SetBytes(append([]byte{}, otherPK...)); err != nil {
				t.Fatalf("%s: SetBytes(peer key) on the object returned by Public(): %v", test, err)
			}
			if !bytes.Equal(pk.Bytes(), otherPK) {
				t.Fatalf("%s: object returned by Public() does not hold the peer key after SetBytes", test)
			}
		case "alias:public_of_private_invalid": // a refused encoding may still overwrite its receiver
			pk := sk.Public()
			bad := S.invalid(t, savedPK)
			if _, err := pk.SetBytes(bad); err == nil {
				t.Fatalf("%s: harness error: invalid encoding %x accepted", test, bad)
			}
		case "alias:bytes_slice": // returned byte slices are the caller's
			scribble(sk.Bytes())
			scribble(sk.Public().Bytes())
			pk := sk.Public()
			scribble(pk.Bytes())
			if !bytes.Equal(pk.Bytes(), savedPK) {
				t.Fatalf("%s: overwriting the slice returned by PublicKey.Bytes() changed the key", test)
			}
		case "alias:setbytes_input": // keys and signatures filled by SetBytes own their data
			skb := append([]byte{}, savedSK...)
			sk2 := S.newSK()
			if _, err := sk2.SetBytes(skb); err != nil {
				t.Fatalf("%s: PrivateKey.SetBytes(saved): %v", test, err)
			}
			pkb := append([]byte{}, savedPK...)
			pk2 := S.newPK()
			if _, err := pk2.SetBytes(pkb); err != nil {
				t.Fatalf("%s: PublicKey.SetBytes(saved): %v", test, err)
			}
			sig, err := sk.Sign(msg, sha256.New())
			if err != nil {
				t.Fatalf("%s: Sign: %v", test, err)
			}
			sgb := append([]byte{}, sig...)
			sg := S.newSig()
			if _, err := sg.SetBytes(sgb); err != nil {
				t.Fatalf("%s: Signature.SetBytes(honest): %v", test, err)
			}
			scribble(skb)
			scribble(pkb)
			scribble(sgb)
			if !bytes.Equal(sk2.Bytes(), savedSK) || !bytes.Equal(pk2.Bytes(), savedPK) || !bytes.Equal(sg.Bytes(), sig) {
				t.Fatalf("%s: overwriting the buffer given to SetBytes changed the decoded object (sk %v, pk %v, sig %v)", test,
					bytes.Equal(sk2.Bytes(), savedSK), bytes.Equal(pk2.Bytes(), savedPK), bytes.Equal(sg.Bytes(), sig))
			}
			// and the other way round: loading something else into the copies leaves the source alone
			if _, err := sk2.SetBytes(append([]byte{}, other.Bytes()...)); err != nil {
				t.Fatalf("%s: PrivateKey.SetBytes(peer): %v", test, err)
			}
		case "alias:signature_slice":
			sig, err := sk.Sign(msg, sha256.New())
			if err != nil {
				t.Fatalf("%s: Sign: %v", test, err)
			}
			keep := append([]byte{}, sig...)
			scribble(sig)
			if S.det {
				again, err := sk.Sign(msg, sha256.New())
				if err != nil || !bytes.Equal(again, keep) {
					t.Fatalf("%s: overwriting a returned signature changed the next signature of the same message (err=%v)", test, err)
				}
			}
		case "alias:signature_object":
			sig, err := sk.Sign(msg, sha256.New())
			if err != nil {
				t.Fatalf("%s: Sign: %v", test, err)
			}
			sg := S.newSig()
			if _, err := sg.SetBytes(sig); err != nil {
				t.Fatalf("%s: Signature.SetBytes(honest): %v", test, err)
			}
			scribble(sg.Bytes())
			if !bytes.Equal(sg.Bytes(), sig) {
				t.Fatalf("%s: overwriting the slice returned by Signature.Bytes() changed the signature", test)
			}
		case "alias:public_of_loaded": // same for a private key that came from bytes
			sk2 := S.newSK()
			if _, err := sk2.SetBytes(append([]byte{}, savedSK...)); err != nil {
				t.Fatalf("%s: PrivateKey.SetBytes(saved): %v", test, err)
			}
			pk := sk2.Public()
			if _, err := pk.SetBytes(append([]byte{}, otherPK...)); err != nil {
				t.Fatalf("%s: SetBytes(peer key): %v", test, err)
			}
			scribble(sk2.Bytes())
			if !bytes.Equal(sk2.Bytes(), savedSK) || !bytes.Equal(sk2.Public().Bytes(), savedPK) {
				t.Fatalf("%s: a private key loaded from bytes changed after its Public() object was reused", test)
			}
		case "alias:verify_inputs": // Verify and Sign leave their arguments and the key alone
			sig, err := sk.Sign(msg, sha256.New())
			if err != nil {
				t.Fatalf("%s: Sign: %v", test, err)
			}
			keep := append([]byte{}, sig...)
			pk := sk.Public()
			if ok, err := pk.Verify(sig, msg, sha256.New()); !ok || err != nil {
				t.Fatalf("%s: honest signature rejected (%v,%v)", test, ok, err)
			}
			bad := append([]byte{}, sig...)
			bad[len(bad)-1] ^= 1
			pk.Verify(bad, msg, sha256.New())
			pk.Verify(bad[:len(bad)-1], msg, sha256.New())
			if !bytes.Equal(sig, keep) || !bytes.Equal(msg, savedMsg) || !bytes.Equal(pk.Bytes(), savedPK) {
				t.Fatalf("%s: Verify modified its arguments or its receiver", test)
			}
		case "alias:equal":
			pk := sk.Public()
			o := other.Public()
			if pk.Equal(o) || !pk.Equal(origPK) || !origPK.Equal(pk) {
				t.Fatalf("%s: Equal gives the wrong answer", test)
			}
			if !bytes.Equal(pk.Bytes(), savedPK) || !bytes.Equal(o.Bytes(), otherPK) {
				t.Fatalf("%s: Equal modified an operand", test)
			}
		}
		// after every step: the source is what it was
		if got := sk.Bytes(); !bytes.Equal(got, savedSK) {
			t.Fatalf("%s: after %v the private key serialises differently:\n got %x\nwant %x", test, classes, got, savedSK)
		}
		if got := sk.Public().Bytes(); !bytes.Equal(got, savedPK) {
			t.Fatalf("%s: after %v Public() is no longer the signer's key:\n got %x\nwant %x", test, classes, got, savedPK)
		}
	}

	// the source still signs for its ORIGINAL public key; a key reloaded from the saved bytes behaves identically
	if !bytes.Equal(msg, savedMsg) {
		t.Fatalf("%s: the message buffer was modified", test)
	}
	sig, err := sk.Sign(msg, sha256.New())
	if err != nil {
		t.Fatalf("%s: Sign after %v: %v", test, classes, err)
	}
	if ok, err := origPK.Verify(sig, msg, sha256.New()); !ok || err != nil {
		t.Fatalf("%s: after %v the signer's signature is rejected under its original public key (%v,%v) sig=%x", test, classes, ok, err, sig)
	}
	if ok, why := S.refCheck(savedPK, sig, msg); !ok {
		t.Fatalf("%s: after %v the signer's signature fails the reference equation under its original public key (%s) sig=%x", test, classes, why, sig)
	}
	reloaded := S.newSK()
	if n, err := reloaded.SetBytes(append([]byte{}, savedSK...)); err != nil || n != len(savedSK) {
		t.Fatalf("%s: reloading the saved private key: (%d,%v)", test, n, err)
	}
	sig2, err := reloaded.Sign(msg, sha256.New())
	if err != nil {
		t.Fatalf("%s: Sign with the reloaded key: %v", test, err)
	}
	if S.det && !bytes.Equal(sig, sig2) {
		t.Fatalf("%s: after %v the signer and the signer reloaded from its encoding sign differently:\n%x\n%x", test, classes, sig, sig2)
	}
	if ok, err := origPK.Verify(sig2, msg, sha256.New()); !ok || err != nil {
		t.Fatalf("%s: signature of the reloaded key rejected under the original public key (%v,%v)", test, ok, err)
	}
	if ok, err := reloaded.Public().Verify(sig, msg, sha256.New()); !ok || err != nil {
		t.Fatalf("%s: after %v the signer's signature is rejected under the reloaded key's Public() (%v,%v)", test, classes, ok, err)
	}
	if !bytes.Equal(reloaded.Public().Bytes(), sk.Public().Bytes()) || !bytes.Equal(reloaded.Bytes(), sk.Bytes()) {
		t.Fatalf("%s: after %v the signer and its reloaded copy serialise differently", test, classes)
	}
	rep.Case(test, fmt.Sprintf("%s seed=%x msg=%x steps=%v", S.name, seed, msg, classes), true, append(classes, "alias_case")...)
}

func ecdsaOps(I *ecdsaInst) schemeOps {
	return schemeOps{
		name: "ecdsa/" + I.name,
		genKey: func(seed []byte) signature.Signer {
			sk, err := I.genKey(&detReader{seed: seed})
			if err != nil {
				panic(err)
			}
			return sk
		},
		newPK: I.newPK, newSK: I.newSK, newSig: I.newSig,
		invalid: func(t *rapid.T, pkb []byte) []byte {
			b := make([]byte, len(pkb))
			for i := range b {
				b[i] = 0xff
			}
			return b
		},
		refCheck: func(pkb, sig, msg []byte) (bool, string) {
			pk := I.newPK()
			if _, err := pk.SetBytes(append([]byte{}, pkb...)); err != nil {
				return false, err.Error()
			}
			d := sha256.Sum256(msg)
			v := I.refVerify(I.pkPoint(pk), sig, I.h2i(d[:]))
			return v.ok, v.why
		},
	}
}

func eddsaOps(I *eddsaInst) schemeOps {
	return schemeOps{
		name: "eddsa/" + I.name,
		det:  true,
		genKey: func(seed []byte) signature.Signer {
			sk, err := I.genKey(&detReader{seed: seed})
			if err != nil {
				panic(err)
			}
			return sk
		},
		newPK: I.newPK, newSK: I.newSK, newSig: I.newSig,
		invalid: func(t *rapid.T, pkb []byte) []byte {
			if rapid.Bool().Draw(t, "inv_ff") { // y >= p
				b := make([]byte, len(pkb))
				for i := range b {
					b[i] = 0xff
				}
				return b
			}
			// canonical ordinate without a point (the decoder has written Y before it finds out)
			A, _ := I.decPoint(pkb)
			y := new(big.Int).Set(A.Y)
			for {
				y.Add(y, bi(1)).Mod(y, I.p)
				if _, ok := I.E.LiftY(y); !ok {
					break
				}
			}
			return rev(be(y, I.sizeFr))
		},
		refCheck: func(pkb, sig, msg []byte) (bool, string) {
			A, why := I.decPoint(pkb)
			if why != "" {
				return false, why
			}
			v := I.refVerify(A, sig, msg, shaSpec("sha256"))
			return v.ok, v.why
		},
	}
}

func TestC12_Alias_ECDSA(t *testing.T) {
	forECDSA(t, func(t *testing.T, I *ecdsaInst) {
		S := ecdsaOps(I)
		rapid.Check(t, func(t *rapid.T) { propAlias(t, S) })
	})
}

func TestC12_Alias_EdDSA(t *testing.T) {
	forEdDSA(t, func(t *testing.T, I *eddsaInst) {
		S := eddsaOps(I)
		rapid.Check(t, func(t *rapid.T) { propAlias(t, S) })
	})
}
