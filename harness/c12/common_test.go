// Package c12: EdDSA and ECDSA — every honest signature verifies, nothing else does.
//
// Layout: common_test.go (deterministic readers, messages, hashes, byte mutations),
// ecdsa_test.go (10 curves: textbook equation oracle on ref.Curve, candidates, recovery, codecs,
// HashToInt vs FIPS 186-4 bits2int), eddsa_test.go (8 twisted-Edwards companions: cofactored
// equation oracle on ref.Edwards, candidates, codecs), regress_test.go (rapid-free regressions
// and known-finding probes).
package c12

import (
	"crypto/sha256"
	"crypto/sha512"
	"encoding/binary"
	"errors"
	"fmt"
	stdhash "hash"
	"hash/fnv"
	"math/big"
	"os"
	"reflect"
	"regexp"
	"testing"

	_ "github.com/consensys/gnark-crypto/ecc/grumpkin/fr/mimc"
	gchash "github.com/consensys/gnark-crypto/hash"
	_ "github.com/consensys/gnark-crypto/hash/all"

	"pgregory.net/rapid"

	"verif/harness/internal/ref"
	"verif/harness/internal/rep"
)

func TestMain(m *testing.M) { rep.Main(m) }

func selected(name string) bool {
	p := os.Getenv("VERIF_INST")
	if p == "" {
		return true
	}
	ok, _ := regexp.MatchString(p, name)
	return ok
}

func bi(x int64) *big.Int { return big.NewInt(x) }

// ---- deterministic io.Reader ------------------------------------------------------------------

// detReader is the only source of "randomness" handed to GenerateKey: either the SHA-256 counter
// stream of a rapid-drawn seed or a constant byte.
type detReader struct {
	seed  []byte
	konst bool
	fill  byte
	ctr   uint64
	buf   []byte
}

func (r *detReader) Read(p []byte) (int, error) {
	for i := range p {
		if r.konst {
			p[i] = r.fill
			continue
		}
		if len(r.buf) == 0 {
			var c [8]byte
			binary.BigEndian.PutUint64(c[:], r.ctr)
			h := sha256.Sum256(append(append([]byte{}, r.seed...), c[:]...))
			r.buf = h[:]
			r.ctr++
		}
		p[i] = r.buf[0]
		r.buf = r.buf[1:]
	}
	return len(p), nil
}

func drawReader(t *rapid.T, label string) (*detReader, string) {
	if rapid.IntRange(0, 9).Draw(t, label+"mode") == 0 {
		b := rapid.SampledFrom([]byte{0x00, 0xff, 0x01, 0x80, 0x7f}).Draw(t, label+"fill")
		return &detReader{konst: true, fill: b}, fmt.Sprintf("const:%02x", b)
	}
	s := rapid.SliceOfN(rapid.Byte(), 0, 12).Draw(t, label+"seed")
	return &detReader{seed: s}, fmt.Sprintf("seed:%x", s)
}

// ---- hashes -----------------------------------------------------------------------------------

// hspec is one hash function: the object handed to the library and an independent way of
// computing the digest of a sequence of Write calls (stdlib SHA-2, or ref.MiMC which shares no code
// with gnark-crypto).
type hspec struct {
	name  string
	block int                 // message block size used for the message classes
	new   func() stdhash.Hash // nil: "no hash" (ECDSA only)
	mimc  *ref.MiMC           // non-nil for MiMC
	sum   func(parts ...[]byte) ([]byte, error)
}

var errInadmissible = errors.New("message not admissible for the hash")

func shaSpec(name string) hspec {
	switch name {
	case "sha256":
		return hspec{name: name, block: 64, new: sha256.New, sum: func(parts ...[]byte) ([]byte, error) {
			h := sha256.New()
			for _, p := range parts {
				h.Write(p)
			}
			return h.Sum(nil), nil
		}}
	case "sha512":
		return hspec{name: name, block: 128, new: sha512.New, sum: func(parts ...[]byte) ([]byte, error) {
			h := sha512.New()
			for _, p := range parts {
				h.Write(p)
			}
			return h.Sum(nil), nil
		}}
	}
	panic("unknown hash " + name)
}

var mimcIDs = map[string]gchash.Hash{
	"bn254": gchash.MIMC_BN254, "bls12-377": gchash.MIMC_BLS12_377, "bls12-381": gchash.MIMC_BLS12_381,
	"bls24-315": gchash.MIMC_BLS24_315, "bls24-317": gchash.MIMC_BLS24_317, "bw6-633": gchash.MIMC_BW6_633,
	"bw6-761": gchash.MIMC_BW6_761, "grumpkin": gchash.MIMC_GRUMPKIN,
}

// mimcSpec returns the MiMC hash over the scalar field of host, with the digest computed by the
// reference model: every Write is parsed by the documented input format (empty → nothing,
// < BlockSize → one left-padded block, otherwise whole canonical blocks).
func mimcSpec(host string) (hspec, bool) {
	id, ok := mimcIDs[host]
	if !ok {
		return hspec{}, false
	}
	for _, s := range ref.MiMCSpecs {
		if s.Name == host {
			m := ref.NewMiMC(s)
			return hspec{name: "mimc", block: m.BlockSize, new: id.New, mimc: m, sum: func(parts ...[]byte) ([]byte, error) {
				var blocks []*big.Int
				for _, p := range parts {
					b, err := m.Blocks(p, false)
					if err != nil {
						return nil, errInadmissible
					}
					blocks = append(blocks, b...)
				}
				return m.Bytes(m.Hash(blocks)), nil
			}}, true
		}
	}
	return hspec{}, false
}

func (h hspec) lib() stdhash.Hash {
	if h.new == nil {
		return nil
	}
	return h.new()
}

// ---- messages ---------------------------------------------------------------------------------

func fillBytes(t *rapid.T, n int, label string) []byte {
	if n == 0 {
		return []byte{}
	}
	b := rapid.SliceOfN(rapid.Byte(), n, n).Draw(t, label)
	switch rapid.IntRange(0, 7).Draw(t, label+"style") {
	case 0: // leading zero bytes
		k := rapid.IntRange(1, 3).Draw(t, label+"lz")
		for i := 0; i < k && i < n; i++ {
			b[i] = 0
		}
	case 1: // leading zero bits
		b[0] &= byte(0xff >> uint(rapid.IntRange(1, 7).Draw(t, label+"lzb")))
	case 2:
		for i := range b {
			b[i] = 0xff
		}
	case 3:
		for i := range b {
			b[i] = 0
		}
	case 4:
		b[0] |= 0x80
	}
	return b
}

// drawMsg draws a message for a byte-oriented hash with block size B (for ECDSA without a hash
// B is the size of the scalar field: the message is the digest).
func drawMsg(t *rapid.T, B int, label string) ([]byte, string) {
	cls := pickFrom(t, []string{"empty", "one_byte", "short", "one_block", "multi_block", "longer_than_block"}, label+"cls")
	var n int
	switch cls {
	case "empty":
		n = 0
	case "one_byte":
		n = 1
	case "short":
		n = rapid.IntRange(2, B-1).Draw(t, label+"n")
	case "one_block":
		n = B
	case "multi_block":
		n = B * rapid.IntRange(2, 3).Draw(t, label+"k")
	default:
		n = B + rapid.IntRange(1, 2*B).Draw(t, label+"n")
		if n%B == 0 {
			n++
		}
	}
	return fillBytes(t, n, label+"b"), cls
}

func drawFieldBlock(t *rapid.T, q *big.Int, size int, label string) []byte {
	var v *big.Int
	switch rapid.IntRange(0, 7).Draw(t, label+"k") {
	case 0:
		v = bi(0)
	case 1:
		v = bi(1)
	case 2:
		v = new(big.Int).Sub(q, bi(1))
	case 3:
		v = new(big.Int).Lsh(bi(1), uint(q.BitLen()-1))
	default:
		b := rapid.SliceOfN(rapid.Byte(), size+8, size+8).Draw(t, label+"v")
		v = new(big.Int).SetBytes(b)
		v.Mod(v, q)
	}
	return v.FillBytes(make([]byte, size))
}

// drawMiMCMsg draws a message admissible for MiMC (its documented input format), or — class
// noncanonical_block — a whole number of blocks one of which encodes an integer >= q (Write
// documents an error). Lengths that are neither < BlockSize nor a multiple of it are not
// generated (mimc.Write over-reads/panics on them: DESIGN F9, decided by C14).
func drawMiMCMsg(t *rapid.T, m *ref.MiMC, label string) ([]byte, string) {
	B := m.BlockSize
	cls := pickFrom(t, []string{"empty", "one_byte", "short", "one_block", "multi_block", "multi_block", "noncanonical_block"}, label+"cls")
	switch cls {
	case "empty":
		return []byte{}, cls
	case "one_byte":
		return fillBytes(t, 1, label+"b"), cls
	case "short":
		return fillBytes(t, rapid.IntRange(2, B-1).Draw(t, label+"n"), label+"b"), cls
	}
	k := 1
	if cls != "one_block" {
		k = rapid.IntRange(2, 4).Draw(t, label+"k")
	}
	var out []byte
	for i := 0; i < k; i++ {
		out = append(out, drawFieldBlock(t, m.F.Q, B, fmt.Sprintf("%sblk%d", label, i))...)
	}
	if cls == "noncanonical_block" {
		i := rapid.IntRange(0, k-1).Draw(t, label+"bad")
		v := new(big.Int).Add(m.F.Q, bi(int64(rapid.IntRange(0, 3).Draw(t, label+"over"))))
		if rapid.Bool().Draw(t, label+"ff") || v.BitLen() > 8*B {
			v.Sub(new(big.Int).Lsh(bi(1), uint(8*B)), bi(1))
		}
		copy(out[i*B:], v.FillBytes(make([]byte, B)))
	}
	return out, cls
}

func (h hspec) drawMsg(t *rapid.T, label string) ([]byte, string) {
	if h.mimc != nil {
		return drawMiMCMsg(t, h.mimc, label)
	}
	return drawMsg(t, h.block, label)
}

// mutateMsg returns a message that differs from msg as a byte string and stays inside the domain
// of the hash (for MiMC: same rules as drawMiMCMsg; a flipped bit may push a block above q, which
// is the documented error class).
func (h hspec) mutateMsg(t *rapid.T, msg []byte, label string) ([]byte, string) {
	out := append([]byte{}, msg...)
	kinds := []string{"msg_append"}
	if len(msg) > 0 {
		kinds = append(kinds, "msg_bitflip", "msg_bitflip", "msg_truncate")
	}
	k := pickFrom(t, kinds, label+"kind")
	B := h.block
	switch k {
	case "msg_bitflip":
		i := rapid.IntRange(0, 8*len(out)-1).Draw(t, label+"bit")
		out[i/8] ^= 1 << uint(i%8)
	case "msg_append":
		if h.mimc != nil && len(out) >= B { // stay a whole number of blocks
			out = append(out, drawFieldBlock(t, h.mimc.F.Q, B, label+"blk")...)
		} else { // MiMC: still < BlockSize, or exactly one block (possibly >= q: documented error)
			out = append(out, rapid.Byte().Draw(t, label+"byte"))
		}
	case "msg_truncate":
		if h.mimc != nil && len(out) > B {
			out = out[:len(out)-B]
		} else {
			out = out[:len(out)-1]
		}
	}
	return out, k
}

// ---- byte helpers -----------------------------------------------------------------------------

func arrBytes(v interface{}) []byte {
	rv := reflect.ValueOf(v)
	if rv.Kind() == reflect.Slice {
		return append([]byte{}, rv.Bytes()...)
	}
	out := make([]byte, rv.Len())
	for i := range out {
		out[i] = byte(rv.Index(i).Uint())
	}
	return out
}

func cat(a ...[]byte) []byte {
	var out []byte
	for _, x := range a {
		out = append(out, x...)
	}
	return out
}

func be(v *big.Int, size int) []byte {
	if v.Sign() < 0 || v.BitLen() > 8*size {
		panic("be: value does not fit")
	}
	return v.FillBytes(make([]byte, size))
}

func fits(v *big.Int, size int) bool { return v.Sign() >= 0 && v.BitLen() <= 8*size }

func rev(b []byte) []byte {
	out := make([]byte, len(b))
	for i := range b {
		out[len(b)-1-i] = b[i]
	}
	return out
}

func flipBit(b []byte, i int) []byte {
	out := append([]byte{}, b...)
	out[i/8] ^= 1 << uint(i%8)
	return out
}

// pickFrom chooses an element with a flat distribution (rapid's integer generators favour small
// values and bounds, which starves most entries of a 40-class list).
func pickFrom[T any](t *rapid.T, xs []T, label string) T {
	b := rapid.SliceOfN(rapid.Byte(), 3, 3).Draw(t, label)
	h := fnv.New32a()
	h.Write(b)
	return xs[int(h.Sum32()%uint32(len(xs)))]
}

// drawScalar draws k in [1, n-1], boundary-heavy.
func drawScalar(t *rapid.T, n *big.Int, label string) *big.Int {
	switch rapid.IntRange(0, 9).Draw(t, label+"k") {
	case 0:
		return bi(1)
	case 1:
		return bi(2)
	case 2:
		return new(big.Int).Sub(n, bi(1))
	case 3:
		return new(big.Int).Sub(n, bi(2))
	case 4:
		return new(big.Int).Rsh(n, 1)
	}
	b := rapid.SliceOfN(rapid.Byte(), (n.BitLen()+7)/8+8, (n.BitLen()+7)/8+8).Draw(t, label+"v")
	v := new(big.Int).SetBytes(b)
	v.Mod(v, new(big.Int).Sub(n, bi(1)))
	return v.Add(v, bi(1))
}

func must(t interface{ Fatalf(string, ...any) }, err error, what string) {
	if err != nil {
		t.Fatalf("%s: unexpected error: %v", what, err)
	}
}

var _ = testing.Short
