package c12

import (
	"bytes"
	"fmt"
	"io"
	"math/big"
	"strings"
	"sync"
	"testing"

	"github.com/consensys/gnark-crypto/signature"

	"pgregory.net/rapid"

	"verif/harness/internal/inst"
	"verif/harness/internal/ref"
	"verif/harness/internal/reg"
	"verif/harness/internal/rep"
)

// ---- instance ---------------------------------------------------------------------------------

type eddsaInst struct {
	name    string
	ed      *inst.Edwards
	E       *ref.Edwards
	pkg     *reg.Pkg
	p, l, c *big.Int // field modulus, prime subgroup order, cofactor
	cl      *big.Int // c·l = group order
	sizeFr  int
	hashes  []hspec
	torsion []ref.EPt // affine points of order dividing the cofactor (incl. the neutral element)
}

var (
	eddsaMu    sync.Mutex
	eddsaCache = map[string]*eddsaInst{}
	// eddsaCurveOf records packages whose curve is not the one of their directory
	eddsaCurveOf = map[string]string{}
)

func getEdDSA(name string) *eddsaInst {
	eddsaMu.Lock()
	defer eddsaMu.Unlock()
	if I, ok := eddsaCache[name]; ok {
		return I
	}
	ed := inst.GetEdwards(name)
	pkg := ed.EddsaPkg
	// The curve is the one the package's own types live on (PublicKey.A). bandersnatch/eddsa is
	// generated from the same template as bls12-381/twistededwards/eddsa and imports (and documents:
	// "EdDSA signature scheme on bls12-381's twisted edwards curve") that curve, not bandersnatch.
	if f, ok := pkg.Types["PublicKey"].FieldByName("A"); ok {
		if path := strings.TrimPrefix(f.Type.PkgPath(), "github.com/consensys/gnark-crypto/ecc/"); path != name {
			eddsaCurveOf[name] = path
			ed = inst.GetEdwards(path)
		}
	}
	I := &eddsaInst{name: name, ed: ed, E: ed.E, pkg: pkg, p: ed.Q, l: ed.Order, c: ed.Cofactor}
	I.cl = new(big.Int).Mul(I.c, I.l)
	I.sizeFr = (I.p.BitLen() + 63) / 64 * 8
	host := strings.Split(name, "/")[0]
	m, ok := mimcSpec(host)
	if !ok || m.block != I.sizeFr {
		panic("c12: no MiMC for " + name)
	}
	I.hashes = []hspec{m, m, shaSpec("sha256"), shaSpec("sha512")}
	// torsion: [l]P for points P found by lifting small ordinates, closed under addition
	add := func(T ref.EPt) {
		for _, x := range I.torsion {
			if I.E.Eq(x, T) {
				return
			}
		}
		I.torsion = append(I.torsion, T)
	}
	add(I.E.Zero())
	for y := int64(2); y < 40 && int64(len(I.torsion)) < I.c.Int64(); y++ {
		P, ok := I.E.LiftY(bi(y))
		if !ok {
			continue
		}
		T, ok := I.mul(I.l, P)
		if !ok {
			continue
		}
		if q, ok := I.mul(I.c, T); !ok || !I.E.Eq(q, I.E.Zero()) {
			panic("c12: [c·l]P != O on " + name)
		}
		add(T)
		for changed := true; changed; {
			changed = false
			for _, a := range I.torsion {
				for _, b := range I.torsion {
					if s, ok := I.E.Add(a, b); ok && I.E.OnCurve(s) {
						n0 := len(I.torsion)
						add(s)
						changed = changed || len(I.torsion) != n0
					}
				}
			}
		}
	}
	eddsaCache[name] = I
	return I
}

// mul is double-and-add with the unified law, reporting whether an exceptional case (vanishing
// denominator; impossible on complete curves) was met.
func (I *eddsaInst) mul(k *big.Int, P ref.EPt) (ref.EPt, bool) {
	r := I.E.Zero()
	ok := true
	for i := k.BitLen() - 1; i >= 0; i-- {
		var o bool
		r, o = I.E.Add(r, r)
		ok = ok && o
		if !ok {
			return r, false
		}
		if k.Bit(i) == 1 {
			r, o = I.E.Add(r, P)
			ok = ok && o
			if !ok {
				return r, false
			}
		}
	}
	return r, ok
}

func (I *eddsaInst) genKey(rd io.Reader) (signature.Signer, error) {
	res := I.pkg.F("GenerateKey", rd)
	if err := reg.Err(res); err != nil {
		return nil, err
	}
	return res[0].(signature.Signer), nil
}
func (I *eddsaInst) newPK() signature.PublicKey { return I.pkg.New("PublicKey").(signature.PublicKey) }
func (I *eddsaInst) newSK() signature.Signer    { return I.pkg.New("PrivateKey").(signature.Signer) }
func (I *eddsaInst) newSig() byteCodec          { return I.pkg.New("Signature").(byteCodec) }
func (I *eddsaInst) pkPoint(pk signature.PublicKey) ref.EPt {
	return I.ed.ToRef(reg.Field(pk, "A"))
}

// encPoint is RFC 8032 §5.1.2 as the package documents it: y little endian, top bit = "x is the
// lexicographically larger root" (x > (p-1)/2).
func (I *eddsaInst) encPoint(P ref.EPt) []byte {
	b := rev(be(I.E.F.Red(P.Y), I.sizeFr))
	if I.xNeg(P.X) {
		b[I.sizeFr-1] |= 0x80
	}
	return b
}

func (I *eddsaInst) xNeg(x *big.Int) bool {
	half := new(big.Int).Rsh(new(big.Int).Sub(I.p, bi(1)), 1)
	return I.E.F.Red(x).Cmp(half) > 0
}

// decPoint is the reference decoder (RFC 8032 §5.1.3): canonical y, a root must exist, and the sign
// bit must be clear when x = 0.
func (I *eddsaInst) decPoint(b []byte) (ref.EPt, string) {
	if len(b) < I.sizeFr {
		return ref.EPt{}, "short"
	}
	le := append([]byte{}, b[:I.sizeFr]...)
	signBit := le[I.sizeFr-1]&0x80 != 0
	le[I.sizeFr-1] &= 0x7f
	y := new(big.Int).SetBytes(rev(le))
	if y.Cmp(I.p) >= 0 {
		return ref.EPt{}, "y_ge_p"
	}
	P, ok := I.E.LiftY(y)
	if !ok {
		return ref.EPt{}, "no_point"
	}
	if P.X.Sign() == 0 && signBit {
		return ref.EPt{}, "x0_signbit"
	}
	if I.xNeg(P.X) != signBit {
		P = I.E.Neg(P)
	}
	return P, ""
}

func (I *eddsaInst) coord(v *big.Int) []byte { return be(I.E.F.Red(v), I.sizeFr) }

// hram is H(R.x, R.y, A.x, A.y, M) as an integer (big endian digest), the message being one Write.
func (I *eddsaInst) hram(hs hspec, R, A ref.EPt, msg []byte) (*big.Int, error) {
	d, err := hs.sum(I.coord(R.X), I.coord(R.Y), I.coord(A.X), I.coord(A.Y), msg)
	if err != nil {
		return nil, err
	}
	return new(big.Int).SetBytes(d), nil
}

// refVerify: the documented, cofactored equation [c·S]B = [c](R + [H(R,A,M)]A) with the documented
// range checks 0 < R.y < p (canonical), R on the curve, 0 < S < l.
func (I *eddsaInst) refVerify(A ref.EPt, sig, msg []byte, hs hspec) verdict {
	R, S, v := I.refSig(sig)
	if v.malformed {
		return v
	}
	h, err := I.hram(hs, R, A, msg)
	if err != nil {
		return verdict{malformed: true, why: "message not admissible for the hash"}
	}
	h.Mod(h, I.cl) // exact: the group has order c·l
	lhs, ok1 := I.mul(S, I.ed.Base)
	lhs, ok2 := I.mulOK(I.c, lhs, ok1)
	hA, ok3 := I.mul(h, A)
	sum, ok4 := I.E.Add(hA, R)
	rhs, ok5 := I.mulOK(I.c, sum, ok3 && ok4)
	if !(ok2 && ok5) {
		return verdict{why: "exceptional"}
	}
	if I.E.Eq(lhs, rhs) {
		return verdict{ok: true, why: "[cS]B = [c](R+hA)"}
	}
	return verdict{why: "[cS]B != [c](R+hA)"}
}

// refSig decodes a signature string: exact size, 0 < R.y < p canonical, R on the curve with a
// canonical sign bit, 0 < S < l.
func (I *eddsaInst) refSig(sig []byte) (ref.EPt, *big.Int, verdict) {
	if len(sig) != 2*I.sizeFr {
		return ref.EPt{}, nil, verdict{malformed: true, why: "length"}
	}
	le := append([]byte{}, sig[:I.sizeFr]...)
	le[I.sizeFr-1] &= 0x7f
	y := new(big.Int).SetBytes(rev(le))
	if y.Sign() == 0 {
		return ref.EPt{}, nil, verdict{malformed: true, why: "R.y = 0"}
	}
	if y.Cmp(I.p) >= 0 {
		return ref.EPt{}, nil, verdict{malformed: true, why: "R.y >= p"}
	}
	S := new(big.Int).SetBytes(sig[I.sizeFr:])
	if S.Sign() == 0 {
		return ref.EPt{}, nil, verdict{malformed: true, why: "S = 0"}
	}
	if S.Cmp(I.l) >= 0 {
		return ref.EPt{}, nil, verdict{malformed: true, why: "S >= l"}
	}
	R, why := I.decPoint(sig[:I.sizeFr])
	if why != "" {
		return ref.EPt{}, nil, verdict{malformed: true, why: "R: " + why}
	}
	return R, S, verdict{}
}

func (I *eddsaInst) mulOK(k *big.Int, P ref.EPt, ok bool) (ref.EPt, bool) {
	if !ok {
		return P, false
	}
	return I.mul(k, P)
}

func (I *eddsaInst) check(t *rapid.T, test string, pk signature.PublicKey, A ref.EPt, sig, msg []byte, hs hspec, nontrivial bool, expect string, classes ...string) {
	key := fmt.Sprintf("%s h=%s A=%x sig=%x msg=%x", I.name, hs.name, I.encPoint(A), sig, msg)
	want := I.refVerify(A, sig, msg, hs)
	if want.why == "exceptional" { // unified law undefined (non-complete curve, points of even order): no verdict
		rep.Case(test, key, false, append(classes, "ref_exceptional")...)
		return
	}
	got, err := pk.Verify(sig, msg, hs.lib())
	// the signature codec on the same string
	_, _, sv := I.refSig(sig)
	sg := I.newSig()
	if nn, serr := sg.SetBytes(sig); sv.malformed != (serr != nil) {
		t.Fatalf("%s: Signature.SetBytes err=%v but the reference says malformed=%v (%s)\n%s", test, serr, sv.malformed, sv.why, key)
	} else if !sv.malformed && (nn != 2*I.sizeFr || !bytes.Equal(sg.Bytes(), sig)) {
		t.Fatalf("%s: Signature.SetBytes consumed %d of %d bytes / re-encodes as %x\n%s", test, nn, len(sig), sg.Bytes(), key)
	}
	switch {
	case want.malformed:
		classes = append(classes, "verdict:error")
		if err == nil || got {
			t.Fatalf("%s: malformed input (%s) must give (false, error), got (%v, %v)\n%s", test, want.why, got, err, key)
		}
	case err != nil:
		t.Fatalf("%s: well-formed input gave error %v (reference: ok=%v %s)\n%s", test, err, want.ok, want.why, key)
	case got != want.ok:
		t.Fatalf("%s: Verify=%v but the documented equation says %v (%s)\n%s", test, got, want.ok, want.why, key)
	case got:
		classes = append(classes, "verdict:accept")
	default:
		classes = append(classes, "verdict:reject")
	}
	switch expect {
	case "accept":
		if !want.ok {
			t.Fatalf("%s: harness error: class %v was constructed valid but the reference says %+v\n%s", test, classes, want, key)
		}
	case "error":
		if !want.malformed {
			t.Fatalf("%s: harness error: class %v was constructed malformed but the reference says %+v\n%s", test, classes, want, key)
		}
	case "reject":
		if want.ok {
			t.Fatalf("%s: harness error: class %v was constructed invalid but the reference accepts\n%s", test, classes, key)
		}
	}
	rep.Case(test, key, nontrivial, append(classes, "hash:"+hs.name)...)
}

// refSign signs with nonce r and secret scalar a for public key A (which may differ from [a]B by
// a torsion point), commitment R = [r]B + T.
func (I *eddsaInst) refSign(a, r *big.Int, T, A ref.EPt, msg []byte, hs hspec) ([]byte, bool) {
	R, ok := I.mul(r, I.ed.Base)
	if !ok {
		return nil, false
	}
	if R, ok = I.E.Add(R, T); !ok || !I.E.OnCurve(R) {
		return nil, false
	}
	h, err := I.hram(hs, R, A, msg)
	if err != nil {
		return nil, false
	}
	S := new(big.Int).Mul(h, a)
	S.Add(S, r).Mod(S, I.l)
	return cat(I.encPoint(R), be(S, I.sizeFr)), true
}

// setPK decodes a public key and compares with the reference decoder (both directions).
func (I *eddsaInst) setPK(t *rapid.T, test string, b []byte) (signature.PublicKey, ref.EPt, error) {
	want, why := I.decPoint(b)
	pk := I.newPK()
	var n int
	var err error
	func() {
		defer func() {
			if p := recover(); p != nil {
				t.Fatalf("%s: PublicKey.SetBytes panicked on %x: %v", test, b, p)
			}
		}()
		n, err = pk.SetBytes(b)
	}()
	if why != "" {
		if err == nil {
			t.Fatalf("%s: PublicKey.SetBytes accepted an invalid encoding (%s): %x", test, why, b)
		}
		if why == "short" && n != 0 {
			t.Fatalf("%s: PublicKey.SetBytes on a short buffer reports %d bytes", test, n)
		}
		return nil, ref.EPt{}, err
	}
	if err != nil {
		t.Fatalf("%s: PublicKey.SetBytes rejected a canonical encoding of a curve point: %x (%v)", test, b, err)
	}
	if n != I.sizeFr {
		t.Fatalf("%s: PublicKey.SetBytes consumed %d bytes, the encoding has %d", test, n, I.sizeFr)
	}
	if got := I.pkPoint(pk); !I.E.Eq(got, want) {
		t.Fatalf("%s: PublicKey.SetBytes(%x) decoded (%s,%s), reference (%s,%s)", test, b, got.X, got.Y, want.X, want.Y)
	}
	if back := pk.Bytes(); !bytes.Equal(back, b[:I.sizeFr]) {
		t.Fatalf("%s: PublicKey re-encodes %x as %x", test, b[:I.sizeFr], back)
	}
	return pk, want, nil
}

var eddsaClasses = []string{
	"sig_bitflip_R", "sig_bitflip_R", "sig_bitflip_R", "sig_bitflip_S", "sig_bitflip_S", "sig_bitflip_S", "sig_byte", "S_zero", "S_eq_l", "S_l_plus_1", "S_plus_l", "S_plus_l", "S_high_bits", "S_all_ff",
	"R_offcurve", "R_noncanonical_y", "R_y_zero", "R_x_negated", "R_signbit_x0", "R_small_order", "R_small_order", "R_plus_torsion", "R_plus_torsion_resigned",
	"swapped_halves", "len_minus_1", "len_plus_1", "len_zero", "len_double", "len_half",
	"msg_mutated", "msg_mutated", "msg_mutated", "msg_other", "hash_mismatch",
	"pk_other", "pk_bitflip", "pk_bitflip", "pk_bitflip", "pk_noncanonical_y", "pk_offcurve", "pk_signbit_x0", "pk_small_order", "pk_plus_torsion", "pk_short", "pk_trailing",
}

func propEdDSA(t *rapid.T, I *eddsaInst) {
	test := "C12_EdDSA/" + I.name
	E, l, sz := I.E, I.l, I.sizeFr
	rd, rdesc := drawReader(t, "key")
	sk, err := I.genKey(rd)
	must(t, err, "GenerateKey")
	keyMode := rapid.SampledFrom([]string{"key:generated", "key:from_bytes"}).Draw(t, "keymode")
	skLen := 2*sz + 32
	if keyMode == "key:from_bytes" {
		b := sk.Bytes()
		sk2 := I.newSK()
		nn, err := sk2.SetBytes(b)
		must(t, err, "PrivateKey.SetBytes(Bytes())")
		if nn != len(b) || nn != skLen || !bytes.Equal(sk2.Bytes(), b) {
			t.Fatalf("%s: PrivateKey round trip: consumed %d of %d bytes (want %d), re-encoding equal=%v", test, nn, len(b), skLen, bytes.Equal(sk2.Bytes(), b))
		}
		sk = sk2
	}
	skb := sk.Bytes()
	if len(skb) != skLen {
		t.Fatalf("%s: private key encoding has %d bytes, want %d", test, len(skb), skLen)
	}
	a := new(big.Int).SetBytes(skb[sz : 2*sz])
	pk := sk.Public()
	pkb := pk.Bytes()
	if !bytes.Equal(pkb, skb[:sz]) {
		t.Fatalf("%s: PrivateKey.Bytes() does not start with the public key encoding", test)
	}
	A := I.pkPoint(pk)
	// clamped scalar (RFC 8032 §5.1.5 as cited by GenerateKey): multiple of 8, bit 8·size-2 set, top bit clear
	if a.Bit(0) != 0 || a.Bit(1) != 0 || a.Bit(2) != 0 || a.Bit(8*sz-2) != 1 || a.Bit(8*sz-1) != 0 {
		t.Fatalf("%s: secret scalar %s is not clamped (reader %s)", test, a.Text(16), rdesc)
	}
	if aB, ok := I.mul(a, I.ed.Base); !ok || !E.Eq(A, aB) {
		t.Fatalf("%s: generated public key is not [a]B (reader %s)", test, rdesc)
	}
	pk2, A2, err := I.setPK(t, test, pkb)
	must(t, err, "PublicKey.SetBytes(Bytes())")
	if !pk2.Equal(pk) || !pk.Equal(pk2) || !E.Eq(A, A2) {
		t.Fatalf("%s: public key changed through Bytes/SetBytes", test)
	}
	if keyMode == "key:from_bytes" {
		pk = pk2
	}

	hs := pickFrom(t, I.hashes, "hash")
	msg, mcls := hs.drawMsg(t, "msg")
	base := []string{keyMode, "msg:" + mcls}
	ntBase := keyMode == "key:from_bytes" || mcls == "empty" || mcls == "longer_than_block" || mcls == "multi_block"

	sig, err := sk.Sign(msg, hs.lib())
	if mcls == "noncanonical_block" {
		if err == nil {
			t.Fatalf("%s: Sign accepted a message that MiMC.Write documents as an error (%x)", test, msg)
		}
		I.check(t, test, pk, A, cat(I.encPoint(I.ed.Base), be(bi(1), sz)), msg, hs, true, "error", append(base, "msg_inadmissible")...)
		return
	}
	must(t, err, "Sign")
	{
		sg := I.newSig()
		nn, err := sg.SetBytes(sig)
		must(t, err, "Signature.SetBytes(honest)")
		if nn != 2*sz || len(sig) != nn || !bytes.Equal(sg.Bytes(), sig) {
			t.Fatalf("%s: Signature round trip: consumed %d, len %d, re-encoding equal=%v", test, nn, len(sig), bytes.Equal(sg.Bytes(), sig))
		}
	}
	I.check(t, test, pk, A, sig, msg, hs, ntBase, "accept", append(base, "honest_lib")...)
	// nil hash is documented as an error
	if ok, err := pk.Verify(sig, msg, nil); ok || err == nil {
		t.Fatalf("%s: Verify with a nil hash must fail, got (%v,%v)", test, ok, err)
	}
	if _, err := sk.Sign(msg, nil); err == nil {
		t.Fatalf("%s: Sign with a nil hash must fail", test)
	}

	// reference signer with a drawn nonce
	rn := drawScalar(t, l, "nonce")
	if sigR, ok := I.refSign(a, rn, E.Zero(), A, msg, hs); ok && new(big.Int).SetBytes(sigR[sz:]).Sign() != 0 {
		I.check(t, test, pk, A, sigR, msg, hs, ntBase, "accept", append(base, "honest_ref")...)
	}
	S := new(big.Int).SetBytes(sig[sz:])
	R, why := I.decPoint(sig[:sz])
	if why != "" {
		t.Fatalf("%s: honest signature has an invalid R (%s): %x", test, why, sig)
	}

	nc := rapid.IntRange(7, 11).Draw(t, "ncand")
	for ci := 0; ci < nc; ci++ {
		lab := fmt.Sprintf("c%d", ci)
		cls := pickFrom(t, eddsaClasses, lab)
		cand := append([]byte{}, sig...)
		cmsg, chs, cpk, cA := msg, hs, pk, A
		expect := ""
		extra := []string{}
		skip := false
		setS := func(v *big.Int) bool {
			if !fits(v, sz) {
				return false
			}
			copy(cand[sz:], be(v, sz))
			return true
		}
		tors := func() ref.EPt { // a non-neutral torsion point
			return I.torsion[rapid.IntRange(1, len(I.torsion)-1).Draw(t, lab+"T")]
		}
		switch cls {
		case "sig_bitflip_R":
			cand = flipBit(cand, rapid.IntRange(0, 8*sz-1).Draw(t, lab+"bit"))
		case "sig_bitflip_S":
			cand = flipBit(cand, 8*sz+rapid.IntRange(0, 8*sz-1).Draw(t, lab+"bit"))
		case "sig_byte":
			i := rapid.IntRange(0, len(cand)-1).Draw(t, lab+"i")
			cand[i] ^= byte(rapid.IntRange(1, 255).Draw(t, lab+"x"))
		case "S_zero":
			setS(bi(0))
			expect = "error"
		case "S_eq_l":
			setS(l)
			expect = "error"
		case "S_l_plus_1":
			setS(new(big.Int).Add(l, bi(1)))
			expect = "error"
		case "S_plus_l": // the same scalar modulo l: must be refused (malleability)
			skip = !setS(new(big.Int).Add(S, l))
			expect = "error"
		case "S_high_bits":
			cand[sz] |= 0x80
			expect = "error"
		case "S_all_ff":
			for i := sz; i < 2*sz; i++ {
				cand[i] = 0xff
			}
			expect = "error"
		case "R_offcurve": // an ordinate without a point
			y := new(big.Int).Set(R.Y)
			for {
				y.Add(y, bi(1)).Mod(y, I.p)
				if _, ok := E.LiftY(y); !ok && y.Sign() != 0 {
					break
				}
			}
			copy(cand[:sz], rev(be(y, sz)))
			cand[sz-1] |= sig[sz-1] & 0x80
			expect = "error"
		case "R_noncanonical_y": // y + p in the 8·size-1 available bits
			yp := new(big.Int).Add(R.Y, I.p)
			if yp.BitLen() > 8*sz-1 {
				yp.Sub(new(big.Int).Lsh(bi(1), uint(8*sz-1)), bi(1)) // all ones: >= p as well
			}
			copy(cand[:sz], rev(be(yp, sz)))
			cand[sz-1] |= sig[sz-1] & 0x80
			expect = "error"
		case "R_y_zero":
			for i := 0; i < sz; i++ {
				cand[i] = 0
			}
			cand[sz-1] = byte(rapid.SampledFrom([]int{0, 0x80}).Draw(t, lab+"sign"))
			expect = "error"
		case "R_x_negated":
			cand[sz-1] ^= 0x80
		case "R_signbit_x0": // (0,±1) with the sign bit set: non-canonical encoding of a small-order R
			T := ref.EPt{X: bi(0), Y: bi(1)}
			if rapid.Bool().Draw(t, lab+"m1") {
				T.Y = new(big.Int).Sub(I.p, bi(1))
			}
			h, err := I.hram(hs, T, A, msg)
			if err != nil {
				skip = true
				break
			}
			ss := new(big.Int).Mul(h, a)
			ss.Mod(ss, l)
			if ss.Sign() == 0 {
				skip = true
				break
			}
			cand = cat(I.encPoint(T), be(ss, sz))
			cand[sz-1] |= 0x80
			expect = "error"
		case "R_small_order": // R of order dividing the cofactor, S = h·a: satisfies the cofactored equation
			T := I.torsion[rapid.IntRange(0, len(I.torsion)-1).Draw(t, lab+"T")]
			var ok bool
			cand, ok = I.refSign(a, bi(0), T, A, msg, hs)
			if !ok || new(big.Int).SetBytes(cand[sz:]).Sign() == 0 {
				skip = true
				break
			}
			if E.F.Red(T.Y).Sign() == 0 {
				expect = "error" // documented range check 0 < R.y
				extra = append(extra, "R_small_order_y0")
			} else {
				expect = "accept"
			}
		case "R_plus_torsion": // same S, R shifted by a torsion point: h changes
			RT, ok := E.Add(R, tors())
			if !ok || !E.OnCurve(RT) || E.F.Red(RT.Y).Sign() == 0 {
				skip = true
				break
			}
			copy(cand[:sz], I.encPoint(RT))
		case "R_plus_torsion_resigned": // signer commits to [r]B + T: valid for the cofactored equation
			var ok bool
			cand, ok = I.refSign(a, drawScalar(t, l, lab+"r"), tors(), A, msg, hs)
			if !ok || new(big.Int).SetBytes(cand[sz:]).Sign() == 0 || new(big.Int).SetBytes(rev(cand[:sz])).Sign() == 0 {
				skip = true
				break
			}
			expect = "accept"
		case "swapped_halves":
			cand = cat(sig[sz:], sig[:sz])
		case "len_minus_1":
			cand = cand[:len(cand)-1]
			expect = "error"
		case "len_plus_1":
			cand = append(cand, rapid.Byte().Draw(t, lab+"b"))
			expect = "error"
		case "len_zero":
			cand = []byte{}
			expect = "error"
		case "len_double":
			cand = cat(cand, cand)
			expect = "error"
		case "len_half":
			cand = cand[:sz]
			expect = "error"
		case "msg_mutated":
			var kind string
			cmsg, kind = hs.mutateMsg(t, msg, lab+"m")
			extra = append(extra, kind)
		case "msg_other":
			cmsg, _ = hs.drawMsg(t, lab+"m")
		case "hash_mismatch":
			chs = pickFrom(t, I.hashes, lab+"h")
			if chs.name == hs.name {
				skip = true
				break
			}
			if chs.mimc != nil { // keep the message inside MiMC's documented domain (or its documented error)
				if len(msg) > chs.block && len(msg)%chs.block != 0 {
					skip = true
				}
			}
		case "pk_other":
			rd2, _ := drawReader(t, lab+"key")
			sk2, err := I.genKey(rd2)
			must(t, err, "GenerateKey")
			cpk = sk2.Public()
			cA = I.pkPoint(cpk)
		case "pk_bitflip":
			b := flipBit(pkb, rapid.IntRange(0, 8*len(pkb)-1).Draw(t, lab+"bit"))
			var err error
			cpk, cA, err = I.setPK(t, test, b)
			if err != nil {
				rep.Case(test, fmt.Sprintf("%s pk=%x", I.name, b), true, append(base, cls, "pk_rejected")...)
				continue
			}
			extra = append(extra, "pk_mutant_accepted")
		case "pk_noncanonical_y":
			yp := new(big.Int).Add(A.Y, I.p)
			if yp.BitLen() > 8*sz-1 {
				yp.Sub(new(big.Int).Lsh(bi(1), uint(8*sz-1)), bi(1))
			}
			b := rev(be(yp, sz))
			b[sz-1] |= pkb[sz-1] & 0x80
			if _, _, err := I.setPK(t, test, b); err == nil {
				t.Fatalf("%s: harness error: non-canonical key accepted by the reference decoder", test)
			}
			rep.Case(test, fmt.Sprintf("%s pk=%x", I.name, b), true, append(base, cls, "pk_rejected")...)
			continue
		case "pk_offcurve":
			y := new(big.Int).Set(A.Y)
			for {
				y.Add(y, bi(1)).Mod(y, I.p)
				if _, ok := E.LiftY(y); !ok {
					break
				}
			}
			b := rev(be(y, sz))
			b[sz-1] |= byte(rapid.SampledFrom([]int{0, 0x80}).Draw(t, lab+"sign"))
			if _, _, err := I.setPK(t, test, b); err == nil {
				t.Fatalf("%s: harness error: off-curve key accepted by the reference decoder", test)
			}
			rep.Case(test, fmt.Sprintf("%s pk=%x", I.name, b), true, append(base, cls, "pk_rejected")...)
			continue
		case "pk_signbit_x0":
			T := ref.EPt{X: bi(0), Y: bi(1)}
			if rapid.Bool().Draw(t, lab+"m1") {
				T.Y = new(big.Int).Sub(I.p, bi(1))
			}
			b := I.encPoint(T)
			b[sz-1] |= 0x80
			if _, _, err := I.setPK(t, test, b); err == nil {
				t.Fatalf("%s: harness error: x=0 with sign bit accepted by the reference decoder", test)
			}
			rep.Case(test, fmt.Sprintf("%s pk=%x", I.name, b), true, append(base, cls, "pk_rejected")...)
			continue
		case "pk_small_order": // A of small order: [c]([h]A) = O, so (R=[r]B, S=r) satisfies the equation for any message
			T := I.torsion[rapid.IntRange(0, len(I.torsion)-1).Draw(t, lab+"T")]
			var err error
			cpk, cA, err = I.setPK(t, test, I.encPoint(T))
			must(t, err, "PublicKey.SetBytes(torsion point)")
			if rapid.Bool().Draw(t, lab+"forge") {
				var ok bool
				cand, ok = I.refSign(bi(0), drawScalar(t, l, lab+"r"), E.Zero(), cA, msg, hs)
				if !ok {
					skip = true
					break
				}
				expect = "accept"
				extra = append(extra, "pk_small_order_forged")
			}
		case "pk_plus_torsion": // A' = A + T, signed with a for A': valid for the cofactored equation
			AT, ok := E.Add(A, tors())
			if !ok || !E.OnCurve(AT) {
				skip = true
				break
			}
			var err error
			cpk, cA, err = I.setPK(t, test, I.encPoint(AT))
			must(t, err, "PublicKey.SetBytes(A+T)")
			if rapid.Bool().Draw(t, lab+"resign") {
				cand, ok = I.refSign(a, drawScalar(t, l, lab+"r"), E.Zero(), cA, msg, hs)
				if !ok || new(big.Int).SetBytes(cand[sz:]).Sign() == 0 {
					skip = true
					break
				}
				expect = "accept"
				extra = append(extra, "pk_plus_torsion_resigned")
			}
		case "pk_short":
			b := pkb[:rapid.IntRange(0, len(pkb)-1).Draw(t, lab+"n")]
			if _, _, err := I.setPK(t, test, b); err == nil {
				t.Fatalf("%s: short public key accepted", test)
			}
			rep.Case(test, fmt.Sprintf("%s pk=%x", I.name, b), true, append(base, cls, "pk_rejected")...)
			continue
		case "pk_trailing":
			b := cat(pkb, rapid.SliceOfN(rapid.Byte(), 1, 40).Draw(t, lab+"tail"))
			var err error
			cpk, cA, err = I.setPK(t, test, b)
			must(t, err, "PublicKey.SetBytes(key||tail)")
			expect = "accept"
		}
		if skip {
			continue
		}
		if bytes.Equal(cand, sig) && bytes.Equal(cmsg, msg) && chs.name == hs.name && E.Eq(cA, A) && cls != "pk_trailing" {
			continue
		}
		I.check(t, test, cpk, cA, cand, cmsg, chs, true, expect, append(append(base, cls), extra...)...)
	}
}

func forEdDSA(t *testing.T, body func(t *testing.T, I *eddsaInst)) {
	for _, name := range inst.EdwardsNames {
		if !selected("eddsa/" + name) {
			continue
		}
		I := getEdDSA(name)
		t.Run(strings.ReplaceAll(name, "/", "_"), func(t *testing.T) { body(t, I) })
	}
}

func TestC12_EdDSA(t *testing.T) {
	forEdDSA(t, func(t *testing.T, I *eddsaInst) {
		if other, ok := eddsaCurveOf[I.name]; ok {
			rep.Note("C12_EdDSA/"+I.name, "ecc/"+I.name+"/eddsa signs on the curve of ecc/"+other+" (its import and package doc), not on "+I.name+"; checked against that curve")
		}
		if int64(len(I.torsion)) != I.c.Int64() {
			rep.Note("C12_EdDSA/"+I.name, fmt.Sprintf("only %d of %s torsion points are affine/found; small-order classes use those", len(I.torsion), I.c))
		}
		rapid.Check(t, func(t *rapid.T) { propEdDSA(t, I) })
	})
}
