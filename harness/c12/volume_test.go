package c12

import (
	"bytes"
	"crypto/sha256"
	"encoding/binary"
	"fmt"
	"math"
	"math/big"
	"os"
	"testing"

	"golang.org/x/crypto/blake2b"

	"verif/harness/internal/rep"
)

// High-volume honest signing: "every honest signature verifies" is quantified over all messages, and
// some encodings only go wrong for rare values (a component with two or more leading zero bytes:
// about 1 signature in 1548 for S on bn254's companion). One fixed key per (instance, VERIF_SEED),
// counter messages, SHA-256; rapid-free and a pure function of VERIF_SEED for EdDSA (deterministic
// signing). The number of messages is chosen per instance so that the probability of never seeing a
// component with >= 2 leading zero bytes is below 0.3% where that is affordable.

func leadingZeroBytes(b []byte) int {
	n := 0
	for n < len(b) && b[n] == 0 {
		n++
	}
	return n
}

// volumeN returns the number of messages: at least base, and at least 6/p where p is the
// probability that a uniform value below order has >= 2 leading zero bytes in size bytes
// (comps = number of such components per signature), capped.
func volumeN(order *big.Int, size, comps, base, cap int) (n int, p float64) {
	lim := new(big.Int).Lsh(bi(1), uint(8*(size-2)))
	if lim.Cmp(order) >= 0 {
		p = 1
	} else {
		pf, _ := new(big.Float).Quo(new(big.Float).SetInt(lim), new(big.Float).SetInt(order)).Float64()
		p = pf
	}
	p = 1 - math.Pow(1-p, float64(comps))
	n = int(math.Ceil(6 / p))
	if n < base {
		n = base
	}
	if n > cap {
		n = cap
	}
	if v := rep.EnvInt("VERIF_VOLUME_N", 0); v > 0 {
		n = v
	}
	return n, p
}

// volumeShard splits the N messages over VERIF_SHARD=k/n processes: returns the counter range.
func volumeShard(N int) (lo, hi int) {
	var k, n int
	if _, err := fmt.Sscanf(os.Getenv("VERIF_SHARD"), "%d/%d", &k, &n); err != nil || n <= 0 {
		return 0, N
	}
	per := (N + n - 1) / n
	return k * per, (k + 1) * per
}

func volumeMsg(i int) []byte {
	var m [8]byte
	binary.BigEndian.PutUint64(m[:], uint64(i))
	return m[:]
}

func TestC12_HonestVolume_EdDSA(t *testing.T) {
	forEdDSA(t, func(t *testing.T, I *eddsaInst) {
		test := "C12_HonestVolume/eddsa/" + I.name
		sz, l := I.sizeFr, I.l
		base, cap := rep.Scale(10000, 100000), rep.Scale(25000, 250000)
		if sz > 32 { // 5- and 6-word fields: slower, and the class is frequent there
			base = rep.Scale(3000, 30000)
		}
		N, p := volumeN(l, sz, 1, base, cap)
		keySeed := fmt.Sprintf("C12 volume %s seed %d", I.name, rep.EnvInt("VERIF_SEED", 1))
		sk, err := I.genKey(&detReader{seed: []byte(keySeed)})
		if err != nil {
			t.Fatal(err)
		}
		skb := sk.Bytes()
		a := new(big.Int).SetBytes(skb[sz : 2*sz])
		randSrc := append([]byte{}, skb[2*sz:]...)
		pkb := sk.Public().Bytes()
		pk := I.newPK() // verifier key: deserialised
		if _, err := pk.SetBytes(pkb); err != nil {
			t.Fatal(err)
		}
		A, why := I.decPoint(pkb)
		if why != "" {
			t.Fatalf("%s: public key does not decode: %s", test, why)
		}
		hs := shaSpec("sha256")
		stride := N / rep.Scale(40, 200)
		if stride == 0 {
			stride = 1
		}
		var lzS1, lzS2, lzR1, lzR2, full int
		lo, hi := volumeShard(N)
		for i := lo; i < hi; i++ {
			msg := volumeMsg(i)
			sig, err := sk.Sign(msg, sha256.New())
			if err != nil {
				t.Fatalf("%s: Sign failed on message %d: %v (key seed %q)", test, i, err, keySeed)
			}
			ok, verr := pk.Verify(sig, msg, sha256.New())
			if !ok || verr != nil {
				t.Fatalf("%s: honest signature rejected (%v, %v): message %d (%x) sig=%x key seed %q", test, ok, verr, i, msg, sig, keySeed)
			}
			if len(sig) != 2*sz {
				t.Fatalf("%s: signature has %d bytes, want %d", test, len(sig), 2*sz)
			}
			// reference signer, S part: r = blake2b-512(randSrc || M)[:size] (the documented nonce), S = r + H(R,A,M)·a mod l
			R, why := I.decPoint(sig[:sz])
			if why != "" {
				t.Fatalf("%s: R of an honest signature does not decode (%s): message %d sig=%x", test, why, i, sig)
			}
			nd := blake2b.Sum512(cat(randSrc, msg))
			r := new(big.Int).SetBytes(nd[:sz])
			h, _ := I.hram(hs, R, A, msg)
			S := new(big.Int).Mul(h, a)
			S.Add(S, r).Mod(S, l)
			if want := be(S, sz); !bytes.Equal(sig[sz:], want) {
				t.Fatalf("%s: S is not the %d-byte big-endian encoding of r + H(R,A,M)·a mod l: message %d got %x want %x (key seed %q)", test, sz, i, sig[sz:], want, keySeed)
			}
			zs := leadingZeroBytes(sig[sz:])
			zr := leadingZeroBytes(rev(sig[:sz])) // R.y little endian (sign bit in the last byte)
			if zs >= 1 {
				lzS1++
			}
			if zs >= 2 {
				lzS2++
			}
			if zr >= 1 {
				lzR1++
			}
			if zr >= 2 {
				lzR2++
			}
			cls := []string{"volume_honest_eddsa", "hash:sha256"}
			if zs >= 1 || zr >= 1 {
				cls = append(cls, "sig:leading_zero_bytes>=1")
			}
			if zs >= 2 || zr >= 2 {
				cls = append(cls, "sig:leading_zero_bytes>=2")
			}
			if zs >= 2 {
				cls = append(cls, "S:leading_zero_bytes>=2")
			}
			if i%stride == 0 || zs >= 2 || zr >= 2 { // full reference: R = [r]B and the verification equation
				full++
				cls = append(cls, "volume_full_reference")
				rB, okm := I.mul(r, I.ed.Base)
				if !okm || !bytes.Equal(I.encPoint(rB), sig[:sz]) {
					t.Fatalf("%s: R is not the encoding of [r]B: message %d sig=%x", test, i, sig)
				}
				if v := I.refVerify(A, sig, msg, hs); !v.ok {
					t.Fatalf("%s: honest signature fails the reference equation (%s): message %d sig=%x", test, v.why, i, sig)
				}
			}
			rep.Case(test, fmt.Sprintf("%s key=%q msg=%x sig=%x", I.name, keySeed, msg, sig), true, cls...)
		}
		rep.Note(test, fmt.Sprintf("N=%d messages over all shards (this process: %d..%d), P(S has >=2 leading zero bytes)=1/%.0f, expected over all shards %.1f (P(none)=%.2g)", N, lo, hi, 1/p, float64(N)*p, math.Exp(-float64(N)*p)))
		t.Logf("%s: N=%d S>=1:%d S>=2:%d R>=1:%d R>=2:%d full=%d", test, N, lzS1, lzS2, lzR1, lzR2, full)
	})
}

func TestC12_HonestVolume_ECDSA(t *testing.T) {
	forECDSA(t, func(t *testing.T, I *ecdsaInst) {
		test := "C12_HonestVolume/ecdsa/" + I.name
		sz := I.sizeFr
		base, cap := rep.Scale(10000, 100000), rep.Scale(200000, 600000)
		if sz > 32 {
			base = rep.Scale(2500, 25000)
		}
		N, p := volumeN(I.n, sz, 2, base, cap)
		keySeed := fmt.Sprintf("C12 volume %s seed %d", I.name, rep.EnvInt("VERIF_SEED", 1))
		sk, err := I.genKey(&detReader{seed: []byte(keySeed)})
		if err != nil {
			t.Fatal(err)
		}
		pkb := sk.Public().Bytes()
		pk := I.newPK()
		if _, err := pk.SetBytes(pkb); err != nil {
			t.Fatal(err)
		}
		Q := I.pkPoint(pk)
		stride := N / rep.Scale(30, 150)
		if stride == 0 {
			stride = 1
		}
		var lz1, lz2, full int
		lo, hi := volumeShard(N)
		for i := lo; i < hi; i++ {
			msg := volumeMsg(i)
			// the signer mixes crypto/rand entropy into its nonce: only the verdict is used; a failure
			// prints the signature, and Verify on it is deterministic
			sig, err := sk.Sign(msg, sha256.New())
			if err != nil {
				t.Fatalf("%s: Sign failed on message %d: %v", test, i, err)
			}
			ok, verr := pk.Verify(sig, msg, sha256.New())
			if !ok || verr != nil {
				t.Fatalf("%s: honest signature rejected (%v, %v): message %d (%x) sig=%x key seed %q", test, ok, verr, i, msg, sig, keySeed)
			}
			if len(sig) != 2*sz {
				t.Fatalf("%s: signature has %d bytes, want %d", test, len(sig), 2*sz)
			}
			z := leadingZeroBytes(sig[:sz])
			if z2 := leadingZeroBytes(sig[sz:]); z2 > z {
				z = z2
			}
			if z >= 1 {
				lz1++
			}
			if z >= 2 {
				lz2++
			}
			cls := []string{"volume_honest_ecdsa", "hash:sha256"}
			if z >= 1 {
				cls = append(cls, "sig:leading_zero_bytes>=1")
			}
			if z >= 2 {
				cls = append(cls, "sig:leading_zero_bytes>=2")
			}
			if i%stride == 0 || (z >= 2 && full < 4*rep.Scale(30, 150)) {
				full++
				cls = append(cls, "volume_full_reference")
				sg := I.newSig()
				if nn, err := sg.SetBytes(sig); err != nil || nn != 2*sz || !bytes.Equal(sg.Bytes(), sig) {
					t.Fatalf("%s: Signature.SetBytes(honest) = (%d, %v): sig=%x", test, nn, err, sig)
				}
				d := sha256.Sum256(msg)
				if v := I.refVerify(Q, sig, I.h2i(d[:])); !v.ok {
					t.Fatalf("%s: honest signature fails the textbook equation (%s): message %d sig=%x", test, v.why, i, sig)
				}
			}
			rep.Case(test, fmt.Sprintf("%s key=%q msg=%x", I.name, keySeed, msg), true, cls...)
		}
		rep.Note(test, fmt.Sprintf("N=%d messages over all shards (this process: %d..%d), P(r or s has >=2 leading zero bytes)=1/%.0f, expected over all shards %.1f (P(none)=%.2g)", N, lo, hi, 1/p, float64(N)*p, math.Exp(-float64(N)*p)))
		t.Logf("%s: N=%d >=1:%d >=2:%d full=%d", test, N, lz1, lz2, full)
	})
}
