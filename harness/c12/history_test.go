package c12

import (
	"bytes"
	"fmt"
	stdhash "hash"
	"math/big"
	"testing"

	"github.com/consensys/gnark-crypto/signature"

	"pgregory.net/rapid"

	"verif/harness/internal/rep"
)

// History dimension: ONE hash.Hash object shared by a sequence of Sign / Verify / SignForRecover
// calls, interleaved with caller-side Write(junk), Sum and Reset on that object. Sign and Verify of
// every package reset the hash before use (no doc comment asks the caller to do so), hence:
// every Sign output must verify under a FRESH hash object and satisfy the reference equation, and
// every Verify verdict must equal the verdict with a fresh object and the reference verdict.

type histOps struct {
	name    string
	hashes  []hspec
	genKey  func(seed []byte) signature.Signer
	newPK   func() signature.PublicKey
	ref     func(pkb, sig, msg []byte, hs hspec) verdict
	recover func(t *rapid.T, test string, sk signature.Signer, pkb, msg []byte, hs hspec, h stdhash.Hash) []byte // nil if the package has no SignForRecover
}

type histSig struct{ sig, msg []byte }

func propHistory(t *rapid.T, S histOps) {
	test := "C12_History/" + S.name
	seed := rapid.SliceOfN(rapid.Byte(), 1, 8).Draw(t, "seed")
	sk := S.genKey(seed)
	pkb := append([]byte{}, sk.Public().Bytes()...)
	pk := S.newPK()
	if _, err := pk.SetBytes(append([]byte{}, pkb...)); err != nil {
		t.Fatalf("%s: SetBytes(public key): %v", test, err)
	}
	hs := pickFrom(t, S.hashes, "hash")
	h := hs.new() // the shared object
	classes := []string{"history:shared_hash_object", "hash:" + hs.name}
	var pool []histSig
	var trace []string
	prev := "fresh"

	junk := func(lab string) []byte {
		if hs.mimc != nil {
			for {
				m, cls := drawMiMCMsg(t, hs.mimc, lab)
				if cls != "noncanonical_block" && cls != "empty" {
					return m
				}
				lab += "'"
			}
		}
		return rapid.SliceOfN(rapid.Byte(), 1, 150).Draw(t, lab)
	}
	checkSigned := func(what string, sig, msg []byte) {
		if ok, err := pk.Verify(sig, msg, hs.new()); !ok || err != nil {
			t.Fatalf("%s: history %v: %s on the shared %s object produced a signature that is rejected with a fresh hash object (%v,%v)\nmsg=%x sig=%x",
				test, trace, what, hs.name, ok, err, msg, sig)
		}
		if v := S.ref(pkb, sig, msg, hs); !v.ok && v.why != "exceptional" {
			t.Fatalf("%s: history %v: %s on the shared %s object produced a signature that fails the reference equation (%s)\nmsg=%x sig=%x",
				test, trace, what, hs.name, v.why, msg, sig)
		}
		pool = append(pool, histSig{sig, msg})
		switch prev {
		case "verify", "verify_inadmissible":
			classes = append(classes, "history:verify_then_sign")
		case "junk", "sign_inadmissible":
			classes = append(classes, "history:dirty_hash_before_sign")
		case "sign", "sign_for_recover":
			classes = append(classes, "history:sign_then_sign")
		}
	}

	steps := []string{"sign", "sign", "verify", "verify", "verify_mutated", "junk", "junk", "reset", "sum", "sign_for_recover", "verify_malformed", "verify_inadmissible", "sign_inadmissible"}
	n := rapid.IntRange(1, 5).Draw(t, "nsteps")
	plan := make([]string, 0, n+6)
	plan = append(plan, "sign") // on the fresh object; gives the verify steps something to verify
	for i := 0; i < n; i++ {
		plan = append(plan, pickFrom(t, steps, fmt.Sprintf("st%d", i)))
	}
	// always close with the two orders that matter most
	if rapid.Bool().Draw(t, "tail") {
		plan = append(plan, "sign", "verify", "sign", "junk", "sign")
	} else {
		plan = append(plan, "junk", "sign", "verify", "sign")
	}
	for si, step := range plan {
		lab := fmt.Sprintf("p%d", si)
		trace = append(trace, step)
		switch step {
		case "sign", "sign_for_recover":
			var msg []byte
			for { // admissible message
				m, _ := hs.drawMsg(t, lab+"m")
				if _, err := hs.sum(m); err == nil {
					msg = m
					break
				}
				lab += "'"
			}
			if step == "sign_for_recover" && S.recover != nil {
				sig := S.recover(t, test, sk, pkb, msg, hs, h)
				checkSigned("SignForRecover", sig, msg)
				classes = append(classes, "hstep:sign_for_recover")
			} else {
				step = "sign"
				trace[len(trace)-1] = step
				sig, err := sk.Sign(msg, h)
				if err != nil {
					t.Fatalf("%s: history %v: Sign failed: %v", test, trace, err)
				}
				checkSigned("Sign", sig, msg)
				classes = append(classes, "hstep:sign")
			}
		case "sign_inadmissible": // MiMC: a block >= q; Sign must fail and may leave the object dirty
			if hs.mimc == nil {
				continue
			}
			var msg []byte
			for {
				m, cls := drawMiMCMsg(t, hs.mimc, lab+"m")
				if cls == "noncanonical_block" {
					msg = m
					break
				}
				lab += "'"
			}
			if _, err := sk.Sign(msg, h); err == nil {
				t.Fatalf("%s: history %v: Sign accepted a message MiMC documents as an error", test, trace)
			}
			classes = append(classes, "hstep:sign_inadmissible")
		case "verify", "verify_mutated", "verify_malformed", "verify_inadmissible":
			if len(pool) == 0 {
				trace = trace[:len(trace)-1]
				continue
			}
			c := pool[rapid.IntRange(0, len(pool)-1).Draw(t, lab+"i")]
			sig, msg := append([]byte{}, c.sig...), append([]byte{}, c.msg...)
			switch step {
			case "verify_mutated":
				if rapid.Bool().Draw(t, lab+"which") || len(msg) == 0 {
					sig = flipBit(sig, rapid.IntRange(0, 8*len(sig)-1).Draw(t, lab+"bit"))
				} else {
					msg, _ = hs.mutateMsg(t, msg, lab+"mm")
				}
			case "verify_malformed":
				sig = sig[:len(sig)-1]
			case "verify_inadmissible":
				if hs.mimc == nil {
					trace = trace[:len(trace)-1]
					continue
				}
				B := hs.block
				bad := make([]byte, B)
				for i := range bad {
					bad[i] = 0xff
				}
				msg = cat(drawFieldBlock(t, hs.mimc.F.Q, B, lab+"b"), bad)
			}
			want := S.ref(pkb, sig, msg, hs)
			if want.why == "exceptional" {
				trace = trace[:len(trace)-1]
				continue
			}
			got, err := pk.Verify(sig, msg, h)
			gotF, errF := pk.Verify(sig, msg, hs.new())
			if got != gotF || (err == nil) != (errF == nil) {
				t.Fatalf("%s: history %v: Verify on the shared %s object = (%v,%v), with a fresh object (%v,%v)\nmsg=%x sig=%x", test, trace, hs.name, got, err, gotF, errF, msg, sig)
			}
			switch {
			case want.malformed:
				if got || err == nil {
					t.Fatalf("%s: history %v: malformed input (%s) must give (false, error), got (%v,%v)", test, trace, want.why, got, err)
				}
			case err != nil || got != want.ok:
				t.Fatalf("%s: history %v: Verify on the shared object = (%v,%v), reference says %v (%s)\nmsg=%x sig=%x", test, trace, got, err, want.ok, want.why, msg, sig)
			}
			classes = append(classes, "hstep:"+step)
		case "junk": // the caller used the object for something else
			if _, err := h.Write(junk(lab + "j")); err != nil {
				t.Fatalf("%s: harness error: junk write failed: %v", test, err)
			}
			classes = append(classes, "hstep:caller_write")
		case "reset":
			h.Reset()
			classes = append(classes, "hstep:caller_reset")
		case "sum":
			h.Sum(nil)
			classes = append(classes, "hstep:caller_sum")
		}
		prev = step
	}
	rep.Case(test, fmt.Sprintf("%s seed=%x hash=%s plan=%v", S.name, seed, hs.name, trace), true, classes...)
}

func ecdsaHist(I *ecdsaInst) histOps {
	S := histOps{
		name:   "ecdsa/" + I.name,
		hashes: I.hashes[1:], // without the nil hash
		genKey: ecdsaOps(I).genKey,
		newPK:  I.newPK,
		ref: func(pkb, sig, msg []byte, hs hspec) verdict {
			pk := I.newPK()
			if _, err := pk.SetBytes(append([]byte{}, pkb...)); err != nil {
				return verdict{malformed: true, why: err.Error()}
			}
			d, ok := I.digestOf(hs, msg)
			if !ok {
				// the signature string is looked at first; both are errors
				return verdict{malformed: true, why: "message not admissible for the hash"}
			}
			return I.refVerify(I.pkPoint(pk), sig, I.h2i(d))
		},
	}
	if I.recov {
		S.recover = func(t *rapid.T, test string, sk signature.Signer, pkb, msg []byte, hs hspec, h stdhash.Hash) []byte {
			v, r, s, err := sk.(recoverSigner).SignForRecover(msg, h)
			if err != nil {
				t.Fatalf("%s: SignForRecover on the shared hash object: %v", test, err)
			}
			d, _ := I.digestOf(hs, msg)
			rec := I.newPK()
			if err := rec.(recoverer).RecoverFrom(d, v, new(big.Int).Set(r), new(big.Int).Set(s)); err != nil || !bytes.Equal(rec.Bytes(), pkb) {
				t.Fatalf("%s: SignForRecover on the shared %s object: RecoverFrom(digest of the message) does not give the signer key (err=%v) msg=%x", test, hs.name, err, msg)
			}
			return I.sigBytes(r, s)
		}
	}
	return S
}

func eddsaHist(I *eddsaInst) histOps {
	return histOps{
		name:   "eddsa/" + I.name,
		hashes: I.hashes[1:], // mimc, sha256, sha512
		genKey: eddsaOps(I).genKey,
		newPK:  I.newPK,
		ref: func(pkb, sig, msg []byte, hs hspec) verdict {
			A, why := I.decPoint(pkb)
			if why != "" {
				return verdict{malformed: true, why: why}
			}
			return I.refVerify(A, sig, msg, hs)
		},
	}
}

func TestC12_History_ECDSA(t *testing.T) {
	forECDSA(t, func(t *testing.T, I *ecdsaInst) {
		S := ecdsaHist(I)
		rapid.Check(t, func(t *rapid.T) { propHistory(t, S) })
	})
}

func TestC12_History_EdDSA(t *testing.T) {
	forEdDSA(t, func(t *testing.T, I *eddsaInst) {
		S := eddsaHist(I)
		rapid.Check(t, func(t *rapid.T) { propHistory(t, S) })
	})
}
