package c12

import (
	"bytes"
	"fmt"
	stdhash "hash"
	"io"
	"math/big"
	"sync"
	"testing"

	"github.com/consensys/gnark-crypto/signature"

	"pgregory.net/rapid"

	"verif/harness/internal/inst"
	"verif/harness/internal/ref"
	"verif/harness/internal/reg"
	"verif/harness/internal/rep"
)

// ---- instance ---------------------------------------------------------------------------------

type ecdsaInst struct {
	name                  string
	c                     *inst.Curve
	G                     *inst.Group
	E                     *ref.Curve
	pkg                   *reg.Pkg
	n, p                  *big.Int
	sizeFr, sizeFp, pkLen int
	raw                   bool // secp256k1: public keys are raw x||y, elsewhere compressed G1 points
	cofactorOne           bool
	recov                 bool
	h2i                   func([]byte) *big.Int
	hashes                []hspec
}

type recoverSigner interface {
	SignForRecover(message []byte, hFunc stdhash.Hash) (v uint, r, s *big.Int, err error)
}
type recoverer interface {
	RecoverFrom(msg []byte, v uint, r, s *big.Int) error
}
type byteCodec interface {
	Bytes() []byte
	SetBytes([]byte) (int, error)
}

var (
	ecdsaMu    sync.Mutex
	ecdsaCache = map[string]*ecdsaInst{}
)

func getECDSA(name string) *ecdsaInst {
	ecdsaMu.Lock()
	defer ecdsaMu.Unlock()
	if I, ok := ecdsaCache[name]; ok {
		return I
	}
	c := inst.GetCurve(name)
	I := &ecdsaInst{name: name, c: c, G: c.G1, E: c.G1.E, pkg: reg.Get("ecc/" + name + "/ecdsa"), n: c.R, p: c.P}
	I.sizeFr = (c.R.BitLen() + 63) / 64 * 8
	I.sizeFp = (c.P.BitLen() + 63) / 64 * 8
	I.raw = name == "secp256k1"
	I.pkLen = I.sizeFp
	if I.raw {
		I.pkLen = 2 * I.sizeFp
	}
	switch name {
	case "bn254", "secp256k1", "stark-curve", "grumpkin":
		I.cofactorOne = true
	}
	I.h2i = I.pkg.Funcs["HashToInt"].Interface().(func([]byte) *big.Int)
	_, I.recov = I.pkg.New("PublicKey").(recoverer)
	I.hashes = []hspec{{name: "nil", block: I.sizeFr}, shaSpec("sha256"), shaSpec("sha512")}
	if m, ok := mimcSpec(name); ok {
		I.hashes = append(I.hashes, m)
	}
	ecdsaCache[name] = I
	return I
}

func (I *ecdsaInst) genKey(rd io.Reader) (signature.Signer, error) {
	res := I.pkg.F("GenerateKey", rd)
	if err := reg.Err(res); err != nil {
		return nil, err
	}
	return res[0].(signature.Signer), nil
}
func (I *ecdsaInst) newPK() signature.PublicKey { return I.pkg.New("PublicKey").(signature.PublicKey) }
func (I *ecdsaInst) newSK() signature.Signer    { return I.pkg.New("PrivateKey").(signature.Signer) }
func (I *ecdsaInst) newSig() byteCodec          { return I.pkg.New("Signature").(byteCodec) }
func (I *ecdsaInst) pkPoint(pk signature.PublicKey) ref.Pt {
	return I.G.ToRef(reg.Field(pk, "A"))
}

// encPoint encodes any affine pair (not necessarily on the curve) the way public keys are encoded,
// through the library's point encoder; the *decoder* is what is under test.
func (I *ecdsaInst) encPoint(P ref.Pt) []byte {
	a := I.G.FromRef(P)
	if I.raw {
		return arrBytes(reg.M(a, "RawBytes")[0])
	}
	return arrBytes(reg.M(a, "Bytes")[0])
}

func (I *ecdsaInst) x(P ref.Pt) *big.Int { return P.X[0] }

// fipsBits2Int is FIPS 186-4 §6.4 / SEC 1 §4.1.3 step 5: the leftmost min(bitlen(n), 8·len) bits.
func fipsBits2Int(h []byte, nbits int) *big.Int {
	v := new(big.Int).SetBytes(h)
	if 8*len(h) > nbits {
		v.Rsh(v, uint(8*len(h)-nbits))
	}
	return v
}

// inF13Class is the structural class of DESIGN F13: after cutting the hash to the byte size of the
// order, more bits remain than the order has, and the first of them is zero.
func (I *ecdsaInst) inF13Class(h []byte) bool {
	if len(h) > I.sizeFr {
		h = h[:I.sizeFr]
	}
	return 8*len(h) > I.n.BitLen() && len(h) > 0 && h[0]&0x80 == 0
}

// ---- the oracle: SEC 1 §4.1.4 -------------------------------------------------------------------

type verdict struct {
	malformed bool // the signature string is not a pair 0 < r,s < n of the right size
	ok        bool
	why       string
}

func (I *ecdsaInst) refVerify(Q ref.Pt, sig []byte, e *big.Int) verdict {
	if len(sig) != 2*I.sizeFr {
		return verdict{malformed: true, why: "length"}
	}
	r := new(big.Int).SetBytes(sig[:I.sizeFr])
	s := new(big.Int).SetBytes(sig[I.sizeFr:])
	if r.Sign() == 0 || r.Cmp(I.n) >= 0 {
		return verdict{malformed: true, why: "r out of range"}
	}
	if s.Sign() == 0 || s.Cmp(I.n) >= 0 {
		return verdict{malformed: true, why: "s out of range"}
	}
	w := new(big.Int).ModInverse(s, I.n)
	u1 := new(big.Int).Mul(e, w)
	u1.Mod(u1, I.n)
	u2 := new(big.Int).Mul(r, w)
	u2.Mod(u2, I.n)
	R := I.E.Add(I.E.Mul(u1, I.G.Gen), I.E.Mul(u2, Q))
	if R.Inf {
		return verdict{why: "R=O"}
	}
	v := new(big.Int).Mod(I.x(R), I.n)
	if v.Cmp(r) == 0 {
		return verdict{ok: true, why: "x(R) mod n = r"}
	}
	return verdict{why: "x(R) mod n != r"}
}

// check runs the library verifier and the oracle on one candidate and records the case.
func (I *ecdsaInst) check(t *rapid.T, test string, pk signature.PublicKey, Q ref.Pt, sig, msg []byte, hs hspec, nontrivial bool, expect string, classes ...string) {
	key := fmt.Sprintf("%s h=%s Q=%s sig=%x msg=%x", I.name, hs.name, I.E.Str(Q), sig, msg)
	digest := msg
	inadmissible := false
	if hs.new != nil {
		d, err := hs.sum(msg)
		if err != nil {
			inadmissible = true
		}
		digest = d
	}
	var want verdict
	if inadmissible {
		want = verdict{malformed: true, why: "message not admissible for the hash"}
		classes = append(classes, "msg_inadmissible")
	} else {
		e := I.h2i(digest)
		if e.Cmp(fipsBits2Int(digest, I.n.BitLen())) != 0 {
			classes = append(classes, "e_differs_from_fips(F13)")
		}
		want = I.refVerify(Q, sig, e)
	}
	got, err := pk.Verify(sig, msg, hs.lib())
	// the signature codec on the same string: decodes iff 0 < r,s < n and the size is exact
	sigOK := !I.refVerify(ref.Pt{Inf: true}, sig, bi(0)).malformed
	sg := I.newSig()
	if nn, serr := sg.SetBytes(sig); sigOK != (serr == nil) {
		t.Fatalf("%s: Signature.SetBytes err=%v but well-formed=%v\n%s", test, serr, sigOK, key)
	} else if sigOK && (nn != 2*I.sizeFr || !bytes.Equal(sg.Bytes(), sig)) {
		t.Fatalf("%s: Signature.SetBytes consumed %d of %d bytes / re-encodes as %x\n%s", test, nn, len(sig), sg.Bytes(), key)
	} else if !sigOK && nn != 0 {
		t.Fatalf("%s: Signature.SetBytes failed (%v) but reports %d bytes read\n%s", test, serr, nn, key)
	}
	switch {
	case want.malformed:
		classes = append(classes, "verdict:error")
		if err == nil || got {
			t.Fatalf("%s: malformed input (%s) must give (false, error), got (%v, %v)\n%s", test, want.why, got, err, key)
		}
	case err != nil:
		t.Fatalf("%s: well-formed input gave error %v (reference: ok=%v %s)\n%s", test, err, want.ok, want.why, key)
	case got != want.ok:
		t.Fatalf("%s: Verify=%v but the textbook equation says %v (%s)\n%s", test, got, want.ok, want.why, key)
	case got:
		classes = append(classes, "verdict:accept")
	default:
		classes = append(classes, "verdict:reject")
	}
	switch expect { // construction sanity: the generator meant this class to be valid / invalid
	case "accept":
		if !want.ok {
			t.Fatalf("%s: harness error: class %v was constructed valid but the reference says %+v\n%s", test, classes, want, key)
		}
	case "error":
		if !want.malformed {
			t.Fatalf("%s: harness error: class %v was constructed malformed but the reference says %+v\n%s", test, classes, want, key)
		}
	case "reject":
		if want.ok {
			t.Fatalf("%s: harness error: class %v was constructed invalid but the reference accepts\n%s", test, classes, key)
		}
	}
	rep.Case(test, key, nontrivial, append(classes, "hash:"+hs.name)...)
}

// refSign builds (r,s) for nonce k; ok=false in the (negligible) cases r=0 or s=0.
func (I *ecdsaInst) refSign(d, e, k *big.Int) (r, s *big.Int, R ref.Pt, ok bool) {
	R = I.E.Mul(k, I.G.Gen)
	if R.Inf {
		return nil, nil, R, false
	}
	r = new(big.Int).Mod(I.x(R), I.n)
	s = new(big.Int).Mul(d, r)
	s.Add(s, e)
	s.Mul(s, new(big.Int).ModInverse(k, I.n))
	s.Mod(s, I.n)
	return r, s, R, r.Sign() != 0 && s.Sign() != 0
}

func (I *ecdsaInst) sigBytes(r, s *big.Int) []byte { return cat(be(r, I.sizeFr), be(s, I.sizeFr)) }

var ecdsaSigClasses = []string{
	"sig_bitflip", "sig_bitflip", "sig_bitflip", "sig_bitflip", "sig_bitflip", "sig_byte", "r_zero", "s_zero", "r_eq_n", "s_eq_n", "r_n_plus_1", "s_n_plus_1",
	"r_high_bits", "s_high_bits", "r_all_ff", "s_all_ff", "swapped_halves", "s_negated", "r_negated", "r_plus_n", "s_plus_n",
	"len_minus_1", "len_plus_1", "len_zero", "len_double", "len_half", "R_infinity",
	"msg_mutated", "msg_mutated", "msg_mutated", "msg_other", "hash_mismatch",
	"pk_other", "pk_negated", "pk_bitflip", "pk_bitflip", "pk_bitflip", "pk_infinity", "pk_offcurve", "pk_not_in_subgroup", "pk_short", "pk_trailing",
	"xR_ge_n", "xR_ge_n", "xR_ge_n", "xR_ge_n",
}

func (I *ecdsaInst) digestOf(hs hspec, msg []byte) ([]byte, bool) {
	if hs.new == nil {
		return msg, true
	}
	d, err := hs.sum(msg)
	return d, err == nil
}

// setPK decodes a public key; on success it checks that the decoder only lets through canonical
// encodings of subgroup points (reference check) and returns the decoded point.
func (I *ecdsaInst) setPK(t *rapid.T, test string, b []byte, checkSubgroup bool) (signature.PublicKey, ref.Pt, error) {
	pk := I.newPK()
	n, err := pk.SetBytes(b)
	if err != nil {
		if n != 0 {
			t.Fatalf("%s: PublicKey.SetBytes(%x) failed (%v) but reports %d bytes read", test, b, err, n)
		}
		return nil, ref.Pt{}, err
	}
	if n != I.pkLen {
		t.Fatalf("%s: PublicKey.SetBytes consumed %d bytes, the encoding has %d", test, n, I.pkLen)
	}
	Q := I.pkPoint(pk)
	if !I.E.OnCurve(Q) {
		t.Fatalf("%s: PublicKey.SetBytes(%x) accepted a point that is not on the curve: %s", test, b, I.E.Str(Q))
	}
	if checkSubgroup && !I.cofactorOne && !I.E.Mul(I.n, Q).Inf {
		t.Fatalf("%s: PublicKey.SetBytes(%x) accepted a point outside the subgroup of order n", test, b)
	}
	if back := pk.Bytes(); !bytes.Equal(back, b[:I.pkLen]) {
		t.Fatalf("%s: PublicKey.SetBytes accepted a non-canonical encoding %x (re-encodes as %x)", test, b[:I.pkLen], back)
	}
	return pk, Q, nil
}

// ---- main property ------------------------------------------------------------------------------

func propECDSA(t *rapid.T, I *ecdsaInst) {
	test := "C12_ECDSA/" + I.name
	E, n := I.E, I.n
	rd, rdesc := drawReader(t, "key")
	sk, err := I.genKey(rd)
	must(t, err, "GenerateKey")
	keyMode := rapid.SampledFrom([]string{"key:generated", "key:from_bytes"}).Draw(t, "keymode")
	if keyMode == "key:from_bytes" {
		b := sk.Bytes()
		sk2 := I.newSK()
		nn, err := sk2.SetBytes(b)
		must(t, err, "PrivateKey.SetBytes(Bytes())")
		if nn != len(b) || nn != I.pkLen+I.sizeFr || !bytes.Equal(sk2.Bytes(), b) {
			t.Fatalf("%s: PrivateKey round trip: consumed %d of %d bytes, re-encoding equal=%v", test, nn, len(b), bytes.Equal(sk2.Bytes(), b))
		}
		sk = sk2
	}
	skb := sk.Bytes()
	if len(skb) != I.pkLen+I.sizeFr {
		t.Fatalf("%s: private key encoding has %d bytes, want %d", test, len(skb), I.pkLen+I.sizeFr)
	}
	d := new(big.Int).SetBytes(skb[I.pkLen:])
	pk := sk.Public()
	pkb := pk.Bytes()
	if !bytes.Equal(pkb, skb[:I.pkLen]) {
		t.Fatalf("%s: PrivateKey.Bytes() does not start with the public key encoding", test)
	}
	Q := I.pkPoint(pk)
	if d.Sign() <= 0 || d.Cmp(n) >= 0 {
		t.Fatalf("%s: generated secret scalar %s outside [1,n-1] (reader %s)", test, d, rdesc)
	}
	if !E.Eq(Q, E.Mul(d, I.G.Gen)) {
		t.Fatalf("%s: generated public key is not [d]G (reader %s, d=%s)", test, rdesc, d)
	}
	// the public key from its own bytes is the key used below (deserialised verifier key)
	pk2, Q2, err := I.setPK(t, test, pkb, false)
	must(t, err, "PublicKey.SetBytes(Bytes())")
	if !pk2.Equal(pk) || !pk.Equal(pk2) || !E.Eq(Q, Q2) {
		t.Fatalf("%s: public key changed through Bytes/SetBytes", test)
	}
	if keyMode == "key:from_bytes" {
		pk = pk2
	}

	hs := pickFrom(t, I.hashes, "hash")
	msg, mcls := hs.drawMsg(t, "msg")
	base := []string{keyMode, "msg:" + mcls}
	ntBase := keyMode == "key:from_bytes" || mcls == "empty" || mcls == "longer_than_block" || mcls == "multi_block"
	digest, admissible := I.digestOf(hs, msg)

	// honest, signed by the library (nonce from crypto/rand: only the verdict is used)
	sigL, err := sk.Sign(msg, hs.lib())
	if !admissible {
		if err == nil {
			t.Fatalf("%s: Sign accepted a message that MiMC.Write documents as an error (%x)", test, msg)
		}
		I.check(t, test, pk, Q, make([]byte, 2*I.sizeFr), msg, hs, true, "error", append(base, "msg_inadmissible_sign_error")...)
		return
	}
	must(t, err, "Sign")
	{
		sg := I.newSig()
		nn, err := sg.SetBytes(sigL)
		must(t, err, "Signature.SetBytes(honest)")
		if nn != 2*I.sizeFr || len(sigL) != nn || !bytes.Equal(sg.Bytes(), sigL) {
			t.Fatalf("%s: Signature round trip: consumed %d, len %d", test, nn, len(sigL))
		}
		e := I.h2i(digest)
		if v := I.refVerify(Q, sigL, e); !v.ok {
			t.Fatalf("%s: library signature does not satisfy the textbook equation (%s): sig=%x msg=%x h=%s d=%s", test, v.why, sigL, msg, hs.name, d)
		}
		if ok, err := pk.Verify(sigL, msg, hs.lib()); err != nil || !ok {
			t.Fatalf("%s: honest signature rejected: (%v,%v) sig=%x msg=%x h=%s d=%s", test, ok, err, sigL, msg, hs.name, d)
		}
		// the key does not include the (non-deterministic) signature bytes
		rep.Case(test, fmt.Sprintf("%s honest_lib h=%s d=%s msg=%x", I.name, hs.name, d, msg), ntBase, append(base, "honest_lib", "verdict:accept", "hash:"+hs.name)...)
	}

	// honest, signed by the reference with a drawn nonce (deterministic basis for all mutations)
	e := I.h2i(digest)
	k := drawScalar(t, n, "nonce")
	r, s, _, ok := I.refSign(d, e, k)
	if !ok {
		return
	}
	sig := I.sigBytes(r, s)
	I.check(t, test, pk, Q, sig, msg, hs, ntBase, "accept", append(base, "honest_ref")...)

	nc := rapid.IntRange(7, 11).Draw(t, "ncand")
	for ci := 0; ci < nc; ci++ {
		lab := fmt.Sprintf("c%d", ci)
		cls := pickFrom(t, ecdsaSigClasses, lab)
		cand := append([]byte{}, sig...)
		cmsg, chs, cpk, cQ := msg, hs, pk, Q
		expect := ""
		extra := []string{}
		setR := func(v *big.Int) bool {
			if !fits(v, I.sizeFr) {
				return false
			}
			copy(cand[:I.sizeFr], be(v, I.sizeFr))
			return true
		}
		setS := func(v *big.Int) bool {
			if !fits(v, I.sizeFr) {
				return false
			}
			copy(cand[I.sizeFr:], be(v, I.sizeFr))
			return true
		}
		skip := false
		switch cls {
		case "sig_bitflip":
			cand = flipBit(cand, rapid.IntRange(0, 8*len(cand)-1).Draw(t, lab+"bit"))
		case "sig_byte":
			i := rapid.IntRange(0, len(cand)-1).Draw(t, lab+"i")
			cand[i] ^= byte(rapid.IntRange(1, 255).Draw(t, lab+"x"))
		case "r_zero":
			setR(bi(0))
			expect = "error"
		case "s_zero":
			setS(bi(0))
			expect = "error"
		case "r_eq_n":
			skip = !setR(n)
			expect = "error"
		case "s_eq_n":
			skip = !setS(n)
			expect = "error"
		case "r_n_plus_1":
			skip = !setR(new(big.Int).Add(n, bi(1)))
			expect = "error"
		case "s_n_plus_1":
			skip = !setS(new(big.Int).Add(n, bi(1)))
			expect = "error"
		case "r_high_bits":
			cand[0] |= 0x80
		case "s_high_bits":
			cand[I.sizeFr] |= 0x80
		case "r_all_ff":
			for i := 0; i < I.sizeFr; i++ {
				cand[i] = 0xff
			}
			expect = "error"
		case "s_all_ff":
			for i := I.sizeFr; i < 2*I.sizeFr; i++ {
				cand[i] = 0xff
			}
			expect = "error"
		case "swapped_halves":
			cand = I.sigBytes(s, r)
		case "s_negated": // (r, n-s) satisfies the textbook equation as well; no low-s rule is documented
			setS(new(big.Int).Sub(n, s))
			expect = "accept"
		case "r_negated":
			setR(new(big.Int).Sub(n, r))
		case "r_plus_n":
			skip = !setR(new(big.Int).Add(r, n))
			expect = "error"
		case "s_plus_n":
			skip = !setS(new(big.Int).Add(s, n))
			expect = "error"
		case "len_minus_1":
			cand = cand[:len(cand)-1]
			expect = "error"
		case "len_plus_1":
			cand = append(cand, rapid.Byte().Draw(t, lab+"b"))
			expect = "error"
		case "len_zero":
			cand = []byte{}
			expect = "error"
		case "len_double":
			cand = cat(cand, cand)
			expect = "error"
		case "len_half":
			cand = cand[:I.sizeFr]
			expect = "error"
		case "R_infinity": // r = -e/d makes [e/s]G + [r/s]Q the point at infinity for every s
			rr := new(big.Int).Mul(e, new(big.Int).ModInverse(d, n))
			rr.Neg(rr).Mod(rr, n)
			if rr.Sign() == 0 {
				skip = true
				break
			}
			setR(rr)
			expect = "reject"
		case "msg_mutated":
			var kind string
			cmsg, kind = hs.mutateMsg(t, msg, lab+"m")
			extra = append(extra, kind)
		case "msg_other":
			cmsg, _ = hs.drawMsg(t, lab+"m")
		case "hash_mismatch":
			chs = pickFrom(t, I.hashes, lab+"h")
			if chs.mimc != nil && hs.mimc == nil { // keep the message inside MiMC's documented domain
				if _, err := chs.sum(msg); err != nil || (len(msg) > chs.block && len(msg)%chs.block != 0) {
					skip = true
				}
			}
			if chs.name == hs.name {
				skip = true
			}
		case "pk_other":
			rd2, _ := drawReader(t, lab+"key")
			sk2, err := I.genKey(rd2)
			must(t, err, "GenerateKey")
			cpk = sk2.Public()
			cQ = I.pkPoint(cpk)
		case "pk_negated":
			var err error
			cpk, cQ, err = I.setPK(t, test, I.encPoint(E.Neg(Q)), false)
			must(t, err, "PublicKey.SetBytes(-Q)") // (valid again when e = 0: the reference decides)
		case "pk_bitflip":
			b := flipBit(pkb, rapid.IntRange(0, 8*len(pkb)-1).Draw(t, lab+"bit"))
			var err error
			cpk, cQ, err = I.setPK(t, test, b, true)
			if I.raw { // reference decoder for the raw encoding: both coordinates canonical and on the curve
				x, y := new(big.Int).SetBytes(b[:I.sizeFp]), new(big.Int).SetBytes(b[I.sizeFp:])
				valid := x.Cmp(I.p) < 0 && y.Cmp(I.p) < 0 && (x.Sign() == 0 && y.Sign() == 0 || E.OnCurve(ref.Pt{X: ref.V{x}, Y: ref.V{y}}))
				if valid != (err == nil) {
					t.Fatalf("%s: PublicKey.SetBytes(%x): err=%v but the reference decoder says valid=%v", test, b, err, valid)
				}
			}
			if err != nil {
				rep.Case(test, fmt.Sprintf("%s pk=%x", I.name, b), true, append(base, cls, "pk_rejected")...)
				continue
			}
			extra = append(extra, "pk_mutant_accepted")
		case "pk_infinity":
			b := I.encPoint(ref.Pt{Inf: true})
			var err error
			cpk, cQ, err = I.setPK(t, test, b, false)
			if err != nil { // a decoder that refuses the point at infinity is fine
				rep.Case(test, fmt.Sprintf("%s pk=%x", I.name, b), true, append(base, cls, "pk_rejected")...)
				continue
			}
			// Q = O is not excluded by any doc comment: only agreement with the equation is asserted.
			// With Q = O the equation reads x([e/s]G) mod n = r, which anybody can satisfy:
			rep.Note(test, "PublicKey.SetBytes accepts the encoding of the point at infinity; for that key the textbook equation is satisfiable without a secret (asserted: Verify agrees with the equation)")
			if rapid.Bool().Draw(t, lab+"forge") {
				ss := drawScalar(t, n, lab+"s")
				w := new(big.Int).ModInverse(ss, n)
				u1 := new(big.Int).Mul(e, w)
				R := E.Mul(u1.Mod(u1, n), I.G.Gen)
				if R.Inf {
					skip = true
					break
				}
				rr := new(big.Int).Mod(I.x(R), n)
				if rr.Sign() == 0 {
					skip = true
					break
				}
				cand = I.sigBytes(rr, ss)
				expect = "accept"
				extra = append(extra, "pk_infinity_forged")
			}
		case "pk_offcurve":
			var b []byte
			if I.raw {
				y := new(big.Int).Add(Q.Y[0], bi(int64(rapid.IntRange(1, 5).Draw(t, lab+"dy"))))
				b = I.encPoint(ref.Pt{X: Q.X, Y: ref.V{y.Mod(y, I.p)}})
			} else { // compressed: an abscissa without a point
				x := new(big.Int).Set(Q.X[0])
				for {
					x.Add(x, bi(1)).Mod(x, I.p)
					if _, ok := E.LiftX(ref.V{x}); !ok {
						break
					}
				}
				b = I.encPoint(ref.Pt{X: ref.V{x}, Y: Q.Y})
			}
			if _, _, err := I.setPK(t, test, b, true); err == nil {
				t.Fatalf("%s: PublicKey.SetBytes accepted an off-curve point: %x", test, b)
			}
			rep.Case(test, fmt.Sprintf("%s pk=%x", I.name, b), true, append(base, cls, "pk_rejected")...)
			continue
		case "pk_not_in_subgroup":
			if I.cofactorOne {
				skip = true
				break
			}
			x := new(big.Int).SetBytes(rapid.SliceOfN(rapid.Byte(), I.sizeFp, I.sizeFp).Draw(t, lab+"x"))
			x.Mod(x, I.p)
			var P ref.Pt
			for {
				var ok bool
				if P, ok = E.LiftX(ref.V{x}); ok && !E.Mul(n, P).Inf {
					break
				}
				x.Add(x, bi(1)).Mod(x, I.p)
			}
			b := I.encPoint(P)
			if _, _, err := I.setPK(t, test, b, true); err == nil {
				t.Fatalf("%s: PublicKey.SetBytes accepted a curve point outside the order-n subgroup: %x", test, b)
			}
			rep.Case(test, fmt.Sprintf("%s pk=%x", I.name, b), true, append(base, cls, "pk_rejected")...)
			continue
		case "pk_short":
			b := pkb[:rapid.IntRange(0, len(pkb)-1).Draw(t, lab+"n")]
			var nn int
			var err error
			func() {
				defer func() {
					if p := recover(); p != nil {
						t.Fatalf("%s: PublicKey.SetBytes panicked on a %d-byte buffer: %v", test, len(b), p)
					}
				}()
				nn, err = I.newPK().SetBytes(b)
			}()
			if err == nil || nn != 0 {
				t.Fatalf("%s: PublicKey.SetBytes of a short buffer (%d bytes): n=%d err=%v", test, len(b), nn, err)
			}
			rep.Case(test, fmt.Sprintf("%s pk=%x", I.name, b), true, append(base, cls, "pk_rejected")...)
			continue
		case "pk_trailing": // a longer buffer: exactly the key is consumed
			b := cat(pkb, rapid.SliceOfN(rapid.Byte(), 1, 40).Draw(t, lab+"tail"))
			var err error
			cpk, cQ, err = I.setPK(t, test, b, false)
			must(t, err, "PublicKey.SetBytes(key||tail)")
			if !E.Eq(cQ, Q) {
				t.Fatalf("%s: trailing bytes changed the decoded key", test)
			}
			expect = "accept"
		case "xR_ge_n":
			// A valid triple whose commitment R has x(R) >= n (so that "mod n" matters), built without a
			// secret key: pick R with x = n + j, choose s, and solve Q = r^-1 (sR - eG), r = j.
			if !I.cofactorOne || I.p.Cmp(n) <= 0 {
				skip = true
				break
			}
			j := int64(rapid.IntRange(1, 400).Draw(t, lab+"j"))
			var R ref.Pt
			var xr *big.Int
			for ; ; j++ {
				xr = new(big.Int).Add(n, bi(j))
				var ok bool
				if R, ok = E.LiftX(ref.V{xr}); ok {
					break
				}
			}
			if xr.Cmp(I.p) >= 0 {
				skip = true
				break
			}
			if rapid.Bool().Draw(t, lab+"neg") {
				R = E.Neg(R)
			}
			rr := bi(j)
			ss := drawScalar(t, n, lab+"s")
			T := E.Sub(E.Mul(ss, R), E.Mul(e, I.G.Gen))
			QQ := E.Mul(new(big.Int).ModInverse(rr, n), T)
			if QQ.Inf {
				skip = true
				break
			}
			var err error
			cpk, cQ, err = I.setPK(t, test, I.encPoint(QQ), false)
			must(t, err, "PublicKey.SetBytes(constructed key)")
			cand = I.sigBytes(rr, ss)
			expect = "accept"
			if rapid.Bool().Draw(t, lab+"lit") && fits(xr, I.sizeFr) { // r := x(R) itself, not reduced: out of range
				cand = I.sigBytes(xr, ss)
				expect = "error"
				extra = append(extra, "xR_ge_n_unreduced_r")
			}
		}
		if skip {
			continue
		}
		if bytes.Equal(cand, sig) && bytes.Equal(cmsg, msg) && chs.name == hs.name && E.Eq(cQ, Q) && cls != "pk_trailing" {
			continue
		}
		I.check(t, test, cpk, cQ, cand, cmsg, chs, true, expect, append(append(base, cls), extra...)...)
	}
}

func forECDSA(t *testing.T, body func(t *testing.T, I *ecdsaInst)) {
	for _, name := range inst.CurveNames {
		if !selected("ecdsa/" + name) {
			continue
		}
		I := getECDSA(name)
		t.Run(name, func(t *testing.T) { body(t, I) })
	}
}

func TestC12_ECDSA(t *testing.T) {
	forECDSA(t, func(t *testing.T, I *ecdsaInst) {
		rapid.Check(t, func(t *rapid.T) { propECDSA(t, I) })
	})
}

// ---- public-key recovery ------------------------------------------------------------------------

type recResult struct {
	err bool
	Q   ref.Pt
	why string
}

// refRecover is SEC 1 §4.1.6 for one candidate: R = (r + [v bit 1]·n, y with parity v bit 0),
// Q = r^-1 (sR - eG); errors for out-of-range r, s and for an abscissa without a point.
func (I *ecdsaInst) refRecover(e *big.Int, v uint, r, s *big.Int) recResult {
	n := I.n
	if s.Sign() <= 0 || s.Cmp(n) >= 0 {
		return recResult{err: true, why: "s out of range"}
	}
	if r.Sign() <= 0 || r.Cmp(n) >= 0 {
		return recResult{err: true, why: "r out of range"}
	}
	x := new(big.Int).Set(r)
	if v&2 != 0 {
		x.Add(x, n)
	}
	R, ok := I.E.LiftX(ref.V{x})
	if !ok {
		return recResult{err: true, why: "no point with this abscissa"}
	}
	if R.Y[0].Bit(0) != v&1 {
		R = I.E.Neg(R)
	}
	T := I.E.Sub(I.E.Mul(s, R), I.E.Mul(e, I.G.Gen))
	return recResult{Q: I.E.Mul(new(big.Int).ModInverse(r, n), T)}
}

func propRecover(t *rapid.T, I *ecdsaInst) {
	test := "C12_Recover/" + I.name
	E, n := I.E, I.n
	rd, _ := drawReader(t, "key")
	sk, err := I.genKey(rd)
	must(t, err, "GenerateKey")
	skb := sk.Bytes()
	d := new(big.Int).SetBytes(skb[I.pkLen:])
	pk := sk.Public()
	Q := I.pkPoint(pk)
	hs := pickFrom(t, I.hashes[:3], "hash")
	msg, mcls := hs.drawMsg(t, "msg")
	digest, _ := I.digestOf(hs, msg)
	e := I.h2i(digest)
	base := []string{"msg:" + mcls, "hash:" + hs.name}
	nt := mcls == "empty" || mcls == "longer_than_block" || mcls == "multi_block"

	// library signer (non-deterministic nonce; the verdict does not depend on it).
	// RecoverFrom takes the value that is fed to HashToInt: the digest when a hash was used.
	v, r, s, err := sk.(recoverSigner).SignForRecover(msg, hs.lib())
	must(t, err, "SignForRecover")
	if ok, err := pk.Verify(I.sigBytes(r, s), msg, hs.lib()); !ok || err != nil {
		t.Fatalf("%s: SignForRecover output does not verify: (%v,%v)", test, ok, err)
	}
	rec := I.newPK()
	if err := rec.(recoverer).RecoverFrom(digest, v, r, s); err != nil {
		t.Fatalf("%s: RecoverFrom(honest) failed: %v (v=%d r=%s s=%s digest=%x)", test, err, v, r, s, digest)
	}
	if !rec.Equal(pk) || !E.Eq(I.pkPoint(rec), Q) {
		t.Fatalf("%s: RecoverFrom(SignForRecover) is not the signer's key (v=%d r=%s s=%s digest=%x d=%s)", test, v, r, s, digest, d)
	}
	rep.Case(test, fmt.Sprintf("%s honest_lib d=%s h=%s msg=%x", I.name, d, hs.name, msg), nt, append(base, "recover_honest_lib")...)

	// reference signer with a drawn nonce
	k := drawScalar(t, n, "nonce")
	r, s, R, ok := I.refSign(d, e, k)
	if !ok {
		return
	}
	v = uint(R.Y[0].Bit(0))
	if new(big.Int).Div(I.x(R), n).Sign() != 0 {
		v |= 2
	}
	nc := rapid.IntRange(3, 6).Draw(t, "ncand")
	for ci := -1; ci < nc; ci++ {
		lab := fmt.Sprintf("c%d", ci)
		cls := "recover_honest_ref"
		cv, cr, cs, ce, cdig := v, r, s, e, digest
		if ci >= 0 {
			cls = pickFrom(t, []string{"v_parity_flipped", "v_overflow_flipped", "r_mutated", "s_mutated", "r_zero", "s_zero", "r_eq_n", "s_eq_n", "r_plus_n", "s_negated", "digest_mutated", "v_high_bits", "x_overflow_constructed", "x_overflow_constructed"}, lab)
		}
		skip := false
		switch cls {
		case "v_parity_flipped":
			cv ^= 1
		case "v_overflow_flipped":
			cv ^= 2
			if cv&2 != 0 && new(big.Int).Add(r, n).Cmp(I.p) >= 0 {
				skip = true // r+n is not a field element: undocumented input
			}
		case "r_mutated":
			cr = drawScalar(t, n, lab+"r")
		case "s_mutated":
			cs = drawScalar(t, n, lab+"s")
		case "r_zero":
			cr = bi(0)
		case "s_zero":
			cs = bi(0)
		case "r_eq_n":
			cr = n
		case "s_eq_n":
			cs = n
		case "r_plus_n":
			cr = new(big.Int).Add(r, n)
		case "s_negated":
			cs = new(big.Int).Sub(n, s)
		case "digest_mutated":
			if len(digest) == 0 {
				skip = true
				break
			}
			cdig = flipBit(digest, rapid.IntRange(0, 8*len(digest)-1).Draw(t, lab+"bit"))
			ce = I.h2i(cdig)
		case "v_high_bits": // only the two low bits of v are documented to matter
			cv |= uint(rapid.IntRange(1, 63).Draw(t, lab+"hi")) << 2
		case "x_overflow_constructed": // commitment with x(R) = n + j >= n: recovery needs the overflow bit
			if I.p.Cmp(n) <= 0 {
				skip = true
				break
			}
			j := int64(rapid.IntRange(1, 400).Draw(t, lab+"j"))
			var xr *big.Int
			for ; ; j++ {
				xr = new(big.Int).Add(n, bi(j))
				var ok bool
				if _, ok = E.LiftX(ref.V{xr}); ok {
					break
				}
			}
			if xr.Cmp(I.p) >= 0 {
				skip = true
				break
			}
			cr = bi(j)
			cs = drawScalar(t, n, lab+"s")
			cv = 2 | uint(rapid.IntRange(0, 1).Draw(t, lab+"par"))
		}
		if skip {
			continue
		}
		want := I.refRecover(ce, cv&3, cr, cs)
		rec := I.newPK()
		// pre-set the receiver: on error it must stay unchanged (documented)
		_, err := rec.SetBytes(pk.Bytes())
		must(t, err, "SetBytes")
		before := rec.Bytes()
		err = rec.(recoverer).RecoverFrom(cdig, cv, cr, cs)
		key := fmt.Sprintf("%s v=%d r=%s s=%s digest=%x", I.name, cv, cr, cs, cdig)
		if want.err {
			if err == nil {
				t.Fatalf("%s: RecoverFrom must fail (%s) but returned nil\n%s", test, want.why, key)
			}
			if !bytes.Equal(rec.Bytes(), before) {
				t.Fatalf("%s: RecoverFrom failed (%v) but modified the receiver\n%s", test, err, key)
			}
			rep.Case(test, key, true, append(base, cls, "recover:error")...)
			continue
		}
		if err != nil {
			t.Fatalf("%s: RecoverFrom failed (%v) but the reference recovers %s\n%s", test, err, E.Str(want.Q), key)
		}
		if got := I.pkPoint(rec); !E.Eq(got, want.Q) {
			t.Fatalf("%s: RecoverFrom = %s, reference %s\n%s", test, E.Str(got), E.Str(want.Q), key)
		}
		same := E.Eq(want.Q, Q)
		switch cls {
		case "recover_honest_ref", "v_high_bits":
			if !same {
				t.Fatalf("%s: harness error: honest recovery does not give the signer key\n%s", test, key)
			}
		}
		res := "recover:other_key"
		if same {
			res = "recover:signer_key"
		}
		rep.Case(test, key, ci >= 0 || nt, append(base, cls, res)...)
	}
}

func TestC12_Recover(t *testing.T) {
	forECDSA(t, func(t *testing.T, I *ecdsaInst) {
		if !I.recov {
			rep.Note("C12_Recover/"+I.name, "package has no SignForRecover/RecoverFrom (generated only for secp256k1, bn254, stark-curve)")
			t.Skip("no recovery API")
		}
		rapid.Check(t, func(t *rapid.T) { propRecover(t, I) })
	})
}

// ---- HashToInt vs FIPS 186-4 bits2int (DESIGN F13) -----------------------------------------------

const f13Key = "F13-hashtoint-bitlen-truncation"

func propHashToInt(t *rapid.T, I *ecdsaInst) {
	test := "C12_HashToInt/" + I.name
	nb := I.n.BitLen()
	ln := rapid.SampledFrom([]int{0, 1, I.sizeFr - 1, I.sizeFr, I.sizeFr + 1, 20, 28, 32, 48, 64, 2*I.sizeFr + 3}).Draw(t, "len")
	h := make([]byte, ln)
	if ln > 0 {
		copy(h, rapid.SliceOfN(rapid.Byte(), ln, ln).Draw(t, "h"))
		lz := rapid.IntRange(0, 3).Draw(t, "lzbytes")
		for i := 0; i < lz && i < ln; i++ {
			h[i] = 0
		}
		if lz < ln {
			zb := rapid.IntRange(0, 8).Draw(t, "lzbits")
			h[lz] &= byte(0xff >> uint(zb))
			if zb < 8 {
				h[lz] |= byte(0x80 >> uint(zb))
			}
		}
	}
	key := fmt.Sprintf("%s HashToInt(%x)", I.name, h)
	got := I.h2i(append([]byte{}, h...))
	want := fipsBits2Int(h, nb)
	cls := []string{fmt.Sprintf("len_vs_order:%d", sign(8*ln-nb))}
	if ln > 0 && h[0]&0x80 == 0 {
		cls = append(cls, "leading_zero_bit")
	}
	if got.BitLen() > nb {
		t.Fatalf("%s: result has %d bits, the order has %d\n%s", test, got.BitLen(), nb, key)
	}
	if I.inF13Class(h) {
		if got.Cmp(want) != 0 {
			// the known finding is pinned exactly: cut to the byte size of the order, then drop BitLen-bitlen(n)
			// bits (instead of 8*len-bitlen(n)); any OTHER deviation from FIPS inside the class is a new violation
			cut := h
			if len(cut) > I.sizeFr {
				cut = cut[:I.sizeFr]
			}
			f13 := new(big.Int).SetBytes(cut)
			if ex := f13.BitLen() - nb; ex > 0 {
				f13.Rsh(f13, uint(ex))
			}
			if got.Cmp(f13) != 0 {
				t.Fatalf("%s: HashToInt differs from FIPS 186-4 bits2int in a way that is not finding %s: got %s, FIPS %s, the known deviation would give %s\n%s",
					test, f13Key, got.Text(16), want.Text(16), f13.Text(16), key)
			}
			if rep.Known("C12", f13Key) {
				rep.StillPresent("C12", f13Key, fmt.Sprintf("%s: HashToInt(%x)=%s, FIPS 186-4 leftmost %d bits=%s", I.name, h, got.Text(16), nb, want.Text(16)))
				rep.Excluded(test, "C12", f13Key)
				return
			}
			t.Fatalf("%s: HashToInt differs from FIPS 186-4 bits2int (leftmost %d bits): got %s want %s [finding %s]\n%s", test, nb, got.Text(16), want.Text(16), f13Key, key)
		}
		cls = append(cls, "f13_class_but_equal")
	} else if got.Cmp(want) != 0 {
		t.Fatalf("%s: HashToInt differs from FIPS 186-4 bits2int outside the known class: got %s want %s\n%s", test, got.Text(16), want.Text(16), key)
	}
	rep.Case(test, key, ln == 0 || 8*ln > nb || (ln > 0 && h[0] == 0), cls...)
}

func sign(x int) int {
	switch {
	case x < 0:
		return -1
	case x > 0:
		return 1
	}
	return 0
}

func TestC12_HashToInt(t *testing.T) {
	forECDSA(t, func(t *testing.T, I *ecdsaInst) {
		rapid.Check(t, func(t *rapid.T) { propHashToInt(t, I) })
	})
}
