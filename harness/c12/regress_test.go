package c12

import (
	"bytes"
	"crypto/sha256"
	"encoding/hex"
	"fmt"
	"math/big"
	"reflect"
	"testing"

	"github.com/consensys/gnark-crypto/ecc"
	tedwards "github.com/consensys/gnark-crypto/ecc/twistededwards"
	sigecdsa "github.com/consensys/gnark-crypto/signature/ecdsa"
	sigeddsa "github.com/consensys/gnark-crypto/signature/eddsa"

	"verif/harness/internal/inst"
	"verif/harness/internal/rep"
)

// Rapid-free regressions (fail while the defect is present) and known-finding probes.

// F31: ecdsa.PublicKey.SetBytes reported sizeFp consumed bytes; secp256k1 keys are raw x||y
// (2·sizeFp bytes), so the consumed length was half of what had been read.
func TestC12_Regress_ECDSAPublicKeyConsumedLength(t *testing.T) {
	for _, name := range inst.CurveNames {
		I := getECDSA(name)
		sk, err := I.genKey(&detReader{seed: []byte("f31")})
		if err != nil {
			t.Fatal(err)
		}
		b := sk.Public().Bytes()
		if len(b) != I.pkLen {
			t.Fatalf("%s: public key encoding has %d bytes, want %d", name, len(b), I.pkLen)
		}
		for _, tail := range [][]byte{nil, {1, 2, 3}} {
			pk := I.newPK()
			n, err := pk.SetBytes(cat(b, tail))
			if err != nil || n != len(b) {
				t.Fatalf("%s: PublicKey.SetBytes(%d-byte key + %d trailing bytes) = (%d, %v), want (%d, nil)", name, len(b), len(tail), n, err, len(b))
			}
			if !bytes.Equal(pk.Bytes(), b) {
				t.Fatalf("%s: public key changed through SetBytes", name)
			}
		}
		rep.Count("C12_Regress", "F31:"+name, 2, 2, name)
	}
}

// F32: eddsa.PrivateKey.SetBytes panicked ("subtle: slices have different lengths") when the buffer
// was longer than the key, and reported 3·sizeFr consumed bytes although the encoding has
// 2·sizeFr+32 (different on bw6-633 and bw6-761).
func TestC12_Regress_EdDSAPrivateKeySetBytes(t *testing.T) {
	for _, name := range inst.EdwardsNames {
		I := getEdDSA(name)
		sk, err := I.genKey(&detReader{seed: []byte("f32")})
		if err != nil {
			t.Fatal(err)
		}
		b := sk.Bytes()
		if len(b) != 2*I.sizeFr+32 {
			t.Fatalf("%s: private key encoding has %d bytes, want %d", name, len(b), 2*I.sizeFr+32)
		}
		for _, tail := range [][]byte{nil, {1, 2, 3}} {
			func() {
				defer func() {
					if p := recover(); p != nil {
						t.Fatalf("%s: PrivateKey.SetBytes panicked on key + %d trailing bytes: %v", name, len(tail), p)
					}
				}()
				sk2 := I.newSK()
				n, err := sk2.SetBytes(cat(b, tail))
				if err != nil || n != len(b) {
					t.Fatalf("%s: PrivateKey.SetBytes(key + %d trailing bytes) = (%d, %v), want (%d, nil)", name, len(tail), n, err, len(b))
				}
				if !bytes.Equal(sk2.Bytes(), b) {
					t.Fatalf("%s: private key changed through SetBytes", name)
				}
			}()
		}
		if n, err := I.newSK().SetBytes(b[:len(b)-1]); err == nil || n != 0 {
			t.Fatalf("%s: PrivateKey.SetBytes of a short buffer = (%d, %v)", name, n, err)
		}
		rep.Count("C12_Regress", "F32:"+name, 3, 3, name)
	}
}

// Probe for F13: a SHA-256 digest whose first bit is zero, on every curve whose order has fewer
// bits than its byte size (all but secp256k1).
func TestC12_Probe_F13(t *testing.T) {
	var digest [32]byte
	for i := 0; ; i++ {
		digest = sha256.Sum256([]byte(fmt.Sprintf("C12 F13 probe %d", i)))
		if digest[0]&0xc0 == 0x40 { // leading bits 01
			break
		}
	}
	present := []string{}
	for _, name := range inst.CurveNames {
		I := getECDSA(name)
		h := digest[:]
		if I.sizeFr > 32 { // longer orders: use a longer "hash" (SHA-512 sized) with the same leading bits
			h = cat(digest[:], digest[:])
		}
		got, want := I.h2i(append([]byte{}, h...)), fipsBits2Int(h, I.n.BitLen())
		if !I.inF13Class(h) {
			if got.Cmp(want) != 0 {
				t.Fatalf("%s: HashToInt(%x) = %s, FIPS %s (outside the F13 class)", name, h, got.Text(16), want.Text(16))
			}
			continue
		}
		if got.Cmp(want) != 0 {
			present = append(present, fmt.Sprintf("%s(%d-bit order)", name, I.n.BitLen()))
		}
		rep.Count("C12_Probe_F13", "probe:"+name, 1, 1, fmt.Sprintf("%s HashToInt(%x)=%s fips=%s", name, h, got.Text(16), want.Text(16)))
	}
	if len(present) == 0 {
		return
	}
	detail := fmt.Sprintf("HashToInt(%x) keeps more than the leftmost bitlen(n) bits on %v", digest[:], present)
	if rep.Known("C12", f13Key) {
		rep.StillPresent("C12", f13Key, detail)
		return
	}
	t.Fatalf("HashToInt differs from FIPS 186-4 §6.4 / SEC 1 §4.1.3 bits2int [finding %s]: %s", f13Key, detail)
}

// Anchor of the ECDSA oracle on a published secp256k1 triple that does not come from this library
// (RFC 6979 deterministic signature of "Satoshi Nakamoto" under the secret key 1, SHA-256).
func TestC12_Anchor_ECDSA(t *testing.T) {
	I := getECDSA("secp256k1")
	r, _ := hex.DecodeString("934b1ea10a4b3c1757e2b0c017d0b6143ce3c9a7e6a4a49860d7a6ab210ee3d8")
	s, _ := hex.DecodeString("2442ce9d2b916064108014783e923ec36b49743e2ffa1c4496f01a512aafd9e5")
	sig := cat(r, s)
	msg := []byte("Satoshi Nakamoto")
	d := sha256.Sum256(msg)
	Q := I.G.Gen // secret key 1
	e := fipsBits2Int(d[:], 256)
	if v := I.refVerify(Q, sig, e); !v.ok {
		t.Fatalf("reference rejects the published triple: %+v", v)
	}
	bad := append([]byte{}, sig...)
	bad[63] ^= 1
	if v := I.refVerify(Q, bad, e); v.ok || v.malformed {
		t.Fatalf("reference accepts a corrupted triple: %+v", v)
	}
	lpk := I.newPK()
	if _, err := lpk.SetBytes(I.encPoint(Q)); err != nil {
		t.Fatal(err)
	}
	if ok, err := lpk.Verify(sig, msg, sha256.New()); !ok || err != nil {
		t.Fatalf("library rejects the published triple: (%v,%v)", ok, err)
	}
	// the FIPS rule itself on a value with known bits: 0x01ff, 9-bit order -> leftmost 9 bits of 16
	if fipsBits2Int([]byte{0x01, 0xff}, 9).Cmp(big.NewInt(3)) != 0 {
		t.Fatal("bits2int anchor")
	}
	rep.Count("C12_Anchor", "anchor:secp256k1_rfc6979", 3, 3, "Satoshi Nakamoto / key 1")
}

// signature/ecdsa.New and signature/eddsa.New hand the reader to the right package: same key bytes
// as that package's GenerateKey on an identical reader, and a signer of that package's type.
func TestC12_Dispatch(t *testing.T) {
	ecIDs := map[string]ecc.ID{"bn254": ecc.BN254, "bls12-377": ecc.BLS12_377, "bls12-381": ecc.BLS12_381, "bls24-315": ecc.BLS24_315,
		"bls24-317": ecc.BLS24_317, "bw6-633": ecc.BW6_633, "bw6-761": ecc.BW6_761, "secp256k1": ecc.SECP256K1, "stark-curve": ecc.STARK_CURVE}
	for _, name := range inst.CurveNames {
		id, ok := ecIDs[name]
		if !ok {
			rep.Note("C12_Dispatch", "signature/ecdsa.New has no case for "+name)
			continue
		}
		I := getECDSA(name)
		a, err := sigecdsa.New(id, &detReader{seed: []byte("dispatch")})
		if err != nil {
			t.Fatal(err)
		}
		b, err := I.genKey(&detReader{seed: []byte("dispatch")})
		if err != nil {
			t.Fatal(err)
		}
		if reflect.TypeOf(a) != reflect.TypeOf(b) || !bytes.Equal(a.Bytes(), b.Bytes()) {
			t.Fatalf("signature/ecdsa.New(%s): %T, package GenerateKey: %T, same key: %v", name, a, b, bytes.Equal(a.Bytes(), b.Bytes()))
		}
		// short private key buffers are refused without a panic
		if n, err := I.newSK().SetBytes(b.Bytes()[:len(b.Bytes())-1]); err == nil || n != 0 {
			t.Fatalf("%s: ecdsa PrivateKey.SetBytes of a short buffer = (%d, %v)", name, n, err)
		}
		rep.Count("C12_Dispatch", "ecdsa:"+name, 2, 2, name)
	}
	edIDs := map[string]tedwards.ID{"bn254/twistededwards": tedwards.BN254, "bls12-377/twistededwards": tedwards.BLS12_377,
		"bls12-381/twistededwards": tedwards.BLS12_381, "bls12-381/bandersnatch": tedwards.BLS12_381_BANDERSNATCH,
		"bls24-315/twistededwards": tedwards.BLS24_315, "bls24-317/twistededwards": tedwards.BLS24_317,
		"bw6-633/twistededwards": tedwards.BW6_633, "bw6-761/twistededwards": tedwards.BW6_761}
	for _, name := range inst.EdwardsNames {
		I := getEdDSA(name)
		a, err := sigeddsa.New(edIDs[name], &detReader{seed: []byte("dispatch")})
		if err != nil {
			t.Fatal(err)
		}
		b, err := I.genKey(&detReader{seed: []byte("dispatch")})
		if err != nil {
			t.Fatal(err)
		}
		if reflect.TypeOf(a) != reflect.TypeOf(b) || !bytes.Equal(a.Bytes(), b.Bytes()) {
			t.Fatalf("signature/eddsa.New(%s): %T, package GenerateKey: %T, same key: %v", name, a, b, bytes.Equal(a.Bytes(), b.Bytes()))
		}
		rep.Count("C12_Dispatch", "eddsa:"+name, 1, 1, name)
	}
}
