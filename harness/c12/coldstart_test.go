package c12

// TestC12_ColdStart: every entry point of the 10 ecdsa and 8 eddsa packages that can be a process's
// FIRST use of its package must already give the specified answer. Parameters that are fetched lazily
// (sync.Once caches of the curve parameters, the group order, tables) are invisible to every check that
// runs after some other path has filled them. Therefore each (package, entry) runs in a FRESH child
// process (this test binary re-executed, entry selected by VERIF_COLD, inputs handed over as bytes in
// VERIF_COLD_DATA): the child's first library call is the entry under test ("cold"); then the package
// is warmed through all the other paths (GenerateKey, Sign, Verify, the three decoders) and the entry
// is called again on equal inputs ("warm"). The parent builds the expected answer from the stored
// bytes (a key pair and an honest triple made beforehand and cross-checked against the reference
// equation on ref.Curve / ref.Edwards) and requires cold = warm = expected; signatures produced by a
// cold ECDSA signer (non-deterministic nonce) are decided by the reference equation in the parent.
//
// The child never touches inst.GetCurve / inst.GetEdwards / getECDSA / getEdDSA before the cold call
// (they call Generators() and GetEdwardsCurve(), which would warm the curve packages): it works on the
// reflective registry and on the bytes it was given; public keys for the Verify entries are assembled
// from coordinates through the field-element setters, not through PublicKey.SetBytes.

import (
	"bytes"
	"context"
	"crypto/sha256"
	"encoding/hex"
	"encoding/json"
	"fmt"
	stdhash "hash"
	"math/big"
	"os"
	"os/exec"
	"strings"
	"sync"
	"testing"
	"time"

	"github.com/consensys/gnark-crypto/signature"

	"verif/harness/internal/inst"
	"verif/harness/internal/ref"
	"verif/harness/internal/reg"
	"verif/harness/internal/rep"
)

// coldData is everything a child needs; produced by the parent.
type coldData struct {
	Scheme string   `json:"scheme"` // "ecdsa" | "eddsa"
	Name   string   `json:"name"`   // curve / companion name
	Seed   string   `json:"seed"`   // key seed (detReader)
	PK     string   `json:"pk"`     // hex
	SK     string   `json:"sk"`
	Sig    string   `json:"sig"`
	Msg    string   `json:"msg"`
	A      []string `json:"a"`      // coordinates of the public key point, decimal
	Digest string   `json:"digest"` // ECDSA: input of HashToInt / RecoverFrom (top bit set: outside the F13 class)
	V      uint     `json:"v"`      // recovery id of (R,S) = Sig
}

func unhex(s string) []byte {
	b, err := hex.DecodeString(s)
	if err != nil {
		panic(err)
	}
	return b
}

func (d coldData) pkgPath() string {
	if d.Scheme == "ecdsa" {
		return "ecc/" + d.Name + "/ecdsa"
	}
	return "ecc/" + d.Name + "/eddsa"
}

// coldResult is what one call of an entry returns: a deterministic text and, for signing entries,
// the produced signature (decided by the parent with the reference equation).
type coldResult struct {
	Text string `json:"text"`
	Sig  string `json:"sig,omitempty"`
}

var coldEntryNames = map[string][]string{
	"ecdsa": {"PublicKey.SetBytes", "PrivateKey.SetBytes", "Signature.SetBytes", "Verify", "Verify(corrupted)", "GenerateKey", "Sign+Verify", "HashToInt"},
	"eddsa": {"PublicKey.SetBytes", "PrivateKey.SetBytes", "Signature.SetBytes", "Verify", "Verify(corrupted)", "GenerateKey", "Sign+Verify"},
}
var coldRecoverEntries = []string{"RecoverFrom", "SignForRecover+RecoverFrom"}

// coldRun performs one entry; every library call goes through the registry (no harness bundle).
func coldRun(d coldData, entry string) (res coldResult) {
	defer func() {
		if r := recover(); r != nil {
			res = coldResult{Text: fmt.Sprint("panic: ", r)}
		}
	}()
	pkg := reg.Get(d.pkgPath())
	newPK := func() signature.PublicKey { return pkg.New("PublicKey").(signature.PublicKey) }
	pkFromCoords := func() signature.PublicKey { // no decoder involved
		pk := newPK()
		vals := make([]*big.Int, len(d.A))
		for i, s := range d.A {
			vals[i], _ = new(big.Int).SetString(s, 10)
		}
		reg.Unflatten(reg.Field(pk, "A"), vals)
		return pk
	}
	sha := func() stdhash.Hash { return sha256.New() }
	switch entry {
	case "PublicKey.SetBytes":
		pk := newPK()
		n, err := pk.SetBytes(unhex(d.PK))
		return coldResult{Text: fmt.Sprintf("n=%d err=%v enc=%x", n, err, pk.Bytes())}
	case "PrivateKey.SetBytes":
		sk := pkg.New("PrivateKey").(signature.Signer)
		n, err := sk.SetBytes(unhex(d.SK))
		return coldResult{Text: fmt.Sprintf("n=%d err=%v enc=%x pub=%x", n, err, sk.Bytes(), sk.Public().Bytes())}
	case "Signature.SetBytes":
		sg := pkg.New("Signature").(byteCodec)
		n, err := sg.SetBytes(unhex(d.Sig))
		return coldResult{Text: fmt.Sprintf("n=%d err=%v enc=%x", n, err, sg.Bytes())}
	case "Verify":
		ok, err := pkFromCoords().Verify(unhex(d.Sig), unhex(d.Msg), sha())
		return coldResult{Text: fmt.Sprintf("ok=%v err=%v", ok, err)}
	case "Verify(corrupted)": // last bit of the second component flipped: still well-formed, must be (false, nil)
		sig := unhex(d.Sig)
		sig[len(sig)-1] ^= 1
		ok, err := pkFromCoords().Verify(sig, unhex(d.Msg), sha())
		return coldResult{Text: fmt.Sprintf("ok=%v err=%v", ok, err)}
	case "GenerateKey":
		r := pkg.F("GenerateKey", &detReader{seed: unhex(d.Seed)})
		if err := reg.Err(r); err != nil {
			return coldResult{Text: "error: " + err.Error()}
		}
		sk := r[0].(signature.Signer)
		return coldResult{Text: fmt.Sprintf("sk=%x pub=%x", sk.Bytes(), sk.Public().Bytes())}
	case "Sign+Verify":
		sk := pkg.New("PrivateKey").(signature.Signer)
		if _, err := sk.SetBytes(unhex(d.SK)); err != nil {
			return coldResult{Text: "error: " + err.Error()}
		}
		sig, err := sk.Sign(unhex(d.Msg), sha())
		if err != nil {
			return coldResult{Text: "error: " + err.Error()}
		}
		ok, verr := sk.Public().Verify(sig, unhex(d.Msg), sha())
		res := coldResult{Text: fmt.Sprintf("len=%d verify=%v err=%v", len(sig), ok, verr), Sig: hex.EncodeToString(sig)}
		if d.Scheme == "eddsa" { // deterministic signer: the bytes themselves are specified
			res.Text += " sig=" + res.Sig
		}
		return res
	case "HashToInt":
		f := pkg.Funcs["HashToInt"].Interface().(func([]byte) *big.Int)
		return coldResult{Text: f(unhex(d.Digest)).Text(16)}
	case "RecoverFrom":
		pk := newPK()
		sig := unhex(d.Sig)
		r, s := new(big.Int).SetBytes(sig[:len(sig)/2]), new(big.Int).SetBytes(sig[len(sig)/2:])
		err := pk.(recoverer).RecoverFrom(unhex(d.Digest), d.V, r, s)
		return coldResult{Text: fmt.Sprintf("err=%v enc=%x", err, pk.Bytes())}
	case "SignForRecover+RecoverFrom":
		sk := pkg.New("PrivateKey").(signature.Signer)
		if _, err := sk.SetBytes(unhex(d.SK)); err != nil {
			return coldResult{Text: "error: " + err.Error()}
		}
		v, r, s, err := sk.(recoverSigner).SignForRecover(unhex(d.Digest), nil) // no hash: the digest is signed as it is
		if err != nil {
			return coldResult{Text: "error: " + err.Error()}
		}
		pk := newPK()
		rerr := pk.(recoverer).RecoverFrom(unhex(d.Digest), v, r, s)
		sz := len(unhex(d.Sig)) / 2
		return coldResult{Text: fmt.Sprintf("err=%v recovered=%x", rerr, pk.Bytes()), Sig: hex.EncodeToString(cat(be(r, sz), be(s, sz)))}
	}
	return coldResult{Text: "unknown entry " + entry}
}

// coldWarm runs every other path of the package.
func coldWarm(d coldData) {
	defer func() { recover() }()
	pkg := reg.Get(d.pkgPath())
	r := pkg.F("GenerateKey", &detReader{seed: []byte("warm")})
	if reg.Err(r) == nil {
		sk := r[0].(signature.Signer)
		if sig, err := sk.Sign([]byte{1, 2, 3}, sha256.New()); err == nil {
			sk.Public().Verify(sig, []byte{1, 2, 3}, sha256.New())
			pkg.New("Signature").(byteCodec).SetBytes(sig)
		}
		pkg.New("PublicKey").(signature.PublicKey).SetBytes(sk.Public().Bytes())
		pkg.New("PrivateKey").(signature.Signer).SetBytes(sk.Bytes())
	}
	entries := append([]string{}, coldEntryNames[d.Scheme]...)
	if _, ok := pkg.New("PublicKey").(recoverer); ok {
		entries = append(entries, coldRecoverEntries...)
	}
	for _, e := range entries {
		coldRun(d, e)
	}
}

func coldChild(sel string) {
	var d coldData
	if err := json.Unmarshal([]byte(os.Getenv("VERIF_COLD_DATA")), &d); err != nil {
		fmt.Println("COLD-BADDATA", err)
		os.Exit(3)
	}
	entry := sel[strings.Index(sel, "|")+1:]
	cold := coldRun(d, entry) // must be the first use of the package in this process
	coldWarm(d)
	warm := coldRun(d, entry)
	out, _ := json.Marshal(map[string]coldResult{"cold": cold, "warm": warm})
	fmt.Println("COLD-RESULT " + string(out))
	os.Exit(0)
}

// coldCase is one (package, entry) with the expectation built by the parent.
type coldCase struct {
	data     coldData
	entry    string
	want     string                          // expected deterministic text
	checkSig func(sig []byte) (bool, string) // reference decision on a produced signature (nil: none expected)
}

const coldMsg = "C12 cold start: first use of the package"

func coldCasesECDSA(t *testing.T, name string) []coldCase {
	I := getECDSA(name)
	seed := []byte("C12 cold " + name)
	sk, err := I.genKey(&detReader{seed: seed})
	if err != nil {
		t.Fatal(err)
	}
	skb, pk := sk.Bytes(), sk.Public()
	pkb := pk.Bytes()
	d0 := new(big.Int).SetBytes(skb[I.pkLen:])
	Q := I.pkPoint(pk)
	if !I.E.Eq(Q, I.E.Mul(d0, I.G.Gen)) || len(pkb) != I.pkLen || len(skb) != I.pkLen+I.sizeFr {
		t.Fatalf("%s: stored key pair is not consistent with the reference", name)
	}
	msg := []byte(coldMsg)
	dg := sha256.Sum256(msg)
	// the stored honest triple: reference signer, fixed nonce (deterministic), cross-checked by the library
	e := I.h2i(dg[:])
	r, s, _, ok := I.refSign(d0, e, new(big.Int).Rsh(I.n, 3))
	if !ok {
		t.Fatalf("%s: reference signer failed", name)
	}
	sig := I.sigBytes(r, s)
	if v := I.refVerify(Q, sig, e); !v.ok {
		t.Fatalf("%s: stored triple fails the reference equation", name)
	}
	if okv, err := pk.Verify(sig, msg, sha256.New()); !okv || err != nil {
		t.Fatalf("%s: stored triple rejected by the (warm) library: (%v,%v)", name, okv, err)
	}
	// digest for HashToInt / recovery: top bit set, i.e. outside the F13 class: FIPS bits2int is the expectation
	digest := append([]byte{}, dg[:]...)
	digest[0] |= 0x80
	if I.sizeFr > 32 {
		digest = cat(digest, dg[:])
	}
	eD := fipsBits2Int(digest, I.n.BitLen())
	data := coldData{Scheme: "ecdsa", Name: name, Seed: hex.EncodeToString(seed), PK: hex.EncodeToString(pkb), SK: hex.EncodeToString(skb),
		Sig: hex.EncodeToString(sig), Msg: hex.EncodeToString(msg), Digest: hex.EncodeToString(digest)}
	for _, c := range reg.Flatten(reg.Field(pk, "A")) {
		data.A = append(data.A, c.String())
	}
	verifyProduced := func(dig []byte) func([]byte) (bool, string) {
		return func(sg []byte) (bool, string) {
			v := I.refVerify(Q, sg, I.h2i(dig))
			return v.ok, v.why
		}
	}
	bad := append([]byte{}, sig...)
	bad[len(bad)-1] ^= 1
	wantBad := "ok=false err=<nil>"
	if v := I.refVerify(Q, bad, e); v.malformed || v.ok { // decided by the reference; skipped if s^1 left the range
		wantBad = ""
	}
	cases := []coldCase{
		{entry: "PublicKey.SetBytes", want: fmt.Sprintf("n=%d err=<nil> enc=%x", I.pkLen, pkb)},
		{entry: "PrivateKey.SetBytes", want: fmt.Sprintf("n=%d err=<nil> enc=%x pub=%x", len(skb), skb, pkb)},
		{entry: "Signature.SetBytes", want: fmt.Sprintf("n=%d err=<nil> enc=%x", 2*I.sizeFr, sig)},
		{entry: "Verify", want: "ok=true err=<nil>"},
		{entry: "Verify(corrupted)", want: wantBad},
		{entry: "GenerateKey", want: fmt.Sprintf("sk=%x pub=%x", skb, pkb)},
		{entry: "Sign+Verify", want: fmt.Sprintf("len=%d verify=true err=<nil>", 2*I.sizeFr), checkSig: verifyProduced(dg[:])},
		{entry: "HashToInt", want: eD.Text(16)},
	}
	if I.recov {
		// recovery data: a second reference signature over the raw digest (no hash), with its recovery id
		r2, s2, R2, ok := I.refSign(d0, eD, new(big.Int).Rsh(I.n, 2))
		if !ok {
			t.Fatalf("%s: reference signer failed", name)
		}
		v := uint(R2.Y[0].Bit(0))
		if new(big.Int).Div(I.x(R2), I.n).Sign() != 0 {
			v |= 2
		}
		if rr := I.refRecover(eD, v, r2, s2); rr.err || !I.E.Eq(rr.Q, Q) {
			t.Fatalf("%s: reference recovery of the stored signature does not give the signer key", name)
		}
		rec := data
		rec.Sig, rec.V = hex.EncodeToString(I.sigBytes(r2, s2)), v
		cases = append(cases,
			coldCase{data: rec, entry: "RecoverFrom", want: fmt.Sprintf("err=<nil> enc=%x", pkb)},
			coldCase{data: rec, entry: "SignForRecover+RecoverFrom", want: fmt.Sprintf("err=<nil> recovered=%x", pkb), checkSig: verifyProduced(digest)})
	}
	for i := range cases {
		if cases[i].data.Scheme == "" {
			cases[i].data = data
		}
	}
	return cases
}

func coldCasesEdDSA(t *testing.T, name string) []coldCase {
	I := getEdDSA(name)
	sz := I.sizeFr
	seed := []byte("C12 cold " + name)
	sk, err := I.genKey(&detReader{seed: seed})
	if err != nil {
		t.Fatal(err)
	}
	skb, pk := sk.Bytes(), sk.Public()
	pkb := pk.Bytes()
	a := new(big.Int).SetBytes(skb[sz : 2*sz])
	A, why := I.decPoint(pkb)
	if aB, ok := I.mul(a, I.ed.Base); why != "" || !ok || !I.E.Eq(A, aB) || len(skb) != 2*sz+32 {
		t.Fatalf("%s: stored key pair is not consistent with the reference (%s)", name, why)
	}
	msg := []byte(coldMsg)
	sig, err := sk.Sign(msg, sha256.New()) // deterministic
	if err != nil {
		t.Fatal(err)
	}
	hs := shaSpec("sha256")
	if v := I.refVerify(A, sig, msg, hs); !v.ok {
		t.Fatalf("%s: stored triple fails the reference equation (%s)", name, v.why)
	}
	bad := append([]byte{}, sig...)
	bad[len(bad)-1] ^= 1
	wantBad := "ok=false err=<nil>"
	if v := I.refVerify(A, bad, msg, hs); v.malformed || v.ok { // S+-1 left the range (not with these keys, but decided by the reference)
		wantBad = ""
	}
	data := coldData{Scheme: "eddsa", Name: name, Seed: hex.EncodeToString(seed), PK: hex.EncodeToString(pkb), SK: hex.EncodeToString(skb),
		Sig: hex.EncodeToString(sig), Msg: hex.EncodeToString(msg)}
	for _, c := range reg.Flatten(reg.Field(pk, "A")) {
		data.A = append(data.A, c.String())
	}
	cases := []coldCase{
		{entry: "PublicKey.SetBytes", want: fmt.Sprintf("n=%d err=<nil> enc=%x", sz, pkb)},
		{entry: "PrivateKey.SetBytes", want: fmt.Sprintf("n=%d err=<nil> enc=%x pub=%x", len(skb), skb, pkb)},
		{entry: "Signature.SetBytes", want: fmt.Sprintf("n=%d err=<nil> enc=%x", 2*sz, sig)},
		{entry: "Verify", want: "ok=true err=<nil>"},
		{entry: "Verify(corrupted)", want: wantBad},
		{entry: "GenerateKey", want: fmt.Sprintf("sk=%x pub=%x", skb, pkb)},
		{entry: "Sign+Verify", want: fmt.Sprintf("len=%d verify=true err=<nil> sig=%x", 2*sz, sig), checkSig: func(sg []byte) (bool, string) {
			v := I.refVerify(A, sg, msg, hs)
			return v.ok, v.why
		}},
	}
	for i := range cases {
		cases[i].data = data
	}
	return cases
}

func TestC12_ColdStart(t *testing.T) {
	if sel := os.Getenv("VERIF_COLD"); sel != "" {
		coldChild(sel)
		return
	}
	var cases []coldCase
	for _, name := range inst.CurveNames {
		if selected("ecdsa/" + name) {
			cases = append(cases, coldCasesECDSA(t, name)...)
		}
	}
	for _, name := range inst.EdwardsNames {
		if selected("eddsa/" + name) {
			cases = append(cases, coldCasesEdDSA(t, name)...)
		}
	}
	var wg sync.WaitGroup
	sem := make(chan struct{}, 16)
	var mu sync.Mutex
	for _, c := range cases {
		c := c
		if c.want == "" {
			continue
		}
		id := c.data.Scheme + "/" + c.data.Name
		wg.Add(1)
		sem <- struct{}{}
		go func() {
			defer wg.Done()
			defer func() { <-sem }()
			ctx, cancel := context.WithTimeout(context.Background(), 3*time.Minute)
			defer cancel()
			blob, _ := json.Marshal(c.data)
			cmd := exec.CommandContext(ctx, os.Args[0], "-test.run=^TestC12_ColdStart$", "-test.count=1")
			cmd.Env = append(os.Environ(), "VERIF_COLD="+id+"|"+c.entry, "VERIF_COLD_DATA="+string(blob), "VERIF_REPORT=", "VERIF_INST=")
			var buf bytes.Buffer
			cmd.Stdout, cmd.Stderr = &buf, &buf
			err := cmd.Run()
			mu.Lock()
			defer mu.Unlock()
			o := buf.String()
			var res map[string]coldResult
			for _, l := range strings.Split(o, "\n") {
				if strings.HasPrefix(l, "COLD-RESULT ") {
					json.Unmarshal([]byte(strings.TrimPrefix(l, "COLD-RESULT ")), &res)
				}
			}
			switch {
			case ctx.Err() != nil:
				t.Errorf("%s %s: cold-start child did not finish within 3 minutes (killed)", id, c.entry)
			case res == nil:
				t.Errorf("%s %s: cold-start child failed (%v):\n%s", id, c.entry, err, lastLines(o, 8))
			default:
				for _, phase := range []string{"cold", "warm"} {
					r := res[phase]
					if r.Text != c.want {
						t.Errorf("%s %s: called %s (cold = first use of the package in a fresh process) the answer differs from the specification:\n  %s: %s\n  want: %s\n  (other phase: %s)",
							id, c.entry, phase, phase, trim(r.Text), trim(c.want), trim(res[map[string]string{"cold": "warm", "warm": "cold"}[phase]].Text))
					}
					if c.checkSig != nil {
						sg, derr := hex.DecodeString(r.Sig)
						if ok, why := c.checkSig(sg); derr != nil || !ok {
							t.Errorf("%s %s: the signature produced %s fails the reference equation (%s): %s", id, c.entry, phase, why, r.Sig)
						}
					}
				}
			}
			rep.Case("C12_ColdStart", id+" "+c.entry, true, "coldstart", "coldstart:"+id+":"+c.entry)
		}()
	}
	wg.Wait()
	if os.Getenv("VERIF_INST") == "" {
		want := 10*len(coldEntryNames["ecdsa"]) + 3*len(coldRecoverEntries) + 8*len(coldEntryNames["eddsa"])
		if len(cases) != want {
			t.Errorf("HARNESS: %d cold-start entries, want %d", len(cases), want)
		}
	}
}

func trim(s string) string {
	if len(s) > 400 {
		return s[:400] + "…"
	}
	return s
}

func lastLines(s string, n int) string {
	l := strings.Split(strings.TrimSpace(s), "\n")
	if len(l) > n {
		l = l[len(l)-n:]
	}
	return strings.Join(l, "\n")
}

var _ = ref.Pt{}
