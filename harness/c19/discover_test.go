package c19

import (
	"fmt"
	"math/big"
	"reflect"
	"regexp"
	"sort"
	"strings"

	"verif/harness/internal/inst"
	"verif/harness/internal/reg"
)

// ---- catalogue of types --------------------------------------------------------------------------

const modPrefix = "github.com/consensys/gnark-crypto/"

// target is one library type whose method set is examined.
type target struct {
	fam  string // field | vector | tower | point | edwards | poly | ext
	inst string // sharding key, e.g. "tower/bn254"
	name string // type name, e.g. "E12"
	typ  reflect.Type
}

func (tg *target) id() string { return tg.inst + "." + tg.name }

var towerName = regexp.MustCompile(`^(E\d+|GT)$`)

// walkStructs collects t and every struct type reachable through its fields that is not a leaf
// (a leaf = a base-field Element).
func walkStructs(t reflect.Type, seen map[reflect.Type]bool, out *[]reflect.Type) {
	if t.Kind() != reflect.Struct || isLeaf(t) || seen[t] {
		return
	}
	seen[t] = true
	*out = append(*out, t)
	for i := 0; i < t.NumField(); i++ {
		ft := t.Field(i).Type
		for ft.Kind() == reflect.Array {
			ft = ft.Elem()
		}
		walkStructs(ft, seen, out)
	}
}

func sortedTypeNames(p *reg.Pkg) []string {
	var ns []string
	for n := range p.Types {
		ns = append(ns, n)
	}
	sort.Strings(ns)
	return ns
}

var catalogue []*target
var skippedTypes []string

func addTarget(fam, inst, name string, t reflect.Type) {
	catalogue = append(catalogue, &target{fam: fam, inst: inst, name: name, typ: t})
}

func init() {
	// 23 fields: Element and Vector
	for _, f := range inst.Fields() {
		// (the registry lists struct types only; Element/Vector come from the field adapters)
		et := reflect.TypeOf(f.New().Native()).Elem()
		addTarget("field", "field/"+f.Name(), "Element", et)
		vt := reflect.TypeOf(f.NewVec(0).Native()).Elem()
		if vt.Kind() != reflect.Slice || vt.Elem() != et {
			panic("c19: unexpected vector type " + vt.String())
		}
		addTarget("vector", "vector/"+f.Name(), "Vector", vt)
	}
	// towers of the pairing curves: exported aliases plus everything reachable from GT
	for _, c := range inst.PairingNames {
		p := reg.Get("ecc/" + c)
		seen := map[reflect.Type]bool{}
		var ts []reflect.Type
		for _, n := range sortedTypeNames(p) {
			if towerName.MatchString(n) {
				walkStructs(p.Types[n], seen, &ts)
			}
		}
		sort.SliceStable(ts, func(i, j int) bool { return ts[i].Size() < ts[j].Size() })
		for _, t := range ts {
			addTarget("tower", "tower/"+c, t.Name(), t)
		}
	}
	// short Weierstrass points
	for _, c := range inst.CurveNames {
		p := reg.Get("ecc/" + c)
		for _, n := range sortedTypeNames(p) {
			switch {
			case regexp.MustCompile(`^G[12](Affine|Jac)$`).MatchString(n):
				addTarget("point", "point/"+c, n, p.Types[n])
			case towerName.MatchString(n):
			default:
				skippedTypes = append(skippedTypes, "ecc/"+c+"."+n)
			}
		}
	}
	// twisted Edwards points
	for _, e := range inst.EdwardsNames {
		p := reg.Get("ecc/" + e)
		for _, n := range sortedTypeNames(p) {
			if strings.HasPrefix(n, "Point") {
				addTarget("edwards", "edwards/"+e, n, p.Types[n])
			} else {
				skippedTypes = append(skippedTypes, "ecc/"+e+"."+n)
			}
		}
	}
	// fr/polynomial
	for _, pp := range polyPkgs {
		for _, t := range pp.types {
			addTarget("poly", "poly/"+pp.curve, t.Name(), t)
		}
	}
	// small-field extensions
	for _, f := range []string{"koalabear", "babybear", "goldilocks"} {
		p := reg.Get("field/" + f + "/extensions")
		if p == nil {
			continue
		}
		for _, n := range sortedTypeNames(p) {
			if p.Types[n].Kind() == reflect.Struct {
				addTarget("ext", "ext/"+f, n, p.Types[n])
			}
		}
	}
}

// ---- type classification -------------------------------------------------------------------------

var (
	bigIntT    = reflect.TypeOf(big.Int{})
	bigIntPtrT = reflect.TypeOf((*big.Int)(nil))
	errorT     = reflect.TypeOf((*error)(nil)).Elem()
)

// isLeaf: a base-field element (has BigInt(*big.Int) and SetBigInt(*big.Int)).
func isLeaf(t reflect.Type) bool {
	if t.Kind() != reflect.Array {
		return false
	}
	m, ok := reflect.PtrTo(t).MethodByName("BigInt")
	if !ok || m.Type.NumIn() != 2 || m.Type.In(1) != bigIntPtrT {
		return false
	}
	_, ok = reflect.PtrTo(t).MethodByName("SetBigInt")
	return ok
}

var algebraicCache = map[reflect.Type]bool{}

// algebraic: a value the generic generator can build: leaf, or struct/array of algebraic parts with
// exported fields only (tower elements, points, line evaluations).
func algebraic(t reflect.Type) bool {
	if v, ok := algebraicCache[t]; ok {
		return v
	}
	algebraicCache[t] = false // cycle guard
	r := false
	switch {
	case isLeaf(t):
		r = true
	case t == bigIntT:
		r = false
	case t.Kind() == reflect.Struct && strings.HasPrefix(t.PkgPath(), modPrefix) && t.NumField() > 0:
		r = true
		for i := 0; i < t.NumField(); i++ {
			if !t.Field(i).IsExported() || !algebraic(t.Field(i).Type) {
				r = false
			}
		}
	case t.Kind() == reflect.Array && t.Len() > 0:
		r = algebraic(t.Elem())
	}
	algebraicCache[t] = r
	return r
}

func isScalarKind(k reflect.Kind) bool {
	switch k {
	case reflect.Bool, reflect.Int, reflect.Int8, reflect.Int16, reflect.Int32, reflect.Int64,
		reflect.Uint, reflect.Uint8, reflect.Uint16, reflect.Uint32, reflect.Uint64:
		return true
	}
	return false
}

type posKind int

const (
	kAlias  posKind = iota // pointer to an algebraic value or big.Int, or the receiver's slice type: shareable
	kValue                 // algebraic struct passed by value (cannot alias)
	kBigVal                // big.Int by value
	kScalar                // bool / integer
)

type position struct {
	kind posKind
	typ  reflect.Type // declared type
	id   reflect.Type // identity type of the alias class (pointee or slice type)
	nm   string       // z, a, b, c, ...
}

type method struct {
	tg      *target
	name    string
	fn      reflect.Value // func(recv, params...)
	ptrRecv bool
	pos     []position // pos[0] = receiver
	parts   [][]int    // group id per position (-1 = not shareable); every entry has >= 1 group of size >= 2
	shapes  []string
	outs    []reflect.Type
}

// denied by name: non-arithmetic or decided elsewhere (DESIGN C19 "Exclusions").
var denyName = regexp.MustCompile(`^(SetRandom|MustSetRandom|SetString|SetInterface|Unmarshal.*|SetBytes.*|ReadFrom|AsyncReadFrom|UnsafeReadFrom|Write.*|Marshal.*|String|Text|Bytes.*|RawBytes|Fold.*|MultiExp.*|.*JSON)$`)

// documented aliasing restrictions (grep of the doc comments for alias / must not / distinct / overlap
// found none in the pinned tree); entries "<TypeName>.<Method>" are excluded.
var denyDocumented = map[string]string{}

const maxParts = 24

// setPartitions enumerates the set partitions of n items as restricted growth strings.
func setPartitions(n int) [][]int {
	var out [][]int
	cur := make([]int, n)
	var rec func(i, mx int)
	rec = func(i, mx int) {
		if i == n {
			out = append(out, append([]int(nil), cur...))
			return
		}
		for g := 0; g <= mx+1; g++ {
			cur[i] = g
			m := mx
			if g > mx {
				m = g
			}
			rec(i+1, m)
		}
	}
	rec(0, -1)
	return out
}

var pointName = regexp.MustCompile(`^(G[12](Affine|Jac)|Point(Affine|Proj|Extended))$`)

func valueType(p position) reflect.Type {
	if p.kind == kAlias {
		return p.id
	}
	return p.typ
}

type verdict struct {
	m      *method
	reason string // "" = qualifies
}

func classifyParam(pt, recvSlice reflect.Type) (position, string) {
	switch pt.Kind() {
	case reflect.Ptr:
		e := pt.Elem()
		if e == bigIntT || algebraic(e) {
			return position{kind: kAlias, typ: pt, id: e}, ""
		}
		return position{}, "parameter type " + pt.String()
	case reflect.Slice:
		if recvSlice != nil && pt == recvSlice {
			return position{kind: kAlias, typ: pt, id: pt}, ""
		}
		return position{}, "parameter type " + pt.String()
	case reflect.Struct:
		if pt == bigIntT {
			return position{kind: kBigVal, typ: pt}, ""
		}
		if algebraic(pt) {
			return position{kind: kValue, typ: pt}, ""
		}
		return position{}, "parameter type " + pt.String()
	case reflect.Array:
		if algebraic(pt) {
			return position{kind: kValue, typ: pt}, ""
		}
		return position{}, "parameter type " + pt.String()
	}
	if isScalarKind(pt.Kind()) {
		return position{kind: kScalar, typ: pt}, ""
	}
	return position{}, "parameter type " + pt.String()
}

func okResult(rt, recvSlice reflect.Type) bool {
	switch rt.Kind() {
	case reflect.Ptr:
		return rt.Elem() == bigIntT || algebraic(rt.Elem()) || (recvSlice != nil && rt.Elem() == recvSlice)
	case reflect.Slice:
		return recvSlice != nil && rt == recvSlice
	case reflect.Struct, reflect.Array:
		return rt == bigIntT || algebraic(rt)
	}
	return isScalarKind(rt.Kind())
}

// discover examines the method set of *T (and T) and returns one verdict per exported method.
func discover(tg *target) []verdict {
	T := tg.typ
	pt := reflect.PtrTo(T)
	var recvSlice reflect.Type
	if T.Kind() == reflect.Slice {
		recvSlice = T
	}
	var out []verdict
	for i := 0; i < pt.NumMethod(); i++ {
		mm := pt.Method(i)
		_, valueRecv := T.MethodByName(mm.Name)
		m := &method{tg: tg, name: mm.Name, fn: mm.Func, ptrRecv: true}
		ft := mm.Type
		if valueRecv {
			// value receiver: only a slice header can share memory with an operand
			vm, _ := T.MethodByName(mm.Name)
			m.fn, m.ptrRecv, ft = vm.Func, false, vm.Type
		}
		reason := ""
		switch {
		case denyName.MatchString(mm.Name):
			reason = "name: non-arithmetic / decided by another property"
		case denyDocumented[T.Name()+"."+mm.Name] != "":
			reason = "documented aliasing restriction: " + denyDocumented[T.Name()+"."+mm.Name]
		case valueRecv && recvSlice == nil:
			reason = "value receiver"
		case ft.IsVariadic():
			reason = "variadic"
		}
		if reason == "" {
			rp := position{kind: kAlias, typ: ft.In(0), id: T, nm: "z"}
			m.pos = []position{rp}
			for j := 1; j < ft.NumIn(); j++ {
				p, why := classifyParam(ft.In(j), recvSlice)
				if why != "" {
					reason = why
					break
				}
				p.nm = string(rune('a' + j - 1))
				m.pos = append(m.pos, p)
				// valid points can only be generated inside the point / Edwards worlds
				if vt := valueType(p); pointName.MatchString(vt.Name()) && tg.fam != "point" && tg.fam != "edwards" {
					reason = "point operand " + vt.String() + " outside a point type"
					break
				}
			}
		}
		if reason == "" {
			for j := 0; j < ft.NumOut(); j++ {
				if !okResult(ft.Out(j), recvSlice) {
					reason = "result type " + ft.Out(j).String()
					break
				}
				m.outs = append(m.outs, ft.Out(j))
			}
		}
		if reason == "" {
			m.buildPartitions()
			if len(m.parts) == 0 {
				reason = "no two shareable positions of one type (value/scalar operands cannot alias)"
			}
		}
		out = append(out, verdict{m, reason})
	}
	return out
}

func (m *method) buildPartitions() {
	// alias classes in order of first occurrence
	var ids []reflect.Type
	cls := map[reflect.Type][]int{}
	for i, p := range m.pos {
		if p.kind != kAlias {
			continue
		}
		if _, ok := cls[p.id]; !ok {
			ids = append(ids, p.id)
		}
		cls[p.id] = append(cls[p.id], i)
	}
	combos := [][]int{make([]int, len(m.pos))}
	for i := range combos[0] {
		combos[0][i] = -1
	}
	for _, id := range ids {
		members := cls[id]
		sp := setPartitions(len(members))
		var nc [][]int
		for _, c := range combos {
			base := 0
			for _, g := range c {
				if g >= base {
					base = g + 1
				}
			}
			for _, s := range sp {
				d := append([]int(nil), c...)
				for k, pi := range members {
					d[pi] = base + s[k]
				}
				nc = append(nc, d)
			}
		}
		combos = nc
		if len(combos) > 100000 {
			break
		}
	}
	for _, c := range combos {
		cnt := map[int]int{}
		aliased := false
		for _, g := range c {
			if g >= 0 {
				cnt[g]++
				if cnt[g] > 1 {
					aliased = true
				}
			}
		}
		if aliased {
			m.parts = append(m.parts, c)
			m.shapes = append(m.shapes, m.shape(c))
		}
	}
}

// shape renders a partition, e.g. "z=a", "a=b", "z=a=b", "z=a,b=c".
func (m *method) shape(c []int) string {
	groups := map[int][]string{}
	var order []int
	for i, g := range c {
		if g < 0 {
			continue
		}
		if _, ok := groups[g]; !ok {
			order = append(order, g)
		}
		groups[g] = append(groups[g], m.pos[i].nm)
	}
	var parts []string
	for _, g := range order {
		if len(groups[g]) > 1 {
			parts = append(parts, strings.Join(groups[g], "="))
		}
	}
	return strings.Join(parts, ",")
}

func (m *method) sig() string {
	var ps []string
	for _, p := range m.pos[1:] {
		ps = append(ps, p.typ.String())
	}
	var os []string
	for _, o := range m.outs {
		os = append(os, o.String())
	}
	return fmt.Sprintf("%s(%s) (%s)", m.name, strings.Join(ps, ", "), strings.Join(os, ", "))
}
