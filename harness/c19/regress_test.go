package c19

import (
	"math/big"
	"reflect"
	"testing"

	"verif/harness/internal/reg"
)

// TestC19_RegressDecompressKarabina: z.DecompressKarabina(x) must compute the same value on a
// distinct receiver as in place (z = x). In the pinned tree the hand-written towers (bw6-633/761 E6,
// bls24-315/317 E24) computed g0 from the *input's* stale g4 coordinate (x.B1.A1 / x.D1.C1) instead
// of the g4 just written to z, so only the in-place call (the only form the library itself uses)
// gave the decompressed element. Rapid-free; runs over every tower type that has the method.
func TestC19_RegressDecompressKarabina(t *testing.T) {
	n := 0
	for _, tg := range catalogue {
		if tg.fam != "tower" {
			continue
		}
		if _, ok := reflect.PtrTo(tg.typ).MethodByName("DecompressKarabina"); !ok {
			continue
		}
		n++
		deg := reg.Degree(tg.typ)
		// six "g" coordinates; pattern b zeroes block b (b = -1: none), covering the g3 = 0 and g2 = g3 = 0 branches
		blk := deg / 6
		bad := 0
		for b := -1; b < 6 && bad == 0; b++ {
			for b2 := b; b2 < 6; b2++ {
				vals := make([]*big.Int, deg)
				for i := range vals {
					vals[i] = big.NewInt(int64(3*i + 2))
					if b >= 0 && (i/blk == b || i/blk == b2) {
						vals[i] = new(big.Int)
					}
				}
				x := reflect.New(tg.typ)
				reg.Unflatten(x.Interface(), vals)
				inPlace := reflect.New(tg.typ)
				inPlace.Elem().Set(x.Elem())
				inPlace.MethodByName("DecompressKarabina").Call([]reflect.Value{inPlace})
				distinct := reflect.New(tg.typ)
				reg.Unflatten(distinct.Interface(), vals) // same prior receiver value as in place
				xc := reflect.New(tg.typ)
				xc.Elem().Set(x.Elem())
				distinct.MethodByName("DecompressKarabina").Call([]reflect.Value{xc})
				if !equalVal(xc.Elem(), x.Elem()) {
					t.Errorf("%s: DecompressKarabina modified its operand", tg.id())
				}
				if !equalVal(inPlace.Elem(), distinct.Elem()) {
					bad++
					if bad > 1 {
						continue
					}
					t.Errorf("%s: z.DecompressKarabina(x) differs between z = x and a distinct z (zeroed blocks %d,%d):\n in place %v\n distinct %v",
						tg.id(), b, b2, reg.Flatten(inPlace.Interface()), reg.Flatten(distinct.Interface()))
				}
			}
		}
	}
	if n < 7 {
		t.Fatalf("only %d tower types with DecompressKarabina found", n)
	}
}
